import MaddyVerif.Model.Dane
import MaddyVerif.Generated.DaneFacts
import MaddyVerif.Expect.Dane
/-!
# C13 — DANE authentication accepts only a matching TLSA record and fails closed

Quantifier: every list of TLSA records (any length, any field values), every certificate chain
(any length), every behaviour of the library primitives `E : Env` (record/certificate matching,
`IsCA`, X.509 path validation) and every outcome of the DNS lookups `D : Dns`; for the resolver
part every list of configured servers, every answer over either transport, every `Transport`.
The property's stated space (≤ 4 records × 5 chains × handshake yes/no) is a finite subset.
-/
namespace MaddyVerif.C13
open MaddyVerif.Dane

/-! ## The statement's vocabulary, written independently of the model's helper functions -/

/-- RFC 7672 §3.1: a record is usable when its parameters are supported: matching type 0–2,
selector 0–1, usage DANE-TA(2) or DANE-EE(3). -/
def Usable (r : Rec) : Prop := r.mtype ≤ 2 ∧ r.selector ≤ 1 ∧ (r.usage = 2 ∨ r.usage = 3)

instance (r : Rec) : Decidable (Usable r) := by unfold Usable; infer_instance

/-- a usable DANE-EE record matches the server's own certificate -/
def EEMatch (E : Env) (recs : List Rec) (leaf : Cert) : Prop :=
  ∃ r ∈ recs, Usable r ∧ r.usage = 3 ∧ E.recMatches r leaf = true

/-- `c` is a trust anchor asserted by the RRset: a CA certificate of the presented chain that a
usable DANE-TA record matches -/
def Anchor (E : Env) (recs : List Rec) (chain : List Cert) (c : Cert) : Prop :=
  c ∈ chain ∧ E.isCA c = true ∧ ∃ r ∈ recs, Usable r ∧ r.usage = 2 ∧ E.recMatches r c = true

/-- the server certificate validly chains (for the MX name: folded into `chainVerify`) to the
asserted anchors, all other presented certificates serving as intermediates. `roots`/`inters` are
the pools as sets. -/
def TAMatch (E : Env) (recs : List Rec) (chain : List Cert) (leaf : Cert) : Prop :=
  ∃ roots inters, (∀ c, c ∈ roots ↔ Anchor E recs chain c) ∧
    (∀ c, c ∈ inters ↔ c ∈ chain ∧ ¬ Anchor E recs chain c) ∧
    E.chainVerify roots inters leaf = true

/-- `verifyDANE` authenticates: `overridePKIX = true`, no error -/
def Authenticated (res : Res) : Prop := res = .ret true none

/-- `verifyDANE` refuses the connection: an error is returned -/
def Refused (res : Res) : Prop := ∃ o e, res = .ret o (some e)

/-! ## helper lemmas: the model's filters are the statement's notions -/

theorem isEE_iff (r : Rec) : isEE r = true ↔ Usable r ∧ r.usage = 3 := by
  simp only [isEE, mtypeOk, selectorOk, Usable, Bool.and_eq_true, Bool.or_eq_true, beq_iff_eq]
  omega

theorem isTA_iff (r : Rec) : isTA r = true ↔ Usable r ∧ r.usage = 2 := by
  simp only [isTA, mtypeOk, selectorOk, Usable, Bool.and_eq_true, Bool.or_eq_true, beq_iff_eq]
  omega

theorem usable_iff (r : Rec) : Usable r ↔ isEE r = true ∨ isTA r = true := by
  rw [isEE_iff, isTA_iff]; unfold Usable; omega

theorem mem_eeRecs (recs : List Rec) (r : Rec) : r ∈ eeRecs recs ↔ r ∈ recs ∧ Usable r ∧ r.usage = 3 := by
  simp [eeRecs, List.mem_filter, isEE_iff]

theorem mem_taRecs (recs : List Rec) (r : Rec) : r ∈ taRecs recs ↔ r ∈ recs ∧ Usable r ∧ r.usage = 2 := by
  simp [taRecs, List.mem_filter, isTA_iff]

theorem ee_any_iff (E : Env) (recs : List Rec) (leaf : Cert) :
    (eeRecs recs).any (fun r => E.recMatches r leaf) = true ↔ EEMatch E recs leaf := by
  simp only [List.any_eq_true, mem_eeRecs, EEMatch]
  constructor
  · rintro ⟨r, ⟨h1, h2, h3⟩, h4⟩; exact ⟨r, h1, h2, h3, h4⟩
  · rintro ⟨r, h1, h2, h3, h4⟩; exact ⟨r, ⟨h1, h2, h3⟩, h4⟩

theorem no_usable_iff (recs : List Rec) :
    ((eeRecs recs).isEmpty && (taRecs recs).isEmpty) = true ↔ ∀ r ∈ recs, ¬ Usable r := by
  simp only [Bool.and_eq_true, List.isEmpty_iff, eeRecs, taRecs, List.filter_eq_nil_iff]
  constructor
  · rintro ⟨h1, h2⟩ r hr hu
    rcases (usable_iff r).mp hu with h | h
    · exact h1 r hr h
    · exact h2 r hr h
  · intro h
    exact ⟨fun r hr he => h r hr ((usable_iff r).mpr (Or.inl he)),
           fun r hr ht => h r hr ((usable_iff r).mpr (Or.inr ht))⟩

theorem ta_isEmpty_iff (recs : List Rec) :
    (taRecs recs).isEmpty = true ↔ ¬ ∃ r ∈ recs, Usable r ∧ r.usage = 2 := by
  simp only [List.isEmpty_iff, taRecs, List.filter_eq_nil_iff, isTA_iff]
  constructor
  · rintro h ⟨r, hr, hu⟩; exact h r hr hu
  · intro h r hr hu; exact h ⟨r, hr, hu⟩

theorem isRoot_iff (E : Env) (recs : List Rec) (c : Cert) :
    isRoot E (taRecs recs) c = true ↔
      E.isCA c = true ∧ ∃ r ∈ recs, Usable r ∧ r.usage = 2 ∧ E.recMatches r c = true := by
  simp only [isRoot, List.any_eq_true, mem_taRecs, Bool.and_eq_true]
  constructor
  · rintro ⟨r, ⟨h1, h2, h3⟩, h4, h5⟩; exact ⟨h4, r, h1, h2, h3, h5⟩
  · rintro ⟨h4, r, h1, h2, h3, h5⟩; exact ⟨r, ⟨h1, h2, h3⟩, h4, h5⟩

/-- The root pool built by `verifyDANE` holds exactly the asserted anchors. -/
theorem mem_rootAdds (E : Env) (recs : List Rec) (chain : List Cert) (c : Cert) :
    c ∈ rootAdds E (taRecs recs) chain ↔ Anchor E recs chain c := by
  simp only [rootAdds, rootAddsOf, List.mem_flatMap, List.mem_map, List.mem_filter, mem_taRecs,
    Bool.and_eq_true, Anchor]
  constructor
  · rintro ⟨d, hd, r, ⟨⟨h1, h2, h3⟩, h4, h5⟩, rfl⟩; exact ⟨hd, h4, r, h1, h2, h3, h5⟩
  · rintro ⟨hd, h4, r, h1, h2, h3, h5⟩; exact ⟨c, hd, r, ⟨⟨h1, h2, h3⟩, h4, h5⟩, rfl⟩

/-- The intermediate pool holds exactly the other presented certificates. -/
theorem mem_interAdds (E : Env) (recs : List Rec) (chain : List Cert) (c : Cert) :
    c ∈ interAdds E (taRecs recs) chain ↔ c ∈ chain ∧ ¬ Anchor E recs chain c := by
  simp only [interAdds, List.mem_filter, Bool.not_eq_true', Anchor]
  constructor
  · rintro ⟨hc, hr⟩
    refine ⟨hc, ?_⟩
    rintro ⟨_, h⟩
    have := (isRoot_iff E recs c).mpr h
    simp [this] at hr
  · rintro ⟨hc, hn⟩
    refine ⟨hc, ?_⟩
    cases hr : isRoot E (taRecs recs) c with
    | false => rfl
    | true => exact absurd ⟨hc, (isRoot_iff E recs c).mp hr⟩ hn

/-- the X.509 step of `verifyDANE`, on the pools exactly as the code fills them -/
def TAVerifies (E : Env) (recs : List Rec) (chain : List Cert) (leaf : Cert) : Prop :=
  (∃ r ∈ recs, Usable r ∧ r.usage = 2) ∧
    E.chainVerify (rootAdds E (taRecs recs) chain) (interAdds E (taRecs recs) chain) leaf = true

/-! ## The result of `verifyDANE`, completely -/

/-- Complete case analysis of `verifyDANE` for a non-empty peer chain: five disjoint input classes,
one result each. All the C13 theorems below are read off this table. -/
theorem verifyDANE_spec (E : Env) (recs : List Rec) (hs : Bool) (leaf : Cert) (rest : List Cert) :
    (recs = [] → verifyDANE E recs hs (leaf :: rest) = .ret false none) ∧
    (recs ≠ [] → hs = false → verifyDANE E recs hs (leaf :: rest) = .ret false (some .tlsRequired)) ∧
    (recs ≠ [] → hs = true → (∀ r ∈ recs, ¬ Usable r) →
        verifyDANE E recs hs (leaf :: rest) = .ret false none) ∧
    (hs = true → (∃ r ∈ recs, Usable r) →
        (EEMatch E recs leaf ∨ TAVerifies E recs (leaf :: rest) leaf) →
        verifyDANE E recs hs (leaf :: rest) = .ret true none) ∧
    (hs = true → (∃ r ∈ recs, Usable r) →
        ¬ (EEMatch E recs leaf ∨ TAVerifies E recs (leaf :: rest) leaf) →
        verifyDANE E recs hs (leaf :: rest) = .ret false (some .noMatch)) := by
  refine ⟨?_, ?_, ?_, ?_, ?_⟩
  · intro h; simp [verifyDANE, h]
  · intro h1 h2
    have : recs.isEmpty = false := by simpa [List.isEmpty_iff] using h1
    simp [verifyDANE, this, h2]
  · intro h1 h2 h3
    have : recs.isEmpty = false := by simpa [List.isEmpty_iff] using h1
    have hn := (no_usable_iff recs).mpr h3
    simp only [verifyDANE, this, h2]
    simp [hn]
  · intro h2 ⟨r0, hr0, hu0⟩ hm
    have hne : recs.isEmpty = false := by
      cases recs with
      | nil => cases hr0
      | cons _ _ => rfl
    have hn : ((eeRecs recs).isEmpty && (taRecs recs).isEmpty) = false := by
      rw [Bool.eq_false_iff]; intro hc
      exact (no_usable_iff recs).mp hc r0 hr0 hu0
    simp only [verifyDANE, hne, h2, hn]
    by_cases hee : EEMatch E recs leaf
    · have := (ee_any_iff E recs leaf).mpr hee
      simp [this]
    · have hee' : (eeRecs recs).any (fun r => E.recMatches r leaf) = false := by
        rw [Bool.eq_false_iff]; intro hc; exact hee ((ee_any_iff E recs leaf).mp hc)
      rcases hm with hm | ⟨hta, hv⟩
      · exact absurd hm hee
      · have : (taRecs recs).isEmpty = false := by
          rw [Bool.eq_false_iff]; intro hc; exact (ta_isEmpty_iff recs).mp hc hta
        simp [hee', this, hv]
  · intro h2 ⟨r0, hr0, hu0⟩ hm
    have hne : recs.isEmpty = false := by
      cases recs with
      | nil => cases hr0
      | cons _ _ => rfl
    have hn : ((eeRecs recs).isEmpty && (taRecs recs).isEmpty) = false := by
      rw [Bool.eq_false_iff]; intro hc
      exact (no_usable_iff recs).mp hc r0 hr0 hu0
    have hee' : (eeRecs recs).any (fun r => E.recMatches r leaf) = false := by
      rw [Bool.eq_false_iff]; intro hc; exact hm (Or.inl ((ee_any_iff E recs leaf).mp hc))
    simp only [verifyDANE, hne, h2, hn]
    by_cases hta : (taRecs recs).isEmpty = true
    · simp [hee', hta]
    · have hta' : (taRecs recs).isEmpty = false := by simpa using hta
      have hex : ∃ r ∈ recs, Usable r ∧ r.usage = 2 := by
        apply Classical.byContradiction; intro hc
        exact hta ((ta_isEmpty_iff recs).mpr hc)
      have hv : E.chainVerify (rootAdds E (taRecs recs) (leaf :: rest))
          (interAdds E (taRecs recs) (leaf :: rest)) leaf = false := by
        rw [Bool.eq_false_iff]; intro hc; exact hm (Or.inr ⟨hex, hc⟩)
      simp [hee', hta', hv]

/-! ## C13 theorems -/

/-- **C13 (authenticates-iff).** With a non-empty peer chain, `verifyDANE` authenticates the
server exactly when the handshake completed and either a usable DANE-EE record matches the
server's own certificate, or usable DANE-TA records exist and the server certificate verifies (for
the MX name) against the pool of anchors `mem_rootAdds` describes. -/
theorem C13_authenticates_iff (E : Env) (recs : List Rec) (hs : Bool) (leaf : Cert) (rest : List Cert) :
    Authenticated (verifyDANE E recs hs (leaf :: rest)) ↔
      hs = true ∧ (EEMatch E recs leaf ∨ TAVerifies E recs (leaf :: rest) leaf) := by
  obtain ⟨s1, s2, s3, s4, s5⟩ := verifyDANE_spec E recs hs leaf rest
  unfold Authenticated
  constructor
  · intro h
    by_cases hr : recs = []
    · rw [s1 hr] at h; cases h
    · cases hhs : hs with
      | false => rw [s2 hr hhs] at h; cases h
      | true =>
        refine ⟨rfl, ?_⟩
        by_cases hu : ∃ r ∈ recs, Usable r
        · apply Classical.byContradiction; intro hm
          rw [s5 hhs hu hm] at h; cases h
        · have : ∀ r ∈ recs, ¬ Usable r := fun r hr' hu' => hu ⟨r, hr', hu'⟩
          rw [s3 hr hhs this] at h; cases h
  · rintro ⟨hhs, hm⟩
    have hu : ∃ r ∈ recs, Usable r := by
      rcases hm with ⟨r, hr, hu, _⟩ | ⟨⟨r, hr, hu, _⟩, _⟩ <;> exact ⟨r, hr, hu⟩
    exact s4 hhs hu hm

/-- What "the server certificate verifies against the anchors" means when X.509 pools are sets: the
pools the code builds can be replaced by any lists with the same members. -/
def PoolsAreSets (E : Env) : Prop :=
  ∀ r r' i i' l, (∀ c, c ∈ r ↔ c ∈ r') → (∀ c, c ∈ i ↔ c ∈ i') →
    E.chainVerify r i l = E.chainVerify r' i' l

/-- crypto/x509: verification against an empty (non-nil) root pool fails. -/
def EmptyRootsFail (E : Env) : Prop := ∀ i l, E.chainVerify [] i l = false

theorem TAVerifies_iff_TAMatch (E : Env) (hset : PoolsAreSets E) (hempty : EmptyRootsFail E)
    (recs : List Rec) (chain : List Cert) (leaf : Cert) :
    TAVerifies E recs chain leaf ↔ TAMatch E recs chain leaf := by
  constructor
  · rintro ⟨_, hv⟩
    exact ⟨_, _, mem_rootAdds E recs chain, mem_interAdds E recs chain, hv⟩
  · rintro ⟨roots, inters, hr, hi, hv⟩
    have heq := hset roots (rootAdds E (taRecs recs) chain) inters (interAdds E (taRecs recs) chain) leaf
      (fun c => (hr c).trans (mem_rootAdds E recs chain c).symm)
      (fun c => (hi c).trans (mem_interAdds E recs chain c).symm)
    rw [heq] at hv
    refine ⟨?_, hv⟩
    cases hroots : roots with
    | nil => rw [hroots] at heq hr; rw [← heq, hempty] at hv; cases hv
    | cons c _ =>
      have : Anchor E recs chain c := (hr c).mp (by simp [hroots])
      obtain ⟨_, _, r, h1, h2, h3, _⟩ := this
      exact ⟨r, h1, h2, h3⟩

/-- **C13 (authenticates-iff, in the words of the property).** Given that X.509 pools behave as
sets and an empty root pool verifies nothing: DANE authenticates the server iff the handshake
completed and a usable DANE-EE record matches the server's own certificate, or the server
certificate validly chains to the set of CA certificates of the presented chain that usable DANE-TA
records match (which is then non-empty, see `C13_authenticated_has_anchor`). -/
theorem C13_authenticates_iff_spec (E : Env) (hset : PoolsAreSets E) (hempty : EmptyRootsFail E)
    (recs : List Rec) (hs : Bool) (leaf : Cert) (rest : List Cert) :
    Authenticated (verifyDANE E recs hs (leaf :: rest)) ↔
      hs = true ∧ (EEMatch E recs leaf ∨ TAMatch E recs (leaf :: rest) leaf) := by
  rw [C13_authenticates_iff, TAVerifies_iff_TAMatch E hset hempty]

/-- **C13 (only-if direction, no set hypothesis).** An authenticated server has a matching usable
DANE-EE record, or there is an asserted anchor — a CA certificate of the presented chain matched by
a usable DANE-TA record — and the certificate verified against the anchors. -/
theorem C13_authenticated_has_anchor (E : Env) (hempty : EmptyRootsFail E)
    (recs : List Rec) (hs : Bool) (leaf : Cert) (rest : List Cert)
    (h : Authenticated (verifyDANE E recs hs (leaf :: rest))) :
    hs = true ∧ (EEMatch E recs leaf ∨
      ((∃ c, Anchor E recs (leaf :: rest) c) ∧ TAMatch E recs (leaf :: rest) leaf)) := by
  obtain ⟨hhs, hm⟩ := (C13_authenticates_iff E recs hs leaf rest).mp h
  refine ⟨hhs, ?_⟩
  rcases hm with hm | ⟨hta, hv⟩
  · exact Or.inl hm
  · refine Or.inr ⟨?_, _, _, mem_rootAdds E recs _, mem_interAdds E recs _, hv⟩
    cases hroots : rootAdds E (taRecs recs) (leaf :: rest) with
    | nil => rw [hroots, hempty] at hv; cases hv
    | cons c _ =>
      exact ⟨c, (mem_rootAdds E recs _ c).mp (by simp [hroots])⟩

/-- crypto/x509: a valid path ends at one root of the pool, and stays valid when the other roots are
demoted to intermediates. -/
def PathEndsAtOneRoot (E : Env) : Prop :=
  ∀ roots inters leaf, E.chainVerify roots inters leaf = true →
    ∃ c ∈ roots, E.chainVerify [c] (inters ++ roots.filter (· ≠ c)) leaf = true

/-- **C13 (only-if direction, per anchor).** Given that law: an authenticated server has a matching
usable DANE-EE record, or there is ONE certificate `c` of the presented chain that is a CA
certificate, is matched by a usable DANE-TA record, and to which — as the only trust anchor, with
nothing but presented certificates as intermediates — the server certificate validly chains for
the MX name. -/
theorem C13_authenticated_chains_to_matched_anchor (E : Env) (hpath : PathEndsAtOneRoot E)
    (recs : List Rec) (hs : Bool) (leaf : Cert) (rest : List Cert)
    (h : Authenticated (verifyDANE E recs hs (leaf :: rest))) :
    hs = true ∧ (EEMatch E recs leaf ∨
      ∃ c inters, Anchor E recs (leaf :: rest) c ∧ (∀ d ∈ inters, d ∈ leaf :: rest) ∧
        E.chainVerify [c] inters leaf = true) := by
  obtain ⟨hhs, hm⟩ := (C13_authenticates_iff E recs hs leaf rest).mp h
  refine ⟨hhs, ?_⟩
  rcases hm with hm | ⟨_, hv⟩
  · exact Or.inl hm
  · obtain ⟨c, hc, hvc⟩ := hpath _ _ _ hv
    refine Or.inr ⟨c, _, (mem_rootAdds E recs _ c).mp hc, ?_, hvc⟩
    intro d hd
    rcases List.mem_append.mp hd with hd | hd
    · exact ((mem_interAdds E recs _ d).mp hd).1
    · exact ((mem_rootAdds E recs _ d).mp (List.mem_filter.mp hd).1).1

/-- **C13 (an invalid path is refused, whatever makes it invalid).** Usable records exist, no usable
DANE-EE record matches the server's own certificate, and the server certificate does NOT validly
chain to the asserted anchors (X.509's verdict on the pools the code builds — for whatever reason:
an expired, not yet valid, non-CA, wrong-purpose, name- or path-length-constrained CA certificate
anywhere on the path, the anchor itself included, an expired or wrong-name leaf): the connection is
refused with "No matching TLSA records". There is no second opinion. -/
theorem C13_invalid_path_refused (E : Env) (recs : List Rec) (leaf : Cert) (rest : List Cert)
    (hu : ∃ r ∈ recs, Usable r) (hee : ¬ EEMatch E recs leaf)
    (hv : E.chainVerify (rootAdds E (taRecs recs) (leaf :: rest))
      (interAdds E (taRecs recs) (leaf :: rest)) leaf = false) :
    verifyDANE E recs true (leaf :: rest) = .ret false (some .noMatch) := by
  obtain ⟨_, _, _, _, s5⟩ := verifyDANE_spec E recs true leaf rest
  apply s5 rfl hu
  rintro (h | ⟨_, h⟩)
  · exact hee h
  · rw [hv] at h; cases h

/-- **C13 (one X.509 verdict decides).** `verifyDANE` consults X.509 path validation with ONE
question — the pools it built from the presented chain, the leaf, the MX name, the current time —
and nothing else of it: two worlds with the same record matching and the same CA flags whose
validators agree on that one question (and may differ on every other one: other moments in time,
other key usages, other pools) give the same result. A retry of the validation under relaxed
options is a second question; the code asks none. -/
theorem C13_one_x509_verdict_decides (m : Rec → Cert → Bool) (ca : Cert → Bool)
    (cv cv' : List Cert → List Cert → Cert → Bool)
    (recs : List Rec) (hs : Bool) (leaf : Cert) (rest : List Cert)
    (hq : cv' (rootAdds ⟨m, ca, cv⟩ (taRecs recs) (leaf :: rest))
        (interAdds ⟨m, ca, cv⟩ (taRecs recs) (leaf :: rest)) leaf =
      cv (rootAdds ⟨m, ca, cv⟩ (taRecs recs) (leaf :: rest))
        (interAdds ⟨m, ca, cv⟩ (taRecs recs) (leaf :: rest)) leaf) :
    verifyDANE ⟨m, ca, cv'⟩ recs hs (leaf :: rest) = verifyDANE ⟨m, ca, cv⟩ recs hs (leaf :: rest) := by
  have hr : ∀ ta ch, rootAdds ⟨m, ca, cv'⟩ ta ch = rootAdds ⟨m, ca, cv⟩ ta ch := fun _ _ => rfl
  have hi : ∀ ta ch, interAdds ⟨m, ca, cv'⟩ ta ch = interAdds ⟨m, ca, cv⟩ ta ch := fun _ _ => rfl
  simp only [verifyDANE, hr, hi, hq]

/-- **C13 (refuse-iff).** With a non-empty peer chain, the connection is refused exactly when a
record exists and TLS was not negotiated, or usable records exist and none matches. -/
theorem C13_refuse_iff (E : Env) (recs : List Rec) (hs : Bool) (leaf : Cert) (rest : List Cert) :
    Refused (verifyDANE E recs hs (leaf :: rest)) ↔
      (recs ≠ [] ∧ hs = false) ∨
      (hs = true ∧ (∃ r ∈ recs, Usable r) ∧
        ¬ (EEMatch E recs leaf ∨ TAVerifies E recs (leaf :: rest) leaf)) := by
  obtain ⟨s1, s2, s3, s4, s5⟩ := verifyDANE_spec E recs hs leaf rest
  unfold Refused
  constructor
  · rintro ⟨o, e, h⟩
    by_cases hr : recs = []
    · rw [s1 hr] at h; cases h
    · cases hhs : hs with
      | false => exact Or.inl ⟨hr, rfl⟩
      | true =>
        refine Or.inr ⟨rfl, ?_⟩
        by_cases hu : ∃ r ∈ recs, Usable r
        · refine ⟨hu, ?_⟩
          intro hm; rw [s4 hhs hu hm] at h; cases h
        · have : ∀ r ∈ recs, ¬ Usable r := fun r hr' hu' => hu ⟨r, hr', hu'⟩
          rw [s3 hr hhs this] at h; cases h
  · rintro (⟨hr, hhs⟩ | ⟨hhs, hu, hm⟩)
    · exact ⟨_, _, s2 hr hhs⟩
    · exact ⟨_, _, s5 hhs hu hm⟩

/-- Which refusal: 550 5.7.1 "TLS is required" without a handshake, 550 5.7.0 "No matching TLSA
records" otherwise; `overridePKIX` is false in every refusal. -/
theorem C13_refusal_kind (E : Env) (recs : List Rec) (hs : Bool) (leaf : Cert) (rest : List Cert)
    (h : Refused (verifyDANE E recs hs (leaf :: rest))) :
    verifyDANE E recs hs (leaf :: rest) =
      .ret false (some (if hs then DErr.noMatch else DErr.tlsRequired)) := by
  obtain ⟨_, s2, _, _, s5⟩ := verifyDANE_spec E recs hs leaf rest
  rcases (C13_refuse_iff E recs hs leaf rest).mp h with ⟨hr, hhs⟩ | ⟨hhs, hu, hm⟩
  · rw [s2 hr hhs]; simp [hhs]
  · rw [s5 hhs hu hm]; simp [hhs]

/-- **C13 (trichotomy).** With a non-empty peer chain the outcome is exactly one of: authenticated,
refused, neutral `(false, nil)`. -/
theorem C13_outcome_cases (E : Env) (recs : List Rec) (hs : Bool) (leaf : Cert) (rest : List Cert) :
    Authenticated (verifyDANE E recs hs (leaf :: rest)) ∨
    Refused (verifyDANE E recs hs (leaf :: rest)) ∨
    verifyDANE E recs hs (leaf :: rest) = .ret false none := by
  obtain ⟨s1, s2, s3, s4, s5⟩ := verifyDANE_spec E recs hs leaf rest
  by_cases hr : recs = []
  · exact Or.inr (Or.inr (s1 hr))
  · by_cases hhs : hs = true
    · by_cases hu : ∃ r ∈ recs, Usable r
      · by_cases hm : EEMatch E recs leaf ∨ TAVerifies E recs (leaf :: rest) leaf
        · exact Or.inl (s4 hhs hu hm)
        · exact Or.inr (Or.inl ⟨_, _, s5 hhs hu hm⟩)
      · have : ∀ r ∈ recs, ¬ Usable r := fun r hr' hu' => hu ⟨r, hr', hu'⟩
        exact Or.inr (Or.inr (s3 hr hhs this))
    · have hhs' : hs = false := by simpa using hhs
      exact Or.inr (Or.inl ⟨_, _, s2 hr hhs'⟩)

/-- **C13 (unusable-only is neutral).** Absent or exclusively unusable records never cause a refusal
of a TLS connection and never grant authentication: the result is `(false, nil)` — for every chain,
the empty one included (no certificate is touched). -/
theorem C13_unusable_only_is_neutral (E : Env) (recs : List Rec) (chain : List Cert)
    (h : ∀ r ∈ recs, ¬ Usable r) :
    verifyDANE E recs true chain = .ret false none := by
  have hn := (no_usable_iff recs).mpr h
  unfold verifyDANE
  split
  · rfl
  · simp only [Bool.not_true, Bool.false_eq_true, ↓reduceIte]
    simp [hn]

/-- Absent or exclusively unusable records never grant authentication, handshake or not. -/
theorem C13_unusable_only_never_authenticates (E : Env) (recs : List Rec) (hs : Bool)
    (chain : List Cert) (h : ∀ r ∈ recs, ¬ Usable r) (e : Option DErr) :
    verifyDANE E recs hs chain ≠ .ret true e := by
  cases hs with
  | true => rw [C13_unusable_only_is_neutral E recs chain h]; intro hc; cases hc
  | false =>
    unfold verifyDANE
    split
    · intro hc; cases hc
    · simp

/-- No records: neutral whether or not TLS was negotiated. -/
theorem C13_absent_is_neutral (E : Env) (hs : Bool) (chain : List Cert) :
    verifyDANE E [] hs chain = .ret false none := by
  simp [verifyDANE]

/-- **C13 (fails closed without TLS).** Any record at all — usable or not — and no completed
handshake: refused with "TLS is required", for every chain. -/
theorem C13_no_tls_refused (E : Env) (recs : List Rec) (chain : List Cert) (h : recs ≠ []) :
    verifyDANE E recs false chain = .ret false (some .tlsRequired) := by
  have : recs.isEmpty = false := by simpa [List.isEmpty_iff] using h
  simp [verifyDANE, this]

/-- **C13 (no panic).** `verifyDANE` does not panic when the peer presented at least one
certificate (which a completed handshake guarantees) … -/
theorem C13_no_panic (E : Env) (recs : List Rec) (hs : Bool) (leaf : Cert) (rest : List Cert) :
    verifyDANE E recs hs (leaf :: rest) ≠ .panic := by
  rcases C13_outcome_cases E recs hs leaf rest with h | ⟨o, e, h⟩ | h <;>
    (try unfold Authenticated at h) <;> rw [h] <;> intro hc <;> cases hc

/-- … and the only way to a panic is: handshake reported complete, some usable record, no peer
certificate at all. -/
theorem C13_panic_iff (E : Env) (recs : List Rec) (hs : Bool) (chain : List Cert) :
    verifyDANE E recs hs chain = .panic ↔ hs = true ∧ (∃ r ∈ recs, Usable r) ∧ chain = [] := by
  constructor
  · intro h
    cases chain with
    | cons leaf rest => exact absurd h (C13_no_panic E recs hs leaf rest)
    | nil =>
      cases hs with
      | false =>
        exfalso
        unfold verifyDANE at h
        split at h
        · cases h
        · simp at h
      | true =>
        refine ⟨rfl, ?_, rfl⟩
        apply Classical.byContradiction; intro hu
        have : ∀ r ∈ recs, ¬ Usable r := fun r hr' hu' => hu ⟨r, hr', hu'⟩
        rw [C13_unusable_only_is_neutral E recs [] this] at h; cases h
  · rintro ⟨rfl, ⟨r0, hr0, hu0⟩, rfl⟩
    have hne : recs.isEmpty = false := by
      cases recs with
      | nil => cases hr0
      | cons _ _ => rfl
    have hn : ((eeRecs recs).isEmpty && (taRecs recs).isEmpty) = false := by
      rw [Bool.eq_false_iff]; intro hc
      exact (no_usable_iff recs).mp hc r0 hr0 hu0
    simp [verifyDANE, hne, hn]

/-- Whenever `overridePKIX` is reported, the server was authenticated and no error accompanies it
(this is what the `fix:` commit established: the EE-only mismatch path used to return
`(true, "No matching TLSA records")`). Any chain, the empty one included. -/
theorem C13_override_iff_authenticated (E : Env) (recs : List Rec) (hs : Bool) (chain : List Cert)
    (e : Option DErr) :
    verifyDANE E recs hs chain = .ret true e ↔ Authenticated (verifyDANE E recs hs chain) ∧ e = none := by
  unfold Authenticated
  constructor
  · intro h
    have he : e = none := by
      cases chain with
      | cons leaf rest =>
        rcases C13_outcome_cases E recs hs leaf rest with ha | hr | hn
        · unfold Authenticated at ha; rw [ha] at h; cases h; rfl
        · rw [C13_refusal_kind E recs hs leaf rest hr] at h; cases h
        · rw [hn] at h; cases h
      | nil =>
        exfalso
        cases hs with
        | false =>
          by_cases hr : recs = []
          · subst hr; rw [C13_absent_is_neutral] at h; cases h
          · rw [C13_no_tls_refused E recs [] hr] at h; cases h
        | true =>
          by_cases hu : ∃ r ∈ recs, Usable r
          · rw [(C13_panic_iff E recs true []).mpr ⟨rfl, hu, rfl⟩] at h; cases h
          · have : ∀ r ∈ recs, ¬ Usable r := fun r hr' hu' => hu ⟨r, hr', hu'⟩
            rw [C13_unusable_only_is_neutral E recs [] this] at h; cases h
    subst he
    exact ⟨h, rfl⟩
  · rintro ⟨h, rfl⟩; exact h

/-! ## The record set is a multiset; unusable records are inert -/

theorem rootAddsOf_perm (E : Env) (ta ta' : List Rec) (h : ta.Perm ta') (c : Cert) :
    rootAddsOf E ta c = rootAddsOf E ta' c := by
  unfold rootAddsOf
  have hp := (h.filter (fun r => E.isCA c && E.recMatches r c)).length_eq
  generalize ta.filter (fun r => E.isCA c && E.recMatches r c) = l at hp
  generalize ta'.filter (fun r => E.isCA c && E.recMatches r c) = l' at hp
  induction l generalizing l' with
  | nil => cases l' with
    | nil => rfl
    | cons _ _ => simp at hp
  | cons _ _ ih => cases l' with
    | nil => simp at hp
    | cons _ _ => simp at hp; simp [ih _ hp]

/-- **C13 (order of records is irrelevant).** The verdict depends on the *multiset* of records —
which is what the property quantifies over. No hypothesis on the primitives is needed: even the
sequence of `AddCert` calls is the same. -/
theorem C13_perm_invariant (E : Env) (recs recs' : List Rec) (h : recs.Perm recs') (hs : Bool)
    (chain : List Cert) :
    verifyDANE E recs hs chain = verifyDANE E recs' hs chain := by
  have hee : (eeRecs recs).Perm (eeRecs recs') := h.filter _
  have hta : (taRecs recs).Perm (taRecs recs') := h.filter _
  have h1 : recs.isEmpty = recs'.isEmpty := by
    cases recs with
    | nil => rw [List.nil_perm.mp h]
    | cons a l => cases recs' with
      | nil => exact absurd (List.perm_nil.mp h) (by simp)
      | cons _ _ => rfl
  have h2 : (eeRecs recs).isEmpty = (eeRecs recs').isEmpty := by
    generalize eeRecs recs = a at hee; generalize eeRecs recs' = b at hee
    cases a with
    | nil => rw [List.nil_perm.mp hee]
    | cons _ _ => cases b with
      | nil => exact absurd (List.perm_nil.mp hee) (by simp)
      | cons _ _ => rfl
  have h3 : (taRecs recs).isEmpty = (taRecs recs').isEmpty := by
    have hta' := hta
    generalize taRecs recs = a at hta'; generalize taRecs recs' = b at hta'
    cases a with
    | nil => rw [List.nil_perm.mp hta']
    | cons _ _ => cases b with
      | nil => exact absurd (List.perm_nil.mp hta') (by simp)
      | cons _ _ => rfl
  have h4 : ∀ leaf, (eeRecs recs).any (fun r => E.recMatches r leaf) =
      (eeRecs recs').any (fun r => E.recMatches r leaf) := by
    intro leaf
    rw [Bool.eq_iff_iff, List.any_eq_true, List.any_eq_true]
    constructor
    · rintro ⟨r, hr, hm⟩; exact ⟨r, hee.mem_iff.mp hr, hm⟩
    · rintro ⟨r, hr, hm⟩; exact ⟨r, hee.mem_iff.mpr hr, hm⟩
  have h5 : rootAdds E (taRecs recs) chain = rootAdds E (taRecs recs') chain := by
    unfold rootAdds
    congr 1
    funext c
    exact rootAddsOf_perm E _ _ hta c
  have h6 : interAdds E (taRecs recs) chain = interAdds E (taRecs recs') chain := by
    unfold interAdds
    apply List.filter_congr
    intro c _
    congr 1
    unfold isRoot
    rw [Bool.eq_iff_iff, List.any_eq_true, List.any_eq_true]
    constructor
    · rintro ⟨r, hr, hm⟩; exact ⟨r, hta.mem_iff.mp hr, hm⟩
    · rintro ⟨r, hr, hm⟩; exact ⟨r, hta.mem_iff.mpr hr, hm⟩
  unfold verifyDANE
  simp only [h1, h2, h3, h4, h5, h6]

/-- **C13 (unusable records are inert on a TLS connection).** Dropping every unusable record does
not change the verdict of a TLS connection: an unusable record next to a mismatching usable one
neither rescues nor condemns it. -/
theorem C13_unusable_records_ignored (E : Env) (recs : List Rec) (chain : List Cert) :
    verifyDANE E recs true chain = verifyDANE E (recs.filter (fun r => decide (Usable r))) true chain := by
  have he : eeRecs (recs.filter (fun r => decide (Usable r))) = eeRecs recs := by
    unfold eeRecs
    rw [List.filter_filter]
    apply List.filter_congr
    intro r _
    by_cases h : isEE r = true
    · have := ((isEE_iff r).mp h).1; simp [h, this]
    · simp [h]
  have ht : taRecs (recs.filter (fun r => decide (Usable r))) = taRecs recs := by
    unfold taRecs
    rw [List.filter_filter]
    apply List.filter_congr
    intro r _
    by_cases h : isTA r = true
    · have := ((isTA_iff r).mp h).1; simp [h, this]
    · simp [h]
  by_cases hu : ∀ r ∈ recs, ¬ Usable r
  · rw [C13_unusable_only_is_neutral E recs chain hu]
    rw [C13_unusable_only_is_neutral E _ chain]
    intro r hr; exact hu r (List.mem_filter.mp hr).1
  · have hex : ∃ r ∈ recs, Usable r := by
      apply Classical.byContradiction; intro hc
      exact hu (fun r hr hu' => hc ⟨r, hr, hu'⟩)
    obtain ⟨r0, hr0, hu0⟩ := hex
    have h1 : recs.isEmpty = false := by
      cases recs with
      | nil => cases hr0
      | cons _ _ => rfl
    have h2 : (recs.filter (fun r => decide (Usable r))).isEmpty = false := by
      have : r0 ∈ recs.filter (fun r => decide (Usable r)) := List.mem_filter.mpr ⟨hr0, by simpa using hu0⟩
      cases hl : recs.filter (fun r => decide (Usable r)) with
      | nil => rw [hl] at this; cases this
      | cons _ _ => rfl
    unfold verifyDANE
    simp only [h1, h2, he, ht]

/-! ## Discovery and the connection decision: lookup failures fail closed -/

/-- the host's address records (or its CNAME) are DNSSEC-authenticated -/
def HostSecure (D : Dns) (rn : RName) : Prop :=
  ∃ adA, D.checkCNAMEAD = .ok (adA, rn) ∧ rn ≠ .empty ∧
    (adA = true ∨ (rn = .other ∧ D.lookupCNAME = .ok true))

/-- the TLSA RRset under the canonical name is used: authenticated and non-empty -/
def UsesRname (D : Dns) : Prop :=
  D.tlsaRname.err ≠ some .other ∧ D.tlsaRname.ad = true ∧ D.tlsaRname.recs ≠ []

/-- **C13 (only authenticated RRsets are used).** A non-empty record set returned by `discoverTLSA`
is an RRset that came with the AD flag, for a host whose address records (or CNAME) are themselves
authenticated: the one under the canonical name, else the one under the MX name. -/
theorem C13_discover_only_authenticated (D : Dns) (recs : List Rec)
    (h : discoverTLSA D = .ok recs) (hne : recs ≠ []) :
    ∃ rn, HostSecure D rn ∧
      ((rn = .other ∧ UsesRname D ∧ recs = D.tlsaRname.recs) ∨
       ((rn = .same ∨ ¬ UsesRname D) ∧ D.tlsaMX.err ≠ some .other ∧ D.tlsaMX.ad = true ∧
          recs = D.tlsaMX.recs)) := by
  unfold discoverTLSA at h
  have atMX : ∀ {recs}, discoverAtMX D = .ok recs → recs ≠ [] →
      D.tlsaMX.err ≠ some .other ∧ D.tlsaMX.ad = true ∧ recs = D.tlsaMX.recs := by
    intro recs h hne
    unfold discoverAtMX at h
    split at h
    · cases h
    · rename_i hx
      split at h
      · cases h; exact absurd rfl hne
      · rename_i had
        cases h
        refine ⟨?_, by simpa using had, rfl⟩
        intro hc; exact hx hc
  have secure : ∀ rn, rn ≠ .empty → discoverSecure D rn = .ok recs →
      ((rn = .other ∧ UsesRname D ∧ recs = D.tlsaRname.recs) ∨
       ((rn = .same ∨ ¬ UsesRname D) ∧ D.tlsaMX.err ≠ some .other ∧ D.tlsaMX.ad = true ∧
          recs = D.tlsaMX.recs)) := by
    intro rn hrn h
    unfold discoverSecure at h
    split at h
    · rename_i hns
      have hother : rn = .other := by
        cases rn <;> simp_all
      split at h
      · cases h
      · rename_i hx
        split at h
        · rename_i huse
          cases h
          simp at huse
          exact Or.inl ⟨hother, ⟨fun hc => hx hc, huse.1, by simpa using huse.2⟩, rfl⟩
        · rename_i huse
          refine Or.inr ⟨Or.inr ?_, atMX h hne⟩
          rintro ⟨_, h2, h3⟩
          apply huse
          simp [h2]
          simpa using h3
    · rename_i hs
      have : rn = .same := by simpa using hs
      exact Or.inr ⟨Or.inl this, atMX h hne⟩
  split at h
  · cases h
  · rename_i adA rn hck
    split at h
    · cases h
    · rename_i hemp
      have hrn : rn ≠ .empty := by simpa using hemp
      split at h
      · split at h
        · cases h; exact absurd rfl hne
        · rename_i hsame
          split at h
          · cases h
          · rename_i cnameAD hcn
            split at h
            · cases h; exact absurd rfl hne
            · rename_i hcad
              have hother : rn = .other := by cases rn <;> simp_all
              have hcad' : cnameAD = true := by simpa using hcad
              refine ⟨rn, ⟨adA, hck, hrn, Or.inr ⟨hother, ?_⟩⟩, secure rn hrn h⟩
              rw [hcn, hcad']
      · rename_i hada
        have : adA = true := by simpa using hada
        exact ⟨rn, ⟨adA, hck, hrn, Or.inl this⟩, secure rn hrn h⟩

theorem discoverAtMX_error_iff (D : Dns) (e : DiscErr) :
    discoverAtMX D = .error e ↔ D.tlsaMX.err = some .other ∧ e = .lookup .other := by
  unfold discoverAtMX
  cases hm : D.tlsaMX.err with
  | none => cases D.tlsaMX.ad <;> simp
  | some x => cases x <;> cases D.tlsaMX.ad <;> simp <;> exact eq_comm

theorem discoverSecure_error_iff (D : Dns) (rn : RName) (hrn : rn ≠ .empty) (e : DiscErr) :
    discoverSecure D rn = .error e ↔
      (rn = .other ∧ D.tlsaRname.err = some .other ∧ e = .lookup .other) ∨
      ((rn = .same ∨ (D.tlsaRname.err ≠ some .other ∧ ¬ UsesRname D)) ∧
        D.tlsaMX.err = some .other ∧ e = .lookup .other) := by
  unfold discoverSecure UsesRname
  cases rn with
  | empty => exact absurd rfl hrn
  | same => simp [discoverAtMX_error_iff]
  | other =>
    cases hr : D.tlsaRname.err with
    | none =>
      cases D.tlsaRname.ad <;> cases D.tlsaRname.recs <;> simp [discoverAtMX_error_iff]
    | some x =>
      cases x
      · cases D.tlsaRname.ad <;> cases D.tlsaRname.recs <;> simp [discoverAtMX_error_iff]
      · simp
        exact eq_comm

/-- **C13 (the lookup-error table).** `discoverTLSA` fails exactly when a lookup it consults fails:
the A/AAAA (CNAME-chain) lookup, no address at all, the CNAME lookup of an insecure alias, or — for
a secure host — a TLSA lookup ending in anything but NXDOMAIN. -/
theorem C13_discover_error_iff (D : Dns) (e : DiscErr) :
    discoverTLSA D = .error e ↔
      (∃ le, D.checkCNAMEAD = .error le ∧ e = .lookup le) ∨
      (∃ adA, D.checkCNAMEAD = .ok (adA, .empty) ∧ e = .noAddress) ∨
      (∃ le, D.checkCNAMEAD = .ok (false, .other) ∧ D.lookupCNAME = .error le ∧ e = .lookup le) ∨
      (HostSecure D .other ∧ D.tlsaRname.err = some .other ∧ e = .lookup .other) ∨
      ((HostSecure D .same ∨
          (HostSecure D .other ∧ D.tlsaRname.err ≠ some .other ∧ ¬ UsesRname D)) ∧
        D.tlsaMX.err = some .other ∧ e = .lookup .other) := by
  unfold HostSecure
  cases hck : D.checkCNAMEAD with
  | error le =>
    simp [discoverTLSA, hck]; exact eq_comm
  | ok p =>
    obtain ⟨adA, rn⟩ := p
    cases rn with
    | empty => simp [discoverTLSA, hck]; exact eq_comm
    | same =>
      cases adA with
      | false => simp [discoverTLSA, hck]
      | true =>
        have := discoverSecure_error_iff D .same (by simp) e
        simp [discoverTLSA, hck, this]
    | other =>
      have hsec := discoverSecure_error_iff D .other (by simp) e
      cases adA with
      | true => simp [discoverTLSA, hck, hsec]
      | false =>
        cases hcn : D.lookupCNAME with
        | error le => simp [discoverTLSA, hck, hcn]; exact eq_comm
        | ok cad =>
          cases cad with
          | false => simp [discoverTLSA, hck, hcn]
          | true => simp [discoverTLSA, hck, hcn, hsec]

/-- **C13 (fails closed on lookup errors).** Whatever the TLS state and the certificates: when
discovery failed with anything but "name does not exist", `CheckConn` refuses the connection with
a temporary error — it neither authenticates nor lets the delivery continue unprotected. -/
theorem C13_lookup_error_fails_closed (E : Env) (e : DiscErr) (he : e.isNotFound = false)
    (hs : Bool) (chain : List Cert) :
    checkConn E true (.error e) hs chain = .ret .none (some .tempLookup) := by
  simp [checkConn, he]

/-- Combined with the table: every listed lookup failure other than NXDOMAIN is a temporary
refusal of the connection. -/
theorem C13_conn_lookup_error_fails_closed (E : Env) (D : Dns) (e : DiscErr)
    (h : discoverTLSA D = .error e) (he : e.isNotFound = false) (hs : Bool) (chain : List Cert) :
    connDecision E true D hs chain = .ret .none (some .tempLookup) := by
  unfold connDecision; rw [h]; exact C13_lookup_error_fails_closed E e he hs chain

/-- **C13 (CheckConn authenticates only through verifyDANE).** `CheckConn` reports
`TLSAuthenticated` exactly when a resolver exists, discovery produced records and `verifyDANE`
authenticated the server with them. -/
theorem C13_checkConn_authenticated_iff (E : Env) (hr : Bool) (fut : Except DiscErr (List Rec))
    (hs : Bool) (chain : List Cert) (err : Option CErr) :
    checkConn E hr fut hs chain = .ret .authenticated err ↔
      hr = true ∧ err = none ∧ ∃ recs, fut = .ok recs ∧ Authenticated (verifyDANE E recs hs chain) := by
  unfold Authenticated
  constructor
  · intro h
    unfold checkConn at h
    split at h
    · cases h
    · rename_i hhr
      split at h
      · split at h <;> cases h
      · rename_i recs
        split at h
        · cases h
        · cases h
        · rename_i hv
          cases h
          exact ⟨by simpa using hhr, rfl, recs, rfl, hv⟩
        · cases h
  · rintro ⟨rfl, rfl, recs, rfl, hv⟩
    simp [checkConn, hv]

/-- `CheckConn` refuses (returns an error) exactly when discovery failed with a real lookup error or
`verifyDANE` refused. -/
theorem C13_checkConn_refuse_iff (E : Env) (fut : Except DiscErr (List Rec))
    (hs : Bool) (chain : List Cert) :
    (∃ l e, checkConn E true fut hs chain = .ret l (some e)) ↔
      (∃ de, fut = .error de ∧ de.isNotFound = false) ∨
      (∃ recs, fut = .ok recs ∧ Refused (verifyDANE E recs hs chain)) := by
  unfold Refused
  constructor
  · rintro ⟨l, e, h⟩
    unfold checkConn at h
    simp only [Bool.not_true, Bool.false_eq_true, ↓reduceIte] at h
    split at h
    · rename_i de
      split at h
      · cases h
      · rename_i hnf
        exact Or.inl ⟨de, rfl, by simpa using hnf⟩
    · rename_i recs
      split at h
      · cases h
      · rename_i o e' hv
        exact Or.inr ⟨recs, rfl, o, e', hv⟩
      · cases h
      · cases h
  · rintro (⟨de, rfl, hnf⟩ | ⟨recs, rfl, o, e, hv⟩)
    · exact ⟨_, _, C13_lookup_error_fails_closed E de hnf hs chain⟩
    · exact ⟨.none, .dane e, by simp [checkConn, hv]⟩

/-- **C13 (end to end, soundness).** For one connection: if the DANE policy raises the TLS level to
"authenticated", then the handshake completed, the records used came from an authenticated RRset of
a secure host, and a usable DANE-EE record matches the server's certificate or the certificate
verifies against the asserted DANE-TA anchors. -/
theorem C13_conn_authenticated_sound (E : Env) (hr : Bool) (D : Dns) (hs : Bool)
    (chain : List Cert) (err : Option CErr)
    (h : connDecision E hr D hs chain = .ret .authenticated err) :
    hs = true ∧ ∃ recs leaf rest, discoverTLSA D = .ok recs ∧ chain = leaf :: rest ∧
      ((∃ rn, HostSecure D rn) ∧ (recs = D.tlsaRname.recs ∧ D.tlsaRname.ad = true ∨
                                   recs = D.tlsaMX.recs ∧ D.tlsaMX.ad = true)) ∧
      (EEMatch E recs leaf ∨ TAVerifies E recs chain leaf) := by
  unfold connDecision at h
  obtain ⟨_, _, recs, hd, hv⟩ := (C13_checkConn_authenticated_iff E hr _ hs chain err).mp h
  have hne : recs ≠ [] := by
    rintro rfl
    unfold Authenticated at hv
    rw [C13_absent_is_neutral] at hv; cases hv
  cases chain with
  | nil =>
    exfalso
    unfold Authenticated at hv
    cases hs with
    | false => rw [C13_no_tls_refused E recs [] hne] at hv; cases hv
    | true =>
      by_cases hu : ∃ r ∈ recs, Usable r
      · rw [(C13_panic_iff E recs true []).mpr ⟨rfl, hu, rfl⟩] at hv; cases hv
      · have : ∀ r ∈ recs, ¬ Usable r := fun r hr' hu' => hu ⟨r, hr', hu'⟩
        rw [C13_unusable_only_is_neutral E recs [] this] at hv; cases hv
  | cons leaf rest =>
    obtain ⟨hhs, hm⟩ := (C13_authenticates_iff E recs hs leaf rest).mp hv
    obtain ⟨rn, hsec, hsrc⟩ := C13_discover_only_authenticated D recs hd hne
    refine ⟨hhs, recs, leaf, rest, hd, rfl, ⟨⟨rn, hsec⟩, ?_⟩, hm⟩
    rcases hsrc with ⟨_, hu, hrec⟩ | ⟨_, _, had, hrec⟩
    · exact Or.inl ⟨hrec, hu.2.1⟩
    · exact Or.inr ⟨hrec, had⟩

/-- No resolver (DNSSEC support absent): the policy is a no-op — it never authenticates and never
refuses. -/
theorem C13_no_resolver_is_neutral (E : Env) (fut : Except DiscErr (List Rec)) (hs : Bool)
    (chain : List Cert) : checkConn E false fut hs chain = .ret .none none := by
  simp [checkConn]

/-! ## The owner name of a record is not an input of the decision -/

/-- the records differ at most in their owner name -/
def SameRData (r r' : Rec) : Prop :=
  r.usage = r'.usage ∧ r.selector = r'.selector ∧ r.mtype = r'.mtype ∧ r.tag = r'.tag ∧
    r.dlen = r'.dlen

/-- law of the matching primitive: miekg's `TLSA.Verify` reads `Usage`/`Selector`/`MatchingType`/
`Certificate` of the record, not its header -/
def OwnerBlind (E : Env) : Prop :=
  ∀ r r' c, SameRData r r' → E.recMatches r c = E.recMatches r' c

/-- re-own every record: `f r` is the new owner name of `r` -/
def reown (f : Rec → Nat) (r : Rec) : Rec := { r with owner := f r }

theorem isEE_reown (f : Rec → Nat) (r : Rec) : isEE (reown f r) = isEE r := by
  simp [isEE, mtypeOk, selectorOk, reown]

theorem isTA_reown (f : Rec → Nat) (r : Rec) : isTA (reown f r) = isTA r := by
  simp [isTA, mtypeOk, selectorOk, reown]

theorem recMatches_reown (E : Env) (h : OwnerBlind E) (f : Rec → Nat) (r : Rec) (c : Cert) :
    E.recMatches (reown f r) c = E.recMatches r c :=
  h _ _ c ⟨rfl, rfl, rfl, rfl, rfl⟩

theorem eeRecs_reown (f : Rec → Nat) (recs : List Rec) :
    eeRecs (recs.map (reown f)) = (eeRecs recs).map (reown f) := by
  unfold eeRecs
  rw [List.filter_map]
  congr 1

theorem taRecs_reown (f : Rec → Nat) (recs : List Rec) :
    taRecs (recs.map (reown f)) = (taRecs recs).map (reown f) := by
  unfold taRecs
  rw [List.filter_map]
  congr 1

theorem rootAddsOf_reown (E : Env) (h : OwnerBlind E) (f : Rec → Nat) (ta : List Rec) (c : Cert) :
    rootAddsOf E (ta.map (reown f)) c = rootAddsOf E ta c := by
  unfold rootAddsOf
  rw [List.filter_map, List.map_map]
  have : (ta.filter ((fun r => E.isCA c && E.recMatches r c) ∘ reown f)) =
      ta.filter (fun r => E.isCA c && E.recMatches r c) := by
    apply List.filter_congr
    intro r _
    simp [recMatches_reown E h]
  rw [this]
  rfl

theorem isRoot_reown (E : Env) (h : OwnerBlind E) (f : Rec → Nat) (ta : List Rec) (c : Cert) :
    isRoot E (ta.map (reown f)) c = isRoot E ta c := by
  unfold isRoot
  rw [List.any_map]
  congr 1
  funext r
  simp [recMatches_reown E h]

/-- **C13 (owner names are inert).** Whatever owner names the records of the RRset carry —
`_25._tcp.<mx>`, the name a CNAME'd TLSA RRset lives under, anything else — `verifyDANE` decides the
same: in particular no record can widen the set of names the certificate is verified for (the X.509
query `chainVerify` is the one for the MX host name, for every RRset). -/
theorem C13_owner_relabel_invariant (E : Env) (h : OwnerBlind E) (f : Rec → Nat) (recs : List Rec)
    (hs : Bool) (chain : List Cert) :
    verifyDANE E (recs.map (reown f)) hs chain = verifyDANE E recs hs chain := by
  have hroots : rootAdds E ((taRecs recs).map (reown f)) chain = rootAdds E (taRecs recs) chain := by
    unfold rootAdds
    congr 1
    funext c
    exact rootAddsOf_reown E h f _ c
  have hinters : interAdds E ((taRecs recs).map (reown f)) chain = interAdds E (taRecs recs) chain := by
    unfold interAdds
    apply List.filter_congr
    intro c _
    rw [isRoot_reown E h]
  have hany : ∀ leaf, ((eeRecs recs).map (reown f)).any (fun r => E.recMatches r leaf) =
      (eeRecs recs).any (fun r => E.recMatches r leaf) := by
    intro leaf
    rw [List.any_map]
    congr 1
    funext r
    simp [recMatches_reown E h]
  unfold verifyDANE
  simp only [eeRecs_reown, taRecs_reown, List.isEmpty_map, hroots, hinters, hany]

/-- the same, for two RRsets that are equal once the owner names are erased -/
theorem C13_owner_irrelevant (E : Env) (h : OwnerBlind E) (recs recs' : List Rec)
    (hsame : recs.map (reown (fun _ => 0)) = recs'.map (reown (fun _ => 0)))
    (hs : Bool) (chain : List Cert) :
    verifyDANE E recs hs chain = verifyDANE E recs' hs chain := by
  rw [← C13_owner_relabel_invariant E h (fun _ => 0) recs, hsame,
    C13_owner_relabel_invariant E h (fun _ => 0) recs']

/-! ## The resolver: an AD flag counts only when it comes from a loopback server -/

theorem exchangeLoop_spec (T : Transport) (servers : List (Bool × SrvAns)) (acc : XRes) (m : Msg)
    (h : exchangeLoop T servers acc = .ok m) :
    acc = .ok m ∨ ∃ s ∈ servers, ∃ m0, T s.2 = some m0 ∧ m0.rcode = 0 ∧
      m = { m0 with ad := m0.ad && s.1 } := by
  induction servers generalizing acc with
  | nil => exact Or.inl (by simpa [exchangeLoop] using h)
  | cons s rest ih =>
    obtain ⟨lb, a⟩ := s
    unfold exchangeLoop at h
    split at h
    · rcases ih _ h with hacc | ⟨s, hs, m0, h1, h2, h3⟩
      · cases hacc
      · exact Or.inr ⟨s, List.mem_cons_of_mem _ hs, m0, h1, h2, h3⟩
    · rename_i m0 hT
      split at h
      · rcases ih _ h with hacc | ⟨s, hs, m1, h1, h2, h3⟩
        · cases hacc
        · exact Or.inr ⟨s, List.mem_cons_of_mem _ hs, m1, h1, h2, h3⟩
      · rename_i hrc
        cases h
        exact Or.inr ⟨(lb, a), List.mem_cons_self, m0, hT, by simpa using hrc, rfl⟩

/-- **C13 (`exchange`, whatever the transport).** A successful `exchange` returns the message one of
the configured servers delivered with RCODE 0, its AD flag replaced by `ad ∧ isLoopback(server)`. -/
theorem C13_exchange_spec (T : Transport) (servers : List (Bool × SrvAns)) (m : Msg)
    (h : exchange T servers = .ok m) :
    ∃ s ∈ servers, ∃ m0, T s.2 = some m0 ∧ m0.rcode = 0 ∧ m = { m0 with ad := m0.ad && s.1 } := by
  rcases exchangeLoop_spec T servers .nilResp m h with hacc | h
  · cases hacc
  · exact h

/-- an AD flag that survives `exchange` was set by a loopback server -/
theorem C13_exchange_ad_only_from_loopback (T : Transport) (servers : List (Bool × SrvAns)) (m : Msg)
    (h : exchange T servers = .ok m) (had : m.ad = true) :
    ∃ s ∈ servers, s.1 = true ∧ ∃ m0, T s.2 = some m0 ∧ m0.rcode = 0 ∧ m0.ad = true ∧
      m0.recs = m.recs ∧ m0.rname = m.rname := by
  obtain ⟨s, hs, m0, h1, h2, rfl⟩ := C13_exchange_spec T servers m h
  simp at had
  exact ⟨s, hs, had.2, m0, h1, h2, had.1, rfl, rfl⟩

/-- **C13 (non-loopback resolvers authenticate nothing).** If no configured server is a loopback
address, no answer keeps its AD flag — over any transport, truncated or not. -/
theorem C13_exchange_nonloopback_ad_false (T : Transport) (servers : List (Bool × SrvAns)) (m : Msg)
    (hnl : ∀ s ∈ servers, s.1 = false) (h : exchange T servers = .ok m) : m.ad = false := by
  obtain ⟨s, hs, m0, _, _, rfl⟩ := C13_exchange_spec T servers m h
  simp [hnl s hs]

/-- no answer of the four lookups is DNSSEC-authenticated -/
def Unauthenticated (D : Dns) : Prop :=
  D.tlsaRname.ad = false ∧ D.tlsaMX.ad = false ∧
    (∀ ad rn, D.checkCNAMEAD = .ok (ad, rn) → ad = false) ∧ (∀ ad, D.lookupCNAME = .ok ad → ad = false)

theorem ask_nonloopback (T : Transport) (W : List Srv) (q : Srv → SrvAns)
    (hnl : ∀ s ∈ W, s.loopback = false) (m : Msg) (h : ask T W q = .ok m) : m.ad = false := by
  apply C13_exchange_nonloopback_ad_false T _ m _ h
  intro s hs
  obtain ⟨s0, hs0, rfl⟩ := List.mem_map.mp hs
  exact hnl s0 hs0

theorem authLookupTLSA_ad (x : XRes) (a : TLSAAns) (h : authLookupTLSA x = some a)
    (hx : ∀ m, x = .ok m → m.ad = false) : a.ad = false := by
  cases x with
  | nilResp => cases h
  | err e => cases h; rfl
  | ok m => cases h; exact hx m rfl

/-- **C13 (an RRset from a non-loopback resolver never counts as authenticated).** -/
theorem C13_nonloopback_rrset_never_authenticated (T : Transport) (W : List Srv)
    (hnl : ∀ s ∈ W, s.loopback = false) (D : Dns) (h : resolverDns T W = some D) :
    Unauthenticated D := by
  unfold resolverDns at h
  split at h
  · rename_i ck cn tr tm hck hcn htr htm
    cases h
    refine ⟨authLookupTLSA_ad _ _ htr (ask_nonloopback T W _ hnl),
      authLookupTLSA_ad _ _ htm (ask_nonloopback T W _ hnl), ?_, ?_⟩
    · intro ad rn hok
      simp only at hok
      subst hok
      unfold checkCNAMEAD at hck
      split at hck
      · cases hck
      · cases hck
      · rename_i m hm
        split at hck
        · cases hck
          exact ask_nonloopback T W _ hnl m hm
        · split at hck
          · cases hck
          · cases hck; rfl
          · rename_i m6 hm6
            split at hck
            · cases hck
              exact ask_nonloopback T W _ hnl m6 hm6
            · cases hck; rfl
    · intro ad hok
      simp only at hok
      subst hok
      unfold authLookupCNAME at hcn
      split at hcn
      · cases hcn
      · cases hcn
      · rename_i m hm
        cases hcn
        exact ask_nonloopback T W _ hnl m hm
  · cases h

/-- without an authenticated answer discovery yields no record -/
theorem discover_unauthenticated (D : Dns) (h : Unauthenticated D) :
    discoverTLSA D = .ok [] ∨ ∃ e, discoverTLSA D = .error e := by
  obtain ⟨hr, hm, hck, hcn⟩ := h
  have atMX : discoverAtMX D = .ok [] ∨ ∃ e, discoverAtMX D = .error e := by
    unfold discoverAtMX
    split
    · exact Or.inr ⟨_, rfl⟩
    · simp [hm]
  have secure : ∀ rn, discoverSecure D rn = .ok [] ∨ ∃ e, discoverSecure D rn = .error e := by
    intro rn
    unfold discoverSecure
    split
    · split
      · exact Or.inr ⟨_, rfl⟩
      · simpa [hr] using atMX
    · exact atMX
  unfold discoverTLSA
  split
  · exact Or.inr ⟨_, rfl⟩
  · rename_i adA rn hok
    have : adA = false := hck adA rn hok
    subst this
    split
    · exact Or.inr ⟨_, rfl⟩
    · simp only [Bool.not_false, ↓reduceIte]
      split
      · exact Or.inl rfl
      · split
        · exact Or.inr ⟨_, rfl⟩
        · rename_i cnameAD hcnok
          have : cnameAD = false := hcn cnameAD hcnok
          subst this
          exact Or.inl rfl

/-- **C13 (no DANE decision on unauthenticated DNS).** With only non-loopback servers configured the
DANE policy neither authenticates nor refuses on TLSA grounds: the outcome is neutral, or the
temporary refusal of a failed lookup — for every transport, every answer, every TLS state. -/
theorem C13_nonloopback_resolver_never_dane (E : Env) (T : Transport) (W : List Srv)
    (hnl : ∀ s ∈ W, s.loopback = false) (hs : Bool) (chain : List Cert) (r : CRes)
    (h : resolverConn E T W hs chain = r) :
    r = .ret .none none ∨ r = .ret .none (some .tempLookup) := by
  unfold resolverConn at h
  cases hD : resolverDns T W with
  | none =>
    rw [hD] at h; subst h
    exact Or.inr (by simp [prepareConn, checkConn, DiscErr.isNotFound])
  | some D =>
    rw [hD] at h
    subst h
    have hu := C13_nonloopback_rrset_never_authenticated T W hnl D hD
    show checkConn E true (discoverTLSA D) hs chain = _ ∨ checkConn E true (discoverTLSA D) hs chain = _
    rcases discover_unauthenticated D hu with h0 | ⟨e, he⟩
    · rw [h0]
      simp [checkConn, verifyDANE]
    · rw [he]
      cases hnf : e.isNotFound with
      | true => simp [checkConn, hnf]
      | false => exact Or.inr (C13_lookup_error_fails_closed E e hnf hs chain)

/-- the resolver never dereferences a nil response when at least one server is configured -/
theorem exchangeLoop_ne_nil (T : Transport) (servers : List (Bool × SrvAns)) (acc : XRes)
    (h : servers ≠ [] ∨ acc ≠ .nilResp) : exchangeLoop T servers acc ≠ .nilResp := by
  induction servers generalizing acc with
  | nil =>
    rcases h with h | h
    · exact absurd rfl h
    · simpa [exchangeLoop] using h
  | cons s rest ih =>
    obtain ⟨lb, a⟩ := s
    unfold exchangeLoop
    split
    · exact ih _ (Or.inr (by simp))
    · split
      · exact ih _ (Or.inr (by simp))
      · simp

theorem C13_resolver_no_panic (T : Transport) (W : List Srv) (h : W ≠ []) :
    ∃ D, resolverDns T W = some D := by
  have hne : ∀ q, ask T W q ≠ .nilResp := by
    intro q
    apply exchangeLoop_ne_nil
    left
    simpa using h
  unfold resolverDns
  have h1 : ∃ ck, checkCNAMEAD (ask T W (·.a)) (ask T W (·.aaaa)) = some ck := by
    unfold checkCNAMEAD
    have ha := hne (·.a)
    have h6 := hne (·.aaaa)
    split
    · rename_i hx; exact absurd hx ha
    · exact ⟨_, rfl⟩
    · split
      · exact ⟨_, rfl⟩
      · split
        · rename_i hx; exact absurd hx h6
        · exact ⟨_, rfl⟩
        · split <;> exact ⟨_, rfl⟩
  have h2 : ∃ cn, authLookupCNAME (ask T W (·.cname)) = some cn := by
    have hc := hne (·.cname)
    unfold authLookupCNAME
    split
    · rename_i hx; exact absurd hx hc
    · exact ⟨_, rfl⟩
    · exact ⟨_, rfl⟩
  have h3 : ∀ q, ∃ a, authLookupTLSA (ask T W q) = some a := by
    intro q
    have hc := hne q
    unfold authLookupTLSA
    split
    · rename_i hx; exact absurd hx hc
    · exact ⟨_, rfl⟩
    · exact ⟨_, rfl⟩
  obtain ⟨ck, hck⟩ := h1
  obtain ⟨cn, hcn⟩ := h2
  obtain ⟨tr, htr⟩ := h3 (·.tlsaR)
  obtain ⟨tm, htm⟩ := h3 (·.tlsaM)
  rw [hck, hcn, htr, htm]
  exact ⟨_, rfl⟩

theorem authLookupTLSA_ok (x : XRes) (a : TLSAAns) (h : authLookupTLSA x = some a)
    (had : a.ad = true) : ∃ m, x = .ok m ∧ m.ad = true ∧ m.recs = a.recs := by
  cases x with
  | nilResp => cases h
  | err e => cases h; cases had
  | ok m => cases h; exact ⟨m, rfl, had, rfl⟩

theorem ask_ad_source (T : Transport) (W : List Srv) (q : Srv → SrvAns) (m : Msg)
    (h : ask T W q = .ok m) (had : m.ad = true) :
    ∃ s ∈ W, s.loopback = true ∧ ∃ m0, T (q s) = some m0 ∧ m0.rcode = 0 ∧ m0.ad = true ∧
      m0.recs = m.recs := by
  obtain ⟨s, hs, hlb, m0, h1, h2, h3, h4, _⟩ := C13_exchange_ad_only_from_loopback T _ m h had
  obtain ⟨s0, hs0, rfl⟩ := List.mem_map.mp hs
  exact ⟨s0, hs0, hlb, m0, h1, h2, h3, h4⟩

/-- **C13 (end to end through the resolver, soundness).** If the policy raises the TLS level to
"authenticated", then some LOOPBACK server delivered — RCODE 0, AD set — a TLSA answer (under the
canonical or under the MX name) with whose records `verifyDANE` authenticates this connection. For
every transport: nothing a non-loopback server says, over UDP or TCP, can be that answer. -/
theorem C13_resolver_authenticated_sound (E : Env) (T : Transport) (W : List Srv) (hs : Bool)
    (chain : List Cert) (err : Option CErr)
    (h : resolverConn E T W hs chain = .ret .authenticated err) :
    ∃ s ∈ W, s.loopback = true ∧ ∃ m0, (T s.tlsaR = some m0 ∨ T s.tlsaM = some m0) ∧
      m0.rcode = 0 ∧ m0.ad = true ∧ Authenticated (verifyDANE E m0.recs hs chain) := by
  unfold resolverConn at h
  cases hD : resolverDns T W with
  | none => rw [hD] at h; simp [prepareConn, checkConn, DiscErr.isNotFound] at h
  | some D =>
    rw [hD] at h
    have h' : connDecision E true D hs chain = .ret .authenticated err := by
      simpa [prepareConn, connDecision] using h
    unfold connDecision at h'
    obtain ⟨_, _, recs, hd, hv⟩ := (C13_checkConn_authenticated_iff E true _ hs chain err).mp h'
    have hne : recs ≠ [] := by
      rintro rfl
      unfold Authenticated at hv
      rw [C13_absent_is_neutral] at hv; cases hv
    obtain ⟨rn, _, hsrc⟩ := C13_discover_only_authenticated D recs hd hne
    unfold resolverDns at hD
    split at hD
    · rename_i ck cn tr tm hck hcn htr htm
      cases hD
      rcases hsrc with ⟨_, hu, hrec⟩ | ⟨_, _, had, hrec⟩
      · obtain ⟨m, hm, hmad, hmrecs⟩ := authLookupTLSA_ok _ _ htr hu.2.1
        obtain ⟨s, hsW, hlb, m0, h1, h2, h3, h4⟩ := ask_ad_source T W _ m hm hmad
        refine ⟨s, hsW, hlb, m0, Or.inl h1, h2, h3, ?_⟩
        simp only at hrec
        rw [h4, hmrecs, ← hrec]; exact hv
      · obtain ⟨m, hm, hmad, hmrecs⟩ := authLookupTLSA_ok _ _ htm had
        obtain ⟨s, hsW, hlb, m0, h1, h2, h3, h4⟩ := ask_ad_source T W _ m hm hmad
        refine ⟨s, hsW, hlb, m0, Or.inr h1, h2, h3, ?_⟩
        simp only at hrec
        rw [h4, hmrecs, ← hrec]; exact hv
    · cases hD

/-! ## Association data of the wrong length: a usable record that cannot match

RFC 7672 §3.1 decides usability by usage / selector / matching type. A record whose association data
has a length no digest of its matching type has (a 31-byte "SHA-256" digest, an empty field, a
SHA-256-sized value under matching type 2) is still a usable record of the RRset: it can match no
certificate, so it forces TLS and — when nothing else matches — gets the connection refused. No
function of the model reads `dlen`, and no lookup function drops a record. -/

/-- the association data has a length its matching type can produce (RFC 6698 §2.1.3) -/
def DataFits (r : Rec) : Prop :=
  (r.mtype = 1 → r.dlen = 32) ∧ (r.mtype = 2 → r.dlen = 64) ∧ (r.mtype = 0 → r.dlen ≠ 0)

instance (r : Rec) : Decidable (DataFits r) := by unfold DataFits; infer_instance

/-- law of the matching primitive (`TLSA.Verify` compares the record's data with what it computes
from the certificate): data of a length the matching type never yields equals nothing -/
def MatchNeedsFit (E : Env) : Prop := ∀ r c, E.recMatches r c = true → DataFits r

/-- rewrite the association data (content and length) of every record -/
def redata (f : Rec → Nat × Nat) (r : Rec) : Rec := { r with tag := (f r).1, dlen := (f r).2 }

/-- **C13 (usability does not look at the data).** -/
theorem C13_usable_ignores_data (f : Rec → Nat × Nat) (r : Rec) : Usable (redata f r) ↔ Usable r := by
  simp [Usable, redata]

theorem isEE_redata (f : Rec → Nat × Nat) (r : Rec) : isEE (redata f r) = isEE r := by
  simp [isEE, mtypeOk, selectorOk, redata]

theorem isTA_redata (f : Rec → Nat × Nat) (r : Rec) : isTA (redata f r) = isTA r := by
  simp [isTA, mtypeOk, selectorOk, redata]

/-- the usable records of an RRset are the same records whatever their data is -/
theorem C13_filter_ignores_data (f : Rec → Nat × Nat) (recs : List Rec) :
    eeRecs (recs.map (redata f)) = (eeRecs recs).map (redata f) ∧
    taRecs (recs.map (redata f)) = (taRecs recs).map (redata f) := by
  constructor
  · unfold eeRecs; rw [List.filter_map]; congr 1
  · unfold taRecs; rw [List.filter_map]; congr 1

/-- **C13 (records that can match nothing).** An RRset with a usable record in which no record
matches any presented certificate: refused — "TLS is required" without a handshake, "No matching
TLSA records" with one. -/
theorem C13_unmatchable_rrset_refused (E : Env) (hempty : EmptyRootsFail E) (recs : List Rec)
    (hs : Bool) (leaf : Cert) (rest : List Cert) (hu : ∃ r ∈ recs, Usable r)
    (hno : ∀ r ∈ recs, ∀ c ∈ leaf :: rest, E.recMatches r c = false) :
    verifyDANE E recs hs (leaf :: rest) =
      .ret false (some (if hs then DErr.noMatch else DErr.tlsRequired)) := by
  obtain ⟨_, s2, _, _, s5⟩ := verifyDANE_spec E recs hs leaf rest
  have hne : recs ≠ [] := by
    rintro rfl; obtain ⟨r, hr, _⟩ := hu; cases hr
  cases hhs : hs with
  | false => rw [← hhs, s2 hne hhs]; simp [hhs]
  | true =>
    rw [← hhs, s5 hhs hu]
    · simp [hhs]
    · rintro (⟨r, hr, _, _, hm⟩ | ⟨_, hv⟩)
      · rw [hno r hr leaf (by simp)] at hm; cases hm
      · have hroots : rootAdds E (taRecs recs) (leaf :: rest) = [] := by
          apply List.eq_nil_iff_forall_not_mem.mpr
          intro c hc
          obtain ⟨hcc, _, r, hr, _, _, hm⟩ := (mem_rootAdds E recs _ c).mp hc
          rw [hno r hr c hcc] at hm; cases hm
        rw [hroots, hempty] at hv; cases hv

/-- **C13 (malformed digests fail closed).** Every record of the RRset carries association data of a
length its matching type cannot have, and one of them is usable: the connection is refused. (Were
such records dropped before the decision, the RRset would read as "no TLSA records": see the
example `malformed dropped` below.) -/
theorem C13_malformed_rrset_refused (E : Env) (hfit : MatchNeedsFit E) (hempty : EmptyRootsFail E)
    (recs : List Rec) (hs : Bool) (leaf : Cert) (rest : List Cert) (hu : ∃ r ∈ recs, Usable r)
    (hmal : ∀ r ∈ recs, ¬ DataFits r) :
    verifyDANE E recs hs (leaf :: rest) =
      .ret false (some (if hs then DErr.noMatch else DErr.tlsRequired)) := by
  apply C13_unmatchable_rrset_refused E hempty recs hs leaf rest hu
  intro r hr c _
  cases hm : E.recMatches r c with
  | false => rfl
  | true => exact absurd (hfit r c hm) (hmal r hr)

/-- **C13 (a malformed record is never the match).** If the RRset authenticates the connection, a
record with well-formed data did it: a DANE-EE match of the server certificate or an asserted anchor
among the WELL-FORMED records alone. -/
theorem C13_malformed_never_the_match (E : Env) (hfit : MatchNeedsFit E) (hempty : EmptyRootsFail E)
    (recs : List Rec) (leaf : Cert) (rest : List Cert)
    (h : Authenticated (verifyDANE E recs true (leaf :: rest))) :
    EEMatch E (recs.filter (fun r => decide (DataFits r))) leaf ∨
    ∃ c, Anchor E (recs.filter (fun r => decide (DataFits r))) (leaf :: rest) c := by
  obtain ⟨_, hm⟩ := (C13_authenticates_iff E recs true leaf rest).mp h
  rcases hm with ⟨r, hr, hu, h3, hmt⟩ | ⟨_, hv⟩
  · exact Or.inl ⟨r, by simp [List.mem_filter, hr, hfit r leaf hmt], hu, h3, hmt⟩
  · cases hroots : rootAdds E (taRecs recs) (leaf :: rest) with
    | nil => rw [hroots, hempty] at hv; cases hv
    | cons c _ =>
      have hc : c ∈ rootAdds E (taRecs recs) (leaf :: rest) := by rw [hroots]; simp
      obtain ⟨hcc, hca, r, hr, hu, h2, hmt⟩ := (mem_rootAdds E recs _ c).mp hc
      exact Or.inr ⟨c, hcc, hca, r, by simp [List.mem_filter, hr, hfit r c hmt], hu, h2, hmt⟩

/-- **C13 (the lookup hands over every record).** `AuthLookupTLSA` returns the TLSA records of the
answer it used, all of them, in order — nothing is filtered by content. -/
theorem C13_lookup_returns_every_record (m : Msg) :
    authLookupTLSA (.ok m) = some ⟨none, m.ad, m.recs⟩ := rfl

/-- **C13 (the published RRset reaches the decision).** One loopback resolver that answers every
question (RCODE 0), address records of the MX name authenticated, TLSA RRset `recs` (non-empty)
under the MX name delivered with AD set: the connection decision is `verifyDANE` on exactly `recs` —
whatever the records look like. -/
theorem C13_resolver_rrset_reaches_decision (E : Env) (T : Transport) (s : Srv) (hs : Bool)
    (chain : List Cert) (ma m6 mc mr mm : Msg)
    (hlb : s.loopback = true)
    (ha : T s.a = some ma) (ha0 : ma.rcode = 0) (haad : ma.ad = true) (hrn : ma.rname = .same)
    (h6 : T s.aaaa = some m6) (hc : T s.cname = some mc) (hr : T s.tlsaR = some mr)
    (hm : T s.tlsaM = some mm) (hm0 : mm.rcode = 0) (hmad : mm.ad = true) :
    resolverConn E T [s] hs chain = checkConn E true (.ok mm.recs) hs chain := by
  have hne : (ma.rcode != 0) = false := by simp [ha0]
  have hme : (mm.rcode != 0) = false := by simp [hm0]
  simp only [resolverConn, resolverDns, ask, exchange, List.map, exchangeLoop, ha, h6, hc, hr, hm,
    hne, hme]
  simp only [Bool.false_eq_true, ↓reduceIte, checkCNAMEAD, hrn]
  cases h6c : (m6.rcode != 0) <;> cases hcc : (mc.rcode != 0) <;> cases hrc : (mr.rcode != 0) <;>
    simp [authLookupCNAME, authLookupTLSA, prepareConn, discoverTLSA, discoverSecure,
      discoverAtMX, haad, hlb, hmad]

/-! ## `connect`: the reference identifier of the DANE-TA validation is the MX host name

Whatever the peer does on the (at most three) connection attempts — refuse the connection, hide or
refuse STARTTLS, fail the handshake with a verification error or otherwise, present any chain — the
connection state `CheckConn` is handed either is the plaintext one or reports the MX host name as
server name; so the one X.509 query of `verifyDANE` is the one for the MX host name. -/

theorem connectLoop_cfg_none (srv : Nat → Attempt) (n i : Nat) (level : TLSLevel) :
    connectLoop srv (n + 1) i none level =
      if (srv i).connectOk then .ok .none .plain else .fail := by
  simp only [connectLoop]
  cases (srv i).connectOk <;> simp

/-- what `connectLoop` can leave: the plaintext state at level "none", or a completed handshake made
under a configuration whose `ServerName` is the one every configuration in the loop carries -/
theorem connectLoop_state (srv : Nat → Attempt) (host : Name) (fuel : Nat) :
    ∀ (i : Nat) (cfg : Option TlsCfg) (level lv : TLSLevel) (st : ConnState),
      (∀ c, cfg = some c → c.serverName = some host) →
      connectLoop srv fuel i cfg level = .ok lv st →
      (st = .plain ∧ lv = .none) ∨
      (st.hs = true ∧ st.serverName = some host ∧ ∃ j, st.chain = (srv j).chain) := by
  induction fuel with
  | zero => intro i cfg level lv st _ h; simp [connectLoop] at h
  | succ n ih =>
    intro i cfg level lv st hcfg h
    unfold connectLoop at h
    simp only at h
    split at h
    · cases h
    · split at h
      · cases h; exact Or.inl ⟨rfl, rfl⟩
      · rename_i c
        have hc := hcfg c rfl
        split at h
        · cases h; exact Or.inl ⟨rfl, rfl⟩
        · split at h
          · cases h
          · split at h
            · cases h; exact Or.inr ⟨rfl, hc, i, rfl⟩
            · split at h
              · exact ih _ _ _ _ _ (by intro c' hc'; cases hc'; exact hc) h
              · exact ih _ _ _ _ _ (by intro c' hc'; cases hc') h
            · exact ih _ _ _ _ _ (by intro c' hc'; cases hc') h

/-- **C13 (connect: the server name of the state is the MX host).** For EVERY behaviour of the peer
on every attempt: a connection with a completed handshake reports `ServerName = host`. -/
theorem C13_connect_servername_is_mx (host : Name) (base : Option TlsCfg) (srv : Nat → Attempt)
    (lv : TLSLevel) (st : ConnState) (h : connect host base srv = .ok lv st) :
    (st = .plain ∧ lv = .none) ∨
    (st.hs = true ∧ st.serverName = some host ∧ ∃ j, st.chain = (srv j).chain) := by
  unfold connect at h
  apply connectLoop_state srv host 3 0 _ .authenticated lv st _ h
  intro c hc
  cases base with
  | none => cases hc
  | some b => simp at hc; rw [← hc]

/-- one round of the loop with a TLS configuration in hand -/
theorem connectLoop_some (srv : Nat → Attempt) (k i : Nat) (c : TlsCfg) (level : TLSLevel) :
    connectLoop srv (k + 1) i (some c) level =
      if !(srv i).connectOk then .fail
      else if !(srv i).starttls then .ok .none .plain
      else if !(srv i).starttlsCmdOk then .fail
      else match (srv i).hello c with
        | .ok => .ok level ⟨true, c.serverName, (srv i).chain, !c.insecure⟩
        | .verifyErr =>
          if level == .authenticated then
            connectLoop srv k (i + 1) (some { c with insecure := true }) .encrypted
          else connectLoop srv k (i + 1) none .none
        | .otherErr => connectLoop srv k (i + 1) none .none := by
  rfl

/-- three rounds are all the `retry:` loop can make (authenticated → encrypted → plaintext): more fuel
changes nothing -/
theorem connectLoop_fuel (srv : Nat → Attempt) (n i : Nat) (cfg : Option TlsCfg) :
    connectLoop srv (n + 3) i cfg .authenticated = connectLoop srv 3 i cfg .authenticated := by
  have hnone : ∀ k j lvl, connectLoop srv (k + 1) j none lvl = connectLoop srv 1 j none lvl := by
    intro k j lvl; rw [connectLoop_cfg_none, connectLoop_cfg_none srv 0]
  have henc : ∀ k j c, connectLoop srv (k + 1 + 1) j (some c) .encrypted =
      connectLoop srv (0 + 1 + 1) j (some c) .encrypted := by
    intro k j c
    rw [connectLoop_some, connectLoop_some srv (0 + 1)]
    simp only [show (TLSLevel.encrypted == TLSLevel.authenticated) = false from rfl,
      Bool.false_eq_true, ↓reduceIte, hnone k, Nat.zero_add]
  cases cfg with
  | none => exact (hnone (n + 2) i _).trans (hnone 2 i _).symm
  | some c =>
    show connectLoop srv (n + 1 + 1 + 1) i (some c) .authenticated =
      connectLoop srv (0 + 1 + 1 + 1) i (some c) .authenticated
    rw [connectLoop_some, connectLoop_some srv (0 + 1 + 1)]
    simp only [show (TLSLevel.authenticated == TLSLevel.authenticated) = true from rfl,
      ↓reduceIte, henc n, hnone (n + 1), hnone (0 + 1)]

/-- without a completed handshake `verifyDANE`, hence `CheckConn`, consults no primitive -/
theorem checkConn_no_hs (E E' : Env) (hr : Bool) (fut : Except DiscErr (List Rec)) (chain : List Cert) :
    checkConn E hr fut false chain = checkConn E' hr fut false chain := by
  unfold checkConn
  have : ∀ recs, verifyDANE E recs false chain = verifyDANE E' recs false chain := by
    intro recs; simp [verifyDANE]
  cases fut with
  | error e => rfl
  | ok recs => simp only [this]

/-- **C13 (the reference identifier is the MX host name, whatever the handshake history).** For
every behaviour of the peer on every attempt, every base configuration and every RRset: the decision
`attemptMX` takes on the connection `connect` leaves is `CheckConn` with the X.509 primitive queried
for `host` — never for the empty name (which switches host-name verification off), never for another
name. -/
theorem C13_reference_identifier_is_mx (EN : EnvN) (host : Name) (base : Option TlsCfg)
    (srv : Nat → Attempt) (hr : Bool) (fut : Except DiscErr (List Rec)) (lv : TLSLevel)
    (st : ConnState) (h : connect host base srv = .ok lv st) :
    attemptMX EN host base srv hr fut = policyStep (EN.forName (some host)) hr fut lv st := by
  have hstep : attemptMX EN host base srv hr fut =
      policyStep (EN.forName st.serverName) hr fut lv st := by
    simp only [attemptMX, h]
  rw [hstep]
  rcases C13_connect_servername_is_mx host base srv lv st h with ⟨rfl, _⟩ | ⟨_, hn, _⟩
  · simp only [policyStep, ConnState.plain]
    rw [checkConn_no_hs (EN.forName none) (EN.forName (some host))]
  · rw [hn]

theorem policyStep_authenticated (E : Env) (hr : Bool) (fut : Except DiscErr (List Rec))
    (lv : TLSLevel) (st : ConnState) (h : policyStep E hr fut lv st = .ok .authenticated) :
    lv = .authenticated ∨ checkConn E hr fut st.hs st.chain = .ret .authenticated none := by
  unfold policyStep at h
  split at h
  · cases h
  · cases h
  · rename_i hc; exact Or.inr hc
  · cases h; exact Or.inl rfl

/-- the level can only go down in the loop -/
theorem connectLoop_authenticated_level (srv : Nat → Attempt) (fuel : Nat) :
    ∀ (i : Nat) (cfg : Option TlsCfg) (level : TLSLevel) (st : ConnState),
      connectLoop srv fuel i cfg level = .ok .authenticated st → level = .authenticated := by
  induction fuel with
  | zero => intro i cfg level st h; simp [connectLoop] at h
  | succ n ih =>
    intro i cfg level st h
    cases cfg with
    | none =>
      rw [connectLoop_cfg_none] at h
      split at h <;> cases h
    | some c =>
      rw [connectLoop_some] at h
      split at h
      · cases h
      · split at h
        · cases h
        · split at h
          · cases h
          · split at h
            · cases h; rfl
            · split at h
              · cases ih _ _ _ _ h
              · cases ih _ _ _ _ h
            · cases ih _ _ _ _ h

/-- `connect` reports "authenticated" only for a handshake that passed X.509 verification under the
configuration named for the MX host, on the first attempt -/
theorem C13_connect_authenticated_sound (host : Name) (base : Option TlsCfg) (srv : Nat → Attempt)
    (st : ConnState) (h : connect host base srv = .ok .authenticated st) :
    ∃ b, base = some b ∧ (srv 0).hello { b with serverName := some host } = .ok ∧
      st = ⟨true, some host, (srv 0).chain, !b.insecure⟩ := by
  cases base with
  | none =>
    simp only [connect, Option.map] at h
    rw [connectLoop_cfg_none] at h
    split at h <;> cases h
  | some b =>
    refine ⟨b, rfl, ?_⟩
    simp only [connect, Option.map] at h
    rw [connectLoop_some] at h
    split at h
    · cases h
    · split at h
      · cases h
      · split at h
        · cases h
        · split at h
          · rename_i hh; cases h; exact ⟨hh, rfl⟩
          · split at h
            · cases connectLoop_authenticated_level srv _ _ _ _ _ h
            · cases connectLoop_authenticated_level srv _ _ _ _ _ h
          · cases connectLoop_authenticated_level srv _ _ _ _ _ h

/-- **C13 (end to end on one MX, soundness).** If `attemptMX` ends with the level "authenticated",
then either the first handshake passed X.509 verification for the MX host name (PKIX), or DANE did
it: a handshake completed, discovery produced records, and `verifyDANE` authenticates with the X.509
primitive queried for the MX host name — by `C13_authenticates_iff`: a usable DANE-EE record matches
the server certificate, or the certificate verifies FOR `host` against the asserted anchors. -/
theorem C13_attempt_authenticated_sound (EN : EnvN) (host : Name) (base : Option TlsCfg)
    (srv : Nat → Attempt) (hr : Bool) (fut : Except DiscErr (List Rec))
    (h : attemptMX EN host base srv hr fut = .ok .authenticated) :
    (∃ b, base = some b ∧ (srv 0).hello { b with serverName := some host } = .ok) ∨
    (∃ recs lv st, connect host base srv = .ok lv st ∧ st.hs = true ∧ hr = true ∧ fut = .ok recs ∧
      (∃ j, st.chain = (srv j).chain) ∧
      Authenticated (verifyDANE (EN.forName (some host)) recs true st.chain)) := by
  cases hc : connect host base srv with
  | fail => simp [attemptMX, hc] at h
  | ok lv st =>
    rw [C13_reference_identifier_is_mx EN host base srv hr fut lv st hc] at h
    rcases policyStep_authenticated _ _ _ _ _ h with rfl | hck
    · obtain ⟨b, hb, hh, _⟩ := C13_connect_authenticated_sound host base srv st hc
      exact Or.inl ⟨b, hb, hh⟩
    · obtain ⟨hhr, _, recs, hf, hv⟩ := (C13_checkConn_authenticated_iff _ hr fut st.hs st.chain none).mp hck
      rcases C13_connect_servername_is_mx host base srv lv st hc with ⟨rfl, _⟩ | ⟨hhs, _, hj⟩
      · exfalso
        unfold Authenticated at hv
        simp only [ConnState.plain] at hv
        by_cases hne : recs = []
        · rw [hne, C13_absent_is_neutral] at hv; cases hv
        · rw [C13_no_tls_refused _ recs [] hne] at hv; cases hv
      · rw [hhs] at hv
        exact Or.inr ⟨recs, lv, st, rfl, hhs, hhr, hf, hj, hv⟩

/-- **C13 (one MX, fails closed).** Records were discovered and the connection `connect` leaves is in
plaintext (no STARTTLS offered, or the handshake failed otherwise than by verification): the MX is
refused with "TLS is required", whatever the attempts looked like. -/
theorem C13_attempt_plaintext_refused (EN : EnvN) (host : Name) (base : Option TlsCfg)
    (srv : Nat → Attempt) (recs : List Rec) (hne : recs ≠ []) (lv : TLSLevel)
    (h : connect host base srv = .ok lv .plain) :
    attemptMX EN host base srv true (.ok recs) = .refused (.dane .tlsRequired) := by
  rw [C13_reference_identifier_is_mx EN host base srv true _ lv _ h]
  simp [policyStep, ConnState.plain, checkConn, C13_no_tls_refused _ recs [] hne]



/-! ## A crashed discovery is a failed discovery; what crypto/tls verified is not an input

`PrepareConn` runs `discoverTLSA` in a goroutine whose deferred handler recovers a panic. The future
`CheckConn` waits for is completed only by a discovery that RETURNED; after a crash the wait ends with
the delivery's context and its error — never with "no records, no error". -/

/-- the future holds records only if a discovery returned exactly them -/
theorem C13_prepareConn_ok_iff (d : Option (Except DiscErr (List Rec))) (recs : List Rec) :
    prepareConn d = .ok recs ↔ d = some (.ok recs) := by
  cases d with
  | none => simp [prepareConn]
  | some r => simp [prepareConn]

/-- **C13 (a crashed discovery fails closed).** Whatever the TLS state and the certificates: when
the lookup goroutine panicked, `CheckConn` refuses the connection with a temporary error. -/
theorem C13_crashed_discovery_fails_closed (E : Env) (hs : Bool) (chain : List Cert) :
    checkConn E true (prepareConn none) hs chain = .ret .none (some .tempLookup) := by
  simp [prepareConn, checkConn, DiscErr.isNotFound]

theorem C13_conn_crash_fails_closed (E : Env) (D : Dns) (hs : Bool) (chain : List Cert) :
    connDecisionC E true true D hs chain = .ret .none (some .tempLookup) :=
  C13_crashed_discovery_fails_closed E hs chain

/-- without a crash `PrepareConn` + `CheckConn` is `connDecision` -/
theorem C13_connC_no_crash (E : Env) (hr : Bool) (D : Dns) (hs : Bool) (chain : List Cert) :
    connDecisionC E hr false D hs chain = connDecision E hr D hs chain := rfl

/-- **C13 (only a completed discovery lets a connection through).** If `CheckConn` returns without an
error, the lookup goroutine returned — with "name does not exist", or with records `verifyDANE` does
not refuse this connection for. A crash is never read as "no records". -/
theorem C13_conn_accepts_only_completed_discovery (E : Env)
    (d : Option (Except DiscErr (List Rec))) (hs : Bool) (chain : List Cert) (l : Level)
    (h : checkConn E true (prepareConn d) hs chain = .ret l none) :
    ∃ r, d = some r ∧
      (r = .error (.lookup .notFound) ∨ ∃ recs, r = .ok recs ∧ ¬ Refused (verifyDANE E recs hs chain)) := by
  cases d with
  | none => rw [C13_crashed_discovery_fails_closed] at h; cases h
  | some r =>
    refine ⟨r, rfl, ?_⟩
    cases r with
    | error e =>
      left
      cases e with
      | lookup le =>
        cases le with
        | notFound => rfl
        | other => simp [prepareConn, checkConn, DiscErr.isNotFound] at h
      | noAddress => simp [prepareConn, checkConn, DiscErr.isNotFound] at h
      | incomplete => simp [prepareConn, checkConn, DiscErr.isNotFound] at h
    | ok recs =>
      right
      refine ⟨recs, rfl, ?_⟩
      rintro ⟨o, e, hv⟩
      simp [prepareConn, checkConn, hv] at h

/-- a resolver without servers: every lookup dereferences a missing response inside the lookup
goroutine — temporary refusal, for every transport -/
theorem C13_resolver_no_servers_fails_closed (E : Env) (T : Transport) (hs : Bool) (chain : List Cert) :
    resolverConn E T [] hs chain = .ret .none (some .tempLookup) := by
  have : resolverDns T [] = none := by
    simp [resolverDns, ask, exchange, exchangeLoop, checkCNAMEAD]
  simp [resolverConn, this, prepareConn, checkConn, DiscErr.isNotFound]

/-- **C13 (one MX, crashed discovery).** Whatever connection `connect` leaves — plaintext, encrypted,
authenticated by X.509 — a crashed TLSA discovery gets the MX refused with a temporary error. -/
theorem C13_attempt_crashed_discovery_refused (EN : EnvN) (host : Name) (base : Option TlsCfg)
    (srv : Nat → Attempt) (lv : TLSLevel) (st : ConnState) (h : connect host base srv = .ok lv st) :
    attemptMX EN host base srv true (prepareConn none) = .refused .tempLookup := by
  simp [attemptMX, h, policyStep, C13_crashed_discovery_fails_closed]

/-- `VerifiedChains` is not an input of the decision -/
theorem C13_pkix_result_not_an_input (E : Env) (hr : Bool) (fut : Except DiscErr (List Rec))
    (lv : TLSLevel) (st : ConnState) (b : Bool) :
    policyStep E hr fut lv { st with verified := b } = policyStep E hr fut lv st := rfl

/-- the state reports verified chains only for a handshake that completed under a configuration with
certificate verification switched on -/
theorem connectLoop_verified (srv : Nat → Attempt) (fuel : Nat) :
    ∀ (i : Nat) (cfg : Option TlsCfg) (level lv : TLSLevel) (st : ConnState),
      connectLoop srv fuel i cfg level = .ok lv st → st.verified = true →
      st.hs = true ∧ ∃ j c, (srv j).hello c = .ok ∧ c.insecure = false ∧ st.chain = (srv j).chain := by
  induction fuel with
  | zero => intro i cfg level lv st h; simp [connectLoop] at h
  | succ n ih =>
    intro i cfg level lv st h hv
    cases cfg with
    | none =>
      rw [connectLoop_cfg_none] at h
      split at h
      · cases h; cases hv
      · cases h
    | some c =>
      rw [connectLoop_some] at h
      split at h
      · cases h
      · split at h
        · cases h; cases hv
        · split at h
          · cases h
          · split at h
            · rename_i hh
              cases h
              exact ⟨rfl, i, c, hh, by simpa using hv, rfl⟩
            · split at h
              · exact ih _ _ _ _ _ h hv
              · exact ih _ _ _ _ _ h hv
            · exact ih _ _ _ _ _ h hv

theorem C13_connect_verified_sound (host : Name) (base : Option TlsCfg) (srv : Nat → Attempt)
    (lv : TLSLevel) (st : ConnState) (h : connect host base srv = .ok lv st)
    (hv : st.verified = true) :
    st.hs = true ∧ ∃ j c, (srv j).hello c = .ok ∧ c.insecure = false ∧ st.chain = (srv j).chain :=
  connectLoop_verified srv 3 0 _ .authenticated lv st h hv

/-- **C13 (ordinary verification does not stand in for the anchor).** On a connection with a
completed handshake — `lv` may be "authenticated": crypto/tls verified the chain against the client's
CA store, `VerifiedChains` is set — usable records that match nothing get the MX refused: no DANE-EE
record matches the server certificate and the certificate does not verify FOR `host` against the CA
certificates of the presented chain that usable DANE-TA records assert (`mem_rootAdds`). A pinned CA
certificate that is merely PRESENT in the chain (a stray element the leaf does not chain to) is an
asserted anchor with no path to it. -/
theorem C13_attempt_mismatch_refused_even_if_pkix (EN : EnvN) (host : Name) (base : Option TlsCfg)
    (srv : Nat → Attempt) (recs : List Rec) (lv : TLSLevel) (leaf : Cert) (rest : List Cert)
    (verified : Bool)
    (h : connect host base srv = .ok lv ⟨true, some host, leaf :: rest, verified⟩)
    (hu : ∃ r ∈ recs, Usable r)
    (hm : ¬ (EEMatch (EN.forName (some host)) recs leaf ∨
            TAVerifies (EN.forName (some host)) recs (leaf :: rest) leaf)) :
    attemptMX EN host base srv true (.ok recs) = .refused (.dane .noMatch) := by
  obtain ⟨_, _, _, _, s5⟩ := verifyDANE_spec (EN.forName (some host)) recs true leaf rest
  simp [attemptMX, h, policyStep, checkConn, s5 rfl hu hm]

/-! ## One AD bit per RRset: which address RRset decides whether the host is "secure"

RFC 7672 §2.2: the TLSA RRset of an MX host is used iff it is itself authenticated and the host's
address records are. `CheckCNAMEAD` consults the A RRset when the host has A records and the AAAA
RRset only when it has none; the AD bit of the answer that is NOT consulted (a DNS64-synthesised
AAAA RRset next to a signed A RRset) does not enter the decision. -/

/-- `checkAddr` is `CheckCNAMEAD` (the resolver-level model) on the two exchanges -/
theorem checkCNAMEAD_toX (a aaaa : AddrAns) :
    checkCNAMEAD a.toX aaaa.toX = some (checkAddr a aaaa) := by
  rcases a with e | ⟨adA, rnA⟩
  · rfl
  · rcases aaaa with e6 | ⟨ad6, rn6⟩
    · cases rnA <;> rfl
    · cases rnA <;> cases rn6 <;> rfl

/-- the per-RRset discovery is the discovery through the resolver model on the same answers -/
theorem discoverRR_eq (D : DnsRR) :
    (checkCNAMEAD D.a.toX D.aaaa.toX).map
      (fun ck => discoverTLSA ⟨ck, D.lookupCNAME, D.tlsaRname, D.tlsaMX⟩) = some (discoverRR D) := by
  rw [checkCNAMEAD_toX]; rfl

/-- the host has an A record: the A answer — its AD bit, its owner name — is the result, whatever the
AAAA lookup yields -/
theorem C13_checkAddr_a_present (adA : Bool) (rn : RName) (hrn : rn ≠ .empty) (aaaa : AddrAns) :
    checkAddr (.ok (adA, rn)) aaaa = .ok (adA, rn) := by
  cases rn
  · exact absurd rfl hrn
  · rfl
  · rfl

/-- no A record: the AAAA answer is the result (the AD bit of the empty A answer is not read) -/
theorem C13_checkAddr_aaaa_only (adA ad6 : Bool) (rn : RName) (hrn : rn ≠ .empty) :
    checkAddr (.ok (adA, .empty)) (.ok (ad6, rn)) = .ok (ad6, rn) := by
  cases rn
  · exact absurd rfl hrn
  · rfl
  · rfl

/-- **C13, the AAAA answer is irrelevant when an A RRset exists.** For a host with an A record,
discovery — and with it the connection decision — is the same for EVERY outcome of the AAAA lookup:
authenticated, not authenticated (DNS64), empty, failing. In particular an authenticated TLSA RRset of
a host whose A RRset is authenticated is used although the AAAA answer comes without AD. -/
theorem C13_aaaa_ad_irrelevant_when_a_present (D : DnsRR) (adA : Bool) (rn : RName)
    (ha : D.a = .ok (adA, rn)) (hrn : rn ≠ .empty) (x : AddrAns) :
    discoverRR { D with aaaa := x } = discoverRR D ∧
    ∀ E hr hs chain, connDecisionRR E hr { D with aaaa := x } hs chain = connDecisionRR E hr D hs chain := by
  have h : discoverRR { D with aaaa := x } = discoverRR D := by
    simp only [discoverRR, DnsRR.toDns, ha, C13_checkAddr_a_present adA rn hrn]
  exact ⟨h, fun E hr hs chain => by simp only [connDecisionRR, h]⟩

/-- the same one level down, for the exchanges of the resolver model: an A answer that holds an A
record makes `CheckCNAMEAD` independent of the AAAA exchange -/
theorem C13_resolver_aaaa_irrelevant_when_a_present (m : Msg) (hrn : m.rname ≠ .empty) (x y : XRes) :
    checkCNAMEAD (.ok m) x = checkCNAMEAD (.ok m) y := by
  simp [checkCNAMEAD, hrn]

/-- **C13, the authenticated RRset of a dual-stack host is enforced.** A record with AD for the name
asked, an authenticated TLSA answer under that name: its records are what discovery returns — for every
AAAA answer — and a plaintext connection is refused when the RRset is not empty. -/
theorem C13_dualstack_authenticated_rrset_used (D : DnsRR) (recs : List Rec)
    (ha : D.a = .ok (true, .same)) (hm : D.tlsaMX = ⟨none, true, recs⟩) :
    discoverRR D = .ok recs ∧
    (recs ≠ [] → ∀ E chain, connDecisionRR E true D false chain = .ret .none (some (.dane .tlsRequired))) := by
  have h : discoverRR D = .ok recs := by
    simp [discoverRR, DnsRR.toDns, ha, checkAddr, discoverTLSA, discoverSecure, discoverAtMX, hm]
  refine ⟨h, fun hne E chain => ?_⟩
  cases recs with
  | nil => exact absurd rfl hne
  | cons r rs => simp [connDecisionRR, h, checkConn, verifyDANE]

/-- the converse direction of the rule: the A RRset without AD (and no authenticated alias) — no
record is used, whatever the AAAA and TLSA answers carry -/
theorem C13_insecure_a_rrset_no_records (D : DnsRR) (ha : D.a = .ok (false, .same)) :
    discoverRR D = .ok [] := by
  simp [discoverRR, DnsRR.toDns, ha, checkAddr, discoverTLSA]

/-! ## T1: facts regenerated from the current `dane.go` / `security.go` -/

section T1
open MaddyVerif.Generated

/-- the field of a record a switch tag of the extracted table names -/
def fieldOf (r : Rec) (tag : String) : Nat :=
  if tag == "rec.MatchingType" then r.mtype
  else if tag == "rec.Selector" then r.selector
  else if tag == "rec.Usage" then r.usage
  else 0

/-- Interpreter of the extracted switch table: what the record loop of `verifyDANE` does with a
record — the action of the first switch whose matching case (or default) is not "pass". -/
def loopAction (field : String → Nat) : List (String × List (List Nat × String) × String) → String
  | [] => "kept"
  | (tag, cases, dflt) :: rest =>
    let act := match cases.find? (fun c => c.1.contains (field tag)) with
      | some c => c.2
      | none => dflt
    if act == "pass" then loopAction field rest else act

/-- **C13 (T1).** For every record, the switch table extracted from the current `verifyDANE`
classifies it exactly as the model's filters do. -/
theorem C13_T1_filter_is_extracted_switches (r : Rec) :
    loopAction (fieldOf r) Dane.filterSwitches =
      (if isTA r then "append taRecs" else if isEE r then "append eeRecs" else "continue") := by
  obtain ⟨u, s, m, t⟩ := r
  have hm : m = 0 ∨ m = 1 ∨ m = 2 ∨ (m ≠ 0 ∧ m ≠ 1 ∧ m ≠ 2) := by omega
  have hs : s = 0 ∨ s = 1 ∨ (s ≠ 0 ∧ s ≠ 1) := by omega
  have hu : u = 2 ∨ u = 3 ∨ (u ≠ 2 ∧ u ≠ 3) := by omega
  rcases hm with rfl | rfl | rfl | ⟨m0, m1, m2⟩ <;> rcases hs with rfl | rfl | ⟨s0, s1⟩ <;>
    rcases hu with rfl | rfl | ⟨u2, u3⟩ <;>
    simp (config := { decide := true }) [loopAction, fieldOf, Dane.filterSwitches, isTA, isEE,
      mtypeOk, selectorOk, List.find?, *]

/-- error value named by an extracted return statement -/
def decodeErr : Nat × Nat × Nat × Nat → Option (Option DErr)
  | (0, 0, 0, 0) => some none
  | (550, 5, 7, 1) => some (some .tlsRequired)
  | (550, 5, 7, 0) => some (some .noMatch)
  | _ => none

/-- **C13 (T1).** Every return statement of the current `verifyDANE` returns a value the model
knows, and none sets `overridePKIX` together with an error. -/
theorem C13_T1_returns_coherent :
    ∀ p ∈ Dane.returns, (decodeErr p.2).isSome = true ∧ (p.1 = true → p.2 = (0, 0, 0, 0)) := by
  decide

/-- **C13 (T1).** Every non-panic result of the model is the value of one of the extracted return
statements. -/
theorem C13_T1_results_are_extracted_returns (E : Env) (recs : List Rec) (hs : Bool) (chain : List Cert) :
    verifyDANE E recs hs chain = .panic ∨
      ∃ p ∈ Dane.returns, ∃ e, decodeErr p.2 = some e ∧ verifyDANE E recs hs chain = .ret p.1 e := by
  have h1 : ∃ p ∈ Dane.returns, ∃ e, decodeErr p.2 = some e ∧ Res.ret false none = .ret p.1 e :=
    ⟨(false, 0, 0, 0, 0), by decide, none, rfl, rfl⟩
  have h2 : ∃ p ∈ Dane.returns, ∃ e, decodeErr p.2 = some e ∧ Res.ret false (some .tlsRequired) = .ret p.1 e :=
    ⟨(false, 550, 5, 7, 1), by decide, _, rfl, rfl⟩
  have h3 : ∃ p ∈ Dane.returns, ∃ e, decodeErr p.2 = some e ∧ Res.ret true none = .ret p.1 e :=
    ⟨(true, 0, 0, 0, 0), by decide, none, rfl, rfl⟩
  have h4 : ∃ p ∈ Dane.returns, ∃ e, decodeErr p.2 = some e ∧ Res.ret false (some .noMatch) = .ret p.1 e :=
    ⟨(false, 550, 5, 7, 0), by decide, _, rfl, rfl⟩
  cases chain with
  | nil =>
    by_cases hp : verifyDANE E recs hs [] = .panic
    · exact Or.inl hp
    · right
      cases hs with
      | false =>
        by_cases hr : recs = []
        · subst hr; rw [C13_absent_is_neutral]; exact h1
        · rw [C13_no_tls_refused E recs [] hr]; exact h2
      | true =>
        by_cases hu : ∃ r ∈ recs, Usable r
        · exact absurd ((C13_panic_iff E recs true []).mpr ⟨rfl, hu, rfl⟩) hp
        · have : ∀ r ∈ recs, ¬ Usable r := fun r hr' hu' => hu ⟨r, hr', hu'⟩
          rw [C13_unusable_only_is_neutral E recs [] this]; exact h1
  | cons leaf rest =>
    right
    rcases C13_outcome_cases E recs hs leaf rest with ha | hr | hn
    · unfold Authenticated at ha; rw [ha]; exact h3
    · rw [C13_refusal_kind E recs hs leaf rest hr]
      cases hs
      · exact h2
      · exact h4
    · rw [hn]; exact h1

/-- **C13 (T1).** The branch conditions of `verifyDANE` and the returns and conditions of
`CheckConn` and `discoverTLSA` are the ones the model was written from. -/
theorem C13_T1_skeleton :
    Dane.conds = Expect.Dane.conds ∧
    Dane.checkConnReturns = Expect.Dane.checkConnReturns ∧
    Dane.checkConnConds = Expect.Dane.checkConnConds ∧
    Dane.discoverConds = Expect.Dane.discoverConds ∧
    Dane.discoverReturns = Expect.Dane.discoverReturns := by
  decide

end T1

/-! ## Non-vacuity: concrete instances -/

section Examples

/-- certificates 0 = leaf, 1 = intermediate CA, 2 = root CA; record tag t matches certificate t;
a path is valid when the leaf is 0 and some root is 1, or root is 2 with 1 among the intermediates
(a small executable stand-in for X.509 path validation) -/
def exEnv : Env where
  recMatches r c := r.tag == c
  isCA c := c == 1 || c == 2
  chainVerify roots inters leaf :=
    leaf == 0 && (roots.contains 1 || (roots.contains 2 && inters.contains 1))

/-- the stand-in satisfies both hypotheses on the X.509 primitive -/
example : PoolsAreSets exEnv := by
  intro r r' i i' l hr hi
  have c1 : r.contains 1 = r'.contains 1 := by
    rw [Bool.eq_iff_iff]; simp only [List.contains_iff_mem]; exact hr 1
  have c2 : r.contains 2 = r'.contains 2 := by
    rw [Bool.eq_iff_iff]; simp only [List.contains_iff_mem]; exact hr 2
  have c3 : i.contains 1 = i'.contains 1 := by
    rw [Bool.eq_iff_iff]; simp only [List.contains_iff_mem]; exact hi 1
  simp only [exEnv, c1, c2, c3]

example : EmptyRootsFail exEnv := by intro i l; simp [exEnv]

example : PathEndsAtOneRoot exEnv := by
  intro roots inters leaf h
  simp only [exEnv, Bool.and_eq_true, Bool.or_eq_true, beq_iff_eq, List.contains_iff_mem] at h
  obtain ⟨hl, h⟩ := h
  rcases h with h | ⟨h2, h1⟩
  · exact ⟨1, h, by simp [exEnv, hl]⟩
  · exact ⟨2, h2, by simp [exEnv, hl, h1]⟩

-- DANE-EE 3 1 1 matching the leaf authenticates
example : verifyDANE exEnv [⟨3, 1, 1, 0, 0, 32⟩] true [0, 1, 2] = .ret true none := by decide
-- DANE-TA 2 0 1 matching the root, chain leaf+intermediate+root: authenticates
example : verifyDANE exEnv [⟨2, 0, 1, 2, 0, 32⟩] true [0, 1, 2] = .ret true none := by decide
-- the same record, root not presented: refused
example : verifyDANE exEnv [⟨2, 0, 1, 2, 0, 32⟩] true [0, 1] = .ret false (some .noMatch) := by decide
/-- the same certificates in a world where the ROOT certificate 2 is outside its validity period (or
may have no CA below it): only the intermediate is a good anchor -/
def exEnvBadRoot : Env := { exEnv with chainVerify := fun roots _ leaf => leaf == 0 && roots.contains 1 }
/-- ... and one where the INTERMEDIATE certificate 1 is (expired, not yet valid, no CA, ...): the good
leaf has no valid path to anything -/
def exEnvBadInter : Env := { exEnv with chainVerify := fun _ _ _ => false }
-- DANE-TA pinning the root, good leaf, full chain, every signature right — the path is not valid: refused
example : verifyDANE exEnvBadInter [⟨2, 0, 1, 2, 0, 32⟩] true [0, 1, 2] = .ret false (some .noMatch) := by decide
example : verifyDANE exEnvBadRoot [⟨2, 0, 1, 2, 0, 32⟩] true [0, 1, 2] = .ret false (some .noMatch) := by decide
-- pinning the intermediate under the bad root: the path ends at the intermediate, authenticated
example : verifyDANE exEnvBadRoot [⟨2, 0, 1, 1, 0, 32⟩] true [0, 1, 2] = .ret true none := by decide
-- a DANE-EE record for the leaf authenticates whatever the path
example : verifyDANE exEnvBadInter [⟨3, 1, 1, 0, 0, 32⟩] true [0, 1, 2] = .ret true none := by decide
-- the hypotheses of `C13_invalid_path_refused` hold in that world
example : verifyDANE exEnvBadInter [⟨3, 1, 1, 7, 0, 32⟩, ⟨2, 1, 1, 2, 0, 32⟩] true [0, 1, 2] = .ret false (some .noMatch) :=
  C13_invalid_path_refused exEnvBadInter _ 0 [1, 2] ⟨⟨2, 1, 1, 2, 0, 32⟩, by simp, by decide⟩
    (by rintro ⟨r, hr, _, _, hm⟩; simp at hr; rcases hr with rfl | rfl <;> simp [exEnvBadInter, exEnv] at hm) rfl
-- `C13_one_x509_verdict_decides`: the two worlds differ (on the pin of the root) and agree on the one
-- question asked for the pin of the intermediate
example : verifyDANE exEnvBadRoot [⟨2, 0, 1, 1, 0, 32⟩] true [0, 1, 2] = verifyDANE exEnv [⟨2, 0, 1, 1, 0, 32⟩] true [0, 1, 2] :=
  C13_one_x509_verdict_decides exEnv.recMatches exEnv.isCA exEnv.chainVerify exEnvBadRoot.chainVerify _ true 0 [1, 2] (by decide)
example : verifyDANE exEnvBadRoot [⟨2, 0, 1, 2, 0, 32⟩] true [0, 1, 2] ≠ verifyDANE exEnv [⟨2, 0, 1, 2, 0, 32⟩] true [0, 1, 2] := by decide
-- DANE-TA matching the (non-CA) leaf: refused
example : verifyDANE exEnv [⟨2, 0, 1, 0, 0, 32⟩] true [0, 1, 2] = .ret false (some .noMatch) := by decide
-- an unusable record (matching type 3) next to a mismatching usable one: refused; alone: neutral
example : verifyDANE exEnv [⟨3, 1, 3, 0, 0, 32⟩, ⟨3, 1, 1, 7, 0, 32⟩] true [0, 1, 2] = .ret false (some .noMatch) := by decide
example : verifyDANE exEnv [⟨3, 1, 3, 0, 0, 32⟩] true [0, 1, 2] = .ret false none := by decide
example : verifyDANE exEnv [⟨3, 1, 3, 0, 0, 32⟩] false [] = .ret false (some .tlsRequired) := by decide
-- the panic outcome exists (handshake "complete", no certificate)
example : verifyDANE exEnv [⟨3, 1, 1, 0, 0, 32⟩] true [] = .panic := by decide
-- hypotheses of C13_unusable_only_is_neutral / C13_no_tls_refused are satisfiable
example : ∀ r ∈ [(⟨0, 0, 1, 0, 0, 32⟩ : Rec), ⟨3, 2, 1, 0, 0, 32⟩, ⟨3, 1, 3, 0, 0, 32⟩, ⟨4, 1, 1, 0, 0, 32⟩], ¬ Usable r := by decide
example : Usable ⟨2, 1, 2, 5, 0, 32⟩ ∧ Usable ⟨3, 0, 0, 5, 0, 32⟩ := by decide
-- TAMatch / Anchor are inhabited
example : Anchor exEnv [⟨2, 0, 1, 2, 0, 32⟩] [0, 1, 2] 2 := by
  refine ⟨by simp, by decide, ⟨2, 0, 1, 2, 0, 32⟩, by simp, by decide, rfl, by decide⟩

/-- secure host, CNAME'd, TLSA under the canonical name is insecure, falls back to the MX name -/
def exDns : Dns where
  checkCNAMEAD := .ok (false, .other)
  lookupCNAME := .ok true
  tlsaRname := ⟨none, false, [⟨3, 1, 1, 9, 0, 32⟩]⟩
  tlsaMX := ⟨none, true, [⟨3, 1, 1, 0, 0, 32⟩]⟩

example : discoverTLSA exDns = .ok [⟨3, 1, 1, 0, 0, 32⟩] := by rfl
example : connDecision exEnv true exDns true [0, 1, 2] = .ret .authenticated none := by decide
example : connDecision exEnv true exDns false [] = .ret .none (some (.dane .tlsRequired)) := by decide
-- SERVFAIL on the TLSA lookup of a secure host: temporary refusal
example : connDecision exEnv true { exDns with tlsaMX := ⟨some .other, false, []⟩ } true [0, 1, 2]
    = .ret .none (some .tempLookup) := by decide
example : discoverTLSA { exDns with tlsaMX := ⟨some .other, false, []⟩ } = .error (.lookup .other) := by rfl
-- NXDOMAIN on the TLSA lookup is not an error: no records
example : discoverTLSA { exDns with tlsaMX := ⟨some .notFound, false, []⟩ } = .ok [] := by rfl
-- hypothesis of C13_perm_invariant
example (a b : Rec) : [a, b].Perm [b, a] := List.Perm.swap b a []
-- an error hypothesis of C13_lookup_error_fails_closed is satisfiable, and NXDOMAIN is not one
example : (DiscErr.lookup .other).isNotFound = false ∧ DiscErr.noAddress.isNotFound = false ∧
    (DiscErr.lookup .notFound).isNotFound = true := by decide

/-! ### owner names, resolver -/

example : OwnerBlind exEnv := by
  rintro r r' c ⟨_, _, _, h, _⟩
  simp [exEnv, h]

/-- a DANE-TA record for the root, under the usual owner name (0) and under the name of a CNAME'd
RRset (7): the same verdict, also for a leaf the X.509 primitive rejects -/
example : verifyDANE exEnv [⟨2, 0, 1, 2, 7, 32⟩] true [0, 1, 2] = verifyDANE exEnv [⟨2, 0, 1, 2, 0, 32⟩] true [0, 1, 2] := by
  decide

/-- an honest validating resolver: signed A record, signed TLSA RRset under the MX name -/
def exSrv (loopback : Bool) : Srv where
  loopback := loopback
  a := ⟨some ⟨0, true, false, .same, []⟩, none⟩
  aaaa := ⟨some ⟨0, true, false, .empty, []⟩, none⟩
  cname := ⟨some ⟨0, true, false, .empty, []⟩, none⟩
  tlsaR := ⟨some ⟨3, false, false, .empty, []⟩, none⟩
  tlsaM := ⟨some ⟨0, true, false, .empty, [⟨3, 1, 1, 0, 0, 32⟩]⟩, none⟩

example : resolverConn exEnv udpOnly [exSrv true] true [0, 1, 2] = .ret .authenticated none := by
  decide
/-- the same answers from a resolver that is not on loopback: nothing is authenticated -/
example : resolverConn exEnv udpOnly [exSrv false] true [0, 1, 2] = .ret .none none := by decide
/-- a failing non-loopback server first, the loopback one second: its AD flags count -/
example : resolverConn exEnv udpOnly
    [{ exSrv false with a := ⟨some ⟨2, true, false, .same, []⟩, none⟩,
                        tlsaM := ⟨some ⟨2, true, false, .empty, []⟩, none⟩,
                        tlsaR := ⟨some ⟨2, true, false, .empty, []⟩, none⟩ }, exSrv true]
    true [0, 1, 2] = .ret .authenticated none := by decide
/-- truncated UDP answers with the complete, AD-flagged answers over TCP, and a transport that falls
back to TCP: still nothing from a non-loopback server is authenticated (instance of
`C13_nonloopback_resolver_never_dane` with a transport other than the tree's) -/
def tcpFallback : Transport := fun a =>
  match a.udp with
  | some m => if m.tc then a.tcp else some m
  | none => none

def exSrvTC (loopback : Bool) : Srv where
  loopback := loopback
  a := ⟨some ⟨0, false, true, .empty, []⟩, some ⟨0, true, false, .same, []⟩⟩
  aaaa := ⟨some ⟨0, false, true, .empty, []⟩, some ⟨0, true, false, .empty, []⟩⟩
  cname := ⟨some ⟨0, false, true, .empty, []⟩, some ⟨0, true, false, .empty, []⟩⟩
  tlsaR := ⟨some ⟨3, false, false, .empty, []⟩, some ⟨3, false, false, .empty, []⟩⟩
  tlsaM := ⟨some ⟨0, false, true, .empty, []⟩, some ⟨0, true, false, .empty, [⟨3, 1, 1, 0, 0, 32⟩]⟩⟩

example : resolverConn exEnv tcpFallback [exSrvTC false] true [0, 1, 2] = .ret .none none := by decide
example : resolverConn exEnv tcpFallback [exSrvTC true] true [0, 1, 2] = .ret .authenticated none := by decide
/-- the tree's transport reads the truncated (empty) A answer: no address, temporary refusal -/
example : resolverConn exEnv udpOnly [exSrvTC true] true [0, 1, 2] = .ret .none (some .tempLookup) := by decide
example : resolverDns udpOnly [] = none := by decide
/-- no server configured: the discovery crashes, the connection — authenticated by a matching record
or not, TLS or plaintext — is refused temporarily -/
example : resolverConn exEnv udpOnly [] true [0, 1, 2] = .ret .none (some .tempLookup) := by decide
example : resolverConn exEnv udpOnly [] false [] = .ret .none (some .tempLookup) := by decide
/-- the same world with and without a crash of the discovery -/
example : connDecisionC exEnv true false exDns true [0, 1, 2] = .ret .authenticated none := by decide
example : connDecisionC exEnv true true exDns true [0, 1, 2] = .ret .none (some .tempLookup) := by decide
example : connDecisionC exEnv true true exDns false [] = .ret .none (some .tempLookup) := by decide
/-- what the crash must NOT be read as: "no records, no error" lets the plaintext connection through -/
example : checkConn exEnv true (.ok []) false [] = .ret .none none := by decide

/-! ### malformed association data, connect -/

/-- `exEnv` with a matching primitive that, like `TLSA.Verify`, compares data: a record whose data
length does not fit its matching type equals nothing -/
def exEnvF : Env := { exEnv with recMatches := fun r c => decide (DataFits r) && r.tag == c }

example : MatchNeedsFit exEnvF := by
  intro r c h
  simp only [exEnvF, Bool.and_eq_true, decide_eq_true_eq] at h
  exact h.1
example : EmptyRootsFail exEnvF := by intro i l; simp [exEnvF, exEnv]
example : ¬ DataFits ⟨3, 1, 1, 0, 0, 31⟩ ∧ ¬ DataFits ⟨2, 0, 2, 2, 0, 32⟩ ∧ ¬ DataFits ⟨3, 0, 0, 0, 0, 0⟩ ∧
    Usable ⟨3, 1, 1, 0, 0, 31⟩ := by decide
/-- `3 1 1` with a 31-byte "SHA-256" digest as the whole RRset: refused; `malformed dropped`: were
the record dropped before the decision, the RRset would be empty and the connection accepted -/
example : verifyDANE exEnvF [⟨3, 1, 1, 0, 0, 31⟩] true [0, 1, 2] = .ret false (some .noMatch) := by decide
example : verifyDANE exEnvF [⟨3, 1, 1, 0, 0, 31⟩] false [] = .ret false (some .tlsRequired) := by decide
example : verifyDANE exEnvF ([⟨3, 1, 1, 0, 0, 31⟩].filter (fun r => decide (DataFits r))) false [] = .ret false none := by
  decide
/-- a well-formed matching record next to it authenticates -/
example : verifyDANE exEnvF [⟨3, 1, 1, 0, 0, 31⟩, ⟨2, 0, 1, 2, 0, 32⟩] true [0, 1, 2] = .ret true none := by decide
/-- through the resolver: the wrong-length record is delivered and decides -/
example : resolverConn exEnvF udpOnly
    [{ exSrv true with tlsaM := ⟨some ⟨0, true, false, .empty, [⟨3, 1, 1, 0, 0, 31⟩]⟩, none⟩ }] true [0, 1, 2] =
    .ret .none (some (.dane .noMatch)) := by decide

/-- names: 0 = the MX host, 1 = another host. Certificate 5 = a leaf issued for host 1 by the same
CA as the leaf 0. With an empty reference identifier X.509 checks no name. -/
def exEnvN : EnvN where
  recMatches := exEnv.recMatches
  isCA := exEnv.isCA
  chainVerifyAt name roots inters leaf :=
    (roots.contains 1 || (roots.contains 2 && inters.contains 1)) &&
      (match name with
       | none => leaf == 0 || leaf == 5
       | some n => (n == 0 && leaf == 0) || (n == 1 && leaf == 5))

/-- a peer with a private CA: the handshake fails verification unless `InsecureSkipVerify` -/
def privCA (chain : List Cert) : Nat → Attempt := fun _ =>
  ⟨true, true, true, fun c => if c.insecure then .ok else .verifyErr, chain⟩

example : connect 0 (some ⟨none, false⟩) (privCA [0, 1, 2]) = .ok .encrypted ⟨true, some 0, [0, 1, 2], false⟩ := by
  decide
/-- DANE-TA for the root, leaf issued for the MX host: authenticated on the second handshake -/
example : attemptMX exEnvN 0 (some ⟨none, false⟩) (privCA [0, 1, 2]) true (.ok [⟨2, 0, 1, 2, 0, 32⟩]) =
    .ok .authenticated := by decide
/-- the same anchor, leaf issued for ANOTHER host: refused -/
example : attemptMX exEnvN 0 (some ⟨none, false⟩) (privCA [5, 1, 2]) true (.ok [⟨2, 0, 1, 2, 0, 32⟩]) =
    .refused (.dane .noMatch) := by decide
/-- what `C13_reference_identifier_is_mx` excludes: on a state without server name the same chain
would pass -/
example : policyStep (exEnvN.forName none) true (.ok [⟨2, 0, 1, 2, 0, 32⟩]) .encrypted ⟨true, none, [5, 1, 2], false⟩ =
    .ok .authenticated := by decide
/-- a base configuration that names another host does not change the identifier -/
example : attemptMX exEnvN 0 (some ⟨some 1, false⟩) (privCA [5, 1, 2]) true (.ok [⟨2, 0, 1, 2, 0, 32⟩]) =
    .refused (.dane .noMatch) := by decide
/-- no STARTTLS, or a handshake broken otherwise than by verification: plaintext, refused -/
example : attemptMX exEnvN 0 (some ⟨none, false⟩) (fun _ => ⟨true, false, true, fun _ => .ok, []⟩) true
    (.ok [⟨3, 1, 3, 0, 0, 32⟩]) = .refused (.dane .tlsRequired) := by decide
example : attemptMX exEnvN 0 (some ⟨none, false⟩) (fun _ => ⟨true, true, true, fun _ => .otherErr, [0]⟩) true
    (.ok [⟨3, 1, 1, 0, 0, 32⟩]) = .refused (.dane .tlsRequired) := by decide
/-- PKIX-valid peer, no TLSA records: authenticated by X.509 on the first attempt -/
example : attemptMX exEnvN 0 (some ⟨none, false⟩) (fun _ => ⟨true, true, true, fun _ => .ok, [0, 1]⟩) true
    (.ok []) = .ok .authenticated := by decide
/-- STARTTLS command refused: no fall-back, the MX is given up -/
example : attemptMX exEnvN 0 (some ⟨none, false⟩) (fun _ => ⟨true, true, false, fun _ => .ok, [0]⟩) true
    (.ok []) = .connErr := by decide

/-- certificate 7 = a CA certificate of ANOTHER hierarchy; everything else as `exEnvN` -/
def exEnvS : EnvN := { exEnvN with isCA := fun c => c == 1 || c == 2 || c == 7 }

/-- a peer whose chain passes the client's ordinary verification -/
def pkixPeer (chain : List Cert) : Nat → Attempt := fun _ => ⟨true, true, true, fun _ => .ok, chain⟩

/-- the chain passes ordinary verification (level authenticated, verified chains reported) and carries
the stray CA certificate 7; the RRset pins 7: an asserted anchor the leaf does not chain to — refused
(hypotheses of `C13_attempt_mismatch_refused_even_if_pkix`) -/
example : connect 0 (some ⟨none, false⟩) (pkixPeer [0, 1, 7]) = .ok .authenticated ⟨true, some 0, [0, 1, 7], true⟩ := by
  decide
example : attemptMX exEnvS 0 (some ⟨none, false⟩) (pkixPeer [0, 1, 7]) true (.ok [⟨2, 0, 1, 7, 0, 32⟩]) =
    .refused (.dane .noMatch) := by decide
example : ¬ (EEMatch (exEnvS.forName (some 0)) [⟨2, 0, 1, 7, 0, 32⟩] 0 ∨
    TAVerifies (exEnvS.forName (some 0)) [⟨2, 0, 1, 7, 0, 32⟩] [0, 1, 7] 0) := by
  rintro (⟨r, hr, _, h3, _⟩ | ⟨_, hv⟩)
  · simp at hr; subst hr; cases h3
  · revert hv; decide
/-- the pin on the CA that did issue the leaf authenticates, on the same connection -/
example : attemptMX exEnvS 0 (some ⟨none, false⟩) (pkixPeer [0, 1, 7]) true (.ok [⟨2, 0, 1, 1, 0, 32⟩]) =
    .ok .authenticated := by decide
/-- a crashed discovery: refused temporarily even on the X.509-authenticated connection -/
example : attemptMX exEnvS 0 (some ⟨none, false⟩) (pkixPeer [0, 1]) true (prepareConn none) =
    .refused .tempLookup := by decide

/-! ### one AD bit per RRset -/

/-- a dual-stack MX behind a DNS64 resolver: signed A RRset, AAAA answer without AD, signed TLSA RRset
`3 1 1` for the leaf -/
def exDns64 : DnsRR where
  a := .ok (true, .same)
  aaaa := .ok (false, .same)
  lookupCNAME := .ok true
  tlsaRname := ⟨some .notFound, false, []⟩
  tlsaMX := ⟨none, true, [⟨3, 1, 1, 0, 0, 32⟩]⟩

example : discoverRR exDns64 = .ok [⟨3, 1, 1, 0, 0, 32⟩] := by rfl
example : connDecisionRR exEnv true exDns64 true [0, 1, 2] = .ret .authenticated none := by decide
example : connDecisionRR exEnv true exDns64 false [] = .ret .none (some (.dane .tlsRequired)) := by decide
/-- a server that matches nothing is refused -/
example : connDecisionRR exEnv true { exDns64 with tlsaMX := ⟨none, true, [⟨3, 1, 1, 9, 0, 32⟩]⟩ } true [0, 1, 2] =
    .ret .none (some (.dane .noMatch)) := by decide
/-- what "secure only if all address RRsets are" would do to this world: no record, plaintext accepted -/
example : connDecision exEnv true ⟨.ok (false, .same), .ok true, exDns64.tlsaRname, exDns64.tlsaMX⟩ false [] =
    .ret .none none := by decide
/-- the mirrored worlds: insecure A RRset next to a signed AAAA RRset — not secure; AAAA only — the AAAA
bit decides; the AAAA lookup fails next to a signed A RRset — secure -/
example : discoverRR { exDns64 with a := .ok (false, .same), aaaa := .ok (true, .same) } = .ok [] := by rfl
example : discoverRR { exDns64 with a := .ok (true, .empty), aaaa := .ok (false, .same) } = .ok [] := by rfl
example : discoverRR { exDns64 with a := .ok (false, .empty), aaaa := .ok (true, .same) } =
    .ok [⟨3, 1, 1, 0, 0, 32⟩] := by rfl
example : discoverRR { exDns64 with aaaa := .error .other } = .ok [⟨3, 1, 1, 0, 0, 32⟩] := by rfl
example : discoverRR { exDns64 with a := .ok (true, .empty), aaaa := .error .other } = .error .noAddress := by rfl
/-- hypotheses of `C13_aaaa_ad_irrelevant_when_a_present` / `C13_dualstack_authenticated_rrset_used` -/
example : exDns64.a = .ok (true, .same) ∧ RName.same ≠ .empty ∧
    exDns64.tlsaMX = ⟨none, true, [⟨3, 1, 1, 0, 0, 32⟩]⟩ := ⟨rfl, by decide, rfl⟩
/-- through the resolver model: the same world served by a loopback resolver -/
example : resolverConn exEnv udpOnly
    [{ exSrv true with aaaa := ⟨some ⟨0, false, false, .same, []⟩, none⟩ }] false [] =
    .ret .none (some (.dane .tlsRequired)) := by decide

end Examples

end MaddyVerif.C13
