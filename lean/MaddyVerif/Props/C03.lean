import MaddyVerif.Model.Session
/-!
C03 — every SMTP/LMTP mail transaction is finalised exactly once and matches its reply.
Theorems over ALL token lists, configurations, fault fields and fan-out orders of `Model/Session.lean`.
-/
namespace MaddyVerif.C03
open MaddyVerif.Session
set_option linter.unusedSimpArgs false
set_option linter.unusedVariables false

/-! ### typestate of one target delivery -/

/-- no closing call yet -/
def OpenD (d : TDel) : Prop := ∀ e ∈ d.evs, e.isClose = false

/-- closed by exactly one call (Commit or Abort) and that call is the last one the delivery saw -/
def ClosedOK (d : TDel) : Prop := ∃ pre c, d.evs = pre ++ [c] ∧ c.isClose = true ∧ ∀ e ∈ pre, e.isClose = false

/-- every delivery object in the log is open if the predicate says so and closed-once otherwise -/
def LogInv (log : Log) (isOpen : Nat → Bool) : Prop :=
  ∀ i d, log[i]? = some d → (if isOpen i = true then OpenD d else ClosedOK d)

theorem addEv_length (log : Log) (i : Nat) (e : Ev) : (addEv log i e).length = log.length := by
  simp [addEv]

theorem addEv_get (log : Log) (i j : Nat) (e : Ev) :
    (addEv log i e)[j]? = if i = j then (log[j]?).map (fun d => { d with evs := d.evs ++ [e] }) else log[j]? := by
  simp only [addEv, List.getElem?_modify]
  by_cases h : i = j
  · subst h; cases log[i]? <;> simp
  · cases log[j]? <;> simp [h]

theorem LogInv.addOpen {log : Log} {p : Nat → Bool} (h : LogInv log p) {i : Nat} {e : Ev}
    (hi : p i = true) (he : e.isClose = false) : LogInv (addEv log i e) p := by
  intro j d hj
  rw [addEv_get] at hj
  by_cases hij : i = j
  · subst hij
    simp only [if_true] at hj
    cases hl : log[i]? with
    | none => simp [hl] at hj
    | some d0 =>
      simp [hl] at hj
      have := h i d0 hl
      simp [hi] at this ⊢
      subst hj
      intro x hx
      simp at hx
      rcases hx with hx | hx
      · exact this x hx
      · subst hx; exact he
  · simp [hij] at hj
    exact h j d hj

theorem LogInv.addClose {log : Log} {p : Nat → Bool} (h : LogInv log p) {i : Nat} {e : Ev}
    (hi : p i = true) (he : e.isClose = true) : LogInv (addEv log i e) (fun j => p j && !(j == i)) := by
  intro j d hj
  rw [addEv_get] at hj
  by_cases hij : i = j
  · subst hij
    simp only [if_true] at hj
    cases hl : log[i]? with
    | none => simp [hl] at hj
    | some d0 =>
      simp [hl] at hj
      have := h i d0 hl
      simp [hi] at this
      simp
      subst hj
      exact ⟨d0.evs, e, rfl, he, this⟩
  · simp [hij] at hj
    have := h j d hj
    have hne : (j == i) = false := by simp; omega
    simpa [hne] using this

theorem LogInv.congr {log : Log} {p q : Nat → Bool} (h : LogInv log p)
    (hpq : ∀ i, i < log.length → p i = q i) : LogInv log q := by
  intro i d hi
  have hlt : i < log.length := by
    rcases List.getElem?_eq_some_iff.mp hi with ⟨hl, _⟩
    exact hl
  rw [← hpq i hlt]
  exact h i d hi

theorem LogInv.push {log : Log} {p : Nat → Bool} (h : LogInv log p) (k : Nat) :
    LogInv (log ++ [⟨k, []⟩]) (fun j => p j || j == log.length) := by
  intro i d hi
  by_cases hlt : i < log.length
  · rw [List.getElem?_append_left hlt] at hi
    have hne : (i == log.length) = false := by simp; omega
    simpa [hne] using h i d hi
  · rw [List.getElem?_append_right (by omega)] at hi
    have : i - log.length = 0 := by
      cases hx : i - log.length with
      | zero => rfl
      | succ n => simp [hx] at hi
    have hi' : i = log.length := by omega
    subst hi'
    simp at hi
    subst hi
    simp [OpenD]


/-! ### the fan-outs of msgpipeline -/

theorem orderBy_perm (seg : List Nat) : ∀ ents : List DEntry, (orderBy seg ents).Perm ents := by
  induction seg with
  | nil => intro ents; exact List.Perm.refl _
  | cons k seg ih =>
    intro ents
    simp only [orderBy]
    exact (List.Perm.append_left _ (ih _)).trans (List.filter_append_perm _ ents)

theorem nextOrder_perm (w : World) (ents : List DEntry) : (nextOrder w ents).2.Perm ents := by
  unfold nextOrder
  split
  · rename_i h; simp at h; subst h; exact List.Perm.refl _
  · split
    · exact List.Perm.refl _
    · exact orderBy_perm _ _

theorem nextOrder_w (w : World) (ents : List DEntry) :
    (nextOrder w ents).1.log = w.log ∧ (nextOrder w ents).1.sess = w.sess ∧
    (nextOrder w ents).1.heldSrc = w.heldSrc ∧ (nextOrder w ents).1.heldNull = w.heldNull ∧
    (nextOrder w ents).1.panics = w.panics := by
  unfold nextOrder
  split
  · simp
  · split <;> simp

theorem bodyAll_spec (f : DataF) (p : Nat → Bool) : ∀ (l : List DEntry) (log : Log),
    (∀ e ∈ l, p e.idx = true) → LogInv log p →
    LogInv (bodyAll f l log).1 p ∧ (bodyAll f l log).1.length = log.length := by
  intro l
  induction l with
  | nil => intro log _ h; exact ⟨h, rfl⟩
  | cons e es ih =>
    intro log hp h
    simp only [bodyAll]
    split
    · exact ⟨h.addOpen (hp e (by simp)) rfl, addEv_length _ _ _⟩
    · have := ih (addEv log e.idx (.body true)) (fun x hx => hp x (by simp [hx])) (h.addOpen (hp e (by simp)) rfl)
      rw [addEv_length] at this
      exact this

theorem bodyNAAll_spec (cfg : Cfg) (f : DataF) (p : Nat → Bool) : ∀ (l : List DEntry) (log : Log) ks failed,
    (∀ e ∈ l, p e.idx = true) → LogInv log p →
    LogInv (bodyNAAll cfg f l log ks failed).1 p ∧ (bodyNAAll cfg f l log ks failed).1.length = log.length := by
  intro l
  induction l with
  | nil => intro log _ _ _ h; exact ⟨h, rfl⟩
  | cons e es ih =>
    intro log ks failed hp h
    simp only [bodyNAAll]
    have hes : ∀ x ∈ es, p x.idx = true := fun x hx => hp x (by simp [hx])
    split
    · have := ih (addEv log e.idx (.bodyNA (e.rcpts.map (fun p => (p.1, p.2, !refusedBy f e.tgt p.2))))) (fwdPartial f e.tgt ks e.rcpts) failed hes
        (h.addOpen (hp e (by simp)) rfl)
      rw [addEv_length] at this
      exact this
    · split
      · have := ih (addEv log e.idx (.body false)) (fwdAll ks (f.cls.code (60 + e.tgt)) e.rcpts) (e.idx :: failed) hes
          (h.addOpen (hp e (by simp)) rfl)
        rw [addEv_length] at this
        exact this
      · have := ih (addEv log e.idx (.body true)) ks failed hes (h.addOpen (hp e (by simp)) rfl)
        rw [addEv_length] at this
        exact this

def eidx (ents : List DEntry) : List Nat := ents.map (·.idx)

theorem abortAll_spec (m : MailF) : ∀ (l : List DEntry) (log : Log) (p : Nat → Bool),
    (eidx l).Nodup → (∀ e ∈ l, p e.idx = true) → LogInv log p →
    LogInv (abortAll m l log) (fun j => p j && !(eidx l).contains j) ∧ (abortAll m l log).length = log.length := by
  intro l
  induction l with
  | nil => intro log p _ _ h; exact ⟨h.congr (by simp [eidx]), rfl⟩
  | cons e es ih =>
    intro log p hnd hp h
    simp only [abortAll]
    simp only [eidx, List.map_cons, List.nodup_cons] at hnd
    have h1 := h.addClose (e := .abort (!m.aMask.testBit e.tgt)) (hp e (by simp)) rfl
    have := ih (addEv log e.idx (.abort (!m.aMask.testBit e.tgt))) (fun j => p j && !(j == e.idx)) hnd.2
      (by
        intro x hx
        have hne : x.idx ≠ e.idx := by
          intro heq; apply hnd.1; rw [← heq]; exact List.mem_map_of_mem hx
        simp [hp x (by simp [hx]), hne]) h1
    rw [addEv_length] at this
    refine ⟨this.1.congr ?_, this.2⟩
    intro i _
    simp [eidx, Bool.and_assoc]
    cases p i <;> simp
    by_cases hie : i = e.idx <;> simp [hie]


theorem commitAll_spec (m : MailF) : ∀ (l : List DEntry) (err : Option Nat) (log : Log) (p : Nat → Bool),
    (eidx l).Nodup → (∀ e ∈ l, p e.idx = true) → LogInv log p →
    LogInv (commitAll m l err log).1 (fun j => p j && !(eidx l).contains j) ∧
      (commitAll m l err log).1.length = log.length := by
  intro l
  induction l with
  | nil => intro err log p _ _ h; exact ⟨h.congr (by simp [eidx]), rfl⟩
  | cons e es ih =>
    intro err log p hnd hp h
    simp only [eidx, List.map_cons, List.nodup_cons] at hnd
    have key : ∀ (c : Ev) (err' : Option Nat), c.isClose = true →
        LogInv (commitAll m es err' (addEv log e.idx c)).1 (fun j => p j && !(eidx (e :: es)).contains j) ∧
        (commitAll m es err' (addEv log e.idx c)).1.length = log.length := by
      intro c err' hc
      have h1 := h.addClose (e := c) (hp e (by simp)) hc
      have := ih err' (addEv log e.idx c) (fun j => p j && !(j == e.idx)) hnd.2
        (by
          intro x hx
          have hne : x.idx ≠ e.idx := by
            intro heq; apply hnd.1; rw [← heq]; exact List.mem_map_of_mem hx
          simp [hp x (by simp [hx]), hne]) h1
      rw [addEv_length] at this
      refine ⟨this.1.congr ?_, this.2⟩
      intro i _
      simp [eidx, Bool.and_assoc]
      cases p i <;> simp
      by_cases hie : i = e.idx <;> simp [hie]
    simp only [commitAll]
    split
    · exact key _ _ rfl
    · split
      · exact key _ _ rfl
      · exact key _ _ rfl

/-- the entries of a pipeline delivery point at distinct, existing, open delivery objects; all others are closed -/
structure EntInv (log : Log) (ents : List DEntry) : Prop where
  nodup : (eidx ents).Nodup
  lt : ∀ i ∈ eidx ents, i < log.length
  inv : LogInv log (fun i => (eidx ents).contains i)

theorem eidx_map_rcpts (ents : List DEntry) (f : DEntry → DEntry) (hf : ∀ e, (f e).idx = e.idx) :
    eidx (ents.map f) = eidx ents := by
  simp [eidx, List.map_map, Function.comp_def, hf]

theorem addTargets_spec (m : MailF) (r : RcptF) : ∀ (ks : List Nat) (ents : List DEntry) (log : Log),
    EntInv log ents → EntInv (addTargets m r ks ents log).2.1 (addTargets m r ks ents log).1 ∧
      log.length ≤ (addTargets m r ks ents log).2.1.length := by
  intro ks
  induction ks with
  | nil => intro ents log h; exact ⟨h, Nat.le_refl _⟩
  | cons k ks ih =>
    intro ents log h
    simp only [addTargets]
    split
    · rename_i e hfind
      have hemem : e ∈ ents := List.mem_of_find?_eq_some hfind
      have hopen : (fun i => (eidx ents).contains i) e.idx = true := by
        simp [eidx]; exact ⟨e, hemem, rfl⟩
      split
      · exact ⟨⟨h.nodup, by intro i hi; rw [addEv_length]; exact h.lt i hi, h.inv.addOpen hopen rfl⟩,
          by rw [addEv_length]; exact Nat.le_refl _⟩
      · have hidx : eidx (ents.map (fun x => if x.idx == e.idx then { x with rcpts := x.rcpts ++ [(r.uid, r.id)] } else x)) = eidx ents :=
          eidx_map_rcpts _ _ (by intro x; split <;> rfl)
        have h' : EntInv (addEv log e.idx (.rcpt r.uid r.id true))
            (ents.map (fun x => if x.idx == e.idx then { x with rcpts := x.rcpts ++ [(r.uid, r.id)] } else x)) := by
          refine ⟨by rw [hidx]; exact h.nodup, by rw [hidx]; intro i hi; rw [addEv_length]; exact h.lt i hi, ?_⟩
          rw [hidx]; exact h.inv.addOpen hopen rfl
        have := ih _ _ h'
        rw [addEv_length] at this
        exact this
    · split
      · exact ⟨h, Nat.le_refl _⟩
      · have hnew : EntInv (log ++ [⟨k, []⟩]) (ents ++ [⟨k, log.length, [], false⟩]) := by
          refine ⟨?_, ?_, ?_⟩
          · simp only [eidx, List.map_append, List.map_cons, List.map_nil]
            rw [List.nodup_append]
            refine ⟨h.nodup, by simp, ?_⟩
            intro a ha b hb
            simp at hb; subst hb
            have := h.lt a ha; omega
          · intro i hi
            simp only [eidx, List.map_append, List.map_cons, List.map_nil, List.mem_append, List.mem_singleton] at hi
            rcases hi with hi | hi
            · have := h.lt i hi; simp; omega
            · simp; omega
          · refine (h.inv.push k).congr ?_
            intro i _
            simp [eidx]
            congr 1
        have hopen : (fun i => (eidx (ents ++ [⟨k, log.length, [], false⟩])).contains i) log.length = true := by
          simp [eidx]
        split
        · refine ⟨⟨hnew.nodup, by intro i hi; rw [addEv_length]; exact hnew.lt i hi, hnew.inv.addOpen hopen rfl⟩, ?_⟩
          rw [addEv_length]; simp
        · have hnew2 : EntInv (addEv (log ++ [⟨k, []⟩]) log.length (.rcpt r.uid r.id true))
              (ents ++ [⟨k, log.length, [(r.uid, r.id)], false⟩]) := by
            have hi2 : eidx (ents ++ [⟨k, log.length, [(r.uid, r.id)], false⟩]) = eidx (ents ++ [⟨k, log.length, [], false⟩]) := by
              simp [eidx]
            refine ⟨by rw [hi2]; exact hnew.nodup, by rw [hi2]; intro i hi; rw [addEv_length]; exact hnew.lt i hi, ?_⟩
            rw [hi2]; exact hnew.inv.addOpen hopen rfl
          have := ih _ _ hnew2
          rw [addEv_length] at this
          refine ⟨this.1, ?_⟩
          have := this.2
          simp at this ⊢
          omega


theorem perm_closed (ents l : List DEntry) (hp : l.Perm ents) (j : Nat) :
    ((eidx ents).contains j && !(eidx l).contains j) = false := by
  have : (eidx l).Perm (eidx ents) := hp.map _
  by_cases h : j ∈ eidx ents
  · have : j ∈ eidx l := this.mem_iff.mpr h
    simp [this]
  · simp [h]

/-! ### the session -/

def curEnts (w : World) : List DEntry :=
  match w.sess.delivery with
  | some pd => pd.ents
  | none => []

/-- invariant of the session's world between two commands -/
structure WInv (w : World) : Prop where
  ent : EntInv w.log (curEnts w)
  heldS : w.heldSrc = (if w.sess.delivery.isSome = true ∧ w.sess.mail.key = .src then 1 else 0)
  heldN : w.heldNull = (if w.sess.delivery.isSome = true ∧ w.sess.mail.key = .null then 1 else 0)
  noPanic : w.panics = 0

theorem EntInv.nil_of_closed {log : Log} (h : LogInv log (fun _ => false)) : EntInv log [] :=
  ⟨by simp [eidx], by simp [eidx], h.congr (by simp [eidx])⟩

/-- `cleanSession` after every delivery of the transaction was closed -/
theorem cleanSession_inv (w : World)
    (hS : w.heldSrc = (if w.sess.mail.key = .src then 1 else 0))
    (hN : w.heldNull = (if w.sess.mail.key = .null then 1 else 0))
    (hp : w.panics = 0) (hl : LogInv w.log (fun _ => false)) :
    WInv (cleanSession w) ∧ (cleanSession w).sess.delivery = none ∧ (cleanSession w).log = w.log := by
  unfold cleanSession release
  cases hk : w.sess.mail.key <;> simp [hk] at hS hN ⊢
  · simp [hS]
    exact ⟨by simp [curEnts]; exact EntInv.nil_of_closed hl, by simp, by simp [hN], hp⟩
  · simp [hN]
    exact ⟨by simp [curEnts]; exact EntInv.nil_of_closed hl, by simp [hS], by simp, hp⟩

theorem pAbort_spec (pd : PDel) (w : World) (h : EntInv w.log pd.ents) :
    LogInv (pAbort pd w).log (fun _ => false) ∧ (pAbort pd w).sess = w.sess ∧
    (pAbort pd w).heldSrc = w.heldSrc ∧ (pAbort pd w).heldNull = w.heldNull ∧ (pAbort pd w).panics = w.panics := by
  unfold pAbort
  have hperm := nextOrder_perm w pd.ents
  obtain ⟨h1, h2, h3, h4, h5⟩ := nextOrder_w w pd.ents
  generalize nextOrder w pd.ents = r at *
  obtain ⟨w1, ord⟩ := r
  simp only at *
  have hnd : (eidx ord).Nodup := ((hperm.map _).nodup_iff).mpr h.nodup
  have hop : ∀ e ∈ ord, (fun i => (eidx pd.ents).contains i) e.idx = true := by
    intro e he
    have : e ∈ pd.ents := hperm.mem_iff.mp he
    simp [eidx]; exact ⟨e, this, rfl⟩
  have := abortAll_spec pd.mail ord w1.log _ hnd hop (by rw [h1]; exact h.inv)
  exact ⟨this.1.congr (by intro j _; exact perm_closed pd.ents ord hperm j), h2, h3, h4, h5⟩

theorem pCommit_spec (pd : PDel) (w : World) (h : EntInv w.log pd.ents) :
    LogInv (pCommit pd w).1.log (fun _ => false) ∧ (pCommit pd w).1.sess = w.sess ∧
    (pCommit pd w).1.heldSrc = w.heldSrc ∧ (pCommit pd w).1.heldNull = w.heldNull ∧
    (pCommit pd w).1.panics = w.panics := by
  unfold pCommit
  have hperm := nextOrder_perm w pd.ents
  obtain ⟨h1, h2, h3, h4, h5⟩ := nextOrder_w w pd.ents
  generalize nextOrder w pd.ents = r at *
  obtain ⟨w1, ord⟩ := r
  simp only at *
  have hnd : (eidx ord).Nodup := ((hperm.map _).nodup_iff).mpr h.nodup
  have hop : ∀ e ∈ ord, (fun i => (eidx pd.ents).contains i) e.idx = true := by
    intro e he
    have : e ∈ pd.ents := hperm.mem_iff.mp he
    simp [eidx]; exact ⟨e, this, rfl⟩
  have := commitAll_spec pd.mail ord none w1.log _ hnd hop (by rw [h1]; exact h.inv)
  generalize commitAll pd.mail ord none w1.log = r2 at *
  obtain ⟨log2, err2⟩ := r2
  exact ⟨this.1.congr (by intro j _; exact perm_closed pd.ents ord hperm j), h2, h3, h4, h5⟩

theorem sessAbort_inv (w : World) (pd : PDel) (h : WInv w) (hd : w.sess.delivery = some pd) :
    WInv (sessAbort w pd) ∧ (sessAbort w pd).sess.delivery = none := by
  unfold sessAbort
  have he : EntInv w.log pd.ents := by have := h.ent; simpa [curEnts, hd] using this
  obtain ⟨a1, a2, a3, a4, a5⟩ := pAbort_spec pd w he
  have := cleanSession_inv (pAbort pd w)
    (by rw [a3, a2, h.heldS]; simp [hd]) (by rw [a4, a2, h.heldN]; simp [hd]) (by rw [a5]; exact h.noPanic) a1
  exact ⟨this.1, this.2.1⟩

/-- dropping the failure kept for a deferred MAIL touches nothing the invariant speaks about -/
theorem WInv.clearErr {w : World} (h : WInv w) :
    WInv { w with sess := { w.sess with deliveryErr := none } } :=
  ⟨by simpa [curEnts] using h.ent, h.heldS, h.heldN, h.noPanic⟩

theorem sessReset_inv (w : World) (h : WInv w) : WInv (sessReset w) ∧ (sessReset w).sess.delivery = none := by
  unfold sessReset
  split
  · rename_i pd hd; exact sessAbort_inv w pd h hd
  · rename_i hd; exact ⟨h.clearErr, hd⟩

theorem sessLogout_inv (w : World) (h : WInv w) : WInv (sessLogout w) ∧ (sessLogout w).sess.delivery = none := by
  unfold sessLogout
  split
  · rename_i pd hd; exact sessAbort_inv w pd h hd
  · rename_i hd; exact ⟨h, hd⟩


theorem startDelivery_inv (w : World) (m : MailF) (h : WInv w) (hd : w.sess.delivery = none) :
    WInv (startDelivery w m).1 ∧
    ((startDelivery w m).2 = none → (startDelivery w m).1.sess.delivery = some ⟨m, []⟩ ∧
      (startDelivery w m).1.sess.mail = m ∧ (startDelivery w m).1.log = w.log ∧
      (startDelivery w m).1.sess.keys = w.sess.keys) ∧
    ((startDelivery w m).2 ≠ none → (startDelivery w m).1.sess = w.sess ∧ (startDelivery w m).1.log = w.log) := by
  have hS := h.heldS; have hN := h.heldN
  simp [hd] at hS hN
  unfold startDelivery
  split
  · exact ⟨h, by simp, by simp⟩
  · cases hps : pStart m with
    | some c =>
      simp only
      refine ⟨?_, by simp, by simp [take, release]; cases m.key <;> simp <;> split <;> simp⟩
      cases hk : m.key <;> simp [take, release, hS, hN]
      · exact ⟨by simpa [curEnts, hd] using h.ent, by simp [hd, hS], by simp [hd, hN], h.noPanic⟩
      · exact ⟨by simpa [curEnts, hd] using h.ent, by simp [hd, hS], by simp [hd, hN], h.noPanic⟩
    | none =>
      simp only
      refine ⟨?_, by simp [take]; cases m.key <;> simp, by simp⟩
      have hl : LogInv w.log (fun _ => false) := by
        have := h.ent.inv; simp [curEnts, hd, eidx] at this; exact this
      cases hk : m.key <;> simp [take]
      · exact ⟨by simp [curEnts]; exact EntInv.nil_of_closed hl, by simp [hk, hS], by simp [hk, hN], h.noPanic⟩
      · exact ⟨by simp [curEnts]; exact EntInv.nil_of_closed hl, by simp [hk, hS], by simp [hk, hN], h.noPanic⟩


theorem sessMail_inv (cfg : Cfg) (w : World) (m : MailF) (h : WInv w) :
    WInv (sessMail cfg w m).1 ∧
    ((sessMail cfg w m).2 ≠ none → (sessMail cfg w m).1.sess.delivery = w.sess.delivery) ∧
    ((sessMail cfg w m).2 = none → w.sess.delivery = none) := by
  unfold sessMail
  split
  · exact ⟨h, by simp, by simp⟩
  · rename_i hd
    have hd' : w.sess.delivery = none := by cases hx : w.sess.delivery <;> simp [hx] at hd ⊢
    split
    · obtain ⟨a, b, c⟩ := startDelivery_inv w m h hd'
      exact ⟨a, fun hne => by rw [(c hne).1], fun _ => hd'⟩
    · refine ⟨⟨by simpa [curEnts, hd'] using h.ent, ?_, ?_, h.noPanic⟩, by simp, fun _ => hd'⟩
      · have := h.heldS; simp [hd'] at this ⊢; exact this
      · have := h.heldN; simp [hd'] at this ⊢; exact this

theorem pAddRcpt_spec (cfg : Cfg) (pd : PDel) (r : RcptF) (log : Log) (h : EntInv log pd.ents) :
    EntInv (pAddRcpt cfg pd r log).2.1 (pAddRcpt cfg pd r log).1.ents := by
  unfold pAddRcpt
  simp only
  split
  · exact h
  · split
    · exact h
    · split
      · exact h
      · split
        · exact h
        · have := (addTargets_spec pd.mail r (targetsOf cfg (cfg.routes r.dom)) pd.ents log h).1
          generalize addTargets pd.mail r (targetsOf cfg (cfg.routes r.dom)) pd.ents log = x at *
          obtain ⟨a, b, c⟩ := x
          exact this

/-- what `sessRcptOn` does to the world when the session owns the open delivery `pd` -/
theorem sessRcptOn_inv (cfg : Cfg) (w : World) (pd : PDel) (r : RcptF) (h : WInv w)
    (hd : w.sess.delivery = some pd) :
    WInv (sessRcptOn cfg w pd r).1 ∧ (sessRcptOn cfg w pd r).1.sess.delivery.isSome = true := by
  unfold sessRcptOn
  split
  · exact ⟨h, by simp [hd]⟩
  · have he : EntInv w.log pd.ents := by simpa [curEnts, hd] using h.ent
    have := pAddRcpt_spec cfg pd r w.log he
    generalize pAddRcpt cfg pd r w.log = x at *
    obtain ⟨pd', log', err⟩ := x
    simp only at this ⊢
    have hS := h.heldS; have hN := h.heldN
    simp [hd] at hS hN
    cases err with
    | some c =>
      simp only
      exact ⟨⟨by simpa [curEnts] using this, by simp [hS], by simp [hN], h.noPanic⟩, by simp⟩
    | none =>
      simp only
      exact ⟨⟨by simpa [curEnts] using this, by simp [hS], by simp [hN], h.noPanic⟩, by simp⟩

theorem sessRcpt_inv (cfg : Cfg) (w : World) (r : RcptF) (h : WInv w) :
    WInv (sessRcpt cfg w r).1 ∧
    ((sessRcpt cfg w r).2 = none → (sessRcpt cfg w r).1.sess.delivery.isSome = true) ∧
    (w.sess.delivery.isSome = true → (sessRcpt cfg w r).1.sess.delivery.isSome = true) := by
  unfold sessRcpt
  split
  · rename_i pd hd
    have := sessRcptOn_inv cfg w pd r h hd
    exact ⟨this.1, fun _ => this.2, fun _ => this.2⟩
  · rename_i hd
    split
    · exact ⟨h, by simp, by simp [hd]⟩
    · obtain ⟨a, b, c⟩ := startDelivery_inv w w.sess.mail h hd
      generalize startDelivery w w.sess.mail = x at *
      obtain ⟨w1, res⟩ := x
      cases res with
      | some c1 =>
        simp only
        have hs := (c (by simp)).1
        simp only at hs a
        refine ⟨⟨by simpa [curEnts, hs, hd] using a.ent, ?_, ?_, a.noPanic⟩, by simp, by simp [hd]⟩
        · have := a.heldS; simp [hs, hd] at this ⊢; exact this
        · have := a.heldN; simp [hs, hd] at this ⊢; exact this
      | none =>
        simp only
        have hb := b rfl
        simp only at hb a
        have := sessRcptOn_inv cfg w1 ⟨w.sess.mail, []⟩ r a hb.1
        exact ⟨this.1, fun _ => this.2, fun _ => this.2⟩


theorem pBody_spec (f : DataF) (pd : PDel) (w : World) (h : EntInv w.log pd.ents) :
    EntInv (pBody f pd w).1.log pd.ents ∧ (pBody f pd w).1.sess = w.sess ∧
    (pBody f pd w).1.heldSrc = w.heldSrc ∧ (pBody f pd w).1.heldNull = w.heldNull ∧
    (pBody f pd w).1.panics = w.panics := by
  unfold pBody
  split
  · exact ⟨h, rfl, rfl, rfl, rfl⟩
  · split
    · exact ⟨h, rfl, rfl, rfl, rfl⟩
    · have hperm := nextOrder_perm w pd.ents
      obtain ⟨h1, h2, h3, h4, h5⟩ := nextOrder_w w pd.ents
      generalize nextOrder w pd.ents = r at *
      obtain ⟨w1, ord⟩ := r
      simp only at *
      have hop : ∀ e ∈ ord, (fun i => (eidx pd.ents).contains i) e.idx = true := by
        intro e he
        have : e ∈ pd.ents := hperm.mem_iff.mp he
        simp [eidx]; exact ⟨e, this, rfl⟩
      have := bodyAll_spec f _ ord w1.log hop (by rw [h1]; exact h.inv)
      generalize bodyAll f ord w1.log = r2 at *
      obtain ⟨log2, err2⟩ := r2
      simp only at *
      exact ⟨⟨h.nodup, by intro i hi; rw [this.2, h1]; exact h.lt i hi, this.1⟩, h2, h3, h4, h5⟩

theorem eidx_markFailed (failed : List Nat) (ents : List DEntry) : eidx (markFailed failed ents) = eidx ents := by
  unfold markFailed
  exact eidx_map_rcpts _ _ (by intro e; split <;> rfl)

theorem pBodyNA_spec (cfg : Cfg) (f : DataF) (pd : PDel) (keys : List Nat) (w : World) (h : EntInv w.log pd.ents) :
    EntInv (pBodyNA cfg f pd keys w).1.log (pBodyNA cfg f pd keys w).2.1.ents ∧
    (pBodyNA cfg f pd keys w).1.sess = w.sess ∧
    (pBodyNA cfg f pd keys w).1.heldSrc = w.heldSrc ∧ (pBodyNA cfg f pd keys w).1.heldNull = w.heldNull ∧
    (pBodyNA cfg f pd keys w).1.panics = w.panics := by
  unfold pBodyNA
  split
  · have hi : eidx (pd.ents.map (fun e => { e with failed := true })) = eidx pd.ents :=
      eidx_map_rcpts _ _ (by intro e; rfl)
    simp only
    exact ⟨⟨by rw [hi]; exact h.nodup, by rw [hi]; exact h.lt, by rw [hi]; exact h.inv⟩, by simp, by simp, by simp, by simp⟩
  · have hperm := nextOrder_perm w pd.ents
    obtain ⟨h1, h2, h3, h4, h5⟩ := nextOrder_w w pd.ents
    generalize nextOrder w pd.ents = r at *
    obtain ⟨w1, ord⟩ := r
    simp only at *
    have hop : ∀ e ∈ ord, (fun i => (eidx pd.ents).contains i) e.idx = true := by
      intro e he
      have : e ∈ pd.ents := hperm.mem_iff.mp he
      simp [eidx]; exact ⟨e, this, rfl⟩
    have := bodyNAAll_spec cfg f _ ord w1.log (keys, []) [] hop (by rw [h1]; exact h.inv)
    generalize bodyNAAll cfg f ord w1.log (keys, []) [] = r2 at *
    obtain ⟨log2, ks2, failed2⟩ := r2
    simp only at *
    have hi := eidx_markFailed failed2 pd.ents
    exact ⟨⟨by rw [hi]; exact h.nodup, by rw [hi]; intro i hi'; rw [this.2, h1]; exact h.lt i hi',
      by rw [hi]; exact this.1⟩, h2, h3, h4, h5⟩

/-- Commit of the (possibly re-marked) delivery `pd1` followed by `cleanSession` -/
theorem commit_clean_inv (w : World) (pd1 : PDel) (hS : w.heldSrc = (if w.sess.mail.key = .src then 1 else 0))
    (hN : w.heldNull = (if w.sess.mail.key = .null then 1 else 0)) (hp : w.panics = 0)
    (he : EntInv w.log pd1.ents) :
    WInv (cleanSession (pCommit pd1 w).1) ∧ (cleanSession (pCommit pd1 w).1).sess.delivery = none := by
  obtain ⟨a1, a2, a3, a4, a5⟩ := pCommit_spec pd1 w he
  have := cleanSession_inv (pCommit pd1 w).1 (by rw [a3, a2]; exact hS) (by rw [a4, a2]; exact hN)
    (by rw [a5]; exact hp) a1
  exact ⟨this.1, this.2.1⟩

theorem sessData_inv (w : World) (f : DataF) (h : WInv w) (hd : w.sess.delivery.isSome = true) :
    WInv (sessData w f).1 ∧ (sessData w f).2.panicked = false := by
  unfold sessData
  cases hdd : w.sess.delivery with
  | none => simp [hdd] at hd
  | some pd =>
    simp only
    have he : EntInv w.log pd.ents := by simpa [curEnts, hdd] using h.ent
    have hS := h.heldS; have hN := h.heldN
    simp [hdd] at hS hN
    split
    · exact ⟨h, rfl⟩
    · split
      · exact ⟨h, rfl⟩
      · split
        · exact ⟨h, rfl⟩
        · obtain ⟨b1, b2, b3, b4, b5⟩ := pBody_spec f pd w he
          generalize pBody f pd w = r at *
          obtain ⟨w1, res⟩ := r
          simp only at *
          cases res with
          | some c =>
            simp only
            refine ⟨⟨by simpa [curEnts, b2, hdd] using b1, ?_, ?_, by rw [b5]; exact h.noPanic⟩, by simp⟩
            · rw [b3, b2]; simp [hdd, hS]
            · rw [b4, b2]; simp [hdd, hN]
          | none =>
            simp only
            have := commit_clean_inv w1 pd (by rw [b3, b2]; exact hS) (by rw [b4, b2]; exact hN)
              (by rw [b5]; exact h.noPanic) b1
            generalize pCommit pd w1 = r2 at *
            obtain ⟨w2, err⟩ := r2
            exact ⟨this.1, by simp⟩

theorem sessLMTPData_inv (cfg : Cfg) (w : World) (f : DataF) (h : WInv w) (hd : w.sess.delivery.isSome = true) :
    WInv (sessLMTPData cfg w f).1 ∧ (sessLMTPData cfg w f).2.panicked = false := by
  unfold sessLMTPData
  cases hdd : w.sess.delivery with
  | none => simp [hdd] at hd
  | some pd =>
    simp only
    have he : EntInv w.log pd.ents := by simpa [curEnts, hdd] using h.ent
    have hS := h.heldS; have hN := h.heldN
    simp [hdd] at hS hN
    split
    · exact ⟨h, rfl⟩
    · split
      · exact ⟨h, rfl⟩
      · split
        · exact ⟨h, rfl⟩
        · obtain ⟨b1, b2, b3, b4, b5⟩ := pBodyNA_spec cfg f pd w.sess.keys w he
          generalize pBodyNA cfg f pd w.sess.keys w = r at *
          obtain ⟨w1, pd1, sts⟩ := r
          simp only at *
          have := commit_clean_inv w1 pd1 (by rw [b3, b2]; exact hS) (by rw [b4, b2]; exact hN)
            (by rw [b5]; exact h.noPanic) b1
          generalize pCommit pd1 w1 = r2 at *
          obtain ⟨w2, err⟩ := r2
          exact ⟨this.1, by simp⟩


/-! ### the connection -/

/-- invariant of the connection between two commands -/
structure Inv (st : St) : Prop where
  w : WInv st.w
  rcptsDel : st.closed = false → st.rcpts ≠ [] → st.w.sess.delivery.isSome = true
  delHelo : st.w.sess.delivery.isSome = true → st.helo = true
  fromHelo : st.closed = false → st.fromReceived = true → st.helo = true
  closedHelo : st.closed = true → st.helo = false
  bdatRcpts : st.bdat.isSome = true → st.rcpts ≠ []

theorem Inv.init (oracle : List (List Nat)) : Inv { w := { oracle := oracle } } := by
  refine ⟨⟨⟨by simp [curEnts, eidx], by simp [curEnts, eidx], ?_⟩, by simp, by simp, rfl⟩, by simp, by simp, by simp, by simp, by simp⟩
  intro i d hi; simp at hi

theorem not_isSome_of_not_helo {st : St} (h : Inv st) (hh : st.helo = false) : st.w.sess.delivery = none := by
  cases hd : st.w.sess.delivery with
  | none => rfl
  | some pd => have := h.delHelo (by simp [hd]); simp [hh] at this

theorem connReset_inv_weak (st : St) (hw0 : WInv st.w) (hdh : st.w.sess.delivery.isSome = true → st.helo = true)
    (hch : st.closed = true → st.helo = false) :
    Inv (connReset st) ∧ (connReset st).w.sess.delivery = none ∧ (connReset st).closed = st.closed ∧
    (connReset st).helo = st.helo := by
  have hw : WInv (connReset st).w ∧ (connReset st).w.sess.delivery = none := by
    unfold connReset
    by_cases hh : st.helo = true
    · simpa [hh] using sessReset_inv st.w hw0
    · have hh' : st.helo = false := by simpa using hh
      have hd : st.w.sess.delivery = none := by
        cases hd : st.w.sess.delivery with
        | none => rfl
        | some pd => have := hdh (by simp [hd]); simp [hh'] at this
      simpa [hh'] using And.intro hw0 hd
  refine ⟨⟨hw.1, ?_, ?_, ?_, ?_, ?_⟩, hw.2, rfl, rfl⟩
  · intro _ hr; exact absurd rfl hr
  · intro hd; rw [hw.2] at hd; simp at hd
  · intro _ hf; simp [connReset] at hf
  · exact hch
  · intro hb; simp [connReset] at hb

theorem connReset_inv (st : St) (h : Inv st) :
    Inv (connReset st) ∧ (connReset st).w.sess.delivery = none ∧ (connReset st).closed = st.closed ∧
    (connReset st).helo = st.helo :=
  connReset_inv_weak st h.w h.delHelo h.closedHelo

theorem connClose_inv (st : St) (h : Inv st) :
    Inv (connClose st) ∧ (connClose st).closed = true ∧ (connClose st).w.sess.delivery = none := by
  have hw : WInv (connClose st).w ∧ (connClose st).w.sess.delivery = none := by
    unfold connClose
    by_cases hh : st.helo = true
    · simpa [hh] using sessLogout_inv st.w h.w
    · have hh' : st.helo = false := by simpa using hh
      simpa [hh'] using And.intro h.w (not_isSome_of_not_helo h hh')
  refine ⟨⟨hw.1, ?_, ?_, ?_, ?_, ?_⟩, rfl, hw.2⟩
  · intro hc; simp [connClose] at hc
  · intro hd; rw [hw.2] at hd; simp at hd
  · intro hc; simp [connClose] at hc
  · intro _; rfl
  · intro hb; simp [connClose] at hb


theorem Inv.setW {st : St} (h : Inv st) (w' : World) (hw : WInv w')
    (hd : st.w.sess.delivery.isSome = true → w'.sess.delivery.isSome = true)
    (hd' : w'.sess.delivery.isSome = true → st.helo = true) : Inv { st with w := w' } :=
  ⟨hw, fun hc hr => hd (h.rcptsDel hc hr), hd', h.fromHelo, h.closedHelo, h.bdatRcpts⟩

theorem runData_inv (cfg : Cfg) (st : St) (f : DataF) (h : Inv st) (hc : st.closed = false) (hr : st.rcpts ≠ []) :
    Inv (runData cfg st f).1 ∧ (runData cfg st f).1.closed = false := by
  have hd := h.rcptsDel hc hr
  have hh := h.delHelo hd
  unfold runData
  split
  · obtain ⟨a, b⟩ := sessLMTPData_inv cfg st.w f h.w hd
    generalize sessLMTPData cfg st.w f = r at *
    obtain ⟨w1, res⟩ := r
    simp only at a b ⊢
    simp only [b, Bool.false_eq_true, if_false]
    have := connReset_inv_weak { st with w := w1 } a (fun _ => hh) h.closedHelo
    exact ⟨this.1, by rw [this.2.2.1]; exact hc⟩
  · obtain ⟨a, b⟩ := sessData_inv st.w f h.w hd
    generalize sessData st.w f = r at *
    obtain ⟨w1, res⟩ := r
    simp only at a b ⊢
    simp only [b, Bool.false_eq_true, if_false]
    have := connReset_inv_weak { st with w := w1 } a (fun _ => hh) h.closedHelo
    exact ⟨this.1, by rw [this.2.2.1]; exact hc⟩


theorem step_inv (cfg : Cfg) (st : St) (t : Tok) (h : Inv st) : Inv (step cfg st t).1 := by
  unfold step
  by_cases hc : st.closed = true
  · simp [hc]; exact h
  · have hc' : st.closed = false := by simpa using hc
    rw [if_neg hc]
    have hgreet : Inv { st with helo := true } :=
      ⟨h.w, h.rcptsDel, fun _ => rfl, fun _ _ => rfl, fun hx => by simp [hc'] at hx, h.bdatRcpts⟩
    cases t with
    | greet => exact hgreet
    | helo => simp only [one]; split <;> first | exact h | exact hgreet
    | greetWrong => exact h
    | greetNoArg => exact h
    | noop => exact h
    | vrfy => exact h
    | rset => exact (connReset_inv st h).1
    | unknown =>
      simp only [protocolError]
      have h1 : Inv { st with errCount := st.errCount + 1 } :=
        ⟨h.w, h.rcptsDel, h.delHelo, h.fromHelo, h.closedHelo, h.bdatRcpts⟩
      split
      · exact (connClose_inv _ h1).1
      · exact h1
    | quit => exact (connClose_inv st h).1
    | drop => exact (connClose_inv st h).1
    | authGood =>
      simp only [one]
      split
      · exact h
      · split
        · exact h
        · exact ⟨h.w, h.rcptsDel, h.delHelo, h.fromHelo, h.closedHelo, h.bdatRcpts⟩
    | authBad => simp only [one]; split <;> (try split) <;> exact h
    | bdatNoArg => exact h
    | mail m =>
      simp only [one]
      split
      · exact h
      · rename_i hh
        have hh' : st.helo = true := by simpa using hh
        split
        · exact h
        · split
          · exact h
          · split
            · exact h
            · split
              · exact h
              · obtain ⟨a, b, c⟩ := sessMail_inv cfg st.w m h.w
                generalize sessMail cfg st.w m = r at *
                obtain ⟨w1, res⟩ := r
                cases res with
                | some code =>
                  simp only
                  exact h.setW w1 a (fun hd => by rw [b (by simp)]; exact hd) (fun _ => hh')
                | none =>
                  simp only
                  have hdn := c rfl
                  refine ⟨a, ?_, fun _ => hh', fun _ _ => hh', h.closedHelo, h.bdatRcpts⟩
                  intro _ hr
                  have := h.rcptsDel hc' hr
                  simp [hdn] at this
    | rcpt r =>
      simp only [one]
      split
      · exact h
      · rename_i hf
        have hf' : st.fromReceived = true := by simpa using hf
        have hh' := h.fromHelo hc' hf'
        split
        · exact h
        · split
          · exact h
          · obtain ⟨a, b, c⟩ := sessRcpt_inv cfg st.w r h.w
            generalize sessRcpt cfg st.w r = x at *
            obtain ⟨w1, res⟩ := x
            cases res with
            | some code =>
              simp only
              exact h.setW w1 a c (fun _ => hh')
            | none =>
              simp only
              exact ⟨a, fun _ _ => b rfl, fun _ => hh', h.fromHelo, h.closedHelo, fun hb => by simp⟩
    | data f =>
      simp only [one]
      split
      · exact h
      · split
        · exact h
        · split
          · exact h
          · rename_i hg
            have hr : st.rcpts ≠ [] := by
              intro he; simp [he] at hg
            split
            · exact (connClose_inv _ (connReset_inv st h).1).1
            · have := runData_inv cfg st f h hc' hr
              generalize runData cfg st f = x at *
              obtain ⟨st1, rep⟩ := x
              exact this.1
    | bdat last f =>
      simp only [one]
      split
      · exact h
      · rename_i hg
        have hr : st.rcpts ≠ [] := by
          intro he; simp [he] at hg
        split
        · split
          · exact (connReset_inv st h).1
          · split
            · have := runData_inv cfg st f h hc' hr
              generalize runData cfg st f = x at *
              obtain ⟨st1, rep⟩ := x
              exact this.1
            · exact ⟨h.w, h.rcptsDel, h.delHelo, h.fromHelo, h.closedHelo, fun _ => hr⟩
        · rename_i f0 hb
          split
          · have h1 : Inv { st with bdat := none } :=
              ⟨h.w, h.rcptsDel, h.delHelo, h.fromHelo, h.closedHelo, by simp⟩
            have := runData_inv cfg { st with bdat := none } f0 h1 hc' hr
            generalize runData cfg { st with bdat := none } f0 = x at *
            obtain ⟨st1, rep⟩ := x
            exact this.1
          · exact h

theorem run_inv (cfg : Cfg) : ∀ (toks : List Tok) (st : St), Inv st →
    Inv (run cfg st toks).1 ∧ (run cfg st toks).1.closed = true := by
  intro toks
  induction toks with
  | nil =>
    intro st h
    simp only [run]
    split
    · rename_i hc; exact ⟨h, hc⟩
    · have := connClose_inv st h
      exact ⟨this.1, this.2.1⟩
  | cons t ts ih =>
    intro st h
    simp only [run]
    have := ih (step cfg st t).1 (step_inv cfg st t h)
    generalize step cfg st t = x at *
    obtain ⟨st1, o⟩ := x
    simp only at this ⊢
    generalize run cfg st1 ts = y at *
    obtain ⟨st2, os⟩ := y
    exact this


/-- the states a session passes through -/
def steps (cfg : Cfg) (st : St) (toks : List Tok) : St := toks.foldl (fun s t => (step cfg s t).1) st

def start (oracle : List (List Nat)) : St := { w := { oracle := oracle } }

theorem steps_inv (cfg : Cfg) (toks : List Tok) : ∀ st, Inv st → Inv (steps cfg st toks) := by
  induction toks with
  | nil => intro st h; exact h
  | cons t ts ih => intro st h; exact ih _ (step_inv cfg st t h)

theorem ClosedOK.count {d : TDel} (h : ClosedOK d) : d.evs.countP Ev.isClose = 1 := by
  obtain ⟨pre, c, he, hc, hpre⟩ := h
  rw [he, List.countP_append]
  have : pre.countP Ev.isClose = 0 := by
    rw [List.countP_eq_zero]; intro e hm; simp [hpre e hm]
  simp [this, hc]

theorem ClosedOK.last {d : TDel} (h : ClosedOK d) (pre : List Ev) (e : Ev) (post : List Ev)
    (hd : d.evs = pre ++ e :: post) (he : e.isClose = true) : post = [] := by
  obtain ⟨pre', c, hd', hc, hpre⟩ := h
  rw [hd'] at hd
  cases post with
  | nil => rfl
  | cons x xs =>
    exfalso
    -- e sits strictly before the last element, hence in pre'
    have hmem : e ∈ pre' := by
      have hlen := congrArg List.length hd
      simp at hlen
      have h1 : pre' = (pre ++ e :: x :: xs).dropLast := by rw [← hd]; simp
      rw [h1]
      have : (pre ++ e :: x :: xs).dropLast = pre ++ e :: (x :: xs).dropLast := by
        rw [List.dropLast_append_of_ne_nil (by simp)]
        simp [List.dropLast]
      rw [this]; simp
    have := hpre e hmem
    simp [he] at this

theorem final_all_closed (cfg : Cfg) (oracle : List (List Nat)) (toks : List Tok) :
    ∀ d ∈ (run cfg (start oracle) toks).1.w.log, ClosedOK d := by
  obtain ⟨hinv, hcl⟩ := run_inv cfg toks (start oracle) (Inv.init oracle)
  have hh := hinv.closedHelo hcl
  have hd := not_isSome_of_not_helo hinv hh
  intro d hm
  obtain ⟨i, hi, hget⟩ := List.getElem_of_mem hm
  have := hinv.w.ent.inv i d (by rw [List.getElem?_eq_getElem hi, hget])
  simpa [curEnts, hd, eidx] using this

/-- **Closed exactly once, no later than the end of the session.**  For every configuration, every token
list (any order of commands, resets, BDAT chunks, pipelining is invisible to the server, disconnect at the
end), every fault plan carried by the tokens and every fan-out order: each delivery object that any target
handed out has received exactly one closing call (Commit or Abort) when the connection is gone. -/
theorem C03_closed_exactly_once_by_session_end (cfg : Cfg) (oracle : List (List Nat)) (toks : List Tok) :
    ∀ d ∈ (run cfg (start oracle) toks).1.w.log, d.evs.countP Ev.isClose = 1 :=
  fun d hm => (final_all_closed cfg oracle toks d hm).count

/-- **No use after close.**  In the complete call sequence of every delivery object the closing call is
the last call: nothing (AddRcpt, Body, BodyNonAtomic, Commit, Abort) follows it.  Call sequences only grow,
so this holds at every moment of the session. -/
theorem C03_no_use_after_close (cfg : Cfg) (oracle : List (List Nat)) (toks : List Tok) :
    ∀ d ∈ (run cfg (start oracle) toks).1.w.log, ∀ pre e post, d.evs = pre ++ e :: post → e.isClose = true → post = [] :=
  fun d hm pre e post => (final_all_closed cfg oracle toks d hm).last pre e post

/-- the same two facts in the middle of a session: every delivery object that does not belong to the open
transaction of the session is closed exactly once with the closing call last; those of the open transaction
have not been closed -/
theorem C03_typestate_invariant (cfg : Cfg) (oracle : List (List Nat)) (toks : List Tok) :
    let st := steps cfg (start oracle) toks
    ∀ i d, st.w.log[i]? = some d →
      if (eidx (curEnts st.w)).contains i = true then OpenD d else ClosedOK d :=
  fun i d hi => (steps_inv cfg toks _ (Inv.init oracle)).w.ent.inv i d hi

/-- **Permits.**  When the connection is gone every permit taken by `TakeMsg` has been given back, and no
permit was ever released that was not held (Go: "mismatched Release" panic) -/
theorem C03_permits_balanced (cfg : Cfg) (oracle : List (List Nat)) (toks : List Tok) :
    (run cfg (start oracle) toks).1.w.heldSrc = 0 ∧ (run cfg (start oracle) toks).1.w.heldNull = 0 ∧
    (run cfg (start oracle) toks).1.w.panics = 0 := by
  obtain ⟨hinv, hcl⟩ := run_inv cfg toks (start oracle) (Inv.init oracle)
  have hd := not_isSome_of_not_helo hinv (hinv.closedHelo hcl)
  have hS := hinv.w.heldS; have hN := hinv.w.heldN
  simp [hd] at hS hN
  exact ⟨hS, hN, hinv.w.noPanic⟩

/-- the same in every scope of the limits group (`all`, and `ip` / `source` summed over their keys) -/
theorem C03_permits_balanced_every_scope (cfg : Cfg) (oracle : List (List Nat)) (toks : List Tok) :
    (run cfg (start oracle) toks).1.w.heldTotal = 0 := by
  obtain ⟨hS, hN, _⟩ := C03_permits_balanced cfg oracle toks
  simp [World.heldTotal, hS, hN]

/-- a `TakeMsg` that fails (some scope is not granted before the deadline) holds nothing: whatever it took in
the scopes before the failing one is given back -/
theorem C03_takeMsg_refused_holds_nothing (has granted : Scope → Bool) (h : Held)
    (hr : (takeMsg has granted h).2 = false) : (takeMsg has granted h).1 = h := by
  unfold takeMsg at hr ⊢
  cases h with
  | mk a i s =>
    cases hA : granted .all <;> cases hI : granted .ip <;> cases hS : granted .source <;>
      cases hi : has .ip <;> cases hs : has .source <;> simp_all

/-- a `TakeMsg` that succeeds takes one permit in every configured scope, and `ReleaseMsg` returns exactly those -/
theorem C03_takeMsg_granted_release_restores (has granted : Scope → Bool) (h : Held)
    (hg : (takeMsg has granted h).2 = true) : releaseMsg has (takeMsg has granted h).1 = h := by
  unfold takeMsg at hg ⊢
  cases h with
  | mk a i s =>
    cases hA : granted .all <;> cases hI : granted .ip <;> cases hS : granted .source <;>
      cases hi : has .ip <;> cases hs : has .source <;> simp_all [releaseMsg]

/-- sessions refused because a scope is exhausted leave the permits exactly as they were, however many there are -/
theorem C03_contention_holds_nothing (has : Scope → Bool) (tight : Scope) (hc : tight = .all ∨ has tight = true)
    (k : Nat) (h : Held) :
    (contend has tight k h).2 = h ∧ (contend has tight k h).1 = List.replicate k 451 := by
  induction k generalizing h with
  | zero => simp [contend]
  | succ k ih =>
    have hr : (takeMsg has (fun s => s != tight) h).2 = false := by
      unfold takeMsg
      cases tight <;> cases hi : has .ip <;> cases hs : has .source <;> simp_all
    have hh := C03_takeMsg_refused_holds_nothing has _ h hr
    simp only [contend]
    rw [show takeMsg has (fun s => s != tight) h = (h, false) from Prod.ext hh hr]
    simp [ih h, List.replicate_succ]

example : contend (fun _ => true) .source 2 ⟨1, 1, 1⟩ = ([451, 451], ⟨1, 1, 1⟩) := by decide
example : (takeMsg (fun _ => true) (fun s => s != .source) ⟨1, 1, 1⟩) = (⟨1, 1, 1⟩, false) := by decide
example : (takeMsg (fun _ => true) (fun _ => true) ⟨0, 0, 0⟩) = (⟨1, 1, 1⟩, true) := by decide

/-- during the session at most the permit of the open transaction is held, and exactly that one -/
theorem C03_permits_during (cfg : Cfg) (oracle : List (List Nat)) (toks : List Tok) :
    let st := steps cfg (start oracle) toks
    st.w.heldSrc + st.w.heldNull = (if st.w.sess.delivery.isSome = true then 1 else 0) := by
  have h : WInv (steps cfg (start oracle) toks).w := (steps_inv cfg toks _ (Inv.init oracle)).w
  simp only
  rw [h.heldS, h.heldN]
  cases (steps cfg (start oracle) toks).w.sess.delivery.isSome <;>
    cases (steps cfg (start oracle) toks).w.sess.mail.key <;> simp

/-- **No panic**: no command sequence drives the session into `Data` without a delivery (nil context),
into a mismatched `Release`, or into go-smtp's status collector panics -/
theorem C03_no_panic (cfg : Cfg) (oracle : List (List Nat)) (toks : List Tok) :
    (steps cfg (start oracle) toks).w.panics = 0 :=
  (steps_inv cfg toks _ (Inv.init oracle)).w.noPanic


/-! ### what a transaction's reply says about its targets -/

/-- the calls a delivery object has seen (empty for an index that is not in the log) -/
def evsAt (log : Log) (i : Nat) : List Ev :=
  match log[i]? with
  | some d => d.evs
  | none => []

theorem evsAt_addEv (log : Log) (i j : Nat) (e : Ev) :
    evsAt (addEv log i e) j = if i = j ∧ j < log.length then evsAt log j ++ [e] else evsAt log j := by
  unfold evsAt
  rw [addEv_get]
  by_cases hij : i = j
  · subst hij
    by_cases hlt : i < log.length
    · simp [hlt, List.getElem?_eq_getElem hlt]
    · have : log[i]? = none := by simp; omega
      simp [this, hlt]
  · simp [hij]

theorem evsAt_addEv_ne (log : Log) (i j : Nat) (e : Ev) (h : i ≠ j) : evsAt (addEv log i e) j = evsAt log j := by
  rw [evsAt_addEv]; simp [h]

theorem evsAt_addEv_eq (log : Log) (i : Nat) (e : Ev) (h : i < log.length) :
    evsAt (addEv log i e) i = evsAt log i ++ [e] := by
  rw [evsAt_addEv]; simp [h]

theorem bodyAll_ok (f : DataF) : ∀ (l : List DEntry) (log : Log),
    (eidx l).Nodup → (∀ e ∈ l, e.idx < log.length) → (bodyAll f l log).2 = none →
    (∀ e ∈ l, evsAt (bodyAll f l log).1 e.idx = evsAt log e.idx ++ [.body true]) ∧
    (∀ j, j ∉ eidx l → evsAt (bodyAll f l log).1 j = evsAt log j) ∧
    (bodyAll f l log).1.length = log.length := by
  intro l
  induction l with
  | nil => intro log _ _ _; simp [bodyAll, eidx]
  | cons e es ih =>
    intro log hnd hlt hres
    simp only [eidx, List.map_cons, List.nodup_cons] at hnd
    simp only [bodyAll] at hres ⊢
    split at hres
    · simp at hres
    · rename_i hb
      simp only [hb, Bool.false_eq_true, if_false]
      have hlt' : ∀ x ∈ es, x.idx < (addEv log e.idx (.body true)).length := by
        intro x hx; rw [addEv_length]; exact hlt x (by simp [hx])
      obtain ⟨a, b, c⟩ := ih (addEv log e.idx (.body true)) hnd.2 hlt' hres
      refine ⟨?_, ?_, by rw [c, addEv_length]⟩
      · intro x hx
        simp at hx
        rcases hx with hx | hx
        · subst hx
          rw [b _ hnd.1, evsAt_addEv_eq _ _ _ (hlt x (by simp))]
        · have hne : e.idx ≠ x.idx := by
            intro heq; apply hnd.1; rw [heq]; exact List.mem_map_of_mem hx
          rw [a x hx, evsAt_addEv_ne _ _ _ _ hne]
      · intro j hj
        simp [eidx] at hj
        have hj2 : j ∉ eidx es := by simp [eidx]; intro x hx; exact hj.2 x hx
        rw [b j hj2, evsAt_addEv_ne _ _ _ _ (Ne.symm hj.1)]

theorem commitAll_err (m : MailF) : ∀ (l : List DEntry) (c : Nat) (log : Log),
    (commitAll m l (some c) log).2 = some c := by
  intro l
  induction l with
  | nil => intro c log; rfl
  | cons e es ih => intro c log; simp [commitAll, ih]

theorem commitAll_ok (m : MailF) : ∀ (l : List DEntry) (log : Log),
    (eidx l).Nodup → (∀ e ∈ l, e.idx < log.length) → (∀ e ∈ l, e.failed = false) →
    (commitAll m l none log).2 = none →
    (∀ e ∈ l, evsAt (commitAll m l none log).1 e.idx = evsAt log e.idx ++ [.commit true]) ∧
    (∀ j, j ∉ eidx l → evsAt (commitAll m l none log).1 j = evsAt log j) := by
  intro l
  induction l with
  | nil => intro log _ _ _ _; simp [commitAll, eidx]
  | cons e es ih =>
    intro log hnd hlt hnf hres
    simp only [eidx, List.map_cons, List.nodup_cons] at hnd
    have hef : e.failed = false := hnf e (by simp)
    simp only [commitAll, hef, Option.isSome_none, Bool.or_self, Bool.false_eq_true, if_false] at hres ⊢
    split at hres
    · rw [commitAll_err] at hres; simp at hres
    · rename_i hb
      simp only [hb, Bool.false_eq_true, if_false]
      have hlt' : ∀ x ∈ es, x.idx < (addEv log e.idx (.commit true)).length := by
        intro x hx; rw [addEv_length]; exact hlt x (by simp [hx])
      obtain ⟨a, b⟩ := ih (addEv log e.idx (.commit true)) hnd.2 hlt' (fun x hx => hnf x (by simp [hx])) hres
      refine ⟨?_, ?_⟩
      · intro x hx
        simp at hx
        rcases hx with hx | hx
        · subst hx
          rw [b _ hnd.1, evsAt_addEv_eq _ _ _ (hlt x (by simp))]
        · have hne : e.idx ≠ x.idx := by
            intro heq; apply hnd.1; rw [heq]; exact List.mem_map_of_mem hx
          rw [a x hx, evsAt_addEv_ne _ _ _ _ hne]
      · intro j hj
        simp [eidx] at hj
        have hj2 : j ∉ eidx es := by simp [eidx]; intro x hx; exact hj.2 x hx
        rw [b j hj2, evsAt_addEv_ne _ _ _ _ (Ne.symm hj.1)]



/-- entries know their accepted recipients, the target log agrees, and `bodyFailed` is never left set -/
structure EntOK (log : Log) (ents : List DEntry) : Prop where
  logged : ∀ e ∈ ents, ∀ p ∈ e.rcpts, Ev.rcpt p.1 p.2 true ∈ evsAt log e.idx
  notFailed : ∀ e ∈ ents, e.failed = false

/-- `ents'` extends `ents`: same objects, recipients only added -/
def EntExt (ents ents' : List DEntry) : Prop :=
  ∀ e ∈ ents, ∃ e' ∈ ents', e'.tgt = e.tgt ∧ e'.idx = e.idx ∧ ∀ p ∈ e.rcpts, p ∈ e'.rcpts

theorem EntExt.refl (ents : List DEntry) : EntExt ents ents := fun e he => ⟨e, he, rfl, rfl, fun _ h => h⟩

theorem EntExt.trans {a b c : List DEntry} (h1 : EntExt a b) (h2 : EntExt b c) : EntExt a c := by
  intro e he
  obtain ⟨e1, he1, t1, i1, r1⟩ := h1 e he
  obtain ⟨e2, he2, t2, i2, r2⟩ := h2 e1 he1
  exact ⟨e2, he2, t2.trans t1, i2.trans i1, fun p hp => r2 p (r1 p hp)⟩

theorem EntOK.addEv {log : Log} {ents : List DEntry} (h : EntOK log ents) (i : Nat) (e : Ev) :
    EntOK (addEv log i e) ents := by
  refine ⟨?_, h.notFailed⟩
  intro x hx p hp
  rw [evsAt_addEv]; split
  · exact List.mem_append_left _ (h.logged x hx p hp)
  · exact h.logged x hx p hp

theorem evsAt_push (log : Log) (d : TDel) (j : Nat) (h : j < log.length) : evsAt (log ++ [d]) j = evsAt log j := by
  unfold evsAt; rw [List.getElem?_append_left h]

theorem addTargets_mono (m : MailF) (r : RcptF) : ∀ (ks : List Nat) (ents : List DEntry) (log : Log),
    EntInv log ents → EntOK log ents →
    EntExt ents (addTargets m r ks ents log).1 ∧
    EntOK (addTargets m r ks ents log).2.1 (addTargets m r ks ents log).1 ∧
    ((addTargets m r ks ents log).2.2 = none →
      ∀ k ∈ ks, ∃ e' ∈ (addTargets m r ks ents log).1, e'.tgt = k ∧ (r.uid, r.id) ∈ e'.rcpts) := by
  intro ks
  induction ks with
  | nil => intro ents log _ hok; exact ⟨EntExt.refl _, hok, by simp [addTargets]⟩
  | cons k ks ih =>
    intro ents log hinv hok
    simp only [addTargets]
    split
    · rename_i e hfind
      have hemem : e ∈ ents := List.mem_of_find?_eq_some hfind
      have hek : e.tgt = k := by have := List.find?_some hfind; simpa using this
      have hlt : e.idx < log.length := hinv.lt e.idx (List.mem_map_of_mem hemem)
      split
      · exact ⟨EntExt.refl _, hok.addEv _ _, by simp⟩
      · -- the delivery of target k accepts the recipient
        generalize hE1 : ents.map (fun x => if x.idx == e.idx then { x with rcpts := x.rcpts ++ [(r.uid, r.id)] } else x) = ents1
        generalize hL1 : addEv log e.idx (.rcpt r.uid r.id true) = log1
        have hidx : eidx ents1 = eidx ents := by rw [← hE1]; exact eidx_map_rcpts _ _ (by intro x; split <;> rfl)
        have hinv1 : EntInv log1 ents1 := by
          rw [← hL1]
          exact ⟨by rw [hidx]; exact hinv.nodup, by rw [hidx]; intro i hi; rw [addEv_length]; exact hinv.lt i hi,
            by rw [hidx]; exact hinv.inv.addOpen (by simp [eidx]; exact ⟨e, hemem, rfl⟩) rfl⟩
        have hext1 : EntExt ents ents1 := by
          intro x hx
          rw [← hE1]
          refine ⟨_, List.mem_map_of_mem (f := fun x => if x.idx == e.idx then { x with rcpts := x.rcpts ++ [(r.uid, r.id)] } else x) hx, ?_, ?_, ?_⟩
          · split <;> rfl
          · split <;> rfl
          · intro p hp; split
            · exact List.mem_append_left _ hp
            · exact hp
        have hok1 : EntOK log1 ents1 := by
          rw [← hE1, ← hL1]
          refine ⟨?_, ?_⟩
          · intro x hx p hp
            obtain ⟨y, hy, hyx⟩ := List.mem_map.mp hx
            by_cases hyk : (y.idx == e.idx) = true
            · simp only [hyk, if_true] at hyx
              subst hyx
              simp only [List.mem_append, List.mem_singleton] at hp
              have hye : y.idx = e.idx := by simpa using hyk
              show Ev.rcpt p.1 p.2 true ∈ evsAt (addEv log e.idx (.rcpt r.uid r.id true)) y.idx
              rw [hye, evsAt_addEv_eq _ _ _ hlt]
              rcases hp with hp | hp
              · have := hok.logged y hy p hp; rw [hye] at this; exact List.mem_append_left _ this
              · subst hp; simp
            · have hyk' : (y.idx == e.idx) = false := by simpa using hyk
              simp only [hyk', Bool.false_eq_true, if_false] at hyx
              subst hyx
              exact (hok.addEv _ _).logged y hy p hp
          · intro x hx
            obtain ⟨y, hy, hyx⟩ := List.mem_map.mp hx
            subst hyx
            split <;> exact hok.notFailed y hy
        obtain ⟨a, b, c⟩ := ih ents1 log1 hinv1 hok1
        refine ⟨hext1.trans a, b, ?_⟩
        intro hres k' hk'
        simp only [List.mem_cons] at hk'
        rcases hk' with hk' | hk'
        · subst hk'
          -- e's successor in ents1 has the recipient; it survives the rest of the loop
          have he1 : (if e.idx == e.idx then { e with rcpts := e.rcpts ++ [(r.uid, r.id)] } else e) ∈ ents1 := by
            rw [← hE1]
            exact List.mem_map_of_mem (f := fun x => if x.idx == e.idx then { x with rcpts := x.rcpts ++ [(r.uid, r.id)] } else x) hemem
          simp only [beq_self_eq_true, if_true] at he1
          obtain ⟨e2, he2, t2, i2, r2⟩ := a _ he1
          exact ⟨e2, he2, by rw [t2]; exact hek, r2 _ (by simp)⟩
        · exact c hres k' hk'
    · rename_i hfind
      split
      · exact ⟨EntExt.refl _, hok, by simp⟩
      · generalize hL0 : log ++ [(⟨k, []⟩ : TDel)] = log0
        have hlen0 : log0.length = log.length + 1 := by rw [← hL0]; simp
        have hpush : ∀ j, j < log.length → evsAt log0 j = evsAt log j := by
          intro j hj; rw [← hL0]; exact evsAt_push _ _ _ hj
        have hold : ∀ x ∈ ents, x.idx < log.length := fun x hx => hinv.lt x.idx (List.mem_map_of_mem hx)
        -- the invariants for the entry list extended by the new delivery, whatever its recipient list
        have hnewInv : ∀ rc, EntInv log0 (ents ++ [⟨k, log.length, rc, false⟩]) := by
          intro rc
          rw [← hL0]
          refine ⟨?_, ?_, ?_⟩
          · simp only [eidx, List.map_append, List.map_cons, List.map_nil]
            rw [List.nodup_append]
            refine ⟨hinv.nodup, by simp, ?_⟩
            intro a ha b hb
            simp at hb; subst hb
            have := hinv.lt a ha; omega
          · intro i hi
            simp only [eidx, List.map_append, List.map_cons, List.map_nil, List.mem_append, List.mem_singleton] at hi
            rcases hi with hi | hi
            · have := hinv.lt i hi; simp; omega
            · simp; omega
          · refine (hinv.inv.push k).congr ?_
            intro i _
            simp [eidx]
            congr 1
        have hnewOK : EntOK log0 (ents ++ [⟨k, log.length, [], false⟩]) := by
          refine ⟨?_, ?_⟩
          · intro x hx p hp
            simp only [List.mem_append, List.mem_singleton] at hx
            rcases hx with hx | hx
            · rw [hpush _ (hold x hx)]; exact hok.logged x hx p hp
            · subst hx; simp at hp
          · intro x hx
            simp only [List.mem_append, List.mem_singleton] at hx
            rcases hx with hx | hx
            · exact hok.notFailed x hx
            · subst hx; rfl
        have hextNew : ∀ rc, EntExt ents (ents ++ [⟨k, log.length, rc, false⟩]) :=
          fun rc x hx => ⟨x, List.mem_append_left _ hx, rfl, rfl, fun _ h => h⟩
        split
        · refine ⟨hextNew _, hnewOK.addEv _ _, by simp⟩
        · have hok2 : EntOK (addEv log0 log.length (.rcpt r.uid r.id true)) (ents ++ [⟨k, log.length, [(r.uid, r.id)], false⟩]) := by
            refine ⟨?_, ?_⟩
            · intro x hx p hp
              simp only [List.mem_append, List.mem_singleton] at hx
              rcases hx with hx | hx
              · have := (hnewOK.addEv log.length (.rcpt r.uid r.id true)).logged x (List.mem_append_left _ hx) p hp
                exact this
              · subst hx
                simp at hp; subst hp
                show Ev.rcpt r.uid r.id true ∈ evsAt (addEv log0 log.length (.rcpt r.uid r.id true)) log.length
                rw [evsAt_addEv_eq _ _ _ (by omega)]; simp
            · intro x hx
              simp only [List.mem_append, List.mem_singleton] at hx
              rcases hx with hx | hx
              · exact hok.notFailed x hx
              · subst hx; rfl
          have hinv2 : EntInv (addEv log0 log.length (.rcpt r.uid r.id true)) (ents ++ [⟨k, log.length, [(r.uid, r.id)], false⟩]) := by
            have h0 := hnewInv [(r.uid, r.id)]
            refine ⟨h0.nodup, by intro i hi; rw [addEv_length]; exact h0.lt i hi, h0.inv.addOpen (by simp [eidx]) rfl⟩
          obtain ⟨a, b, c⟩ := ih _ _ hinv2 hok2
          refine ⟨(hextNew _).trans a, b, ?_⟩
          intro hres k' hk'
          simp only [List.mem_cons] at hk'
          rcases hk' with hk' | hk'
          · subst hk'
            obtain ⟨e2, he2, t2, i2, r2⟩ := a ⟨k', log.length, [(r.uid, r.id)], false⟩ (by simp)
            exact ⟨e2, he2, t2, r2 _ (by simp)⟩
          · exact c hres k' hk'


theorem pAddRcpt_mono (cfg : Cfg) (pd : PDel) (r : RcptF) (log : Log) (h : EntInv log pd.ents) (hok : EntOK log pd.ents) :
    EntExt pd.ents (pAddRcpt cfg pd r log).1.ents ∧
    EntOK (pAddRcpt cfg pd r log).2.1 (pAddRcpt cfg pd r log).1.ents ∧
    ((pAddRcpt cfg pd r log).2.2 = none →
      ∀ k ∈ targetsOf cfg (cfg.routes r.dom), ∃ e' ∈ (pAddRcpt cfg pd r log).1.ents, e'.tgt = k ∧ (r.uid, r.id) ∈ e'.rcpts) := by
  unfold pAddRcpt
  simp only
  split
  · exact ⟨EntExt.refl _, hok, by simp⟩
  · split
    · exact ⟨EntExt.refl _, hok, by simp⟩
    · split
      · exact ⟨EntExt.refl _, hok, by simp⟩
      · split
        · exact ⟨EntExt.refl _, hok, by simp⟩
        · have := addTargets_mono pd.mail r (targetsOf cfg (cfg.routes r.dom)) pd.ents log h hok
          generalize addTargets pd.mail r (targetsOf cfg (cfg.routes r.dom)) pd.ents log = x at *
          obtain ⟨a, b, c⟩ := x
          exact this

theorem sessRcptOn_mono (cfg : Cfg) (w : World) (pd : PDel) (r : RcptF) (h : WInv w)
    (hd : w.sess.delivery = some pd) (hok : EntOK w.log pd.ents) :
    EntExt pd.ents (curEnts (sessRcptOn cfg w pd r).1) ∧
    EntOK (sessRcptOn cfg w pd r).1.log (curEnts (sessRcptOn cfg w pd r).1) ∧
    ((sessRcptOn cfg w pd r).2 = none →
      ∀ k ∈ targetsOf cfg (cfg.routes r.dom), ∃ e' ∈ curEnts (sessRcptOn cfg w pd r).1, e'.tgt = k ∧ (r.uid, r.id) ∈ e'.rcpts) := by
  unfold sessRcptOn
  split
  · simp [curEnts, hd]; exact ⟨EntExt.refl _, hok⟩
  · have he : EntInv w.log pd.ents := by simpa [curEnts, hd] using h.ent
    have := pAddRcpt_mono cfg pd r w.log he hok
    generalize pAddRcpt cfg pd r w.log = x at *
    obtain ⟨pd', log', err⟩ := x
    simp only at this ⊢
    cases err with
    | some c => simp only; simp [curEnts]; exact ⟨this.1, this.2.1⟩
    | none => simp only; simp [curEnts]; exact ⟨this.1, this.2.1, this.2.2 rfl⟩

theorem sessRcpt_mono (cfg : Cfg) (w : World) (r : RcptF) (h : WInv w) (hok : EntOK w.log (curEnts w)) :
    EntExt (curEnts w) (curEnts (sessRcpt cfg w r).1) ∧
    EntOK (sessRcpt cfg w r).1.log (curEnts (sessRcpt cfg w r).1) ∧
    ((sessRcpt cfg w r).2 = none →
      ∀ k ∈ targetsOf cfg (cfg.routes r.dom), ∃ e' ∈ curEnts (sessRcpt cfg w r).1, e'.tgt = k ∧ (r.uid, r.id) ∈ e'.rcpts) := by
  unfold sessRcpt
  split
  · rename_i pd hd
    have := sessRcptOn_mono cfg w pd r h hd (by simpa [curEnts, hd] using hok)
    simpa [curEnts, hd] using this
  · rename_i hd
    have hce : curEnts w = [] := by simp [curEnts, hd]
    split
    · rw [hce]; exact ⟨fun _ he => by simp at he, by rw [hce] at hok; simpa [curEnts, hd] using hok, by simp⟩
    · obtain ⟨a, b, c⟩ := startDelivery_inv w w.sess.mail h hd
      generalize startDelivery w w.sess.mail = x at *
      obtain ⟨w1, res⟩ := x
      cases res with
      | some c1 =>
        simp only
        have hs := (c (by simp))
        simp only at hs
        rw [hce]
        refine ⟨fun _ he => by simp at he, ?_, by simp⟩
        simp [curEnts, hs.1, hd]
        exact ⟨by simp, by simp⟩
      | none =>
        simp only
        have hb := b rfl
        simp only at hb a
        have hok1 : EntOK w1.log (⟨w.sess.mail, []⟩ : PDel).ents := ⟨by simp, by simp⟩
        have := sessRcptOn_mono cfg w1 ⟨w.sess.mail, []⟩ r a hb.1 hok1
        rw [hce]
        exact ⟨fun _ he => by simp at he, this.2.1, this.2.2⟩

theorem sessMail_ents (cfg : Cfg) (w : World) (m : MailF) (h : WInv w) :
    (sessMail cfg w m).1.log = w.log ∧
    (curEnts (sessMail cfg w m).1 = curEnts w ∨ (w.sess.delivery = none ∧ curEnts (sessMail cfg w m).1 = [])) := by
  unfold sessMail
  split
  · exact ⟨rfl, Or.inl rfl⟩
  · rename_i hd
    have hd' : w.sess.delivery = none := by cases hx : w.sess.delivery <;> simp [hx] at hd ⊢
    split
    · obtain ⟨a, b, c⟩ := startDelivery_inv w m h hd'
      generalize startDelivery w m = x at *
      obtain ⟨w1, res⟩ := x
      cases res with
      | some code =>
        have := c (by simp)
        simp only at this ⊢
        exact ⟨this.2, Or.inl (by simp [curEnts, this.1])⟩
      | none =>
        have := b rfl
        simp only at this ⊢
        exact ⟨this.2.2.1, Or.inr ⟨hd', by simp [curEnts, this.1]⟩⟩
    · exact ⟨rfl, Or.inl (by simp [curEnts, hd'])⟩

/-- second invariant: the recipients go-smtp holds are known to every routed target of the open delivery -/
structure Inv2 (cfg : Cfg) (st : St) : Prop where
  cover : st.closed = false → ∀ r ∈ st.rcpts, ∀ k ∈ targetsOf cfg (cfg.routes r.dom),
    ∃ e ∈ curEnts st.w, e.tgt = k ∧ (r.uid, r.id) ∈ e.rcpts
  ok : EntOK st.w.log (curEnts st.w)

theorem Inv2.ofNone {cfg : Cfg} {st : St} (hd : st.w.sess.delivery = none) (hr : st.closed = false → st.rcpts = []) :
    Inv2 cfg st :=
  ⟨fun hc r hm => by rw [hr hc] at hm; simp at hm, by simp [curEnts, hd]; exact ⟨by simp, by simp⟩⟩

theorem runData_none (cfg : Cfg) (st : St) (f : DataF) (h : Inv st) (hc : st.closed = false) (hr : st.rcpts ≠ []) :
    (runData cfg st f).1.w.sess.delivery = none ∧ (runData cfg st f).1.rcpts = [] := by
  have hd := h.rcptsDel hc hr
  have hh := h.delHelo hd
  unfold runData
  split
  · obtain ⟨a, b⟩ := sessLMTPData_inv cfg st.w f h.w hd
    generalize sessLMTPData cfg st.w f = r at *
    obtain ⟨w1, res⟩ := r
    simp only at a b ⊢
    simp only [b, Bool.false_eq_true, if_false]
    have := connReset_inv_weak { st with w := w1 } a (fun _ => hh) h.closedHelo
    exact ⟨this.2.1, by simp [connReset]⟩
  · obtain ⟨a, b⟩ := sessData_inv st.w f h.w hd
    generalize sessData st.w f = r at *
    obtain ⟨w1, res⟩ := r
    simp only at a b ⊢
    simp only [b, Bool.false_eq_true, if_false]
    have := connReset_inv_weak { st with w := w1 } a (fun _ => hh) h.closedHelo
    exact ⟨this.2.1, by simp [connReset]⟩

theorem step_inv2 (cfg : Cfg) (st : St) (t : Tok) (h : Inv st) (h2 : Inv2 cfg st) : Inv2 cfg (step cfg st t).1 := by
  unfold step
  by_cases hc : st.closed = true
  · simp [hc]; exact h2
  · have hc' : st.closed = false := by simpa using hc
    rw [if_neg hc]
    have hreset : Inv2 cfg (connReset st) :=
      Inv2.ofNone (connReset_inv st h).2.1 (fun _ => by simp [connReset])
    have hclose : ∀ s, Inv s → Inv2 cfg (connClose s) := fun s hs =>
      Inv2.ofNone (connClose_inv s hs).2.2 (fun hx => by simp [connClose] at hx)
    cases t with
    | greet => exact ⟨h2.cover, h2.ok⟩
    | helo => simp only [one]; split <;> exact ⟨h2.cover, h2.ok⟩
    | greetWrong => exact h2
    | greetNoArg => exact h2
    | noop => exact h2
    | vrfy => exact h2
    | rset => exact hreset
    | unknown =>
      simp only [protocolError]
      split
      · exact hclose _ ⟨h.w, h.rcptsDel, h.delHelo, h.fromHelo, h.closedHelo, h.bdatRcpts⟩
      · exact ⟨h2.cover, h2.ok⟩
    | quit => exact hclose st h
    | drop => exact hclose st h
    | authGood => simp only [one]; split <;> (try split) <;> exact ⟨h2.cover, h2.ok⟩
    | authBad => simp only [one]; split <;> (try split) <;> exact h2
    | bdatNoArg => exact h2
    | mail m =>
      simp only [one]
      split
      · exact h2
      · split
        · exact h2
        · split
          · exact h2
          · split
            · exact h2
            · split
              · exact h2
              · obtain ⟨hl, hce⟩ := sessMail_ents cfg st.w m h.w
                generalize sessMail cfg st.w m = x at *
                obtain ⟨w1, res⟩ := x
                simp only at hl hce
                have key : Inv2 cfg { st with w := w1 } ∧ ∀ b, Inv2 cfg { st with w := w1, fromReceived := b } := by
                  rcases hce with hce | ⟨hdn, hce⟩
                  · have : EntOK w1.log (curEnts w1) := by rw [hl, hce]; exact h2.ok
                    exact ⟨⟨fun hx => by rw [hce]; exact h2.cover hx, this⟩,
                      fun b => ⟨fun hx => by rw [hce]; exact h2.cover hx, this⟩⟩
                  · have hr : st.rcpts = [] := by
                      cases hx : st.rcpts with
                      | nil => rfl
                      | cons a l => have := h.rcptsDel hc' (by simp [hx]); simp [hdn] at this
                    have : EntOK w1.log (curEnts w1) := by rw [hce]; exact ⟨by simp, by simp⟩
                    exact ⟨⟨fun _ r hm' => by simp [hr] at hm', this⟩,
                      fun b => ⟨fun _ r hm' => by simp [hr] at hm', this⟩⟩
                cases res with
                | some code => exact key.1
                | none => exact key.2 true
    | rcpt r =>
      simp only [one]
      split
      · exact h2
      · split
        · exact h2
        · split
          · exact h2
          · obtain ⟨a, b, c⟩ := sessRcpt_mono cfg st.w r h.w h2.ok
            generalize sessRcpt cfg st.w r = x at *
            obtain ⟨w1, res⟩ := x
            have hold : ∀ r' ∈ st.rcpts, ∀ k ∈ targetsOf cfg (cfg.routes r'.dom),
                ∃ e ∈ curEnts w1, e.tgt = k ∧ (r'.uid, r'.id) ∈ e.rcpts := by
              intro r' hr' k hk
              obtain ⟨e, he, ht, hp⟩ := h2.cover hc' r' hr' k hk
              obtain ⟨e', he', t', i', r''⟩ := a e he
              exact ⟨e', he', t'.trans ht, r'' _ hp⟩
            cases res with
            | some code => simp only; exact ⟨fun _ => hold, b⟩
            | none =>
              simp only
              refine ⟨fun _ r' hr' => ?_, b⟩
              simp only [List.mem_append, List.mem_singleton] at hr'
              rcases hr' with hr' | hr'
              · exact hold r' hr'
              · subst hr'; exact c rfl
    | data f =>
      simp only [one]
      split
      · exact h2
      · split
        · exact h2
        · split
          · exact h2
          · rename_i hg
            have hr : st.rcpts ≠ [] := by intro he; simp [he] at hg
            split
            · exact hclose _ (connReset_inv st h).1
            · have := runData_none cfg st f h hc' hr
              generalize runData cfg st f = x at *
              obtain ⟨st1, rep⟩ := x
              exact Inv2.ofNone this.1 (fun _ => this.2)
    | bdat last f =>
      simp only [one]
      split
      · exact h2
      · rename_i hg
        have hr : st.rcpts ≠ [] := by intro he; simp [he] at hg
        split
        · split
          · exact hreset
          · split
            · have := runData_none cfg st f h hc' hr
              generalize runData cfg st f = x at *
              obtain ⟨st1, rep⟩ := x
              exact Inv2.ofNone this.1 (fun _ => this.2)
            · exact ⟨h2.cover, h2.ok⟩
        · rename_i f0 hb
          split
          · have h1 : Inv { st with bdat := none } :=
              ⟨h.w, h.rcptsDel, h.delHelo, h.fromHelo, h.closedHelo, by simp⟩
            have := runData_none cfg { st with bdat := none } f0 h1 hc' hr
            generalize runData cfg { st with bdat := none } f0 = x at *
            obtain ⟨st1, rep⟩ := x
            exact Inv2.ofNone this.1 (fun _ => this.2)
          · exact h2

theorem steps_inv2 (cfg : Cfg) (toks : List Tok) : ∀ st, Inv st → Inv2 cfg st →
    Inv (steps cfg st toks) ∧ Inv2 cfg (steps cfg st toks) := by
  induction toks with
  | nil => intro st h h2; exact ⟨h, h2⟩
  | cons t ts ih => intro st h h2; exact ih _ (step_inv cfg st t h) (step_inv2 cfg st t h h2)

theorem Inv2.init (cfg : Cfg) (oracle : List (List Nat)) : Inv2 cfg (start oracle) :=
  Inv2.ofNone rfl (fun _ => rfl)


theorem pBody_ok (f : DataF) (pd : PDel) (w : World) (h : EntInv w.log pd.ents) (hres : (pBody f pd w).2 = none) :
    ∀ e ∈ pd.ents, evsAt (pBody f pd w).1.log e.idx = evsAt w.log e.idx ++ [.body true] := by
  unfold pBody at hres ⊢
  split at hres
  · simp at hres
  · split at hres
    · simp at hres
    · rename_i h1 h2
      simp only [h1, h2, Bool.false_eq_true, if_false]
      have hperm := nextOrder_perm w pd.ents
      obtain ⟨hl, _⟩ := nextOrder_w w pd.ents
      generalize nextOrder w pd.ents = r at *
      obtain ⟨w1, ord⟩ := r
      simp only at *
      have hnd : (eidx ord).Nodup := ((hperm.map _).nodup_iff).mpr h.nodup
      have hlt : ∀ e ∈ ord, e.idx < w1.log.length := by
        intro e he; rw [hl]; exact h.lt e.idx (List.mem_map_of_mem (hperm.mem_iff.mp he))
      have := bodyAll_ok f ord w1.log hnd hlt
      generalize bodyAll f ord w1.log = r2 at *
      obtain ⟨log2, err2⟩ := r2
      simp only at *
      intro e he
      rw [(this hres).1 e (hperm.mem_iff.mpr he), hl]

theorem pCommit_ok (pd : PDel) (w : World) (h : EntInv w.log pd.ents) (hnf : ∀ e ∈ pd.ents, e.failed = false)
    (hres : (pCommit pd w).2 = none) :
    ∀ e ∈ pd.ents, evsAt (pCommit pd w).1.log e.idx = evsAt w.log e.idx ++ [.commit true] := by
  unfold pCommit at hres ⊢
  have hperm := nextOrder_perm w pd.ents
  obtain ⟨hl, _⟩ := nextOrder_w w pd.ents
  generalize nextOrder w pd.ents = r at *
  obtain ⟨w1, ord⟩ := r
  simp only at *
  have hnd : (eidx ord).Nodup := ((hperm.map _).nodup_iff).mpr h.nodup
  have hlt : ∀ e ∈ ord, e.idx < w1.log.length := by
    intro e he; rw [hl]; exact h.lt e.idx (List.mem_map_of_mem (hperm.mem_iff.mp he))
  have := commitAll_ok pd.mail ord w1.log hnd hlt (fun e he => hnf e (hperm.mem_iff.mp he))
  generalize commitAll pd.mail ord none w1.log = r2 at *
  obtain ⟨log2, err2⟩ := r2
  simp only at *
  intro e he
  rw [(this hres).1 e (hperm.mem_iff.mpr he), hl]

theorem cleanSession_log (w : World) : (cleanSession w).log = w.log := by
  unfold cleanSession release
  cases w.sess.mail.key <;> simp <;> split <;> rfl

/-- `Session.Data` returned nil: every delivery of the transaction saw `Body` succeed and then `Commit` succeed -/
theorem sessData_success (w : World) (f : DataF) (pd : PDel) (h : WInv w) (hd : w.sess.delivery = some pd)
    (hnf : ∀ e ∈ pd.ents, e.failed = false) (hres : (sessData w f).2.err = none) :
    (∀ e ∈ pd.ents, evsAt (sessData w f).1.log e.idx = evsAt w.log e.idx ++ [.body true, .commit true]) ∧
    (sessData w f).1.sess.delivery = none := by
  have he : EntInv w.log pd.ents := by simpa [curEnts, hd] using h.ent
  unfold sessData at hres ⊢
  simp only [hd] at hres ⊢
  split at hres
  · simp at hres
  · split at hres
    · simp at hres
    · split at hres
      · simp at hres
      · rename_i k1 k2 k3
        simp only [k1, k2, k3, if_false]
        have hb := pBody_ok f pd w he
        obtain ⟨b1, b2, b3, b4, b5⟩ := pBody_spec f pd w he
        generalize pBody f pd w = r at *
        obtain ⟨w1, res⟩ := r
        cases res with
        | some c => simp at hres
        | none =>
          simp only at hres hb b1 b2 b3 b4 b5 ⊢
          have hcm := pCommit_ok pd w1 b1 hnf
          have hS := h.heldS; have hN := h.heldN
          simp [hd] at hS hN
          have hcc := commit_clean_inv w1 pd (by rw [b3, b2]; exact hS) (by rw [b4, b2]; exact hN)
            (by rw [b5]; exact h.noPanic) b1
          generalize pCommit pd w1 = r2 at *
          obtain ⟨w2, err⟩ := r2
          simp only at hres hcm hcc ⊢
          subst hres
          refine ⟨?_, hcc.2⟩
          intro e hem
          rw [cleanSession_log, hcm rfl e hem, hb trivial e hem]
          simp


theorem code_ge (c : Cls) (s : Nat) : c.code s ≥ 400 := by cases c <;> simp [Cls.code] <;> omega

theorem bodyAll_err_ge (f : DataF) : ∀ (l : List DEntry) (log : Log) (c : Nat), (bodyAll f l log).2 = some c → c ≥ 400 := by
  intro l
  induction l with
  | nil => intro log c h; simp [bodyAll] at h
  | cons e es ih =>
    intro log c h
    simp only [bodyAll] at h
    split at h
    · simp at h; subst h; exact code_ge _ _
    · exact ih _ _ h

theorem commitAll_err_ge (m : MailF) : ∀ (l : List DEntry) (err : Option Nat) (log : Log) (c : Nat),
    (∀ c0, err = some c0 → c0 ≥ 400) → (commitAll m l err log).2 = some c → c ≥ 400 := by
  intro l
  induction l with
  | nil => intro err log c h0 h; simp [commitAll] at h; exact h0 c h
  | cons e es ih =>
    intro err log c h0 h
    simp only [commitAll] at h
    split at h
    · exact ih _ _ _ h0 h
    · split at h
      · exact ih _ _ _ (by intro c0 hc0; simp at hc0; subst hc0; exact code_ge _ _) h
      · exact ih _ _ _ (by simp) h

theorem pBody_err_ge (f : DataF) (pd : PDel) (w : World) (c : Nat) (h : (pBody f pd w).2 = some c) : c ≥ 400 := by
  unfold pBody at h
  split at h
  · simp at h; subst h; exact code_ge _ _
  · split at h
    · simp at h; subst h; exact code_ge _ _
    · generalize nextOrder w pd.ents = r at *
      obtain ⟨w1, ord⟩ := r
      simp only at h
      have := bodyAll_err_ge f ord w1.log c
      generalize bodyAll f ord w1.log = r2 at *
      obtain ⟨l2, e2⟩ := r2
      exact this h

theorem pCommit_err_ge (pd : PDel) (w : World) (c : Nat) (h : (pCommit pd w).2 = some c) : c ≥ 400 := by
  unfold pCommit at h
  generalize nextOrder w pd.ents = r at *
  obtain ⟨w1, ord⟩ := r
  simp only at h
  have := commitAll_err_ge pd.mail ord none w1.log c (by simp)
  generalize commitAll pd.mail ord none w1.log = r2 at *
  obtain ⟨l2, e2⟩ := r2
  exact this h

theorem sessData_err_ge (w : World) (f : DataF) (c : Nat) (h : (sessData w f).2.err = some c) : c ≥ 400 := by
  unfold sessData at h
  split at h
  · simp at h; omega
  · split at h
    · simp at h; omega
    · split at h
      · simp at h; omega
      · split at h
        · simp at h; omega
        · rename_i pd _ _ _ _
          have hb := pBody_err_ge f pd w
          generalize pBody f pd w = r at *
          obtain ⟨w1, res⟩ := r
          cases res with
          | some c1 => simp at h; subst h; exact hb c1 rfl
          | none =>
            simp only at h
            have hc := pCommit_err_ge pd w1
            generalize pCommit pd w1 = r2 at *
            obtain ⟨w2, err⟩ := r2
            simp only at h
            exact hc c h

theorem okCode_250 (e : Option Nat) (h0 : ∀ c, e = some c → c ≥ 400) (h : okCode e = 250) : e = none := by
  cases e with
  | none => rfl
  | some c => simp [okCode] at h; have := h0 c rfl; omega

theorem connReset_log_of_none (st : St) (hd : st.w.sess.delivery = none) : (connReset st).w.log = st.w.log := by
  unfold connReset
  by_cases hh : st.helo = true <;> simp [hh, sessReset, hd]

/-- go-smtp answered the end of DATA / the LAST chunk with 250 on an SMTP endpoint -/
theorem runData_smtp_success (cfg : Cfg) (st : St) (f : DataF) (hl : cfg.lmtp = false) (h : Inv st) (h2 : Inv2 cfg st)
    (hc : st.closed = false) (hr : st.rcpts ≠ []) (hrep : (runData cfg st f).2 = [250]) :
    ∀ r ∈ st.rcpts, ∀ k ∈ targetsOf cfg (cfg.routes r.dom), ∃ e ∈ curEnts st.w,
      e.tgt = k ∧ (r.uid, r.id) ∈ e.rcpts ∧ Ev.rcpt r.uid r.id true ∈ evsAt st.w.log e.idx ∧
      evsAt (runData cfg st f).1.w.log e.idx = evsAt st.w.log e.idx ++ [.body true, .commit true] := by
  have hd := h.rcptsDel hc hr
  cases hdd : st.w.sess.delivery with
  | none => simp [hdd] at hd
  | some pd =>
    have hce : curEnts st.w = pd.ents := by simp [curEnts, hdd]
    have hsucc := sessData_success st.w f pd h.w hdd (by rw [← hce]; exact h2.ok.notFailed)
    have hpan := (sessData_inv st.w f h.w hd).2
    have hge := sessData_err_ge st.w f
    unfold runData at hrep ⊢
    simp only [hl, Bool.false_eq_true, if_false] at hrep ⊢
    generalize sessData st.w f = x at *
    obtain ⟨w1, res⟩ := x
    simp only at hsucc hpan hge hrep ⊢
    simp only [hpan, Bool.false_eq_true, if_false] at hrep ⊢
    have herr : res.err = none := okCode_250 _ hge (by simpa using hrep)
    obtain ⟨hev, hdn⟩ := hsucc herr
    intro r hrm k hk
    obtain ⟨e, he, ht, hp⟩ := h2.cover hc r hrm k hk
    refine ⟨e, he, ht, hp, h2.ok.logged e he _ hp, ?_⟩
    rw [connReset_log_of_none _ hdn]
    exact hev e (by rw [← hce]; exact he)

/-- the reply that ends a DATA command (after its 354) or a `BDAT … LAST` chunk is `250` -/
def finalSuccess (t : Tok) (o : Out) : Prop :=
  match t with
  | .data _ => o = .codes [354, 250]
  | .bdat true _ => o = .codes [250]
  | _ => False

/-- **Success reply ⇒ committed on the target of every accepted recipient (SMTP).**  In any state a session
can reach, if the reply that ends a DATA command or a `BDAT … LAST` chunk is `250`, then for every recipient
go-smtp holds for the transaction (every RCPT answered 250 since the last reset) and every target its
destination block routes to, that target's delivery object of this transaction had accepted the recipient
(`AddRcpt` ok is in its call log) and its call log was extended by exactly `Body ok, Commit ok`. -/
theorem C03_success_reply_implies_all_committed (cfg : Cfg) (oracle : List (List Nat)) (toks : List Tok) (t : Tok)
    (hl : cfg.lmtp = false) :
    let st := steps cfg (start oracle) toks
    finalSuccess t (step cfg st t).2 →
    ∀ r ∈ st.rcpts, ∀ k ∈ targetsOf cfg (cfg.routes r.dom), ∃ e ∈ curEnts st.w,
      e.tgt = k ∧ (r.uid, r.id) ∈ e.rcpts ∧ Ev.rcpt r.uid r.id true ∈ evsAt st.w.log e.idx ∧
      evsAt (step cfg st t).1.w.log e.idx = evsAt st.w.log e.idx ++ [.body true, .commit true] := by
  intro st hrep
  obtain ⟨h, h2⟩ := steps_inv2 cfg toks (start oracle) (Inv.init oracle) (Inv2.init cfg oracle)
  change Inv st at h; change Inv2 cfg st at h2
  by_cases hc : st.closed = true
  · cases t with
    | data f => simp [finalSuccess, step, hc] at hrep
    | bdat last f => cases last <;> simp [finalSuccess, step, hc] at hrep
    | _ => simp [finalSuccess] at hrep
  have hc' : st.closed = false := by simpa using hc
  cases t with
  | data f =>
    simp only [finalSuccess] at hrep
    unfold step at hrep ⊢
    rw [if_neg hc] at hrep ⊢
    simp only [one] at hrep ⊢
    split at hrep
    · simp at hrep
    · split at hrep
      · simp at hrep
      · split at hrep
        · simp at hrep
        · rename_i k1 k2 hg
          have hr : st.rcpts ≠ [] := by intro he; simp [he] at hg
          split at hrep
          · simp at hrep
          · rename_i k4
            simp only [k1, k2, hg, k4, if_false]
            have := runData_smtp_success cfg st f hl h h2 hc' hr
            generalize runData cfg st f = x at *
            obtain ⟨st1, rep⟩ := x
            simp only at hrep this ⊢
            exact this (by simpa using hrep)
  | bdat last f =>
    cases last with
    | false => simp [finalSuccess] at hrep
    | true =>
      simp only [finalSuccess] at hrep
      unfold step at hrep ⊢
      rw [if_neg hc] at hrep ⊢
      simp only [one] at hrep ⊢
      split at hrep
      · simp at hrep
      · rename_i hg
        have hr : st.rcpts ≠ [] := by intro he; simp [he] at hg
        simp only [hg, if_false]
        split at hrep
        · rename_i hb
          try simp only [hb]
          split at hrep
          · simp at hrep
          · rename_i k4
            simp only [k4, if_false, if_true]
            simp only [if_true] at hrep
            have := runData_smtp_success cfg st f hl h h2 hc' hr
            generalize runData cfg st f = x at *
            obtain ⟨st1, rep⟩ := x
            simp only at hrep this ⊢
            exact this (by simpa using hrep)
        · rename_i f0 hb
          simp only [hb, if_true]
          simp only [if_true] at hrep
          have h1 : Inv { st with bdat := none } :=
            ⟨h.w, h.rcptsDel, h.delHelo, h.fromHelo, h.closedHelo, by simp⟩
          have h21 : Inv2 cfg { st with bdat := none } := ⟨h2.cover, h2.ok⟩
          have := runData_smtp_success cfg { st with bdat := none } f0 hl h1 h21 hc' hr
          generalize runData cfg { st with bdat := none } f0 = x at *
          obtain ⟨st1, rep⟩ := x
          simp only at hrep this ⊢
          exact this (by simpa using hrep)
  | _ => simp [finalSuccess] at hrep


/-! ### failure before the commit step -/

/-- `log'` extends `log` by calls that all satisfy `P` (on old and on new delivery objects) -/
def Quiet (P : Ev → Prop) (log log' : Log) : Prop :=
  ∀ i, ∃ suf, evsAt log' i = evsAt log i ++ suf ∧ ∀ e ∈ suf, P e

theorem Quiet.refl (P : Ev → Prop) (log : Log) : Quiet P log log := fun i => ⟨[], by simp, by simp⟩

theorem Quiet.trans {P : Ev → Prop} {a b c : Log} (h1 : Quiet P a b) (h2 : Quiet P b c) : Quiet P a c := by
  intro i
  obtain ⟨s1, e1, p1⟩ := h1 i
  obtain ⟨s2, e2, p2⟩ := h2 i
  refine ⟨s1 ++ s2, by rw [e2, e1, List.append_assoc], ?_⟩
  intro e he
  rcases List.mem_append.mp he with he | he
  · exact p1 e he
  · exact p2 e he

theorem Quiet.addEv {P : Ev → Prop} (log : Log) (i : Nat) (e : Ev) (h : P e) : Quiet P log (addEv log i e) := by
  intro j
  rw [evsAt_addEv]
  split
  · exact ⟨[e], rfl, by simpa using h⟩
  · exact ⟨[], by simp, by simp⟩

theorem Quiet.mono {P Q : Ev → Prop} {a b : Log} (h : Quiet P a b) (hpq : ∀ e, P e → Q e) : Quiet Q a b := by
  intro i
  obtain ⟨s, e, p⟩ := h i
  exact ⟨s, e, fun x hx => hpq x (p x hx)⟩

def NotCommitOK (e : Ev) : Prop := e ≠ .commit true

theorem bodyAll_quiet (f : DataF) : ∀ (l : List DEntry) (log : Log), Quiet NotCommitOK log (bodyAll f l log).1 := by
  intro l
  induction l with
  | nil => intro log; exact Quiet.refl _ _
  | cons e es ih =>
    intro log
    simp only [bodyAll]
    split
    · exact Quiet.addEv _ _ _ (by simp [NotCommitOK])
    · exact (Quiet.addEv _ _ _ (by simp [NotCommitOK])).trans (ih _)

theorem abortAll_quiet (m : MailF) : ∀ (l : List DEntry) (log : Log), Quiet NotCommitOK log (abortAll m l log) := by
  intro l
  induction l with
  | nil => intro log; exact Quiet.refl _ _
  | cons e es ih =>
    intro log
    simp only [abortAll]
    exact (Quiet.addEv _ _ _ (by simp [NotCommitOK])).trans (ih _)

theorem pBody_quiet (f : DataF) (pd : PDel) (w : World) : Quiet NotCommitOK w.log (pBody f pd w).1.log := by
  unfold pBody
  split
  · exact Quiet.refl _ _
  · split
    · exact Quiet.refl _ _
    · obtain ⟨hl, _⟩ := nextOrder_w w pd.ents
      generalize nextOrder w pd.ents = r at *
      obtain ⟨w1, ord⟩ := r
      simp only at hl ⊢
      have := bodyAll_quiet f ord w1.log
      generalize bodyAll f ord w1.log = r2 at *
      obtain ⟨l2, e2⟩ := r2
      simp only at this ⊢
      rw [← hl]; exact this

theorem pAbort_quiet (pd : PDel) (w : World) : Quiet NotCommitOK w.log (pAbort pd w).log := by
  unfold pAbort
  obtain ⟨hl, _⟩ := nextOrder_w w pd.ents
  generalize nextOrder w pd.ents = r at *
  obtain ⟨w1, ord⟩ := r
  simp only at hl ⊢
  rw [← hl]; exact abortAll_quiet _ _ _

theorem sessReset_quiet (w : World) : Quiet NotCommitOK w.log (sessReset w).log := by
  unfold sessReset
  split
  · unfold sessAbort; rw [cleanSession_log]; exact pAbort_quiet _ _
  · exact Quiet.refl _ _

theorem connReset_quiet (st : St) : Quiet NotCommitOK st.w.log (connReset st).w.log := by
  unfold connReset
  by_cases hh : st.helo = true
  · simp only [hh, if_true]; exact sessReset_quiet _
  · simp only [hh, Bool.false_eq_true, if_false]; exact Quiet.refl _ _

/-- a failing `Commit` loop has called `Commit` on some delivery of the transaction and got an error -/
theorem commitAll_fail_witness (m : MailF) : ∀ (l : List DEntry) (log : Log) (c : Nat),
    (∀ e ∈ l, e.idx < log.length) → (commitAll m l none log).2 = some c →
    ∃ e ∈ l, Ev.commit false ∈ evsAt (commitAll m l none log).1 e.idx := by
  intro l
  induction l with
  | nil => intro log c _ h; simp [commitAll] at h
  | cons e es ih =>
    intro log c hlt h
    simp only [commitAll, Option.isSome_none, Bool.false_or] at h ⊢
    have hlt' : ∀ (ev : Ev), ∀ x ∈ es, x.idx < (addEv log e.idx ev).length := by
      intro ev x hx; rw [addEv_length]; exact hlt x (by simp [hx])
    split
    · -- a delivery without a body is aborted; the failing Commit comes later
      rename_i hf
      simp only [hf, if_true] at h
      obtain ⟨x, hx, hm⟩ := ih _ c (hlt' _) h
      exact ⟨x, by simp [hx], hm⟩
    · rename_i hf
      simp only [hf, Bool.false_eq_true, if_false] at h
      split
      · -- this Commit fails; later calls only append
        rename_i hcm
        refine ⟨e, by simp, ?_⟩
        have hq : ∀ (l2 : List DEntry) (err : Option Nat) (lg : Log) (i : Nat) (ev : Ev),
            ev ∈ evsAt lg i → ev ∈ evsAt (commitAll m l2 err lg).1 i := by
          intro l2
          induction l2 with
          | nil => intro err lg i ev h; exact h
          | cons y ys ih2 =>
            intro err lg i ev hin
            simp only [commitAll]
            have step1 : ∀ ev2, ev ∈ evsAt (addEv lg y.idx ev2) i := by
              intro ev2; rw [evsAt_addEv]; split
              · exact List.mem_append_left _ hin
              · exact hin
            split
            · exact ih2 _ _ _ _ (step1 _)
            · split
              · exact ih2 _ _ _ _ (step1 _)
              · exact ih2 _ _ _ _ (step1 _)
        apply hq
        rw [evsAt_addEv_eq _ _ _ (hlt e (by simp))]; simp
      · rename_i hcm
        simp only [hcm, Bool.false_eq_true, if_false] at h
        obtain ⟨x, hx, hm⟩ := ih _ c (hlt' _) h
        exact ⟨x, by simp [hx], hm⟩


theorem evsAt_push_any (log : Log) (k : Nat) (j : Nat) : evsAt (log ++ [⟨k, []⟩]) j = evsAt log j := by
  unfold evsAt
  by_cases h : j < log.length
  · rw [List.getElem?_append_left h]
  · rw [List.getElem?_append_right (by omega)]
    have : log[j]? = none := by simp; omega
    rw [this]
    cases hx : j - log.length with
    | zero => simp
    | succ n => simp

theorem Quiet.push (P : Ev → Prop) (log : Log) (k : Nat) : Quiet P log (log ++ [⟨k, []⟩]) :=
  fun j => ⟨[], by rw [evsAt_push_any]; simp, by simp⟩

theorem addTargets_quiet (m : MailF) (r : RcptF) : ∀ (ks : List Nat) (ents : List DEntry) (log : Log),
    Quiet NotCommitOK log (addTargets m r ks ents log).2.1 := by
  intro ks
  induction ks with
  | nil => intro ents log; exact Quiet.refl _ _
  | cons k ks ih =>
    intro ents log
    simp only [addTargets]
    split
    · split
      · exact Quiet.addEv _ _ _ (by simp [NotCommitOK])
      · exact (Quiet.addEv _ _ _ (by simp [NotCommitOK])).trans (ih _ _)
    · split
      · exact Quiet.refl _ _
      · split
        · exact (Quiet.push _ _ _).trans (Quiet.addEv _ _ _ (by simp [NotCommitOK]))
        · exact ((Quiet.push _ _ _).trans (Quiet.addEv _ _ _ (by simp [NotCommitOK]))).trans (ih _ _)

theorem pAddRcpt_quiet (cfg : Cfg) (pd : PDel) (r : RcptF) (log : Log) :
    Quiet NotCommitOK log (pAddRcpt cfg pd r log).2.1 := by
  unfold pAddRcpt
  simp only
  split
  · exact Quiet.refl _ _
  · split
    · exact Quiet.refl _ _
    · split
      · exact Quiet.refl _ _
      · split
        · exact Quiet.refl _ _
        · have := addTargets_quiet pd.mail r (targetsOf cfg (cfg.routes r.dom)) pd.ents log
          generalize addTargets pd.mail r (targetsOf cfg (cfg.routes r.dom)) pd.ents log = x at *
          obtain ⟨a, b, c⟩ := x
          exact this

theorem sessRcptOn_quiet (cfg : Cfg) (w : World) (pd : PDel) (r : RcptF) :
    Quiet NotCommitOK w.log (sessRcptOn cfg w pd r).1.log := by
  unfold sessRcptOn
  split
  · exact Quiet.refl _ _
  · have := pAddRcpt_quiet cfg pd r w.log
    generalize pAddRcpt cfg pd r w.log = x at *
    obtain ⟨pd', log', err⟩ := x
    cases err <;> exact this

theorem startDelivery_log (w : World) (m : MailF) : (startDelivery w m).1.log = w.log := by
  unfold startDelivery
  split
  · rfl
  · cases pStart m <;> simp [take, release] <;> cases m.key <;> simp <;> (try split) <;> rfl

theorem sessRcpt_quiet (cfg : Cfg) (w : World) (r : RcptF) : Quiet NotCommitOK w.log (sessRcpt cfg w r).1.log := by
  unfold sessRcpt
  split
  · exact sessRcptOn_quiet _ _ _ _
  · split
    · exact Quiet.refl _ _
    · have hl := startDelivery_log w w.sess.mail
      generalize startDelivery w w.sess.mail = x at *
      obtain ⟨w1, res⟩ := x
      simp only at hl
      cases res with
      | some c => simp only; rw [hl]; exact Quiet.refl _ _
      | none => simp only; rw [← hl]; exact sessRcptOn_quiet _ _ _ _

theorem sessMail_log (cfg : Cfg) (w : World) (m : MailF) : (sessMail cfg w m).1.log = w.log := by
  unfold sessMail
  split
  · rfl
  · split
    · exact startDelivery_log _ _
    · rfl

theorem connClose_quiet (st : St) : Quiet NotCommitOK st.w.log (connClose st).w.log := by
  unfold connClose
  by_cases hh : st.helo = true
  · simp only [hh, if_true]
    unfold sessLogout
    split
    · unfold sessAbort; rw [cleanSession_log]; exact pAbort_quiet _ _
    · exact Quiet.refl _ _
  · simp only [hh, Bool.false_eq_true, if_false]; exact Quiet.refl _ _

/-- what a step that does not end with a success reply may leave in the target logs -/
def NothingCommitted (st st' : St) : Prop :=
  Quiet NotCommitOK st.w.log st'.w.log ∨ ∃ e ∈ curEnts st.w, Ev.commit false ∈ evsAt st'.w.log e.idx

theorem runData_smtp_failure (cfg : Cfg) (st : St) (f : DataF) (hl : cfg.lmtp = false) (h : Inv st)
    (hc : st.closed = false) (hr : st.rcpts ≠ []) (hrep : (runData cfg st f).2 ≠ [250]) :
    NothingCommitted st (runData cfg st f).1 := by
  have hd := h.rcptsDel hc hr
  cases hdd : st.w.sess.delivery with
  | none => simp [hdd] at hd
  | some pd =>
    have hce : curEnts st.w = pd.ents := by simp [curEnts, hdd]
    have he : EntInv st.w.log pd.ents := by simpa [curEnts, hdd] using h.w.ent
    have hpan := (sessData_inv st.w f h.w hd).2
    unfold runData at hrep ⊢
    simp only [hl, Bool.false_eq_true, if_false] at hrep ⊢
    unfold sessData at hrep hpan ⊢
    simp only [hdd] at hrep hpan ⊢
    have hrq : ∀ s : St, s.w.log = st.w.log → Quiet NotCommitOK st.w.log (connReset s).w.log := by
      intro s hs; rw [← hs]; exact connReset_quiet s
    split
    · exact Or.inl (hrq _ rfl)
    · split
      · exact Or.inl (hrq _ rfl)
      · split
        · exact Or.inl (hrq _ rfl)
        · rename_i k1 k2 k3
          simp only [k1, k2, k3, if_false] at hrep hpan
          have hbq := pBody_quiet f pd st.w
          obtain ⟨b1, b2, b3, b4, b5⟩ := pBody_spec f pd st.w he
          generalize pBody f pd st.w = r at *
          obtain ⟨w1, res⟩ := r
          cases res with
          | some c =>
            simp only
            exact Or.inl (hbq.trans (connReset_quiet _))
          | none =>
            simp only at hrep hpan b1 b2 ⊢
            -- Commit was reached: the reply is not 250, so Commit failed for some delivery
            have hS := h.w.heldS; have hN := h.w.heldN
            simp [hdd] at hS hN
            have hcc := commit_clean_inv w1 pd (by rw [b3, b2]; exact hS) (by rw [b4, b2]; exact hN)
              (by rw [b5]; exact h.w.noPanic) b1
            have hwit : ∀ c, (pCommit pd w1).2 = some c → ∃ e ∈ pd.ents, Ev.commit false ∈ evsAt (pCommit pd w1).1.log e.idx := by
              intro c hcm
              unfold pCommit at hcm ⊢
              have hperm := nextOrder_perm w1 pd.ents
              obtain ⟨hl1, _⟩ := nextOrder_w w1 pd.ents
              generalize nextOrder w1 pd.ents = r at *
              obtain ⟨w2, ord⟩ := r
              simp only at *
              have hlt : ∀ e ∈ ord, e.idx < w2.log.length := by
                intro e he'; rw [hl1]; exact b1.lt e.idx (List.mem_map_of_mem (hperm.mem_iff.mp he'))
              have := commitAll_fail_witness pd.mail ord w2.log c hlt
              generalize commitAll pd.mail ord none w2.log = r2 at *
              obtain ⟨l2, e2⟩ := r2
              simp only at *
              obtain ⟨e, hem, hin⟩ := this hcm
              exact ⟨e, hperm.mem_iff.mp hem, hin⟩
            generalize pCommit pd w1 = r2 at *
            obtain ⟨w2, err⟩ := r2
            simp only at hrep hpan hcc hwit ⊢
            cases err with
            | none => simp [okCode] at hrep
            | some c =>
              obtain ⟨e, hem, hin⟩ := hwit c rfl
              refine Or.inr ⟨e, by rw [hce]; exact hem, ?_⟩
              simp only [Bool.false_eq_true, if_false]
              rw [connReset_log_of_none _ hcc.2, cleanSession_log]
              exact hin


/-- **A transaction that fails before the commit step is committed to no target (SMTP).**  Take any state
a session can reach and any next command.  Unless the command ends a transaction with a `250` (the case of
`C03_success_reply_implies_all_committed`), the step appends no successful `Commit` to the call log of any
delivery object, old or new — or the failure is at the commit step itself: `Commit` was called on a delivery
of this transaction and failed (then deliveries committed earlier in the same loop stay committed and the
remaining ones are aborted; the property does not ask for more). -/
theorem C03_failure_before_commit_commits_nothing (cfg : Cfg) (oracle : List (List Nat)) (toks : List Tok) (t : Tok)
    (hl : cfg.lmtp = false) :
    let st := steps cfg (start oracle) toks
    ¬ finalSuccess t (step cfg st t).2 → NothingCommitted st (step cfg st t).1 := by
  intro st hrep
  have h : Inv st := steps_inv cfg toks (start oracle) (Inv.init oracle)
  have same : ∀ s : St, s.w.log = st.w.log → NothingCommitted st s := fun s hs => Or.inl (by rw [hs]; exact Quiet.refl _ _)
  by_cases hc : st.closed = true
  · simp only [step, hc, if_true]; exact same _ rfl
  have hc' : st.closed = false := by simpa using hc
  unfold step at hrep ⊢
  rw [if_neg hc] at hrep ⊢
  cases t with
  | greet => exact same _ rfl
  | helo => simp only [one]; split <;> exact same _ rfl
  | greetWrong => exact same _ rfl
  | greetNoArg => exact same _ rfl
  | noop => exact same _ rfl
  | vrfy => exact same _ rfl
  | rset => exact Or.inl (connReset_quiet st)
  | unknown =>
    simp only [protocolError]
    split
    · exact Or.inl (connClose_quiet { st with errCount := st.errCount + 1 })
    · exact same _ rfl
  | quit => exact Or.inl (connClose_quiet st)
  | drop => exact Or.inl (connClose_quiet st)
  | authGood => simp only [one]; split <;> (try split) <;> exact same _ rfl
  | authBad => simp only [one]; split <;> (try split) <;> exact same _ rfl
  | bdatNoArg => exact same _ rfl
  | mail m =>
    simp only [one]
    split
    · exact same _ rfl
    · split
      · exact same _ rfl
      · split
        · exact same _ rfl
        · split
          · exact same _ rfl
          · split
            · exact same _ rfl
            · have hl2 := sessMail_log cfg st.w m
              generalize sessMail cfg st.w m = x at *
              obtain ⟨w1, res⟩ := x
              cases res <;> exact same _ hl2
  | rcpt r =>
    simp only [one]
    split
    · exact same _ rfl
    · split
      · exact same _ rfl
      · split
        · exact same _ rfl
        · have hq := sessRcpt_quiet cfg st.w r
          generalize sessRcpt cfg st.w r = x at *
          obtain ⟨w1, res⟩ := x
          cases res <;> exact Or.inl hq
  | data f =>
    simp only [one, finalSuccess] at hrep ⊢
    split
    · exact same _ rfl
    · split
      · exact same _ rfl
      · split
        · exact same _ rfl
        · rename_i k1 k2 hg
          have hr : st.rcpts ≠ [] := by intro he; simp [he] at hg
          split
          · exact Or.inl ((connReset_quiet st).trans (connClose_quiet _))
          · rename_i k4
            simp only [k1, k2, hg, k4, if_false] at hrep
            have := runData_smtp_failure cfg st f hl h hc' hr
            generalize runData cfg st f = x at *
            obtain ⟨st1, rep⟩ := x
            simp only at hrep this ⊢
            exact this (by intro he; apply hrep; rw [he]; simp)
  | bdat last f =>
    simp only [one] at hrep ⊢
    split
    · exact same _ rfl
    · rename_i hg
      have hr : st.rcpts ≠ [] := by intro he; simp [he] at hg
      simp only [hg, if_false] at hrep
      split
      · rename_i hb
        split
        · exact Or.inl (connReset_quiet st)
        · rename_i k4
          split
          · rename_i hlast
            subst hlast
            simp only [hb, k4, if_false, if_true, finalSuccess] at hrep
            have := runData_smtp_failure cfg st f hl h hc' hr
            generalize runData cfg st f = x at *
            obtain ⟨st1, rep⟩ := x
            simp only at hrep this ⊢
            exact this (by intro he; apply hrep; rw [he]; simp)
          · exact same _ rfl
      · rename_i f0 hb
        split
        · rename_i hlast
          subst hlast
          simp only [hb, if_true, finalSuccess] at hrep
          have h1 : Inv { st with bdat := none } :=
            ⟨h.w, h.rcptsDel, h.delHelo, h.fromHelo, h.closedHelo, by simp⟩
          have := runData_smtp_failure cfg { st with bdat := none } f0 hl h1 hc' hr
          generalize runData cfg { st with bdat := none } f0 = x at *
          obtain ⟨st1, rep⟩ := x
          simp only at hrep this ⊢
          exact this (by intro he; apply hrep; rw [he]; simp)
        · exact same _ rfl


/-! ### LMTP: the recipient keys of the status wrapper -/

def KeysNone (w : World) : Prop := w.sess.delivery = none → w.sess.keys = []

theorem cleanSession_sess (w : World) : (cleanSession w).sess = {} := by
  unfold cleanSession release
  cases w.sess.mail.key <;> simp <;> split <;> rfl

theorem sessAbort_sess (w : World) (pd : PDel) : (sessAbort w pd).sess = {} := by
  unfold sessAbort; exact cleanSession_sess _

theorem sessReset_keys (w : World) (hk : KeysNone w) : (sessReset w).sess.keys = [] := by
  unfold sessReset
  split
  · rw [sessAbort_sess]
  · rename_i hd; exact hk hd

theorem sessLogout_keys (w : World) (hk : KeysNone w) : (sessLogout w).sess.keys = [] := by
  unfold sessLogout
  split
  · rw [sessAbort_sess]
  · rename_i hd; exact hk hd

theorem connReset_keys (st : St) (hk : KeysNone st.w) (hdh : st.w.sess.delivery.isSome = true → st.helo = true) :
    (connReset st).w.sess.keys = [] := by
  unfold connReset
  by_cases hh : st.helo = true
  · simp only [hh, if_true]; exact sessReset_keys _ hk
  · simp only [hh, Bool.false_eq_true, if_false]
    apply hk
    cases hd : st.w.sess.delivery with
    | none => rfl
    | some pd => exact absurd (hdh (by simp [hd])) hh

theorem connClose_keys (st : St) (hk : KeysNone st.w) (hdh : st.w.sess.delivery.isSome = true → st.helo = true) :
    (connClose st).w.sess.keys = [] := by
  unfold connClose
  by_cases hh : st.helo = true
  · simp only [hh, if_true]; exact sessLogout_keys _ hk
  · simp only [hh, Bool.false_eq_true, if_false]
    apply hk
    cases hd : st.w.sess.delivery with
    | none => rfl
    | some pd => exact absurd (hdh (by simp [hd])) hh

theorem startDelivery_keys (w : World) (m : MailF) :
    (startDelivery w m).1.sess.keys = w.sess.keys ∧
    ((startDelivery w m).2 ≠ none → (startDelivery w m).1.sess.delivery = w.sess.delivery) := by
  unfold startDelivery
  split
  · exact ⟨rfl, fun _ => rfl⟩
  · cases pStart m <;> simp [take, release] <;> cases m.key <;> simp <;> (try split) <;> simp

theorem sessMail_keys (cfg : Cfg) (w : World) (m : MailF) (hk : KeysNone w) :
    (sessMail cfg w m).1.sess.keys = w.sess.keys ∧ KeysNone (sessMail cfg w m).1 := by
  unfold sessMail
  split
  · exact ⟨rfl, hk⟩
  · rename_i hd
    have hd' : w.sess.delivery = none := by cases hx : w.sess.delivery <;> simp [hx] at hd ⊢
    split
    · have := startDelivery_keys w m
      refine ⟨this.1, ?_⟩
      intro _; rw [this.1]; exact hk hd'
    · exact ⟨rfl, fun _ => hk hd'⟩

theorem sessRcptOn_keys (cfg : Cfg) (w : World) (pd : PDel) (r : RcptF) :
    (sessRcptOn cfg w pd r).1.sess.keys =
      (if (sessRcptOn cfg w pd r).2 = none then w.sess.keys ++ [r.uid] else w.sess.keys) ∧
    (sessRcptOn cfg w pd r).1.sess.delivery.isSome = true ∨ (sessRcptOn cfg w pd r).1 = w := by
  unfold sessRcptOn
  split
  · exact Or.inr rfl
  · generalize pAddRcpt cfg pd r w.log = x
    obtain ⟨pd', log', err⟩ := x
    cases err <;> simp

theorem sessRcptOn_keys_eq (cfg : Cfg) (w : World) (pd : PDel) (r : RcptF) :
    (sessRcptOn cfg w pd r).1.sess.keys =
      (if (sessRcptOn cfg w pd r).2 = none then w.sess.keys ++ [r.uid] else w.sess.keys) := by
  unfold sessRcptOn
  split
  · simp
  · generalize pAddRcpt cfg pd r w.log = x
    obtain ⟨pd', log', err⟩ := x
    cases err <;> simp

theorem sessRcpt_keys (cfg : Cfg) (w : World) (r : RcptF) (h : WInv w) (hk : KeysNone w) :
    (sessRcpt cfg w r).1.sess.keys =
      (if (sessRcpt cfg w r).2 = none then w.sess.keys ++ [r.uid] else w.sess.keys) ∧
    KeysNone (sessRcpt cfg w r).1 := by
  have hsome := (sessRcpt_inv cfg w r h).2
  unfold sessRcpt at hsome ⊢
  split
  · rename_i pd hd
    have hi := (sessRcptOn_inv cfg w pd r h hd).2
    refine ⟨sessRcptOn_keys_eq cfg w pd r, ?_⟩
    intro hn; rw [hn] at hi; simp at hi
  · rename_i hd
    split
    · exact ⟨by simp, hk⟩
    · obtain ⟨a, b, c⟩ := startDelivery_inv w w.sess.mail h hd
      have hkk := startDelivery_keys w w.sess.mail
      generalize startDelivery w w.sess.mail = x at *
      obtain ⟨w1, res⟩ := x
      cases res with
      | some c1 =>
        simp only at hkk ⊢
        refine ⟨by simpa using hkk.1, ?_⟩
        intro _
        show w1.sess.keys = []
        rw [hkk.1]; exact hk hd
      | none =>
        simp only at hkk a b ⊢
        have hi := (sessRcptOn_inv cfg w1 ⟨w.sess.mail, []⟩ r a (b trivial).1).2
        refine ⟨by rw [sessRcptOn_keys_eq, hkk.1], ?_⟩
        intro hn; rw [hn] at hi; simp at hi

/-- third invariant: the status wrapper's keys are the addresses of the recipients go-smtp holds -/
structure InvK (st : St) : Prop where
  keys : st.closed = false → st.w.sess.keys = st.rcpts.map (·.uid)
  none : KeysNone st.w

theorem pBody_sess (f : DataF) (pd : PDel) (w : World) : (pBody f pd w).1.sess = w.sess := by
  unfold pBody
  split
  · rfl
  · split
    · rfl
    · obtain ⟨_, h2, _⟩ := nextOrder_w w pd.ents
      generalize nextOrder w pd.ents = r at *
      obtain ⟨w1, ord⟩ := r
      generalize bodyAll f ord w1.log = r2
      obtain ⟨l2, e2⟩ := r2
      exact h2

theorem sessData_keysNone (w : World) (f : DataF) (hk : KeysNone w) : KeysNone (sessData w f).1 := by
  unfold sessData
  split
  · intro hd; exact hk hd
  · rename_i pd hdd
    split
    · exact hk
    · split
      · exact hk
      · split
        · exact hk
        · have hs := pBody_sess f pd w
          generalize pBody f pd w = r at *
          obtain ⟨w1, res⟩ := r
          cases res with
          | some c => simp only at hs ⊢; intro hd; rw [hs] at hd ⊢; exact hk hd
          | none =>
            simp only
            generalize pCommit pd w1 = r2
            obtain ⟨w2, err⟩ := r2
            intro _; rw [cleanSession_sess]

theorem sessLMTPData_keysNone (cfg : Cfg) (w : World) (f : DataF) (hk : KeysNone w) :
    KeysNone (sessLMTPData cfg w f).1 := by
  unfold sessLMTPData
  split
  · intro hd; exact hk hd
  · rename_i pd hdd
    split
    · exact hk
    · split
      · exact hk
      · split
        · exact hk
        · generalize pBodyNA cfg f pd w.sess.keys w = r
          obtain ⟨w1, pd1, sts⟩ := r
          simp only
          generalize pCommit pd1 w1 = r2
          obtain ⟨w2, err⟩ := r2
          intro _; rw [cleanSession_sess]

theorem runData_keys (cfg : Cfg) (st : St) (f : DataF) (h : Inv st) (hk : KeysNone st.w)
    (hc : st.closed = false) (hr : st.rcpts ≠ []) :
    (runData cfg st f).1.w.sess.keys = [] ∧ (runData cfg st f).1.w.sess.delivery = none ∧
    (runData cfg st f).1.rcpts = [] := by
  have hd := h.rcptsDel hc hr
  have hh := h.delHelo hd
  have hn := runData_none cfg st f h hc hr
  refine ⟨?_, hn.1, hn.2⟩
  unfold runData
  split
  · have hp := (sessLMTPData_inv cfg st.w f h.w hd).2
    have hkk := sessLMTPData_keysNone cfg st.w f hk
    generalize sessLMTPData cfg st.w f = r at *
    obtain ⟨w1, res⟩ := r
    simp only at hp hkk ⊢
    simp only [hp, Bool.false_eq_true, if_false]
    exact connReset_keys _ hkk (fun _ => hh)
  · have hp := (sessData_inv st.w f h.w hd).2
    have hkk := sessData_keysNone st.w f hk
    generalize sessData st.w f = r at *
    obtain ⟨w1, res⟩ := r
    simp only at hp hkk ⊢
    simp only [hp, Bool.false_eq_true, if_false]
    exact connReset_keys _ hkk (fun _ => hh)

theorem InvK.ofEmpty {st : St} (hk : st.w.sess.keys = []) (hr : st.closed = false → st.rcpts = []) : InvK st :=
  ⟨fun hc => by rw [hk, hr hc]; rfl, fun _ => hk⟩

theorem step_invK (cfg : Cfg) (st : St) (t : Tok) (h : Inv st) (hk : InvK st) : InvK (step cfg st t).1 := by
  unfold step
  by_cases hc : st.closed = true
  · simp [hc]; exact hk
  · have hc' : st.closed = false := by simpa using hc
    rw [if_neg hc]
    have hreset : InvK (connReset st) :=
      InvK.ofEmpty (connReset_keys st hk.none h.delHelo) (fun _ => by simp [connReset])
    have hclose : ∀ s, Inv s → InvK s → InvK (connClose s) := fun s hs hks =>
      InvK.ofEmpty (connClose_keys s hks.none hs.delHelo) (fun hx => by simp [connClose] at hx)
    cases t with
    | greet => exact ⟨hk.keys, hk.none⟩
    | helo => simp only [one]; split <;> exact ⟨hk.keys, hk.none⟩
    | greetWrong => exact hk
    | greetNoArg => exact hk
    | noop => exact hk
    | vrfy => exact hk
    | rset => exact hreset
    | unknown =>
      simp only [protocolError]
      split
      · exact hclose _ ⟨h.w, h.rcptsDel, h.delHelo, h.fromHelo, h.closedHelo, h.bdatRcpts⟩ ⟨hk.keys, hk.none⟩
      · exact ⟨hk.keys, hk.none⟩
    | quit => exact hclose st h hk
    | drop => exact hclose st h hk
    | authGood => simp only [one]; split <;> (try split) <;> exact ⟨hk.keys, hk.none⟩
    | authBad => simp only [one]; split <;> (try split) <;> exact hk
    | bdatNoArg => exact hk
    | mail m =>
      simp only [one]
      split
      · exact hk
      · split
        · exact hk
        · split
          · exact hk
          · split
            · exact hk
            · split
              · exact hk
              · have := sessMail_keys cfg st.w m hk.none
                generalize sessMail cfg st.w m = x at *
                obtain ⟨w1, res⟩ := x
                simp only at this
                cases res with
                | some c => exact ⟨fun hx => by show w1.sess.keys = _; rw [this.1]; exact hk.keys hx, this.2⟩
                | none => exact ⟨fun hx => by show w1.sess.keys = _; rw [this.1]; exact hk.keys hx, this.2⟩
    | rcpt r =>
      simp only [one]
      split
      · exact hk
      · split
        · exact hk
        · split
          · exact hk
          · have := sessRcpt_keys cfg st.w r h.w hk.none
            generalize sessRcpt cfg st.w r = x at *
            obtain ⟨w1, res⟩ := x
            simp only at this
            cases res with
            | some c =>
              exact ⟨fun hx => by show w1.sess.keys = _; rw [this.1]; simpa using hk.keys hx, this.2⟩
            | none =>
              exact ⟨fun hx => by show w1.sess.keys = _; rw [this.1]; simp; exact hk.keys hc', this.2⟩
    | data f =>
      simp only [one]
      split
      · exact hk
      · split
        · exact hk
        · split
          · exact hk
          · rename_i hg
            have hr : st.rcpts ≠ [] := by intro he; simp [he] at hg
            split
            · exact hclose _ (connReset_inv st h).1 hreset
            · have := runData_keys cfg st f h hk.none hc' hr
              generalize runData cfg st f = x at *
              obtain ⟨st1, rep⟩ := x
              exact InvK.ofEmpty this.1 (fun _ => this.2.2)
    | bdat last f =>
      simp only [one]
      split
      · exact hk
      · rename_i hg
        have hr : st.rcpts ≠ [] := by intro he; simp [he] at hg
        split
        · split
          · exact hreset
          · split
            · have := runData_keys cfg st f h hk.none hc' hr
              generalize runData cfg st f = x at *
              obtain ⟨st1, rep⟩ := x
              exact InvK.ofEmpty this.1 (fun _ => this.2.2)
            · exact ⟨hk.keys, hk.none⟩
        · rename_i f0 hb
          split
          · have h1 : Inv { st with bdat := none } :=
              ⟨h.w, h.rcptsDel, h.delHelo, h.fromHelo, h.closedHelo, by simp⟩
            have := runData_keys cfg { st with bdat := none } f0 h1 hk.none hc' hr
            generalize runData cfg { st with bdat := none } f0 = x at *
            obtain ⟨st1, rep⟩ := x
            exact InvK.ofEmpty this.1 (fun _ => this.2.2)
          · exact hk

theorem steps_invK (cfg : Cfg) (toks : List Tok) : ∀ st, Inv st → InvK st → InvK (steps cfg st toks) := by
  induction toks with
  | nil => intro st _ hk; exact hk
  | cons t ts ih => intro st h hk; exact ih _ (step_inv cfg st t h) (step_invK cfg st t h hk)

theorem InvK.init (oracle : List (List Nat)) : InvK (start oracle) := InvK.ofEmpty rfl (fun _ => rfl)


/-! ### LMTP: per-recipient replies -/

abbrev KS := List Nat × List (Nat × Nat)

/-- no status was handed to go-smtp for address `u` -/
def NoHit (u : Nat) (ks : KS) : Prop := ∀ s ∈ ks.2, s.1 ≠ u

theorem fwd_prefix (ks : KS) (uid code : Nat) : ∃ suf, (fwd ks uid code).2 = ks.2 ++ suf := by
  unfold fwd; split
  · exact ⟨[(uid, code)], rfl⟩
  · exact ⟨[], by simp⟩

theorem fwdAll_prefix (code : Nat) : ∀ (l : List (Nat × Nat)) (ks : KS), ∃ suf, (fwdAll ks code l).2 = ks.2 ++ suf := by
  intro l
  induction l with
  | nil => intro ks; exact ⟨[], by simp [fwdAll]⟩
  | cons p rest ih =>
    intro ks
    obtain ⟨uid, id⟩ := p
    simp only [fwdAll]
    obtain ⟨s1, h1⟩ := fwd_prefix ks uid code
    obtain ⟨s2, h2⟩ := ih (fwd ks uid code)
    exact ⟨s1 ++ s2, by rw [h2, h1, List.append_assoc]⟩

theorem fwdPartial_prefix (f : DataF) (k : Nat) : ∀ (l : List (Nat × Nat)) (ks : KS),
    ∃ suf, (fwdPartial f k ks l).2 = ks.2 ++ suf := by
  intro l
  induction l with
  | nil => intro ks; exact ⟨[], by simp [fwdPartial]⟩
  | cons p rest ih =>
    intro ks
    obtain ⟨uid, id⟩ := p
    simp only [fwdPartial]
    split
    · obtain ⟨s1, h1⟩ := fwd_prefix ks uid (f.cls.code (64 + k))
      obtain ⟨s2, h2⟩ := ih (fwd ks uid (f.cls.code (64 + k)))
      exact ⟨s1 ++ s2, by rw [h2, h1, List.append_assoc]⟩
    · exact ih ks

theorem NoHit.of_prefix {u : Nat} {ks ks' : KS} (h : NoHit u ks') (hp : ∃ suf, ks'.2 = ks.2 ++ suf) : NoHit u ks := by
  obtain ⟨suf, hs⟩ := hp
  intro s hs'
  exact h s (by rw [hs]; exact List.mem_append_left _ hs')

theorem fwd_keep (ks : KS) (u uid code : Nat) (hu : u ∈ ks.1) (hne : uid ≠ u) : u ∈ (fwd ks uid code).1 := by
  unfold fwd; split
  · exact (List.mem_erase_of_ne (Ne.symm hne)).mpr hu
  · exact hu

theorem fwd_hit (ks : KS) (u code : Nat) (hu : u ∈ ks.1) : ¬ NoHit u (fwd ks u code) := by
  intro h
  unfold fwd at h
  simp only [hu, if_true] at h
  exact h (u, code) (by simp) rfl

/-- statuses set with `fwdAll` for a list that mentions `u`, while `u` still has a free key, hit `u` -/
theorem fwdAll_nohit (code u : Nat) : ∀ (l : List (Nat × Nat)) (ks : KS), u ∈ ks.1 → NoHit u (fwdAll ks code l) →
    (∀ p ∈ l, p.1 ≠ u) ∧ u ∈ (fwdAll ks code l).1 := by
  intro l
  induction l with
  | nil => intro ks hu _; exact ⟨by simp, hu⟩
  | cons p rest ih =>
    intro ks hu hn
    obtain ⟨uid, id⟩ := p
    simp only [fwdAll] at hn ⊢
    by_cases hne : uid = u
    · subst hne
      exact absurd (hn.of_prefix (fwdAll_prefix code rest _)) (fwd_hit ks uid code hu)
    · obtain ⟨a, b⟩ := ih (fwd ks uid code) (fwd_keep ks u uid code hu hne) hn
      refine ⟨?_, b⟩
      intro q hq
      simp at hq
      rcases hq with hq | hq
      · subst hq; exact hne
      · exact a q hq

theorem fwdPartial_nohit (f : DataF) (k u : Nat) : ∀ (l : List (Nat × Nat)) (ks : KS), u ∈ ks.1 →
    NoHit u (fwdPartial f k ks l) →
    (∀ p ∈ l, p.1 = u → refusedBy f k p.2 = false) ∧ u ∈ (fwdPartial f k ks l).1 := by
  intro l
  induction l with
  | nil => intro ks hu _; exact ⟨by simp, hu⟩
  | cons p rest ih =>
    intro ks hu hn
    obtain ⟨uid, id⟩ := p
    simp only [fwdPartial] at hn ⊢
    by_cases hr : refusedBy f k id = true
    · simp only [hr, if_true] at hn ⊢
      by_cases hne : uid = u
      · subst hne
        exact absurd (hn.of_prefix (fwdPartial_prefix f k rest _)) (fwd_hit ks uid _ hu)
      · obtain ⟨a, b⟩ := ih _ (fwd_keep ks u uid _ hu hne) hn
        exact ⟨by intro q hq hqu; simp at hq; rcases hq with hq | hq
                  · subst hq; exact absurd hqu hne
                  · exact a q hq hqu, b⟩
    · have hr' : refusedBy f k id = false := by simpa using hr
      simp only [hr', Bool.false_eq_true, if_false] at hn ⊢
      obtain ⟨a, b⟩ := ih ks hu hn
      exact ⟨by intro q hq hqu; simp at hq; rcases hq with hq | hq
                · subst hq; exact hr'
                · exact a q hq hqu, b⟩

theorem setStatusAll_prefix (code : Nat) : ∀ (l : List DEntry) (ks : KS), ∃ suf, (setStatusAll code l ks).2 = ks.2 ++ suf := by
  intro l
  induction l with
  | nil => intro ks; exact ⟨[], by simp [setStatusAll]⟩
  | cons e es ih =>
    intro ks
    simp only [setStatusAll]
    obtain ⟨s1, h1⟩ := fwdAll_prefix code e.rcpts ks
    obtain ⟨s2, h2⟩ := ih (fwdAll ks code e.rcpts)
    exact ⟨s1 ++ s2, by rw [h2, h1, List.append_assoc]⟩

theorem setStatusAll_nohit (code u : Nat) : ∀ (l : List DEntry) (ks : KS), u ∈ ks.1 → NoHit u (setStatusAll code l ks) →
    ∀ e ∈ l, ∀ p ∈ e.rcpts, p.1 ≠ u := by
  intro l
  induction l with
  | nil => intro ks _ _; simp
  | cons e es ih =>
    intro ks hu hn
    simp only [setStatusAll] at hn
    obtain ⟨a, b⟩ := fwdAll_nohit code u e.rcpts ks hu (hn.of_prefix (setStatusAll_prefix code es _))
    intro x hx
    simp at hx
    rcases hx with hx | hx
    · subst hx; exact a
    · exact ih _ b hn x hx

theorem bodyNAAll_prefix (cfg : Cfg) (f : DataF) : ∀ (l : List DEntry) (log : Log) (ks : KS) (failed : List Nat),
    ∃ suf, (bodyNAAll cfg f l log ks failed).2.1.2 = ks.2 ++ suf := by
  intro l
  induction l with
  | nil => intro log ks failed; exact ⟨[], by simp [bodyNAAll]⟩
  | cons e es ih =>
    intro log ks failed
    simp only [bodyNAAll]
    split
    · obtain ⟨s1, h1⟩ := fwdPartial_prefix f e.tgt e.rcpts ks
      obtain ⟨s2, h2⟩ := ih (addEv log e.idx (.bodyNA (e.rcpts.map (fun p => (p.1, p.2, !refusedBy f e.tgt p.2)))))
        (fwdPartial f e.tgt ks e.rcpts) failed
      exact ⟨s1 ++ s2, by rw [h2, h1, List.append_assoc]⟩
    · split
      · obtain ⟨s1, h1⟩ := fwdAll_prefix (f.cls.code (60 + e.tgt)) e.rcpts ks
        obtain ⟨s2, h2⟩ := ih (addEv log e.idx (.body false)) (fwdAll ks (f.cls.code (60 + e.tgt)) e.rcpts) (e.idx :: failed)
        exact ⟨s1 ++ s2, by rw [h2, h1, List.append_assoc]⟩
      · exact ih _ _ _

/-- the call a delivery sees in `BodyNonAtomic` -/
def bodyEv (cfg : Cfg) (f : DataF) (e : DEntry) : Ev :=
  if isPartial cfg e.tgt then .bodyNA (e.rcpts.map (fun p => (p.1, p.2, !refusedBy f e.tgt p.2)))
  else .body (!f.bMask.testBit e.tgt)

theorem bodyNAAll_ok (cfg : Cfg) (f : DataF) (u : Nat) : ∀ (l : List DEntry) (log : Log) (ks : KS) (failed : List Nat),
    (eidx l).Nodup → (∀ e ∈ l, e.idx < log.length) → u ∈ ks.1 →
    NoHit u (bodyNAAll cfg f l log ks failed).2.1 →
    (∀ e ∈ l, evsAt (bodyNAAll cfg f l log ks failed).1 e.idx = evsAt log e.idx ++ [bodyEv cfg f e]) ∧
    (∀ j, j ∉ eidx l → evsAt (bodyNAAll cfg f l log ks failed).1 j = evsAt log j) ∧
    (∀ e ∈ l, (∃ p ∈ e.rcpts, p.1 = u) →
      e.idx ∉ (bodyNAAll cfg f l log ks failed).2.2 ∨ e.idx ∈ failed) ∧
    (∀ e ∈ l, ∀ p ∈ e.rcpts, p.1 = u →
      (isPartial cfg e.tgt = true → refusedBy f e.tgt p.2 = false) ∧
      (isPartial cfg e.tgt = false → f.bMask.testBit e.tgt = false)) ∧
    (∀ j, j ∈ (bodyNAAll cfg f l log ks failed).2.2 → j ∈ failed ∨ j ∈ eidx l) := by
  intro l
  induction l with
  | nil => intro log ks failed _ _ _ _; simp [bodyNAAll, eidx]
  | cons e es ih =>
    intro log ks failed hnd hlt hu hn
    simp only [eidx, List.map_cons, List.nodup_cons] at hnd
    have hlt' : ∀ (ev : Ev), ∀ x ∈ es, x.idx < (addEv log e.idx ev).length := by
      intro ev x hx; rw [addEv_length]; exact hlt x (by simp [hx])
    have hne : ∀ x ∈ es, e.idx ≠ x.idx := by
      intro x hx heq; apply hnd.1; rw [heq]; exact List.mem_map_of_mem hx
    simp only [bodyNAAll] at hn ⊢
    -- common shape of the three branches
    have fin : ∀ (ev : Ev) (ks' : KS) (failed' : List Nat), ev = bodyEv cfg f e → u ∈ ks'.1 →
        NoHit u (bodyNAAll cfg f es (addEv log e.idx ev) ks' failed').2.1 →
        (∀ p ∈ e.rcpts, p.1 = u →
          (isPartial cfg e.tgt = true → refusedBy f e.tgt p.2 = false) ∧
          (isPartial cfg e.tgt = false → f.bMask.testBit e.tgt = false)) →
        (∀ j, j ∈ failed' → j ∈ failed ∨ j = e.idx) →
        ((∃ p ∈ e.rcpts, p.1 = u) → e.idx ∉ failed' ∨ e.idx ∈ failed) →
        (∀ j, j ∈ failed → j ∈ failed') →
        (∀ x ∈ e :: es, evsAt (bodyNAAll cfg f es (addEv log e.idx ev) ks' failed').1 x.idx = evsAt log x.idx ++ [bodyEv cfg f x]) ∧
        (∀ j, j ∉ eidx (e :: es) → evsAt (bodyNAAll cfg f es (addEv log e.idx ev) ks' failed').1 j = evsAt log j) ∧
        (∀ x ∈ e :: es, (∃ p ∈ x.rcpts, p.1 = u) →
          x.idx ∉ (bodyNAAll cfg f es (addEv log e.idx ev) ks' failed').2.2 ∨ x.idx ∈ failed) ∧
        (∀ x ∈ e :: es, ∀ p ∈ x.rcpts, p.1 = u →
          (isPartial cfg x.tgt = true → refusedBy f x.tgt p.2 = false) ∧
          (isPartial cfg x.tgt = false → f.bMask.testBit x.tgt = false)) ∧
        (∀ j, j ∈ (bodyNAAll cfg f es (addEv log e.idx ev) ks' failed').2.2 → j ∈ failed ∨ j ∈ eidx (e :: es)) := by
      intro ev ks' failed' hev hu' hn' hself hfsub hfe hfmono
      obtain ⟨a, b, c, d, g⟩ := ih (addEv log e.idx ev) ks' failed' hnd.2 (hlt' ev) hu' hn'
      refine ⟨?_, ?_, ?_, ?_, ?_⟩
      · intro x hx
        simp at hx
        rcases hx with hx | hx
        · subst hx
          rw [b _ hnd.1, evsAt_addEv_eq _ _ _ (hlt x (by simp)), hev]
        · rw [a x hx, evsAt_addEv_ne _ _ _ _ (hne x hx)]
      · intro j hj
        simp [eidx] at hj
        have hj2 : j ∉ eidx es := by simp [eidx]; intro x hx; exact hj.2 x hx
        rw [b j hj2, evsAt_addEv_ne _ _ _ _ (Ne.symm hj.1)]
      · intro x hx hex
        simp at hx
        rcases hx with hx | hx
        · subst hx
          -- e.idx is not among the later entries, so it is in the final list only if it is in failed'
          by_cases hin : x.idx ∈ (bodyNAAll cfg f es (addEv log x.idx ev) ks' failed').2.2
          · rcases g _ hin with h1 | h1
            · rcases hfe hex with h2 | h2
              · exact absurd h1 h2
              · exact Or.inr h2
            · exact absurd h1 hnd.1
          · exact Or.inl hin
        · rcases c x hx hex with h1 | h1
          · exact Or.inl h1
          · rcases hfsub _ h1 with h2 | h2
            · exact Or.inr h2
            · exact absurd h2.symm (hne x hx)
      · intro x hx
        simp at hx
        rcases hx with hx | hx
        · subst hx; exact hself
        · exact d x hx
      · intro j hj
        rcases g j hj with h1 | h1
        · rcases hfsub j h1 with h2 | h2
          · exact Or.inl h2
          · exact Or.inr (by simp [eidx, h2])
        · exact Or.inr (by simp [eidx] at h1 ⊢; exact Or.inr h1)
    split
    · rename_i hp
      simp only [hp, if_true] at hn
      have hpre := bodyNAAll_prefix cfg f es (addEv log e.idx (.bodyNA (e.rcpts.map (fun p => (p.1, p.2, !refusedBy f e.tgt p.2)))))
        (fwdPartial f e.tgt ks e.rcpts) failed
      obtain ⟨a, b⟩ := fwdPartial_nohit f e.tgt u e.rcpts ks hu (hn.of_prefix hpre)
      exact fin _ _ _ (by simp [bodyEv, hp]) b hn
        (fun p hp' hpu => ⟨fun _ => a p hp' hpu, fun h => by simp [hp] at h⟩)
        (fun j hj => Or.inl hj) (fun _ => by
          by_cases hin : e.idx ∈ failed
          · exact Or.inr hin
          · exact Or.inl hin) (fun j hj => hj)
    · rename_i hp
      have hp' : isPartial cfg e.tgt = false := by simpa using hp
      split
      · rename_i hb
        simp only [hp', hb, Bool.false_eq_true, if_false, if_true] at hn
        have hpre := bodyNAAll_prefix cfg f es (addEv log e.idx (.body false))
          (fwdAll ks (f.cls.code (60 + e.tgt)) e.rcpts) (e.idx :: failed)
        obtain ⟨a, b⟩ := fwdAll_nohit (f.cls.code (60 + e.tgt)) u e.rcpts ks hu (hn.of_prefix hpre)
        exact fin _ _ _ (by simp [bodyEv, hp', hb]) b hn
          (fun p hpm hpu => absurd hpu (a p hpm))
          (fun j hj => by
            simp at hj
            rcases hj with hj | hj
            · exact Or.inr hj
            · exact Or.inl hj)
          (fun ⟨p, hpm, hpu⟩ => absurd hpu (a p hpm)) (fun j hj => by simp [hj])
      · rename_i hb
        have hb' : f.bMask.testBit e.tgt = false := by simpa using hb
        simp only [hp', hb', Bool.false_eq_true, if_false] at hn
        exact fin _ _ _ (by simp [bodyEv, hp', hb']) hu hn
          (fun p hpm hpu => ⟨fun h => by simp [hp'] at h, fun _ => hb'⟩)
          (fun j hj => Or.inl hj) (fun _ => by
            by_cases hin : e.idx ∈ failed
            · exact Or.inr hin
            · exact Or.inl hin) (fun j hj => hj)


/-- go-smtp's reply for the only RCPT TO with address `u`: below 400 only if no status was set for `u`,
and then it is the result of LMTPData -/
theorem lmtpReplies_fill (fill : Nat) : ∀ (uids : List Nat) (sts : List (Nat × Nat)) (n u c : Nat),
    uids[n]? = some u → uids.count u = 1 → (lmtpReplies uids sts fill)[n]? = some c →
    (∀ s ∈ sts, s.2 ≥ 400) → c < 400 → (∀ s ∈ sts, s.1 ≠ u) ∧ c = fill := by
  intro uids
  induction uids with
  | nil => intro sts n u c h; simp at h
  | cons u0 rest ih =>
    intro sts n u c hn hcnt hc hge hlt
    cases n with
    | zero =>
      simp at hn; subst hn
      simp only [lmtpReplies] at hc
      cases hf : sts.find? (fun s => s.1 == u0) with
      | some s =>
        simp [hf] at hc
        have := hge s (List.mem_of_find?_eq_some hf)
        omega
      | none =>
        simp [hf] at hc
        refine ⟨?_, hc.symm⟩
        intro s hs heq
        have := List.find?_eq_none.mp hf s hs
        simp [heq] at this
    | succ k =>
      simp at hn
      have hne : u0 ≠ u := by
        intro heq; subst heq
        have : List.count u0 rest = 0 := by simpa [List.count_cons] using hcnt
        have hm : u0 ∈ rest := List.mem_of_getElem? hn
        exact absurd (List.count_pos_iff.mpr hm) (by omega)
      have hcnt' : rest.count u = 1 := by
        rw [List.count_cons] at hcnt; simp [hne] at hcnt; exact hcnt
      simp only [lmtpReplies] at hc
      cases hf : sts.find? (fun s => s.1 == u0) with
      | some s =>
        simp [hf] at hc
        have hs1 : s.1 = u0 := by have := List.find?_some hf; simpa using this
        obtain ⟨a, b⟩ := ih (sts.erase s) k u c hn hcnt' hc
          (fun x hx => hge x (List.mem_of_mem_erase hx)) hlt
        refine ⟨?_, b⟩
        intro x hx
        by_cases hxs : x = s
        · subst hxs; rw [hs1]; exact hne
        · exact a x ((List.mem_erase_of_ne hxs).mpr hx)
      | none =>
        simp [hf] at hc
        exact ih sts k u c hn hcnt' hc hge hlt

theorem fwd_ge (ks : KS) (uid code : Nat) (hc : code ≥ 400) (h : ∀ s ∈ ks.2, s.2 ≥ 400) :
    ∀ s ∈ (fwd ks uid code).2, s.2 ≥ 400 := by
  unfold fwd; split
  · intro s hs; simp at hs; rcases hs with hs | hs
    · exact h s hs
    · subst hs; exact hc
  · exact h

theorem fwdAll_ge (code : Nat) (hc : code ≥ 400) : ∀ (l : List (Nat × Nat)) (ks : KS), (∀ s ∈ ks.2, s.2 ≥ 400) →
    ∀ s ∈ (fwdAll ks code l).2, s.2 ≥ 400 := by
  intro l
  induction l with
  | nil => intro ks h; exact h
  | cons p rest ih => intro ks h; obtain ⟨uid, id⟩ := p; exact ih _ (fwd_ge ks uid code hc h)

theorem fwdPartial_ge (f : DataF) (k : Nat) : ∀ (l : List (Nat × Nat)) (ks : KS), (∀ s ∈ ks.2, s.2 ≥ 400) →
    ∀ s ∈ (fwdPartial f k ks l).2, s.2 ≥ 400 := by
  intro l
  induction l with
  | nil => intro ks h; exact h
  | cons p rest ih =>
    intro ks h; obtain ⟨uid, id⟩ := p
    simp only [fwdPartial]
    split
    · exact ih _ (fwd_ge ks uid _ (code_ge _ _) h)
    · exact ih _ h

theorem setStatusAll_ge (code : Nat) (hc : code ≥ 400) : ∀ (l : List DEntry) (ks : KS), (∀ s ∈ ks.2, s.2 ≥ 400) →
    ∀ s ∈ (setStatusAll code l ks).2, s.2 ≥ 400 := by
  intro l
  induction l with
  | nil => intro ks h; exact h
  | cons e es ih => intro ks h; exact ih _ (fwdAll_ge code hc e.rcpts ks h)

theorem bodyNAAll_ge (cfg : Cfg) (f : DataF) : ∀ (l : List DEntry) (log : Log) (ks : KS) (failed : List Nat),
    (∀ s ∈ ks.2, s.2 ≥ 400) → ∀ s ∈ (bodyNAAll cfg f l log ks failed).2.1.2, s.2 ≥ 400 := by
  intro l
  induction l with
  | nil => intro log ks failed h; exact h
  | cons e es ih =>
    intro log ks failed h
    simp only [bodyNAAll]
    split
    · exact ih _ _ _ (fwdPartial_ge f e.tgt e.rcpts ks h)
    · split
      · exact ih _ _ _ (fwdAll_ge _ (code_ge _ _) e.rcpts ks h)
      · exact ih _ _ _ h

/-- `Commit` loop that ends without error: every delivery that is not marked `bodyFailed` got `Commit ok` -/
theorem commitAll_ok_marked (m : MailF) : ∀ (l : List DEntry) (log : Log),
    (eidx l).Nodup → (∀ e ∈ l, e.idx < log.length) → (commitAll m l none log).2 = none →
    (∀ e ∈ l, e.failed = false → evsAt (commitAll m l none log).1 e.idx = evsAt log e.idx ++ [.commit true]) := by
  intro l
  induction l with
  | nil => intro log _ _ _; simp
  | cons e es ih =>
    intro log hnd hlt hres
    simp only [eidx, List.map_cons, List.nodup_cons] at hnd
    have hlt' : ∀ (ev : Ev), ∀ x ∈ es, x.idx < (addEv log e.idx ev).length := by
      intro ev x hx; rw [addEv_length]; exact hlt x (by simp [hx])
    have hne : ∀ x ∈ es, e.idx ≠ x.idx := by
      intro x hx heq; apply hnd.1; rw [heq]; exact List.mem_map_of_mem hx
    -- later iterations do not touch e.idx
    have untouched : ∀ (l2 : List DEntry) (err : Option Nat) (lg : Log), (∀ x ∈ l2, e.idx ≠ x.idx) →
        evsAt (commitAll m l2 err lg).1 e.idx = evsAt lg e.idx := by
      intro l2
      induction l2 with
      | nil => intro err lg _; rfl
      | cons y ys ih2 =>
        intro err lg hy
        simp only [commitAll]
        have hy0 : y.idx ≠ e.idx := fun h => hy y (by simp) h.symm
        split
        · rw [ih2 _ _ (fun x hx => hy x (by simp [hx])), evsAt_addEv_ne _ _ _ _ hy0]
        · split
          · rw [ih2 _ _ (fun x hx => hy x (by simp [hx])), evsAt_addEv_ne _ _ _ _ hy0]
          · rw [ih2 _ _ (fun x hx => hy x (by simp [hx])), evsAt_addEv_ne _ _ _ _ hy0]
    simp only [commitAll, Option.isSome_none, Bool.false_or] at hres ⊢
    split
    · rename_i hf
      simp only [hf, if_true] at hres
      intro x hx hxf
      simp at hx
      rcases hx with hx | hx
      · subst hx; simp [hxf] at hf
      · rw [ih _ hnd.2 (hlt' _) hres x hx hxf, evsAt_addEv_ne _ _ _ _ (hne x hx)]
    · rename_i hf
      simp only [hf, Bool.false_eq_true, if_false] at hres
      split
      · rename_i hcm
        simp only [hcm, if_true] at hres
        rw [commitAll_err] at hres; simp at hres
      · rename_i hcm
        simp only [hcm, Bool.false_eq_true, if_false] at hres
        intro x hx hxf
        simp at hx
        rcases hx with hx | hx
        · subst hx
          rw [untouched es none _ hne, evsAt_addEv_eq _ _ _ (hlt x (by simp))]
        · rw [ih _ hnd.2 (hlt' _) hres x hx hxf, evsAt_addEv_ne _ _ _ _ (hne x hx)]


/-- what the success of LMTP recipient `(u, id)` means for a delivery that holds it -/
def HeldBy (u id : Nat) (before after : List Ev) : Prop :=
  ∃ b, after = before ++ [b, .commit true] ∧ (b = .body true ∨ ∃ stl, b = .bodyNA stl ∧ (u, id, true) ∈ stl)

theorem mem_markFailed {failed : List Nat} {ents : List DEntry} {e : DEntry} (he : e ∈ ents) :
    (if failed.contains e.idx then { e with failed := true } else e) ∈ markFailed failed ents := by
  unfold markFailed
  exact List.mem_map_of_mem (f := fun e => if failed.contains e.idx then { e with failed := true } else e) he

theorem sessLMTPData_rcpt_ok (cfg : Cfg) (w : World) (f : DataF) (pd : PDel) (u : Nat) (h : WInv w)
    (hd : w.sess.delivery = some pd) (hnf : ∀ e ∈ pd.ents, e.failed = false) (hu : u ∈ w.sess.keys)
    (herr : (sessLMTPData cfg w f).2.err = none) (hno : ∀ s ∈ (sessLMTPData cfg w f).2.sts, s.1 ≠ u) :
    (∀ e ∈ pd.ents, ∀ id, (u, id) ∈ e.rcpts → HeldBy u id (evsAt w.log e.idx) (evsAt (sessLMTPData cfg w f).1.log e.idx)) ∧
    (sessLMTPData cfg w f).1.sess.delivery = none := by
  have he : EntInv w.log pd.ents := by simpa [curEnts, hd] using h.ent
  have hS := h.heldS; have hN := h.heldN
  simp [hd] at hS hN
  unfold sessLMTPData at herr hno ⊢
  simp only [hd] at herr hno ⊢
  split at herr
  · simp at herr
  · split at herr
    · simp at herr
    · split at herr
      · simp at herr
      · rename_i k1 k2 k3
        simp only [k1, k2, k3, if_false] at hno ⊢
        -- BodyNonAtomic
        obtain ⟨b1, b2, b3, b4, b5⟩ := pBodyNA_spec cfg f pd w.sess.keys w he
        have hbody : ∀ e ∈ pd.ents, ∀ id, (u, id) ∈ e.rcpts →
            (∀ s ∈ (pBodyNA cfg f pd w.sess.keys w).2.2, s.1 ≠ u) →
            evsAt (pBodyNA cfg f pd w.sess.keys w).1.log e.idx = evsAt w.log e.idx ++ [bodyEv cfg f e] ∧
            (bodyEv cfg f e = .body true ∨ ∃ stl, bodyEv cfg f e = .bodyNA stl ∧ (u, id, true) ∈ stl) ∧
            ∃ e' ∈ (pBodyNA cfg f pd w.sess.keys w).2.1.ents, e'.idx = e.idx ∧ e'.failed = false := by
          intro e hem id hin hno'
          unfold pBodyNA at hno' ⊢
          split at hno'
          · -- a body-stage check or modifier failed: every recipient of every delivery got the status
            exfalso
            have := setStatusAll_nohit _ u pd.ents (w.sess.keys, []) hu hno' e hem (u, id) hin
            exact this rfl
          · rename_i hg
            simp only [hg, Bool.false_eq_true, if_false]
            have hperm := nextOrder_perm w pd.ents
            obtain ⟨hl1, _⟩ := nextOrder_w w pd.ents
            generalize nextOrder w pd.ents = r at *
            obtain ⟨w1, ord⟩ := r
            simp only at hl1 hperm hno' ⊢
            have hnd : (eidx ord).Nodup := ((hperm.map _).nodup_iff).mpr he.nodup
            have hlt : ∀ x ∈ ord, x.idx < w1.log.length := by
              intro x hx; rw [hl1]; exact he.lt x.idx (List.mem_map_of_mem (hperm.mem_iff.mp hx))
            have hok := bodyNAAll_ok cfg f u ord w1.log (w.sess.keys, []) [] hnd hlt hu
            generalize bodyNAAll cfg f ord w1.log (w.sess.keys, []) [] = r2 at *
            obtain ⟨log2, ks2, failed2⟩ := r2
            simp only at hok hno' ⊢
            obtain ⟨o1, o2, o3, o4, o5⟩ := hok hno'
            have hemo : e ∈ ord := hperm.mem_iff.mpr hem
            refine ⟨by rw [o1 e hemo, hl1], ?_, ?_⟩
            · have := o4 e hemo (u, id) hin rfl
              unfold bodyEv
              by_cases hp : isPartial cfg e.tgt = true
              · simp only [hp, if_true]
                refine Or.inr ⟨_, rfl, ?_⟩
                have hr := this.1 hp
                simp only at hr
                exact List.mem_map.mpr ⟨(u, id), hin, by simp [hr]⟩
              · have hp' : isPartial cfg e.tgt = false := by simpa using hp
                simp only [hp', Bool.false_eq_true, if_false]
                exact Or.inl (by rw [this.2 hp']; rfl)
            · have hnotin : e.idx ∉ failed2 := by
                rcases o3 e hemo ⟨(u, id), hin, rfl⟩ with h1 | h1
                · exact h1
                · simp at h1
              refine ⟨_, mem_markFailed (failed := failed2) hem, ?_, ?_⟩
              · split <;> rfl
              · have : failed2.contains e.idx = false := by simpa using hnotin
                simp only [this, Bool.false_eq_true, if_false]
                exact hnf e hem
        generalize pBodyNA cfg f pd w.sess.keys w = r at *
        obtain ⟨w1, pd1, sts⟩ := r
        simp only at herr hno hbody b1 b2 b3 b4 b5 ⊢
        -- Commit
        have hcc := commit_clean_inv w1 pd1 (by rw [b3, b2]; exact hS) (by rw [b4, b2]; exact hN)
          (by rw [b5]; exact h.noPanic) b1
        have hcm : (pCommit pd1 w1).2 = none →
            ∀ e' ∈ pd1.ents, e'.failed = false → evsAt (pCommit pd1 w1).1.log e'.idx = evsAt w1.log e'.idx ++ [.commit true] := by
          intro hres
          unfold pCommit at hres ⊢
          have hperm := nextOrder_perm w1 pd1.ents
          obtain ⟨hl1, _⟩ := nextOrder_w w1 pd1.ents
          generalize nextOrder w1 pd1.ents = r at *
          obtain ⟨w2, ord⟩ := r
          simp only at *
          have hnd : (eidx ord).Nodup := ((hperm.map _).nodup_iff).mpr b1.nodup
          have hlt : ∀ x ∈ ord, x.idx < w2.log.length := by
            intro x hx; rw [hl1]; exact b1.lt x.idx (List.mem_map_of_mem (hperm.mem_iff.mp hx))
          have := commitAll_ok_marked pd1.mail ord w2.log hnd hlt
          generalize commitAll pd1.mail ord none w2.log = r2 at *
          obtain ⟨l2, e2⟩ := r2
          simp only at *
          intro e' hem' hf'
          rw [this hres e' (hperm.mem_iff.mpr hem') hf', hl1]
        generalize pCommit pd1 w1 = r2 at *
        obtain ⟨w2, err⟩ := r2
        simp only at herr hcc hcm ⊢
        subst herr
        refine ⟨?_, hcc.2⟩
        intro e hem id hin
        obtain ⟨hb1, hb2, e', hem', hidx, hfl⟩ := hbody e hem id hin hno
        refine ⟨bodyEv cfg f e, ?_, hb2⟩
        rw [cleanSession_log]
        have := hcm rfl e' hem' hfl
        rw [hidx] at this
        rw [this, hb1]; simp


theorem pBodyNA_ge (cfg : Cfg) (f : DataF) (pd : PDel) (keys : List Nat) (w : World) :
    ∀ s ∈ (pBodyNA cfg f pd keys w).2.2, s.2 ≥ 400 := by
  unfold pBodyNA
  split
  · exact setStatusAll_ge _ (by split <;> exact code_ge _ _) pd.ents (keys, []) (by simp)
  · generalize nextOrder w pd.ents = r
    obtain ⟨w1, ord⟩ := r
    simp only
    have := bodyNAAll_ge cfg f ord w1.log (keys, []) [] (by simp)
    generalize bodyNAAll cfg f ord w1.log (keys, []) [] = r2 at *
    obtain ⟨l2, ks2, f2⟩ := r2
    exact this

theorem sessLMTPData_ge (cfg : Cfg) (w : World) (f : DataF) :
    (∀ c, (sessLMTPData cfg w f).2.err = some c → c ≥ 400) ∧ (∀ s ∈ (sessLMTPData cfg w f).2.sts, s.2 ≥ 400) := by
  unfold sessLMTPData
  split
  · exact ⟨by intro c h; simp at h; omega, by simp⟩
  · rename_i pd _
    split
    · exact ⟨by intro c h; simp at h; omega, by simp⟩
    · split
      · exact ⟨by intro c h; simp at h; omega, by simp⟩
      · split
        · exact ⟨by intro c h; simp at h; omega, by simp⟩
        · have hg := pBodyNA_ge cfg f pd w.sess.keys w
          generalize pBodyNA cfg f pd w.sess.keys w = r at *
          obtain ⟨w1, pd1, sts⟩ := r
          simp only at hg ⊢
          have hc := pCommit_err_ge pd1 w1
          generalize pCommit pd1 w1 = r2 at *
          obtain ⟨w2, err⟩ := r2
          exact ⟨fun c h => hc c h, hg⟩

/-- go-smtp answered the recipient at position `n` of an LMTP transaction with 250 -/
theorem runData_lmtp_success (cfg : Cfg) (st : St) (f : DataF) (hl : cfg.lmtp = true) (h : Inv st) (h2 : Inv2 cfg st)
    (hk : InvK st) (hc : st.closed = false) (hr : st.rcpts ≠ []) (n : Nat) (r : RcptF)
    (hn : st.rcpts[n]? = some r) (hcnt : (st.rcpts.map (·.uid)).count r.uid = 1)
    (hrep : (runData cfg st f).2[n]? = some 250) :
    ∀ k ∈ targetsOf cfg (cfg.routes r.dom), ∃ e ∈ curEnts st.w,
      e.tgt = k ∧ (r.uid, r.id) ∈ e.rcpts ∧ Ev.rcpt r.uid r.id true ∈ evsAt st.w.log e.idx ∧
      HeldBy r.uid r.id (evsAt st.w.log e.idx) (evsAt (runData cfg st f).1.w.log e.idx) := by
  have hd := h.rcptsDel hc hr
  cases hdd : st.w.sess.delivery with
  | none => simp [hdd] at hd
  | some pd =>
    have hce : curEnts st.w = pd.ents := by simp [curEnts, hdd]
    have hkeys := hk.keys hc
    have hrm : r ∈ st.rcpts := List.mem_of_getElem? hn
    have hu : r.uid ∈ st.w.sess.keys := by rw [hkeys]; exact List.mem_map_of_mem hrm
    have hok := sessLMTPData_rcpt_ok cfg st.w f pd r.uid h.w hdd (by rw [← hce]; exact h2.ok.notFailed) hu
    have hpan := (sessLMTPData_inv cfg st.w f h.w hd).2
    obtain ⟨hge1, hge2⟩ := sessLMTPData_ge cfg st.w f
    unfold runData at hrep ⊢
    simp only [hl, if_true] at hrep ⊢
    generalize sessLMTPData cfg st.w f = x at *
    obtain ⟨w1, res⟩ := x
    simp only at hok hpan hge1 hge2 hrep ⊢
    simp only [hpan, Bool.false_eq_true, if_false] at hrep ⊢
    have hn' : (st.rcpts.map (·.uid))[n]? = some r.uid := by simp [hn]
    obtain ⟨hno, hfill⟩ := lmtpReplies_fill (okCode res.err) _ res.sts n r.uid 250 hn' hcnt hrep hge2 (by omega)
    have herr : res.err = none := okCode_250 _ hge1 hfill.symm
    obtain ⟨hev, hdn⟩ := hok herr hno
    intro k hk'
    obtain ⟨e, he, ht, hp⟩ := h2.cover hc r hrm k hk'
    refine ⟨e, he, ht, hp, h2.ok.logged e he _ hp, ?_⟩
    rw [connReset_log_of_none _ hdn]
    exact hev e (by rw [← hce]; exact he) r.id hp

/-- the reply for the recipient at position `n` among the final replies of a DATA command / `BDAT … LAST` chunk -/
def finalReplyAt (t : Tok) (o : Out) (n : Nat) : Option Nat :=
  match t, o with
  | .data _, .codes (354 :: rs) => rs[n]?
  | .bdat true _, .codes rs => rs[n]?
  | _, _ => none

/-- **Success reply ⇒ committed on every target of that recipient (LMTP).**  In any state a session can
reach, if the per-recipient reply for the `n`-th accepted recipient at the end of DATA / `BDAT … LAST` is
`250`, and its address was accepted once in this transaction, then every target its destination block routes
to had accepted the recipient, saw a body stage that succeeded for it (`Body` ok, or `BodyNonAtomic` with an
ok status for this very recipient) and then `Commit` ok — as the last three calls of that delivery.
(`C03_lmtp_success_stmt` below is the same statement without the "accepted once" hypothesis.) -/
theorem C03_lmtp_success_reply_implies_committed_partial (cfg : Cfg) (oracle : List (List Nat)) (toks : List Tok)
    (t : Tok) (hl : cfg.lmtp = true) (n : Nat) (r : RcptF) :
    let st := steps cfg (start oracle) toks
    st.rcpts[n]? = some r → (st.rcpts.map (·.uid)).count r.uid = 1 →
    finalReplyAt t (step cfg st t).2 n = some 250 →
    ∀ k ∈ targetsOf cfg (cfg.routes r.dom), ∃ e ∈ curEnts st.w,
      e.tgt = k ∧ (r.uid, r.id) ∈ e.rcpts ∧ Ev.rcpt r.uid r.id true ∈ evsAt st.w.log e.idx ∧
      HeldBy r.uid r.id (evsAt st.w.log e.idx) (evsAt (step cfg st t).1.w.log e.idx) := by
  intro st hn hcnt hrep
  obtain ⟨h, h2⟩ := steps_inv2 cfg toks (start oracle) (Inv.init oracle) (Inv2.init cfg oracle)
  have hk : InvK st := steps_invK cfg toks (start oracle) (Inv.init oracle) (InvK.init oracle)
  change Inv st at h; change Inv2 cfg st at h2
  by_cases hc : st.closed = true
  · cases t with
    | data f => simp [finalReplyAt, step, hc] at hrep
    | bdat last f => cases last <;> simp [finalReplyAt, step, hc] at hrep
    | _ => simp [finalReplyAt] at hrep
  have hc' : st.closed = false := by simpa using hc
  have hr : st.rcpts ≠ [] := by intro he; rw [he] at hn; simp at hn
  cases t with
  | data f =>
    unfold step at hrep ⊢
    rw [if_neg hc] at hrep ⊢
    simp only [one] at hrep ⊢
    split at hrep
    · simp [finalReplyAt] at hrep
    · split at hrep
      · simp [finalReplyAt] at hrep
      · split at hrep
        · simp [finalReplyAt] at hrep
        · rename_i k1 k2 hg
          split at hrep
          · simp [finalReplyAt] at hrep
          · rename_i k4
            simp only [k1, k2, hg, k4, if_false]
            have := runData_lmtp_success cfg st f hl h h2 hk hc' hr n r hn hcnt
            generalize runData cfg st f = x at *
            obtain ⟨st1, rep⟩ := x
            simp only [finalReplyAt] at hrep this ⊢
            exact this hrep
  | bdat last f =>
    cases last with
    | false => simp [finalReplyAt] at hrep
    | true =>
      unfold step at hrep ⊢
      rw [if_neg hc] at hrep ⊢
      simp only [one] at hrep ⊢
      split at hrep
      · simp [finalReplyAt] at hrep
      · rename_i hg
        simp only [hg, if_false]
        split at hrep
        · rename_i hb
          try simp only [hb]
          split at hrep
          · rename_i k5
            simp only [finalReplyAt] at hrep
            cases n with
            | zero => simp at hrep
            | succ m => simp at hrep
          · rename_i k4
            simp only [k4, if_false, if_true]
            simp only [if_true] at hrep
            have := runData_lmtp_success cfg st f hl h h2 hk hc' hr n r hn hcnt
            generalize runData cfg st f = x at *
            obtain ⟨st1, rep⟩ := x
            simp only [finalReplyAt] at hrep this ⊢
            exact this hrep
        · rename_i f0 hb
          simp only [hb, if_true]
          simp only [if_true] at hrep
          have h1 : Inv { st with bdat := none } :=
            ⟨h.w, h.rcptsDel, h.delHelo, h.fromHelo, h.closedHelo, by simp⟩
          have h21 : Inv2 cfg { st with bdat := none } := ⟨h2.cover, h2.ok⟩
          have hk1 : InvK { st with bdat := none } := ⟨hk.keys, hk.none⟩
          have := runData_lmtp_success cfg { st with bdat := none } f0 hl h1 h21 hk1 hc' hr n r hn hcnt
          generalize runData cfg { st with bdat := none } f0 = x at *
          obtain ⟨st1, rep⟩ := x
          simp only [finalReplyAt] at hrep this ⊢
          exact this hrep
  | _ => simp [finalReplyAt] at hrep

/-- the full-strength statement for LMTP: no hypothesis on how often the address was accepted (tokens with the
same `uid` stand for the same address, hence carry the same fields) -/
def C03_lmtp_success_stmt : Prop :=
  ∀ (cfg : Cfg) (oracle : List (List Nat)) (toks : List Tok) (t : Tok) (n : Nat) (r : RcptF),
    cfg.lmtp = true →
    (∀ r1 r2, Tok.rcpt r1 ∈ toks → Tok.rcpt r2 ∈ toks → r1.uid = r2.uid → r1 = r2) →
    let st := steps cfg (start oracle) toks
    st.rcpts[n]? = some r →
    finalReplyAt t (step cfg st t).2 n = some 250 →
    ∀ k ∈ targetsOf cfg (cfg.routes r.dom), ∃ e ∈ curEnts st.w,
      e.tgt = k ∧ (r.uid, r.id) ∈ e.rcpts ∧ Ev.rcpt r.uid r.id true ∈ evsAt st.w.log e.idx ∧
      HeldBy r.uid r.id (evsAt st.w.log e.idx) (evsAt (step cfg st t).1.w.log e.idx)


/-! ### LMTP: a refused recipient -/

/-- go-smtp's reply at position `n` is the result of LMTPData or one of the statuses set for that address -/
theorem lmtpReplies_src (fill : Nat) : ∀ (uids : List Nat) (sts : List (Nat × Nat)) (n u c : Nat),
    uids[n]? = some u → (lmtpReplies uids sts fill)[n]? = some c → c = fill ∨ ∃ s ∈ sts, s.1 = u ∧ s.2 = c := by
  intro uids
  induction uids with
  | nil => intro sts n u c h; simp at h
  | cons u0 rest ih =>
    intro sts n u c hn hc
    simp only [lmtpReplies] at hc
    cases n with
    | zero =>
      simp at hn; subst hn
      cases hf : sts.find? (fun s => s.1 == u0) with
      | some s =>
        simp [hf] at hc
        exact Or.inr ⟨s, List.mem_of_find?_eq_some hf, by have := List.find?_some hf; simpa using this, hc⟩
      | none => simp [hf] at hc; exact Or.inl hc.symm
    | succ k =>
      simp at hn
      cases hf : sts.find? (fun s => s.1 == u0) with
      | some s =>
        simp [hf] at hc
        rcases ih (sts.erase s) k u c hn hc with h | ⟨x, hx, h1, h2⟩
        · exact Or.inl h
        · exact Or.inr ⟨x, List.mem_of_mem_erase hx, h1, h2⟩
      | none => simp [hf] at hc; exact ih sts k u c hn hc

/-- the delivery refused recipient `(u, id)` in the body stage -/
def Refuses (cfg : Cfg) (f : DataF) (e : DEntry) (u id : Nat) : Prop :=
  (u, id) ∈ e.rcpts ∧
    ((isPartial cfg e.tgt = true ∧ refusedBy f e.tgt id = true) ∨
     (isPartial cfg e.tgt = false ∧ f.bMask.testBit e.tgt = true))

theorem fwd_prov (ks : KS) (uid code : Nat) : ∀ s ∈ (fwd ks uid code).2, s ∈ ks.2 ∨ s.1 = uid := by
  unfold fwd; split
  · intro s hs; simp at hs; rcases hs with hs | hs
    · exact Or.inl hs
    · subst hs; exact Or.inr rfl
  · intro s hs; exact Or.inl hs

theorem fwdAll_prov (code : Nat) : ∀ (l : List (Nat × Nat)) (ks : KS), ∀ s ∈ (fwdAll ks code l).2,
    s ∈ ks.2 ∨ ∃ p ∈ l, p.1 = s.1 := by
  intro l
  induction l with
  | nil => intro ks s hs; exact Or.inl hs
  | cons p rest ih =>
    intro ks s hs
    obtain ⟨uid, id⟩ := p
    simp only [fwdAll] at hs
    rcases ih _ s hs with h | ⟨q, hq, h1⟩
    · rcases fwd_prov ks uid code s h with h2 | h2
      · exact Or.inl h2
      · exact Or.inr ⟨(uid, id), by simp, h2.symm⟩
    · exact Or.inr ⟨q, by simp [hq], h1⟩

theorem fwdPartial_prov (f : DataF) (k : Nat) : ∀ (l : List (Nat × Nat)) (ks : KS), ∀ s ∈ (fwdPartial f k ks l).2,
    s ∈ ks.2 ∨ ∃ p ∈ l, p.1 = s.1 ∧ refusedBy f k p.2 = true := by
  intro l
  induction l with
  | nil => intro ks s hs; exact Or.inl hs
  | cons p rest ih =>
    intro ks s hs
    obtain ⟨uid, id⟩ := p
    simp only [fwdPartial] at hs
    by_cases hr : refusedBy f k id = true
    · simp only [hr, if_true] at hs
      rcases ih _ s hs with h | ⟨q, hq, h1⟩
      · rcases fwd_prov ks uid _ s h with h2 | h2
        · exact Or.inl h2
        · exact Or.inr ⟨(uid, id), by simp, h2.symm, hr⟩
      · exact Or.inr ⟨q, by simp [hq], h1⟩
    · have hr' : refusedBy f k id = false := by simpa using hr
      simp only [hr', Bool.false_eq_true, if_false] at hs
      rcases ih _ s hs with h | ⟨q, hq, h1⟩
      · exact Or.inl h
      · exact Or.inr ⟨q, by simp [hq], h1⟩

theorem bodyNAAll_prov (cfg : Cfg) (f : DataF) : ∀ (l : List DEntry) (log : Log) (ks : KS) (failed : List Nat),
    ∀ s ∈ (bodyNAAll cfg f l log ks failed).2.1.2, s ∈ ks.2 ∨ ∃ e ∈ l, ∃ id, Refuses cfg f e s.1 id := by
  intro l
  induction l with
  | nil => intro log ks failed s hs; exact Or.inl hs
  | cons e es ih =>
    intro log ks failed s hs
    simp only [bodyNAAll] at hs
    split at hs
    · rename_i hp
      rcases ih _ _ _ s hs with h | ⟨x, hx, id, hr⟩
      · rcases fwdPartial_prov f e.tgt e.rcpts ks s h with h2 | ⟨q, hq, h1, h2⟩
        · exact Or.inl h2
        · exact Or.inr ⟨e, by simp, q.2, by rw [← h1]; exact hq, Or.inl ⟨hp, h2⟩⟩
      · exact Or.inr ⟨x, by simp [hx], id, hr⟩
    · rename_i hp
      have hp' : isPartial cfg e.tgt = false := by simpa using hp
      split at hs
      · rename_i hb
        rcases ih _ _ _ s hs with h | ⟨x, hx, id, hr⟩
        · rcases fwdAll_prov _ e.rcpts ks s h with h2 | ⟨q, hq, h1⟩
          · exact Or.inl h2
          · exact Or.inr ⟨e, by simp, q.2, by rw [← h1]; exact hq, Or.inr ⟨hp', hb⟩⟩
        · exact Or.inr ⟨x, by simp [hx], id, hr⟩
      · rcases ih _ _ _ s hs with h | ⟨x, hx, id, hr⟩
        · exact Or.inl h
        · exact Or.inr ⟨x, by simp [hx], id, hr⟩

/-- the calls appended by the delivery loop of `BodyNonAtomic`, and which deliveries it marks -/
theorem bodyNAAll_evs (cfg : Cfg) (f : DataF) : ∀ (l : List DEntry) (log : Log) (ks : KS) (failed : List Nat),
    (eidx l).Nodup → (∀ e ∈ l, e.idx < log.length) →
    (∀ e ∈ l, evsAt (bodyNAAll cfg f l log ks failed).1 e.idx = evsAt log e.idx ++ [bodyEv cfg f e]) ∧
    (∀ j, j ∉ eidx l → evsAt (bodyNAAll cfg f l log ks failed).1 j = evsAt log j) := by
  intro l
  induction l with
  | nil => intro log ks failed _ _; simp [bodyNAAll, eidx]
  | cons e es ih =>
    intro log ks failed hnd hlt
    simp only [eidx, List.map_cons, List.nodup_cons] at hnd
    have hlt' : ∀ (ev : Ev), ∀ x ∈ es, x.idx < (addEv log e.idx ev).length := by
      intro ev x hx; rw [addEv_length]; exact hlt x (by simp [hx])
    have hne : ∀ x ∈ es, e.idx ≠ x.idx := by
      intro x hx heq; apply hnd.1; rw [heq]; exact List.mem_map_of_mem hx
    have fin : ∀ (ev : Ev) (ks' : KS) (failed' : List Nat), ev = bodyEv cfg f e →
        (∀ x ∈ e :: es, evsAt (bodyNAAll cfg f es (addEv log e.idx ev) ks' failed').1 x.idx = evsAt log x.idx ++ [bodyEv cfg f x]) ∧
        (∀ j, j ∉ eidx (e :: es) → evsAt (bodyNAAll cfg f es (addEv log e.idx ev) ks' failed').1 j = evsAt log j) := by
      intro ev ks' failed' hev
      obtain ⟨a, b⟩ := ih (addEv log e.idx ev) ks' failed' hnd.2 (hlt' ev)
      refine ⟨?_, ?_⟩
      · intro x hx
        simp at hx
        rcases hx with hx | hx
        · subst hx
          rw [b _ hnd.1, evsAt_addEv_eq _ _ _ (hlt x (by simp)), hev]
        · rw [a x hx, evsAt_addEv_ne _ _ _ _ (hne x hx)]
      · intro j hj
        simp [eidx] at hj
        have hj2 : j ∉ eidx es := by simp [eidx]; intro x hx; exact hj.2 x hx
        rw [b j hj2, evsAt_addEv_ne _ _ _ _ (Ne.symm hj.1)]
    simp only [bodyNAAll]
    split
    · rename_i hp
      exact fin _ _ _ (by simp [bodyEv, hp])
    · rename_i hp
      have hp' : isPartial cfg e.tgt = false := by simpa using hp
      split
      · rename_i hb
        exact fin _ _ _ (by simp [bodyEv, hp', hb])
      · rename_i hb
        have hb' : f.bMask.testBit e.tgt = false := by simpa using hb
        exact fin _ _ _ (by simp [bodyEv, hp', hb'])

/-- every call log only grows -/
def Grows (log log' : Log) : Prop := Quiet (fun _ => True) log log'

theorem Grows.mem {log log' : Log} (h : Grows log log') {i : Nat} {e : Ev} (he : e ∈ evsAt log i) : e ∈ evsAt log' i := by
  obtain ⟨suf, hs, _⟩ := h i
  rw [hs]; exact List.mem_append_left _ he

theorem commitAll_grows (m : MailF) : ∀ (l : List DEntry) (err : Option Nat) (log : Log),
    Grows log (commitAll m l err log).1 := by
  intro l
  induction l with
  | nil => intro err log; exact Quiet.refl _ _
  | cons e es ih =>
    intro err log
    simp only [commitAll]
    split
    · exact (Quiet.addEv _ _ _ trivial).trans (ih _ _)
    · split
      · exact (Quiet.addEv _ _ _ trivial).trans (ih _ _)
      · exact (Quiet.addEv _ _ _ trivial).trans (ih _ _)

theorem pCommit_grows (pd : PDel) (w : World) : Grows w.log (pCommit pd w).1.log := by
  unfold pCommit
  obtain ⟨hl, _⟩ := nextOrder_w w pd.ents
  generalize nextOrder w pd.ents = r at *
  obtain ⟨w1, ord⟩ := r
  simp only at hl ⊢
  have := commitAll_grows pd.mail ord none w1.log
  generalize commitAll pd.mail ord none w1.log = r2 at *
  obtain ⟨l2, e2⟩ := r2
  simp only at this ⊢
  rw [← hl]; exact this

theorem commitAll_allFailed_quiet (m : MailF) : ∀ (l : List DEntry) (err : Option Nat) (log : Log),
    (∀ e ∈ l, e.failed = true) → Quiet NotCommitOK log (commitAll m l err log).1 := by
  intro l
  induction l with
  | nil => intro err log _; exact Quiet.refl _ _
  | cons e es ih =>
    intro err log hf
    have he : e.failed = true := hf e (by simp)
    simp only [commitAll, he, Bool.or_true, if_true]
    exact (Quiet.addEv _ _ _ (by simp [NotCommitOK])).trans (ih _ _ (fun x hx => hf x (by simp [hx])))


theorem pBodyNA_eidx (cfg : Cfg) (f : DataF) (pd : PDel) (keys : List Nat) (w : World) :
    eidx (pBodyNA cfg f pd keys w).2.1.ents = eidx pd.ents := by
  unfold pBodyNA
  split
  · exact eidx_map_rcpts _ _ (by intro e; rfl)
  · generalize nextOrder w pd.ents = r
    obtain ⟨w1, ord⟩ := r
    simp only
    generalize bodyNAAll cfg f ord w1.log (keys, []) [] = r2
    obtain ⟨l2, ks2, f2⟩ := r2
    exact eidx_markFailed _ _

/-- why an LMTP recipient with address `u` may be answered with a failure -/
def RefusedBecause (st st' : St) (u : Nat) : Prop :=
  -- the failure is at the commit step: Commit was called on a delivery of the transaction and failed
  (∃ e ∈ curEnts st.w, Ev.commit false ∈ evsAt st'.w.log e.idx) ∨
  -- one of the recipient's own targets refused the message for it in the body stage
  (∃ e ∈ curEnts st.w, ∃ id, (u, id) ∈ e.rcpts ∧
    (Ev.body false ∈ evsAt st'.w.log e.idx ∨ ∃ stl, Ev.bodyNA stl ∈ evsAt st'.w.log e.idx ∧ (u, id, false) ∈ stl)) ∨
  -- the transaction failed as a whole and no target was committed
  Quiet NotCommitOK st.w.log st'.w.log

theorem sessLMTPData_fail (cfg : Cfg) (w : World) (f : DataF) (pd : PDel) (h : WInv w) (hd : w.sess.delivery = some pd) :
    (∀ c, (sessLMTPData cfg w f).2.err = some c →
      (sessLMTPData cfg w f).1 = w ∨
      ((sessLMTPData cfg w f).1.sess.delivery = none ∧
        ∃ e ∈ pd.ents, Ev.commit false ∈ evsAt (sessLMTPData cfg w f).1.log e.idx)) ∧
    (∀ s ∈ (sessLMTPData cfg w f).2.sts,
      (sessLMTPData cfg w f).1.sess.delivery = none ∧
      (Quiet NotCommitOK w.log (sessLMTPData cfg w f).1.log ∨
       ∃ e ∈ pd.ents, ∃ id, (s.1, id) ∈ e.rcpts ∧
        (Ev.body false ∈ evsAt (sessLMTPData cfg w f).1.log e.idx ∨
         ∃ stl, Ev.bodyNA stl ∈ evsAt (sessLMTPData cfg w f).1.log e.idx ∧ (s.1, id, false) ∈ stl))) := by
  have he : EntInv w.log pd.ents := by simpa [curEnts, hd] using h.ent
  have hS := h.heldS; have hN := h.heldN
  simp [hd] at hS hN
  unfold sessLMTPData
  simp only [hd]
  split
  · exact ⟨fun c _ => Or.inl rfl, by simp⟩
  · split
    · exact ⟨fun c _ => Or.inl rfl, by simp⟩
    · split
      · exact ⟨fun c _ => Or.inl rfl, by simp⟩
      · obtain ⟨b1, b2, b3, b4, b5⟩ := pBodyNA_spec cfg f pd w.sess.keys w he
        -- provenance of the statuses, and what the refusing delivery's log shows after BodyNonAtomic
        have hprov : ∀ s ∈ (pBodyNA cfg f pd w.sess.keys w).2.2,
            ((pBodyNA cfg f pd w.sess.keys w).1.log = w.log ∧ ∀ e ∈ (pBodyNA cfg f pd w.sess.keys w).2.1.ents, e.failed = true) ∨
            ∃ e ∈ pd.ents, ∃ id, (s.1, id) ∈ e.rcpts ∧
              (Ev.body false ∈ evsAt (pBodyNA cfg f pd w.sess.keys w).1.log e.idx ∨
               ∃ stl, Ev.bodyNA stl ∈ evsAt (pBodyNA cfg f pd w.sess.keys w).1.log e.idx ∧ (s.1, id, false) ∈ stl) := by
          intro s hs
          unfold pBodyNA at hs ⊢
          split
          · refine Or.inl ⟨rfl, ?_⟩
            intro e hem
            simp only at hem
            obtain ⟨y, _, hy⟩ := List.mem_map.mp hem
            subst hy; rfl
          · rename_i hg
            simp only [hg, Bool.false_eq_true, if_false] at hs
            right
            have hperm := nextOrder_perm w pd.ents
            obtain ⟨hl1, _⟩ := nextOrder_w w pd.ents
            generalize nextOrder w pd.ents = r at *
            obtain ⟨w1, ord⟩ := r
            simp only at hl1 hperm hs ⊢
            have hnd : (eidx ord).Nodup := ((hperm.map _).nodup_iff).mpr he.nodup
            have hlt : ∀ x ∈ ord, x.idx < w1.log.length := by
              intro x hx; rw [hl1]; exact he.lt x.idx (List.mem_map_of_mem (hperm.mem_iff.mp hx))
            have hev := (bodyNAAll_evs cfg f ord w1.log (w.sess.keys, []) [] hnd hlt).1
            have hpv := bodyNAAll_prov cfg f ord w1.log (w.sess.keys, []) []
            generalize bodyNAAll cfg f ord w1.log (w.sess.keys, []) [] = r2 at *
            obtain ⟨log2, ks2, failed2⟩ := r2
            simp only at hev hpv hs ⊢
            rcases hpv s hs with h0 | ⟨e, hem, id, hin, hwhy⟩
            · simp at h0
            · refine ⟨e, hperm.mem_iff.mp hem, id, hin, ?_⟩
              have hlast : bodyEv cfg f e ∈ evsAt log2 e.idx := by rw [hev e hem]; simp
              rcases hwhy with ⟨hp, hr⟩ | ⟨hp, hb⟩
              · right
                refine ⟨_, by simpa [bodyEv, hp] using hlast, ?_⟩
                exact List.mem_map.mpr ⟨(s.1, id), hin, by simp [hr]⟩
              · left
                simpa [bodyEv, hp, hb] using hlast
        have heidx := pBodyNA_eidx cfg f pd w.sess.keys w
        generalize pBodyNA cfg f pd w.sess.keys w = r at *
        obtain ⟨w1, pd1, sts⟩ := r
        simp only at hprov b1 b2 b3 b4 b5 heidx ⊢
        have hcc := commit_clean_inv w1 pd1 (by rw [b3, b2]; exact hS) (by rw [b4, b2]; exact hN)
          (by rw [b5]; exact h.noPanic) b1
        have hgrow := pCommit_grows pd1 w1
        have hwit : ∀ c, (pCommit pd1 w1).2 = some c → ∃ e ∈ pd1.ents, Ev.commit false ∈ evsAt (pCommit pd1 w1).1.log e.idx := by
          intro c hcm
          unfold pCommit at hcm ⊢
          have hperm := nextOrder_perm w1 pd1.ents
          obtain ⟨hl1, _⟩ := nextOrder_w w1 pd1.ents
          generalize nextOrder w1 pd1.ents = r at *
          obtain ⟨w2, ord⟩ := r
          simp only at *
          have hlt : ∀ e ∈ ord, e.idx < w2.log.length := by
            intro e he'; rw [hl1]; exact b1.lt e.idx (List.mem_map_of_mem (hperm.mem_iff.mp he'))
          have := commitAll_fail_witness pd1.mail ord w2.log c hlt
          generalize commitAll pd1.mail ord none w2.log = r2 at *
          obtain ⟨l2, e2⟩ := r2
          simp only at *
          obtain ⟨e, hem, hin⟩ := this hcm
          exact ⟨e, hperm.mem_iff.mp hem, hin⟩
        have hallq : (∀ e ∈ pd1.ents, e.failed = true) → Quiet NotCommitOK w1.log (pCommit pd1 w1).1.log := by
          intro hall
          unfold pCommit
          have hperm := nextOrder_perm w1 pd1.ents
          obtain ⟨hl1, _⟩ := nextOrder_w w1 pd1.ents
          generalize nextOrder w1 pd1.ents = r at *
          obtain ⟨w2, ord⟩ := r
          simp only at *
          have := commitAll_allFailed_quiet pd1.mail ord none w2.log (fun e he' => hall e (hperm.mem_iff.mp he'))
          generalize commitAll pd1.mail ord none w2.log = r2 at *
          obtain ⟨l2, e2⟩ := r2
          simp only at *
          rw [← hl1]; exact this
        -- the entries of pd1 are those of pd up to the `failed` mark
        have hidx : ∀ e' ∈ pd1.ents, ∃ e ∈ pd.ents, e.idx = e'.idx := by
          intro e' he'
          have : e'.idx ∈ eidx pd.ents := by
            have h1 : e'.idx ∈ eidx pd1.ents := List.mem_map_of_mem he'
            rw [← heidx]; exact h1
          obtain ⟨e, hem, hi⟩ := List.mem_map.mp this
          exact ⟨e, hem, hi⟩
        generalize pCommit pd1 w1 = r2 at *
        obtain ⟨w2, err⟩ := r2
        simp only at hcc hgrow hwit hallq ⊢
        refine ⟨?_, ?_⟩
        · intro c hc
          right
          refine ⟨hcc.2, ?_⟩
          obtain ⟨e', hem', hin⟩ := hwit c hc
          obtain ⟨e, hem, hi⟩ := hidx e' hem'
          exact ⟨e, hem, by rw [cleanSession_log, hi]; exact hin⟩
        · intro s hs
          refine ⟨hcc.2, ?_⟩
          rcases hprov s hs with ⟨hlog, hall⟩ | ⟨e, hem, id, hin, hwhy⟩
          · left
            rw [cleanSession_log, ← hlog]
            exact hallq hall
          · right
            refine ⟨e, hem, id, hin, ?_⟩
            rw [cleanSession_log]
            rcases hwhy with hb | ⟨stl, hb, hm⟩
            · exact Or.inl (hgrow.mem hb)
            · exact Or.inr ⟨stl, hgrow.mem hb, hm⟩


theorem runData_lmtp_failure (cfg : Cfg) (st : St) (f : DataF) (hl : cfg.lmtp = true) (h : Inv st)
    (hc : st.closed = false) (hr : st.rcpts ≠ []) (n : Nat) (r : RcptF) (c : Nat)
    (hn : st.rcpts[n]? = some r) (hrep : (runData cfg st f).2[n]? = some c) (hne : c ≠ 250) :
    RefusedBecause st (runData cfg st f).1 r.uid := by
  have hd := h.rcptsDel hc hr
  cases hdd : st.w.sess.delivery with
  | none => simp [hdd] at hd
  | some pd =>
    have hce : curEnts st.w = pd.ents := by simp [curEnts, hdd]
    obtain ⟨hA, hB⟩ := sessLMTPData_fail cfg st.w f pd h.w hdd
    have hpan := (sessLMTPData_inv cfg st.w f h.w hd).2
    unfold runData at hrep ⊢
    simp only [hl, if_true] at hrep ⊢
    generalize sessLMTPData cfg st.w f = x at *
    obtain ⟨w1, res⟩ := x
    simp only at hA hB hpan hrep ⊢
    simp only [hpan, Bool.false_eq_true, if_false] at hrep ⊢
    have hn' : (st.rcpts.map (·.uid))[n]? = some r.uid := by simp [hn]
    rcases lmtpReplies_src (okCode res.err) _ res.sts n r.uid c hn' hrep with hfill | ⟨s, hs, hs1, hs2⟩
    · -- the reply is the result of LMTPData, an error
      cases herr : res.err with
      | none => simp [herr, okCode] at hfill; exact absurd hfill hne
      | some c1 =>
        rcases hA c1 herr with hsame | ⟨hdn, e, hem, hin⟩
        · -- nothing was called: the reset aborts the delivery
          subst hsame
          exact Or.inr (Or.inr (connReset_quiet _))
        · refine Or.inl ⟨e, by rw [hce]; exact hem, ?_⟩
          rw [connReset_log_of_none _ hdn]; exact hin
    · obtain ⟨hdn, hwhy⟩ := hB s hs
      rcases hwhy with hq | ⟨e, hem, id, hin, hev⟩
      · refine Or.inr (Or.inr ?_)
        rw [connReset_log_of_none _ hdn]; exact hq
      · refine Or.inr (Or.inl ⟨e, by rw [hce]; exact hem, id, by rw [← hs1]; exact hin, ?_⟩)
        rw [connReset_log_of_none _ hdn, ← hs1]; exact hev

/-- **A refused LMTP recipient reflects the result of its own targets.**  In any state a session can reach,
if the per-recipient reply for the `n`-th accepted recipient at the end of DATA / `BDAT … LAST` is not `250`,
then (a) `Commit` itself failed on a delivery of this transaction, or (b) one of the deliveries that hold
this very address refused the body for it (`Body` failed, or `BodyNonAtomic` set a failure status for it), or
(c) the transaction failed as a whole before the commit step and the step appends no successful `Commit` to
any delivery, old or new. -/
theorem C03_lmtp_refused_reflects_own_target (cfg : Cfg) (oracle : List (List Nat)) (toks : List Tok)
    (t : Tok) (hl : cfg.lmtp = true) (n : Nat) (r : RcptF) (c : Nat) :
    let st := steps cfg (start oracle) toks
    st.rcpts[n]? = some r → finalReplyAt t (step cfg st t).2 n = some c → c ≠ 250 →
    RefusedBecause st (step cfg st t).1 r.uid := by
  intro st hn hrep hne
  have h : Inv st := steps_inv cfg toks (start oracle) (Inv.init oracle)
  by_cases hc : st.closed = true
  · cases t with
    | data f => simp [finalReplyAt, step, hc] at hrep
    | bdat last f => cases last <;> simp [finalReplyAt, step, hc] at hrep
    | _ => simp [finalReplyAt] at hrep
  have hc' : st.closed = false := by simpa using hc
  have hr : st.rcpts ≠ [] := by intro he; rw [he] at hn; simp at hn
  cases t with
  | data f =>
    unfold step at hrep ⊢
    rw [if_neg hc] at hrep ⊢
    simp only [one] at hrep ⊢
    split at hrep
    · simp [finalReplyAt] at hrep
    · split at hrep
      · simp [finalReplyAt] at hrep
      · split at hrep
        · simp [finalReplyAt] at hrep
        · rename_i k1 k2 hg
          split at hrep
          · simp [finalReplyAt] at hrep
          · rename_i k4
            simp only [k1, k2, hg, k4, if_false]
            have := runData_lmtp_failure cfg st f hl h hc' hr n r c hn
            generalize runData cfg st f = x at *
            obtain ⟨st1, rep⟩ := x
            simp only [finalReplyAt] at hrep this ⊢
            exact this hrep hne
  | bdat last f =>
    cases last with
    | false => simp [finalReplyAt] at hrep
    | true =>
      unfold step at hrep ⊢
      rw [if_neg hc] at hrep ⊢
      simp only [one] at hrep ⊢
      split at hrep
      · simp [finalReplyAt] at hrep
      · rename_i hg
        simp only [hg, if_false]
        split at hrep
        · rename_i hb
          try simp only [hb]
          split at hrep
          · -- the header limit was hit while the chunk was copied: one 552, reset
            rename_i k5
            simp only [k5, if_true]
            exact Or.inr (Or.inr (connReset_quiet st))
          · rename_i k4
            simp only [k4, if_false, if_true]
            simp only [if_true] at hrep
            have := runData_lmtp_failure cfg st f hl h hc' hr n r c hn
            generalize runData cfg st f = x at *
            obtain ⟨st1, rep⟩ := x
            simp only [finalReplyAt] at hrep this ⊢
            exact this hrep hne
        · rename_i f0 hb
          simp only [hb, if_true]
          simp only [if_true] at hrep
          have h1 : Inv { st with bdat := none } :=
            ⟨h.w, h.rcptsDel, h.delHelo, h.fromHelo, h.closedHelo, by simp⟩
          have := runData_lmtp_failure cfg { st with bdat := none } f0 hl h1 hc' hr n r c hn
          generalize runData cfg { st with bdat := none } f0 = x at *
          obtain ⟨st1, rep⟩ := x
          simp only [finalReplyAt] at hrep this ⊢
          exact this hrep hne
  | _ => simp [finalReplyAt] at hrep


def endsData : Tok → Bool
  | .data _ => true
  | .bdat true _ => true
  | _ => false

/-- **Commit happens only at the end of DATA.**  On SMTP and LMTP endpoints alike, a command that is not a
DATA command or a `BDAT … LAST` chunk (EHLO, AUTH, MAIL, RCPT, BDAT chunk, RSET, NOOP, QUIT, junk, the
connection going away) never appends a successful `Commit` to any delivery: a transaction that is reset,
abandoned or cut off is committed to no target. -/
theorem C03_commit_only_at_end_of_data (cfg : Cfg) (oracle : List (List Nat)) (toks : List Tok) (t : Tok)
    (ht : endsData t = false) :
    let st := steps cfg (start oracle) toks
    Quiet NotCommitOK st.w.log (step cfg st t).1.w.log := by
  intro st
  have same : ∀ s : St, s.w.log = st.w.log → Quiet NotCommitOK st.w.log s.w.log := fun s hs => by rw [hs]; exact Quiet.refl _ _
  by_cases hc : st.closed = true
  · simp only [step, hc, if_true]; exact same _ rfl
  unfold step
  rw [if_neg hc]
  cases t with
  | greet => exact same _ rfl
  | helo => simp only [one]; split <;> exact same _ rfl
  | greetWrong => exact same _ rfl
  | greetNoArg => exact same _ rfl
  | noop => exact same _ rfl
  | vrfy => exact same _ rfl
  | rset => exact connReset_quiet st
  | unknown =>
    simp only [protocolError]
    split
    · exact connClose_quiet { st with errCount := st.errCount + 1 }
    · exact same _ rfl
  | quit => exact connClose_quiet st
  | drop => exact connClose_quiet st
  | authGood => simp only [one]; split <;> (try split) <;> exact same _ rfl
  | authBad => simp only [one]; split <;> (try split) <;> exact same _ rfl
  | bdatNoArg => exact same _ rfl
  | mail m =>
    simp only [one]
    split
    · exact same _ rfl
    · split
      · exact same _ rfl
      · split
        · exact same _ rfl
        · split
          · exact same _ rfl
          · split
            · exact same _ rfl
            · have hl2 := sessMail_log cfg st.w m
              generalize sessMail cfg st.w m = x at *
              obtain ⟨w1, res⟩ := x
              cases res <;> exact same _ hl2
  | rcpt r =>
    simp only [one]
    split
    · exact same _ rfl
    · split
      · exact same _ rfl
      · split
        · exact same _ rfl
        · have hq := sessRcpt_quiet cfg st.w r
          generalize sessRcpt cfg st.w r = x at *
          obtain ⟨w1, res⟩ := x
          cases res <;> exact hq
  | data f => simp [endsData] at ht
  | bdat last f =>
    cases last with
    | true => simp [endsData] at ht
    | false =>
      simp only [one]
      split
      · exact same _ rfl
      · split
        · split
          · exact connReset_quiet st
          · simp only [Bool.false_eq_true, if_false]; exact same _ rfl
        · simp only [Bool.false_eq_true, if_false]; exact same _ rfl


/-! ### LMTP replies under recipient rewriting

The reply vector of DATA / `BDAT … LAST` is indexed by RCPT command (`st.rcpts[n]?`, `finalReplyAt … n`).  For
ANY rewrite table the reply of the `n`-th RCPT command is determined by the deliveries that hold this very RCPT
TO argument — those of the targets of the destination block of its EFFECTIVE domain —, never by what happened
to another recipient, be it the address this one is rewritten to or an address that is rewritten to this one. -/

theorem filter_erase_other (sts : List (Nat × Nat)) (s : Nat × Nat) (u : Nat) (h : (s.1 == u) = false) :
    (sts.erase s).filter (fun x => x.1 == u) = sts.filter (fun x => x.1 == u) := by
  induction sts with
  | nil => rfl
  | cons a as ih =>
    by_cases ha : a = s
    · subst ha; simp [h]
    · rw [List.erase_cons_tail (by simp [ha])]
      simp [List.filter_cons, ih]

/-- **The LMTP reply vector is indexed by RCPT command, and reply `n` depends only on the statuses filed under the
RCPT TO argument of command `n`** (go-smtp's collector as `handleDataLMTP` reads it): two status streams that agree
on the statuses for `u` give the same reply at every position where `u` was accepted (once in the transaction) —
whatever was reported for other recipients, be they the address `u` is rewritten to or aliases of `u`. -/
theorem C03_lmtp_reply_depends_only_on_own_statuses (fill u : Nat) : ∀ (keys : List Nat) (sts sts' : List (Nat × Nat)) (n : Nat),
    keys[n]? = some u → keys.count u = 1 →
    sts.filter (fun x => x.1 == u) = sts'.filter (fun x => x.1 == u) →
    (lmtpReplies keys sts fill)[n]? = (lmtpReplies keys sts' fill)[n]? := by
  intro keys
  induction keys with
  | nil => intro sts sts' n hn; simp at hn
  | cons k rest ih =>
    intro sts sts' n hn hcnt h
    cases n with
    | zero =>
      simp at hn
      subst hn
      have hf : sts.find? (fun s => s.1 == k) = sts'.find? (fun s => s.1 == k) := by
        rw [← List.head?_filter, ← List.head?_filter, h]
      simp only [lmtpReplies, hf]
      cases sts'.find? (fun s => s.1 == k) <;> simp
    | succ m =>
      simp at hn
      have hmem : u ∈ rest := List.mem_of_getElem? hn
      have hku : k ≠ u := by
        intro hk
        subst hk
        have : rest.count k ≥ 1 := List.count_pos_iff.mpr hmem
        simp at hcnt
        omega
      have hcnt' : rest.count u = 1 := by
        simp [hku] at hcnt
        exact hcnt
      have key : ∀ (l : List (Nat × Nat)), ∃ l', (lmtpReplies (k :: rest) l fill)[m + 1]? = (lmtpReplies rest l' fill)[m]? ∧
          l'.filter (fun x => x.1 == u) = l.filter (fun x => x.1 == u) := by
        intro l
        cases hfd : l.find? (fun s => s.1 == k) with
        | none => exact ⟨l, by simp [lmtpReplies, hfd], rfl⟩
        | some s =>
          refine ⟨l.erase s, by simp [lmtpReplies, hfd], filter_erase_other l s u ?_⟩
          have := List.find?_some hfd
          simp at this
          simp [this, hku]
      obtain ⟨l1, e1, f1⟩ := key sts
      obtain ⟨l2, e2, f2⟩ := key sts'
      rw [e1, e2]
      exact ih l1 l2 m hn hcnt' (by rw [f1, f2, h])

/-- **250 for the `n`-th RCPT command ⇒ committed on every target it was routed to, for any rewrite table.** -/
theorem C03_lmtp_success_reply_any_rewriting (rw : Nat → Option Nat) (cfg : Cfg) (oracle : List (List Nat))
    (toks : List Tok) (t : Tok) (hl : cfg.lmtp = true) (n : Nat) (r : RcptF) :
    let st := steps cfg (start oracle) (toks.map (rewriteTok rw))
    st.rcpts[n]? = some r → (st.rcpts.map (·.uid)).count r.uid = 1 →
    finalReplyAt t (step cfg st t).2 n = some 250 →
    ∀ k ∈ targetsOf cfg (cfg.routes r.dom), ∃ e ∈ curEnts st.w,
      e.tgt = k ∧ (r.uid, r.id) ∈ e.rcpts ∧ Ev.rcpt r.uid r.id true ∈ evsAt st.w.log e.idx ∧
      HeldBy r.uid r.id (evsAt st.w.log e.idx) (evsAt (step cfg st t).1.w.log e.idx) :=
  C03_lmtp_success_reply_implies_committed_partial cfg oracle (toks.map (rewriteTok rw)) t hl n r

/-- **A failure reply for the `n`-th RCPT command reflects ITS OWN targets, for any rewrite table**: `Commit`
failed, or a delivery that holds this very RCPT TO argument refused the body, or nothing was committed. -/
theorem C03_lmtp_refused_reply_any_rewriting (rw : Nat → Option Nat) (cfg : Cfg) (oracle : List (List Nat))
    (toks : List Tok) (t : Tok) (hl : cfg.lmtp = true) (n : Nat) (r : RcptF) (c : Nat) :
    let st := steps cfg (start oracle) (toks.map (rewriteTok rw))
    st.rcpts[n]? = some r → finalReplyAt t (step cfg st t).2 n = some c → c ≠ 250 →
    RefusedBecause st (step cfg st t).1 r.uid :=
  C03_lmtp_refused_reflects_own_target cfg oracle (toks.map (rewriteTok rw)) t hl n r c

/-- every accepted recipient of a rewritten script is routed by the table: its domain is the table's entry
for its RCPT TO argument whenever there is one -/
theorem rewriteRcpt_dom (rw : Nat → Option Nat) (r : RcptF) (d : Nat) (h : rw r.uid = some d) :
    (rewriteRcpt rw r).dom = d ∧ (rewriteRcpt rw r).uid = r.uid := by
  simp [rewriteRcpt, h]

/-! ### non-vacuity: concrete sessions that satisfy the hypotheses (evaluated by the kernel) -/

section Examples

def exCfg (lmtp deferred : Bool) (partialMask : Nat) : Cfg := ⟨lmtp, deferred, 2, partialMask, fun _ => 3⟩
def exMail : MailF := ⟨.ascii, .perm, false, false, false, false, 0, 0, 0⟩
def exRcpt (uid id : Nat) : RcptF := ⟨uid, id, 0, .plain, .perm, false, false, 0⟩
def exData (bMask : Nat) (pIds : List Nat) : DataF := ⟨.plain, .perm, false, false, bMask, pIds⟩
def exToks : List Tok := [.greet, .mail exMail, .rcpt (exRcpt 2 0), .rcpt (exRcpt 3 1)]

/-- SMTP, two targets, both recipients on both: DATA is answered 250 (hypothesis of
`C03_success_reply_implies_all_committed`), and both deliveries end with Body ok, Commit ok -/
example : finalSuccess (.data (exData 0 [])) (step (exCfg false true 0) (steps (exCfg false true 0) (start []) exToks) (.data (exData 0 []))).2 := by
  show _ = _
  decide

example : (step (exCfg false true 0) (steps (exCfg false true 0) (start []) exToks) (.data (exData 0 []))).1.w.log =
    [⟨0, [.rcpt 2 0 true, .rcpt 3 1 true, .body true, .commit true]⟩,
     ⟨1, [.rcpt 2 0 true, .rcpt 3 1 true, .body true, .commit true]⟩] := by
  decide

/-- SMTP, Body fails on target 1 (called second): 561, not a success reply (hypothesis of
`C03_failure_before_commit_commits_nothing`); both deliveries are aborted, nothing is committed -/
example : ¬ finalSuccess (.data (exData 2 [])) (step (exCfg false true 0) (steps (exCfg false true 0) (start []) exToks) (.data (exData 2 []))).2 := by
  show ¬ (_ = _)
  decide

example : (step (exCfg false true 0) (steps (exCfg false true 0) (start []) exToks) (.data (exData 2 []))).2 =
    .codes [354, 561] ∧
    (step (exCfg false true 0) (steps (exCfg false true 0) (start []) exToks) (.data (exData 2 []))).1.w.log =
    [⟨0, [.rcpt 2 0 true, .rcpt 3 1 true, .body true, .abort true]⟩,
     ⟨1, [.rcpt 2 0 true, .rcpt 3 1 true, .body false, .abort true]⟩] := by
  decide

/-- failure AT the commit step: Commit fails on target 1 after target 0 was committed (fan-out order 0,1):
the second disjunct of `NothingCommitted` is the one that holds, the first does not -/
def exMailC : MailF := ⟨.ascii, .perm, false, false, false, false, 0, 2, 0⟩
def exToksC : List Tok := [.greet, .mail exMailC, .rcpt (exRcpt 2 0)]

example : (step (exCfg false true 0) (steps (exCfg false true 0) (start []) exToksC) (.data (exData 0 []))).2 = .codes [354, 571] ∧
    (step (exCfg false true 0) (steps (exCfg false true 0) (start []) exToksC) (.data (exData 0 []))).1.w.log =
    [⟨0, [.rcpt 2 0 true, .body true, .commit true]⟩, ⟨1, [.rcpt 2 0 true, .body true, .commit false]⟩] := by
  decide

/-- … and with the opposite map order (oracle segment `[1, 0]` for the closing fan-out) target 0 is aborted -/
example : (step (exCfg false true 0) (steps (exCfg false true 0) (start [[0, 1], [1, 0]]) exToksC) (.data (exData 0 []))).1.w.log =
    [⟨0, [.rcpt 2 0 true, .body true, .abort true]⟩, ⟨1, [.rcpt 2 0 true, .body true, .commit false]⟩] := by
  decide

/-- LMTP, target 0 atomic, target 1 partial and refusing recipient id 1: replies 250 / 565 (hypotheses of
`C03_lmtp_success_reply_implies_committed_partial` for n = 0 and of `C03_lmtp_refused_reflects_own_target` for n = 1) -/
example : finalReplyAt (.data (exData 0 [1])) (step (exCfg true true 2) (steps (exCfg true true 2) (start []) exToks) (.data (exData 0 [1]))).2 0 = some 250 ∧
    finalReplyAt (.data (exData 0 [1])) (step (exCfg true true 2) (steps (exCfg true true 2) (start []) exToks) (.data (exData 0 [1]))).2 1 = some 565 ∧
    ((steps (exCfg true true 2) (start []) exToks).rcpts.map (·.uid)).count 2 = 1 := by
  decide

/-- LMTP, a body-stage check refuses the message: every recipient gets 581 and every delivery is aborted -/
example : (step (exCfg true true 2) (steps (exCfg true true 2) (start []) exToks) (.data ⟨.plain, .perm, true, false, 0, []⟩)).2 =
    .codes [354, 581, 581] ∧
    (step (exCfg true true 2) (steps (exCfg true true 2) (start []) exToks) (.data ⟨.plain, .perm, true, false, 0, []⟩)).1.w.log =
    [⟨0, [.rcpt 2 0 true, .rcpt 3 1 true, .abort true]⟩, ⟨1, [.rcpt 2 0 true, .rcpt 3 1 true, .abort true]⟩] := by
  decide

/-- a session that tries hard: EHLO in the middle of a transaction, a nested MAIL, a first BDAT chunk, then the
connection goes away — two deliveries were opened, both are closed exactly once (instance of the session-end
theorems with a non-empty log), no permit is left -/
example : (run (exCfg false false 0) (start [])
      [.greet, .mail exMail, .rcpt (exRcpt 2 0), .greet, .mail exMail, .rcpt (exRcpt 4 1), .bdat false (exData 0 []), .drop]).1.w.log =
    [⟨0, [.rcpt 2 0 true, .rcpt 4 1 true, .abort true]⟩, ⟨1, [.rcpt 2 0 true, .rcpt 4 1 true, .abort true]⟩] ∧
    (run (exCfg false false 0) (start [])
      [.greet, .mail exMail, .rcpt (exRcpt 2 0), .greet, .mail exMail, .rcpt (exRcpt 4 1), .bdat false (exData 0 []), .drop]).1.w.heldSrc = 0 := by
  decide

/-- An alias chain (seeded change C03-10): RCPT 102 is rewritten to the address RCPT 1 has (domain 1, target 0),
RCPT 1 itself is rewritten into domain 2 (target 1); target 1 (atomic) refuses the body.  The replies belong to
the RCPT commands: 250 for the first (its target 0 committed), 561 for the second (its target 1 was aborted) —
hypotheses of `C03_lmtp_success_reply_any_rewriting` (n = 0) and `C03_lmtp_refused_reply_any_rewriting` (n = 1). -/
def exChainCfg : Cfg := ⟨true, true, 2, 0, fun j => if j == 1 then 1 else if j == 2 then 2 else 0⟩
def exChainRw : Nat → Option Nat := fun u => if u == 102 then some 1 else if u == 1 then some 2 else none
def exChainToks : List Tok := [.greet, .mail exMail, .rcpt (exRcpt 102 4), .rcpt (exRcpt 1 4)]

example : (step exChainCfg (steps exChainCfg (start []) (exChainToks.map (rewriteTok exChainRw))) (.data (exData 2 []))).2 =
      .codes [354, 250, 561] ∧
    (step exChainCfg (steps exChainCfg (start []) (exChainToks.map (rewriteTok exChainRw))) (.data (exData 2 []))).1.w.log =
      [⟨0, [.rcpt 102 4 true, .body true, .commit true]⟩, ⟨1, [.rcpt 1 4 true, .body false, .abort true]⟩] ∧
    ((steps exChainCfg (start []) (exChainToks.map (rewriteTok exChainRw))).rcpts.map (·.uid)).count 102 = 1 := by
  decide

/-- the same chain with a failing body check: both RCPT commands are refused, both deliveries aborted -/
example : (step exChainCfg (steps exChainCfg (start []) (exChainToks.map (rewriteTok exChainRw))) (.data ⟨.plain, .perm, true, false, 0, []⟩)).2 =
      .codes [354, 581, 581] := by
  decide

/-- two aliases of one mailbox and the mailbox itself (RCPT 103, 303 → domain 1; RCPT 3 is in domain 1), the
atomic target 0 refuses the body: three RCPT commands, three failure replies -/
example : (step exChainCfg (steps exChainCfg (start [])
      ([Tok.greet, .mail exMail, .rcpt (exRcpt 103 4), .rcpt (exRcpt 303 4), .rcpt ⟨3, 4, 1, .plain, .perm, false, false, 0⟩].map
        (rewriteTok (fun u => if u == 103 || u == 303 then some 1 else none)))) (.data (exData 1 []))).2 =
      .codes [354, 560, 560, 560] := by
  decide

end Examples


/-! ### bucket tables of the keyed limit scopes (round 9): a permit is returned to the limiter it was taken from

`BSt.steps` runs any history of sessions opening / ending transactions and of passing time over an endpoint whose
`ip` / `source` bucket tables have ANY size and reap interval.  Invariant: per scope and key, the permits out
(`usersOf`) are exactly the open transactions of that key — so the reap pass inside `BucketSet.take` never drops a
bucket an open transaction took its permit from, a second transaction of the key shares it, and no release ever
meets a limiter without a permit out (`panics = 0`). -/
section Buckets

def keysOf (m : List Bk) : List Nat := m.map (·.key)

theorem usersOf_nil (k : Nat) : usersOf k [] = 0 := rfl

theorem usersOf_cons (k : Nat) (b : Bk) (m : List Bk) :
    usersOf k (b :: m) = (if b.key = k then b.users else 0) + usersOf k m := by
  unfold usersOf
  by_cases h : b.key = k <;> simp [List.filter_cons, h]

theorem usersOf_filter_stale (k reap : Nat) (m : List Bk) :
    usersOf k (m.filter (fun b => !b.stale reap)) = usersOf k m := by
  induction m with
  | nil => rfl
  | cons b bs ih =>
    by_cases hs : b.stale reap = true
    · have hu : b.users = 0 := by
        simp [Bk.stale] at hs
        exact hs.1
      simp [List.filter_cons, hs, usersOf_cons, ih, hu]
    · simp [List.filter_cons, hs, usersOf_cons, ih]

theorem usersOf_touch (k k' : Nat) (m : List Bk) :
    usersOf k' (bkTouch k m) = usersOf k' m + (if k' = k then 1 else 0) := by
  induction m with
  | nil =>
    by_cases h : k = k'
    · subst h; simp [bkTouch, usersOf_cons, usersOf_nil]
    · have h' : ¬ k' = k := fun e => h e.symm
      simp [bkTouch, usersOf_cons, usersOf_nil, h, h']
  | cons b bs ih =>
    unfold bkTouch
    by_cases hb : b.key = k
    · by_cases h : k = k'
      · subst h; simp [hb, usersOf_cons]; omega
      · have h' : ¬ k' = k := fun e => h e.symm
        simp [hb, usersOf_cons, h, h']
    · simp [hb, usersOf_cons, ih]; omega

theorem keysOf_touch_sub (k x : Nat) (m : List Bk) : x ∈ keysOf (bkTouch k m) → x = k ∨ x ∈ keysOf m := by
  induction m with
  | nil => intro h; simp [bkTouch, keysOf] at h; exact Or.inl h
  | cons b bs ih =>
    unfold bkTouch
    by_cases hb : b.key = k
    · intro h
      have h' : x ∈ keysOf (b :: bs) := by simpa [hb, keysOf] using h
      exact Or.inr h'
    · intro h
      simp only [hb, if_false, keysOf, List.map_cons, List.mem_cons] at h ⊢
      rcases h with h | h
      · exact Or.inr (Or.inl h)
      · rcases ih h with h2 | h2
        · exact Or.inl h2
        · exact Or.inr (Or.inr h2)

theorem nodup_touch (k : Nat) (m : List Bk) (h : (keysOf m).Nodup) : (keysOf (bkTouch k m)).Nodup := by
  induction m with
  | nil => simp [bkTouch, keysOf]
  | cons b bs ih =>
    have hb0 : b.key ∉ keysOf bs ∧ (keysOf bs).Nodup := by simpa [keysOf, List.nodup_cons] using h
    unfold bkTouch
    by_cases hb : b.key = k
    · simpa [hb, keysOf, List.nodup_cons] using h
    · simp only [hb, if_false, keysOf, List.map_cons, List.nodup_cons]
      refine ⟨?_, ih hb0.2⟩
      intro hm
      rcases keysOf_touch_sub k b.key bs hm with h2 | h2
      · exact hb h2
      · exact hb0.1 h2

theorem keysOf_drop (k : Nat) (m : List Bk) : keysOf (bkDrop k m).1 = keysOf m := by
  induction m with
  | nil => rfl
  | cons b bs ih =>
    unfold bkDrop
    by_cases hb : b.key = k
    · simp [hb, keysOf]
    · simp only [hb, if_false, keysOf, List.map_cons] at ih ⊢
      rw [ih]

theorem usersOf_zero_of_not_mem (k : Nat) (m : List Bk) (h : k ∉ keysOf m) : usersOf k m = 0 := by
  induction m with
  | nil => rfl
  | cons b bs ih =>
    have h2 : ¬ b.key = k ∧ k ∉ keysOf bs := by
      simp [keysOf] at h
      exact ⟨fun e => h.1 e.symm, by simpa [keysOf] using h.2⟩
    simp [usersOf_cons, h2.1, ih h2.2]

theorem drop_spec (k k' : Nat) (m : List Bk) (hn : (keysOf m).Nodup) (h1 : 1 ≤ usersOf k m) :
    (bkDrop k m).2 = false ∧ usersOf k' (bkDrop k m).1 + (if k' = k then 1 else 0) = usersOf k' m := by
  induction m with
  | nil => simp [usersOf_nil] at h1
  | cons b bs ih =>
    have hb0 : b.key ∉ keysOf bs ∧ (keysOf bs).Nodup := by simpa [keysOf, List.nodup_cons] using hn
    unfold bkDrop
    by_cases hb : b.key = k
    · have hz : usersOf k bs = 0 := usersOf_zero_of_not_mem k bs (hb ▸ hb0.1)
      have hu : 1 ≤ b.users := by simpa [usersOf_cons, hb, hz] using h1
      by_cases h : k = k'
      · subst h
        simp [hb, usersOf_cons]
        omega
      · have h' : ¬ k' = k := fun e => h e.symm
        simp [hb, usersOf_cons, h, h']
        omega
    · have h1' : 1 ≤ usersOf k bs := by simpa [usersOf_cons, hb] using h1
      have := ih hb0.2 h1'
      simp only [hb, if_false, usersOf_cons]
      refine ⟨this.1, ?_⟩
      omega

theorem nodup_filter (p : Bk → Bool) (m : List Bk) (h : (keysOf m).Nodup) : (keysOf (m.filter p)).Nodup :=
  List.Nodup.sublist (List.Sublist.map _ List.filter_sublist) h

/-- the table of a scope agrees with a count of open transactions per key -/
def TInv (t : BSet) (cnt : Nat → Nat) : Prop := (keysOf t.m).Nodup ∧ (t.on = true → ∀ k, usersOf k t.m = cnt k)

theorem TInv.congr {t : BSet} {c1 c2 : Nat → Nat} (h : TInv t c1) (e : ∀ k, c1 k = c2 k) : TInv t c2 :=
  ⟨h.1, fun ho k => (h.2 ho k).trans (e k)⟩

theorem take_spec (t : BSet) (k : Nat) (cnt : Nat → Nat) (h : TInv t cnt) :
    ((t.take k).2 = true → TInv (t.take k).1 (fun k' => cnt k' + (if k' = k then 1 else 0))) ∧
    ((t.take k).2 = false → TInv (t.take k).1 cnt) ∧ (t.take k).1.on = t.on := by
  unfold BSet.take
  by_cases ho : t.on = true
  · simp only [ho, Bool.not_true, Bool.false_eq_true, if_false]
    have hm : ∀ m', (m' = t.m ∨ m' = t.m.filter (fun b => !b.stale t.reap)) →
        (keysOf m').Nodup ∧ ∀ k', usersOf k' m' = cnt k' := by
      intro m' hm'
      rcases hm' with e | e
      · subst e; exact ⟨h.1, h.2 ho⟩
      · subst e; exact ⟨nodup_filter _ _ h.1, fun k' => (usersOf_filter_stale k' t.reap t.m).trans (h.2 ho k')⟩
    generalize hmm : (if t.maxB < t.m.length then t.m.filter (fun b => !b.stale t.reap) else t.m) = m'
    have hm' := hm m' (by rw [← hmm]; split <;> simp)
    by_cases hf : t.maxB < m'.length
    · simp [hf, TInv, hm'.1, hm'.2, ho]
    · simp only [hf, if_false]
      refine ⟨fun _ => ⟨nodup_touch k m' hm'.1, fun _ k' => ?_⟩, fun hc => by simp at hc, by first | trivial | simp [ho]⟩
      show usersOf k' (bkTouch k m') = _
      rw [usersOf_touch, hm'.2]
  · have ho' : t.on = false := by simpa using ho
    simp [ho', TInv, h.1]

theorem release_spec (t : BSet) (k : Nat) (cnt : Nat → Nat) (h : TInv t cnt) (h1 : t.on = true → 1 ≤ cnt k) :
    (t.release k).2 = false ∧ TInv (t.release k).1 (fun k' => cnt k' - (if k' = k then 1 else 0)) ∧
      (t.release k).1.on = t.on := by
  unfold BSet.release
  by_cases ho : t.on = true
  · simp only [ho, Bool.not_true, Bool.false_eq_true, if_false]
    have hu : 1 ≤ usersOf k t.m := by rw [h.2 ho k]; exact h1 ho
    refine ⟨(drop_spec k k t.m h.1 hu).1, ⟨?_, fun _ k' => ?_⟩, by first | trivial | simp [ho]⟩
    · show (keysOf (bkDrop k t.m).1).Nodup
      rw [keysOf_drop]; exact h.1
    · show usersOf k' (bkDrop k t.m).1 = cnt k' - (if k' = k then 1 else 0)
      have := (drop_spec k k' t.m h.1 hu).2
      rw [h.2 ho k'] at this
      omega
  · have ho' : t.on = false := by simpa using ho
    simp [ho', TInv, h.1]

theorem advance_spec (t : BSet) (d : Nat) (cnt : Nat → Nat) (h : TInv t cnt) : TInv (t.advance d) cnt := by
  have hk : keysOf (t.advance d).m = keysOf t.m := by simp [BSet.advance, keysOf, List.map_map, Function.comp_def]
  have hu : ∀ k, usersOf k (t.advance d).m = usersOf k t.m := by
    intro k
    simp only [BSet.advance]
    induction t.m with
    | nil => rfl
    | cons b bs ih => simp [usersOf_cons, ih]
  exact ⟨by rw [hk]; exact h.1, fun ho k => (hu k).trans (h.2 ho k)⟩

def cntIp (o : List BTx) (k : Nat) : Nat := (o.filter (fun t => t.ip = k)).length
def cntSrc (o : List BTx) (k : Nat) : Nat := (o.filter (fun t => t.src = k)).length

theorem takeTx_spec (i : Nat) (o : List BTx) (tx : BTx) (rest : List BTx) (h : takeTx i o = some (tx, rest)) :
    (∀ k, cntIp o k = cntIp rest k + (if k = tx.ip then 1 else 0)) ∧
    (∀ k, cntSrc o k = cntSrc rest k + (if k = tx.src then 1 else 0)) ∧ o.length = rest.length + 1 := by
  induction o generalizing rest with
  | nil => simp [takeTx] at h
  | cons t ts ih =>
    unfold takeTx at h
    by_cases ht : t.id = i
    · simp [ht] at h
      obtain ⟨rfl, rfl⟩ := h
      refine ⟨fun k => ?_, fun k => ?_, rfl⟩
      · by_cases e : k = t.ip
        · simp [cntIp, List.filter_cons, e]
        · have e' : ¬ t.ip = k := fun x => e x.symm
          simp [cntIp, List.filter_cons, e, e']
      · by_cases e : k = t.src
        · simp [cntSrc, List.filter_cons, e]
        · have e' : ¬ t.src = k := fun x => e x.symm
          simp [cntSrc, List.filter_cons, e, e']
    · simp only [ht, if_false] at h
      cases hr : takeTx i ts with
      | none => simp [hr] at h
      | some r =>
        simp [hr] at h
        obtain ⟨rfl, rfl⟩ := h
        have := ih r.2 (by simp [hr])
        refine ⟨fun k => ?_, fun k => ?_, by simp [this.2.2]⟩
        · have h1 := this.1 k
          by_cases e : t.ip = k <;> simp [cntIp, List.filter_cons, e] at h1 ⊢ <;> omega
        · have h1 := this.2.1 k
          by_cases e : t.src = k <;> simp [cntSrc, List.filter_cons, e] at h1 ⊢ <;> omega

/-- permits out = transactions open, per scope and key; no release without a permit -/
structure BInv (s : BSt) : Prop where
  ip : TInv s.ip (cntIp s.opens)
  src : TInv s.src (cntSrc s.opens)
  glob : s.glob = s.opens.length
  panics : s.panics = 0

theorem cnt_append_ip (o : List BTx) (t : BTx) (k : Nat) : cntIp (o ++ [t]) k = cntIp o k + (if k = t.ip then 1 else 0) := by
  by_cases e : k = t.ip
  · simp [cntIp, List.filter_append, List.filter_cons, e]
  · have e' : ¬ t.ip = k := fun x => e x.symm
    simp [cntIp, List.filter_append, List.filter_cons, e, e']

theorem cnt_append_src (o : List BTx) (t : BTx) (k : Nat) : cntSrc (o ++ [t]) k = cntSrc o k + (if k = t.src then 1 else 0) := by
  by_cases e : k = t.src
  · simp [cntSrc, List.filter_append, List.filter_cons, e]
  · have e' : ¬ t.src = k := fun x => e x.symm
    simp [cntSrc, List.filter_append, List.filter_cons, e, e']

theorem BInv_step (s : BSt) (op : BOp) (h : BInv s) : BInv (s.step op).1 := by
  cases op with
  | opn i ip src =>
    simp only [BSt.step]
    by_cases hc : s.connected i = true
    · simpa [hc] using h
    · simp only [hc, Bool.false_eq_true, if_false]
      have hip := take_spec s.ip ip _ h.ip
      have hsrc := take_spec s.src src _ h.src
      unfold BSt.takeMsg
      by_cases h1 : (s.ip.take ip).2 = true
      · by_cases h2 : (s.src.take src).2 = true
        · simp only [h1, h2, Bool.not_true, Bool.false_eq_true, if_false, if_true]
          exact ⟨(hip.1 h1).congr (fun k => (cnt_append_ip s.opens ⟨i, ip, src⟩ k).symm),
                 (hsrc.1 h2).congr (fun k => (cnt_append_src s.opens ⟨i, ip, src⟩ k).symm),
                 by simp [h.glob], h.panics⟩
        · have h2' : (s.src.take src).2 = false := by simpa using h2
          have hr := release_spec (s.ip.take ip).1 ip _ (hip.1 h1) (fun _ => by simp)
          simp only [h1, h2', Bool.not_true, Bool.not_false, Bool.false_eq_true, if_false, if_true]
          exact ⟨hr.2.1.congr (fun k => by by_cases e : k = ip <;> simp [e]), hsrc.2.1 h2', h.glob,
                 by simp [hr.1, h.panics]⟩
      · have h1' : (s.ip.take ip).2 = false := by simpa using h1
        simp only [h1', Bool.not_false, if_true, Bool.false_eq_true, if_false]
        exact ⟨hip.2.1 h1', h.src, h.glob, h.panics⟩
  | cls i data rset =>
    simp only [BSt.step]
    cases ht : takeTx i s.opens with
    | none => exact ⟨h.ip, h.src, h.glob, h.panics⟩
    | some r =>
      obtain ⟨tx, rest⟩ := r
      have hs := takeTx_spec i s.opens tx rest ht
      have hrip := release_spec s.ip tx.ip _ h.ip (fun _ => by rw [hs.1]; simp)
      have hrsrc := release_spec s.src tx.src _ h.src (fun _ => by rw [hs.2.1]; simp)
      have hg : (s.glob == 0) = false := by simp [h.glob, hs.2.2]
      simp only [BSt.releaseMsg]
      exact ⟨hrip.2.1.congr (fun k => by rw [hs.1 k]; by_cases e : k = tx.ip <;> simp [e]),
             hrsrc.2.1.congr (fun k => by rw [hs.2.1 k]; by_cases e : k = tx.src <;> simp [e]),
             by simp [h.glob, hs.2.2], by simp [hg, hrip.1, hrsrc.1, h.panics]⟩
  | adv d =>
    simp only [BSt.step]
    exact ⟨advance_spec _ d _ h.ip, advance_spec _ d _ h.src, h.glob, h.panics⟩

theorem C03_buckets_invariant (s : BSt) (ops : List BOp) (h : BInv s) : BInv (s.steps ops) := by
  induction ops generalizing s with
  | nil => exact h
  | cons o os ih => exact ih _ (BInv_step s o h)

/-- Any history over bucket tables of any size and reap interval (empty at the start): permits out = open
transactions per scope and key, and no release ever met a limiter without a permit out. -/
theorem C03_buckets_hold_open_transactions (hasAll ipOn srcOn : Bool) (maxI reapI maxS reapS : Nat) (ops : List BOp) :
    let s := ({ hasAll := hasAll, ip := { on := ipOn, maxB := maxI, reap := reapI },
                src := { on := srcOn, maxB := maxS, reap := reapS } } : BSt).steps ops
    s.panics = 0 ∧ s.glob = s.opens.length ∧
    (s.ip.on = true → ∀ k, s.ip.users k = (s.opens.filter (fun t => t.ip = k)).length) ∧
    (s.src.on = true → ∀ k, s.src.users k = (s.opens.filter (fun t => t.src = k)).length) := by
  intro s
  have h : BInv s := C03_buckets_invariant _ ops
    ⟨⟨by simp [keysOf], fun _ k => rfl⟩, ⟨by simp [keysOf], fun _ k => rfl⟩, rfl, rfl⟩
  exact ⟨h.panics, h.glob, h.ip.2, h.src.2⟩

/-- the reap pass never drops the bucket an open transaction took its permit from -/
theorem C03_bucket_of_open_transaction_survives (s : BSt) (ops : List BOp) (h : BInv s) (tx : BTx)
    (hm : tx ∈ (s.steps ops).opens) (hon : (s.steps ops).ip.on = true) :
    ∃ b ∈ (s.steps ops).ip.m, b.key = tx.ip ∧ 1 ≤ b.users := by
  have hi := (C03_buckets_invariant s ops h).ip
  have h1 : 1 ≤ usersOf tx.ip (s.steps ops).ip.m := by
    rw [hi.2 hon tx.ip]
    exact List.length_pos_iff.mpr (List.ne_nil_of_mem (List.mem_filter.mpr ⟨hm, by simp⟩))
  generalize (s.steps ops).ip.m = m at h1
  induction m with
  | nil => simp [usersOf_nil] at h1
  | cons b bs ih =>
    by_cases hb : b.key = tx.ip
    · by_cases hu : 1 ≤ b.users
      · exact ⟨b, by simp, hb, hu⟩
      · have : 1 ≤ usersOf tx.ip bs := by simp [usersOf_cons, hb] at h1; omega
        obtain ⟨b', hb', h2⟩ := ih this
        exact ⟨b', by simp [hb'], h2⟩
    · have : 1 ≤ usersOf tx.ip bs := by simpa [usersOf_cons, hb] using h1
      obtain ⟨b', hb', h2⟩ := ih this
      exact ⟨b', by simp [hb'], h2⟩

/-- non-vacuity: a holder, a flood over a table of one bucket, time, a reap pass, a second transaction of the
holder's key: both are counted on the one bucket that survived -/
example : (({ hasAll := true, ip := { on := true, maxB := 1, reap := 10 }, src := { on := true, maxB := 1, reap := 10 } } : BSt).steps
    [.opn 0 1 1, .opn 9 7 7, .cls 9 false true, .opn 8 6 6, .adv 15, .opn 7 5 5, .cls 7 false true, .adv 15, .opn 1 1 1]).ip.m
    = [⟨1, 2, 0⟩] := by decide

end Buckets

/-! ## One accepted recipient that stands for several effective addresses (`xAddRcpt`, op lines `C03 x`) -/

section Fan

/-- the second rewriting stage neither loses nor invents an address: the result of the first two stages is exactly
what the source block's modifiers make of EVERY result of the global modifiers -/
theorem C03_fan_stage2_mem (g s : XTab) (a b : XA) :
    b ∈ xStage2 g s a ↔ ∃ c ∈ xLookup g a, b ∈ xLookup s c := by
  simp [xStage2, List.mem_flatMap]

/-- … with multiplicity and in order -/
theorem C03_fan_stage2_length (g s : XTab) (a : XA) :
    (xStage2 g s a).length = ((xLookup g a).map (fun c => (xLookup s c).length)).sum := by
  simp [xStage2, List.length_flatMap]

/-- stages without a table entry leave the recipient alone -/
theorem C03_fan_stage2_untouched (g s : XTab) (a : XA)
    (hg : g.find? (fun e => e.1 == a) = none) (hs : s.find? (fun e => e.1 == a) = none) : xStage2 g s a = [a] := by
  simp [xStage2, xLookup, hg, hs]

theorem xAddEach_mono (m : MailF) (r : RcptF) (tg : List Nat) : ∀ (bs : List XA) (ents : List DEntry) (log : Log),
    EntInv log ents → EntOK log ents →
    EntInv (xAddEach m r tg bs ents log).2.1 (xAddEach m r tg bs ents log).1 ∧
    EntExt ents (xAddEach m r tg bs ents log).1 ∧
    EntOK (xAddEach m r tg bs ents log).2.1 (xAddEach m r tg bs ents log).1 ∧
    ((xAddEach m r tg bs ents log).2.2 = none →
      ∀ b ∈ bs, ∀ k ∈ tg, ∃ e' ∈ (xAddEach m r tg bs ents log).1, e'.tgt = k ∧ (r.uid, b.1) ∈ e'.rcpts) := by
  intro bs
  induction bs with
  | nil => intro ents log h hok; exact ⟨h, EntExt.refl _, hok, by simp [xAddEach]⟩
  | cons b bs ih =>
    intro ents log h hok
    have h1 := (addTargets_spec m (xEff r b) tg ents log h).1
    have h2 := addTargets_mono m (xEff r b) tg ents log h hok
    simp only [xAddEach]
    generalize addTargets m (xEff r b) tg ents log = x at *
    obtain ⟨e1, l1, err⟩ := x
    cases err with
    | some c => exact ⟨h1, h2.1, h2.2.1, by simp⟩
    | none =>
      simp only at h1 h2 ⊢
      obtain ⟨i1, i2, i3, i4⟩ := ih e1 l1 h1 h2.2.1
      refine ⟨i1, EntExt.trans h2.1 i2, i3, ?_⟩
      intro hn b' hb' k hk
      rcases List.mem_cons.mp hb' with hb' | hb'
      · subst hb'
        obtain ⟨e', he', ht, hr⟩ := h2.2.2 trivial k hk
        obtain ⟨e'', he'', ht', _, hr'⟩ := i2 e' he'
        exact ⟨e'', he'', ht'.trans ht, hr' _ hr⟩
      · exact i4 hn b' hb' k hk

theorem xAddEffs_mono (cfg : Cfg) (m : MailF) (r : RcptF) (d : XTab) : ∀ (as : List XA) (ents : List DEntry) (log : Log),
    EntInv log ents → EntOK log ents →
    EntInv (xAddEffs cfg m r d as ents log).2.1 (xAddEffs cfg m r d as ents log).1 ∧
    EntExt ents (xAddEffs cfg m r d as ents log).1 ∧
    EntOK (xAddEffs cfg m r d as ents log).2.1 (xAddEffs cfg m r d as ents log).1 ∧
    ((xAddEffs cfg m r d as ents log).2.2 = none →
      ∀ a ∈ as, a.2 < 3 ∧ targetsOf cfg (cfg.routes a.2) ≠ [] ∧
        ∀ b ∈ xLookup d a, ∀ k ∈ targetsOf cfg (cfg.routes a.2),
          ∃ e' ∈ (xAddEffs cfg m r d as ents log).1, e'.tgt = k ∧ (r.uid, b.1) ∈ e'.rcpts) := by
  intro as
  induction as with
  | nil => intro ents log h hok; exact ⟨h, EntExt.refl _, hok, by simp [xAddEffs]⟩
  | cons a as ih =>
    intro ents log h hok
    simp only [xAddEffs]
    split
    · exact ⟨h, EntExt.refl _, hok, by simp⟩
    · rename_i hj
      split
      · exact ⟨h, EntExt.refl _, hok, by simp⟩
      · rename_i ht
        have h2 := xAddEach_mono m r (targetsOf cfg (cfg.routes a.2)) (xLookup d a) ents log h hok
        generalize xAddEach m r (targetsOf cfg (cfg.routes a.2)) (xLookup d a) ents log = x at *
        obtain ⟨e1, l1, err⟩ := x
        cases err with
        | some c => exact ⟨h2.1, h2.2.1, h2.2.2.1, by simp⟩
        | none =>
          simp only at h2 ⊢
          obtain ⟨i1, i2, i3, i4⟩ := ih e1 l1 h2.1 h2.2.2.1
          refine ⟨i1, EntExt.trans h2.2.1 i2, i3, ?_⟩
          intro hn a' ha'
          rcases List.mem_cons.mp ha' with ha' | ha'
          · subst ha'
            refine ⟨by omega, ht, ?_⟩
            intro b hb k hk
            obtain ⟨e', he', ht', hr⟩ := h2.2.2.2 trivial b hb k hk
            obtain ⟨e'', he'', ht'', _, hr'⟩ := i2 e' he'
            exact ⟨e'', he'', ht''.trans ht', hr' _ hr⟩
          · exact i4 hn a' ha'

/-- **An accepted recipient reaches every target of every address it stands for.**  If `AddRcpt` succeeds (the RCPT
command is answered 250), then for EVERY result `c` of the global modifiers, EVERY result `a` of the source block's
modifiers for `c`, EVERY result `b` of the modifiers of `a`'s destination block and EVERY target `k` of that block,
the delivery object of `k` in this transaction holds the recipient (under its original address) and `AddRcpt ok`
for `b` is in its call log.  Nothing the pipeline held before is lost (`EntExt`), the typestate invariants hold. -/
theorem C03_fan_accepted_recipient_reaches_every_target (cfg : Cfg) (g s d : XTab) (pd : PDel) (r : RcptF) (a0 : XA)
    (log : Log) (h : EntInv log pd.ents) (hok : EntOK log pd.ents) :
    let res := xAddRcpt cfg g s d pd r a0 log
    EntInv res.2.1 res.1.ents ∧ EntExt pd.ents res.1.ents ∧ EntOK res.2.1 res.1.ents ∧
    (res.2.2 = none →
      ∀ c ∈ xLookup g a0, ∀ a ∈ xLookup s c, a.2 < 3 ∧ ∀ b ∈ xLookup d a, ∀ k ∈ targetsOf cfg (cfg.routes a.2),
        ∃ e ∈ res.1.ents, e.tgt = k ∧ (r.uid, b.1) ∈ e.rcpts ∧ Ev.rcpt r.uid b.1 true ∈ evsAt res.2.1 e.idx) := by
  intro res
  have hm := xAddEffs_mono cfg pd.mail r d (xStage2 g s a0) pd.ents log h hok
  refine ⟨hm.1, hm.2.1, hm.2.2.1, ?_⟩
  intro hn c hc a ha
  obtain ⟨hj, _, hall⟩ := hm.2.2.2 hn a ((C03_fan_stage2_mem g s a0 a).mpr ⟨c, hc, ha⟩)
  refine ⟨hj, ?_⟩
  intro b hb k hk
  obtain ⟨e, he, ht, hr⟩ := hall b hb k hk
  exact ⟨e, he, ht, hr, hm.2.2.1.logged e he _ hr⟩

/-- **… and a success reply to the message commits it there.**  Whatever the entries of the pipeline delivery hold
when `Body` and `Commit` both succeed (the final reply of DATA is 250) gets `Body ok, Commit ok` appended to its call
log: together with the theorem above, every target of every effective address of every accepted recipient. -/
theorem C03_fan_success_commits_every_entry (f : DataF) (pd : PDel) (w : World) (h : EntInv w.log pd.ents)
    (hok : EntOK w.log pd.ents) (hb : (pBody f pd w).2 = none) (hc : (pCommit pd (pBody f pd w).1).2 = none) :
    ∀ e ∈ pd.ents, evsAt (pCommit pd (pBody f pd w).1).1.log e.idx = evsAt w.log e.idx ++ [.body true, .commit true] := by
  intro e he
  have h1 := pBody_ok f pd w h hb e he
  have h2 := pCommit_ok pd (pBody f pd w).1 (pBody_spec f pd w h).1 hok.notFailed hc e he
  rw [h2, h1]; simp

/-- non-vacuity: a recipient that stands for three addresses behind two destination blocks -/
example :
    let cfg : Cfg := ⟨false, false, 2, 0, fun j => if j == 0 then 1 else 2⟩
    let r : RcptF := ⟨1000, 1, 0, .plain, .perm, false, false, 0⟩
    let res := xAddRcpt cfg [((1, 0), [(2, 0), (3, 1)])] [((2, 0), [(4, 0), (5, 1)])] [] ⟨MailF.null, []⟩ r (1, 0) []
    res.2.2 = none ∧ res.2.1 = [⟨0, [.rcpt 1000 4 true]⟩, ⟨1, [.rcpt 1000 5 true, .rcpt 1000 3 true]⟩] := by
  decide


theorem xAddEach_spec (m : MailF) (r : RcptF) (tg : List Nat) : ∀ (bs : List XA) (ents : List DEntry) (log : Log),
    EntInv log ents → EntInv (xAddEach m r tg bs ents log).2.1 (xAddEach m r tg bs ents log).1 := by
  intro bs
  induction bs with
  | nil => intro ents log h; exact h
  | cons b bs ih =>
    intro ents log h
    have h1 := (addTargets_spec m (xEff r b) tg ents log h).1
    simp only [xAddEach]
    generalize addTargets m (xEff r b) tg ents log = x at *
    obtain ⟨e1, l1, err⟩ := x
    cases err with
    | some c => exact h1
    | none => exact ih e1 l1 h1

theorem xAddEffs_spec (cfg : Cfg) (m : MailF) (r : RcptF) (d : XTab) : ∀ (as : List XA) (ents : List DEntry) (log : Log),
    EntInv log ents → EntInv (xAddEffs cfg m r d as ents log).2.1 (xAddEffs cfg m r d as ents log).1 := by
  intro as
  induction as with
  | nil => intro ents log h; exact h
  | cons a as ih =>
    intro ents log h
    simp only [xAddEffs]
    split
    · exact h
    · split
      · exact h
      · have h2 := xAddEach_spec m r (targetsOf cfg (cfg.routes a.2)) (xLookup d a) ents log h
        generalize xAddEach m r (targetsOf cfg (cfg.routes a.2)) (xLookup d a) ents log = x at *
        obtain ⟨e1, l1, err⟩ := x
        cases err with
        | some c => exact h2
        | none => exact ih e1 l1 h2

/-! ### whole sessions with such recipients (`xRun`): typestate and permits -/

theorem xSessRcptOn_inv (cfg : Cfg) (g s d : XTab) (w : World) (pd : PDel) (r : RcptF) (a : XA) (h : WInv w)
    (hd : w.sess.delivery = some pd) :
    WInv (xSessRcptOn cfg g s d w pd r a).1 ∧ (xSessRcptOn cfg g s d w pd r a).1.sess.delivery.isSome = true := by
  unfold xSessRcptOn
  have he : EntInv w.log pd.ents := by simpa [curEnts, hd] using h.ent
  have := (xAddEffs_spec cfg pd.mail r d (xStage2 g s a) pd.ents w.log he)
  unfold xAddRcpt
  generalize xAddEffs cfg pd.mail r d (xStage2 g s a) pd.ents w.log = x at *
  obtain ⟨ents', log', err⟩ := x
  simp only at this ⊢
  have hS := h.heldS; have hN := h.heldN
  simp [hd] at hS hN
  cases err with
  | some c =>
    simp only
    exact ⟨⟨by simpa [curEnts] using this, by simp [hS], by simp [hN], h.noPanic⟩, by simp⟩
  | none =>
    simp only
    exact ⟨⟨by simpa [curEnts] using this, by simp [hS], by simp [hN], h.noPanic⟩, by simp⟩

theorem xSessRcpt_inv (cfg : Cfg) (g s d : XTab) (w : World) (r : RcptF) (a : XA) (h : WInv w) :
    WInv (xSessRcpt cfg g s d w r a).1 ∧
    ((xSessRcpt cfg g s d w r a).2 = none → (xSessRcpt cfg g s d w r a).1.sess.delivery.isSome = true) ∧
    (w.sess.delivery.isSome = true → (xSessRcpt cfg g s d w r a).1.sess.delivery.isSome = true) := by
  unfold xSessRcpt
  split
  · rename_i pd hd
    have := xSessRcptOn_inv cfg g s d w pd r a h hd
    exact ⟨this.1, fun _ => this.2, fun _ => this.2⟩
  · rename_i hd
    split
    · exact ⟨h, by simp, by simp [hd]⟩
    · obtain ⟨a1, b, c⟩ := startDelivery_inv w w.sess.mail h hd
      generalize startDelivery w w.sess.mail = x at *
      obtain ⟨w1, res⟩ := x
      cases res with
      | some c1 =>
        simp only
        have hs := (c (by simp)).1
        simp only at hs a1
        refine ⟨⟨by simpa [curEnts, hs, hd] using a1.ent, ?_, ?_, a1.noPanic⟩, by simp, by simp [hd]⟩
        · have := a1.heldS; simp [hs, hd] at this ⊢; exact this
        · have := a1.heldN; simp [hs, hd] at this ⊢; exact this
      | none =>
        simp only
        have hb := b rfl
        simp only at hb a1
        have := xSessRcptOn_inv cfg g s d w1 ⟨w.sess.mail, []⟩ r a a1 hb.1
        exact ⟨this.1, fun _ => this.2, fun _ => this.2⟩

theorem xStep_inv (cfg : Cfg) (g s d : XTab) (st : St) (t : XTok) (h : Inv st) : Inv (xStep cfg g s d st t).1 := by
  cases t with
  | plain t => exact step_inv cfg st t h
  | rcpt r a =>
    unfold xStep
    by_cases hc : st.closed = true
    · simp [hc]; exact h
    · have hc' : st.closed = false := by simpa using hc
      simp only []
      rw [if_neg hc]
      simp only [one]
      split
      · exact h
      · rename_i hf
        have hf' : st.fromReceived = true := by simpa using hf
        have hh' := h.fromHelo hc' hf'
        split
        · exact h
        · obtain ⟨a1, b, c⟩ := xSessRcpt_inv cfg g s d st.w r a h.w
          generalize xSessRcpt cfg g s d st.w r a = x at *
          obtain ⟨w1, res⟩ := x
          cases res with
          | some code =>
            simp only
            exact h.setW w1 a1 c (fun _ => hh')
          | none =>
            simp only
            exact ⟨a1, fun _ _ => b rfl, fun _ => hh', h.fromHelo, h.closedHelo, fun hb => by simp⟩

theorem xRun_inv (cfg : Cfg) (g s d : XTab) : ∀ (toks : List XTok) (st : St), Inv st →
    Inv (xRun cfg g s d st toks).1 ∧ (xRun cfg g s d st toks).1.closed = true := by
  intro toks
  induction toks with
  | nil =>
    intro st h
    simp only [xRun]
    split
    · rename_i hc; exact ⟨h, hc⟩
    · have := connClose_inv st h
      exact ⟨this.1, this.2.1⟩
  | cons t ts ih =>
    intro st h
    simp only [xRun]
    have := ih (xStep cfg g s d st t).1 (xStep_inv cfg g s d st t h)
    generalize xStep cfg g s d st t = x at *
    obtain ⟨st1, o⟩ := x
    simp only at this ⊢
    generalize xRun cfg g s d st1 ts = y at *
    obtain ⟨st2, os⟩ := y
    exact this

theorem xFinal_all_closed (cfg : Cfg) (g s d : XTab) (oracle : List (List Nat)) (toks : List XTok) :
    ∀ dl ∈ (xRun cfg g s d (start oracle) toks).1.w.log, ClosedOK dl := by
  obtain ⟨hinv, hcl⟩ := xRun_inv cfg g s d toks (start oracle) (Inv.init oracle)
  have hh := hinv.closedHelo hcl
  have hd := not_isSome_of_not_helo hinv hh
  intro dl hm
  obtain ⟨i, hi, hget⟩ := List.getElem_of_mem hm
  have := hinv.w.ent.inv i dl (by rw [List.getElem?_eq_getElem hi, hget])
  simpa [curEnts, hd, eidx] using this

/-- **Closed exactly once, nothing after the closing call** - for every session (any command list) whose recipients
stand for any number of effective addresses, whatever the three rewriting tables are: every delivery object any
target handed out for any of those addresses has exactly one closing call, and it is its last call. -/
theorem C03_fan_closed_exactly_once_by_session_end (cfg : Cfg) (g s d : XTab) (oracle : List (List Nat)) (toks : List XTok) :
    ∀ dl ∈ (xRun cfg g s d (start oracle) toks).1.w.log,
      dl.evs.countP Ev.isClose = 1 ∧ ∀ pre e post, dl.evs = pre ++ e :: post → e.isClose = true → post = [] :=
  fun dl hm => ⟨(xFinal_all_closed cfg g s d oracle toks dl hm).count,
    fun pre e post => (xFinal_all_closed cfg g s d oracle toks dl hm).last pre e post⟩

/-- **Permits** of such sessions: all returned, none released twice -/
theorem C03_fan_permits_balanced (cfg : Cfg) (g s d : XTab) (oracle : List (List Nat)) (toks : List XTok) :
    (xRun cfg g s d (start oracle) toks).1.w.heldSrc = 0 ∧ (xRun cfg g s d (start oracle) toks).1.w.heldNull = 0 ∧
    (xRun cfg g s d (start oracle) toks).1.w.panics = 0 := by
  obtain ⟨hinv, hcl⟩ := xRun_inv cfg g s d toks (start oracle) (Inv.init oracle)
  have hd := not_isSome_of_not_helo hinv (hinv.closedHelo hcl)
  have hS := hinv.w.heldS; have hN := hinv.w.heldN
  simp [hd] at hS hN
  exact ⟨hS, hN, hinv.w.noPanic⟩

end Fan


/-! ## The failure kept for a deferred MAIL belongs to its own transaction (fix c94200c) -/

/-- `Session.Reset` leaves no kept failure behind, whether a delivery was open or not: the RCPT commands of the next
transaction are answered for their own MAIL -/
theorem C03_reset_drops_deferred_failure (w : World) : (sessReset w).sess.deliveryErr = none := by
  unfold sessReset
  split
  · rename_i pd _; rw [sessAbort_sess]
  · rfl

/-- a MAIL that is accepted in deferred mode (go-smtp accepts MAIL again without RSET) drops the failure kept for
the MAIL before it -/
theorem C03_deferred_mail_drops_kept_failure (cfg : Cfg) (w : World) (m : MailF) (hd : cfg.deferred = true)
    (hn : w.sess.delivery = none) : (sessMail cfg w m).1.sess.deliveryErr = none ∧ (sessMail cfg w m).2 = none := by
  simp [sessMail, hn, hd]

/-- non-vacuity: a deferred MAIL whose start fails (RCPT answered 412), RSET, a clean MAIL: its RCPT is accepted -/
example :
    let cfg : Cfg := ⟨false, true, 1, 0, fun _ => 1⟩
    let bad : MailF := ⟨.ascii, .temp, false, true, false, false, 0, 0, 0⟩
    let good : MailF := ⟨.ascii, .perm, false, false, false, false, 0, 0, 0⟩
    let r : RcptF := ⟨1, 1, 0, .plain, .perm, false, false, 0⟩
    (run cfg (start []) [.greet, .mail bad, .rcpt r, .rset, .mail good, .rcpt r]).2 =
      [.codes [250], .codes [250], .codes [412], .codes [250], .codes [250], .codes [250]] := by
  decide

end MaddyVerif.C03
