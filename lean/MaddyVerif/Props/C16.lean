import MaddyVerif.Model.Errors
import MaddyVerif.Model.ErrorsNextHop
import MaddyVerif.Model.ErrorsQueueHist
import MaddyVerif.Model.ErrorsOwn
import MaddyVerif.Model.ErrorsChecks
import MaddyVerif.Generated.SmtpLits
import MaddyVerif.Expect.SmtpLits
/-!
# C16 — error replies are coherent

Property theorems only. Quantifier: **all** error values (any nesting depth).
-/
namespace MaddyVerif.C16
open MaddyVerif.Errors

/-- Under `LeavesCoherent`, code and enhanced-code annotation come from the same node. -/
theorem fields_same_node (e : Err) (h : LeavesCoherent e) :
    (codeField e = none ∧ enchField e = none) ∨
    (∃ c en, codeField e = some c ∧ enchField e = some en ∧ annOk c en = true) := by
  induction e with
  | plain => simp [codeField, enchField]
  | deadline => simp [codeField, enchField]
  | net t => simp [codeField, enchField]
  | smtp code en m => right; exact ⟨code, en, rfl, rfl, by simpa [LeavesCoherent] using h⟩
  | smtpWrap code en m inner ih =>
    right; simp [LeavesCoherent] at h; exact ⟨code, en, rfl, rfl, h.1⟩
  | withTemp t i ih => simpa [codeField, enchField, LeavesCoherent] using ih h
  | withFields c en m i ih =>
    cases c <;> cases en <;> simp [LeavesCoherent] at h
    · simpa [codeField, enchField] using ih h
    · right; exact ⟨_, _, rfl, rfl, h.1⟩
  | rawSmtp code en m => simp [codeField, enchField]

theorem annOk_cases {c : Nat} {en : Ench} (h : annOk c en = true) :
    (notSet en = false ∧ en.cls = c / 100 ∧ (en.cls = 4 ∨ en.cls = 5)) ∨
    (notSet en = true ∧ (c / 100 = 4 ∨ c / 100 = 5)) := by
  unfold annOk pairOk at h
  by_cases hn : notSet en = true
  · right; refine ⟨hn, ?_⟩
    simp [hn] at h
    rcases h with h | h
    · unfold notSet at hn; simp at hn; omega
    · exact h
  · left
    simp [hn] at h
    exact ⟨by simpa using hn, h.1, h.2⟩

/-- the same split by what `toSMTPErr` looks at since fix 9efcd5b: the class of the enhanced code -/
theorem annOk_cls_cases {c : Nat} {en : Ench} (h : annOk c en = true) :
    ((en.cls == 0) = false ∧ en.cls = c / 100 ∧ (en.cls = 4 ∨ en.cls = 5)) ∨
    ((en.cls == 0) = true ∧ (c / 100 = 4 ∨ c / 100 = 5)) := by
  rcases annOk_cases h with ⟨_, h1, h2⟩ | ⟨hn, h2⟩
  · left; refine ⟨?_, h1, h2⟩
    rcases h2 with h2 | h2 <;> simp [h2]
  · right; refine ⟨?_, h2⟩
    unfold notSet at hn; simp at hn; simp [hn.1]

/-- On the wire an annotation that is `annOk` is coherent (go-smtp fills in class.0.0 when the
enhanced code is unset). -/
theorem coherent_of_annOk {c : Nat} {en : Ench} {m : Msg} (h : annOk c en = true) :
    Coherent ⟨c, some en, m⟩ := by
  rcases annOk_cases h with ⟨hn, h1, h2⟩ | ⟨hn, h2⟩
  · exact ⟨en, by simp [wireEnch, hn], h1, h2⟩
  · rcases h2 with h2 | h2
    · exact ⟨⟨4, 0, 0⟩, by simp [wireEnch, hn, h2], by simp [h2], by simp⟩
    · exact ⟨⟨5, 0, 0⟩, by simp [wireEnch, hn, h2], by simp [h2], by simp⟩

theorem coherent_notset_451 (m : Msg) : Coherent ⟨451, none, m⟩ := ⟨⟨4,0,0⟩, by simp [wireEnch], by simp, by simp⟩
theorem coherent_notset_554 (m : Msg) : Coherent ⟨554, none, m⟩ := ⟨⟨5,0,0⟩, by simp [wireEnch], by simp, by simp⟩
theorem coherent_451_400 (m : Msg) : Coherent ⟨451, some ⟨4,0,0⟩, m⟩ := ⟨⟨4,0,0⟩, by simp [wireEnch, notSet], by simp, by simp⟩
theorem coherent_554_500 (m : Msg) : Coherent ⟨554, some ⟨5,0,0⟩, m⟩ := ⟨⟨5,0,0⟩, by simp [wireEnch, notSet], by simp, by simp⟩

theorem coherent_msg_irrel {c : Nat} {en : Option Ench} {m m' : Msg} (h : Coherent ⟨c, en, m⟩) :
    Coherent ⟨c, en, m'⟩ := by
  obtain ⟨e, h1, h2⟩ := h
  exact ⟨e, by simpa [wireEnch] using h1, h2⟩

/-- shape of `wrapErr` away from the deadline and plain-go-smtp-error branches -/
theorem wrapErr_false_shape (e : Err) (hd : hasDeadline e = false)
    (hr : ∀ c en m, e ≠ .rawSmtp c en m) :
    wrapErr false e = ⟨(codeField e).getD (if isTemporary e then 451 else 554), enchField e,
      msgOf (msgField e)⟩ := by
  unfold wrapErr
  cases e <;> simp_all

theorem wrapErr_mangle (e : Err) :
    wrapErr true e = { wrapErr false e with msg := mangleMsg (wrapErr false e).msg } := by
  unfold wrapErr; by_cases hd : hasDeadline e = true <;> simp [hd, mangleMsg]

/-- **C16 (endpoint).** Every reply `wrapErr` produces for a value whose annotations are
class-coherent has basic and enhanced code of the same class (4 or 5) on the wire. -/
theorem C16_endpoint_reply_classes_agree (mang : Bool) (e : Err) (h : LeavesCoherent e) :
    Coherent (wrapErr mang e) := by
  have key : Coherent (wrapErr false e) := by
    by_cases hd : hasDeadline e = true
    · unfold wrapErr; simp [hd]; exact ⟨⟨4,4,5⟩, by simp [wireEnch, notSet], by simp, by simp⟩
    · have hd' : hasDeadline e = false := by simpa using hd
      by_cases hraw : ∃ c en m, e = .rawSmtp c en m
      · obtain ⟨c, en, m, rfl⟩ := hraw
        unfold wrapErr; simp [hasDeadline]
        exact coherent_of_annOk (by simpa [LeavesCoherent] using h)
      · have hr : ∀ c en m, e ≠ .rawSmtp c en m := by
          intro c en m he; exact hraw ⟨c, en, m, he⟩
        rw [wrapErr_false_shape e hd' hr]
        rcases fields_same_node _ h with ⟨h1, h2⟩ | ⟨c, en, h1, h2, h3⟩
        · simp only [h1, h2, Option.getD_none]
          by_cases ht : isTemporary e = true
          · simp [ht]; exact coherent_notset_451 _
          · simp [ht]; exact coherent_notset_554 _
        · simp only [h1, h2, Option.getD_some]; exact coherent_of_annOk h3
  cases mang with
  | false => exact key
  | true => rw [wrapErr_mangle]; exact coherent_msg_irrel key

theorem toSMTPErr_shape (e : Err) (hr : ∀ c en m, e ≠ .rawSmtp c en m) :
    toSMTPErr e = ⟨(codeField e).getD (if isTemporaryOrUnspec e then 451 else 554),
      some (pickEnch (enchField e) (if isTemporaryOrUnspec e then ⟨4,0,0⟩ else ⟨5,0,0⟩)),
      msgOf (msgField e)⟩ := by
  unfold toSMTPErr
  cases e <;> simp_all

theorem toSMTPErr_code (e : Err) (hr : ∀ c en m, e ≠ .rawSmtp c en m) :
    (toSMTPErr e).code = (codeField e).getD (if isTemporaryOrUnspec e then 451 else 554) := by
  rw [toSMTPErr_shape e hr]

theorem pairOk_cases {c : Nat} {en : Ench} (h : pairOk c en = true) :
    en.cls = c / 100 ∧ (en.cls = 4 ∨ en.cls = 5) := by
  simp [pairOk] at h; exact h

/-- **C16 (queue record).** The error the queue stores per recipient (and prints in failure
reports) carries an enhanced code of the same class as its basic code — as stored, with nothing
filling in a missing code. (`MarkersAgree` is used only for annotations whose enhanced code is
unset — e.g. the relayed reply of a server that sends none — where the class of the stored
enhanced code comes from the temporariness.) -/
theorem C16_queue_record_classes_agree (e : Err) (h : LeavesCoherent e) (hm : MarkersAgree e) :
    StoredCoherent (toSMTPErr e) := by
  by_cases hraw : ∃ c en m, e = .rawSmtp c en m
  · obtain ⟨c, en, m, rfl⟩ := hraw
    have h3 : annOk c en = true := by simpa [LeavesCoherent] using h
    unfold toSMTPErr; simp only [pickEnch]
    rcases annOk_cls_cases h3 with ⟨hn, h4, h5⟩ | ⟨hn, h5⟩
    · simp only [hn, Bool.false_eq_true, ↓reduceIte]
      exact ⟨en, rfl, h4, h5⟩
    · simp only [hn, ↓reduceIte]
      have hq : isTemporaryOrUnspec (.rawSmtp c en m) = (c / 100 == 4) := by
        simp [isTemporaryOrUnspec, tempOf]
      rw [hq]
      rcases h5 with h5 | h5
      · simp [h5]; exact ⟨⟨4,0,0⟩, rfl, by simp [h5], by simp⟩
      · simp [h5]; exact ⟨⟨5,0,0⟩, rfl, by simp [h5], by simp⟩
  · have hr : ∀ c en m, e ≠ .rawSmtp c en m := by
      intro c en m he; exact hraw ⟨c, en, m, he⟩
    rw [toSMTPErr_shape e hr]
    rcases fields_same_node _ h with ⟨h1, h2⟩ | ⟨c, en, h1, h2, h3⟩
    · simp only [h1, h2, Option.getD_none, pickEnch]
      by_cases ht : isTemporaryOrUnspec e = true
      · simp [ht]; exact ⟨⟨4,0,0⟩, rfl, by simp, by simp⟩
      · simp [ht]; exact ⟨⟨5,0,0⟩, rfl, by simp, by simp⟩
    · simp only [h1, h2, Option.getD_some, pickEnch]
      rcases annOk_cls_cases h3 with ⟨hn, h4, h5⟩ | ⟨hn, h5⟩
      · simp only [hn, Bool.false_eq_true, ↓reduceIte]
        exact ⟨en, rfl, h4, h5⟩
      · simp only [hn, ↓reduceIte]
        have ht := hm c h1
        have hq : isTemporaryOrUnspec e = (c / 100 == 4) := by simp [isTemporaryOrUnspec, ht]
        rw [hq]
        rcases h5 with h5 | h5
        · simp [h5]; exact ⟨⟨4,0,0⟩, rfl, by simp [h5], by simp⟩
        · simp [h5]; exact ⟨⟨5,0,0⟩, rfl, by simp [h5], by simp⟩

/-- **C16 (class ⇔ retry).** For every value whose markers agree with its annotations, the
queue retries the failure exactly when the code it records is 4yz, and does not retry it
exactly when the recorded code is 5yz. -/
theorem C16_class_matches_retry (e : Err) (h : LeavesCoherent e) (hm : MarkersAgree e) :
    (queueRetries e = true ↔ (toSMTPErr e).code / 100 = 4) ∧
    (queueRetries e = false ↔ (toSMTPErr e).code / 100 = 5) := by
  have hco := C16_queue_record_classes_agree e h hm
  obtain ⟨en, _, h2, h3⟩ := hco
  have hcls : (toSMTPErr e).code / 100 = 4 ∨ (toSMTPErr e).code / 100 = 5 := by omega
  suffices hs : queueRetries e = true ↔ (toSMTPErr e).code / 100 = 4 by
    refine ⟨hs, ?_⟩
    constructor
    · intro hf
      rcases hcls with h4 | h5
      · rw [hs.mpr h4] at hf; cases hf
      · exact h5
    · intro h5
      cases hq : queueRetries e with
      | false => rfl
      | true => have := hs.mp hq; omega
  unfold queueRetries
  by_cases hraw : ∃ c en m, e = .rawSmtp c en m
  · obtain ⟨c, en, m, rfl⟩ := hraw
    simp [toSMTPErr, isTemporaryOrUnspec, tempOf]
  · have hr : ∀ c en m, e ≠ .rawSmtp c en m := by
      intro c en m he; exact hraw ⟨c, en, m, he⟩
    rw [toSMTPErr_code e hr]
    cases hc : codeField e with
    | none =>
      by_cases ht : isTemporaryOrUnspec e = true <;> simp [ht]
    | some c =>
      have := hm c hc
      simp [isTemporaryOrUnspec, this]

theorem wrapErr_code (mang : Bool) (e : Err) (hd : hasDeadline e = false)
    (hr : ∀ c en m, e ≠ .rawSmtp c en m) :
    (wrapErr mang e).code = (codeField e).getD (if isTemporary e then 451 else 554) := by
  cases mang
  · rw [wrapErr_false_shape e hd hr]
  · rw [wrapErr_mangle, wrapErr_false_shape e hd hr]

/-- **C16 (endpoint class).** A failure classified temporary is answered 4yz; one classified
permanent is answered 5yz (unless the deadline branch answers 451 first). -/
theorem C16_endpoint_class_matches_temporariness (mang : Bool) (e : Err)
    (h : LeavesCoherent e) (hm : MarkersAgree e) :
    (isTemporary e = true → (wrapErr mang e).code / 100 = 4) ∧
    (tempOf e = some false → hasDeadline e = false → (wrapErr mang e).code / 100 = 5) := by
  have hco := C16_endpoint_reply_classes_agree mang e h
  obtain ⟨en, _, h2, h3⟩ := hco
  have hcls : (wrapErr mang e).code / 100 = 4 ∨ (wrapErr mang e).code / 100 = 5 := by omega
  have key : hasDeadline e = false →
      ((wrapErr mang e).code / 100 = 4 ↔ isTemporary e = true) := by
    intro hd
    by_cases hraw : ∃ c en m, e = .rawSmtp c en m
    · obtain ⟨c, en, m, rfl⟩ := hraw
      cases mang <;> simp [wrapErr, hasDeadline, isTemporary, tempOf]
    · have hr : ∀ c en m, e ≠ .rawSmtp c en m := by
        intro c en m he; exact hraw ⟨c, en, m, he⟩
      rw [wrapErr_code mang e hd hr]
      cases hc : codeField e with
      | none => by_cases ht : isTemporary e = true <;> simp [ht]
      | some c => have := hm c hc; simp [isTemporary, this]
  constructor
  · intro ht
    by_cases hd : hasDeadline e = true
    · unfold wrapErr; cases mang <;> simp [hd]
    · exact (key (by simpa using hd)).mpr ht
  · intro ht hd
    have hk := key hd
    rcases hcls with h4 | h5
    · have := hk.mp h4; simp [isTemporary, ht] at this
    · exact h5

/-- **C16 (no disclosure).** A failure without an SMTP message annotation is reported with a
constant generic text by both conversions. -/
theorem C16_unannotated_is_generic (mang : Bool) (e : Err) (h : msgField e = none)
    (hr : ∀ c en m, e ≠ .rawSmtp c en m) :
    ((wrapErr mang e).msg = .generic ∨ (wrapErr mang e).msg = .highLoad) ∧
    (toSMTPErr e).msg = .generic := by
  constructor
  · unfold wrapErr
    by_cases hd : hasDeadline e = true
    · simp [hd]
    · cases e <;> cases mang <;> simp_all [mangleMsg, msgOf]
  · unfold toSMTPErr
    cases e <;> simp_all [msgOf]

theorem mangle_ascii (cps : List Nat) : ∀ ch ∈ mangle cps, ch < 128 := by
  intro ch hch
  simp [mangle] at hch
  obtain ⟨a, _, rfl⟩ := hch
  split <;> omega

/-- **C16 (ASCII replies).** A reply to a client that did not negotiate SMTPUTF8 contains only
code points below U+0080, whatever the error value. -/
theorem C16_non_utf8_reply_is_ascii (e : Err) :
    match (wrapErr true e).msg with
    | .text cps => ∀ ch ∈ cps, ch < 128
    | _ => True := by
  have : (wrapErr true e).msg = mangleMsg (wrapErr false e).msg := by
    unfold wrapErr; by_cases hd : hasDeadline e = true <;> simp [hd, mangleMsg]
  rw [this]
  cases (wrapErr false e).msg <;> simp [mangleMsg]
  exact mangle_ascii _

/-- **C16 (helpers).** A literal built as `{Code: SMTPCode(err,t,p), EnhancedCode:
SMTPEnchCode(err,{_,s,d})}` is coherent for every `err` as soon as `t` is 4yz and `p` is 5yz. -/
theorem C16_helper_pair_coherent (e : Err) (t p : Nat) (c : Ench)
    (ht : t / 100 = 4) (hp : p / 100 = 5) :
    pairOk (smtpCode e t p) (smtpEnchCode e c) = true := by
  unfold smtpCode smtpEnchCode pairOk
  by_cases h : isTemporary e = true <;> simp [h, ht, hp]

/-! ## The regenerated literal table (finite quantifier: every SMTP error literal in the tree) -/

open MaddyVerif.Generated in
/-- **C16 (literals).** Every `SMTPError{Code: c, EnhancedCode: {a,s,d}}` literal with constant
codes in the current source tree is class-coherent. Finite table, decided by the kernel. -/
theorem C16_all_const_literals_coherent :
    ∀ l ∈ SmtpLits.constLits, pairOk l.2.2.1 ⟨l.2.2.2.1, l.2.2.2.2.1, l.2.2.2.2.2⟩ = true := by
  decide +kernel

open MaddyVerif.Generated in
/-- Literals without an enhanced code have a 4yz/5yz basic code, so go-smtp derives X.0.0. -/
theorem C16_notset_literals_have_class :
    ∀ l ∈ SmtpLits.notSetLits, (l.2.2 / 100 = 4 ∨ l.2.2 / 100 = 5) := by
  decide +kernel

open MaddyVerif.Generated in
/-- Every helper-built literal in the tree passes a 4yz temporary and a 5yz permanent code, so
(by `C16_helper_pair_coherent`) it is coherent for every error value. -/
theorem C16_all_helper_literals_coherent (e : Err) :
    ∀ l ∈ SmtpLits.helperLits,
      pairOk (smtpCode e l.2.2.1 l.2.2.2.1) (smtpEnchCode e ⟨0, l.2.2.2.2.1, l.2.2.2.2.2⟩) = true := by
  have h : ∀ l ∈ SmtpLits.helperLits, l.2.2.1 / 100 = 4 ∧ l.2.2.2.1 / 100 = 5 := by decide +kernel
  intro l hl
  exact C16_helper_pair_coherent e _ _ _ (h l hl).1 (h l hl).2

open MaddyVerif.Generated in
/-- The literals whose codes are computed at run time are exactly the explained ones. -/
theorem C16_dynamic_literals_are_the_explained_ones :
    SmtpLits.dynamicLits = MaddyVerif.Expect.SmtpLits.dynamicLits := by
  decide +kernel

open MaddyVerif.Generated in
/-- No other statement of the tree adjusts the Code / EnhancedCode of an error value after it was built than
the explained ones (an adjustment of only one of the two codes is how a coherent literal goes wrong). -/
theorem C16_code_field_writes_are_the_explained_ones :
    SmtpLits.fieldWrites = MaddyVerif.Expect.SmtpLits.fieldWrites := by
  decide +kernel

/-- **C16 (reject directive).** Whatever the `reject` directive's arguments, an accepted directive
with at most a basic code yields a coherent pair (in the pipeline's own parser: when that code is
5yz — see `C16_pipeline_reject_4yz_counterexample`); with an explicit enhanced code it is
coherent exactly when the administrator wrote codes of the same class. -/
theorem C16_reject_directive_coherent (derive : Bool) (a : RejectArgs) (c : Nat) (e : Ench)
    (h : parseReject derive a = some (c, e)) :
    (a.nargs ≤ 1 → (derive = true ∨ c / 100 = 5) → pairOk c e = true) ∧
    (a.nargs ≥ 2 → (pairOk c e = true ↔ e.cls = c / 100)) := by
  unfold parseReject at h
  split at h; · cases h
  split at h; · cases h
  split at h
  · rename_i h0; simp at h; obtain ⟨rfl, rfl⟩ := h
    simp at h0; simp [h0, pairOk]
  · rename_i h0
    by_cases h2 : a.nargs ≥ 2
    · simp only [h2, ↓reduceIte] at h
      cases he : a.ench with
      | none => simp [he] at h
      | some en =>
        simp only [he] at h
        by_cases hcls : (en.cls == 4 || en.cls == 5) = true
        · simp only [hcls, ↓reduceIte] at h
          cases hc : a.code with
          | none => simp [hc] at h
          | some cc =>
            simp only [hc] at h
            by_cases hcc : (cc / 100 == 4 || cc / 100 == 5) = true
            · simp only [hcc, ↓reduceIte] at h
              simp at h; obtain ⟨rfl, rfl⟩ := h
              constructor
              · intro hle; omega
              · intro _
                simp at hcls hcc
                simp [pairOk]
                intro _; exact hcls
            · simp [hcc] at h
        · simp [hcls] at h
    · simp only [h2, ↓reduceIte] at h
      cases hc : a.code with
      | none => simp [hc] at h
      | some cc =>
        simp only [hc] at h
        by_cases hcc : (cc / 100 == 4 || cc / 100 == 5) = true
        · simp only [hcc, ↓reduceIte] at h
          simp at h; obtain ⟨rfl, rfl⟩ := h
          constructor
          · intro _ hd; simp at hcc
            rcases hd with hd | hd
            · simp [pairOk, hd]; exact hcc
            · cases derive <;> simp [pairOk, hd]
          · intro hge; omega
        · simp [hcc] at h

/-- Known finding (not repaired: the repository's TestMsgPipelineCfg pins this output): the
pipeline's `reject 450` is accepted and answers 450 with 5.7.0. -/
theorem C16_pipeline_reject_4yz_counterexample :
    parseReject false ⟨1, some 450, none, false⟩ = some (450, ⟨5, 7, 0⟩) ∧
    pairOk 450 ⟨5, 7, 0⟩ = false := by decide

/-- **C16 (milter reply).** A 4yz/5yz reply code dictated by a milter is relayed with an enhanced
code of the same class. -/
theorem C16_milter_reply_coherent (code : Nat) (h : code / 100 = 4 ∨ code / 100 = 5) :
    pairOk (milterReply code).1 (milterReply code).2 = true := by
  simp [milterReply, pairOk]; exact h

/-! ## Non-vacuity: concrete values meeting the hypotheses -/

def sample1 : Err := .withFields none none none (.withTemp true (.smtpWrap 450 ⟨4,4,2⟩ [104,105] .plain))
example : LeavesCoherent sample1 ∧ MarkersAgree sample1 := by
  constructor
  · simp [sample1, LeavesCoherent, annOk, pairOk]
  · intro c hc; simp [sample1, codeField] at hc; subst hc; simp [sample1, tempOf]
example : wrapErr true sample1 = ⟨450, some ⟨4,4,2⟩, .text [104,105]⟩ := by decide
example : queueRetries sample1 = true := by decide

/-- The hypothesis `MarkersAgree` is needed: a temporary marker around a 5yz-annotated error is
retried although it is recorded as 5yz (maddy never builds such a value). -/
theorem C16_marker_disagreement_breaks_retry_class :
    LeavesCoherent (Err.withTemp true (.smtp 550 ⟨5,1,1⟩ [])) ∧
    queueRetries (Err.withTemp true (.smtp 550 ⟨5,1,1⟩ [])) = true ∧
    (toSMTPErr (Err.withTemp true (.smtp 550 ⟨5,1,1⟩ []))).code / 100 = 5 := by
  refine ⟨by simp [LeavesCoherent, annOk, pairOk], by decide, by decide⟩

/-! ## Failures of the next hop: `smtpconn.wrapClientErr`, the MX loop of `remote.newConn`,
`multipleErrs` (strengthening round 3) -/

/-- Everything C16 asks of ONE failure value: the reply to a client is class-coherent, so is the
record of the queue, and the queue retries it exactly when it records 4yz. -/
def Good (e : Err) : Prop :=
  (∀ mang, Coherent (wrapErr mang e)) ∧ StoredCoherent (toSMTPErr e) ∧
  (queueRetries e = true ↔ (toSMTPErr e).code / 100 = 4) ∧
  (queueRetries e = false ↔ (toSMTPErr e).code / 100 = 5)

theorem good_of_wellformed (e : Err) (h : LeavesCoherent e) (hm : MarkersAgree e) : Good e :=
  ⟨fun mang => C16_endpoint_reply_classes_agree mang e h, C16_queue_record_classes_agree e h hm,
   (C16_class_matches_retry e h hm).1, (C16_class_matches_retry e h hm).2⟩

/-- A value whose OUTERMOST node is an `annOk` SMTP annotation is good whatever it wraps. -/
theorem good_of_top_annotated (c : Nat) (en : Ench) (m : List Nat) (i : Err)
    (h : annOk c en = true) : Good (.smtpWrap c en m i) := by
  have hcls : c / 100 = 4 ∨ c / 100 = 5 := by
    rcases annOk_cases h with ⟨_, h1, h2⟩ | ⟨_, h2⟩
    · omega
    · exact h2
  refine ⟨?_, ?_, ?_, ?_⟩
  · intro mang
    by_cases hd : hasDeadline i = true
    · have : wrapErr mang (.smtpWrap c en m i) = ⟨451, some ⟨4, 4, 5⟩, .highLoad⟩ := by
        cases mang <;> simp [wrapErr, hasDeadline, hd]
      rw [this]; exact ⟨⟨4,4,5⟩, by simp [wireEnch, notSet], by simp, by simp⟩
    · have hd' : hasDeadline i = false := by simpa using hd
      have : ∃ mm, wrapErr mang (.smtpWrap c en m i) = ⟨c, some en, mm⟩ := by
        cases mang
        · exact ⟨_, by simp [wrapErr, hasDeadline, hd', codeField, enchField, msgField, msgOf]; rfl⟩
        · exact ⟨_, by simp [wrapErr, hasDeadline, hd', codeField, enchField, msgField, msgOf]; rfl⟩
      obtain ⟨mm, hw⟩ := this
      rw [hw]; exact coherent_of_annOk h
  · have hshape : toSMTPErr (.smtpWrap c en m i) =
        ⟨c, some (pickEnch (some en) (if c / 100 == 4 then ⟨4,0,0⟩ else ⟨5,0,0⟩)), .text m⟩ := by
      simp [toSMTPErr, codeField, enchField, msgField, msgOf, isTemporaryOrUnspec, tempOf]
    rw [hshape]
    rcases annOk_cls_cases h with ⟨hn, h1, h2⟩ | ⟨hn, h2⟩
    · simp only [pickEnch, hn, Bool.false_eq_true, ↓reduceIte]; exact ⟨en, rfl, h1, h2⟩
    · simp only [pickEnch, hn, ↓reduceIte]
      rcases h2 with h2 | h2
      · simp [h2]; exact ⟨⟨4,0,0⟩, rfl, by simp [h2], by simp⟩
      · simp [h2]; exact ⟨⟨5,0,0⟩, rfl, by simp [h2], by simp⟩
  · simp [queueRetries, toSMTPErr, codeField, isTemporaryOrUnspec, tempOf]
  · simp [queueRetries, toSMTPErr, codeField, isTemporaryOrUnspec, tempOf]; omega

theorem annOk_of_pairOk {c : Nat} {en : Ench} (h : pairOk c en = true) : annOk c en = true := by
  simp [annOk, h]

theorem markersAgree_transparent {e : Err} (h : MarkersAgree e) : MarkersAgree (transparent e) := by
  intro c hc
  simpa [transparent, tempOf] using h c (by simpa [transparent, codeField] using hc)

theorem good_transparent {e : Err} (h : LeavesCoherent e) (hm : MarkersAgree e) :
    Good (transparent e) :=
  good_of_wellformed _ (by simpa [transparent, LeavesCoherent] using h) (markersAgree_transparent hm)

/-- The 552 → 452 rewrite keeps a relayed reply class-coherent: the class of the enhanced code
follows the basic code. -/
theorem rewrite552_annOk {c : Nat} {en : Ench} (h : annOk c en = true) :
    annOk (rewrite552 c en).1 (rewrite552 c en).2 = true := by
  unfold rewrite552
  by_cases hc : (c == 552) = true
  · simp only [hc, ↓reduceIte]
    simp [annOk, pairOk]
  · simp only [hc, Bool.false_eq_true, ↓reduceIte]; exact h

/-- **C16 (next hop, any client error).** Whatever the SMTP client reported — a reply (any basic
code, with or without enhanced code, 552 included), a network or DNS error, a TLS failure, any other
value — the failure `wrapClientErr` makes of it is answered and recorded with codes of one class and
retried exactly when that class is 4.  Hypothesis: a RELAYED reply is itself class-coherent. -/
theorem C16_next_hop_failure_coherent (addr : Bool) (server : List Nat) (x : ClientErr)
    (h : ClientOk x) : Good (wrapClientErr addr server x) := by
  cases x with
  | tls i => exact good_transparent h.1 h.2
  | op dns t i =>
    cases dns
    · exact good_of_top_annotated _ _ _ _ (by decide)
    · exact good_of_top_annotated _ _ _ _
        (annOk_of_pairOk (C16_helper_pair_coherent _ 450 550 ⟨0, 4, 4⟩ rfl rfl))
  | val e =>
    obtain ⟨h1, h2⟩ := h
    cases e with
    | plain => exact good_transparent h1 h2
    | deadline => exact good_transparent h1 h2
    | net t => exact good_transparent h1 h2
    | smtp c en m => exact good_of_wellformed _ h1 h2
    | smtpWrap c en m i => exact good_of_wellformed _ h1 h2
    | withTemp t i => exact good_transparent h1 h2
    | withFields c en m i => exact good_transparent h1 h2
    | rawSmtp c en m =>
      exact good_of_top_annotated _ _ _ _ (rewrite552_annOk (by simpa [LeavesCoherent] using h1))

/-- **C16 (relayed reply).** The instance the property is about: every class-coherent reply of a
next hop, for all basic codes, enhanced codes (or none), texts, with and without the server name
in the text. -/
theorem C16_relayed_reply_coherent (addr : Bool) (server : List Nat) (c : Nat) (en : Ench)
    (m : List Nat) (h : annOk c en = true) :
    Good (wrapClientErr addr server (.val (.rawSmtp c en m))) :=
  C16_next_hop_failure_coherent addr server _
    ⟨by simpa [LeavesCoherent] using h, by intro c' hc; simp [codeField] at hc⟩

/-- The rewritten reply is what is kept as the cause, too (the code rewrites in place). -/
theorem C16_rewrite_552_is_452 (addr : Bool) (server : List Nat) (en : Ench) (m : List Nat) :
    (toSMTPErr (wrapClientErr addr server (.val (.rawSmtp 552 en m)))).code = 452 ∧
    queueRetries (wrapClientErr addr server (.val (.rawSmtp 552 en m))) = true := by
  constructor <;>
    simp [wrapClientErr, rewrite552, toSMTPErr, queueRetries, isTemporaryOrUnspec, tempOf, codeField]

/-- **C16 (no usable MX).** For EVERY failure kept by the MX loop — annotated or not, coherent or
not — the failure `newConn` reports is good: basic code and class of the enhanced code are both
computed from the temporariness of the same error. -/
theorem C16_no_usable_mx_coherent (errText : Err → List Nat) (l : Err) :
    Good (noUsableMX errText l) :=
  good_of_top_annotated _ _ _ _
    (annOk_of_pairOk (C16_helper_pair_coherent l 451 550 ⟨0, 4, 0⟩ rfl rfl))

/-- **C16 (newConn).** For every list of per-MX outcomes (any length, any failures in any order). -/
theorem C16_newConn_failure_coherent (errText : Err → List Nat) (attempts : List (Option Err))
    (e : Err) (h : newConnErr errText attempts = some e) : Good e := by
  unfold newConnErr at h
  split at h
  · simp at h; subst h; exact C16_no_usable_mx_coherent _ _
  · cases h

def AfterOk : After → Prop
  | .ok => True
  | .asIs e => LeavesCoherent e ∧ MarkersAgree e
  | .wrapped e => LeavesCoherent e ∧ MarkersAgree e

theorem good_afterErr (after : After) (e : Err) (ha : AfterOk after) (h : afterErr after = some e) :
    Good e := by
  cases after with
  | ok => cases h
  | asIs x => simp [afterErr] at h; subst h; exact good_of_wellformed _ ha.1 ha.2
  | wrapped x => simp [afterErr] at h; subst h; exact good_transparent ha.1 ha.2

/-- **C16 (transaction of the remote target).** Every failure of the transaction with the domain
of a recipient — no usable MX, MAIL, RCPT, DATA or the end of the data refused — is good. -/
theorem C16_transaction_failure_coherent (errText : Err → List Nat) (attempts : List (Option Err))
    (after : After) (e : Err) (ha : AfterOk after)
    (h : txErr errText attempts after = some e) : Good e := by
  unfold txErr at h
  split at h
  · simp at h; subst h; exact C16_no_usable_mx_coherent _ _
  · cases h
  · exact good_afterErr after e ha h

theorem downLoop_last_mem (attempts : List (Option Err)) :
    ∀ (acc : Option Err) (l : Err), downLoop acc attempts = some (some l) →
      acc = some l ∨ some l ∈ attempts := by
  induction attempts with
  | nil => intro acc l h; left; simpa [downLoop] using h
  | cons a rest ih =>
    intro acc l h
    cases a with
    | none => simp [downLoop] at h
    | some e =>
      simp only [downLoop] at h
      rcases ih _ _ h with h1 | h1
      · simp at h1; subst h1; right; simp
      · right; simp [h1]

/-- **C16 (downstream target).** Every failure of a transaction of `target.smtp` / `target.lmtp` —
no endpoint reachable (the failure of the last one, itself a good one, is passed on), MAIL, RCPT,
DATA, end of data refused, an LMTP status — is good. -/
theorem C16_downstream_failure_coherent (attempts : List (Option Err)) (after : After) (e : Err)
    (hatt : ∀ x, some x ∈ attempts → LeavesCoherent x ∧ MarkersAgree x) (ha : AfterOk after)
    (h : downTxErr attempts after = some e) : Good e := by
  unfold downTxErr at h
  split at h
  · rename_i l hl
    simp at h; subst h
    rcases downLoop_last_mem attempts none l hl with h1 | h1
    · cases h1
    · exact good_transparent (hatt l h1).1 (hatt l h1).2
  · cases h
  · exact good_afterErr after e ha h

/-- **C16 (LMTP status).** A class-coherent per-recipient status of an LMTP server is recorded and
answered coherently. -/
theorem C16_lmtp_status_coherent (c : Nat) (en : Ench) (m : List Nat) (h : annOk c en = true) :
    Good (lmtpStatus c en m) :=
  good_of_top_annotated _ _ _ _ h

/-- **C16 (MX lookup).** Whatever error the MX lookup fails with, the failure reported is good. -/
theorem C16_mx_lookup_failure_coherent (e : Err) : Good (lookupMXErr e) :=
  good_of_top_annotated _ _ _ _
    (annOk_of_pairOk (C16_helper_pair_coherent e 451 554 ⟨0, 4, 4⟩ rfl rfl))

theorem newConnLoop_kept_mem (attempts : List (Option Err)) :
    ∀ (acc : Option Err) (l : Err), newConnLoop acc attempts = some (some l) →
      acc = some l ∨ some l ∈ attempts := by
  induction attempts with
  | nil => intro acc l h; left; simpa [newConnLoop] using h
  | cons a rest ih =>
    intro acc l h
    cases a with
    | none => simp [newConnLoop] at h
    | some e =>
      simp only [newConnLoop] at h
      rcases ih _ _ h with h1 | h1
      · cases acc with
        | none => simp [keepStep] at h1; subst h1; right; simp
        | some a0 =>
          simp only [keepStep] at h1
          split at h1
          · simp at h1; subst h1; right; simp
          · left; exact h1
      · right; simp [h1]

/-- The error reported as the cause is the failure of one of the candidates. -/
theorem C16_newConn_kept_is_a_failure (attempts : List (Option Err)) (l : Err)
    (h : newConnLoop none attempts = some (some l)) : some l ∈ attempts := by
  rcases newConnLoop_kept_mem attempts none l h with h1 | h1
  · cases h1
  · exact h1

theorem newConnLoop_keeps_temporary (attempts : List (Option Err)) :
    ∀ (acc : Option Err) (l : Err), newConnLoop acc attempts = some (some l) →
      ((∃ a, acc = some a ∧ isTemporaryOrUnspec a = true) ∨
       (∃ e, some e ∈ attempts ∧ isTemporaryOrUnspec e = true)) →
      isTemporaryOrUnspec l = true := by
  induction attempts with
  | nil =>
    intro acc l h hex
    simp [newConnLoop] at h
    rcases hex with ⟨a, ha, ht⟩ | ⟨e, he, _⟩
    · rw [h] at ha; cases ha; exact ht
    · simp at he
  | cons a rest ih =>
    intro acc l h hex
    cases a with
    | none => simp [newConnLoop] at h
    | some e =>
      simp only [newConnLoop] at h
      apply ih _ _ h
      rcases hex with ⟨a0, ha, ht⟩ | ⟨e', he', ht'⟩
      · left; subst ha
        by_cases hte : isTemporaryOrUnspec e = true
        · exact ⟨e, by simp [keepStep, hte], hte⟩
        · exact ⟨a0, by simp [keepStep, ht, hte], ht⟩
      · simp at he'
        rcases he' with he' | he'
        · subst he'; left
          cases acc with
          | none => exact ⟨e', by simp [keepStep], ht'⟩
          | some a0 => exact ⟨e', by simp [keepStep, ht'], ht'⟩
        · right; exact ⟨e', he', ht'⟩

/-- **C16 (one temporary MX failure suffices).** When no candidate can be used and the failure of
one of them is (or may be) temporary, the error kept as the cause is, whatever the order. -/
theorem C16_newConn_temporary_failure_is_kept (attempts : List (Option Err)) (l e : Err)
    (h : newConnLoop none attempts = some (some l)) (he : some e ∈ attempts)
    (ht : isTemporaryOrUnspec e = true) : isTemporaryOrUnspec l = true :=
  newConnLoop_keeps_temporary attempts none l h (Or.inr ⟨e, he, ht⟩)

/-- **C16 (several recipients).** The failure `Body` of the remote target reports for several
recipients is answered with codes of one class, for every list of per-recipient errors. -/
theorem C16_multiple_errs_reply_coherent (mang : Bool) (errs : List Err) :
    Coherent (wrapErr mang (multipleErrs errs)) := by
  have : ∃ mm, wrapErr mang (multipleErrs errs) =
      ⟨if errs.any isTemporary then 451 else 550,
       some (if errs.any isTemporary then ⟨4,0,0⟩ else ⟨5,0,0⟩), mm⟩ := by
    cases mang
    · exact ⟨_, by simp [wrapErr, multipleErrs, hasDeadline, codeField, enchField, msgField, msgOf]; rfl⟩
    · exact ⟨_, by simp [wrapErr, multipleErrs, hasDeadline, codeField, enchField, msgField, msgOf]; rfl⟩
  obtain ⟨mm, hw⟩ := this
  rw [hw]
  by_cases ht : errs.any isTemporary = true
  · simp only [ht, ↓reduceIte]; exact coherent_451_400 _
  · simp only [ht, Bool.false_eq_true, ↓reduceIte]
    exact ⟨⟨5,0,0⟩, by simp [wireEnch, notSet], by simp, by simp⟩

/-! Non-vacuity of the next-hop theorems -/
example : ClientOk (.val (.rawSmtp 552 ⟨5, 2, 2⟩ [70])) :=
  ⟨by simp [LeavesCoherent, annOk, pairOk], by intro c hc; simp [codeField] at hc⟩
example : toSMTPErr (wrapClientErr false [] (.val (.rawSmtp 552 ⟨5, 2, 2⟩ [70]))) =
    ⟨452, some ⟨4, 2, 2⟩, .text [70]⟩ := by decide
example : toSMTPErr (wrapClientErr false [] (.val (.rawSmtp 552 ⟨0, 0, 0⟩ [70]))) =
    ⟨452, some ⟨4, 0, 0⟩, .text [70]⟩ := by decide
example : ClientOk (.tls (.rawSmtp 454 ⟨4, 7, 0⟩ [])) :=
  ⟨by simp [LeavesCoherent, annOk, pairOk], by intro c hc; simp [codeField] at hc⟩
example : annOk 552 ⟨5, 2, 2⟩ = true ∧ annOk 552 ⟨0, 0, 0⟩ = true ∧ annOk 421 ⟨4, 4, 2⟩ = true := by decide
/-- a transaction that reaches RCPT on the second candidate and is refused there with 552 5.2.2 -/
example : AfterOk (.wrapped (wrapClientErr true [] (.val (.rawSmtp 552 ⟨5, 2, 2⟩ [])))) :=
  ⟨by simp [wrapClientErr, rewrite552, LeavesCoherent, annOk, pairOk],
   by intro c hc; simp [wrapClientErr, rewrite552, codeField] at hc; subst hc
      simp [wrapClientErr, rewrite552, tempOf]⟩
example : (txErr (fun _ => []) [some .plain, none]
    (.wrapped (wrapClientErr true [] (.val (.rawSmtp 552 ⟨5, 2, 2⟩ []))))).map toSMTPErr =
    some ⟨452, some ⟨4, 2, 2⟩, .text saidInfix⟩ := by decide
/-- downstream: both endpoints fail, the failure of the last one (a 421 greeting) is reported -/
example : (downTxErr [some (transparent .plain), some (wrapClientErr false [] (.val (.rawSmtp 421 ⟨4, 4, 2⟩ [])))]
    .ok).map toSMTPErr = some ⟨421, some ⟨4, 4, 2⟩, .text []⟩ := by decide
example : newConnLoop none [some (.smtp 450 ⟨4,4,2⟩ []), some (.smtp 550 ⟨5,7,0⟩ [])] =
    some (some (.smtp 450 ⟨4,4,2⟩ [])) := rfl
/-- temporary first, permanent last: the temporary one is kept, the report is 451 4.4.0 -/
example : (newConnErr (fun _ => []) [some (.smtp 450 ⟨4,4,2⟩ []), some (.smtp 550 ⟨5,7,0⟩ [])]).map toSMTPErr =
    some ⟨451, some ⟨4, 4, 0⟩, .text noMXPrefix⟩ := by decide
example : (newConnErr (fun _ => []) [some (.smtp 550 ⟨5,7,0⟩ []), some (.smtp 550 ⟨5,7,0⟩ [])]).map toSMTPErr =
    some ⟨550, some ⟨5, 4, 0⟩, .text noMXPrefix⟩ := by decide


/-! ## Histories of attempts for one recipient through `tryDelivery`, and the failure report
(`emitDSN`, `dsn.RecipientInfo.WriteTo`) — strengthening round 5 -/

theorem attemptStep_some (m : Nat) (s : RcptState) (e : Err) :
    (attemptStep m s (some e)).1.stored = some (toSMTPErr e) ∧
    (attemptStep m s (some e)).2 ≠ .delivered ∧
    ((attemptStep m s (some e)).2 = .retry → queueRetries e = true ∧ s.tries + 1 < m) ∧
    ((attemptStep m s (some e)).2 = .giveUp → queueRetries e = false ∨ m ≤ s.tries + 1) := by
  simp only [attemptStep, queueRetries]
  by_cases hc : (!isTemporaryOrUnspec e || decide (s.tries + 1 ≥ m)) = true
  · rw [if_pos hc]
    simp at hc
    refine ⟨rfl, by simp, by simp, ?_⟩
    intro _
    rcases hc with h | h
    · exact Or.inl h
    · exact Or.inr h
  · rw [if_neg hc]
    simp at hc
    refine ⟨rfl, by simp, ?_, by simp⟩
    intro _
    exact ⟨hc.1, hc.2⟩

/-- every observation of a history is the outcome of `attemptStep` on the planned outcome of the
attempt with the same index -/
theorem runHist_obs (m : Nat) (u : Bool) (hist : List (Option Err)) :
    ∀ (s : RcptState) (i : Nat) (o : Obs), (runHist m u s hist)[i]? = some o →
      ∃ s0 a, hist[i]? = some a ∧ attemptStep m s0 a = (o.state, o.dec) ∧
        (o.dec = .giveUp → o.report = o.state.stored.bind (reportLine u)) := by
  induction hist with
  | nil => intro s i o h; simp [runHist] at h
  | cons a rest ih =>
    intro s i o h
    unfold runHist at h
    cases hstep : attemptStep m s a with
    | mk s' d =>
      rw [hstep] at h
      cases d with
      | delivered =>
        simp only at h
        cases i with
        | zero => simp at h; subst h; exact ⟨s, a, by simp, hstep, by simp⟩
        | succ j => simp at h
      | giveUp =>
        simp only at h
        cases i with
        | zero => simp at h; subst h; exact ⟨s, a, by simp, hstep, by simp⟩
        | succ j => simp at h
      | retry =>
        simp only at h
        cases i with
        | zero => simp at h; subst h; exact ⟨s, a, by simp, hstep, by simp⟩
        | succ j =>
          simp at h
          obtain ⟨s0, a0, h1, h2, h3⟩ := ih s' j o h
          exact ⟨s0, a0, by simpa using h1, h2, h3⟩


/-- **C16 (failure report, one line).** For a stored error that is class-coherent the report shows
ONE class everywhere: `Status`, the basic code and the enhanced code of `Diagnostic-Code`, and the code
of the human-readable part. -/
theorem C16_report_line_coherent (u : Bool) (r : Reply) (h : StoredCoherent r) :
    ∃ l, reportLine u r = some l ∧ l.diagCode = r.code ∧ l.humanCode = r.code ∧ l.diagEnch = l.status ∧
      l.status.cls = l.diagCode / 100 ∧ (l.status.cls = 4 ∨ l.status.cls = 5) := by
  obtain ⟨en, h1, h2, h3⟩ := h
  have hne : (en.cls == 0) = false := by rcases h3 with h | h <;> simp [h]
  refine ⟨⟨en, r.code, en, diagText u (msgText r.msg), r.code⟩, ?_, rfl, rfl, rfl, h2, h3⟩
  simp [reportLine, h1, hne]

/-- Whatever is stored (no hypothesis): a report line that is written carries the stored codes
unchanged — `Status` IS the enhanced code of `Diagnostic-Code`, nothing is rewritten on the way. -/
theorem C16_report_line_is_the_stored_error (u : Bool) (r : Reply) (l : ReportLine)
    (h : reportLine u r = some l) :
    r.ench = some l.status ∧ l.diagEnch = l.status ∧ l.diagCode = r.code ∧ l.humanCode = r.code := by
  unfold reportLine at h
  cases he : r.ench with
  | none => simp [he] at h
  | some en =>
    simp only [he] at h
    by_cases hz : (en.cls == 0) = true
    · simp [hz] at h
    · simp [hz] at h; subst h; exact ⟨rfl, rfl, rfl, rfl⟩

/-- **C16 (failure report, all recipient groups).** A report about any number of recipients whose
stored errors are class-coherent is generated, has one line per recipient, and every line shows one
class in `Status`, `Diagnostic-Code` and the human-readable part. -/
theorem C16_report_all_lines_coherent (u : Bool) (rs : List Reply) (h : ∀ r ∈ rs, StoredCoherent r) :
    ∃ ls, reportLines u rs = some ls ∧ ls.length = rs.length ∧
      ∀ l ∈ ls, l.diagEnch = l.status ∧ l.humanCode = l.diagCode ∧ l.status.cls = l.diagCode / 100 ∧
        (l.status.cls = 4 ∨ l.status.cls = 5) := by
  induction rs with
  | nil => exact ⟨[], by simp [reportLines], rfl, by simp⟩
  | cons r rest ih =>
    obtain ⟨ls, h1, h2, h3⟩ := ih (fun r' hr' => h r' (List.mem_cons_of_mem _ hr'))
    obtain ⟨l, hl1, hl2, hl3, hl4, hl5, hl6⟩ := C16_report_line_coherent u r (h r List.mem_cons_self)
    refine ⟨l :: ls, ?_, by simp [h2], ?_⟩
    · unfold reportLines at h1 ⊢
      simp [List.mapM_cons, hl1, h1]
    · intro l' hl'
      rcases List.mem_cons.mp hl' with rfl | hm
      · exact ⟨hl4, by rw [hl3, hl2], hl5, hl6⟩
      · exact h3 l' hm

/-- every failure of the plan is a value maddy builds (hypotheses of the single-conversion theorems) -/
def HistOk (hist : List (Option Err)) : Prop :=
  ∀ e, some e ∈ hist → LeavesCoherent e ∧ MarkersAgree e

/-- **C16 (history: the record is THIS attempt's failure).** For every plan of attempts of any
length, any attempt bound and any starting state: after a failed attempt number `i` the stored
error is the conversion of the error of attempt `i` — not of an earlier one —, the report written on
giving up is the report of that error, a retried failure is one the queue classifies temporary and a
failure it classifies permanent is given up at once. -/
theorem C16_history_record_is_this_attempts_failure (m : Nat) (u : Bool) (hist : List (Option Err))
    (s : RcptState) (i : Nat) (o : Obs) (h : (runHist m u s hist)[i]? = some o)
    (hd : o.dec ≠ .delivered) :
    ∃ e, hist[i]? = some (some e) ∧ o.state.stored = some (toSMTPErr e) ∧
      (o.dec = .giveUp → o.report = reportLine u (toSMTPErr e)) ∧
      (o.dec = .retry → queueRetries e = true) ∧ (queueRetries e = false → o.dec = .giveUp) := by
  obtain ⟨s0, a, h1, h2, h3⟩ := runHist_obs m u hist s i o h
  cases a with
  | none =>
    simp [attemptStep] at h2
    exact absurd h2.2.symm hd
  | some e =>
    have hs := attemptStep_some m s0 e
    rw [h2] at hs
    obtain ⟨hs1, hs2, hs3, hs4⟩ := hs
    simp only at hs1 hs2 hs3 hs4
    refine ⟨e, h1, hs1, ?_, fun hr => (hs3 hr).1, ?_⟩
    · intro hg; rw [h3 hg, hs1]; rfl
    · intro hq
      cases hdec : o.dec with
      | delivered => exact absurd hdec hd
      | giveUp => rfl
      | retry => have := (hs3 hdec).1; rw [hq] at this; cases this

/-- **C16 (history: recorded class = class of the decision taken for that attempt).** For every
plan whose failures are values maddy builds: a retried attempt leaves a coherent 4yz record; an
attempt the queue gives up on produces a report whose `Status`, `Diagnostic-Code` and human-readable
code are of one class — 5 when the failure of THAT attempt is permanent, 4 when it is a temporary
one whose tries ran out — whatever earlier attempts stored. -/
theorem C16_history_class_matches_decision (m : Nat) (u : Bool) (hist : List (Option Err))
    (hok : HistOk hist) (s : RcptState) (i : Nat) (o : Obs)
    (h : (runHist m u s hist)[i]? = some o) :
    (o.dec = .retry → ∃ r, o.state.stored = some r ∧ StoredCoherent r ∧ r.code / 100 = 4) ∧
    (o.dec = .giveUp → ∃ r l e, hist[i]? = some (some e) ∧ o.state.stored = some r ∧ StoredCoherent r ∧
      o.report = some l ∧ l.diagCode = r.code ∧ l.humanCode = l.diagCode ∧ l.diagEnch = l.status ∧
      l.status.cls = l.diagCode / 100 ∧
      (queueRetries e = false → l.diagCode / 100 = 5) ∧ (queueRetries e = true → l.diagCode / 100 = 4)) := by
  constructor
  · intro hr
    obtain ⟨e, h1, h2, _, h4, _⟩ :=
      C16_history_record_is_this_attempts_failure m u hist s i o h (by rw [hr]; simp)
    have hmem : some e ∈ hist := List.mem_of_getElem? h1
    obtain ⟨hl, hm⟩ := hok e hmem
    exact ⟨toSMTPErr e, h2, C16_queue_record_classes_agree e hl hm,
      (C16_class_matches_retry e hl hm).1.mp (h4 hr)⟩
  · intro hg
    obtain ⟨e, h1, h2, h3, _, _⟩ :=
      C16_history_record_is_this_attempts_failure m u hist s i o h (by rw [hg]; simp)
    have hmem : some e ∈ hist := List.mem_of_getElem? h1
    obtain ⟨hl, hm⟩ := hok e hmem
    have hco := C16_queue_record_classes_agree e hl hm
    obtain ⟨l, hl1, hl2, hl3, hl4, hl5, _⟩ := C16_report_line_coherent u (toSMTPErr e) hco
    refine ⟨toSMTPErr e, l, e, h1, h2, hco, by rw [h3 hg, hl1], hl2, by rw [hl3, hl2], hl4, hl5, ?_, ?_⟩
    · intro hq; rw [hl2]; exact (C16_class_matches_retry e hl hm).2.mp hq
    · intro hq; rw [hl2]; exact (C16_class_matches_retry e hl hm).1.mp hq

/-! ### several statuses for one recipient within one attempt (round 10) -/

theorem setStatuses_append_some (cur : Option Err) (sts : List (Option Err)) (e : Err) :
    setStatuses cur (sts ++ [some e]) = some e := by
  induction sts generalizing cur with
  | nil => simp [setStatuses]
  | cons a r ih => cases a <;> simp [setStatuses, ih]

/-- **C16 (several statuses in one attempt).** Whatever a target reported for the recipient earlier
in the attempt (failures of any class, successes, any number), the entry `tryDelivery` works on is the
last failure reported … -/
theorem C16_statuses_last_failure_is_the_entry (sts : List (Option Err)) (e : Err) :
    lastStatus (sts ++ [some e]) = some e := setStatuses_append_some none sts e

/-- … and the record and the decision are taken on that ONE value: the record is its conversion,
class-coherent, a retry means a 4yz record, giving up with tries left means a 5yz record — no
earlier status of the attempt has a say in either. -/
theorem C16_statuses_record_and_decision_of_one_failure (mt : Nat) (s : RcptState)
    (sts : List (Option Err)) (e : Err) (h : LeavesCoherent e) (hm : MarkersAgree e) :
    (attemptStep mt s (lastStatus (sts ++ [some e]))).1.stored = some (toSMTPErr e) ∧
    StoredCoherent (toSMTPErr e) ∧
    ((attemptStep mt s (lastStatus (sts ++ [some e]))).2 = .retry → (toSMTPErr e).code / 100 = 4) ∧
    ((attemptStep mt s (lastStatus (sts ++ [some e]))).2 = .giveUp → s.tries + 1 < mt →
      (toSMTPErr e).code / 100 = 5) := by
  rw [C16_statuses_last_failure_is_the_entry]
  have hc := C16_class_matches_retry e h hm
  refine ⟨?_, C16_queue_record_classes_agree e h hm, ?_, ?_⟩
  · simp only [attemptStep]; split <;> rfl
  · intro hr
    apply hc.1.mp
    simp only [attemptStep] at hr
    split at hr
    · simp at hr
    · rename_i hn
      simp only [Bool.or_eq_true, Bool.not_eq_true', decide_eq_true_eq, not_or] at hn
      simp [queueRetries]; cases hq : isTemporaryOrUnspec e <;> simp_all
  · intro hg hlt
    apply hc.2.mp
    simp only [attemptStep] at hg
    split at hg
    · rename_i hn
      simp only [Bool.or_eq_true, Bool.not_eq_true', decide_eq_true_eq] at hn
      rcases hn with hn | hn
      · simpa [queueRetries] using hn
      · omega
    · simp at hg

/-- the reviewers' scenario: 451 then 550 in one attempt — recorded 550 5.1.1 and NOT retried;
550 then 451 — recorded 451 and retried -/
example : attemptStep 3 .init (lastStatus [some (.smtp 451 ⟨4,4,1⟩ [120]), some (.smtp 550 ⟨5,1,1⟩ [120])]) =
    (⟨0, some ⟨550, some ⟨5,1,1⟩, .text [120]⟩⟩, .giveUp) := by decide
example : attemptStep 3 .init (lastStatus [some (.smtp 550 ⟨5,1,1⟩ [120]), none, some (.smtp 451 ⟨4,4,1⟩ [120])]) =
    (⟨1, some ⟨451, some ⟨4,4,1⟩, .text [120]⟩⟩, .retry) := by decide

/-- The queue gives up after at most `maxTries` attempts (counting those already made). -/
theorem C16_history_length_bounded (m : Nat) (u : Bool) (hist : List (Option Err)) :
    ∀ s : RcptState, (runHist m u s hist).length + s.tries ≤ max m (s.tries + 1) := by
  induction hist with
  | nil => intro s; simp [runHist]; omega
  | cons a rest ih =>
    intro s
    unfold runHist
    cases hstep : attemptStep m s a with
    | mk s' d =>
      cases d with
      | delivered => simp; omega
      | giveUp => simp; omega
      | retry =>
        simp only [List.length_cons]
        cases a with
        | none => simp [attemptStep] at hstep
        | some e =>
          have hs := attemptStep_some m s e
          rw [hstep] at hs
          have hlt := (hs.2.2.1 rfl).2
          have hst : s'.tries = s.tries + 1 := by
            simp only [attemptStep] at hstep
            split at hstep
            · simp at hstep
            · simp at hstep; rw [← hstep]
          have := ih s'
          omega

/-- non-vacuity, and the shape of the history the reviewers' change C16-8 breaks: a temporary
annotated failure (450 4.4.2) is retried and recorded as such; the next attempt fails permanently
without annotation: the queue gives up and the report says 554 5.0.0, not 450 4.4.2. -/
example : HistOk [some (.smtp 450 ⟨4,4,2⟩ [104]), some (.withTemp false .plain)] := by
  intro e he
  simp at he
  rcases he with rfl | rfl
  · exact ⟨by simp [LeavesCoherent, annOk, pairOk], by intro c hc; simp [codeField] at hc; subst hc; simp [tempOf]⟩
  · exact ⟨by simp [LeavesCoherent], by intro c hc; simp [codeField] at hc⟩
example : runHist 3 false .init [some (.smtp 450 ⟨4,4,2⟩ [104]), some (.withTemp false .plain)] =
    [⟨.retry, ⟨1, some ⟨450, some ⟨4,4,2⟩, .text [104]⟩⟩, none⟩,
     ⟨.giveUp, ⟨0, some ⟨554, some ⟨5,0,0⟩, .generic⟩⟩, some ⟨⟨5,0,0⟩, 554, ⟨5,0,0⟩, genericText, 554⟩⟩] := by
  decide
/-- tries run out on a temporary failure (the history C16-9 breaks): reported 450 with Status 4.4.2 -/
example : runHist 2 false .init [some (.smtp 450 ⟨4,4,2⟩ [104]), some (.smtp 450 ⟨4,4,2⟩ [233])] =
    [⟨.retry, ⟨1, some ⟨450, some ⟨4,4,2⟩, .text [104]⟩⟩, none⟩,
     ⟨.giveUp, ⟨0, some ⟨450, some ⟨4,4,2⟩, .text [233]⟩⟩, some ⟨⟨4,4,2⟩, 450, ⟨4,4,2⟩, [63], 450⟩⟩] := by
  decide

/-- non-vacuity of the report theorems: a stored 450 4.4.2 and a stored 554 5.0.0 are coherent, and a
report about both has the two lines `Status: 4.4.2` / `450 4.4.2` and `Status: 5.0.0` / `554 5.0.0` -/
example : ∀ r ∈ [(⟨450, some ⟨4,4,2⟩, .text [104]⟩ : Reply), ⟨554, some ⟨5,0,0⟩, .generic⟩], StoredCoherent r := by
  intro r hr
  simp at hr
  rcases hr with rfl | rfl
  · exact ⟨⟨4,4,2⟩, rfl, by decide, by decide⟩
  · exact ⟨⟨5,0,0⟩, rfl, by decide, by decide⟩
example : reportLines true [⟨450, some ⟨4,4,2⟩, .text [104, 10, 233]⟩, ⟨554, some ⟨5,0,0⟩, .generic⟩] =
    some [⟨⟨4,4,2⟩, 450, ⟨4,4,2⟩, [104, 32, 233], 450⟩, ⟨⟨5,0,0⟩, 554, ⟨5,0,0⟩, genericText, 554⟩] := by decide
/-- an unset stored status cannot be reported at all ("dsn: Status is required") -/
example : reportLines false [⟨450, some ⟨0,0,0⟩, .text []⟩] = none := by decide

/-! ## Failures of maddy's own limits and of SASL authentication (strengthening round 7) -/

/-- **C16 (limits, coherence).** Whatever limit refused the message (the scope is invisible in the
value), however the wait ended and whichever way the failure reaches the conversions: reply and
record are class-coherent and the queue retries exactly what it records as 4yz. -/
theorem C16_limit_failure_coherent (via : LimVia) (e : LimEnd) : Good (limFailure via e) := by
  cases via
  · cases e
    · exact good_of_wellformed _ (by simp [limFailure, limErr, LeavesCoherent])
        (by intro c hc; simp [limFailure, limErr, codeField] at hc)
    · exact good_of_wellformed _ (by simp [limFailure, limErr, LeavesCoherent])
        (by intro c hc; simp [limFailure, limErr, codeField] at hc)
    · exact good_of_wellformed _ (by simp [limFailure, limErr, LeavesCoherent])
        (by intro c hc; simp [limFailure, limErr, codeField] at hc)
  · exact good_of_top_annotated _ _ _ _ (by decide)

/-- **C16 (limits, class agrees with the treatment).** A message refused because a limit has no slot
left (time-out of the wait in any scope, bucket table full) is a retry-later condition for BOTH
mechanisms: the client is answered 4yz (with or without SMTPUTF8), the queue retries it and records
4yz. -/
theorem C16_limit_refusal_is_retry_later (via : LimVia) (e : LimEnd) (h : e.retryLater = true)
    (mang : Bool) :
    (wrapErr mang (limFailure via e)).code / 100 = 4 ∧
    queueRetries (limFailure via e) = true ∧
    (toSMTPErr (limFailure via e)).code / 100 = 4 := by
  cases via <;> cases e <;> cases mang <;> first | decide | (simp [LimEnd.retryLater] at h)

/-- The time-out of the wait is answered with the constant "high load" reply, whichever way it
comes. -/
theorem C16_limit_timeout_is_high_load (via : LimVia) (mang : Bool) :
    wrapErr mang (limFailure via .timeout) = ⟨451, some ⟨4, 4, 5⟩, .highLoad⟩ := by
  cases via <;> cases mang <;> decide

/-- A refusal by a limit never discloses anything: the text is one of the two constants, or the
constant annotation of `remote.Target.Start`. -/
theorem C16_limit_failure_text_is_constant (via : LimVia) (e : LimEnd) (mang : Bool) :
    (wrapErr mang (limFailure via e)).msg = .generic ∨ (wrapErr mang (limFailure via e)).msg = .highLoad ∨
    (wrapErr mang (limFailure via e)).msg = .text highLoadMsg := by
  cases via <;> cases e <;> cases mang <;> decide

example : LimEnd.retryLater .timeout = true ∧ LimEnd.retryLater .tableFull = true := by decide
example : wrapErr true (limFailure .raw .tableFull) = ⟨451, none, .generic⟩ := by decide
example : toSMTPErr (limFailure .raw .tableFull) = ⟨451, some ⟨4, 0, 0⟩, .generic⟩ := by decide
/-- a call given up by its own caller is not classified: the known `IsTemporary` /
`IsTemporaryOrUnspec` split (answered 554, retried) — coherent each, see `C16_limit_failure_coherent` -/
example : (wrapErr false (limFailure .raw .cancelled)).code = 554 ∧ queueRetries (limFailure .raw .cancelled) = true := by
  decide

/-- the providers' loop authenticates exactly when some provider accepts -/
theorem provLoop_none_iff (provs : List (Option Err)) : ∀ last, provLoop last provs = none ↔ none ∈ provs := by
  induction provs with
  | nil => intro last; simp [provLoop]
  | cons p rest ih =>
    intro last
    cases p with
    | none => simp [provLoop]
    | some e => simp [provLoop, ih]

/-- the outcome of the loop depends on which providers fail, not on what they fail with -/
theorem provLoop_isNone_shape (provs provs' : List (Option Err))
    (h : provs.map Option.isSome = provs'.map Option.isSome) :
    ∀ last last', (provLoop last provs).isNone = (provLoop last' provs').isNone := by
  induction provs generalizing provs' with
  | nil =>
    intro last last'
    cases provs' with
    | nil => simp [provLoop]
    | cons _ _ => simp at h
  | cons p rest ih =>
    intro last last'
    cases provs' with
    | nil => simp at h
    | cons p' rest' =>
      simp only [List.map_cons, List.cons.injEq] at h
      obtain ⟨h1, h2⟩ := h
      cases p <;> cases p' <;> simp at h1 <;> simp [provLoop]
      exact ih rest' h2 _ _

theorem saslAuthPlain_isNone_shape (pre pre' : AuthPre) (provs provs' : List (Option Err))
    (hp : pre.tag = pre'.tag) (h : provs.map Option.isSome = provs'.map Option.isSome) :
    (saslAuthPlain pre provs).isNone = (saslAuthPlain pre' provs').isNone := by
  cases provs with
  | nil =>
    cases provs' with
    | nil => simp [saslAuthPlain]
    | cons _ _ => simp at h
  | cons p rest =>
    cases provs' with
    | nil => simp at h
    | cons p' rest' =>
      have hl := provLoop_isNone_shape (p :: rest) (p' :: rest') h none none
      cases pre <;> cases pre' <;> simp_all [saslAuthPlain, AuthPre.tag]

/-- **C16 (AUTH, no disclosure).** The reply to AUTH — both mechanisms — is a function of WHICH steps
failed only: two exchanges in which the same providers fail (the table / the normalisation fails or
not) get the same reply, whatever error VALUES the failures are (temporary or not, annotated or not,
any text).  Nothing of an internal error can reach the unauthenticated client. -/
theorem C16_auth_reply_independent_of_error_values (m : Mech) (pre pre' : AuthPre)
    (provs provs' : List (Option Err))
    (hp : pre.tag = pre'.tag) (h : provs.map Option.isSome = provs'.map Option.isSome) :
    authReply (createSASL m pre provs) = authReply (createSASL m pre' provs') := by
  have hs := saslAuthPlain_isNone_shape pre pre' provs provs' hp h
  cases m with
  | plain b =>
    cases b
    · simp only [createSASL]
      cases h1 : saslAuthPlain pre provs <;> cases h2 : saslAuthPlain pre' provs' <;> simp_all
    · simp [createSASL]
  | login =>
    simp only [createSASL]
    cases h1 : saslAuthPlain pre provs <;> cases h2 : saslAuthPlain pre' provs' <;> simp_all
  | loginDisabled => simp [createSASL]
  | other => simp [createSASL]

/-- **C16 (AUTH, classes).** The reply is 235 2.0.0, or a failure whose basic and enhanced code are
of one class (454 4.7.0 on this tree, for every failure) with one of two constant texts. -/
theorem C16_auth_reply_coherent (m : Mech) (pre : AuthPre) (provs : List (Option Err)) :
    let r := authReply (createSASL m pre provs)
    (r = ⟨235, ⟨2, 0, 0⟩, .succeeded⟩) ∨
    (r.code = 454 ∧ r.ench = ⟨4, 7, 0⟩ ∧ r.ench.cls = r.code / 100 ∧
      (r.text = .invalidCred ∨ r.text = .unsupportedMech)) := by
  intro r
  show _ ∨ _
  cases h : createSASL m pre provs <;> simp [r, h, authReply]

/-- **C16 (AUTH, decision).** 235 exactly when the mechanism is enabled, the authorization identity
is the user name, the user name survives normalisation and mapping, and some provider accepts. -/
theorem C16_auth_succeeds_iff (m : Mech) (pre : AuthPre) (provs : List (Option Err)) :
    (authReply (createSASL m pre provs)).code = 235 ↔
      (m = .plain false ∨ m = .login) ∧ (pre.tag = 0 ∨ pre.tag = 1) ∧ none ∈ provs := by
  have key : (saslAuthPlain pre provs = none) ↔ (pre.tag = 0 ∨ pre.tag = 1) ∧ none ∈ provs := by
    cases provs with
    | nil => simp [saslAuthPlain]
    | cons p rest =>
      have := provLoop_none_iff (p :: rest) none
      cases pre <;> simp_all [saslAuthPlain, AuthPre.tag]
  cases m with
  | plain b =>
    cases b
    · simp only [createSASL]
      cases h1 : saslAuthPlain pre provs
      · simp [authReply, ← key, h1]
      · have : ¬ ((pre.tag = 0 ∨ pre.tag = 1) ∧ none ∈ provs) := by rw [← key, h1]; simp
        simp [authReply, this]
    · simp [createSASL, authReply]
  | login =>
    simp only [createSASL]
    cases h1 : saslAuthPlain pre provs
    · simp [authReply, ← key, h1]
    · have : ¬ ((pre.tag = 0 ∨ pre.tag = 1) ∧ none ∈ provs) := by rw [← key, h1]; simp
      simp [authReply, this]
  | loginDisabled => simp [createSASL, authReply]
  | other => simp [createSASL, authReply]

/-- non-vacuity: the exchange the reviewers' change breaks — the provider fails temporarily with an
unannotated internal error — and an exchange with a wrong password get the very same reply -/
example : authReply (createSASL (.plain false) .none [some (.withTemp true .plain)]) =
    authReply (createSASL (.plain false) .none [some (.smtp 535 ⟨5, 7, 8⟩ [])]) := by decide
example : (AuthPre.none).tag = (AuthPre.none).tag ∧
    [some (Err.withTemp true .plain)].map Option.isSome = [some (Err.smtp 535 ⟨5, 7, 8⟩ [])].map Option.isSome := by
  decide
example : authReply (createSASL .login .mapHit [some .plain, none]) = ⟨235, ⟨2, 0, 0⟩, .succeeded⟩ := by decide

/-! ## Verdicts of checks: the DMARC rejection of `applyResults`, the fail action of a check
(`ParseActionDirective` / `FailAction.Apply`) — the two places of the pipeline that build an `SMTPError` from
COMPUTED codes (strengthening round 8) -/

/-- The computed pair of the DMARC rejection is class-coherent for every value of the evaluation. -/
theorem dmarc_pair_coherent (v : DmarcVal) : pairOk (dmarcCode v) (dmarcEnch v) = true := by
  cases v <;> decide

theorem good_of_smtp_leaf (c : Nat) (en : Ench) (m : List Nat) (h : annOk c en = true) : Good (.smtp c en m) := by
  apply good_of_wellformed
  · simpa [LeavesCoherent] using h
  · intro c' hc; simp [codeField] at hc; subst hc; simp [tempOf]

/-- **C16 (DMARC).** For EVERY way the policy lookup can end and EVERY pair of SPF / DKIM results: when the
pipeline refuses the message on the DMARC verdict, the failure is good (reply and record class-coherent,
retried ⇔ 4yz), and it is a 4yz / retried failure exactly when the evaluation ended with `temperror`
(the lookup failed temporarily, or an aligned identifier could not be checked) — 5yz otherwise. -/
theorem C16_dmarc_rejection_coherent (lk : RecLookup) (spf dkim : Option IdRes) (e : Err)
    (h : dmarcVerdict lk spf dkim = .refused e) :
    Good e ∧
    (queueRetries e = true ↔ (verifierApply lk spf dkim).1 = .tempError) ∧
    (∀ mang, (wrapErr mang e).code / 100 = 4 ↔ (verifierApply lk spf dkim).1 = .tempError) ∧
    (∀ mang, (wrapErr mang e).code / 100 = 5 ↔ (verifierApply lk spf dkim).1 ≠ .tempError) := by
  unfold dmarcVerdict dmarcApply at h
  generalize verifierApply lk spf dkim = r at h ⊢
  obtain ⟨v, pol⟩ := r
  cases pol <;> simp at h
  subst h
  refine ⟨good_of_smtp_leaf _ _ _ (annOk_of_pairOk (dmarc_pair_coherent v)), ?_, ?_, ?_⟩
  · cases v <;> decide
  · intro mang; cases v <;> cases mang <;> decide
  · intro mang; cases v <;> cases mang <;> decide

/-- A message is refused on the DMARC verdict only when the policy to apply is `reject`. -/
theorem C16_dmarc_refuses_only_under_reject (lk : RecLookup) (spf dkim : Option IdRes) (e : Err)
    (h : dmarcVerdict lk spf dkim = .refused e) : (verifierApply lk spf dkim).2 = .reject := by
  unfold dmarcVerdict dmarcApply at h
  generalize verifierApply lk spf dkim = r at h ⊢
  obtain ⟨v, pol⟩ := r
  cases pol <;> simp at h
  rfl

/-- 'Fail closed': a temporary failure of the policy lookup refuses the message with 450 4.7.1, whatever
SPF and DKIM said. -/
theorem C16_dmarc_temporary_lookup_failure_is_retry_later (spf dkim : Option IdRes) :
    dmarcVerdict .tempDNS spf dkim = .refused (.smtp 450 ⟨4, 7, 1⟩ dmarcMsg) := by
  simp [dmarcVerdict, verifierApply, dmarcApply, dmarcCode, dmarcEnch]

/-- What `ParseActionDirective` accepts with an override came out of `ParseRejectDirective`. -/
theorem parseAction_override {k : ActKind} {a : RejectArgs} {msg : List Nat} {fa : FailAction}
    {c : Nat} {en : Ench} {m : List Nat}
    (hp : parseAction k a msg = some fa) (ho : fa.override = some (c, en, m)) :
    parseReject true a = some (c, en) := by
  unfold parseAction at hp
  cases k
  case invalid => simp at hp
  case ignore => simp at hp; subst hp; simp at ho
  all_goals
    simp only at hp
    split at hp
    · simp at hp; subst hp; simp at ho
    · cases hr : parseReject true a with
      | none => simp [hr] at hp
      | some ce =>
        obtain ⟨c', e'⟩ := ce
        simp [hr] at hp; subst hp; simp at ho
        obtain ⟨rfl, rfl, _⟩ := ho; rfl

/-- **C16 (fail action, the wrapping).** The administrator's status wrapped around ANY reason of a check
(temporary or permanent, annotated or not, marked or not): as soon as the override pairs codes of one class
the failure is good, and it is treated — retried or not — by the class of the override, not of the reason. -/
theorem C16_fail_action_override_coherent (c : Nat) (en : Ench) (m : List Nat) (reason : Err)
    (h : pairOk c en = true) :
    Good (applyOverride (some (c, en, m)) reason) ∧
    queueRetries (applyOverride (some (c, en, m)) reason) = (c / 100 == 4) ∧
    (toSMTPErr (applyOverride (some (c, en, m)) reason)).code = c ∧
    (hasDeadline reason = false → ∀ mang, (wrapErr mang (applyOverride (some (c, en, m)) reason)).code = c) := by
  refine ⟨good_of_top_annotated c en m reason (annOk_of_pairOk h), ?_, ?_, ?_⟩
  · simp [applyOverride, queueRetries, isTemporaryOrUnspec, tempOf]
  · simp [applyOverride, toSMTPErr, codeField]
  · intro hd mang
    cases mang <;> simp [applyOverride, wrapErr, hasDeadline, hd, codeField]

/-- **C16 (fail action, end to end).** For EVERY action directive the parser accepts and EVERY reason of the
check: when the pipeline refuses the message, the error is the administrator's status around the reason —
good whenever the directive gives at most a basic code, or gives an enhanced code of the class of the basic
code — or, without an override, the check's own reason unchanged. -/
theorem C16_fail_action_refusal_coherent (k : ActKind) (a : RejectArgs) (msg : List Nat) (fa : FailAction)
    (reason e : Err) (hp : parseAction k a msg = some fa)
    (hv : failActionVerdict fa (some reason) = .refused e) :
    (∀ c en m, fa.override = some (c, en, m) → (a.nargs ≤ 1 ∨ en.cls = c / 100) →
      Good e ∧ queueRetries e = (c / 100 == 4)) ∧
    (fa.override = none → e = reason) := by
  have he : e = applyOverride fa.override reason := by
    unfold failActionVerdict at hv
    simp only at hv
    split at hv
    · cases hv
    · split at hv
      · simp at hv; exact hv.symm
      · cases hv
  subst he
  constructor
  · intro c en m ho hcls
    have hr := parseAction_override hp ho
    have hd := C16_reject_directive_coherent true a c en hr
    have hpair : pairOk c en = true := by
      rcases hcls with h1 | h2
      · exact hd.1 h1 (Or.inl rfl)
      · by_cases hn : a.nargs ≤ 1
        · exact hd.1 hn (Or.inl rfl)
        · exact (hd.2 (by omega)).2 h2
    rw [ho]
    exact ⟨(C16_fail_action_override_coherent c en m reason hpair).1,
           (C16_fail_action_override_coherent c en m reason hpair).2.1⟩
  · intro ho; rw [ho]; rfl

/-- non-vacuity: the scenarios the reviewers' changes break.  `reject 550 5.7.27` on a check that failed
on a temporary DNS error: 550 5.7.27 to the client and in the record, not retried; the DMARC policy lookup
failing temporarily: 450 4.7.1, retried -/
example : parseAction .reject ⟨2, some 550, some ⟨5, 7, 27⟩, true⟩ [] =
    some ⟨true, false, some (550, ⟨5, 7, 27⟩, localPolicyMsg)⟩ := by rfl
example : failActionVerdict ⟨true, false, some (550, ⟨5, 7, 27⟩, localPolicyMsg)⟩ (some (.net true)) =
    .refused (.smtpWrap 550 ⟨5, 7, 27⟩ localPolicyMsg (.net true)) := by rfl
example : wrapErr true (.smtpWrap 550 ⟨5, 7, 27⟩ localPolicyMsg (.net true)) = ⟨550, some ⟨5, 7, 27⟩, .text localPolicyMsg⟩ ∧
    queueRetries (.smtpWrap 550 ⟨5, 7, 27⟩ localPolicyMsg (.net true)) = false := by decide
example : pairOk 550 ⟨5, 7, 27⟩ = true := by decide
example : (verifierApply .tempDNS none none).1 = .tempError := by decide
example : dmarcVerdict (.record false .reject none) (some ⟨.fail, true⟩) (some ⟨.tempError, true⟩) =
    .refused (.smtp 450 ⟨4, 7, 1⟩ dmarcMsg) := by rfl
example : dmarcVerdict (.record true .none (some .reject)) (some ⟨.fail, true⟩) (some ⟨.fail, false⟩) =
    .refused (.smtp 550 ⟨5, 7, 1⟩ dmarcMsg) := by rfl

/-! ## Several recipients in one attempt, AUTH towards the downstream server (strengthening round 9) -/

/-- what the record of a recipient becomes: unchanged when the target accepted it, the conversion
of ITS error otherwise -/
def recOf (old : Option Reply) : Option Err → Option Reply
  | none => old
  | some e => some (toSMTPErr e)

theorem attemptStep_stored_recOf (mt : Nat) (s : RcptState) (e : Err) :
    (attemptStep mt s (some e)).1.stored = some (toSMTPErr e) := (attemptStep_some mt s e).1

/-- the record of EVERY recipient after the loop over `meta.To` -/
theorem attemptLoop_stored (mt : Nat) (errs : Nat → Option Err) (to : List Nat) :
    ∀ (m : AttMeta) (new failed : List Nat) (r : Nat),
      (attemptLoop mt errs to m new failed).1.stored r =
        if r ∈ to then recOf (m.stored r) (errs r) else m.stored r := by
  induction to with
  | nil => intro m new failed r; simp [attemptLoop]
  | cons x rest ih =>
    intro m new failed r
    unfold attemptLoop
    cases hx : errs x with
    | none =>
      simp only
      rw [ih]
      by_cases hr : r = x
      · subst hr; simp [hx, recOf]
      · simp [hr]
    | some e =>
      simp only
      have hst := attemptStep_stored_recOf mt (m.get x) e
      rcases hd : attemptStep mt (m.get x) (some e) with ⟨s', d⟩
      rw [hd] at hst
      simp only at hst
      have key : ∀ new' failed', (attemptLoop mt errs rest (m.set x s') new' failed').1.stored r =
          if r ∈ x :: rest then recOf (m.stored r) (errs r) else m.stored r := by
        intro new' failed'
        rw [ih]
        by_cases hr : r = x
        · subst hr
          simp [AttMeta.set, hx, recOf, hst]
        · simp [AttMeta.set, hr]
      cases d <;> simp only <;> exact key _ _

/-- **C16 (several recipients, the record is the recipient's own failure).** After one attempt of a
message for any list of recipients (any order, repetitions allowed), whatever was recorded before
and whatever the OTHER recipients failed with: the record of a recipient that failed in this attempt
is the conversion of ITS error of THIS attempt. -/
theorem C16_attempt_record_is_own_failure (mt : Nat) (errs : Nat → Option Err) (to : List Nat)
    (m : AttMeta) (r : Nat) (e : Err) (hr : r ∈ to) (he : errs r = some e) :
    (attemptLoop mt errs to m [] []).1.stored r = some (toSMTPErr e) := by
  rw [attemptLoop_stored]; simp [hr, he, recOf]

/-- **C16 (several recipients, independence).** The record of recipient `r` after an attempt is a
function of `r`'s own error only: two attempts that differ in the errors (or the success) of any
OTHER recipients leave the same record for `r`. -/
theorem C16_attempt_records_are_independent (mt : Nat) (errs errs' : Nat → Option Err) (to : List Nat)
    (m : AttMeta) (r : Nat) (h : errs r = errs' r) :
    (attemptLoop mt errs to m [] []).1.stored r = (attemptLoop mt errs' to m [] []).1.stored r := by
  rw [attemptLoop_stored, attemptLoop_stored, h]

/-- … and so is the coherence of the record with the decision: a well-formed failure of `r` is
recorded with the class the retry decision (before the attempt bound) is taken on, whatever the
other recipients of the attempt did. -/
theorem C16_attempt_record_class_matches_retry (mt : Nat) (errs : Nat → Option Err) (to : List Nat)
    (m : AttMeta) (r : Nat) (e : Err) (hr : r ∈ to) (he : errs r = some e)
    (h : LeavesCoherent e) (hm : MarkersAgree e) :
    ∃ rec, (attemptLoop mt errs to m [] []).1.stored r = some rec ∧ StoredCoherent rec ∧
      (queueRetries e = true ↔ rec.code / 100 = 4) ∧ (queueRetries e = false ↔ rec.code / 100 = 5) :=
  ⟨toSMTPErr e, C16_attempt_record_is_own_failure mt errs to m r e hr he,
   C16_queue_record_classes_agree e h hm, (C16_class_matches_retry e h hm).1, (C16_class_matches_retry e h hm).2⟩

/-- the reviewers' scenario: same text, 550 5.1.1 for the first recipient and 450 4.2.1 for the
second — each keeps its own record, in both envelope orders -/
def twinErrs : Nat → Option Err
  | 1 => some (.smtp 550 ⟨5,1,1⟩ [77])
  | 2 => some (.smtp 450 ⟨4,2,1⟩ [77])
  | _ => none
example : (attemptLoop 3 twinErrs [1, 2] .init [] []).1.stored 2 = some ⟨450, some ⟨4,2,1⟩, .text [77]⟩ ∧
    (attemptLoop 3 twinErrs [2, 1] .init [] []).1.stored 1 = some ⟨550, some ⟨5,1,1⟩, .text [77]⟩ ∧
    (attemptLoop 3 twinErrs [1, 2] .init [] []).2 = ([2], [1]) := by decide
example : LeavesCoherent (.smtp 450 ⟨4,2,1⟩ [77]) ∧ MarkersAgree (.smtp 450 ⟨4,2,1⟩ [77]) := by
  refine ⟨by simp [LeavesCoherent]; decide, ?_⟩
  intro c hc; simp [codeField] at hc; subst hc; decide

/-- **C16 (AUTH towards the downstream server).** Whatever `auth` is configured on `target.smtp` /
`target.lmtp` and whatever the next hop does with the AUTH command — accepts, answers with any
class-coherent reply (454 4.7.0, 535 5.7.8, a reply without enhanced code, …), drops the
connection, sends garbage — a failure of that step is good: reply and record class-coherent, retried
exactly when recorded as 4yz. -/
theorem C16_downstream_auth_failure_coherent (cfg : AuthCfg) (ans : AuthAns) (e : Err)
    (hans : ∀ c en m, ans = .reply c en m → annOk c en = true)
    (h : downAuthErr cfg ans = some e) : Good e := by
  have hw : LeavesCoherent e ∧ MarkersAgree e := by
    cases cfg with
    | off => simp [downAuthErr] at h
    | forward a =>
      cases a with
      | false =>
        simp [downAuthErr] at h; subst h
        refine ⟨by simp [LeavesCoherent]; decide, ?_⟩
        intro c hc; simp [codeField] at hc; subst hc; decide
      | true =>
        cases ans with
        | ok => simp [downAuthErr] at h
        | reply c en m =>
          simp [downAuthErr] at h; subst h
          exact ⟨hans c en m rfl, by intro c' hc; simp [codeField] at hc⟩
        | broken =>
          simp [downAuthErr] at h; subst h
          exact ⟨trivial, by intro c' hc; simp [codeField] at hc⟩
    | plain =>
      cases ans with
      | ok => simp [downAuthErr] at h
      | reply c en m =>
        simp [downAuthErr] at h; subst h
        exact ⟨hans c en m rfl, by intro c' hc; simp [codeField] at hc⟩
      | broken =>
        simp [downAuthErr] at h; subst h
        exact ⟨trivial, by intro c' hc; simp [codeField] at hc⟩
    | external =>
      cases ans with
      | ok => simp [downAuthErr] at h
      | reply c en m =>
        simp [downAuthErr] at h; subst h
        exact ⟨hans c en m rfl, by intro c' hc; simp [codeField] at hc⟩
      | broken =>
        simp [downAuthErr] at h; subst h
        exact ⟨trivial, by intro c' hc; simp [codeField] at hc⟩
  exact good_of_wellformed e hw.1 hw.2

/-- the class of the reply to AUTH decides everything: it is the code the client is answered with
and the queue records, and the failure is retried exactly when it is 4yz -/
theorem C16_downstream_auth_reply_class (cfg : AuthCfg) (c : Nat) (en : Ench) (m : List Nat) (e : Err)
    (h : downAuthErr cfg (.reply c en m) = some e) (hcfg : cfg ≠ .forward false) :
    (toSMTPErr e).code = c ∧ (∀ mang, (wrapErr mang e).code = c) ∧ queueRetries e = (c / 100 == 4) := by
  have he : e = .rawSmtp c en m := by
    cases cfg with
    | off => simp [downAuthErr] at h
    | forward a => cases a <;> simp_all [downAuthErr]
    | plain => simp_all [downAuthErr]
    | external => simp_all [downAuthErr]
  subst he
  refine ⟨rfl, ?_, rfl⟩
  intro mang
  cases mang <;> simp [wrapErr, hasDeadline]

/-- **C16 (downstream transaction with `auth`).** Endpoints, AUTH, then the rest of the transaction. -/
theorem C16_downstream_auth_transaction_coherent (attempts : List (Option Err)) (cfg : AuthCfg)
    (ans : AuthAns) (after : After) (e : Err)
    (hatt : ∀ x, some x ∈ attempts → LeavesCoherent x ∧ MarkersAgree x)
    (hans : ∀ c en m, ans = .reply c en m → annOk c en = true) (ha : AfterOk after)
    (h : downAuthTxErr attempts cfg ans after = some e) : Good e := by
  unfold downAuthTxErr at h
  split at h
  · rename_i l hl
    simp at h; subst h
    rcases downLoop_last_mem attempts none l hl with h1 | h1
    · cases h1
    · exact good_transparent (hatt l h1).1 (hatt l h1).2
  · cases h
  · split at h
    · rename_i x hx
      simp at h; subst h
      exact C16_downstream_auth_failure_coherent cfg ans _ hans hx
    · exact good_afterErr after e ha h

example : downAuthTxErr [some .plain, none] .plain (.reply 535 ⟨5,7,8⟩ [120]) .ok = some (.rawSmtp 535 ⟨5,7,8⟩ [120]) := by rfl
example : queueRetries (.rawSmtp 535 ⟨5,7,8⟩ [120]) = false ∧ toSMTPErr (.rawSmtp 535 ⟨5,7,8⟩ [120]) = ⟨535, some ⟨5,7,8⟩, .text [120]⟩ := by decide
example : queueRetries (.rawSmtp 454 ⟨4,7,0⟩ [120]) = true ∧ annOk 454 ⟨4,7,0⟩ = true ∧ annOk 535 ⟨5,7,8⟩ = true := by decide

/-! ### check.dnsbl: several lists failing at once (round 10) -/

theorem pickOf_mem (e0 : Err) (rest : List Err) (pick : Nat) : pickOf e0 rest pick ∈ e0 :: rest := by
  unfold pickOf
  split
  · rename_i e h; exact List.mem_of_getElem? h
  · simp

/-- **C16 (DNSBL, which failure is reported).** When lookups fail, the rejection is the helper-pair
rejection of ONE of the failed lookups, whichever the scheduler let win … -/
theorem C16_dnsbl_rejection_is_of_one_failed_lookup (rt qt : Int) (outs : List ListOut) (pick : Nat)
    (h : failedLookups outs ≠ []) :
    ∃ e ∈ failedLookups outs, checkLists rt qt outs pick = .reject (dnsblLookupErr e) := by
  unfold checkLists
  cases hf : failedLookups outs with
  | nil => exact absurd hf h
  | cons e0 rest => exact ⟨pickOf e0 rest pick, pickOf_mem e0 rest pick, rfl⟩

/-- … and **every rejection of the check is good**: for any number of lists, any outcomes (any error
values of the failed lookups — temporary, permanent, wrapped, cancelled), any thresholds and any
scheduling, basic and enhanced code of the rejection are of one class, the queue records it
coherently and retries it exactly when it is recorded 4yz. -/
theorem C16_dnsbl_rejection_good (rt qt : Int) (outs : List ListOut) (pick : Nat) (e : Err)
    (h : checkLists rt qt outs pick = .reject e) : Good e := by
  unfold checkLists at h
  split at h
  · injection h with h; subst h
    exact good_of_top_annotated _ _ _ _
      (annOk_of_pairOk (C16_helper_pair_coherent _ 451 554 ⟨0, 7, 0⟩ rfl rfl))
  · split at h
    · injection h with h; subst h; exact good_of_smtp_leaf _ _ _ (by decide)
    · split at h <;> cases h

/-- the reviewers' scenario: the first list fails permanently, the second temporarily — either
rejection that can come out is coherent (554 5.7.0 or 451 4.7.0), never a mix -/
example : checkLists 1 1 [.failed (.net false), .failed (.net true)] 0 =
    .reject (.smtpWrap 554 ⟨5,7,0⟩ dnsblErrMsg (.net false)) := by rfl
example : checkLists 1 1 [.failed (.net false), .failed (.net true)] 1 =
    .reject (.smtpWrap 451 ⟨4,7,0⟩ dnsblErrMsg (.net true)) := by rfl
example : checkLists 2 1 [.listed 1, .clean] 0 = .quarantine := by rfl

/-- **C16 (policy lookups).** Whatever error the MX lookup of the sender's domain / the rDNS lookup
fails with (an interrupted lookup included), the verdict of require_mx_record /
require_matching_rdns is good. -/
theorem C16_policy_lookup_failure_good (det : Nat) (e : Err) : Good (policyLookupErr det e) :=
  good_of_top_annotated _ _ _ _
    (annOk_of_pairOk (C16_helper_pair_coherent e 450 550 ⟨0, 7, det⟩ rfl rfl))

/-! ### sessions of several transactions (round 10) -/

/-- what is kept in `deliveryErr` is the conversion of the CURRENT transaction's own failure under the
CURRENT transaction's SMTPUTF8 flag -/
def SessInv (s : Sess) : Prop :=
  s.isOpen = false → ∀ r, s.deliveryErr = some r → ∃ e, s.plan = some e ∧ r = wrapErr (!s.utf8) e

theorem sessInv_init : SessInv .init := by intro _ r h; simp [Sess.init] at h

theorem sessStep_inv (d : Bool) (s : Sess) (c : SessCmd) (h : SessInv s) : SessInv (sessStep d s c).1 := by
  cases c with
  | mail u o =>
    simp only [sessStep]
    split
    · exact h
    · split
      · intro _ r hr; simp at hr
      · split
        · exact h
        · intro ho; simp at ho
  | rcpt =>
    simp only [sessStep]
    split
    · exact h
    · split
      · exact h
      · split
        · exact h
        · rename_i hnone
          split
          · rename_i e he
            intro _ r hr
            refine ⟨e, he, ?_⟩
            simp at hr; exact hr.symm
          · intro ho; simp at ho
  | rset => intro _ r hr; simp [sessStep] at hr

theorem sessAfter_inv (d : Bool) (cmds : List SessCmd) : ∀ s, SessInv s → SessInv (sessAfter d s cmds) := by
  induction cmds with
  | nil => intro s h; exact h
  | cons c r ih => intro s h; exact ih _ (sessStep_inv d s c h)

/-- **C16 (sessions, a reply answers its own transaction).** After ANY sequence of MAIL / RCPT / RSET
commands (any number of earlier transactions, failed or not, with any SMTPUTF8 flags), a refusal of
RCPT is the conversion of the failure of the transaction that is open NOW under ITS SMTPUTF8 flag … -/
theorem C16_session_rcpt_reply_is_of_its_transaction (d : Bool) (cmds : List SessCmd) (r : Reply)
    (h : (sessStep d (sessAfter d .init cmds) .rcpt).2 = .err r) :
    ∃ e, (sessAfter d .init cmds).plan = some e ∧ r = wrapErr (!(sessAfter d .init cmds).utf8) e := by
  have hinv := sessAfter_inv d cmds .init sessInv_init
  generalize sessAfter d .init cmds = s at h hinv
  simp only [sessStep] at h
  split at h
  · cases h
  · split at h
    · cases h
    · split at h
      · rename_i hopen _ r' hr'
        injection h with h; subst h
        exact hinv (by simpa using hopen) r' hr'
      · split at h
        · rename_i e he
          injection h with h
          exact ⟨e, he, h.symm⟩
        · cases h

/-- … so a transaction that did not ask for SMTPUTF8 is never answered with non-ASCII text, whatever
was said to earlier transactions of the session. -/
theorem C16_session_rcpt_reply_ascii (d : Bool) (cmds : List SessCmd) (r : Reply)
    (hu : (sessAfter d .init cmds).utf8 = false)
    (h : (sessStep d (sessAfter d .init cmds) .rcpt).2 = .err r) :
    match r.msg with
    | .text cps => ∀ ch ∈ cps, ch < 128
    | _ => True := by
  obtain ⟨e, _, hr⟩ := C16_session_rcpt_reply_is_of_its_transaction d cmds r h
  rw [hr, hu]
  exact C16_non_utf8_reply_is_ascii e

/-- … and it is class-coherent when the failure is. -/
theorem C16_session_rcpt_reply_coherent (d : Bool) (cmds : List SessCmd) (r : Reply)
    (hok : ∀ e, (sessAfter d .init cmds).plan = some e → LeavesCoherent e)
    (h : (sessStep d (sessAfter d .init cmds) .rcpt).2 = .err r) : Coherent r := by
  obtain ⟨e, he, hr⟩ := C16_session_rcpt_reply_is_of_its_transaction d cmds r h
  rw [hr]; exact C16_endpoint_reply_classes_agree _ e (hok e he)

/-- the reviewers' scenario: failed deferred MAIL under SMTPUTF8 (non-ASCII text), RCPT, RSET, MAIL
without SMTPUTF8 that is fine, RCPT: accepted; and with a failing second MAIL: its own, mangled text -/
example : sessRun true .init [.mail true (some (.smtp 550 ⟨5,1,1⟩ [1055])), .rcpt, .rset, .mail false none, .rcpt] =
    [.ok, .err ⟨550, some ⟨5,1,1⟩, .text [1055]⟩, .ok, .ok, .ok] := by rfl
example : sessRun true .init [.mail true (some (.smtp 550 ⟨5,1,1⟩ [1055])), .rcpt, .mail false (some (.smtp 450 ⟨4,2,0⟩ [233])), .rcpt] =
    [.ok, .err ⟨550, some ⟨5,1,1⟩, .text [1055]⟩, .ok, .err ⟨450, some ⟨4,2,0⟩, .text [63]⟩] := by rfl

end MaddyVerif.C16
