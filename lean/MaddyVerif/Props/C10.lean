import MaddyVerif.Model.WireSpool
import MaddyVerif.Model.FieldTable
import MaddyVerif.Generated.MetaFields
import MaddyVerif.Generated.MetaEnc
import MaddyVerif.Expect.MetaFields
/-!
# C10 — the spool preserves message bytes and envelope, and never stores credentials

Property theorems only (with the lemmas they need and non-vacuity examples).

Quantifiers: **all** headers (any number of raw fields of any length, folding, duplicates, any byte
values), **all** bodies, **all** envelopes, **all** histories (lists of attempts and restarts of
any length, with any target answers / retry decisions).  The only `decide`s are over the
regenerated field table and code skeleton (finite tables; labelled T1 below).
-/
namespace MaddyVerif.C10
open MaddyVerif.Wire MaddyVerif.WireSpool MaddyVerif.FieldTable

/-! ## header: physical lines -/

theorem lines_line_crlf (l rest : Bytes) (h : 10 ∉ l) :
    lines (l ++ 13 :: 10 :: rest) = l :: lines rest := by
  induction l with
  | nil => simp [lines]
  | cons c l' ih =>
    simp at h
    have hc : c ≠ 10 := fun e => h.1 e.symm
    cases l' with
    | nil => simp [lines, hc, cons1]
    | cons d l'' =>
      have hd : d ≠ 10 := by
        intro e; apply h.2; simp [e]
      have ih' := ih (by simpa using h.2)
      simp only [List.cons_append] at ih' ⊢
      simp [lines, hc, hd, ih', cons1]

theorem lines_joinLines (ls : List Bytes) (rest : Bytes) (h : ∀ l ∈ ls, 10 ∉ l) :
    lines (joinLines ls ++ rest) = ls ++ lines rest := by
  induction ls with
  | nil => simp [joinLines]
  | cons l ls ih =>
    have h1 : 10 ∉ l := h l (by simp)
    have h2 : ∀ x ∈ ls, 10 ∉ x := fun x hx => h x (by simp [hx])
    have : joinLines (l :: ls) ++ rest = l ++ 13 :: 10 :: (joinLines ls ++ rest) := by
      simp [joinLines]
    rw [this, lines_line_crlf _ _ h1, ih h2]
    simp


/-! ## header: logical lines -/

theorem startsWSP_ne_nil {c : Bytes} (h : startsWSP c = true) : c ≠ [] := by
  intro e; simp [e, startsWSP] at h

theorem groupLines_field (conts : List Bytes) (hc : ∀ c ∈ conts, startsWSP c = true) :
    ∀ (l : Bytes) (L : List Bytes), l ≠ [] → (∀ x, L.head? = some x → startsWSP x = false) →
      groupLines (l :: (conts ++ L)) = (l ++ crlf ++ joinLines conts) :: groupLines L := by
  induction conts with
  | nil =>
    intro l L hl hL
    cases L with
    | nil => simp [groupLines, hl, joinLines]
    | cons l2 L' =>
      have : startsWSP l2 = false := hL l2 (by simp)
      simp [groupLines, hl, joinLines, this]
  | cons c cs ih =>
    intro l L hl hL
    have hcw : startsWSP c = true := hc c (by simp)
    have ih' := ih (fun x hx => hc x (by simp [hx])) c L (startsWSP_ne_nil hcw) hL
    simp only [List.cons_append]
    rw [groupLines]
    simp only [hl, if_false, hcw, if_true]
    rw [ih']
    simp [joinLines]

/-- first physical line of a byte string starts with SP/HT iff the string does -/
theorem head_lines_startsWSP (T : Bytes) :
    ∀ x, (lines T).head? = some x → startsWSP x = startsWSP T := by
  intro x hx
  cases T with
  | nil => simp [lines] at hx
  | cons c r =>
    cases r with
    | nil =>
      by_cases h : c = 10
      · simp [lines, h] at hx; subst hx; simp [startsWSP, isSpace, h]
      · simp [lines, h] at hx; subst hx; simp [startsWSP]
    | cons d r' =>
      by_cases h : c = 10
      · simp [lines, h] at hx; subst hx; simp [startsWSP, isSpace, h]
      · by_cases h2 : c = 13 ∧ d = 10
        · simp [lines, h2] at hx; subst hx; simp [startsWSP, isSpace, h2.1]
        · simp only [lines, h, h2, if_false] at hx
          cases hl : lines (d :: r') with
          | nil => simp [hl, cons1] at hx; subst hx; simp [startsWSP]
          | cons a b => simp [hl, cons1] at hx; subst hx; simp [startsWSP]

theorem validKeyByte_not_space {b : Nat} (h : validKeyByte b = true) : isSpace b = false := by
  simp [validKeyByte] at h
  simp [isSpace]
  omega

theorem validKeyByte_ne_colon {b : Nat} (h : validKeyByte b = true) : b ≠ 58 := by
  simp [validKeyByte] at h; exact h.2

theorem validKeyByte_ne_lf {b : Nat} (h : validKeyByte b = true) : b ≠ 10 := by
  simp [validKeyByte] at h; omega

theorem isSpace_ne_colon {b : Nat} (h : isSpace b = true) : b ≠ 58 := by
  simp [isSpace] at h; omega

theorem isSpace_ne_lf {b : Nat} (h : isSpace b = true) : b ≠ 10 := by
  simp [isSpace] at h; omega

theorem keyPart_append (k r : Bytes) (h : 58 ∉ k) : keyPart (k ++ 58 :: r) = some k := by
  induction k with
  | nil => simp [keyPart]
  | cons c k ih =>
    simp at h
    have hc : c ≠ 58 := fun e => h.1 e.symm
    simp [keyPart, hc, ih (by simpa using h.2)]

theorem dropWSP_all_space (p r : Bytes) (h : ∀ b ∈ p, isSpace b = true) :
    dropWSP (p ++ r) = dropWSP r := by
  induction p with
  | nil => rfl
  | cons c p ih =>
    have : isSpace c = true := h c (by simp)
    simp [dropWSP, this, ih (fun b hb => h b (by simp [hb]))]

theorem dropWSP_head_not_space (c : Nat) (r : Bytes) (h : isSpace c = false) :
    dropWSP (c :: r) = c :: r := by
  simp [dropWSP, h]

theorem trim_name_pad (name pad : Bytes) (hn : name ≠ []) (hv : ∀ b ∈ name, validKeyByte b = true)
    (hp : ∀ b ∈ pad, isSpace b = true) : trim (name ++ pad) = name := by
  unfold trim
  have h1 : dropWSP (name ++ pad) = name ++ pad := by
    cases name with
    | nil => exact absurd rfl hn
    | cons c r =>
      exact dropWSP_head_not_space c _ (validKeyByte_not_space (hv c (by simp)))
  rw [h1, List.reverse_append, dropWSP_all_space _ _ (by simpa using hp)]
  have h2 : dropWSP name.reverse = name.reverse := by
    cases hr : name.reverse with
    | nil => simp at hr; exact absurd hr hn
    | cons c r =>
      have : c ∈ name := by
        have : c ∈ name.reverse := by simp [hr]
        simpa using this
      exact dropWSP_head_not_space c _ (validKeyByte_not_space (hv c this))
  rw [h2, List.reverse_reverse]

theorem wf_classify {f : Bytes} (h : WFField f) : classify f = .keep := by
  obtain ⟨name, pad, rest, conts, rfl, hn, hv, hp, _, _⟩ := h
  have hk : 58 ∉ name ++ pad := by
    simp only [List.mem_append, not_or]
    exact ⟨fun hm => validKeyByte_ne_colon (hv _ hm) rfl, fun hm => isSpace_ne_colon (hp _ hm) rfl⟩
  have : keyPart (name ++ pad ++ 58 :: rest ++ crlf ++ joinLines conts) = some (name ++ pad) := by
    have e : name ++ pad ++ 58 :: rest ++ crlf ++ joinLines conts
        = (name ++ pad) ++ 58 :: (rest ++ crlf ++ joinLines conts) := by simp
    rw [e, keyPart_append _ _ hk]
  unfold Wire.classify
  rw [this]
  simp only [trim_name_pad name pad hn hv hp]
  have : name.all validKeyByte = true := by simpa using hv
  simp [this, hn]

theorem wf_startsWSP {f : Bytes} (h : WFField f) (T : Bytes) : startsWSP (f ++ T) = false := by
  obtain ⟨name, pad, rest, conts, rfl, hn, hv, _, _, _⟩ := h
  cases name with
  | nil => exact absurd rfl hn
  | cons c r => simpa [Wire.startsWSP] using validKeyByte_not_space (hv c (by simp))

/-- physical lines of a well-formed field followed by anything -/
theorem wf_lines {f : Bytes} (h : WFField f) (T : Bytes) :
    ∃ (first : Bytes) (conts : List Bytes), first ≠ [] ∧ (∀ c ∈ conts, Wire.startsWSP c = true) ∧
      f = first ++ crlf ++ joinLines conts ∧
      Wire.lines (f ++ T) = first :: (conts ++ Wire.lines T) := by
  obtain ⟨name, pad, rest, conts, rfl, hn, hv, hp, hr, hc⟩ := h
  refine ⟨name ++ pad ++ 58 :: rest, conts, by simp [hn], fun c hcm => (hc c hcm).2, by simp, ?_⟩
  have hfirst : 10 ∉ name ++ pad ++ 58 :: rest := by
    simp only [List.mem_append, List.mem_cons, not_or]
    exact ⟨⟨fun hm => validKeyByte_ne_lf (hv _ hm) rfl, fun hm => isSpace_ne_lf (hp _ hm) rfl⟩,
      by decide, hr⟩
  have e : name ++ pad ++ 58 :: rest ++ crlf ++ joinLines conts ++ T
      = (name ++ pad ++ 58 :: rest) ++ 13 :: 10 :: (joinLines conts ++ T) := by simp
  rw [e, lines_line_crlf _ _ hfirst, lines_joinLines _ _ (fun c hcm => (hc c hcm).1)]

theorem groupLines_lines_header (h : Header) (hwf : ∀ f ∈ h, WFField f) :
    ∀ T : Bytes, startsWSP T = false →
      groupLines (lines (h.flatten ++ T)) = h ++ groupLines (lines T) := by
  induction h with
  | nil => intro T _; simp
  | cons f h ih =>
    intro T hT
    have hf : WFField f := hwf f (by simp)
    have hh : ∀ g ∈ h, WFField g := fun g hg => hwf g (by simp [hg])
    have hT' : startsWSP (h.flatten ++ T) = false := by
      cases h with
      | nil => simpa using hT
      | cons g h' =>
        have : WFField g := hh g (by simp)
        simpa using wf_startsWSP this (h'.flatten ++ T)
    obtain ⟨first, conts, hne, hcw, hfeq, hl⟩ := wf_lines hf (h.flatten ++ T)
    have e : (f :: h).flatten ++ T = f ++ (h.flatten ++ T) := by simp
    rw [e, hl, groupLines_field conts hcw first _ hne
      (fun x hx => by rw [head_lines_startsWSP _ x hx]; exact hT'), ih hh T hT, ← hfeq]
    simp

theorem parseFields_wf (h : Header) (hwf : ∀ f ∈ h, WFField f) : parseFields h = .ok h := by
  induction h with
  | nil => rfl
  | cons f h ih =>
    have hf : WFField f := hwf f (by simp)
    simp [parseFields, wf_classify hf, ih (fun g hg => hwf g (by simp [hg]))]

/-- **C10 (header bytes).** Writing a header of RFC 5322-shaped raw fields into the spool and
parsing the file again yields exactly the same raw fields, in the same order - for any number of
fields, any folding, duplicates, 8-bit bytes, CR and NUL bytes, any lengths. -/
theorem C10_header_roundtrip (h : Header) (hwf : ∀ f ∈ h, WFField f) :
    readHeader (writeHeader h) = .ok h := by
  unfold readHeader writeHeader
  have hs : startsWSP (h.flatten ++ crlf) = false := by
    cases h with
    | nil => simp [startsWSP, isSpace]
    | cons g h' =>
      have : WFField g := hwf g (by simp)
      simpa using wf_startsWSP this (h'.flatten ++ crlf)
  rw [hs, groupLines_lines_header h hwf crlf (by simp [startsWSP, isSpace])]
  have : groupLines (lines crlf) = [] := by simp [lines, groupLines]
  simp [this, parseFields_wf h hwf]


/-! ## every header the parser accepts consists of well-formed fields -/

theorem mem_cons1 {c : Nat} {L : List Bytes} {l : Bytes} (h : l ∈ cons1 c L) :
    (∃ hd, L.head? = some hd ∧ l = c :: hd) ∨ (L = [] ∧ l = [c]) ∨ l ∈ L.tail := by
  cases L with
  | nil => simp [cons1] at h; exact Or.inr (Or.inl ⟨rfl, h⟩)
  | cons hd tl =>
    simp [cons1] at h
    rcases h with h | h
    · exact Or.inl ⟨hd, rfl, h⟩
    · exact Or.inr (Or.inr (by simpa using h))

theorem lines_no_lf (bs : Bytes) : ∀ l ∈ lines bs, 10 ∉ l := by
  induction bs using lines.induct with
  | case1 => intro l h; simp [lines] at h
  | case2 => intro l h; simp [lines] at h; subst h; simp
  | case3 c hc =>
    intro l h
    simp [lines, hc] at h; subst h; simpa using fun e => hc e.symm
  | case4 d rest ih =>
    intro l h
    simp [lines] at h
    rcases h with h | h
    · subst h; simp
    · exact ih l h
  | case5 c d rest hc hcd ih =>
    intro l h
    simp [lines, hcd] at h
    rcases h with h | h
    · subst h; simp
    · exact ih l h
  | case6 c d rest hc hcd ih =>
    intro l h
    simp only [lines, hc, hcd, if_false] at h
    rcases mem_cons1 h with ⟨hd, hhd, rfl⟩ | ⟨_, rfl⟩ | h
    · have : hd ∈ lines (d :: rest) := List.mem_of_mem_head? hhd
      have := ih hd this
      simp only [List.mem_cons, not_or]
      exact ⟨fun e => hc e.symm, this⟩
    · simpa using fun e => hc e.symm
    · exact ih l (List.mem_of_mem_tail h)

/-- `kv` is `first` followed by continuation lines -/
def GroupOf (first kv : Bytes) : Prop :=
  ∃ conts, kv = first ++ crlf ++ joinLines conts ∧ ∀ c ∈ conts, 10 ∉ c ∧ startsWSP c = true

theorem groupLines_struct : ∀ (ls : List Bytes), (∀ l ∈ ls, 10 ∉ l) →
    ∀ kv kvs, groupLines ls = kv :: kvs →
      (∃ l rest, ls = l :: rest ∧ l ≠ [] ∧ GroupOf l kv) ∧
      ∀ kv' ∈ kvs, ∃ first, first ≠ [] ∧ 10 ∉ first ∧ startsWSP first = false ∧ GroupOf first kv' := by
  intro ls
  induction ls with
  | nil => intro _ kv kvs h; simp [groupLines] at h
  | cons l ls ih =>
    intro hlf kv kvs h
    have hlf' : ∀ x ∈ ls, 10 ∉ x := fun x hx => hlf x (by simp [hx])
    by_cases hl : l = []
    · simp [groupLines, hl] at h
    · cases ls with
      | nil =>
        simp [groupLines, hl] at h
        obtain ⟨rfl, rfl⟩ := h
        exact ⟨⟨l, [], rfl, hl, [], by simp [joinLines], by simp⟩, by simp⟩
      | cons l2 ls2 =>
        have hl2 : 10 ∉ l2 := hlf l2 (by simp)
        by_cases hw : startsWSP l2 = true
        · cases hg : groupLines (l2 :: ls2) with
          | nil =>
            rw [groupLines] at h
            simp only [hl, if_false, hw, if_true, hg] at h
            simp at h
            obtain ⟨rfl, rfl⟩ := h
            exact ⟨⟨l, _, rfl, hl, [], by simp [joinLines], by simp⟩, by simp⟩
          | cons kv2 kvs2 =>
            rw [groupLines] at h
            simp only [hl, if_false, hw, if_true, hg] at h
            simp at h
            obtain ⟨rfl, rfl⟩ := h
            obtain ⟨⟨l', rest', hcons, _, conts2, hkv2, hc2⟩, hrest⟩ := ih hlf' kv2 kvs2 hg
            simp at hcons
            obtain ⟨rfl, rfl⟩ := hcons
            refine ⟨⟨l, _, rfl, hl, l2 :: conts2, ?_, ?_⟩, hrest⟩
            · rw [hkv2]; simp [joinLines]
            · intro c hc
              simp at hc
              rcases hc with rfl | hc
              · exact ⟨hl2, hw⟩
              · exact hc2 c hc
        · have hw' : startsWSP l2 = false := by simpa using hw
          rw [groupLines] at h
          simp only [hl, if_false, hw'] at h
          simp at h
          obtain ⟨rfl, rfl⟩ := h
          refine ⟨⟨l, _, rfl, hl, [], by simp [joinLines], by simp⟩, ?_⟩
          intro kv' hkv'
          cases hg : groupLines (l2 :: ls2) with
          | nil => simp [hg] at hkv'
          | cons kv2 kvs2 =>
            obtain ⟨⟨l', rest', hcons, hne, hgo⟩, hrest⟩ := ih hlf' kv2 kvs2 hg
            simp at hcons
            obtain ⟨rfl, rfl⟩ := hcons
            rw [hg] at hkv'
            simp at hkv'
            rcases hkv' with rfl | hkv'
            · exact ⟨l2, hne, hl2, hw', hgo⟩
            · exact hrest kv' hkv'

theorem keyPart_some : ∀ (kv k : Bytes), keyPart kv = some k → ∃ after, kv = k ++ 58 :: after := by
  intro kv
  induction kv with
  | nil => intro k h; simp [keyPart] at h
  | cons c r ih =>
    intro k h
    by_cases hc : c = 58
    · simp [keyPart, hc] at h; subst h; exact ⟨r, by simp [hc]⟩
    · simp [keyPart, hc] at h
      obtain ⟨k', hk', rfl⟩ := h
      obtain ⟨after, rfl⟩ := ih k' hk'
      exact ⟨after, by simp⟩

theorem dropWSP_decomp (s : Bytes) : ∃ lead, s = lead ++ dropWSP s ∧ ∀ b ∈ lead, isSpace b = true := by
  induction s with
  | nil => exact ⟨[], rfl, by simp⟩
  | cons c r ih =>
    by_cases hc : isSpace c = true
    · obtain ⟨lead, h1, h2⟩ := ih
      refine ⟨c :: lead, ?_, ?_⟩
      · simp only [dropWSP, hc, if_true, List.cons_append]; rw [← h1]
      · intro b hb
        simp at hb
        rcases hb with rfl | hb
        · exact hc
        · exact h2 b hb
    · exact ⟨[], by simp [dropWSP, hc], by simp⟩

theorem trim_decomp (s : Bytes) : ∃ lead trail, s = lead ++ trim s ++ trail ∧
    (∀ b ∈ lead, isSpace b = true) ∧ ∀ b ∈ trail, isSpace b = true := by
  obtain ⟨lead, h1, h2⟩ := dropWSP_decomp s
  obtain ⟨lead2, h3, h4⟩ := dropWSP_decomp (dropWSP s).reverse
  refine ⟨lead, lead2.reverse, ?_, h2, by simpa using h4⟩
  have : dropWSP s = trim s ++ lead2.reverse := by
    have := congrArg List.reverse h3
    simpa [trim] using this
  rw [List.append_assoc, ← this]
  exact h1

theorem prefix_split : ∀ (a x b y : Bytes) (c : Nat), a ++ x = b ++ c :: y → c ∉ a →
    ∃ r, b = a ++ r ∧ x = r ++ c :: y := by
  intro a
  induction a with
  | nil => intro x b y c h _; exact ⟨b, by simp, by simpa using h⟩
  | cons a0 a ih =>
    intro x b y c h hc
    simp at hc
    cases b with
    | nil =>
      simp at h
      exact absurd h.1.symm hc.1
    | cons b0 b =>
      simp at h
      obtain ⟨rfl, h⟩ := h
      obtain ⟨r, rfl, rfl⟩ := ih x b y c h hc.2
      exact ⟨r, by simp, rfl⟩

theorem wf_of_group {first kv : Bytes} (hlf : 10 ∉ first) (hws : startsWSP first = false)
    (hg : GroupOf first kv) (hk : classify kv = .keep) : WFField kv := by
  obtain ⟨conts, hkv, hconts⟩ := hg
  unfold Wire.classify at hk
  cases hkp : keyPart kv with
  | none => simp [hkp] at hk
  | some k =>
    simp only [hkp] at hk
    by_cases hall : (trim k).all validKeyByte = true
    · by_cases hnil : trim k = []
      · simp [hnil] at hk
      · obtain ⟨after, hafter⟩ := keyPart_some kv k hkp
        obtain ⟨lead, trail, hk3, hlead, htrail⟩ := trim_decomp k
        have hvalid : ∀ b ∈ trim k, validKeyByte b = true := by simpa using hall
        have h13 : 13 ∉ k := by
          rw [hk3]
          simp only [List.mem_append, not_or]
          refine ⟨⟨fun hm => ?_, fun hm => ?_⟩, fun hm => ?_⟩
          · have := hlead _ hm; simp [isSpace] at this
          · have := hvalid _ hm; simp [validKeyByte] at this
          · have := htrail _ hm; simp [isSpace] at this
        have heq : k ++ 58 :: after = first ++ 13 :: (10 :: joinLines conts) := by
          rw [← hafter, hkv]; simp
        obtain ⟨r, hfirst, hr⟩ := prefix_split k (58 :: after) first (10 :: joinLines conts) 13 heq h13
        cases r with
        | nil => simp at hr
        | cons r0 r' =>
          simp at hr
          obtain ⟨rfl, _⟩ := hr
          have hleadnil : lead = [] := by
            cases lead with
            | nil => rfl
            | cons c lt =>
              have hc : isSpace c = true := hlead c (by simp)
              rw [hfirst, hk3] at hws
              simp [startsWSP, hc] at hws
          subst hleadnil
          have hk4 : k = trim k ++ trail := by simpa using hk3
          refine ⟨trim k, trail, r', conts, ?_, hnil, hvalid, htrail, ?_, hconts⟩
          · rw [hkv, hfirst]
            generalize trim k = name at hk4
            subst hk4
            simp [crlf]
          · intro hm
            apply hlf
            rw [hfirst]
            simp [hm]
    · simp [hall] at hk

theorem parseFields_mem : ∀ (kvs : List Bytes) (h : Header), parseFields kvs = .ok h →
    ∀ f ∈ h, f ∈ kvs ∧ classify f = .keep := by
  intro kvs
  induction kvs with
  | nil => intro h hp f hf; simp [parseFields] at hp; subst hp; simp at hf
  | cons kv rest ih =>
    intro h hp f hf
    cases hc : Wire.classify kv with
    | noColon => simp [parseFields, hc] at hp
    | badKey => simp [parseFields, hc] at hp
    | skip =>
      simp [parseFields, hc] at hp
      have := ih h hp f hf
      exact ⟨by simp [this.1], this.2⟩
    | keep =>
      cases hr : parseFields rest with
      | error e => simp [parseFields, hc, hr] at hp
      | ok h' =>
        simp [parseFields, hc, hr] at hp
        subst hp
        simp at hf
        rcases hf with rfl | hf
        · exact ⟨by simp, hc⟩
        · have := ih h' hr f hf
          exact ⟨by simp [this.1], this.2⟩

/-- **C10 (the hypothesis is the parser's own output format).** Every raw field of every header
`ReadHeader` accepts - from ANY byte string, i.e. whatever a client sends to the SMTP endpoint -
is RFC 5322-shaped in the sense of `WFField`. -/
theorem C10_accepted_fields_wf (bs : Bytes) (h : Header) (hr : readHeader bs = .ok h) :
    ∀ f ∈ h, WFField f := by
  unfold readHeader at hr
  by_cases hs : startsWSP bs = true
  · simp [hs] at hr
  · have hs' : startsWSP bs = false := by simpa using hs
    simp only [hs', Bool.false_eq_true, if_false] at hr
    intro f hf
    obtain ⟨hmem, hkeep⟩ := parseFields_mem _ h hr f hf
    cases hg : groupLines (lines bs) with
    | nil => simp [hg] at hmem
    | cons kv kvs =>
      obtain ⟨⟨l, rest, hl, _, hgo⟩, hrest⟩ := groupLines_struct (lines bs) (lines_no_lf bs) kv kvs hg
      rw [hg] at hmem
      simp at hmem
      rcases hmem with rfl | hmem
      · have hlmem : l ∈ lines bs := by simp [hl]
        have hhead : (lines bs).head? = some l := by simp [hl]
        exact wf_of_group (lines_no_lf bs l hlmem) (by rw [head_lines_startsWSP bs l hhead]; exact hs') hgo hkeep
      · obtain ⟨first, _, h10, hws, hgo⟩ := hrest f hmem
        exact wf_of_group h10 hws hgo hkeep

/-- **C10 (header bytes, stated over the parser).** Whatever header the SMTP endpoint's parser
accepts, from any input bytes: storing it in the spool and reading it back gives the same raw
fields - so `WriteHeader` of what the target receives on a retry equals `WriteHeader` of what was
accepted, byte for byte. -/
theorem C10_parser_accepted_header_roundtrip (bs : Bytes) (h : Header) (hr : readHeader bs = .ok h) :
    readHeader (writeHeader h) = .ok h :=
  C10_header_roundtrip h (C10_accepted_fields_wf bs h hr)

/-- the executable test used by the driver decides `WFField` -/
theorem C10_wfFieldB_iff (f : Bytes) : wfFieldB f = true ↔ WFField f := by
  constructor
  · intro h
    unfold wfFieldB at h
    cases hr : readHeader (f ++ crlf) with
    | error e => simp [hr] at h
    | ok hd =>
      match hd, hr with
      | [], hr => simp [hr] at h
      | [g], hr =>
        simp [hr] at h
        subst h
        exact C10_accepted_fields_wf _ _ hr g (by simp)
      | _ :: _ :: _, hr => simp [hr] at h
  · intro h
    have := C10_header_roundtrip [f] (by simpa using h)
    simp [writeHeader] at this
    simp [wfFieldB, this]

/-! ## T1: obligations over the regenerated field table and code skeleton (finite tables) -/

/-- the field visibility `encoding/json` has in the CURRENT tree -/
def genVis : Vis := visible Generated.MetaFields.fields

/-- **C10 / T1.** Every must-preserve field (sender, pending recipients, SMTPUTF8, REQUIRETLS,
TLS-Required override, original-recipient mapping, original sender, message id) is an exported
field of a JSON-round-trippable kind, not tagged `json:"-"`, not shadowed by a sibling with the
same key, inside structs that are themselves visible. -/
theorem C10_must_preserve_fields_json_visible :
    ∀ m ∈ Expect.MetaFields.mustPreserve,
      visible Generated.MetaFields.fields m.1 = true ∧
      (∃ e, find Generated.MetaFields.fields m.1 = some e ∧ e.kind = m.2.1 ∧ e.elem = m.2.2 ∧
        keyUnique Generated.MetaFields.fields e = true) := by decide

def credOK (t : List FieldInfo) : Bool :=
  t.all fun e => Expect.MetaFields.connPath.isPrefixOf e.path || !credentialMarked e ||
    Expect.MetaFields.reviewedNotCredential.contains e.path

theorem credOK_generated : credOK Generated.MetaFields.fields = true := by decide

/-- **C10 / T1.** Every field reachable from `QueueMetadata` whose name marks it as something a
client authenticated with (`Auth*`, `*Password*`, `*Secret*`, `*SASL*`, `*Credential*`, `*Token*` …)
lies below `MsgMeta.Conn` - the one field the encoder sets to nil - or is on the reviewed list
(`SMTPOpts.Auth`, the RFC 4954 envelope parameter). -/
theorem C10_no_credential_field_reachable :
    ∀ e ∈ Generated.MetaFields.fields, credentialMarked e = true →
      (Expect.MetaFields.connPath <+: e.path ∨ e.path ∈ Expect.MetaFields.reviewedNotCredential) := by
  intro e he hm
  have h := credOK_generated
  simp only [credOK, List.all_eq_true] at h
  have := h e he
  simp [hm] at this
  exact this

/-- the markers do mark the two credential fields of `ConnState` (the rule is not vacuous) -/
example : [["MsgMeta", "Conn", "AuthUser"], ["MsgMeta", "Conn", "AuthPassword"], ["MsgMeta", "SMTPOpts", "Auth"]].all
    (fun p => Generated.MetaFields.fields.any fun e => e.path == p && credentialMarked e) = true := by decide

/-- **C10 / T1.** `updateMetadataOnDisk` encodes a COPY whose `MsgMeta.Conn` was set to nil (after
`MsgMeta` itself was replaced by a copy), `readMessageMeta` decodes into fresh structs,
`DeepCopy` is a struct copy, and nothing else in the package writes files: the code skeleton
regenerated from the current tree is the one `encodeMeta`/`step` were written from. -/
theorem C10_encoder_skeleton_as_modelled :
    Generated.MetaEnc.updateSkeleton = Expect.MetaFields.updateSkeleton ∧
    Generated.MetaEnc.readSkeleton = Expect.MetaFields.readSkeleton ∧
    Generated.MetaEnc.deepCopyBody = Expect.MetaFields.deepCopyBody ∧
    Generated.MetaEnc.writers = Expect.MetaFields.writers := by decide

/-! ## the spool under histories -/

/-- the visibility facts `encodeMeta` consults -/
structure VisOK (vis : Vis) : Prop where
  sender : vis ["From"] = true
  to : vis ["To"] = true
  msgMeta : vis ["MsgMeta"] = true
  originalRcpts : vis ["MsgMeta", "OriginalRcpts"] = true
  smtpOpts : vis ["MsgMeta", "SMTPOpts"] = true
  utf8 : vis ["MsgMeta", "SMTPOpts", "UTF8"] = true
  requireTLS : vis ["MsgMeta", "SMTPOpts", "RequireTLS"] = true
  tro : vis ["MsgMeta", "TLSRequireOverride"] = true

/-- T1: they hold of the current tree -/
theorem visOK_generated : VisOK genVis := by
  constructor <;> decide

/-- The envelope consists of strings `encoding/json` gives back unchanged (valid UTF-8): the
endpoint refuses other addresses (fix commit; see notes/C10.md). -/
structure EnvelopeSafe (co : Str → Str) (a : Accepted) : Prop where
  sender : co a.qmeta.sender = a.qmeta.sender
  to : ∀ r ∈ a.qmeta.to, co r = r
  orc : ∀ q ∈ a.qmeta.msgMeta.originalRcpts, co q.1 = q.1 ∧ co q.2 = q.2

/-! ### every address once per attempt (`seenRcpts`, fix 6b03754) -/

/-- collapsing duplicates neither loses nor invents a recipient -/
theorem mem_dedup {r : Str} : ∀ {l : List Str}, r ∈ dedup l ↔ r ∈ l
  | [] => by simp [dedup]
  | x :: l => by
    have ih := @mem_dedup r l
    by_cases h : r = x
    · simp [dedup, h]
    · simp [dedup, List.mem_filter, ih, h]

/-- ... and names every address once -/
theorem nodup_dedup : ∀ l : List Str, (dedup l).Nodup
  | [] => by simp [dedup]
  | x :: l => by
    have ih := nodup_dedup l
    simp only [dedup, List.nodup_cons]
    exact ⟨by simp [List.mem_filter], ih.filter _⟩

/-- ... in the order of the list it was given (what is dropped is dropped from behind: see
`dedup_cons`) -/
theorem dedup_sublist : ∀ l : List Str, (dedup l).Sublist l
  | [] => by simp [dedup]
  | x :: l => by
    simp only [dedup]
    exact ((List.filter_sublist (l := dedup l)).trans (dedup_sublist l)).cons_cons x

/-- a list without duplicates is left alone -/
theorem dedup_of_nodup : ∀ {l : List Str}, l.Nodup → dedup l = l
  | [], _ => by simp [dedup]
  | x :: l, h => by
    have hx : x ∉ l := (List.nodup_cons.mp h).1
    have ih := dedup_of_nodup (List.nodup_cons.mp h).2
    simp only [dedup, ih]
    congr 1
    exact List.filter_eq_self.mpr (fun y hy => by
      have : y ≠ x := fun e => hx (e ▸ hy)
      simpa using this)

theorem dedup_idem (l : List Str) : dedup (dedup l) = dedup l := dedup_of_nodup (nodup_dedup l)

/-- the code's form of the walk - skip an address already classified, classify the others one by
one (`keep` = "retry") - is the collapsed list of the entries classified "retry" -/
theorem dedup_filter (keep : Str → Bool) (l : List Str) :
    dedup (l.filter keep) = (dedup l).filter keep := by
  induction l with
  | nil => simp [dedup]
  | cons y l ih =>
    by_cases hp : keep y = true
    · simp only [List.filter_cons, hp, if_true, dedup, ih, List.filter_filter]
      congr 1
      exact List.filter_congr (fun z _ => Bool.and_comm _ _)
    · have hp' : keep y = false := by simpa using hp
      simp only [List.filter_cons, hp', dedup, List.filter_filter, Bool.false_eq_true, if_false]
      rw [ih]
      refine List.filter_congr (fun z _ => ?_)
      by_cases hz : z = y
      · simp [hz, hp']
      · simp [hz]

/-- the FIRST entry naming an address is the one that stays: the head is kept, every later entry
naming the same address is dropped -/
theorem dedup_cons (x : Str) (l : List Str) : dedup (x :: l) = x :: dedup (l.filter (· != x)) := by
  simp [dedup, dedup_filter]

theorem mem_pending {next : List Str → List Str} {to : List Str} {r : Str} :
    r ∈ pending next to ↔ r ∈ next to := mem_dedup

/-- **C10 (pending recipients after an attempt).** What `tryDelivery` keeps for the next attempt is
the SET of the entries it classified "retry" - nobody disappears, nobody appears -, every address
once, in the order of first occurrence; an envelope that lists nobody twice is kept as classified. -/
theorem C10_pending_is_the_retry_set_each_once (next : List Str → List Str) (to : List Str) :
    (∀ r, r ∈ pending next to ↔ r ∈ next to) ∧ (pending next to).Nodup ∧
    (pending next to).Sublist (next to) ∧
    (∀ x l, next to = x :: l → pending next to = x :: dedup (l.filter (· != x))) ∧
    ((next to).Nodup → pending next to = next to) :=
  ⟨fun _ => mem_dedup, nodup_dedup _, dedup_sublist _,
    fun x l h => by simp only [pending, h, dedup_cons], fun h => dedup_of_nodup h⟩

/-- the same for the addresses reported as given up (`failedRcpts`) -/
theorem C10_given_up_each_once (dsn : Dsn) (to : List Str) :
    (∀ r, r ∈ givenUp dsn to ↔ r ∈ dsn.failed to) ∧ (givenUp dsn to).Nodup :=
  ⟨fun _ => mem_dedup, nodup_dedup _⟩

example : dedup [2, 3, 2] = [2, 3] := by decide
example : dedup [3, 2, 3, 3, 2, 5] = [3, 2, 5] := by decide
example : pending (fun to => to.filter (· != 3)) [2, 3, 2, 4, 4] = [2, 4] := by decide

/-- the retry list of an attempt is drawn from the recipients it was given
(`tryDelivery` builds `newRcpts` by walking `meta.To`) -/
def StepOK : Step → Prop
  | .restart => True
  | .attempt _ next _ => ∀ to r, r ∈ next to → r ∈ to
  | .panicked _ _ => True

/-- the downstream target does not panic in this step -/
def NoPanic : Step → Prop
  | .panicked _ _ => False
  | _ => True

/-- what a target that panicked inside an attempt had been handed until then is the accepted
message too: sender, options, original-recipient mapping, and - if the body stage was reached -
the accepted header and body -/
structure PanOK (a : Accepted) (s : Seen) : Prop where
  sender : s.sender = a.qmeta.sender
  utf8 : s.utf8 = a.qmeta.msgMeta.utf8
  requireTLS : s.requireTLS = a.qmeta.msgMeta.requireTLS
  tro : s.tlsRequireOverride = a.qmeta.msgMeta.tlsRequireOverride
  orc : s.originalRcpts = a.qmeta.msgMeta.originalRcpts
  content : s.content = none ∨ s.content = some (a.hdr, a.body)

/-- metadata `m` carries the accepted envelope with pending list `to` -/
structure Agrees (a : Accepted) (to : List Str) (m : QMeta) : Prop where
  sender : m.sender = a.qmeta.sender
  to : m.to = to
  utf8 : m.msgMeta.utf8 = a.qmeta.msgMeta.utf8
  requireTLS : m.msgMeta.requireTLS = a.qmeta.msgMeta.requireTLS
  tro : m.msgMeta.tlsRequireOverride = a.qmeta.msgMeta.tlsRequireOverride
  orc : m.msgMeta.originalRcpts = a.qmeta.msgMeta.originalRcpts

theorem map_id_of_forall {α} (f : α → α) (l : List α) (h : ∀ x ∈ l, f x = x) : l.map f = l := by
  induction l with
  | nil => rfl
  | cons x l ih =>
    simp [h x (by simp), ih (fun y hy => h y (by simp [hy]))]

theorem agrees_encode {vis : Vis} {co : Str → Str} {a : Accepted} (hv : VisOK vis)
    (hs : EnvelopeSafe co a) {to to' : List Str} {m : QMeta} (hm : Agrees a to m)
    (hto : ∀ r ∈ to', co r = r) :
    Agrees a to' (encodeMeta vis co { m with to := to' }) := by
  have horc : (a.qmeta.msgMeta.originalRcpts.map fun q => (co q.1, co q.2)) =
      a.qmeta.msgMeta.originalRcpts :=
    map_id_of_forall _ _ (fun q hq => by
      have := hs.orc q hq
      cases q; simp at this ⊢; exact this)
  constructor
  · simp [encodeMeta, keepS, hv.sender, hm.sender, hs.sender]
  · simp [encodeMeta, keepL, hv.to, map_id_of_forall co to' hto]
  · simp [encodeMeta, keepB, hv.msgMeta, hv.smtpOpts, hv.utf8, hm.utf8]
  · simp [encodeMeta, keepB, hv.msgMeta, hv.smtpOpts, hv.requireTLS, hm.requireTLS]
  · simp [encodeMeta, keepB, hv.msgMeta, hv.tro, hm.tro]
  · simp [encodeMeta, keepL, hv.msgMeta, hv.originalRcpts, hm.orc, horc]

/-- invariant of the queue's state while the message is in the spool with pending list `to` -/
structure Inv (a : Accepted) (to : List Str) (s : St) : Prop where
  sched : s.scheduled = true
  disk : ∃ d, s.disk = some d ∧ d.hdrFile = writeHeader a.hdr ∧ d.bodyFile = a.body ∧
    Agrees a to d.metaFile ∧ d.metaFile.msgMeta.conn = none
  slot : ∀ m h, s.slot = some (m, h) → Agrees a to m ∧ h = a.hdr

theorem seens_append (x y : List Ev) : seens (x ++ y) = seens x ++ seens y := by
  induction x with
  | nil => rfl
  | cons e x ih => cases e <;> simp [seens, ih]

theorem panSeens_append (x y : List Ev) : panSeens (x ++ y) = panSeens x ++ panSeens y := by
  induction x with
  | nil => rfl
  | cons e x ih => cases e <;> simp [panSeens, ih]

theorem docs_append (x y : List Ev) : docs (x ++ y) = docs x ++ docs y := by
  induction x with
  | nil => rfl
  | cons e x ih => cases e <;> simp [docs, ih]

theorem reports_append (x y : List Ev) : reports (x ++ y) = reports x ++ reports y := by
  induction x with
  | nil => rfl
  | cons e x ih => cases e <;> simp [reports, ih]

/-- `emitDSN` shows nothing to the downstream target and writes nothing to the spool -/
theorem seens_emitDSN (m : QMeta) (h : Header) (dsn : Option Dsn) : seens (emitDSN m h dsn) = [] := by
  cases dsn with
  | none => simp [emitDSN, seens]
  | some c =>
    simp only [emitDSN]
    split
    · simp [seens]
    · split
      · simp [seens]
      · split <;> simp [seens]

theorem docs_emitDSN (m : QMeta) (h : Header) (dsn : Option Dsn) : docs (emitDSN m h dsn) = [] := by
  cases dsn with
  | none => simp [emitDSN, docs]
  | some c =>
    simp only [emitDSN]
    split
    · simp [docs]
    · split
      · simp [docs]
      · split <;> simp [docs]

/-- a report quotes the header `emitDSN` was given, goes to `meta.From`, in the format of the
original message's SMTPUTF8 flag -/
theorem reports_emitDSN (m : QMeta) (h : Header) (dsn : Option Dsn) :
    ∀ r ∈ reports (emitDSN m h dsn), r = ⟨m.sender, m.msgMeta.utf8, h⟩ := by
  intro r hr
  cases dsn with
  | none => simp [emitDSN, reports] at hr
  | some c =>
    simp only [emitDSN] at hr
    split at hr
    · simp [reports] at hr
    · split at hr
      · simp [reports] at hr
      · split at hr
        · simpa [reports] using hr
        · simp [reports] at hr

theorem runFrom_gone (vis : Vis) (co : Str → Str) (steps : List Step) :
    ∀ s : St, s.disk = none → (runFrom vis co s steps).2 = [] ∧ (runFrom vis co s steps).1.disk = none := by
  induction steps with
  | nil => intro s h; simp [runFrom, h]
  | cons st rest ih =>
    intro s h
    have hstep : step vis co s st = (s, []) := by
      cases st <;> simp [step, h]
    simp only [runFrom, hstep]
    have := ih s h
    simp [this]

theorem seenOf_agrees {a : Accepted} {to : List Str} {m : QMeta} (hm : Agrees a to m) (b : Bool) :
    seenOf m a.hdr a.body b =
      { sender := a.qmeta.sender, to := to, utf8 := a.qmeta.msgMeta.utf8,
        requireTLS := a.qmeta.msgMeta.requireTLS,
        tlsRequireOverride := a.qmeta.msgMeta.tlsRequireOverride,
        originalRcpts := a.qmeta.msgMeta.originalRcpts,
        content := if b then some (a.hdr, a.body) else none } := by
  simp [seenOf, hm.sender, hm.to, hm.utf8, hm.requireTLS, hm.tro, hm.orc]

theorem panSeens_emitDSN (m : QMeta) (h : Header) (dsn : Option Dsn) : panSeens (emitDSN m h dsn) = [] := by
  cases dsn with
  | none => simp [emitDSN, panSeens]
  | some c =>
    simp only [emitDSN]
    split
    · simp [panSeens]
    · split
      · simp [panSeens]
      · split <;> simp [panSeens]

theorem panSeens_attempt (vis : Vis) (co : Str → Str) (d : Disk) (m : QMeta) (h : Header)
    (acc : List Str → Bool) (next : List Str → List Str) (dsn : Option Dsn) :
    panSeens (attempt vis co d m h acc next dsn).2 = [] := by
  unfold attempt
  by_cases hne : pending next m.to = []
  · simp [hne, panSeens, panSeens_append, panSeens_emitDSN]
  · simp [hne, panSeens, panSeens_append, panSeens_emitDSN]

theorem seenUpTo_panOK {a : Accepted} {to : List Str} {m : QMeta} (hm : Agrees a to m)
    (stage : Stage) (b : Bool) : PanOK a (seenUpTo m a.hdr a.body stage b) := by
  cases stage <;> cases b <;>
    exact ⟨by simp [seenUpTo, seenOf, hm.sender], by simp [seenUpTo, seenOf, hm.utf8],
      by simp [seenUpTo, seenOf, hm.requireTLS], by simp [seenUpTo, seenOf, hm.tro],
      by simp [seenUpTo, seenOf, hm.orc], by simp [seenUpTo, seenOf]⟩

/-- what one attempt from an invariant state does -/
theorem attempt_spec {vis : Vis} {co : Str → Str} {a : Accepted} (hv : VisOK vis)
    (hs : EnvelopeSafe co a) {to : List Str} (hsafe : ∀ r ∈ to, co r = r)
    {d : Disk} {m : QMeta} (hd1 : d.hdrFile = writeHeader a.hdr) (hd2 : d.bodyFile = a.body)
    (hm : Agrees a to m) (acc : List Str → Bool) (next : List Str → List Str) (dsn : Option Dsn)
    (hn : ∀ r, r ∈ pending next to → r ∈ to) :
    seens (attempt vis co d m a.hdr acc next dsn).2 =
      [{ sender := a.qmeta.sender, to := to, utf8 := a.qmeta.msgMeta.utf8,
         requireTLS := a.qmeta.msgMeta.requireTLS,
         tlsRequireOverride := a.qmeta.msgMeta.tlsRequireOverride,
         originalRcpts := a.qmeta.msgMeta.originalRcpts,
         content := if acc to then some (a.hdr, a.body) else none }] ∧
    (pending next to = [] → (attempt vis co d m a.hdr acc next dsn).1.disk = none) ∧
    (pending next to ≠ [] → Inv a (pending next to) (attempt vis co d m a.hdr acc next dsn).1) := by
  have hmto := hm.to
  refine ⟨?_, ?_, ?_⟩
  · unfold attempt
    by_cases hne : pending next to = []
    · simp [hne, seens, seens_append, seens_emitDSN, hd2, seenOf_agrees hm, hmto]
    · simp [hne, seens, seens_append, seens_emitDSN, hd2, seenOf_agrees hm, hmto]
  · intro hne
    unfold attempt
    simp [hmto, hne]
  · intro hne
    unfold attempt
    simp only [hmto, hne, if_false]
    have hto' : ∀ r ∈ pending next to, co r = r := fun r hr => hsafe r (hn r hr)
    have hag := agrees_encode hv hs hm hto'
    exact ⟨rfl, ⟨_, rfl, hd1, hd2, hag, by simp [encodeMeta]⟩, by intro m' h' hc; simp at hc⟩

theorem runFrom_spec {vis : Vis} {co : Str → Str} {a : Accepted} (hv : VisOK vis)
    (hwf : ∀ f ∈ a.hdr, WFField f) (hs : EnvelopeSafe co a) (steps : List Step)
    (hsteps : ∀ st ∈ steps, StepOK st) :
    ∀ (to : List Str) (s : St), (∀ r ∈ to, co r = r) → Inv a to s →
      seens (runFrom vis co s steps).2 = spec a to (attemptsOf steps) ∧
      (∀ d, (runFrom vis co s steps).1.disk = some d →
        d.hdrFile = writeHeader a.hdr ∧ d.bodyFile = a.body ∧ d.metaFile.msgMeta.conn = none) ∧
      (∀ ps ∈ panSeens (runFrom vis co s steps).2, PanOK a ps) := by
  induction steps with
  | nil =>
    intro to s _ hi
    obtain ⟨d, hd, h1, h2, _, h4⟩ := hi.disk
    refine ⟨by simp [runFrom, seens, attemptsOf, spec], ?_, by simp [runFrom, panSeens]⟩
    intro d' hd'
    simp [runFrom, hd] at hd'
    subst hd'
    exact ⟨h1, h2, h4⟩
  | cons st rest ih =>
    intro to s hsafe hi
    have hrest : ∀ st ∈ rest, StepOK st := fun x hx => hsteps x (by simp [hx])
    obtain ⟨d, hd, h1, h2, hag, h4⟩ := hi.disk
    cases st with
    | restart =>
      have hstep : step vis co s .restart = ({ s with slot := none, scheduled := true }, []) := by
        simp [step, hd]
      have hi' : Inv a to { s with slot := none, scheduled := true } :=
        ⟨rfl, ⟨d, hd, h1, h2, hag, h4⟩, by intro m h hc; simp at hc⟩
      have := ih hrest to _ hsafe hi'
      simp only [runFrom, hstep, attemptsOf]
      simpa using this
    | panicked stage acc =>
      have key : ∃ m, Agrees a to m ∧ step vis co s (.panicked stage acc) = panicAttempt d m a.hdr stage acc := by
        cases hslot : s.slot with
        | some mh =>
          obtain ⟨m, h⟩ := mh
          obtain ⟨hm, hh⟩ := hi.slot m h hslot
          exact ⟨m, hm, by simp [step, hd, hi.sched, hslot, hh]⟩
        | none =>
          refine ⟨d.metaFile, hag, ?_⟩
          simp [step, hd, hi.sched, hslot, h1, C10_header_roundtrip a.hdr hwf]
      obtain ⟨m, hm, hstep⟩ := key
      have hg := runFrom_gone vis co rest (panicAttempt d m a.hdr stage acc).1 rfl
      simp only [runFrom, hstep, attemptsOf, spec, seens_append, panSeens_append, hg.1, hg.2]
      refine ⟨by simp [panicAttempt, seens], ?_, ?_⟩
      · intro d' hd'
        cases hd'
      · intro ps hps
        simp [panicAttempt, panSeens] at hps
        subst hps
        rw [h2]
        exact seenUpTo_panOK hm stage _
    | attempt acc next dsn =>
      have hok : ∀ r, r ∈ pending next to → r ∈ to := by
        have := hsteps (.attempt acc next dsn) (by simp)
        exact fun r hr => this to r (mem_pending.mp hr)
      -- the attempt runs with metadata agreeing with the accepted envelope and the accepted header
      have key : ∃ m, Agrees a to m ∧ step vis co s (.attempt acc next dsn) = attempt vis co d m a.hdr acc next dsn := by
        cases hslot : s.slot with
        | some mh =>
          obtain ⟨m, h⟩ := mh
          obtain ⟨hm, hh⟩ := hi.slot m h hslot
          exact ⟨m, hm, by simp [step, hd, hi.sched, hslot, hh]⟩
        | none =>
          refine ⟨d.metaFile, hag, ?_⟩
          simp [step, hd, hi.sched, hslot, h1, C10_header_roundtrip a.hdr hwf]
      obtain ⟨m, hm, hstep⟩ := key
      obtain ⟨hseen, hgone, hinv⟩ := attempt_spec hv hs hsafe h1 h2 hm acc next dsn hok
      have hpan := panSeens_attempt vis co d m a.hdr acc next dsn
      simp only [runFrom, hstep, attemptsOf, spec, seens_append, hseen, panSeens_append, hpan]
      by_cases hne : pending next to = []
      · have hg := runFrom_gone vis co rest _ (hgone hne)
        simp [hne, hg.1, seens, hg.2, panSeens]
      · have hsafe' : ∀ r ∈ pending next to, co r = r := fun r hr => hsafe r (hok r hr)
        have := ih hrest (pending next to) _ hsafe' (hinv hne)
        simp [hne, this.1]
        exact this.2

theorem accept_inv {vis : Vis} {co : Str → Str} {a : Accepted} (hv : VisOK vis)
    (hs : EnvelopeSafe co a) : Inv a a.qmeta.to (accept vis co a).1 := by
  have h0 : Agrees a a.qmeta.to a.qmeta := ⟨rfl, rfl, rfl, rfl, rfl, rfl⟩
  have := agrees_encode hv hs h0 hs.to
  refine ⟨rfl, ⟨_, rfl, rfl, rfl, ?_, by simp [encodeMeta]⟩, ?_⟩
  · simpa using this
  · intro m h hc
    simp [accept] at hc
    obtain ⟨rfl, rfl⟩ := hc
    exact ⟨h0, rfl⟩

/-- **C10 (round trip), general form**: for any field visibility satisfying `VisOK`. -/
theorem roundtrip_of_visOK {vis : Vis} (hv : VisOK vis) (co : Str → Str) (a : Accepted)
    (hwf : ∀ f ∈ a.hdr, WFField f) (hs : EnvelopeSafe co a) (steps : List Step)
    (hsteps : ∀ st ∈ steps, StepOK st) :
    seens (run vis co a steps).2 = spec a a.qmeta.to (attemptsOf steps) := by
  have := (runFrom_spec hv hwf hs steps hsteps a.qmeta.to _ hs.to (accept_inv hv hs)).1
  simp only [run, seens_append]
  simpa [accept, seens] using this

/-- **C10 (round trip).** With the field visibility of the CURRENT tree (regenerated table): for
every accepted message - any header of RFC 5322-shaped raw fields, any body bytes, any envelope
whose strings survive `encoding/json` - and every history of delivery attempts and restarts (any
length, any target answers and retry decisions), what the downstream target is handed in the
k-th attempt is the accepted header and body byte for byte, the accepted sender, SMTPUTF8,
REQUIRETLS, TLS-Required override and original-recipient mapping, and exactly the recipients
the previous attempt left pending - whether the attempt is served from memory (first attempt) or
from the spool (retries, after any number of restarts). -/
theorem C10_roundtrip (co : Str → Str) (a : Accepted) (hwf : ∀ f ∈ a.hdr, WFField f)
    (hs : EnvelopeSafe co a) (steps : List Step) (hsteps : ∀ st ∈ steps, StepOK st) :
    seens (run genVis co a steps).2 = spec a a.qmeta.to (attemptsOf steps) :=
  roundtrip_of_visOK visOK_generated co a hwf hs steps hsteps

/-- **C10 (spool content).** While the message is in the spool its three files are: the accepted
header as written by `WriteHeader`, the accepted body, and a metadata document without
connection state - nothing else, after any history. -/
theorem C10_spool_content (co : Str → Str) (a : Accepted) (hwf : ∀ f ∈ a.hdr, WFField f)
    (hs : EnvelopeSafe co a) (steps : List Step) (hsteps : ∀ st ∈ steps, StepOK st) :
    ∀ d, (run genVis co a steps).1.disk = some d →
      d.hdrFile = writeHeader a.hdr ∧ d.bodyFile = a.body ∧ d.metaFile.msgMeta.conn = none := by
  have := (runFrom_spec visOK_generated hwf hs steps hsteps a.qmeta.to _ hs.to
    (accept_inv visOK_generated hs)).2.1
  intro d hd
  exact this d (by simpa [run] using hd)

/-- While recipients are pending the message stays in the spool, scheduled, with its files intact
and the pending list in its metadata (invariant carried to the END of any history). -/
theorem runFrom_pending {vis : Vis} {co : Str → Str} {a : Accepted} (hv : VisOK vis)
    (hwf : ∀ f ∈ a.hdr, WFField f) (hs : EnvelopeSafe co a) (steps : List Step)
    (hsteps : ∀ st ∈ steps, StepOK st) (hnp : ∀ st ∈ steps, NoPanic st) :
    ∀ (to : List Str) (s : St), (∀ r ∈ to, co r = r) → Inv a to s →
      pendingAfter to (attemptsOf steps) ≠ [] →
      Inv a (pendingAfter to (attemptsOf steps)) (runFrom vis co s steps).1 := by
  induction steps with
  | nil =>
    intro to s _ hi _
    simpa [runFrom, attemptsOf, pendingAfter] using hi
  | cons st rest ih =>
    intro to s hsafe hi hp
    have hrest : ∀ st ∈ rest, StepOK st := fun x hx => hsteps x (by simp [hx])
    have hnprest : ∀ st ∈ rest, NoPanic st := fun x hx => hnp x (by simp [hx])
    obtain ⟨d, hd, h1, h2, hag, h4⟩ := hi.disk
    cases st with
    | panicked stage acc => exact absurd (hnp (.panicked stage acc) (by simp)) (by simp [NoPanic])
    | restart =>
      have hstep : step vis co s .restart = ({ s with slot := none, scheduled := true }, []) := by
        simp [step, hd]
      have hi' : Inv a to { s with slot := none, scheduled := true } :=
        ⟨rfl, ⟨d, hd, h1, h2, hag, h4⟩, by intro m h hc; simp at hc⟩
      simp only [attemptsOf] at hp ⊢
      have := ih hrest hnprest to _ hsafe hi' hp
      simpa [runFrom, hstep] using this
    | attempt acc next dsn =>
      have hok : ∀ r, r ∈ pending next to → r ∈ to := by
        have := hsteps (.attempt acc next dsn) (by simp)
        exact fun r hr => this to r (mem_pending.mp hr)
      have key : ∃ m, Agrees a to m ∧ step vis co s (.attempt acc next dsn) = attempt vis co d m a.hdr acc next dsn := by
        cases hslot : s.slot with
        | some mh =>
          obtain ⟨m, h⟩ := mh
          obtain ⟨hm, hh⟩ := hi.slot m h hslot
          exact ⟨m, hm, by simp [step, hd, hi.sched, hslot, hh]⟩
        | none =>
          refine ⟨d.metaFile, hag, ?_⟩
          simp [step, hd, hi.sched, hslot, h1, C10_header_roundtrip a.hdr hwf]
      obtain ⟨m, hm, hstep⟩ := key
      obtain ⟨_, _, hinv⟩ := attempt_spec hv hs hsafe h1 h2 hm acc next dsn hok
      simp only [attemptsOf, pendingAfter] at hp ⊢
      by_cases hne : pending next to = []
      · simp [hne] at hp
      · simp only [hne, if_false] at hp ⊢
        have hsafe' : ∀ r ∈ pending next to, co r = r := fun r hr => hsafe r (hok r hr)
        have := ih hrest hnprest (pending next to) _ hsafe' (hinv hne) hp
        simpa [runFrom, hstep] using this

/-- **C10 (a pending message is not dropped).** The other half of "the target is handed the
message for the recipients still pending": after ANY history of attempts and restarts (also a
restart before the first attempt, also several in a row) - whatever the header, the body (empty
included) and the envelope - as long as the last attempt that took place left somebody pending,
the message is still in the spool and still scheduled, its header and body files are the accepted
bytes, and its metadata lists exactly the pending recipients with the accepted sender.  Together
with `C10_roundtrip` (the k-th attempt step of the history IS an attempt on the target while
somebody is pending): a message leaves the spool only through an attempt that leaves nobody
pending. -/
theorem C10_pending_message_kept (co : Str → Str) (a : Accepted) (hwf : ∀ f ∈ a.hdr, WFField f)
    (hs : EnvelopeSafe co a) (steps : List Step) (hsteps : ∀ st ∈ steps, StepOK st)
    (hnp : ∀ st ∈ steps, NoPanic st)
    (hp : pendingAfter a.qmeta.to (attemptsOf steps) ≠ []) :
    (run genVis co a steps).1.scheduled = true ∧
    ∃ d, (run genVis co a steps).1.disk = some d ∧
      d.hdrFile = writeHeader a.hdr ∧ d.bodyFile = a.body ∧
      d.metaFile.to = pendingAfter a.qmeta.to (attemptsOf steps) ∧
      d.metaFile.sender = a.qmeta.sender := by
  have hi := runFrom_pending visOK_generated hwf hs steps hsteps hnp a.qmeta.to _ hs.to
    (accept_inv visOK_generated hs) hp
  have hrun : (run genVis co a steps).1 = (runFrom genVis co (accept genVis co a).1 steps).1 := by
    simp [run]
  rw [hrun]
  obtain ⟨d, hd, h1, h2, hag, _⟩ := hi.disk
  exact ⟨hi.sched, d, hd, h1, h2, hag.to, hag.sender⟩

/-- contrapositive: the spool entry is gone only when nobody is pending any more -/
theorem C10_removed_only_when_done (co : Str → Str) (a : Accepted) (hwf : ∀ f ∈ a.hdr, WFField f)
    (hs : EnvelopeSafe co a) (steps : List Step) (hsteps : ∀ st ∈ steps, StepOK st)
    (hnp : ∀ st ∈ steps, NoPanic st)
    (hgone : (run genVis co a steps).1.disk = none) :
    pendingAfter a.qmeta.to (attemptsOf steps) = [] := by
  refine Classical.byContradiction fun hp => ?_
  obtain ⟨_, d, hd, _⟩ := C10_pending_message_kept co a hwf hs steps hsteps hnp hp
  rw [hgone] at hd
  cases hd

/-- the number of attempts the target sees is the number of attempt steps up to and including the
first one that leaves nobody pending (so: none is skipped while somebody is pending) -/
theorem spec_length_of_pending (a : Accepted) :
    ∀ (atts : List ((List Str → Bool) × (List Str → List Str))) (to : List Str),
      pendingAfter to atts ≠ [] → (spec a to atts).length = atts.length := by
  intro atts
  induction atts with
  | nil => intro to _; simp [spec]
  | cons x rest ih =>
    intro to hp
    obtain ⟨acc, next⟩ := x
    simp only [pendingAfter] at hp
    by_cases hne : pending next to = []
    · simp [hne] at hp
    · simp only [hne, if_false] at hp
      simp [spec, hne, ih (pending next to) hp]

theorem C10_every_attempt_step_is_an_attempt (co : Str → Str) (a : Accepted)
    (hwf : ∀ f ∈ a.hdr, WFField f) (hs : EnvelopeSafe co a) (steps : List Step)
    (hsteps : ∀ st ∈ steps, StepOK st)
    (hp : pendingAfter a.qmeta.to (attemptsOf steps) ≠ []) :
    (seens (run genVis co a steps).2).length = (attemptsOf steps).length := by
  rw [C10_roundtrip co a hwf hs steps hsteps]
  exact spec_length_of_pending a _ _ hp


/-! ## failure reports (bounces) generated between attempts -/

/-- once an attempt has rewritten it, the pending list names every address once -/
theorem pendingAfter_nodup :
    ∀ (atts : List ((List Str → Bool) × (List Str → List Str))) (to : List Str),
      (to.Nodup ∨ atts ≠ []) → (pendingAfter to atts).Nodup := by
  intro atts
  induction atts with
  | nil => intro to h; simpa [pendingAfter] using h
  | cons x rest ih =>
    intro to _
    obtain ⟨acc, next⟩ := x
    simp only [pendingAfter]
    by_cases hne : pending next to = []
    · simp [hne]
    · simp only [hne, if_false]
      exact ih _ (Or.inl (nodup_dedup _))

/-- every attempt after the first one is handed every pending address once (the first one is handed
the accepted list as it is) -/
theorem spec_tail_nodup (a : Accepted) :
    ∀ (atts : List ((List Str → Bool) × (List Str → List Str))) (to : List Str),
      ∀ s ∈ (spec a to atts).tail, s.to.Nodup := by
  have all : ∀ (atts : List ((List Str → Bool) × (List Str → List Str))) (to : List Str),
      to.Nodup → ∀ s ∈ spec a to atts, s.to.Nodup := by
    intro atts
    induction atts with
    | nil => intro to _ s hs; simp [spec] at hs
    | cons x rest ih =>
      intro to hto s hs
      obtain ⟨acc, next⟩ := x
      simp only [spec, List.mem_cons] at hs
      rcases hs with rfl | hs
      · exact hto
      · by_cases hne : pending next to = []
        · simp [hne] at hs
        · simp only [hne, if_false] at hs
          exact ih _ (nodup_dedup _) s hs
  intro atts to s hs
  cases atts with
  | nil => simp [spec] at hs
  | cons x rest =>
    obtain ⟨acc, next⟩ := x
    simp only [spec, List.tail_cons] at hs
    by_cases hne : pending next to = []
    · simp [hne] at hs
    · simp only [hne, if_false] at hs
      exact all rest _ (nodup_dedup _) s hs

/-- **C10 (an address listed twice is one recipient).** For an envelope that repeats a recipient
(a client repeating RCPT TO, two aliases with one expansion): the first attempt is handed the
accepted list as it is; from then on - every later attempt, and the spool's metadata at rest after
at least one attempt step - each pending address is named ONCE.  Who is pending is not touched by
that (`C10_pending_is_the_retry_set_each_once`). -/
theorem C10_repeated_recipient_is_pending_once (co : Str → Str) (a : Accepted)
    (hwf : ∀ f ∈ a.hdr, WFField f) (hs : EnvelopeSafe co a) (steps : List Step)
    (hsteps : ∀ st ∈ steps, StepOK st) :
    (∀ s ∈ (seens (run genVis co a steps).2).tail, s.to.Nodup) ∧
    ((∀ st ∈ steps, NoPanic st) → attemptsOf steps ≠ [] →
      pendingAfter a.qmeta.to (attemptsOf steps) ≠ [] →
      ∃ d, (run genVis co a steps).1.disk = some d ∧
        d.metaFile.to = pendingAfter a.qmeta.to (attemptsOf steps) ∧ d.metaFile.to.Nodup) := by
  refine ⟨?_, ?_⟩
  · rw [C10_roundtrip co a hwf hs steps hsteps]
    exact spec_tail_nodup a _ _
  · intro hnp hatt hp
    obtain ⟨_, d, hd, _, _, hto, _⟩ := C10_pending_message_kept co a hwf hs steps hsteps hnp hp
    exact ⟨d, hd, hto, hto ▸ pendingAfter_nodup _ _ (Or.inr hatt)⟩

theorem attempt_reports {vis : Vis} {co : Str → Str} {a : Accepted} {to : List Str} {d : Disk}
    {m : QMeta} (hm : Agrees a to m) (acc : List Str → Bool) (next : List Str → List Str)
    (dsn : Option Dsn) :
    ∀ r ∈ reports (attempt vis co d m a.hdr acc next dsn).2,
      r = ⟨a.qmeta.sender, a.qmeta.msgMeta.utf8, a.hdr⟩ := by
  intro r hr
  unfold attempt at hr
  by_cases hne : pending next m.to = []
  · simp [hne, reports, reports_append] at hr
    have := reports_emitDSN m a.hdr dsn r hr
    simpa [hm.sender, hm.utf8] using this
  · simp [hne, reports, reports_append] at hr
    have := reports_emitDSN m a.hdr dsn r hr
    simpa [hm.sender, hm.utf8] using this

theorem runFrom_reports {vis : Vis} {co : Str → Str} {a : Accepted} (hv : VisOK vis)
    (hwf : ∀ f ∈ a.hdr, WFField f) (hs : EnvelopeSafe co a) (steps : List Step)
    (hsteps : ∀ st ∈ steps, StepOK st) :
    ∀ (to : List Str) (s : St), (∀ r ∈ to, co r = r) → Inv a to s →
      ∀ r ∈ reports (runFrom vis co s steps).2, r = ⟨a.qmeta.sender, a.qmeta.msgMeta.utf8, a.hdr⟩ := by
  induction steps with
  | nil => intro to s _ _ r hr; simp [runFrom, reports] at hr
  | cons st rest ih =>
    intro to s hsafe hi r hr
    have hrest : ∀ st ∈ rest, StepOK st := fun x hx => hsteps x (by simp [hx])
    obtain ⟨d, hd, h1, h2, hag, h4⟩ := hi.disk
    cases st with
    | restart =>
      have hstep : step vis co s .restart = ({ s with slot := none, scheduled := true }, []) := by
        simp [step, hd]
      have hi' : Inv a to { s with slot := none, scheduled := true } :=
        ⟨rfl, ⟨d, hd, h1, h2, hag, h4⟩, by intro m h hc; simp at hc⟩
      simp only [runFrom, hstep, List.nil_append] at hr
      exact ih hrest to _ hsafe hi' r hr
    | panicked stage acc =>
      have key : ∃ m, step vis co s (.panicked stage acc) = panicAttempt d m a.hdr stage acc := by
        cases hslot : s.slot with
        | some mh =>
          obtain ⟨m, h⟩ := mh
          obtain ⟨hm, hh⟩ := hi.slot m h hslot
          exact ⟨m, by simp [step, hd, hi.sched, hslot, hh]⟩
        | none =>
          refine ⟨d.metaFile, ?_⟩
          simp [step, hd, hi.sched, hslot, h1, C10_header_roundtrip a.hdr hwf]
      obtain ⟨m, hstep⟩ := key
      have hg := runFrom_gone vis co rest (panicAttempt d m a.hdr stage acc).1 rfl
      simp only [runFrom, hstep, hg.1, List.append_nil] at hr
      simp [panicAttempt, reports] at hr
    | attempt acc next dsn =>
      have hok : ∀ r, r ∈ pending next to → r ∈ to := by
        have := hsteps (.attempt acc next dsn) (by simp)
        exact fun r hr => this to r (mem_pending.mp hr)
      have key : ∃ m, Agrees a to m ∧ step vis co s (.attempt acc next dsn) = attempt vis co d m a.hdr acc next dsn := by
        cases hslot : s.slot with
        | some mh =>
          obtain ⟨m, h⟩ := mh
          obtain ⟨hm, hh⟩ := hi.slot m h hslot
          exact ⟨m, hm, by simp [step, hd, hi.sched, hslot, hh]⟩
        | none =>
          refine ⟨d.metaFile, hag, ?_⟩
          simp [step, hd, hi.sched, hslot, h1, C10_header_roundtrip a.hdr hwf]
      obtain ⟨m, hm, hstep⟩ := key
      obtain ⟨_, hgone, hinv⟩ := attempt_spec hv hs hsafe h1 h2 hm acc next dsn hok
      simp only [runFrom, hstep, reports_append, List.mem_append] at hr
      rcases hr with hr | hr
      · exact attempt_reports hm acc next dsn r hr
      · by_cases hne : pending next to = []
        · have hg := runFrom_gone vis co rest _ (hgone hne)
          simp [hg.1, reports] at hr
        · have hsafe' : ∀ r ∈ pending next to, co r = r := fun r hr => hsafe r (hok r hr)
          exact ih hrest (pending next to) _ hsafe' (hinv hne) r hr

/-- **C10 (reports).** Every failure report the queue generates for an accepted message - in
whichever attempt, from memory or after any number of restarts - quotes the ACCEPTED header, is
sent to the accepted sender and is generated/sent with the SMTPUTF8 flag the message was accepted
with (the report generator is handed what the downstream target is handed). -/
theorem C10_reports_quote_the_accepted_message (co : Str → Str) (a : Accepted)
    (hwf : ∀ f ∈ a.hdr, WFField f) (hs : EnvelopeSafe co a) (steps : List Step)
    (hsteps : ∀ st ∈ steps, StepOK st) :
    ∀ r ∈ reports (run genVis co a steps).2,
      r.to = a.qmeta.sender ∧ r.utf8 = a.qmeta.msgMeta.utf8 ∧ r.hdr = a.hdr := by
  intro r hr
  simp only [run, reports_append, List.mem_append] at hr
  rcases hr with hr | hr
  · simp [accept, reports] at hr
  · have := runFrom_reports visOK_generated hwf hs steps hsteps a.qmeta.to _ hs.to
      (accept_inv visOK_generated hs) r hr
    subst this
    exact ⟨rfl, rfl, rfl⟩

/-- the same history with the bounce pipeline taken away -/
def noBounce : Step → Step
  | .attempt acc next _ => .attempt acc next none
  | .restart => .restart
  | .panicked stage acc => .panicked stage acc

def notReport : Ev → Bool
  | .report _ => false
  | .reportFailed => false
  | .seen _ _ => true
  | .readError => true
  | .wrote _ => true
  | .removed => true
  | .seenPanicked _ _ => true
  | .broke _ => true

theorem filter_notReport_emitDSN (m : QMeta) (h : Header) (dsn : Option Dsn) :
    (emitDSN m h dsn).filter notReport = [] := by
  cases dsn with
  | none => simp [emitDSN]
  | some c =>
    simp only [emitDSN]
    split
    · simp
    · split
      · simp
      · split <;> simp [notReport]

theorem step_noBounce (vis : Vis) (co : Str → Str) (s : St) (st : Step) :
    (step vis co s (noBounce st)).1 = (step vis co s st).1 ∧
    (step vis co s (noBounce st)).2 = (step vis co s st).2.filter notReport := by
  have hatt : ∀ (d : Disk) (m : QMeta) (h : Header) acc next dsn,
      (attempt vis co d m h acc next none).1 = (attempt vis co d m h acc next dsn).1 ∧
      (attempt vis co d m h acc next none).2 = (attempt vis co d m h acc next dsn).2.filter notReport := by
    intro d m h acc next dsn
    have h0 : emitDSN m h none = [] := rfl
    unfold attempt
    by_cases hne : pending next m.to = []
    · simp [hne, h0, notReport, List.filter_cons, List.filter_append, filter_notReport_emitDSN]
    · simp [hne, h0, notReport, List.filter_cons, List.filter_append, filter_notReport_emitDSN]
  cases st with
  | restart => cases hd : s.disk <;> simp [noBounce, step, hd]
  | panicked stage acc =>
    cases hd : s.disk with
    | none => simp [noBounce, step, hd]
    | some d =>
      by_cases hsch : s.scheduled = true
      · cases hslot : s.slot with
        | some mh =>
          obtain ⟨m, h⟩ := mh
          simp [noBounce, step, hd, hsch, hslot, panicAttempt, List.filter_cons, notReport]
        | none =>
          cases hr : readHeader d.hdrFile with
          | error e => simp [noBounce, step, hd, hsch, hslot, hr, List.filter_cons, notReport]
          | ok h => simp [noBounce, step, hd, hsch, hslot, hr, panicAttempt, List.filter_cons, notReport]
      · simp [noBounce, step, hd, hsch]
  | attempt acc next dsn =>
    cases hd : s.disk with
    | none => simp [noBounce, step, hd]
    | some d =>
      by_cases hsch : s.scheduled = true
      · cases hslot : s.slot with
        | some mh =>
          obtain ⟨m, h⟩ := mh
          simpa [noBounce, step, hd, hsch, hslot] using hatt d m h acc next dsn
        | none =>
          cases hr : readHeader d.hdrFile with
          | error e => simp [noBounce, step, hd, hsch, hslot, hr, List.filter_cons, notReport]
          | ok h => simpa [noBounce, step, hd, hsch, hslot, hr] using hatt d d.metaFile h acc next dsn
      · simp [noBounce, step, hd, hsch]

theorem runFrom_noBounce (vis : Vis) (co : Str → Str) (steps : List Step) :
    ∀ s : St, (runFrom vis co s (steps.map noBounce)).1 = (runFrom vis co s steps).1 ∧
      (runFrom vis co s (steps.map noBounce)).2 = (runFrom vis co s steps).2.filter notReport := by
  induction steps with
  | nil => intro s; simp [runFrom]
  | cons st rest ih =>
    intro s
    obtain ⟨h1, h2⟩ := step_noBounce vis co s st
    have := ih (step vis co s st).1
    simp only [List.map_cons, runFrom, List.filter_append]
    rw [h1, h2]
    exact ⟨this.1, by rw [this.2]⟩

/-- **C10 (generating a report changes nothing), unconditional.** For ANY message (any header, well
formed or not, any envelope), any field visibility and any history: whether or not failure reports
are generated along the way - for whichever recipients, successfully or not - the queue ends in
the same state (same spool files, same schedule, same in-memory slot) and every other event (what
the downstream target is handed in each attempt, every metadata document written, read errors,
removal) is the same, in the same order. -/
theorem C10_reports_change_nothing (vis : Vis) (co : Str → Str) (a : Accepted) (steps : List Step) :
    (run vis co a (steps.map noBounce)).1 = (run vis co a steps).1 ∧
    (run vis co a (steps.map noBounce)).2 = (run vis co a steps).2.filter notReport := by
  obtain ⟨h1, h2⟩ := runFrom_noBounce vis co steps (accept vis co a).1
  simp only [run, List.filter_append]
  exact ⟨h1, by rw [h2]; simp [accept, List.filter_cons, notReport]⟩

/-- **C10 (two consumers of one message).** A source (the message pipeline) hands the same header,
body and metadata to two queues with their own recipients; each of them hands ITS target the
accepted message on every attempt of ITS history, whatever the other one does meanwhile (bounces
included): the model has no state shared between the two. -/
theorem C10_two_queues (co : Str → Str) (a : Accepted) (toB : List Str)
    (hwf : ∀ f ∈ a.hdr, WFField f) (hs : EnvelopeSafe co a) (hsB : ∀ r ∈ toB, co r = r)
    (stepsA stepsB : List Step) (hA : ∀ st ∈ stepsA, StepOK st) (hB : ∀ st ∈ stepsB, StepOK st) :
    seens (run genVis co a stepsA).2 = spec a a.qmeta.to (attemptsOf stepsA) ∧
    seens (run genVis co { a with qmeta := { a.qmeta with to := toB } } stepsB).2 =
      spec a toB (attemptsOf stepsB) := by
  refine ⟨C10_roundtrip co a hwf hs stepsA hA, ?_⟩
  have hs' : EnvelopeSafe co { a with qmeta := { a.qmeta with to := toB } } := ⟨hs.sender, hsB, hs.orc⟩
  have := C10_roundtrip co { a with qmeta := { a.qmeta with to := toB } } hwf hs' stepsB hB
  rw [this]
  have hspec : ∀ (atts : List ((List Str → Bool) × (List Str → List Str))) (to : List Str),
      spec { a with qmeta := { a.qmeta with to := toB } } to atts = spec a to atts := by
    intro atts
    induction atts with
    | nil => intro to; simp [spec]
    | cons x rest ih => intro to; obtain ⟨acc, next⟩ := x; simp [spec, ih]
  exact hspec _ _

/-- the live spool entry holds a sanitised record (`Conn = nil`) -/
def Clean (s : St) : Prop := ∀ d, s.disk = some d → d.metaFile.msgMeta.conn = none

/-- one step from a clean state: every record it writes - the re-written `<id>.meta` and the
`<id>.meta_broken` a panic of the target leaves behind - has no connection state, and the state
stays clean -/
theorem step_docs_no_conn (vis : Vis) (co : Str → Str) (s : St) (st : Step) (hc : Clean s) :
    Clean (step vis co s st).1 ∧ ∀ doc ∈ docs (step vis co s st).2, doc.msgMeta.conn = none := by
  cases st with
  | restart =>
    cases hd : s.disk with
    | none => exact ⟨by simpa [step, hd] using hc, by simp [step, hd, docs]⟩
    | some d =>
      refine ⟨?_, by simp [step, hd, docs]⟩
      intro d' hd'
      simp [step, hd] at hd'
      exact hc d' (by rw [hd, hd'])
  | panicked stage acc =>
    have hpan : ∀ (d : Disk) (m : QMeta) (h : Header), s.disk = some d →
        Clean (panicAttempt d m h stage acc).1 ∧
        ∀ doc ∈ docs (panicAttempt d m h stage acc).2, doc.msgMeta.conn = none := by
      intro d m h hd
      refine ⟨by intro d' hd'; simp [panicAttempt] at hd', ?_⟩
      intro doc hmem
      simp [panicAttempt, docs] at hmem
      subst hmem
      exact hc d hd
    cases hd : s.disk with
    | none => exact ⟨by simpa [step, hd] using hc, by simp [step, hd, docs]⟩
    | some d =>
      by_cases hsch : s.scheduled = true
      · cases hslot : s.slot with
        | some mh =>
          obtain ⟨m, h⟩ := mh
          simpa [step, hd, hsch, hslot] using hpan d m h hd
        | none =>
          cases hr : readHeader d.hdrFile with
          | error e =>
            refine ⟨?_, by simp [step, hd, hsch, hslot, hr, docs]⟩
            intro d' hd'
            simp [step, hd, hsch, hslot, hr] at hd'
            exact hc d' (by rw [hd, hd'])
          | ok h => simpa [step, hd, hsch, hslot, hr] using hpan d d.metaFile h hd
      · exact ⟨by simpa [step, hd, hsch] using hc, by simp [step, hd, hsch, docs]⟩
  | attempt acc next dsn =>
    have hatt : ∀ (d : Disk) (m : QMeta) (h : Header),
        Clean (attempt vis co d m h acc next dsn).1 ∧
        ∀ doc ∈ docs (attempt vis co d m h acc next dsn).2, doc.msgMeta.conn = none := by
      intro d m h
      unfold attempt
      by_cases hne : pending next m.to = []
      · refine ⟨by intro d' hd'; simp [hne] at hd', ?_⟩
        intro doc hmem
        simp [hne, docs, docs_append, docs_emitDSN] at hmem
      · refine ⟨?_, ?_⟩
        · intro d' hd'
          simp [hne] at hd'
          subst hd'
          simp [encodeMeta]
        · intro doc hmem
          simp [hne, docs, docs_append, docs_emitDSN] at hmem
          subst hmem
          simp [encodeMeta]
    cases hd : s.disk with
    | none => exact ⟨by simpa [step, hd] using hc, by simp [step, hd, docs]⟩
    | some d =>
      by_cases hsch : s.scheduled = true
      · cases hslot : s.slot with
        | some mh =>
          obtain ⟨m, h⟩ := mh
          simpa [step, hd, hsch, hslot] using hatt d m h
        | none =>
          cases hr : readHeader d.hdrFile with
          | error e =>
            refine ⟨?_, by simp [step, hd, hsch, hslot, hr, docs]⟩
            intro d' hd'
            simp [step, hd, hsch, hslot, hr] at hd'
            exact hc d' (by rw [hd, hd'])
          | ok h => simpa [step, hd, hsch, hslot, hr] using hatt d d.metaFile h
      · exact ⟨by simpa [step, hd, hsch] using hc, by simp [step, hd, hsch, docs]⟩

theorem broke_mem_docs (doc : QMeta) : ∀ evs : List Ev, (∃ e ∈ evs, e = Ev.broke doc ∨ e = Ev.wrote doc) → doc ∈ docs evs := by
  intro evs
  induction evs with
  | nil => intro h; simp at h
  | cons e rest ih =>
    intro h
    obtain ⟨e', hmem, he⟩ := h
    rcases List.mem_cons.mp hmem with h1 | h1
    · subst h1
      rcases he with he | he <;> subst he <;> simp [docs]
    · have := ih ⟨e', h1, he⟩
      cases e <;> simp [docs, this]

/-- **C10 (no credentials), unconditional.** Every metadata record the queue ever puts into the
spool directory - `<id>.meta` at acceptance and after every attempt, and the `<id>.meta_broken`
that `discardBroken` leaves when the downstream target PANICS in an attempt (the first one, served
from the in-memory metadata that still carries the session's connection state, or a later one) -
for any message (any header, well-formed or not, any envelope, with or without an authenticated
connection), any field visibility, any history - has no connection state, hence carries none of
the values the client authenticated with. -/
theorem C10_no_credentials_in_spool (vis : Vis) (co : Str → Str) (a : Accepted) (steps : List Step) :
    ∀ doc ∈ docs (run vis co a steps).2, doc.msgMeta.conn = none ∧ secretsOf doc = [] := by
  have hrun : ∀ (steps : List Step) (s : St), Clean s → ∀ doc ∈ docs (runFrom vis co s steps).2,
      doc.msgMeta.conn = none := by
    intro steps
    induction steps with
    | nil => intro s _ doc h; simp [runFrom, docs] at h
    | cons st rest ih =>
      intro s hc doc h
      simp only [runFrom, docs_append, List.mem_append] at h
      obtain ⟨hc', hd⟩ := step_docs_no_conn vis co s st hc
      rcases h with h | h
      · exact hd doc h
      · exact ih _ hc' doc h
  have hacc : Clean (accept vis co a).1 := by
    intro d hd
    simp [accept] at hd
    subst hd
    simp [encodeMeta]
  intro doc hdoc
  simp only [run, docs_append, List.mem_append] at hdoc
  have hc : doc.msgMeta.conn = none := by
    rcases hdoc with h | h
    · simp [accept, docs] at h; subst h; simp [encodeMeta]
    · exact hrun steps _ hacc doc h
  exact ⟨hc, by simp [secretsOf, hc]⟩

/-- **C10 (a panic of the target leaves a sanitised record).** Whatever attempt of whatever history
the downstream target panics in - the first one (in-memory metadata WITH the connection state of
the authenticated session) included - the record left in `<id>.meta_broken` has no connection
state. -/
theorem C10_broken_record_sanitised (vis : Vis) (co : Str → Str) (a : Accepted) (steps : List Step)
    (doc : QMeta) (h : Ev.broke doc ∈ (run vis co a steps).2) :
    doc.msgMeta.conn = none ∧ secretsOf doc = [] :=
  C10_no_credentials_in_spool vis co a steps doc (broke_mem_docs doc _ ⟨_, h, Or.inl rfl⟩)

/-- **C10 (what a panicking target had been handed).** In every attempt of every history in which
the target panics - at `Start`, in `AddRcpt`, at the body stage or in the final call - what it had
been handed until then is the accepted sender, SMTPUTF8, REQUIRETLS, TLS-Required override and
original-recipient mapping and, once the body stage is reached, the accepted header and body. -/
theorem C10_panicked_attempt_was_handed_the_accepted_message (co : Str → Str) (a : Accepted)
    (hwf : ∀ f ∈ a.hdr, WFField f) (hs : EnvelopeSafe co a) (steps : List Step)
    (hsteps : ∀ st ∈ steps, StepOK st) :
    ∀ ps ∈ panSeens (run genVis co a steps).2, PanOK a ps := by
  have := (runFrom_spec visOK_generated hwf hs steps hsteps a.qmeta.to _ hs.to
    (accept_inv visOK_generated hs)).2.2
  intro ps hps
  simp only [run, panSeens_append, List.mem_append] at hps
  rcases hps with h | h
  · simp [accept, panSeens] at h
  · exact this ps h

/-- after a panic of the target the queue does nothing more with the message: no later step of the
history shows the target anything or writes anything -/
theorem C10_nothing_after_a_panic (vis : Vis) (co : Str → Str) (d : Disk) (m : QMeta) (h : Header)
    (stage : Stage) (acc : List Str → Bool) (steps : List Step) :
    (runFrom vis co (panicAttempt d m h stage acc).1 steps).2 = [] :=
  (runFrom_gone vis co steps _ rfl).1


/-! ## storing over leftovers; header fields that speak about the envelope -/

/-- `os.Create` + write + close: the file holds what was written, whatever a file of that name held
before (longer, of the same length, shorter, empty, absent). -/
theorem createFile_eq (old : Option Bytes) (new : Bytes) : createFile old new = new := by
  simp [createFile, writeOver]

theorem acceptOver_eq (vis : Vis) (co : Str → Str) (pre : Leftovers) (a : Accepted) :
    acceptOver vis co pre a = accept vis co a := by
  simp [acceptOver, accept, createFile_eq, storeMeta]

/-- **C10 (leftovers).** The store step is "file := new content": whatever files of the new
message's own names (`<id>.header`, `<id>.body`, `<id>.meta.new`) the spool directory holds when the
queue stores it - any bytes, any length - right after acceptance the header file is the accepted
header as `WriteHeader` writes it, the body file the accepted body, the metadata the encoded
accepted metadata, and the whole life of the message (state and events of every history: first
attempt, retries, restarts, reports, panics) is the one of a message stored into an empty
directory - so every other theorem of this file holds for it unchanged. -/
theorem C10_store_overwrites_leftovers (vis : Vis) (co : Str → Str) (pre : Leftovers) (a : Accepted)
    (steps : List Step) :
    (∃ d, (acceptOver vis co pre a).1.disk = some d ∧ d.hdrFile = writeHeader a.hdr ∧
      d.bodyFile = a.body ∧ d.metaFile = encodeMeta vis co a.qmeta) ∧
    runOver vis co pre a steps = run vis co a steps := by
  refine ⟨⟨⟨createFile pre.hdr (writeHeader a.hdr), createFile pre.body a.body,
      storeMeta pre.metaNew (encodeMeta vis co a.qmeta)⟩, rfl, createFile_eq pre.hdr _, createFile_eq pre.body _, rfl⟩, ?_⟩
  simp [runOver, run, acceptOver_eq]

/-- ... in particular the round trip: every attempt of a message stored over leftovers is handed the
accepted header and body byte for byte (and the accepted envelope). -/
theorem C10_roundtrip_over_leftovers (co : Str → Str) (pre : Leftovers) (a : Accepted)
    (hwf : ∀ f ∈ a.hdr, WFField f) (hs : EnvelopeSafe co a) (steps : List Step)
    (hsteps : ∀ st ∈ steps, StepOK st) :
    seens (runOver genVis co pre a steps).2 = spec a a.qmeta.to (attemptsOf steps) := by
  rw [(C10_store_overwrites_leftovers genVis co pre a steps).2]
  exact C10_roundtrip co a hwf hs steps hsteps

/-- Why `O_TRUNC` matters (NOT what the code does): written without truncation over a longer file,
the tail of the old file survives - the "body" would be the accepted one followed by stale bytes. -/
example : writeOver false (some [1, 2, 3, 4, 5]) [9, 9] = [9, 9, 3, 4, 5] := by decide
example : writeOver true (some [1, 2, 3, 4, 5]) [9, 9] = [9, 9] := by decide
example : writeOver false (some [1]) [9, 9] = [9, 9] := by decide

/-- **C10 (the override is the accepted flag, not the header's).** Two messages accepted with the
same metadata are handed over with the same TLS-Required override (and sender, SMTPUTF8, REQUIRETLS,
original-recipient mapping) in every attempt of every history, whatever their headers say - a
`TLS-Required: No` field in any spelling, none at all: the header is never consulted for the
envelope, neither in the first attempt nor when the message is read back from the spool. -/
theorem C10_override_does_not_depend_on_the_header (co : Str → Str) (a b : Accepted)
    (hq : a.qmeta = b.qmeta) (hwfa : ∀ f ∈ a.hdr, WFField f) (hwfb : ∀ f ∈ b.hdr, WFField f)
    (hs : EnvelopeSafe co a) (steps : List Step) (hsteps : ∀ st ∈ steps, StepOK st) :
    (∀ s ∈ seens (run genVis co a steps).2, s.tlsRequireOverride = a.qmeta.msgMeta.tlsRequireOverride) ∧
    (∀ s ∈ seens (run genVis co b steps).2, s.tlsRequireOverride = a.qmeta.msgMeta.tlsRequireOverride) := by
  have hsb : EnvelopeSafe co b := ⟨hq ▸ hs.sender, hq ▸ hs.to, hq ▸ hs.orc⟩
  have key : ∀ (c : Accepted) (to : List Str) (l : List ((List Str → Bool) × (List Str → List Str))),
      ∀ s ∈ spec c to l, s.tlsRequireOverride = c.qmeta.msgMeta.tlsRequireOverride := by
    intro c to l
    induction l generalizing to with
    | nil => intro s hs; simp [spec] at hs
    | cons x rest ih =>
      obtain ⟨acc, next⟩ := x
      intro s hs
      simp only [spec, List.mem_cons] at hs
      rcases hs with rfl | hs
      · rfl
      · split at hs
        · simp at hs
        · exact ih _ s hs
  constructor
  · rw [C10_roundtrip co a hwfa hs steps hsteps]
    exact key a _ _
  · rw [C10_roundtrip co b hwfb hsb steps hsteps, hq]
    exact key b _ _

/-- `MsgMeta.OriginalFrom` (what the source saw in MAIL FROM) set to anything -/
def withOriginalFrom (a : Accepted) (o : Str) : Accepted :=
  { a with qmeta := { a.qmeta with msgMeta := { a.qmeta.msgMeta with originalFrom := o } } }

/-- **The sender handed over does not depend on the original sender** (round 11).  A message whose sender
was rewritten before the queue - it arrived with the null reverse-path (`o = 0`: `OriginalFrom == ""`, also a
source that never set the field) or with any other address - is handed to the next hop with the sender the
queue ACCEPTED (`QueueMetadata.From`), in the first attempt, in every retry and after every restart:
`Queue.deliver` passes `meta.From` to `Target.Start`, never anything derived from `MsgMeta.OriginalFrom`
(which only decides whether, and under which `To:`, a failure report is written). -/
theorem C10_sender_handed_does_not_depend_on_the_original_sender (co : Str → Str) (a : Accepted) (o : Str)
    (hwf : ∀ f ∈ a.hdr, WFField f) (hs : EnvelopeSafe co a) (steps : List Step) (hsteps : ∀ st ∈ steps, StepOK st) :
    ∀ s ∈ seens (run genVis co (withOriginalFrom a o) steps).2, s.sender = a.qmeta.sender := by
  have hs' : EnvelopeSafe co (withOriginalFrom a o) := ⟨hs.sender, hs.to, hs.orc⟩
  have key : ∀ (c : Accepted) (to : List Str) (l : List ((List Str → Bool) × (List Str → List Str))),
      ∀ s ∈ spec c to l, s.sender = c.qmeta.sender := by
    intro c to l
    induction l generalizing to with
    | nil => intro s hs; simp [spec] at hs
    | cons x rest ih =>
      obtain ⟨acc, next⟩ := x
      intro s hs
      simp only [spec, List.mem_cons] at hs
      rcases hs with rfl | hs
      · rfl
      · split at hs
        · simp at hs
        · exact ih _ s hs
  rw [C10_roundtrip co (withOriginalFrom a o) hwf hs' steps hsteps]
  exact key (withOriginalFrom a o) _ _

/-! ## non-vacuity -/

/-- "Subject: hi" CRLF SP "there" CRLF - a folded field -/
def exField1 : Bytes := [83,117,98,106,101,99,116,58,32,104,105,13,10,32,116,104,101,114,101,13,10]
/-- "X-8bit :" 0xE9 0x00 CR CRLF - white space before the colon, 8-bit, NUL and a bare CR in the value -/
def exField2 : Bytes := [88,45,56,98,105,116,32,58,233,0,13,13,10]

example : WFField exField1 :=
  ⟨[83,117,98,106,101,99,116], [], [32,104,105], [[32,116,104,101,114,101]], by decide, by decide, by decide,
    by decide, by decide, by decide⟩

example : WFField exField2 := (C10_wfFieldB_iff _).mp (by decide)

/-- a field with a bare-LF fold is NOT well-formed, and indeed does not survive the spool:
"A:b" LF SP "c" CRLF comes back with the LF turned into CRLF -/
example : ¬ WFField [65,58,98,10,32,99,13,10] := fun h => by
  have := (C10_wfFieldB_iff _).mpr h
  revert this; decide
example : readHeader (writeHeader [[65,58,98,10,32,99,13,10]]) = .ok [[65,58,98,13,10,32,99,13,10]] := by rfl

/-- the parser accepts a client's header with bare-LF line ends and an unterminated last line;
what it hands on is CRLF-normalised and well-formed -/
example : readHeader [65,58,98,10,32,99,10,66,58,100] = .ok [[65,58,98,13,10,32,99,13,10], [66,58,100,13,10]] := by rfl

def exAccepted : Accepted :=
  { hdr := [exField1, exField2, exField1]
    body := [0, 255, 13, 10, 46, 13, 10]
    qmeta := { sender := 0, to := [3, 4, 5]
               msgMeta := { id := 9, originalFrom := 0, dontTraceSender := true, quarantine := false,
                            originalRcpts := [(3, 7)], utf8 := true, requireTLS := true,
                            conn := some ⟨11, 12⟩, tlsRequireOverride := true } } }

/-- a `co` that is NOT the identity (string 8 is not valid UTF-8 and comes back as 88) but leaves
the example's envelope alone -/
def exCo : Str → Str := fun s => if s = 8 then 88 else s

/-- first attempt: 3 keeps trying, 4 delivered, 5 keeps trying; restart; restart; second attempt:
nobody accepted, 3 stays; third: 3 delivered -/
def exSteps : List Step :=
  [.attempt (fun _ => true) (fun to => to.filter (· != 4)) none, .restart, .restart,
   .attempt (fun _ => false) (fun to => to.filter (· == 3)) none, .attempt (fun _ => true) (fun _ => []) none]

example : (∀ f ∈ exAccepted.hdr, WFField f) := by
  intro f hf
  exact (C10_wfFieldB_iff f).mp (by revert f; decide)

example : EnvelopeSafe exCo exAccepted := ⟨by decide, by decide, by decide⟩

example : ∀ st ∈ exSteps, StepOK st := by
  intro st hst
  simp [exSteps] at hst
  rcases hst with rfl | rfl | rfl | rfl
  · intro to r h; exact (List.mem_filter.mp h).1
  · trivial
  · intro to r h; exact (List.mem_filter.mp h).1
  · intro to r h; simp at h

/-- the example history really has three attempts with shrinking recipient lists, the second one
without content, and ends with the message removed -/
example : (seens (run (fun _ => true) exCo exAccepted exSteps).2).map (fun s => (s.to, s.content.isSome)) =
    [([3, 4, 5], true), ([3, 5], false), ([3], true)] := by decide
example : (run (fun _ => true) exCo exAccepted exSteps).1.disk.isNone = true := by decide

example : ∀ st ∈ exSteps, NoPanic st := by
  intro st hst
  simp [exSteps] at hst
  rcases hst with rfl | rfl | rfl | rfl <;> trivial

/-- the panic transition is not vacuous: the target panics at the body stage of the FIRST attempt
(in-memory metadata with the connection state of the authenticated session: `connPresent`), resp. in
its first `AddRcpt` of the second attempt after a restart; the record left in `<id>.meta_broken` has
no connection state and lists the recipients pending before the attempt; nothing happens afterwards -/
def exStepsP1 : List Step :=
  [.panicked .body (fun _ => true), .restart, .attempt (fun _ => true) (fun _ => []) none]
def exStepsP2 : List Step :=
  [.attempt (fun _ => true) (fun to => to.filter (· != 4)) none, .restart, .panicked .rcpt (fun _ => true),
   .attempt (fun _ => true) (fun _ => []) none]
example : ((run (fun _ => true) exCo exAccepted exStepsP1).2.filterMap fun e =>
    match e with
    | .broke d => some (d.msgMeta.conn.isSome, d.to, false)
    | .seenPanicked s c => some (c, s.to, s.content.isSome)
    | .seen s c => some (c, s.to, s.content.isSome)
    | _ => none) = [(true, [3, 4, 5], true), (false, [3, 4, 5], false)] := by decide
example : ((run (fun _ => true) exCo exAccepted exStepsP2).2.filterMap fun e =>
    match e with
    | .broke d => some (d.msgMeta.conn.isSome, d.to, false)
    | .seenPanicked s c => some (c, s.to, s.content.isSome)
    | .seen s c => some (c, s.to, s.content.isSome)
    | _ => none) = [(true, [3, 4, 5], true), (false, [3], false), (false, [3, 5], false)] := by decide
example : (run (fun _ => true) exCo exAccepted exStepsP1).1.disk.isNone = true := by decide

/-- `C10_pending_message_kept` is not vacuous: after a restart BEFORE the first attempt, the first
attempt, two restarts and the second attempt of the example, recipient 3 is pending - and the model
has the message in the spool with the EMPTY body it was accepted with -/
example : pendingAfter exAccepted.qmeta.to (attemptsOf (.restart :: exSteps.take 4)) = [3] := by decide
example : ((run (fun _ => true) exCo { exAccepted with body := [] } (.restart :: exSteps.take 4)).1.disk.map
    fun d => (d.bodyFile, d.metaFile.to)) = some ([], [3]) := by decide

/-- and the connection state (with the credentials 11, 12) is in memory for the first attempt only -/
example : ((run (fun _ => true) exCo exAccepted exSteps).2.filterMap fun e =>
    match e with | .seen _ c => some c | _ => none) = [true, false, false] := by decide


/-- an envelope that lists recipient 3 twice: the first attempt (everybody deferred) is handed
`[3, 4, 3]`, the retry after the restart `[3, 4]`; at rest the spool lists `[3]` -/
def exAcceptedD : Accepted := { exAccepted with qmeta := { exAccepted.qmeta with to := [3, 4, 3] } }
def exStepsD : List Step :=
  [.attempt (fun _ => true) (fun to => to) none, .restart,
   .attempt (fun _ => true) (fun to => to.filter (· == 3)) none]
example : EnvelopeSafe exCo exAcceptedD := ⟨by decide, by decide, by decide⟩
example : ∀ st ∈ exStepsD, StepOK st := by
  intro st h
  simp [exStepsD] at h
  rcases h with rfl | rfl | rfl
  · intro to r hr; exact hr
  · trivial
  · intro to r hr; exact (List.mem_filter.mp hr).1
example : (seens (run (fun _ => true) exCo exAcceptedD exStepsD).2).map (·.to) = [[3, 4, 3], [3, 4]] := by decide
example : pendingAfter exAcceptedD.qmeta.to (attemptsOf exStepsD) = [3] := by decide
example : ((run (fun _ => true) exCo exAcceptedD exStepsD).1.disk.map (·.metaFile.to)) = some [3] := by decide

/-- the example message with a non-null sender (2), accepted WITHOUT SMTPUTF8 -/
def exAcceptedB : Accepted :=
  { exAccepted with qmeta := { exAccepted.qmeta with sender := 2, msgMeta :=
      { exAccepted.qmeta.msgMeta with originalFrom := 2, utf8 := false } } }

/-- a bounce pipeline; address 5 has a Unicode local part (no ASCII form) -/
def exDsn (failed : List Str → List Str) : Option Dsn :=
  some { failed := failed, reportable := fun u s => u || s != 5 }

/-- first attempt (from memory): 4 is given up (report), 3 and 5 stay; restart; second attempt (from
the spool): 5 is given up - no report can be generated in the ASCII format -, 3 stays; third: 3 is
given up (report) -/
def exStepsB : List Step :=
  [.attempt (fun _ => true) (fun to => to.filter (· != 4)) (exDsn fun to => to.filter (· == 4)), .restart,
   .attempt (fun _ => true) (fun to => to.filter (· == 3)) (exDsn fun to => to.filter (· == 5)),
   .attempt (fun _ => false) (fun _ => []) (exDsn id)]

/-- `C10_reports_quote_the_accepted_message` is not vacuous: two reports are generated (one from
memory, one after a restart), one generation fails - and the attempts are what they are without a
bounce pipeline, SMTPUTF8 still off in every one of them -/
example : reports (run (fun _ => true) exCo exAcceptedB exStepsB).2 =
    [⟨2, false, exAcceptedB.hdr⟩, ⟨2, false, exAcceptedB.hdr⟩] := by decide
example : ((run (fun _ => true) exCo exAcceptedB exStepsB).2.filter fun e =>
    match e with | .reportFailed => true | _ => false).length = 1 := by decide
example : (seens (run (fun _ => true) exCo exAcceptedB exStepsB).2).map (fun s => (s.to, s.utf8)) =
    [([3, 4, 5], false), ([3, 5], false), ([3], false)] := by decide
example : ∀ st ∈ exStepsB, StepOK st := by
  intro st hst
  simp [exStepsB] at hst
  rcases hst with rfl | rfl | rfl | rfl
  · intro to r h; exact (List.mem_filter.mp h).1
  · trivial
  · intro to r h; exact (List.mem_filter.mp h).1
  · intro to r h; simp at h
example : EnvelopeSafe exCo exAcceptedB := ⟨by decide, by decide, by decide⟩

/-- Why `EnvelopeSafe` is needed (the defect repaired at the endpoint): a recipient that is not
valid UTF-8 (string 8) reaches the target as 8 from memory but as 88 after the spool. -/
theorem C10_envelope_safe_is_needed :
    (seens (run (fun _ => true) exCo { exAccepted with qmeta := { exAccepted.qmeta with to := [8] } }
      [.attempt (fun _ => true) id none, .attempt (fun _ => true) id none]).2).map (·.to) = [[8], [88]] := by decide

/-- Why the visibility obligations matter: were `TLSRequireOverride` hidden from `encoding/json`
(e.g. tagged `json:"-"`), retries would lose the override. -/
example : (seens (run (fun p => p != ["MsgMeta", "TLSRequireOverride"]) id exAccepted
      [.attempt (fun _ => true) id none, .attempt (fun _ => true) id none]).2).map (·.tlsRequireOverride) = [true, false] := by
  decide


/-- a message whose header carries `TLS-Required: No` accepted WITHOUT the override (and with
REQUIRETLS): the override is off in every attempt, the one after the restart included -/
def exAcceptedT : Accepted :=
  { exAccepted with
    hdr := [[84,76,83,45,82,101,113,117,105,114,101,100,58,32,78,111,13,10]],
    qmeta := { exAccepted.qmeta with msgMeta := { exAccepted.qmeta.msgMeta with requireTLS := true, tlsRequireOverride := false } } }

example : (∀ f ∈ exAcceptedT.hdr, WFField f) := by
  intro f hf
  exact (C10_wfFieldB_iff f).mp (by revert f hf; decide)

example : (seens (run (fun _ => true) exCo exAcceptedT exSteps).2).map (fun s => s.tlsRequireOverride) =
    (seens (run (fun _ => true) exCo exAcceptedT exSteps).2).map (fun _ => false) := by decide

/-- stored over a longer leftover header, a longer leftover body and a leftover `.meta.new` -/
example : ((acceptOver (fun _ => true) exCo ⟨some (List.replicate 100 7), some (List.replicate 50 8), some [1, 2, 3]⟩ exAccepted).1.disk.map
    fun d => (d.hdrFile == writeHeader exAccepted.hdr, d.bodyFile == exAccepted.body)) = some (true, true) := by decide

/-! ## Several queue blocks, several messages, a restart, a process that dies while storing (`C10 fleet`) -/
section Fleet
open MaddyVerif.SpoolFleet

/-- What the configuration loader guarantees: no two blocks carry the same instance name. -/
def NamesDistinct (bs : List Block) : Prop :=
  ∀ (i j : Nat) (b b' : Block), bs[i]? = some b → bs[j]? = some b' → b.name = b'.name → i = j

/-- With distinct instance names no two blocks keep their files in the same place - whether they name a
location of their own or rely on the default one (`<state dir>/<instance name>`). -/
theorem C10_fleet_dirs_distinct (bs : List Block) (h : NamesDistinct bs) :
    ∀ i j, dirOf bs i = dirOf bs j → i = j := by
  intro i j hd
  unfold dirOf at hd
  cases hi : bs[i]? with
  | none =>
    cases hj : bs[j]? with
    | none => simpa [hi, hj] using hd
    | some b' =>
      rw [hi, hj] at hd
      by_cases hl : b'.loc = Loc.dflt
      · simp [hl] at hd
      · simpa [hl] using hd
  | some b =>
    cases hj : bs[j]? with
    | none =>
      rw [hi, hj] at hd
      by_cases hl : b.loc = Loc.dflt
      · simp [hl] at hd
      · simpa [hl] using hd
    | some b' =>
      rw [hi, hj] at hd
      by_cases hl : b.loc = Loc.dflt <;> by_cases hl' : b'.loc = Loc.dflt
      · simp [hl, hl'] at hd
        exact h i j b b' hi hj hd
      · simp [hl, hl'] at hd
      · simp [hl, hl'] at hd
      · simpa [hl, hl'] using hd

/-- After a restart a block hands its next hop only entries IT stored: nothing another block accepted. -/
theorem C10_fleet_restart_hands_own_messages_only (bs : List Block) (h : NamesDistinct bs)
    (spool : List Entry) (k : Nat) :
    ∀ e ∈ handedAfterRestart bs spool k, e.q = k := by
  intro e he
  unfold handedAfterRestart at he
  have := (List.mem_filter.mp he).2
  exact C10_fleet_dirs_distinct bs h _ _ (of_decide_eq_true this)

/-- ... and every entry it stored and still has in the spool. -/
theorem C10_fleet_restart_hands_every_pending_message (bs : List Block) (spool : List Entry) :
    ∀ e ∈ spool, e ∈ handedAfterRestart bs spool e.q := by
  intro e he
  unfold handedAfterRestart
  exact List.mem_filter.mpr ⟨he, by simp⟩

/-- A process that dies while a message is being stored leaves nothing of THAT message for the next start
to load (its `<id>.meta` is written last), and - with distinct names - only entries of the same block. -/
theorem C10_fleet_crash_while_storing_leaves_no_entry (bs : List Block) (spool : List Entry) (m : Msg) :
    ∀ e ∈ leftBy bs spool m, e.tag ≠ m.tag := by
  intro e he
  unfold leftBy at he
  have := (List.mem_filter.mp he).2
  simp at this
  exact this.2

theorem C10_fleet_crash_leaves_own_entries_only (bs : List Block) (h : NamesDistinct bs) (spool : List Entry) (m : Msg) :
    ∀ e ∈ leftBy bs spool m, e.q = m.q ∧ e ∈ spool := by
  intro e he
  unfold leftBy at he
  have hm := List.mem_filter.mp he
  have := hm.2
  simp at this
  exact ⟨C10_fleet_dirs_distinct bs h _ _ this.1, hm.1⟩

/-- an entry is what its block was given: index, block, ID and the next hop's answer of a submitted message -/
def EntryOf (ims : List (Nat × Msg)) (e : Entry) : Prop :=
  ∃ m, (e.idx, m) ∈ ims ∧ m.q = e.q ∧ m.tag = e.tag ∧ m.fate = e.fate

theorem submit_spool_inv (bs : List Block) (ims : List (Nat × Msg)) (st : Phase1) (im : Nat × Msg)
    (him : im ∈ ims) (hs : ∀ e ∈ st.spool, EntryOf ims e) (hl : ∀ p ∈ st.leftBehind, ∀ e ∈ p.2, EntryOf ims e) :
    (∀ e ∈ (submit bs st im).spool, EntryOf ims e) ∧
    (∀ p ∈ (submit bs st im).leftBehind, ∀ e ∈ p.2, EntryOf ims e) := by
  obtain ⟨i, m⟩ := im
  constructor
  · intro e he
    simp only [submit] at he
    split at he
    · exact hs e (List.mem_filter.mp he).1
    · rcases List.mem_append.mp he with h1 | h1
      · exact hs e (List.mem_filter.mp h1).1
      · simp at h1
        subst h1
        exact ⟨m, him, rfl, rfl, rfl⟩
  · intro p hp e he
    simp only [submit] at hp
    split at hp
    · rcases List.mem_append.mp hp with h1 | h1
      · exact hl p h1 e he
      · simp at h1
        subst h1
        exact hs e (List.mem_filter.mp he).1
    · exact hl p hp e he

theorem foldl_submit_inv (bs : List Block) (ims : List (Nat × Msg)) :
    ∀ (l : List (Nat × Msg)) (st : Phase1), (∀ im ∈ l, im ∈ ims) →
      (∀ e ∈ st.spool, EntryOf ims e) → (∀ p ∈ st.leftBehind, ∀ e ∈ p.2, EntryOf ims e) →
      (∀ e ∈ (l.foldl (submit bs) st).spool, EntryOf ims e) ∧
      (∀ p ∈ (l.foldl (submit bs) st).leftBehind, ∀ e ∈ p.2, EntryOf ims e) := by
  intro l
  induction l with
  | nil => intro st _ hs hl; exact ⟨hs, hl⟩
  | cons im rest ih =>
    intro st hsub hs hl
    have h1 := submit_spool_inv bs ims st im (hsub im (List.mem_cons_self ..)) hs hl
    exact ih (submit bs st im) (fun x hx => hsub x (List.mem_cons_of_mem _ hx)) h1.1 h1.2

/-- Whatever lies in any block's spool after any sequence of submissions - and whatever a process that died
in the middle of one left behind - is an entry for a message that WAS submitted, filed under the block that
was given it, with its ID.  Together with `C10_fleet_restart_hands_own_messages_only`: after the restart (resp. the
crash) a block's next hop is handed only messages that block accepted, for any number of blocks and messages,
any load (`max_parallelism`, hanging next hops) and any crash points. -/
theorem C10_fleet_spool_holds_accepted_messages_only (bs : List Block) (ms : List Msg) :
    (∀ e ∈ (phase1 bs ms).spool, EntryOf ((List.range ms.length).zip ms) e) ∧
    (∀ p ∈ (phase1 bs ms).leftBehind, ∀ e ∈ p.2, EntryOf ((List.range ms.length).zip ms) e) := by
  unfold phase1
  exact foldl_submit_inv bs _ _ {} (fun _ h => h) (by intro e he; cases he) (by intro p hp; cases hp)

theorem C10_fleet_handed_after_restart_was_accepted_by_the_block (bs : List Block) (h : NamesDistinct bs)
    (ms : List Msg) (k : Nat) :
    ∀ e ∈ handedAfterRestart bs (atRest (phase1 bs ms)) k,
      ∃ m, (e.idx, m) ∈ (List.range ms.length).zip ms ∧ m.q = k ∧ m.tag = e.tag := by
  intro e he
  have hq := C10_fleet_restart_hands_own_messages_only bs h _ k e he
  have hmem : e ∈ (phase1 bs ms).spool := by
    unfold handedAfterRestart atRest at he
    exact (List.mem_filter.mp (List.mem_filter.mp he).1).1
  obtain ⟨m, hm, h1, h2, _⟩ := (C10_fleet_spool_holds_accepted_messages_only bs ms).1 e hmem
  exact ⟨m, hm, h1.trans hq, h2⟩

/-- two blocks at the default place, a third with a directory of its own -/
def exBlocks : List Block := [⟨[108], .dflt, 1⟩, ⟨[114], .dflt, 2⟩, ⟨[111], .inline, 1⟩]

example : NamesDistinct exBlocks := by
  unfold NamesDistinct
  intro i j b b' hi hj hn
  match i, j with
  | 0, 0 | 1, 1 | 2, 2 => rfl
  | 0, 1 | 0, 2 | 1, 0 | 1, 2 | 2, 0 | 2, 1 => simp [exBlocks] at hi hj; subst hi hj; simp at hn
  | i + 3, _ => simp [exBlocks] at hi
  | 0, j + 3 | 1, j + 3 | 2, j + 3 => simp [exBlocks] at hj

def exMsgs : List Msg := [⟨0, 0, .hangs, false⟩, ⟨0, 1, .deferred, false⟩, ⟨1, 1, .deferred, false⟩, ⟨0, 2, .taken, true⟩]

example : (handedAfterRestart exBlocks (atRest (phase1 exBlocks exMsgs)) 0).map (·.idx) = [1] ∧
    (handedAfterRestart exBlocks (atRest (phase1 exBlocks exMsgs)) 1).map (·.idx) = [2] ∧
    (phase1 exBlocks exMsgs).leftBehind.map (fun p => (p.1, p.2.map (·.idx))) = [(3, [0, 1])] := by decide

/-- Why the instance name matters: were the default place the same for every block (e.g. named after the
module), the first block would hand ITS next hop what the second one accepted. -/
example : (handedAfterRestart [⟨[113], .dflt, 1⟩, ⟨[113], .dflt, 1⟩]
    [⟨0, 0, 0, .deferred⟩, ⟨1, 1, 1, .deferred⟩] 0).map (·.q) = [0, 1] := by decide

end Fleet

end MaddyVerif.C10
