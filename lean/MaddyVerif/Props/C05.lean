import MaddyVerif.Model.RemoteSec
/-!
# C05 — message content only goes over connections that satisfy the outbound security policy

Quantifier: every policy list (any order, any multiplicity — the group order is not needed for
safety), every override / relaxed / reuse-limit setting, every assignment of per-domain and per-MX
facts, any number of MX candidates, and every history (list of messages of any length, any flags,
any recipient-domain lists) sharing one connection pool.
-/
namespace MaddyVerif.C05
open MaddyVerif.RemoteSec

/-! ## The property, written from its text (nothing below refers to the levels the code computes) -/

/-- Policies in force for a message: the configured ones, unless the message says
`TLS-Required: No` and the override is allowed. -/
def inForce (cfg : Cfg) (m : Msg) : List Policy :=
  if m.tlsNo = true ∧ cfg.allowOverride = true then [] else cfg.policies

/-- TLSA discovery outcome (RFC 7672 §2.2) read off the published facts. -/
inductive Discovery | nothing | failed | usable | unusableOnly
deriving DecidableEq

/-- What consulting one TLSA base domain gives (RFC 7672 §2.2.3): DANE does not apply from this name,
the lookup failed, or an authenticated non-empty RRset (its kind relative to the presented certificate). -/
inductive Governing | notApplicable | lookupFailed | rrset (t : Tlsa)
deriving DecidableEq

/-- one candidate TLSA base domain: a lookup error is a failure; a missing or unauthenticated RRset
counts as absent -/
def atBase (t : Tlsa) (ad : Bool) : Governing :=
  if t = .servfail then .lookupFailed
  else if t = .none then .notApplicable
  else if ad = false then .notApplicable
  else .rrset t

/-- The TLSA RRset that governs connections to the MX, RFC 7672 §2.2.2:
* not an alias: insecure address records ⇒ no TLSA lookup; else the MX name is the base domain;
* alias whose whole expansion and address RRset are secure ("secure CNAME"): the expanded name is the
  preferred base domain, and only when no secure TLSA records are found there the initial name is tried —
  a lookup error at either name consulted is a failure;
* alias with a secure CNAME RRset but an insecure continuation ("insecure CNAME"): the initial name only;
* insecure CNAME RRset at the MX name: DANE does not apply.
When the address answer is not authenticated the security status of the CNAME RRset itself has to be
looked up; if that lookup fails the discovery has failed. -/
def governing (mx : MX) : Governing :=
  match mx.cname with
  | .none => if mx.aAD = false then .notApplicable else atBase mx.tlsa mx.tlsaAD
  | .secure =>
    if mx.aAD = true then
      (match atBase mx.tlsa (canonTlsaAD mx) with
       | .notApplicable => atBase mx.tlsaI mx.tlsaIAD
       | g => g)
    else if mx.cnameErr = true then .lookupFailed
    else atBase mx.tlsaI mx.tlsaIAD
  | .insecure => if mx.cnameErr = true then .lookupFailed else .notApplicable

def discovery (mx : MX) : Discovery :=
  match governing mx with
  | .notApplicable => .nothing
  | .lookupFailed => .failed
  | .rrset t => if t = .unusable then .unusableOnly else .usable

/-- A record set of kind `t` authenticates the presented certificate (DANE-EE: key match only; DANE-TA:
chain to the asserted anchor and name check). -/
def kindMatches (t : Tlsa) (cert : Cert) : Bool :=
  t == .eeMatch || (t == .taMatch && cert != .wrongName)

/-- The presented certificate is authenticated by the governing records (the ones at the canonical
name when those govern). -/
def daneMatches (mx : MX) : Bool :=
  match governing mx with
  | .rrset t => kindMatches t mx.cert
  | _ => false

/-- TLS is on and the certificate is valid for the MX under the trusted roots. -/
def pkixOf (mx : MX) (s : TlsState) : Bool := s.tlsOn && mx.cert == .valid

/-- Authentication level of the MX record: DNSSEC-signed MX RRset (dnssec policy enabled), or MX
listed in a fetched MTA-STS policy (mtasts policy enabled). -/
def mxAuth (F : List Policy) (d : Domain) (mx : MX) : Nat :=
  if Policy.dnssec ∈ F ∧ d.mxAD = true then 2
  else if Policy.mtasts ∈ F ∧ d.sts ≠ .absent ∧ mx.stsMatch = true then 1
  else 0

/-- Level of the TLS session: none, encrypted, or authenticated by PKIX or (dane enabled) by a
usable matching TLSA record. -/
def tlsAuthOf (F : List Policy) (mx : MX) (s : TlsState) : Nat :=
  if s.tlsOn = false then 0
  else if pkixOf mx s = true ∨ (Policy.dane ∈ F ∧ discovery mx = .usable ∧ daneMatches mx = true) then 2
  else 1

structure SatPolicies (F : List Policy) (d : Domain) (c : Conn) : Prop where
  /-- MTA-STS in enforce mode: listed MX, PKIX-authenticated TLS -/
  mtasts : Policy.mtasts ∈ F → d.sts = .enforce → c.mx.stsMatch = true ∧ pkixOf c.mx c.tls = true
  /-- DANE: discovery did not fail; usable records ⇒ TLS authenticated by them; only unusable records ⇒ TLS -/
  dane : Policy.dane ∈ F →
    discovery c.mx ≠ .failed ∧
    (discovery c.mx = .usable → c.tls.tlsOn = true ∧ daneMatches c.mx = true) ∧
    (discovery c.mx = .unusableOnly → c.tls.tlsOn = true)
  /-- local policy: minimum MX level and minimum TLS level -/
  localP : ∀ t x, Policy.localP t x ∈ F → x ≤ mxAuth F d c.mx ∧ t ≤ tlsAuthOf F c.mx c.tls

/-- `Satisfies cfg m d u`: connection `u` (to an MX of `d`) may carry the content of `m`. -/
structure Satisfies (cfg : Cfg) (m : Msg) (d : Domain) (u : Used) : Prop where
  notQuarantined : m.quarantine = 0
  isMX : u.conn.mx ∈ d.mxs
  policies : SatPolicies (inForce cfg m) d u.conn
  /-- REQUIRETLS: authenticated TLS, authenticated MX, and the requirement is passed on unless the
  relaxed mode is configured and the MX does not implement the extension -/
  requireTLS : m.requireTLS = true →
    tlsAuthOf (inForce cfg m) u.conn.mx u.conn.tls = 2 ∧ 1 ≤ mxAuth (inForce cfg m) d u.conn.mx ∧
    (u.mailRT = true ∨ (cfg.relaxed = true ∧ extREQUIRETLS u.conn = false))

/-! ## facts about the primitives -/

theorem inForce_eq (cfg : Cfg) (m : Msg) : startPolicies cfg m = inForce cfg m := by
  unfold startPolicies inForce overridden
  cases m.tlsNo <;> cases cfg.allowOverride <;> simp

theorem tlsAuthOf_le (F : List Policy) (mx : MX) (s : TlsState) : tlsAuthOf F mx s ≤ 2 := by
  unfold tlsAuthOf; split <;> (try split) <;> omega

theorem connect_sound (F : List Policy) (mx : MX) (tl : Nat) (s : TlsState)
    (h : connect mx = .ok (tl, s)) :
    tl ≤ tlsAuthOf F mx s ∧ (s.verified = true → pkixOf mx s = true) := by
  unfold connect at h
  unfold tlsAuthOf pkixOf
  cases hup : mx.up <;> cases hst : mx.starttls <;> cases hc : mx.cert <;>
    simp [hup, hst, hc, handshake, plain] at h <;>
    (obtain ⟨h1, h2⟩ := h; subst h1; subst h2; simp [hc]; try (split <;> omega))

theorem connect_err (mx : MX) (e : Cls) (h : connect mx = .error e) : e = .temp := by
  unfold connect at h
  cases hup : mx.up <;> cases hst : mx.starttls <;> cases hc : mx.cert <;>
    simp [hup, hst, hc, handshake, plain] at h <;> exact h.symm

theorem lookupInitial_spec (t : Tlsa) (ad : Bool) :
    (lookupInitial t ad = .fail ↔ atBase t ad = .lookupFailed) ∧
    (lookupInitial t ad = .none ↔ atBase t ad = .notApplicable) ∧
    (∀ k, lookupInitial t ad = .recs k ↔ atBase t ad = .rrset k) := by
  unfold lookupInitial atBase
  cases t <;> cases ad <;> simp <;> (intro k; constructor <;> (intro h; exact h.symm))

/-- The code's discovery against the RFC reading: it fails whenever the RFC says the discovery failed
(it also fails for a lookup error at the canonical name of an "insecure CNAME", a name the RFC would not
consult — stricter, never weaker), "no records" only when DANE does not apply, and the records it
returns are the governing ones. -/
theorem discover_spec (mx : MX) :
    (discovery mx = .failed → discover mx = .fail) ∧
    (discover mx = .none → discovery mx = .nothing) ∧
    (∀ t, discover mx = .recs t → governing mx = .rrset t) := by
  unfold discovery discover governing
  cases hc : mx.cname
  · -- not an alias
    cases h1 : mx.aAD
    · simp
    · have := lookupInitial_spec mx.tlsa mx.tlsaAD
      simp only [Bool.not_true, Bool.false_eq_true, ↓reduceIte]
      refine ⟨?_, ?_, ?_⟩
      · intro h
        apply this.1.2
        cases hg : atBase mx.tlsa mx.tlsaAD <;> simp [hg] at h ⊢
        split at h <;> simp at h
      · intro h; simp [this.2.1.1 h]
      · intro t h; exact (this.2.2 t).1 h
  · -- secure alias
    have hI := lookupInitial_spec mx.tlsaI mx.tlsaIAD
    generalize lookupInitial mx.tlsaI mx.tlsaIAD = lI at hI ⊢
    generalize atBase mx.tlsaI mx.tlsaIAD = gI at hI ⊢
    obtain ⟨i1, i2, i3⟩ := hI
    cases h1 : mx.aAD <;> cases h4 : mx.cnameErr <;> cases h2 : mx.tlsa <;> cases h3 : mx.tlsaAD <;>
      simp [canonTlsaAD, atBase] <;>
      (cases lI <;> cases gI <;> simp_all <;>
        (try (have := (i3 _).1 rfl; subst this)) <;> (try split) <;> simp_all)
  · -- insecure alias
    cases h4 : mx.cnameErr <;> simp

theorem governing_usable (mx : MX) (t : Tlsa) (h : governing mx = .rrset t) :
    (t = .unusable → discovery mx = .unusableOnly) ∧ (t ≠ .unusable → discovery mx = .usable) ∧
    daneMatches mx = kindMatches t mx.cert := by
  unfold discovery daneMatches
  rw [h]
  refine ⟨fun h => by simp [h], fun h => by simp [h], rfl⟩

/-- **A lookup failure at any name consulted is a discovery failure** (made explicit for an MX whose
name is a fully secure alias): the discovery has failed iff the TLSA lookup at the canonical name fails, or
no authenticated records are found there and the lookup at the initial name fails.  Together with
`C05_tlsa_failure_defers` / `C05_data_only_on_satisfying_conn`: no content goes to such an MX. -/
theorem C05_discovery_failed_secure_alias (mx : MX) (hc : mx.cname = .secure) (ha : mx.aAD = true) :
    discovery mx = .failed ↔
      (mx.tlsa = .servfail ∨
        ((mx.tlsa = .none ∨ mx.tlsaAD = false) ∧ mx.tlsaI = .servfail)) := by
  unfold discovery governing
  simp only [hc, ha, ↓reduceIte]
  cases h2 : mx.tlsa <;> cases h3 : mx.tlsaAD <;> cases h5 : mx.tlsaI <;> cases h6 : mx.tlsaIAD <;>
    simp [atBase, canonTlsaAD, ha, h3]

/-- records found (authenticated) at the canonical name of a fully secure alias govern: what is published at
the initial name is not consulted -/
theorem C05_canonical_records_govern (mx : MX) (hc : mx.cname = .secure) (ha : mx.aAD = true)
    (had : mx.tlsaAD = true) (h1 : mx.tlsa ≠ .none) (h2 : mx.tlsa ≠ .servfail) :
    governing mx = .rrset mx.tlsa := by
  unfold governing
  simp only [hc, ha, ↓reduceIte]
  cases h : mx.tlsa <;> simp_all [atBase, canonTlsaAD]

theorem verifyDANE_spec (t : Tlsa) (cert : Cert) (tlsOn : Bool) :
    (verifyDANE t cert tlsOn = .auth → tlsOn = true ∧ kindMatches t cert = true ∧ t ≠ .unusable) ∧
    (verifyDANE t cert tlsOn = .noReq → tlsOn = true ∧ t = .unusable) := by
  unfold verifyDANE kindMatches
  cases tlsOn <;> cases t <;> cases cert <;> simp

/-! ## the two policy loops of `attemptMX` -/

theorem checkMX_le (F : List Policy) (p : Policy) (hp : p ∈ F) (lvl : Nat) (d : Domain) (mx : MX)
    (hl : lvl ≤ mxAuth F d mx) (r : Nat) (h : checkMX p lvl d mx = .ok r) : r ≤ mxAuth F d mx := by
  cases p with
  | mtasts =>
    simp only [checkMX] at h
    by_cases ha : d.sts = .absent
    · simp [ha] at h; omega
    · by_cases hm : mx.stsMatch = true
      · simp [ha, hm] at h
        subst h
        unfold mxAuth
        split
        · omega
        · simp [hp, ha, hm]
      · simp [ha, hm] at h
        split at h <;> simp at h
        omega
  | stsPreload => simp [checkMX] at h; omega
  | dane => simp [checkMX] at h; omega
  | dnssec =>
    simp only [checkMX] at h
    by_cases ha : d.mxAD = true
    · simp [ha] at h; subst h; unfold mxAuth; simp [hp, ha]
    · simp [ha] at h; omega
  | localP t x =>
    simp only [checkMX] at h
    split at h <;> simp at h
    omega

theorem checkMXs_sound (F : List Policy) (d : Domain) (mx : MX) :
    ∀ (l : List Policy) (lvl r : Nat), (∀ p ∈ l, p ∈ F) → lvl ≤ mxAuth F d mx →
      checkMXs l lvl d mx = .ok r →
      r ≤ mxAuth F d mx ∧ lvl ≤ r ∧
      (Policy.mtasts ∈ l → d.sts = .enforce → mx.stsMatch = true) ∧
      (∀ t x, Policy.localP t x ∈ l → x ≤ r) := by
  intro l
  induction l with
  | nil =>
    intro lvl r _ hl h
    simp [checkMXs] at h
    subst h
    simp [hl]
  | cons p rest ih =>
    intro lvl r hsub hl h
    unfold checkMXs at h
    cases hc : checkMX p lvl d mx with
    | error e => simp [hc] at h
    | ok l1 =>
      simp [hc] at h
      have hp : p ∈ F := hsub p (by simp)
      have hl1 := checkMX_le F p hp lvl d mx hl l1 hc
      have hmax : max lvl l1 ≤ mxAuth F d mx := by omega
      have := ih (max lvl l1) r (fun q hq => hsub q (by simp [hq])) hmax h
      obtain ⟨a, b, c, e⟩ := this
      refine ⟨a, by omega, ?_, ?_⟩
      · intro hmem henf
        simp at hmem
        rcases hmem with hmem | hmem
        · subst hmem
          simp only [checkMX] at hc
          by_cases hm : mx.stsMatch = true
          · exact hm
          · simp [henf, hm] at hc
        · exact c hmem henf
      · intro t x hmem
        simp at hmem
        rcases hmem with hmem | hmem
        · subst hmem
          simp only [checkMX] at hc
          split at hc <;> simp at hc
          omega
        · exact e t x hmem

theorem checkMXs_err (F : List Policy) (d : Domain) (mx : MX)
    (hne : ¬ (Policy.mtasts ∈ F ∧ d.sts = .enforce ∧ mx.stsMatch = false)) :
    ∀ (l : List Policy) (lvl : Nat) (e : Cls), (∀ p ∈ l, p ∈ F) →
      checkMXs l lvl d mx = .error e → e = .temp := by
  intro l
  induction l with
  | nil => intro lvl e _ h; simp [checkMXs] at h
  | cons p rest ih =>
    intro lvl e hsub h
    unfold checkMXs at h
    cases hc : checkMX p lvl d mx with
    | ok l1 =>
      simp [hc] at h
      exact ih (max lvl l1) e (fun q hq => hsub q (by simp [hq])) h
    | error e1 =>
      simp [hc] at h
      subst h
      have hp : p ∈ F := hsub p (by simp)
      cases p with
      | mtasts =>
        simp only [checkMX] at hc
        by_cases ha : d.sts = .absent
        · simp [ha] at hc
        · by_cases hm : mx.stsMatch = true
          · simp [ha, hm] at hc
          · simp [ha, hm] at hc
            by_cases henf : d.sts = .enforce
            · exact absurd ⟨hp, henf, by simpa using hm⟩ hne
            · simp [henf] at hc
      | stsPreload => simp [checkMX] at hc
      | dane => simp [checkMX] at hc
      | dnssec => simp only [checkMX] at hc; split at hc <;> simp at hc
      | localP t x =>
        simp only [checkMX] at hc
        split at hc <;> simp at hc
        exact hc.symm

theorem checkConn_le (F : List Policy) (p : Policy) (hp : p ∈ F) (tl : Nat) (d : Domain) (mx : MX)
    (s : TlsState) (hl : tl ≤ tlsAuthOf F mx s) (r : Nat) (h : checkConn p tl d mx s = .ok r) :
    r ≤ tlsAuthOf F mx s := by
  cases p with
  | mtasts =>
    simp only [checkConn] at h
    split at h
    · simp at h; omega
    · split at h
      · simp at h
      · split at h <;> simp at h
        omega
  | stsPreload => simp [checkConn] at h; omega
  | dane =>
    simp only [checkConn] at h
    cases hd : discover mx with
    | fail => simp [hd] at h
    | none => simp [hd] at h; omega
    | recs t =>
      simp only [hd] at h
      have hg := (discover_spec mx).2.2 t hd
      obtain ⟨_, hus, hdm⟩ := governing_usable mx t hg
      cases hv : verifyDANE t mx.cert s.tlsOn with
      | err => simp [hv] at h
      | noReq => simp [hv] at h; omega
      | auth =>
        simp [hv] at h
        subst h
        obtain ⟨h1, h2, h3⟩ := (verifyDANE_spec t mx.cert s.tlsOn).1 hv
        unfold tlsAuthOf
        simp [h1, hp, hus h3, hdm, h2]
  | dnssec => simp [checkConn] at h; omega
  | localP t x =>
    simp only [checkConn] at h
    split at h <;> simp at h
    omega

theorem checkConns_sound (F : List Policy) (d : Domain) (mx : MX) (s : TlsState)
    (hver : s.verified = true → pkixOf mx s = true) :
    ∀ (l : List Policy) (tl r : Nat), (∀ p ∈ l, p ∈ F) → tl ≤ tlsAuthOf F mx s →
      checkConns l tl d mx s = .ok r →
      r ≤ tlsAuthOf F mx s ∧ tl ≤ r ∧
      (Policy.mtasts ∈ l → d.sts = .enforce → pkixOf mx s = true) ∧
      (Policy.dane ∈ l →
        discovery mx ≠ .failed ∧
        (discovery mx = .usable → s.tlsOn = true ∧ daneMatches mx = true) ∧
        (discovery mx = .unusableOnly → s.tlsOn = true)) ∧
      (∀ t x, Policy.localP t x ∈ l → t ≤ r) := by
  intro l
  induction l with
  | nil =>
    intro tl r _ hl h
    simp [checkConns] at h
    subst h
    simp [hl]
  | cons p rest ih =>
    intro tl r hsub hl h
    unfold checkConns at h
    cases hc : checkConn p tl d mx s with
    | error e => simp [hc] at h
    | ok l1 =>
      simp [hc] at h
      have hp : p ∈ F := hsub p (by simp)
      have hl1 := checkConn_le F p hp tl d mx s hl l1 hc
      have hmax : max tl l1 ≤ tlsAuthOf F mx s := by omega
      obtain ⟨a, b, c, e, f⟩ := ih (max tl l1) r (fun q hq => hsub q (by simp [hq])) hmax h
      refine ⟨a, by omega, ?_, ?_, ?_⟩
      · intro hmem henf
        simp at hmem
        rcases hmem with hmem | hmem
        · subst hmem
          simp only [checkConn] at hc
          simp [henf] at hc
          by_cases h1 : s.tlsOn = true
          · by_cases h2 : s.verified = true
            · exact hver h2
            · simp [h1, h2] at hc
          · simp [h1] at hc
        · exact c hmem henf
      · intro hmem
        simp at hmem
        rcases hmem with hmem | hmem
        · subst hmem
          simp only [checkConn] at hc
          have hsp := discover_spec mx
          cases hd : discover mx with
          | fail => simp [hd] at hc
          | none =>
            have hn := hsp.2.1 hd
            simp [hn]
          | recs t =>
            simp only [hd] at hc
            obtain ⟨hu1, hu2, hdm⟩ := governing_usable mx t (hsp.2.2 t hd)
            cases hv : verifyDANE t mx.cert s.tlsOn with
            | err => simp [hv] at hc
            | noReq =>
              obtain ⟨h1, h2⟩ := (verifyDANE_spec t mx.cert s.tlsOn).2 hv
              have := hu1 h2
              simp [this, h1]
            | auth =>
              obtain ⟨h1, h2, h3⟩ := (verifyDANE_spec t mx.cert s.tlsOn).1 hv
              have := hu2 h3
              simp [this, h1, hdm, h2]
        · exact e hmem
      · intro t x hmem
        simp at hmem
        rcases hmem with hmem | hmem
        · subst hmem
          simp only [checkConn] at hc
          split at hc <;> simp at hc
          omega
        · exact f t x hmem

theorem checkConn_err_discfail (d : Domain) (mx : MX) (s : TlsState) (hdf : discover mx = .fail)
    (p : Policy) (tl : Nat) (e : Cls) (h : checkConn p tl d mx s = .error e) : e = .temp := by
  cases p with
  | mtasts =>
    simp only [checkConn] at h
    split at h
    · simp at h
    · split at h
      · simp at h; exact h.symm
      · split at h <;> simp at h
        exact h.symm
  | stsPreload => simp [checkConn] at h
  | dane => simp [checkConn, hdf] at h; exact h.symm
  | dnssec => simp [checkConn] at h
  | localP t x =>
    simp only [checkConn] at h
    split at h <;> simp at h
    exact h.symm

/-- with DANE in the list and a failed discovery the second loop ends in a temporary error -/
theorem checkConns_discfail (d : Domain) (mx : MX) (s : TlsState) (hf : discovery mx = .failed) :
    ∀ (l : List Policy) (tl : Nat), Policy.dane ∈ l → checkConns l tl d mx s = .error .temp := by
  have hdf : discover mx = .fail := (discover_spec mx).1 hf
  intro l
  induction l with
  | nil => intro tl h; simp at h
  | cons p rest ih =>
    intro tl hmem
    unfold checkConns
    cases hc : checkConn p tl d mx s with
    | error e =>
      have := checkConn_err_discfail d mx s hdf p tl e hc
      simp [this]
    | ok l1 =>
      simp only
      have hne : p ≠ Policy.dane := by
        intro hp
        subst hp
        simp [checkConn, hdf] at hc
      have : Policy.dane ∈ rest := by
        simp at hmem
        rcases hmem with h | h
        · exact absurd h.symm hne
        · exact h
      exact ih _ this

/-! ## `attemptMX`, `newConn` -/

/-- What a freshly opened connection guarantees with respect to the policy list it was opened under. -/
structure Fresh (F : List Policy) (ov : Bool) (d : Domain) (c : Conn) : Prop where
  sat : SatPolicies F d c
  mxLevel : c.mxLevel ≤ mxAuth F d c.mx
  tlsLevel : c.tlsLevel ≤ tlsAuthOf F c.mx c.tls
  ov : c.secOverride = ov

theorem attemptMX_sound (F : List Policy) (ov : Bool) (d : Domain) (mx : MX) (c : Conn)
    (h : attemptMX F ov d mx = .ok c) : c.mx = mx ∧ Fresh F ov d c := by
  unfold attemptMX at h
  cases h1 : checkMXs F 0 d mx with
  | error e => simp [h1] at h
  | ok mxl =>
    simp only [h1] at h
    cases h2 : connect mx with
    | error e => simp [h2] at h
    | ok p =>
      obtain ⟨tl, s⟩ := p
      simp only [h2] at h
      cases h3 : checkConns F tl d mx s with
      | error e => simp [h3] at h
      | ok tl' =>
        simp [h3] at h
        subst h
        obtain ⟨a1, _, a3, a4⟩ := checkMXs_sound F d mx F 0 mxl (fun _ hp => hp) (Nat.zero_le _) h1
        obtain ⟨b1, b2⟩ := connect_sound F mx tl s h2
        obtain ⟨c1, _, c3, c4, c5⟩ := checkConns_sound F d mx s b2 F tl tl' (fun _ hp => hp) b1 h3
        refine ⟨rfl, ⟨⟨?_, c4, ?_⟩, a1, c1, rfl⟩⟩
        · intro hm he; exact ⟨a3 hm he, c3 hm he⟩
        · intro t x hm
          exact ⟨Nat.le_trans (a4 t x hm) a1, Nat.le_trans (c5 t x hm) c1⟩

theorem tryMXs_sound (F : List Policy) (ov : Bool) (d : Domain) :
    ∀ (l : List MX) (last : Cls) (c : Conn), tryMXs F ov d l last = .ok c → c.mx ∈ l ∧ Fresh F ov d c := by
  intro l
  induction l with
  | nil => intro last c h; simp [tryMXs] at h
  | cons mx rest ih =>
    intro last c h
    unfold tryMXs at h
    cases h1 : attemptMX F ov d mx with
    | ok c1 =>
      simp [h1] at h
      subst h
      obtain ⟨a, b⟩ := attemptMX_sound F ov d mx c1 h1
      exact ⟨by simp [a], b⟩
    | error e =>
      simp [h1] at h
      obtain ⟨a, b⟩ := ih (keepErr last e) c h
      exact ⟨by simp [a], b⟩

theorem newConn_sound (F : List Policy) (ov : Bool) (d : Domain) (c : Conn)
    (h : newConn F ov d = .ok c) : c.mx ∈ d.mxs ∧ Fresh F ov d c := by
  unfold newConn at h
  unfold Domain.mxs
  cases h1 : attemptMX F ov d d.mx with
  | ok c1 =>
    simp [h1] at h
    subst h
    obtain ⟨a, b⟩ := attemptMX_sound F ov d d.mx c1 h1
    exact ⟨by simp [a], b⟩
  | error e =>
    simp [h1] at h
    obtain ⟨a, b⟩ := tryMXs_sound F ov d d.more e c h
    exact ⟨by simp [a], b⟩

/-- an MX that MTA-STS in enforce mode excludes (a permanent refusal of that candidate) -/
def stsExcluded (F : List Policy) (d : Domain) (mx : MX) : Prop :=
  Policy.mtasts ∈ F ∧ d.sts = .enforce ∧ mx.stsMatch = false

theorem attemptMX_discfail (F : List Policy) (ov : Bool) (d : Domain) (mx : MX)
    (hd : Policy.dane ∈ F) (hf : discovery mx = .failed) (hne : ¬ stsExcluded F d mx) :
    attemptMX F ov d mx = .error .temp := by
  unfold attemptMX
  cases h1 : checkMXs F 0 d mx with
  | error e =>
    have := checkMXs_err F d mx hne F 0 e (fun _ hp => hp) h1
    simp [this]
  | ok mxl =>
    simp only
    cases h2 : connect mx with
    | error e => simp [connect_err mx e h2]
    | ok p =>
      obtain ⟨tl, s⟩ := p
      simp [checkConns_discfail d mx s hf F tl hd]

theorem checkMXs_excluded (d : Domain) (mx : MX) (he : d.sts = .enforce) (hm : mx.stsMatch = false) :
    ∀ (l : List Policy) (lvl : Nat), Policy.mtasts ∈ l → ∃ e, checkMXs l lvl d mx = .error e := by
  intro l
  induction l with
  | nil => intro lvl h; simp at h
  | cons p rest ih =>
    intro lvl hmem
    unfold checkMXs
    cases hc : checkMX p lvl d mx with
    | error e => exact ⟨e, rfl⟩
    | ok l1 =>
      simp only
      have hne : p ≠ Policy.mtasts := by
        intro hp
        subst hp
        simp [checkMX, he, hm] at hc
      have : Policy.mtasts ∈ rest := by
        simp at hmem
        rcases hmem with h | h
        · exact absurd h.symm hne
        · exact h
      exact ih _ this

/-- an MX that enforce-mode MTA-STS excludes is never used -/
theorem attemptMX_excluded (F : List Policy) (ov : Bool) (d : Domain) (mx : MX)
    (h : stsExcluded F d mx) : ∃ e, attemptMX F ov d mx = .error e := by
  obtain ⟨e, he⟩ := checkMXs_excluded d mx h.2.1 h.2.2 F 0 h.1
  exact ⟨e, by unfold attemptMX; rw [he]⟩

/-- with DANE in force an MX whose TLSA discovery failed is never used, whatever else holds -/
theorem attemptMX_discfail_err (F : List Policy) (ov : Bool) (d : Domain) (mx : MX)
    (hd : Policy.dane ∈ F) (hf : discovery mx = .failed) : ∃ e, attemptMX F ov d mx = .error e := by
  unfold attemptMX
  cases h1 : checkMXs F 0 d mx with
  | error e => exact ⟨e, rfl⟩
  | ok mxl =>
    simp only
    cases h2 : connect mx with
    | error e => exact ⟨e, rfl⟩
    | ok p =>
      obtain ⟨tl, s⟩ := p
      simp [checkConns_discfail d mx s hf F tl hd]

theorem keepErr_temp (e : Cls) : keepErr .temp e = .temp := rfl
theorem keepErr_temp_right (last : Cls) : keepErr last .temp = .temp := by cases last <;> rfl

theorem tryMXs_allfail (F : List Policy) (ov : Bool) (d : Domain) :
    ∀ (l : List MX) (last : Cls), (∀ mx ∈ l, ∃ e, attemptMX F ov d mx = .error e) →
      ∃ e, tryMXs F ov d l last = .error e ∧ (last = .temp → e = .temp) ∧
        ((∃ mx ∈ l, attemptMX F ov d mx = .error .temp) → e = .temp) := by
  intro l
  induction l with
  | nil => intro last _; exact ⟨last, rfl, fun h => h, fun h => by simp at h⟩
  | cons mx rest ih =>
    intro last h
    obtain ⟨e1, he1⟩ := h mx (by simp)
    obtain ⟨e, h1, h2, h3⟩ := ih (keepErr last e1) (fun q hq => h q (by simp [hq]))
    refine ⟨e, ?_, ?_, ?_⟩
    · unfold tryMXs; rw [he1]; exact h1
    · intro hl; subst hl; exact h2 (keepErr_temp e1)
    · intro hex
      obtain ⟨q, hq, hqe⟩ := hex
      simp at hq
      rcases hq with hq | hq
      · subst hq
        rw [he1] at hqe
        simp at hqe
        subst hqe
        exact h2 (keepErr_temp_right last)
      · exact h3 ⟨q, hq, hqe⟩

theorem newConn_discfail (F : List Policy) (ov : Bool) (d : Domain) (hd : Policy.dane ∈ F)
    (hall : ∀ mx ∈ d.mxs, discovery mx = .failed ∨ stsExcluded F d mx)
    (hex : ∃ mx ∈ d.mxs, discovery mx = .failed ∧ ¬ stsExcluded F d mx) :
    newConn F ov d = .error .temp := by
  have herr : ∀ mx ∈ d.mxs, ∃ e, attemptMX F ov d mx = .error e := by
    intro mx hmx
    rcases hall mx hmx with h | h
    · exact attemptMX_discfail_err F ov d mx hd h
    · exact attemptMX_excluded F ov d mx h
  unfold newConn
  obtain ⟨e0, he0⟩ := herr d.mx (by simp [Domain.mxs])
  rw [he0]
  simp only
  obtain ⟨e, h1, h2, h3⟩ := tryMXs_allfail F ov d d.more e0
    (fun q hq => herr q (by simp [Domain.mxs, hq]))
  rw [h1]
  obtain ⟨q, hq, hqf, hne⟩ := hex
  have hqt := attemptMX_discfail F ov d q hd hqf hne
  simp [Domain.mxs] at hq
  rcases hq with hq | hq
  · subst hq
    rw [he0] at hqt
    simp at hqt
    rw [h2 hqt]
  · rw [h3 ⟨q, hq, hqt⟩]

/-! ## the pool and one delivery -/

/-- A pooled connection: opened under the full configured policy list, to an MX of its key. -/
structure Good (cfg : Cfg) (doms : Nat → Domain) (dom : Nat) (c : Conn) : Prop where
  noOverride : c.secOverride = false
  sat : SatPolicies cfg.policies (doms dom) c
  isMX : c.mx ∈ (doms dom).mxs

def PoolGood (cfg : Cfg) (doms : Nat → Domain) (pool : Pool) : Prop :=
  ∀ dom c, c ∈ pool dom → Good cfg doms dom c

theorem poolGood_empty (cfg : Cfg) (doms : Nat → Domain) : PoolGood cfg doms emptyPool := by
  intro dom c h; simp [emptyPool] at h

theorem poolGet_spec (cfg : Cfg) : ∀ (l : List Conn),
    (∀ c, (poolGet cfg l).1 = some c → c ∈ l) ∧ (∀ c ∈ (poolGet cfg l).2, c ∈ l) := by
  intro l
  induction l with
  | nil => simp [poolGet]
  | cons a rest ih =>
    unfold poolGet
    split
    · simp
      intro c hc; exact Or.inr hc
    · refine ⟨fun c hc => ?_, fun c hc => ?_⟩
      · simp [ih.1 c hc]
      · simp [ih.2 c hc]

theorem poolGood_set (cfg : Cfg) (doms : Nat → Domain) (pool : Pool) (hp : PoolGood cfg doms pool)
    (dom : Nat) (l : List Conn) (hl : ∀ c ∈ l, Good cfg doms dom c) : PoolGood cfg doms (pool.set dom l) := by
  intro d c hc
  unfold Pool.set at hc
  by_cases hd : d = dom
  · subst hd; simp at hc; exact hl c hc
  · simp [hd] at hc; exact hp d c hc

theorem satPolicies_nil (d : Domain) (c : Conn) : SatPolicies [] d c :=
  ⟨by simp, by simp, by simp⟩

/-- the connections of a running delivery -/
structure UsedOK (cfg : Cfg) (doms : Nat → Domain) (m : Msg) (u : Used) : Prop where
  isMX : u.conn.mx ∈ (doms u.dom).mxs
  sat : SatPolicies (inForce cfg m) (doms u.dom) u.conn
  rt : m.requireTLS = true →
    tlsAuthOf (inForce cfg m) u.conn.mx u.conn.tls = 2 ∧ 1 ≤ mxAuth (inForce cfg m) (doms u.dom) u.conn.mx ∧
    (u.mailRT = true ∨ (cfg.relaxed = true ∧ extREQUIRETLS u.conn = false))
  back : u.conn.secOverride = false → Good cfg doms u.dom u.conn

structure StOK (cfg : Cfg) (doms : Nat → Domain) (m : Msg) (st : DState) : Prop where
  pool : PoolGood cfg doms st.pool
  conns : ∀ u ∈ st.conns, UsedOK cfg doms m u

theorem lookupConn_none (l : List Used) (dom : Nat) (h : ∀ u ∈ l, u.dom ≠ dom) : lookupConn l dom = none := by
  unfold lookupConn
  rw [List.find?_eq_none]
  intro u hu
  simp [h u hu]

/-- `connectionForDomain` keeps the invariant, only adds a connection for the requested domain, and
whatever it adds satisfies the message's requirements. -/
theorem cfd_ok (cfg : Cfg) (doms : Nat → Domain) (m : Msg) (st : DState) (dom : Nat)
    (hst : StOK cfg doms m st) :
    StOK cfg doms m (connectionForDomain cfg doms m st dom).2 ∧
    (∀ u ∈ (connectionForDomain cfg doms m st dom).2.conns, u ∈ st.conns ∨ u.dom = dom) := by
  unfold connectionForDomain
  cases hlk : lookupConn st.conns dom with
  | some u => simp only; exact ⟨hst, fun u hu => Or.inl hu⟩
  | none =>
    simp only
    have hget := poolGet_spec cfg (st.pool dom)
    have hpool1 : PoolGood cfg doms (st.pool.set dom (poolGet cfg (st.pool dom)).2) :=
      poolGood_set cfg doms st.pool hst.pool dom _ (fun c hc => hst.pool dom c (hget.2 c hc))
    -- the state when nothing is added
    have hst1 : StOK cfg doms m { st with pool := st.pool.set dom (poolGet cfg (st.pool dom)).2 } :=
      ⟨hpool1, hst.conns⟩
    -- a connection coming out of `newConn`
    have hnew : ∀ c, newConn (startPolicies cfg m) (overridden cfg m) (doms dom) = .ok c →
        c.mx ∈ (doms dom).mxs ∧ SatPolicies (inForce cfg m) (doms dom) c ∧
        c.mxLevel ≤ mxAuth (inForce cfg m) (doms dom) c.mx ∧
        c.tlsLevel ≤ tlsAuthOf (inForce cfg m) c.mx c.tls ∧
        (c.secOverride = false → Good cfg doms dom c) := by
      intro c hc
      obtain ⟨a, b⟩ := newConn_sound _ _ _ c hc
      rw [inForce_eq] at b
      refine ⟨a, b.sat, b.mxLevel, b.tlsLevel, ?_⟩
      intro hov
      have hno : overridden cfg m = false := by rw [← b.ov]; exact hov
      have hF : inForce cfg m = cfg.policies := by
        unfold overridden at hno
        unfold inForce
        cases h1 : m.tlsNo <;> cases h2 : cfg.allowOverride <;> simp [h1, h2] at hno ⊢
      exact ⟨hov, hF ▸ b.sat, a⟩
    -- the tail of the function, for a connection `c` with the listed guarantees
    have htail : ∀ c : Conn,
        c.mx ∈ (doms dom).mxs → SatPolicies (inForce cfg m) (doms dom) c →
        (m.requireTLS = true → c.mxLevel ≤ mxAuth (inForce cfg m) (doms dom) c.mx ∧
          c.tlsLevel ≤ tlsAuthOf (inForce cfg m) c.mx c.tls) →
        (c.secOverride = false → Good cfg doms dom c) →
        ∀ u, u = (⟨dom, c, m.requireTLS && !(cfg.relaxed && !extREQUIRETLS c)⟩ : Used) →
        (m.requireTLS && decide (c.tlsLevel < 2)) = false →
        (m.requireTLS && decide (c.mxLevel < 1)) = false →
        UsedOK cfg doms m u := by
      intro c h1 h2 h3 h4 u hu k1 k2
      subst hu
      refine ⟨h1, h2, ?_, h4⟩
      intro hrt
      dsimp only
      simp [hrt] at k1 k2
      obtain ⟨l1, l2⟩ := h3 hrt
      have := tlsAuthOf_le (inForce cfg m) c.mx c.tls
      refine ⟨by omega, by omega, ?_⟩
      simp [hrt]
      cases cfg.relaxed <;> cases extREQUIRETLS c <;> simp
    -- case analysis on where the connection comes from
    cases hg : (poolGet cfg (st.pool dom)).1 with
    | none =>
      simp only
      cases hn : newConn (startPolicies cfg m) (overridden cfg m) (doms dom) with
      | error e => simp only; exact ⟨hst1, fun u hu => Or.inl hu⟩
      | ok c =>
        simp only
        obtain ⟨a1, a2, a3, a4, a5⟩ := hnew c hn
        split
        · exact ⟨hst1, fun u hu => Or.inl hu⟩
        · split
          · exact ⟨hst1, fun u hu => Or.inl hu⟩
          · split
            · exact ⟨hst1, fun u hu => Or.inl hu⟩
            · rename_i k1 k2 k3
              refine ⟨⟨hpool1, ?_⟩, ?_⟩
              · intro u hu
                rcases List.mem_append.mp hu with hu | hu
                · exact hst.conns u hu
                · exact htail c a1 a2 (fun _ => ⟨a3, a4⟩) a5 u (List.mem_singleton.mp hu)
                    (by simpa using k1) (by simpa using k2)
              · intro u hu
                rcases List.mem_append.mp hu with hu | hu
                · exact Or.inl hu
                · exact Or.inr (by rw [List.mem_singleton.mp hu])
    | some pc =>
      simp only
      have hpc : Good cfg doms dom pc := hst.pool dom pc (hget.1 pc hg)
      by_cases hrt : m.requireTLS = true
      · simp only [hrt, Bool.not_true, Bool.false_eq_true, ↓reduceIte]
        cases hn : newConn (startPolicies cfg m) (overridden cfg m) (doms dom) with
        | error e => simp only; exact ⟨hst1, fun u hu => Or.inl hu⟩
        | ok c =>
          simp only
          obtain ⟨a1, a2, a3, a4, a5⟩ := hnew c hn
          split
          · exact ⟨hst1, fun u hu => Or.inl hu⟩
          · split
            · exact ⟨hst1, fun u hu => Or.inl hu⟩
            · split
              · exact ⟨hst1, fun u hu => Or.inl hu⟩
              · rename_i k1 k2 k3
                refine ⟨⟨hpool1, ?_⟩, ?_⟩
                · intro u hu
                  rcases List.mem_append.mp hu with hu | hu
                  · exact hst.conns u hu
                  · exact htail c a1 a2 (fun _ => ⟨a3, a4⟩) a5 u (by rw [List.mem_singleton.mp hu, hrt])
                      (by simpa [hrt] using k1) (by simpa [hrt] using k2)
                · intro u hu
                  rcases List.mem_append.mp hu with hu | hu
                  · exact Or.inl hu
                  · exact Or.inr (by rw [List.mem_singleton.mp hu])
      · have hrt' : m.requireTLS = false := by simpa using hrt
        simp only [hrt', Bool.not_false, ↓reduceIte, Bool.false_and, Bool.false_eq_true]
        -- reuse of a pooled connection by a message without REQUIRETLS
        have hsat : SatPolicies (inForce cfg m) (doms dom) pc := by
          unfold inForce
          split
          · exact satPolicies_nil _ _
          · exact hpc.sat
        refine ⟨⟨hpool1, ?_⟩, ?_⟩
        · intro u hu
          rcases List.mem_append.mp hu with hu | hu
          · exact hst.conns u hu
          · exact htail pc hpc.isMX hsat (fun h => by simp [hrt'] at h) (fun _ => hpc) u
              (by rw [List.mem_singleton.mp hu, hrt']; simp) (by simp [hrt']) (by simp [hrt'])
        · intro u hu
          rcases List.mem_append.mp hu with hu | hu
          · exact Or.inl hu
          · exact Or.inr (by rw [List.mem_singleton.mp hu])

theorem addRcpt_ok (cfg : Cfg) (doms : Nat → Domain) (m : Msg) (st : DState) (dom : Nat)
    (hst : StOK cfg doms m st) :
    StOK cfg doms m (addRcpt cfg doms m st dom).2 ∧
    (∀ u ∈ (addRcpt cfg doms m st dom).2.conns, u ∈ st.conns ∨ u.dom = dom) := by
  unfold addRcpt
  split
  · exact ⟨hst, fun u hu => Or.inl hu⟩
  · have := cfd_ok cfg doms m st dom hst
    split <;> rename_i heq <;> rw [heq] at this <;> exact this

theorem addRcpts_ok (cfg : Cfg) (doms : Nat → Domain) (m : Msg) :
    ∀ (l : List Nat) (st : DState), StOK cfg doms m st →
      StOK cfg doms m (addRcpts cfg doms m l st).2 ∧
      (∀ u ∈ (addRcpts cfg doms m l st).2.conns, u ∈ st.conns ∨ u.dom ∈ l) := by
  intro l
  induction l with
  | nil => intro st hst; exact ⟨hst, fun u hu => Or.inl hu⟩
  | cons d rest ih =>
    intro st hst
    unfold addRcpts
    simp only
    obtain ⟨a, b⟩ := addRcpt_ok cfg doms m st d hst
    obtain ⟨c, e⟩ := ih (addRcpt cfg doms m st d).2 a
    refine ⟨c, fun u hu => ?_⟩
    rcases e u hu with h | h
    · rcases b u h with h' | h'
      · exact Or.inl h'
      · exact Or.inr (by simp [h'])
    · exact Or.inr (by simp [h])

theorem closeConns_good (cfg : Cfg) (doms : Nat → Domain) :
    ∀ (l : List Used) (p : Pool), PoolGood cfg doms p →
      (∀ u ∈ l, u.conn.secOverride = false → Good cfg doms u.dom u.conn) →
      PoolGood cfg doms (closeConns cfg l p) := by
  intro l
  induction l with
  | nil => intro p hp _; exact hp
  | cons u rest ih =>
    intro p hp hl
    unfold closeConns
    simp only
    split
    · exact ih p hp (fun v hv => hl v (by simp [hv]))
    · rename_i hcond
      simp at hcond
      have hg := hl u (by simp) hcond.1
      apply ih _ _ (fun v hv => hl v (by simp [hv]))
      apply poolGood_set cfg doms p hp
      intro c hc
      simp at hc
      rcases hc with hc | hc
      · exact hp u.dom c hc
      · subst hc
        exact ⟨hg.noOverride, ⟨hg.sat.mtasts, hg.sat.dane, hg.sat.localP⟩, hg.isMX⟩

theorem stOK_init (cfg : Cfg) (doms : Nat → Domain) (m : Msg) (pool : Pool) (hp : PoolGood cfg doms pool) :
    StOK cfg doms m ⟨[], pool⟩ := ⟨hp, by simp⟩

theorem deliverMsg_pool (cfg : Cfg) (doms : Nat → Domain) (m : Msg) (pool : Pool)
    (hp : PoolGood cfg doms pool) : PoolGood cfg doms (deliverMsg cfg doms m pool).2 := by
  unfold deliverMsg
  simp only
  obtain ⟨a, _⟩ := addRcpts_ok cfg doms m m.rcpts ⟨[], pool⟩ (stOK_init cfg doms m pool hp)
  exact closeConns_good cfg doms _ _ a.pool (fun u hu => (a.conns u hu).back)

theorem deliverMsg_data (cfg : Cfg) (doms : Nat → Domain) (m : Msg) (pool : Pool)
    (hp : PoolGood cfg doms pool) :
    ∀ u ∈ (deliverMsg cfg doms m pool).1.data, Satisfies cfg m (doms u.dom) u ∧ u.dom ∈ m.rcpts := by
  unfold deliverMsg
  simp only
  obtain ⟨a, b⟩ := addRcpts_ok cfg doms m m.rcpts ⟨[], pool⟩ (stOK_init cfg doms m pool hp)
  intro u hu
  by_cases hq : m.quarantine = 0
  · have hq' : (m.quarantine != 0) = false := by simp [hq]
    rw [hq'] at hu
    simp only [Bool.false_eq_true, ↓reduceIte] at hu
    have := a.conns u hu
    refine ⟨⟨hq, this.isMX, this.sat, this.rt⟩, ?_⟩
    rcases b u hu with h | h
    · simp at h
    · exact h
  · have hq' : (m.quarantine != 0) = true := by simpa using hq
    rw [hq'] at hu
    simp at hu

/-- every element of a run is one delivery from a good pool -/
theorem run_mem (cfg : Cfg) (doms : Nat → Domain) :
    ∀ (msgs : List Msg) (pool : Pool), PoolGood cfg doms pool →
      ∀ p ∈ msgs.zip (run cfg doms msgs pool),
        ∃ pool', PoolGood cfg doms pool' ∧ p.2 = (deliverMsg cfg doms p.1 pool').1 := by
  intro msgs
  induction msgs with
  | nil => intro pool _ p hp; simp [run] at hp
  | cons m rest ih =>
    intro pool hg p hp
    unfold run at hp
    simp only [List.zip_cons_cons, List.mem_cons] at hp
    rcases hp with hp | hp
    · subst hp; exact ⟨pool, hg, rfl⟩
    · exact ih _ (deliverMsg_pool cfg doms m pool hg) p hp

/-! ## C05, part 1: content only over satisfying connections (new or reused) -/

/-- **Main theorem.**  For every configuration, every fact assignment and every history of
messages through one target starting from a pool of connections that were opened under the
configured policies (in particular the empty pool), every connection that message content is
written to — freshly opened or taken from the pool — satisfies all requirements in force for
*that* message, and belongs to a domain the message has a recipient in. -/
theorem C05_data_only_on_satisfying_conn (cfg : Cfg) (doms : Nat → Domain) (msgs : List Msg)
    (pool : Pool) (hp : PoolGood cfg doms pool) :
    ∀ p ∈ msgs.zip (run cfg doms msgs pool), ∀ u ∈ p.2.data,
      Satisfies cfg p.1 (doms u.dom) u ∧ u.dom ∈ p.1.rcpts := by
  intro p hmem u hu
  obtain ⟨pool', hg, heq⟩ := run_mem cfg doms msgs pool hp p hmem
  rw [heq] at hu
  exact deliverMsg_data cfg doms p.1 pool' hg u hu

theorem C05_data_only_on_satisfying_conn_from_start (cfg : Cfg) (doms : Nat → Domain) (msgs : List Msg) :
    ∀ p ∈ msgs.zip (run cfg doms msgs emptyPool), ∀ u ∈ p.2.data,
      Satisfies cfg p.1 (doms u.dom) u ∧ u.dom ∈ p.1.rcpts :=
  C05_data_only_on_satisfying_conn cfg doms msgs emptyPool (poolGood_empty cfg doms)

/-! ## C05, part 2: TLSA discovery failure defers -/

theorem cfd_discfail (cfg : Cfg) (doms : Nat → Domain) (m : Msg) (st : DState) (dom : Nat)
    (hst : StOK cfg doms m st) (hno : ∀ u ∈ st.conns, u.dom ≠ dom)
    (hd : Policy.dane ∈ inForce cfg m)
    (hall : ∀ mx ∈ (doms dom).mxs, discovery mx = .failed ∨ stsExcluded (inForce cfg m) (doms dom) mx)
    (hex : ∃ mx ∈ (doms dom).mxs, discovery mx = .failed ∧ ¬ stsExcluded (inForce cfg m) (doms dom) mx) :
    (connectionForDomain cfg doms m st dom).1 = .error .temp ∧
    (connectionForDomain cfg doms m st dom).2.conns = st.conns := by
  -- nothing is pooled for this domain: a pooled connection would have passed DANE
  have hF : inForce cfg m = cfg.policies := by
    unfold inForce at hd ⊢
    split at hd
    · simp at hd
    · rename_i h; simp [h]
  have hempty : st.pool dom = [] := by
    cases hl : st.pool dom with
    | nil => rfl
    | cons c rest =>
      have hg := hst.pool dom c (by simp [hl])
      rcases hall c.mx hg.isMX with hf | hx
      · exact absurd hf (hg.sat.dane (hF ▸ hd)).1
      · rw [hF] at hx
        have := (hg.sat.mtasts hx.1 hx.2.1).1
        rw [hx.2.2] at this
        exact absurd this (by simp)
  unfold connectionForDomain
  rw [lookupConn_none st.conns dom hno]
  simp only [hempty, poolGet]
  rw [inForce_eq, newConn_discfail (inForce cfg m) (overridden cfg m) (doms dom) hd hall hex]
  simp

theorem addRcpts_discfail (cfg : Cfg) (doms : Nat → Domain) (m : Msg) (dom : Nat)
    (hq : m.quarantine ≠ 1) (hd : Policy.dane ∈ inForce cfg m)
    (hall : ∀ mx ∈ (doms dom).mxs, discovery mx = .failed ∨ stsExcluded (inForce cfg m) (doms dom) mx)
    (hex : ∃ mx ∈ (doms dom).mxs, discovery mx = .failed ∧ ¬ stsExcluded (inForce cfg m) (doms dom) mx) :
    ∀ (l : List Nat) (st : DState), StOK cfg doms m st → (∀ u ∈ st.conns, u.dom ≠ dom) →
      (∀ r ∈ (addRcpts cfg doms m l st).1, r.1 = dom → r.2 = .err .temp) ∧
      (∀ u ∈ (addRcpts cfg doms m l st).2.conns, u.dom ≠ dom) := by
  intro l
  induction l with
  | nil => intro st _ hno; simp [addRcpts]; exact hno
  | cons d rest ih =>
    intro st hst hno
    unfold addRcpts
    simp only
    obtain ⟨a, b⟩ := addRcpt_ok cfg doms m st d hst
    have hq' : (m.quarantine == 1) = false := by simpa using hq
    -- the state after this recipient still has no connection for `dom`
    have hno' : ∀ u ∈ (addRcpt cfg doms m st d).2.conns, u.dom ≠ dom := by
      by_cases hdd : d = dom
      · subst hdd
        obtain ⟨_, e2⟩ := cfd_discfail cfg doms m st d hst hno hd hall hex
        unfold addRcpt
        simp only [hq', Bool.false_eq_true, ↓reduceIte]
        split <;> rename_i heq <;> rw [heq] at e2 <;> simp at e2 <;> rw [e2] <;> exact hno
      · intro u hu
        rcases b u hu with h | h
        · exact hno u h
        · rw [h]; exact hdd
    obtain ⟨i1, i2⟩ := ih (addRcpt cfg doms m st d).2 a hno'
    refine ⟨?_, i2⟩
    intro r hr hrd
    simp at hr
    rcases hr with hr | hr
    · subst hr
      simp at hrd
      subst hrd
      obtain ⟨e1, _⟩ := cfd_discfail cfg doms m st d hst hno hd hall hex
      simp only
      unfold addRcpt
      simp only [hq', Bool.false_eq_true, ↓reduceIte]
      split <;> rename_i heq <;> rw [heq] at e1 <;> simp at e1
      rw [e1]
    · exact i1 r hr hrd

/-- **TLSA failure defers.**  In every history, for a message that DANE applies to (and that was
not refused as quarantined before its recipients were added): if for every MX candidate of a
recipient domain the TLSA discovery fails or the candidate is excluded by MTA-STS in enforce mode
anyway, and the discovery fails for at least one candidate that is not excluded, then every
recipient of that domain gets a *temporary* error and none of the message content is sent to any MX
of that domain — also when the pool holds connections, whatever the order of the candidates. -/
theorem C05_tlsa_failure_defers (cfg : Cfg) (doms : Nat → Domain) (msgs : List Msg)
    (pool : Pool) (hp : PoolGood cfg doms pool) :
    ∀ p ∈ msgs.zip (run cfg doms msgs pool), p.1.quarantine ≠ 1 → Policy.dane ∈ inForce cfg p.1 →
      ∀ dom, (∀ mx ∈ (doms dom).mxs, discovery mx = .failed ∨ stsExcluded (inForce cfg p.1) (doms dom) mx) →
        (∃ mx ∈ (doms dom).mxs, discovery mx = .failed ∧ ¬ stsExcluded (inForce cfg p.1) (doms dom) mx) →
        (∀ r ∈ p.2.rcpts, r.1 = dom → r.2 = .err .temp) ∧ (∀ u ∈ p.2.data, u.dom ≠ dom) := by
  intro p hmem hq hd dom hall hex
  obtain ⟨pool', hg, heq⟩ := run_mem cfg doms msgs pool hp p hmem
  rw [heq]
  unfold deliverMsg
  simp only
  obtain ⟨a, b⟩ := addRcpts_discfail cfg doms p.1 dom hq hd hall hex p.1.rcpts ⟨[], pool'⟩
    (stOK_init cfg doms p.1 pool' hg) (by simp)
  refine ⟨?_, ?_⟩
  · intro r hr hrd
    obtain ⟨p0, hp0, rfl⟩ := List.mem_map.mp hr
    have := a p0 hp0 hrd
    simp only [this, bodyRes]
    simp
  · intro u hu
    split at hu
    · simp at hu
    · exact b u hu

/-! ## C05, part 3: quarantined messages are never relayed -/

theorem addRcpts_quarantined (cfg : Cfg) (doms : Nat → Domain) (m : Msg) (hq : m.quarantine = 1) :
    ∀ (l : List Nat) (st : DState),
      (∀ r ∈ (addRcpts cfg doms m l st).1, r.2 = .err .perm) ∧ (addRcpts cfg doms m l st).2 = st := by
  intro l
  induction l with
  | nil => intro st; simp [addRcpts]
  | cons d rest ih =>
    intro st
    unfold addRcpts
    simp only
    have h1 : addRcpt cfg doms m st d = (.err .perm, st) := by simp [addRcpt, hq]
    rw [h1]
    obtain ⟨a, b⟩ := ih st
    refine ⟨?_, b⟩
    intro r hr
    simp at hr
    rcases hr with hr | hr
    · rw [hr]
    · exact a r hr

/-- **Quarantined messages are never relayed.**  In every history no content of a quarantined message
is written to any connection and no recipient is reported delivered; if the flag was already set
when the recipients were added, no connection is even looked up and every recipient is refused
permanently. -/
theorem C05_quarantined_never_relayed (cfg : Cfg) (doms : Nat → Domain) (msgs : List Msg) (pool : Pool) :
    ∀ p ∈ msgs.zip (run cfg doms msgs pool), p.1.quarantine ≠ 0 →
      p.2.data = [] ∧ (∀ r ∈ p.2.rcpts, r.2 ≠ .ok) ∧
      (p.1.quarantine = 1 → ∀ r ∈ p.2.rcpts, r.2 = .err .perm) := by
  intro p hmem hq
  have : ∃ pool', p.2 = (deliverMsg cfg doms p.1 pool').1 := by
    clear hq
    induction msgs generalizing pool with
    | nil => simp [run] at hmem
    | cons m rest ih =>
      unfold run at hmem
      simp only [List.zip_cons_cons, List.mem_cons] at hmem
      rcases hmem with h | h
      · subst h; exact ⟨pool, rfl⟩
      · exact ih _ h
  obtain ⟨pool', heq⟩ := this
  rw [heq]
  unfold deliverMsg
  simp only
  have hq' : (p.1.quarantine != 0) = true := by simpa using hq
  rw [hq']
  refine ⟨by simp, ?_, ?_⟩
  · intro r hr
    obtain ⟨p0, _, rfl⟩ := List.mem_map.mp hr
    simp only [bodyRes]
    cases p0.2 <;> simp
  · intro h1 r hr
    obtain ⟨p0, hp0, rfl⟩ := List.mem_map.mp hr
    have := (addRcpts_quarantined cfg doms p.1 h1 p.1.rcpts ⟨[], pool'⟩).1 p0 hp0
    simp [this, bodyRes]


/-! ## C05, part 4: DANE pins the END-ENTITY certificate — a chain that merely contains the pinned certificate
does not authenticate (strengthening round 6) -/

/-- the records that authenticate are the ones about the end-entity certificate / its certification path -/
theorem kindMatches_iff (t : Tlsa) (cert : Cert) :
    kindMatches t cert = true ↔ (t = .eeMatch ∨ (t = .taMatch ∧ cert ≠ .wrongName)) := by
  unfold kindMatches
  cases t <;> cases cert <;> simp

/-- **Content only reaches an MX whose governing TLSA records match its end-entity certificate.**  In every
history, for a message DANE applies to: if the governing RRset of the MX the content was written to has a usable
record at all, it is a DANE-EE record of the END-ENTITY certificate, or a DANE-TA record the end-entity certificate
chains to (with the name check).  In particular a usage-3 record matching some other certificate of the presented
chain (`eeOther`: the genuine MX's certificate appended after a foreign end-entity certificate), a usage-2 record
for a presented certificate off the certification path (`taOther`) and plain mismatches never carry content —
whatever the PKIX status of the chain, on new and on pooled connections. -/
theorem C05_content_only_to_leaf_pinned_mx (cfg : Cfg) (doms : Nat → Domain) (msgs : List Msg)
    (pool : Pool) (hp : PoolGood cfg doms pool) :
    ∀ p ∈ msgs.zip (run cfg doms msgs pool), Policy.dane ∈ inForce cfg p.1 → ∀ u ∈ p.2.data,
      ∀ t, governing u.conn.mx = .rrset t →
        t = .unusable ∨ t = .eeMatch ∨ (t = .taMatch ∧ u.conn.mx.cert ≠ .wrongName) := by
  intro p hmem hd u hu t hg
  obtain ⟨hsat, _⟩ := C05_data_only_on_satisfying_conn cfg doms msgs pool hp p hmem u hu
  obtain ⟨_, h2, _⟩ := hsat.policies.dane hd
  obtain ⟨_, hus, hdm⟩ := governing_usable u.conn.mx t hg
  by_cases htu : t = .unusable
  · exact Or.inl htu
  · right
    have := (h2 (hus htu)).2
    rw [hdm] at this
    exact (kindMatches_iff t u.conn.mx.cert).1 this

theorem C05_foreign_pin_never_carries_content (cfg : Cfg) (doms : Nat → Domain) (msgs : List Msg)
    (pool : Pool) (hp : PoolGood cfg doms pool) :
    ∀ p ∈ msgs.zip (run cfg doms msgs pool), Policy.dane ∈ inForce cfg p.1 → ∀ u ∈ p.2.data,
      governing u.conn.mx ≠ .rrset .eeOther ∧ governing u.conn.mx ≠ .rrset .taOther ∧
      governing u.conn.mx ≠ .rrset .mismatch := by
  intro p hmem hd u hu
  have h := C05_content_only_to_leaf_pinned_mx cfg doms msgs pool hp p hmem hd u hu
  refine ⟨fun hg => ?_, fun hg => ?_, fun hg => ?_⟩ <;>
    (rcases h _ hg with h | h | h <;> simp at h)

/-! ## C05, part 5: overlapping deliveries — what another delivery does never changes the policy in force for
this one (strengthening round 6) -/

theorem lkStep_other {α : Type} (err : α) (σ : LkWorld α) (s : LkStep α) (i : Nat) (h : s.who ≠ i) :
    (lkStep err σ s).1 i = σ i ∧ ∀ e, (lkStep err σ s).2 = some e → e.1 ≠ i := by
  unfold lkStep
  refine ⟨by simp [Ne.symm h], ?_⟩
  intro e he
  simp only [Option.map_eq_some_iff] at he
  obtain ⟨o, _, rfl⟩ := he
  exact h

theorem lkStep_own {α : Type} (err : α) (σ : LkWorld α) (s : LkStep α) :
    (lkStep err σ s).1 s.who = (lkOwn err (σ s.who) s).1 ∧
    (lkStep err σ s).2 = (lkOwn err (σ s.who) s).2.map (fun o => (s.who, o)) := by
  unfold lkStep
  simp

theorem lkExec_cons_fst {α : Type} (err : α) (s : LkStep α) (rest : List (LkStep α)) (σ : LkWorld α) :
    (lkExec err (s :: rest) σ).1 =
      (match (lkStep err σ s).2 with | some e => [e] | none => []) ++ (lkExec err rest (lkStep err σ s).1).1 := rfl

theorem lkExec_cons_snd {α : Type} (err : α) (s : LkStep α) (rest : List (LkStep α)) (σ : LkWorld α) :
    (lkExec err (s :: rest) σ).2 = (lkExec err rest (lkStep err σ s).1).2 := rfl

/-- **Non-interference.**  For every interleaving of Prepare / lookup-return / cancel / check steps of any number
of deliveries, what delivery `i` observes (and its final lookup state) is what it observes when only its OWN steps
are run: steps of other deliveries — their cancellations, time-outs, failing or slow lookups — are invisible. -/
theorem C05_lookup_noninterference {α : Type} (err : α) (i : Nat) :
    ∀ (steps : List (LkStep α)) (σ σ' : LkWorld α), σ i = σ' i →
      (lkExec err steps σ).1.filter (fun e => e.1 = i) =
        (lkExec err (steps.filter (fun s => s.who = i)) σ').1 ∧
      (lkExec err steps σ).2 i = (lkExec err (steps.filter (fun s => s.who = i)) σ').2 i := by
  intro steps
  induction steps with
  | nil => intro σ σ' h; simp [lkExec, h]
  | cons s rest ih =>
    intro σ σ' h
    by_cases hw : s.who = i
    · have hf : (s :: rest).filter (fun s => decide (s.who = i)) = s :: rest.filter (fun s => decide (s.who = i)) := by
        simp [hw]
      rw [hf]
      simp only [lkExec_cons_fst, lkExec_cons_snd]
      obtain ⟨a1, a2⟩ := lkStep_own err σ s
      obtain ⟨b1, b2⟩ := lkStep_own err σ' s
      have hst : (lkStep err σ s).1 i = (lkStep err σ' s).1 i := by
        rw [← hw, a1, b1, hw, h]
      have hev : (lkStep err σ s).2 = (lkStep err σ' s).2 := by
        rw [a2, b2, hw, h]
      obtain ⟨c1, c2⟩ := ih (lkStep err σ s).1 (lkStep err σ' s).1 hst
      refine ⟨?_, c2⟩
      rw [List.filter_append, c1, hev]
      congr 1
      cases hq : (lkStep err σ' s).2 with
      | none => simp
      | some e =>
        have : e.1 = i := by
          rw [b2] at hq
          simp only [Option.map_eq_some_iff] at hq
          obtain ⟨o, _, rfl⟩ := hq
          exact hw
        simp [this]
    · have hf : (s :: rest).filter (fun s => decide (s.who = i)) = rest.filter (fun s => decide (s.who = i)) := by
        simp [hw]
      rw [hf]
      simp only [lkExec_cons_fst, lkExec_cons_snd]
      obtain ⟨a1, a2⟩ := lkStep_other err σ s i hw
      obtain ⟨c1, c2⟩ := ih (lkStep err σ s).1 σ' (by rw [a1, h])
      refine ⟨?_, c2⟩
      rw [List.filter_append, c1]
      cases hq : (lkStep err σ s).2 with
      | none => simp
      | some e => simp [a2 e hq]

/-- lookup state of a delivery whose context is not done and whose lookups can only have found `v` -/
def LkInv {α : Type} (v : α) (st : LkSt α) : Prop :=
  st.cancelled = false ∧ ∀ w r, st.cur = some (w, r) → w = v ∧ ∀ x, r = some x → x = v

theorem lkOwn_inv {α : Type} (err v : α) (i : Nat) (st : LkSt α) (s : LkStep α) (hinv : LkInv v st)
    (hnc : s ≠ .cancel i) (hw : s.who = i) (hprep : ∀ w, s = .prepare i w → w = v) :
    LkInv v (lkOwn err st s).1 ∧ ∀ r, (lkOwn err st s).2 = some (.saw r) → r = v := by
  obtain ⟨h1, h2⟩ := hinv
  cases s with
  | prepare j w =>
    have hj : j = i := hw
    subst hj
    have := hprep w rfl
    subst this
    refine ⟨⟨h1, ?_⟩, by simp [lkOwn]⟩
    intro w' r hc
    simp [lkOwn] at hc
    exact ⟨hc.1.symm, fun x hx => by rw [← hc.2] at hx; simp at hx⟩
  | returns j g =>
    unfold lkOwn
    cases hc : st.cur with
    | none => simp; exact ⟨h1, h2⟩
    | some pr =>
      obtain ⟨w, r⟩ := pr
      cases r with
      | some x => simp; exact ⟨h1, h2⟩
      | none =>
        simp only
        split
        · refine ⟨⟨h1, ?_⟩, by simp⟩
          intro w' r' hc'
          simp [h1] at hc'
          obtain ⟨rfl, rfl⟩ := hc'
          have := (h2 w none hc).1
          exact ⟨this, fun x hx => by simp at hx; rw [← hx]; exact this⟩
        · exact ⟨⟨h1, h2⟩, by simp⟩
  | cancel j =>
    have hj : j = i := hw
    subst hj
    exact absurd rfl hnc
  | check j =>
    unfold lkOwn
    cases hc : st.cur with
    | none => simp; exact ⟨h1, h2⟩
    | some pr =>
      obtain ⟨w, r⟩ := pr
      cases r with
      | some x =>
        simp only
        refine ⟨⟨h1, h2⟩, ?_⟩
        intro r hr
        simp at hr
        rw [← hr]
        exact (h2 w (some x) hc).2 x rfl
      | none =>
        simp only [h1]
        exact ⟨⟨h1, h2⟩, by simp⟩

theorem lkExec_saw {α : Type} (err v : α) (i : Nat) :
    ∀ (steps : List (LkStep α)) (σ : LkWorld α), LkInv v (σ i) → LkStep.cancel i ∉ steps →
      (∀ w, LkStep.prepare i w ∈ steps → w = v) →
      ∀ e ∈ (lkExec err steps σ).1, e.1 = i → ∀ r, e.2 = .saw r → r = v := by
  intro steps
  induction steps with
  | nil => intro σ _ _ _ e he; simp [lkExec] at he
  | cons s rest ih =>
    intro σ hinv hnc hprep e he hei r her
    unfold lkExec at he
    simp only [List.mem_append] at he
    have hnc' : LkStep.cancel i ∉ rest := fun h => hnc (by simp [h])
    have hprep' : ∀ w, LkStep.prepare i w ∈ rest → w = v := fun w h => hprep w (by simp [h])
    by_cases hw : s.who = i
    · obtain ⟨a1, a2⟩ := lkStep_own err σ s
      have hs := lkOwn_inv err v i (σ s.who) s (by rw [hw]; exact hinv)
        (fun h => hnc (by simp [h])) hw (fun w h => hprep w (by simp [h]))
      rcases he with he | he
      · cases hq : (lkStep err σ s).2 with
        | none => simp [hq] at he
        | some e' =>
          simp [hq] at he
          subst he
          rw [a2] at hq
          simp only [Option.map_eq_some_iff] at hq
          obtain ⟨o, ho, rfl⟩ := hq
          simp only at her
          subst her
          exact hs.2 r ho
      · exact ih (lkStep err σ s).1 (by rw [← hw, a1]; exact hs.1) hnc' hprep' e he hei r her
    · obtain ⟨a1, a2⟩ := lkStep_other err σ s i hw
      rcases he with he | he
      · cases hq : (lkStep err σ s).2 with
        | none => simp [hq] at he
        | some e' =>
          simp [hq] at he
          subst he
          exact absurd hei (a2 e hq)
      · exact ih (lkStep err σ s).1 (by rw [a1]; exact hinv) hnc' hprep' e he hei r her

theorem lkInv_init {α : Type} (v : α) (i : Nat) : LkInv v ((lkInit : LkWorld α) i) := by
  unfold LkInv lkInit
  simp

/-- **The policy in force for a delivery does not depend on the other deliveries.**  In every interleaving of the
lookup steps of any number of deliveries: a delivery whose own context is never cancelled acts — whenever it acts
at all (it may still be waiting) — on what ITS OWN lookup finds in the world (`v`: the published MTA-STS policy of
the domain / the TLSA RRset of the MX), never on an error produced by the cancellation, time-out or failure of
another delivery. -/
theorem C05_concurrent_policy_in_force {α : Type} (err v : α) (i : Nat) (steps : List (LkStep α))
    (hnc : LkStep.cancel i ∉ steps) (hprep : ∀ w, LkStep.prepare i w ∈ steps → w = v) :
    ∀ e ∈ (lkExec err steps lkInit).1, e.1 = i → ∀ r, e.2 = .saw r → r = v :=
  lkExec_saw err v i steps lkInit (lkInv_init v i) hnc hprep

theorem foldl_seen {α : Type} (i : Nat) (v : α) :
    ∀ (evs : List (Nat × LkObs α)) (acc : α), acc = v →
      (∀ e ∈ evs, e.1 = i → ∀ r, e.2 = .saw r → r = v) →
      evs.foldl (fun acc e => if e.1 = i then (match e.2 with | .saw r => r | _ => acc) else acc) acc = v := by
  intro evs
  induction evs with
  | nil => intro acc h _; simpa using h
  | cons e rest ih =>
    intro acc h hall
    simp only [List.foldl_cons]
    apply ih _ _ (fun e' he' => hall e' (by simp [he']))
    by_cases hi : e.1 = i
    · simp only [hi, ↓reduceIte]
      cases ho : e.2 with
      | saw r => exact hall e (by simp) hi r ho
      | nilFuture => exact h
      | blocked => exact h
    · simp [hi, h]

/-- in the schedule the harness drives, a delivery other than the victim acts on the published policy -/
theorem lkSeen_healthy {α : Type} (err v : α) (k victim i : Nat) (h : i ≠ victim) :
    lkSeen err v (lkSchedule v k victim) i = v := by
  unfold lkSeen
  apply foldl_seen i v _ v rfl
  apply C05_concurrent_policy_in_force err v i
  · unfold lkSchedule
    intro hm
    simp only [List.mem_append, List.mem_map, List.mem_flatMap, List.mem_filter, List.mem_range] at hm
    rcases hm with (⟨j, _, hj⟩ | hm) | ⟨j, _, hj⟩
    · simp at hj
    · split at hm
      · simp at hm
        exact h hm
      · simp at hm
    · simp at hj
  · intro w hm
    unfold lkSchedule at hm
    simp only [List.mem_append, List.mem_map, List.mem_flatMap, List.mem_filter, List.mem_range] at hm
    rcases hm with (⟨j, _, hj⟩ | hm) | ⟨j, _, hj⟩
    · simp at hj
      exact hj.2.symm
    · split at hm <;> simp at hm
    · simp at hj

theorem concDomain_healthy (d : Domain) (k victim i : Nat) (h : i ≠ victim) : concDomain d k victim i = d := by
  unfold concDomain
  rw [lkSeen_healthy STS.absent d.sts k victim i h]

theorem poolGood_merge (cfg : Cfg) (doms : Nat → Domain) (p q : Pool) (hp : PoolGood cfg doms p)
    (hq : PoolGood cfg doms q) : PoolGood cfg doms (p.merge q) := by
  intro d c hc
  unfold Pool.merge at hc
  rcases List.mem_append.mp hc with h | h
  · exact hp d c h
  · exact hq d c h

/-- **Overlapping deliveries.**  A batch of deliveries that overlap in time on one target (all started before any
finished), one of which may be cancelled / time out while the policy fetch or the DNS lookups are in flight: every
connection the content of a delivery that was NOT cancelled is written to satisfies every requirement in force
for THAT message — evaluated against the published facts of the domain (`doms`), not against what the cancelled
delivery saw — and the connections that go back to the pool keep the pool invariant, so the main theorem applies
to every history that follows the batch. -/
theorem C05_concurrent_data_only_on_satisfying_conn (cfg : Cfg) (doms : Nat → Domain) (k victim : Nat) :
    ∀ (ms : List Msg) (i : Nat) (acc : Pool), PoolGood cfg doms acc →
      (∀ p ∈ ms.zip (runConc cfg doms k victim ms i acc).1, ∀ out, p.2 = some out → ∀ u ∈ out.data,
        Satisfies cfg p.1 (doms u.dom) u ∧ u.dom ∈ p.1.rcpts) ∧
      PoolGood cfg doms (runConc cfg doms k victim ms i acc).2 := by
  intro ms
  induction ms with
  | nil => intro i acc h; simp [runConc, h]
  | cons m rest ih =>
    intro i acc hacc
    unfold runConc
    by_cases hv : i = victim
    · simp only [hv, ↓reduceIte]
      obtain ⟨a, b⟩ := ih (victim + 1) acc hacc
      refine ⟨?_, b⟩
      intro p hp out ho
      simp only [List.zip_cons_cons, List.mem_cons] at hp
      rcases hp with hp | hp
      · subst hp; simp at ho
      · exact a p hp out ho
    · simp only [hv, ↓reduceIte]
      have hdom : (fun x => if x = 0 then concDomain (doms 0) k victim i else doms x) = doms := by
        funext x
        by_cases hx : x = 0
        · simp [hx, concDomain_healthy (doms 0) k victim i hv]
        · simp [hx]
      rw [hdom]
      have hpool := deliverMsg_pool cfg doms m emptyPool (poolGood_empty cfg doms)
      obtain ⟨a, b⟩ := ih (i + 1) (acc.merge (deliverMsg cfg doms m emptyPool).2)
        (poolGood_merge cfg doms _ _ hacc hpool)
      refine ⟨?_, b⟩
      intro p hp out ho
      simp only [List.zip_cons_cons, List.mem_cons] at hp
      rcases hp with hp | hp
      · subst hp
        simp only [Option.some.injEq] at ho
        subst ho
        exact deliverMsg_data cfg doms m emptyPool (poolGood_empty cfg doms)
      · exact a p hp out ho

/-- batch, then any history: the main theorem continues to hold from the pool the batch leaves behind -/
theorem C05_after_concurrent_batch (cfg : Cfg) (doms : Nat → Domain) (k victim : Nat) (ms rest : List Msg) :
    ∀ p ∈ rest.zip (run cfg doms rest (runConc cfg doms k victim ms 0 emptyPool).2), ∀ u ∈ p.2.data,
      Satisfies cfg p.1 (doms u.dom) u ∧ u.dom ∈ p.1.rcpts :=
  C05_data_only_on_satisfying_conn cfg doms rest _
    (C05_concurrent_data_only_on_satisfying_conn cfg doms k victim ms 0 emptyPool (poolGood_empty cfg doms)).2

/-! ## levels the code records are sound

(The REQUIRETLS checks compare the recorded levels; this is what makes them meaningful.) -/

/-- Every connection `newConn` returns records levels that do not exceed what the facts establish. -/
theorem C05_recorded_levels_sound (F : List Policy) (ov : Bool) (d : Domain) (c : Conn)
    (h : newConn F ov d = .ok c) :
    c.mx ∈ d.mxs ∧ c.mxLevel ≤ mxAuth F d c.mx ∧ c.tlsLevel ≤ tlsAuthOf F c.mx c.tls ∧ SatPolicies F d c := by
  obtain ⟨a, b⟩ := newConn_sound F ov d c h
  exact ⟨a, b.mxLevel, b.tlsLevel, b.sat⟩

/-! ## non-vacuity: concrete worlds in which the theorems speak about real deliveries -/

/-! ## C05 through the queue: the policy inputs are the ones the message had when the body stage ended -/

theorem mem_zip_map {α β γ : Type} (f : α → β) (l₁ : List α) (l₂ : List γ) (p : α × γ)
    (h : p ∈ l₁.zip l₂) : (f p.1, p.2) ∈ (l₁.map f).zip l₂ := by
  rw [List.zip_map_left]
  exact List.mem_map.mpr ⟨p, h, rfl⟩

/-- the target is started with the content the meta-data object had when the body stage ended, whatever it was
when the queue delivery object was created -/
theorem C05_queued_inputs_are_final (m : QMsg) :
    m.toMsg.requireTLS = m.atBody.requireTLS ∧ m.toMsg.tlsNo = m.atBody.tlsNo ∧
    (m.toMsg.quarantine ≠ 0 ↔ m.atBody.quarantine = true) ∧ m.mailUTF8 = m.atBody.utf8 := by
  unfold QMsg.toMsg QMsg.mailUTF8 QMsg.handedOver
  cases m.atBody.quarantine <;> simp

/-- A message that is quarantined when the body stage ends (the flag was raised at ANY stage: msgpipeline applies
check results at the body stage, after the queue delivery was started) is never relayed: no content on any
connection, every recipient refused permanently — in every history through the queue, from any pool. -/
theorem C05_queued_quarantined_never_relayed (cfg : Cfg) (doms : Nat → Domain) (ms : List QMsg) (pool : Pool) :
    ∀ p ∈ ms.zip (runVia cfg doms ms pool), p.1.atBody.quarantine = true →
      p.2.data = [] ∧ ∀ r ∈ p.2.rcpts, r.2 = .err .perm := by
  intro p hp hq
  have h := C05_quarantined_never_relayed cfg doms (ms.map QMsg.toMsg) pool _
    (mem_zip_map QMsg.toMsg ms _ p hp)
  have hq1 : p.1.toMsg.quarantine = 1 := by simp [QMsg.toMsg, QMsg.handedOver, hq]
  have hq0 : p.1.toMsg.quarantine ≠ 0 := by rw [hq1]; decide
  exact ⟨(h hq0).1, (h hq0).2.2 hq1⟩

/-- Every connection that content of a queued message is written to satisfies the requirements in force for the
message AS IT WAS WHEN THE BODY STAGE ENDED (REQUIRETLS, TLS-Required: No, quarantine). -/
theorem C05_queued_data_only_on_satisfying_conn (cfg : Cfg) (doms : Nat → Domain) (ms : List QMsg) :
    ∀ p ∈ ms.zip (runVia cfg doms ms emptyPool), ∀ u ∈ p.2.data,
      Satisfies cfg p.1.toMsg (doms u.dom) u ∧ u.dom ∈ p.1.rcpts := by
  intro p hp u hu
  exact C05_data_only_on_satisfying_conn_from_start cfg doms (ms.map QMsg.toMsg) _
    (mem_zip_map QMsg.toMsg ms _ p hp) u hu

/-! ## a crashed TLSA discovery fails closed (round 9; the C05 mirror of `C13_crashed_discovery_fails_closed`) -/

/-- does `discoverTLSA` make the CNAME-type query for this MX? -/
def reachesCnameQuery (mx : MX) : Bool := mx.cname != .none && !(mx.cname == .secure && mx.aAD)

/-- does `discoverTLSA` make a TLSA lookup for this MX? -/
def reachesTlsaLookup (mx : MX) : Bool :=
  match mx.cname with
  | .none => mx.aAD
  | .secure => mx.aAD || !mx.cnameErr
  | .insecure => false

/-- **A crash at a stage discovery reaches is a discovery failure** (never "no TLSA records"); a crash at a stage it does
not reach changes nothing. -/
theorem C05_crashed_discovery_fails_closed (mx : MX) :
    discover (mx.crashedAt 1) = .fail ∧
    (reachesCnameQuery mx = true → discover (mx.crashedAt 2) = .fail) ∧
    (reachesCnameQuery mx = false → discover (mx.crashedAt 2) = discover mx) ∧
    (reachesTlsaLookup mx = true → discover (mx.crashedAt 3) = .fail) ∧
    (reachesTlsaLookup mx = false → discover (mx.crashedAt 3) = discover mx) := by
  obtain ⟨srv, up, st, ce, sm, aad, tad, tl, rt, cn, tli, tliad, cerr⟩ := mx
  refine ⟨?_, ?_, ?_, ?_, ?_⟩ <;>
    cases cn <;> cases aad <;> cases cerr <;>
    simp [MX.crashedAt, discover, lookupInitial, canonTlsaAD, reachesCnameQuery, reachesTlsaLookup]

/-- in the spec's terms: the facts of a crashed address lookup / TLSA lookup read "discovery failed" -/
theorem C05_crashed_discovery_is_failed_discovery (mx : MX) :
    discovery (mx.crashedAt 1) = .failed ∧
    (mx.cname = .none → mx.aAD = true → discovery (mx.crashedAt 3) = .failed) := by
  obtain ⟨srv, up, st, ce, sm, aad, tad, tl, rt, cn, tli, tliad, cerr⟩ := mx
  constructor
  · cases cn <;> simp [MX.crashedAt, discovery, governing, atBase]
  · intro h1 h2
    simp at h1 h2
    subst h1; subst h2
    simp [MX.crashedAt, discovery, governing, atBase]

/-- hence, with DANE in force, no connection to an MX whose discovery crashed carries content, and the attempt ends in
a temporary error — whatever the server offers (plaintext, any certificate) -/
theorem C05_crashed_discovery_never_used (F : List Policy) (ov : Bool) (d : Domain) (mx : MX) (s : Nat)
    (hd : Policy.dane ∈ F) (hf : discover (mx.crashedAt s) = .fail) :
    ∃ e, attemptMX F ov d (mx.crashedAt s) = .error e := by
  generalize mx.crashedAt s = m at hf
  unfold attemptMX
  cases h1 : checkMXs F 0 d m with
  | error e => exact ⟨e, rfl⟩
  | ok mxl =>
    simp only
    cases h2 : connect m with
    | error e => exact ⟨e, rfl⟩
    | ok r =>
      obtain ⟨tl, st⟩ := r
      simp only
      have : ∀ (l : List Policy) (tl : Nat), Policy.dane ∈ l → ∃ e, checkConns l tl d m st = .error e := by
        intro l
        induction l with
        | nil => intro tl h; simp at h
        | cons p rest ih =>
          intro tl hmem
          unfold checkConns
          cases hp : checkConn p tl d m st with
          | error e => exact ⟨e, by simp⟩
          | ok v =>
            simp only
            rcases List.mem_cons.mp hmem with h | h
            · subst h; simp [checkConn, hf] at hp
            · exact ih _ h
      obtain ⟨e, he⟩ := this F tl hd
      exact ⟨e, by simp [he]⟩

/-! ## a lookup fails — with whatever RCODE (round 10)

RFC 7672 §2.1.1 / §2.2: when it cannot be determined whether the MX publishes TLSA records (ANY lookup failure: SERVFAIL,
REFUSED, NOTIMP, FORMERR, a time-out …) delivery is delayed — the message is neither sent nor bounced.  Only NOERROR (an
answer) and NXDOMAIN (no such records) are answers. -/

theorem answered_failed (rc : Nat) (h0 : rc ≠ 0) (h3 : rc ≠ 3) : answered rc = .failed := by
  simp [answered, h0, h3]

/-- **every RCODE other than NOERROR / NXDOMAIN is a lookup failure**, at whichever base domain, whatever is published -/
theorem C05_failed_lookup_whatever_the_rcode (rc : Nat) (h0 : rc ≠ 0) (h3 : rc ≠ 3) (t : Tlsa) (ad : Bool) :
    atBase (t.under rc) ad = .lookupFailed ∧ lookupInitial (t.under rc) ad = .fail ∧ cnameQueryFails rc = true := by
  simp [Tlsa.under, cnameQueryFails, answered_failed rc h0 h3, atBase, lookupInitial]

/-- hence: an MX in a signed zone whose TLSA query is answered with such an RCODE has a failed discovery, the DANE check of
any connection to it ends in a TEMPORARY error (the queue keeps the message) and no connection to it is ever handed out -/
theorem C05_failed_tlsa_lookup_defers (rc : Nat) (h0 : rc ≠ 0) (h3 : rc ≠ 3) (t : Tlsa) (mx : MX)
    (hc : mx.cname = .none) (ha : mx.aAD = true) (ht : mx.tlsa = t.under rc) (d : Domain) :
    discovery mx = .failed ∧
    (∀ s tl, checkConn .dane tl d mx s = .error .temp) ∧
    (∀ F ov, Policy.dane ∈ F → ∃ e, attemptMX F ov d mx = .error e) := by
  have hf : discovery mx = .failed := by
    simp [discovery, governing, hc, ha, ht, (C05_failed_lookup_whatever_the_rcode rc h0 h3 t mx.tlsaAD).1]
  refine ⟨hf, ?_, ?_⟩
  · intro s tl
    simp [checkConn, (discover_spec mx).1 hf]
  · intro F ov hd
    exact attemptMX_discfail_err F ov d mx hd hf

/-- the same for the CNAME-type query of an alias whose address answer is not authenticated as a whole -/
theorem C05_failed_cname_query_defers (rc : Nat) (h0 : rc ≠ 0) (h3 : rc ≠ 3) (mx : MX)
    (hc : mx.cname ≠ .none) (ha : mx.aAD = false) (he : mx.cnameErr = cnameQueryFails rc) : discovery mx = .failed := by
  have := (C05_failed_lookup_whatever_the_rcode rc h0 h3 .none false).2.2
  rw [this] at he
  cases hcn : mx.cname with
  | none => exact absurd hcn hc
  | secure => simp [discovery, governing, hcn, ha, he]
  | insecure => simp [discovery, governing, hcn, he]

/-- and for the address lookups discovery starts with (they decide whether DANE applies to the host at all) -/
theorem C05_failed_address_lookup_defers (rc : Nat) (h0 : rc ≠ 0) (h3 : rc ≠ 3) (mx : MX) (d : Domain) :
    discovery (mx.addrLookupAnswered rc) = .failed ∧
    (∀ F ov, Policy.dane ∈ F → ∃ e, attemptMX F ov d (mx.addrLookupAnswered rc) = .error e) := by
  have hf : discovery (mx.addrLookupAnswered rc) = .failed := by
    simp only [MX.addrLookupAnswered, answered_failed rc h0 h3]
    exact (C05_crashed_discovery_is_failed_discovery mx).1
  exact ⟨hf, fun F ov hd => attemptMX_discfail_err F ov d _ hd hf⟩

example : discovery (⟨1, true, .offered, .valid, true, true, false, Tlsa.eeMatch.under 5, false, .none, .none, false, false⟩ : MX)
    = .failed := by decide

example : (Tlsa.eeMatch.under 0, Tlsa.eeMatch.under 3, Tlsa.eeMatch.under 4) = (.eeMatch, .none, .servfail) := by decide

/-! ## the configured minimum levels (round 9)

Spec, from the documentation of `local_policy`: `min_tls_level none|encrypted|authenticated` (default `encrypted`),
`min_mx_level none|mtasts|dnssec` (default `none`).  The level a configuration word DOCUMENTS is the level of its
lower-case spelling; a word whose lower-case spelling is not one of the three documents nothing. -/

/-- ASCII lower case of a byte -/
def lowerByte (b : Nat) : Nat := if 65 ≤ b ∧ b ≤ 90 then b + 32 else b

def docTable (a b c : Word) (w : Word) : Option Nat :=
  let l := w.map lowerByte
  if l = a then some 0 else if l = b then some 1 else if l = c then some 2 else none

/-- the level `min_tls_level <w>` documents (`none`: the directive is left out — the documented default) -/
def documentedTLS : Option Word → Option Nat
  | none => some 1
  | some w => docTable wNone wEncrypted wAuthenticated w

def documentedMX : Option Word → Option Nat
  | none => some 0
  | some w => docTable wNone wMtasts wDnssec w

theorem tlsLevelOfWord_documented (w : Word) (t : Nat) (h : tlsLevelOfWord w = some t) :
    documentedTLS (some w) = some t := by
  unfold tlsLevelOfWord at h
  unfold documentedTLS docTable
  split at h
  · next e => subst e; simp at h; subst h; decide
  · split at h
    · next e => subst e; simp at h; subst h; decide
    · split at h
      · next e => subst e; simp at h; subst h; decide
      · simp at h

theorem mxLevelOfWord_documented (w : Word) (t : Nat) (h : mxLevelOfWord w = some t) :
    documentedMX (some w) = some t := by
  unfold mxLevelOfWord at h
  unfold documentedMX docTable
  split at h
  · next e => subst e; simp at h; subst h; decide
  · split at h
    · next e => subst e; simp at h; subst h; decide
    · split at h
      · next e => subst e; simp at h; subst h; decide
      · simp at h

/-- **An accepted configuration enforces the documented levels**: whenever `localPolicy.Init` accepts the two
arguments (written or left out), the policy it produces carries exactly the levels the words document — there is no
spelling that is accepted and means something else (in particular: nothing). -/
theorem C05_accepted_config_enforces_documented_level (tw mw : Option Word) (p : Policy)
    (h : localInit tw mw = some p) :
    ∃ t m, p = Policy.localP t m ∧ documentedTLS tw = some t ∧ documentedMX mw = some m := by
  unfold localInit at h
  split at h
  · next t m ht hm =>
    simp at h
    refine ⟨t, m, h.symm, ?_, ?_⟩
    · cases tw with
      | none => simp [minTLSOf] at ht; rw [← ht]; decide
      | some w => exact tlsLevelOfWord_documented w t (by simpa [minTLSOf] using ht)
    · cases mw with
      | none => simp [minMXOf] at hm; rw [← hm]; decide
      | some w => exact mxLevelOfWord_documented w m (by simpa [minMXOf] using hm)
  · simp at h

/-- the documented words ARE accepted (`localInit` is total on them), any other word is refused -/
theorem C05_documented_words_accepted :
    localInit (some wAuthenticated) (some wDnssec) = some (.localP 2 2) ∧
    localInit (some wEncrypted) (some wMtasts) = some (.localP 1 1) ∧
    localInit (some wNone) (some wNone) = some (.localP 0 0) ∧
    localInit none none = some (.localP 1 0) := by decide

theorem C05_unknown_word_refused (tw : Word) (mw : Option Word)
    (h : tw ≠ wNone ∧ tw ≠ wEncrypted ∧ tw ≠ wAuthenticated) : localInit (some tw) mw = none := by
  unfold localInit minTLSOf tlsLevelOfWord
  simp [h.1, h.2.1, h.2.2]

/-- "Authenticated" (capital A) documents level 2 and is not accepted as anything else: it is refused -/
example : documentedTLS (some (65 :: wAuthenticated.tail)) = some 2 ∧
    localInit (some (65 :: wAuthenticated.tail)) none = none := by decide

/-- With the local policy of an accepted configuration in the list, every connection that carries content meets the
DOCUMENTED minimum levels (ground-truth levels `mxAuth` / `tlsAuthOf`), in every history — for messages the policies
are in force for. -/
theorem C05_documented_minimum_enforced (cfg : Cfg) (doms : Nat → Domain) (msgs : List Msg)
    (tw mw : Option Word) (p : Policy) (hacc : localInit tw mw = some p) (hp : p ∈ cfg.policies) :
    ∀ q ∈ msgs.zip (run cfg doms msgs emptyPool), ∀ u ∈ q.2.data,
      ¬ (q.1.tlsNo = true ∧ cfg.allowOverride = true) →
      ∃ t m, documentedTLS tw = some t ∧ documentedMX mw = some m ∧
        t ≤ tlsAuthOf cfg.policies u.conn.mx u.conn.tls ∧ m ≤ mxAuth cfg.policies (doms u.dom) u.conn.mx := by
  intro q hq u hu hno
  obtain ⟨t, m, rfl, ht, hm⟩ := C05_accepted_config_enforces_documented_level tw mw p hacc
  have hs := (C05_data_only_on_satisfying_conn_from_start cfg doms msgs q hq u hu).1
  have hF : inForce cfg q.1 = cfg.policies := by unfold inForce; simp [hno]
  have hl := hs.policies.localP t m (by rw [hF]; exact hp)
  rw [hF] at hl
  exact ⟨t, m, ht, hm, hl.2, hl.1⟩

/-! ## later attempts from the spool (round 9) -/

/-- a later attempt is made with the policy inputs the message had when the body stage ended -/
theorem C05_spooled_inputs_are_final (m : QMsg) (rs : List Nat) :
    (m.retryMsg rs).requireTLS = m.atBody.requireTLS ∧ (m.retryMsg rs).tlsNo = m.atBody.tlsNo ∧
    ((m.retryMsg rs).quarantine ≠ 0 ↔ m.atBody.quarantine = true) ∧ (m.retryMsg rs).rcpts = rs := by
  unfold QMsg.retryMsg QMsg.spooled
  cases m.atBody.quarantine <;> simp

theorem retryList_mem (ms : List QMsg) (outs : List MsgOut) (x : Msg) (h : x ∈ retryList ms outs) :
    ∃ m ∈ ms, ∃ rs, x = m.retryMsg rs := by
  unfold retryList at h
  rw [List.mem_filterMap] at h
  obtain ⟨p, hp, hx⟩ := h
  refine ⟨p.1, (List.of_mem_zip hp).1, retryRcpts p.2, ?_⟩
  by_cases he : (retryRcpts p.2).isEmpty = true
  · simp [he] at hx
  · simp [he] at hx; exact hx.symm

/-- **Every attempt.**  First attempts in one world, later attempts from the spool in ANOTHER world (any facts: the
MX that offered authenticated TLS now offers none), on a target with an empty pool: every connection content is
written to — in either round — satisfies the requirements of the message as it was when the body stage ended
(REQUIRETLS, TLS-Required: No, quarantine), judged in the world of THAT attempt. -/
theorem C05_retry_data_only_on_satisfying_conn (cfg : Cfg) (domsA domsB : Nat → Domain) (ms : List QMsg) :
    (∀ p ∈ ms.zip (runRetry cfg domsA domsB ms).1, ∀ u ∈ p.2.data,
      Satisfies cfg p.1.toMsg (domsA u.dom) u ∧ u.dom ∈ p.1.rcpts) ∧
    (∀ p ∈ (retryList ms (runRetry cfg domsA domsB ms).1).zip (runRetry cfg domsA domsB ms).2, ∀ u ∈ p.2.data,
      Satisfies cfg p.1 (domsB u.dom) u ∧ u.dom ∈ p.1.rcpts ∧
      ∃ m ∈ ms, p.1.requireTLS = m.atBody.requireTLS ∧ p.1.tlsNo = m.atBody.tlsNo ∧
        (p.1.quarantine ≠ 0 ↔ m.atBody.quarantine = true)) := by
  refine ⟨C05_queued_data_only_on_satisfying_conn cfg domsA ms, ?_⟩
  intro p hp u hu
  have h := C05_data_only_on_satisfying_conn_from_start cfg domsB _ p hp u hu
  obtain ⟨m, hm, rs, hx⟩ := retryList_mem ms _ p.1 (List.of_mem_zip hp).1
  have hf := C05_spooled_inputs_are_final m rs
  exact ⟨h.1, h.2, m, hm, by rw [hx]; exact hf.1, by rw [hx]; exact hf.2.1, by rw [hx]; exact hf.2.2.1⟩

/-- the queue went down before the first attempt: the attempt from the spool obeys the final flags as well -/
theorem C05_from_spool_data_only_on_satisfying_conn (cfg : Cfg) (doms : Nat → Domain) (ms : List QMsg) :
    ∀ p ∈ ms.zip (runFromSpool cfg doms ms), ∀ u ∈ p.2.data,
      Satisfies cfg (p.1.retryMsg p.1.rcpts) (doms u.dom) u ∧ u.dom ∈ p.1.rcpts := by
  intro p hp u hu
  exact C05_data_only_on_satisfying_conn_from_start cfg doms _ _
    (mem_zip_map (fun m : QMsg => m.retryMsg m.rcpts) ms _ p hp) u hu

/-- REQUIRETLS survives the spool: a REQUIRETLS message that is retried only goes over authenticated TLS to an
authenticated MX, whatever the world looks like at the time of the retry -/
theorem C05_retry_requiretls (cfg : Cfg) (domsA domsB : Nat → Domain) (ms : List QMsg) :
    ∀ p ∈ (retryList ms (runRetry cfg domsA domsB ms).1).zip (runRetry cfg domsA domsB ms).2, ∀ u ∈ p.2.data,
      p.1.requireTLS = true →
      tlsAuthOf (inForce cfg p.1) u.conn.mx u.conn.tls = 2 ∧ 1 ≤ mxAuth (inForce cfg p.1) (domsB u.dom) u.conn.mx := by
  intro p hp u hu hr
  have h := ((C05_retry_data_only_on_satisfying_conn cfg domsA domsB ms).2 p hp u hu).1
  exact ⟨(h.requireTLS hr).1, (h.requireTLS hr).2.1⟩

/-- non-vacuity: REQUIRETLS raised and quarantine raised after the queue delivery was started -/
example : (⟨⟨false, false, false, false⟩, ⟨true, false, true, false⟩, [0]⟩ : QMsg).toMsg.quarantine = 1 := by decide

namespace Demo

def goodMX : MX := ⟨1, true, .offered, .valid, true, true, true, .eeMatch, true, .none, .none, false, false⟩
/-- plaintext-only MX that the MTA-STS policy does not list -/
def weakMX : MX := ⟨1, true, .stripped, .valid, false, false, false, .none, false, .none, .none, false, false⟩
/-- MX whose TLSA lookup fails -/
def failMX : MX := ⟨1, true, .offered, .valid, true, true, true, .servfail, false, .none, .none, false, false⟩
/-- a working MX that the MTA-STS policy does not list -/
def unlistedMX : MX := ⟨2, true, .offered, .valid, false, true, true, .none, false, .none, .none, false, false⟩
/-- self-signed MX authenticated by a DANE-EE record -/
def daneMX : MX := ⟨1, true, .offered, .untrusted, true, true, true, .eeMatch, false, .none, .none, false, false⟩

def strict : Cfg := ⟨[.mtasts, .dane, .dnssec, .localP 2 1], true, true, 10⟩

def dGood : Domain := ⟨true, .enforce, goodMX, []⟩
def dWeak : Domain := ⟨false, .enforce, weakMX, []⟩
def dFail : Domain := ⟨true, .enforce, failMX, [unlistedMX]⟩
def dDane : Domain := ⟨false, .testing, daneMX, []⟩

def plainMsg : Msg := ⟨false, false, 0, [0]⟩
def noTlsMsg : Msg := ⟨false, true, 0, [0]⟩
def rtMsg : Msg := ⟨true, false, 0, [0]⟩
def quarMsg : Msg := ⟨false, false, 2, [0]⟩

/-- three messages to a good MX: one new connection, then two reuses — the theorem covers all three -/
example : (run strict (fun _ => dGood) [plainMsg, noTlsMsg, plainMsg] emptyPool).map
    (fun o => o.data.map (fun u => (u.conn.tls.tlsOn, u.conn.transactions))) =
    [[(true, 0)], [(true, 1)], [(true, 2)]] := by decide

/-- REQUIRETLS ignores the pool, is delivered with the parameter, and its connection is pooled -/
example : (run strict (fun _ => dGood) [plainMsg, rtMsg, plainMsg] emptyPool).map
    (fun o => o.data.map (fun u => (u.mailRT, u.conn.transactions))) =
    [[(false, 0)], [(true, 0)], [(false, 1)]] := by decide

/-- the override message is delivered in plaintext to the unlisted MX; the next message is NOT sent over
that connection (it is refused: MTA-STS enforce mismatch) — on the unfixed tree it was -/
example : (run strict (fun _ => dWeak) [noTlsMsg, plainMsg] emptyPool).map
    (fun o => (o.rcpts.map (·.2), o.data.length)) = [([.ok], 1), ([.err .perm], 0)] := by decide

/-- self-signed MX, authenticated through DANE-EE, passes `min_tls_level authenticated` -/
example : (run ⟨[.dane, .localP 2 0], false, false, 10⟩ (fun _ => dDane) [plainMsg] emptyPool).map
    (fun o => (o.rcpts.map (·.2), o.data.map (fun u => (u.conn.tls, u.conn.tlsLevel)))) =
    [([.ok], [(⟨true, false⟩, 2)])] := by decide

/-- hypotheses of `C05_tlsa_failure_defers` hold in a concrete world: first candidate listed with a
failing TLSA lookup, second candidate not listed in the enforced MTA-STS policy … -/
example : Policy.dane ∈ inForce strict plainMsg ∧ plainMsg.quarantine ≠ 1 ∧
    (∀ mx ∈ dFail.mxs, discovery mx = .failed ∨ stsExcluded (inForce strict plainMsg) dFail mx) ∧
    (∃ mx ∈ dFail.mxs, discovery mx = .failed ∧ ¬ stsExcluded (inForce strict plainMsg) dFail mx) := by
  refine ⟨by decide, by decide, ?_, ⟨failMX, by simp [dFail, Domain.mxs], by decide,
    fun h => by simp [stsExcluded, failMX] at h⟩⟩
  intro mx hmx
  simp [dFail, Domain.mxs] at hmx
  rcases hmx with h | h
  · subst h; exact Or.inl (by decide)
  · subst h; exact Or.inr ⟨by decide, rfl, rfl⟩

/-- … and the conclusion is what the model computes there -/
example : (run strict (fun _ => dFail) [plainMsg] emptyPool).map (fun o => (o.rcpts.map (·.2), o.data.length)) =
    [([.err .temp], 0)] := by decide

/-- a message quarantined after its recipient was accepted: refused at the body stage, nothing sent,
and the connection it had opened is still pooled for the next message -/
example : (run strict (fun _ => dGood) [quarMsg, plainMsg] emptyPool).map
    (fun o => (o.rcpts.map (·.2), o.data.map (fun u => u.conn.transactions))) =
    [([.err .perm], []), ([.ok], [1])] := by decide

/-- MX whose name is a DNSSEC-signed alias: the TLSA lookup at the canonical name fails, nothing is published
at the initial name (NXDOMAIN) -/
def aliasFailMX : MX := ⟨1, true, .offered, .valid, true, true, true, .servfail, false, .secure, .none, true, false⟩
/-- signed alias, self-signed certificate: DANE-EE records at the canonical name match, the RRset at the initial
name does not -/
def aliasCanonMX : MX := ⟨1, true, .offered, .untrusted, true, true, true, .eeMatch, false, .secure, .mismatch, true, false⟩
/-- the other way round: the canonical records do not match, the ones at the initial name would -/
def aliasWrongMX : MX := ⟨1, true, .offered, .untrusted, true, true, true, .mismatch, false, .secure, .eeMatch, true, false⟩
/-- nothing authenticated at the canonical name, lookup failure at the initial name -/
def aliasInitFailMX : MX := ⟨1, true, .offered, .valid, true, true, false, .eeMatch, false, .secure, .servfail, true, false⟩
/-- "insecure CNAME": signed alias into an unsigned zone, records at the initial name -/
def aliasInsecureTargetMX : MX := ⟨1, true, .offered, .untrusted, true, false, false, .none, false, .secure, .eeMatch, true, false⟩

def daneOnly : Cfg := ⟨[.dane, .localP 2 0], false, false, 10⟩

/-- the hypotheses of `C05_tlsa_failure_defers` for the aliased MX with a failing lookup at the canonical name … -/
example : discovery aliasFailMX = .failed ∧ discovery aliasInitFailMX = .failed := by decide

/-- … and the model defers in both worlds -/
example : (run daneOnly (fun _ => ⟨false, .absent, aliasFailMX, []⟩) [plainMsg] emptyPool).map
    (fun o => (o.rcpts.map (·.2), o.data.length)) = [([.err .temp], 0)] := by decide
example : (run daneOnly (fun _ => ⟨false, .absent, aliasInitFailMX, []⟩) [plainMsg] emptyPool).map
    (fun o => (o.rcpts.map (·.2), o.data.length)) = [([.err .temp], 0)] := by decide

/-- records at the canonical name authenticate the self-signed MX (the mismatching RRset at the initial name is not consulted) -/
example : (run daneOnly (fun _ => ⟨false, .absent, aliasCanonMX, []⟩) [plainMsg] emptyPool).map
    (fun o => (o.rcpts.map (·.2), o.data.map (fun u => u.conn.tlsLevel))) = [([.ok], [2])] := by decide

/-- mismatching records at the canonical name refuse the MX although the initial name publishes matching ones -/
example : (run daneOnly (fun _ => ⟨false, .absent, aliasWrongMX, []⟩) [plainMsg] emptyPool).map
    (fun o => (o.rcpts.map (·.2), o.data.length)) = [([.err .perm], 0)] := by decide

/-- signed alias into an unsigned zone: the records at the initial name authenticate the MX -/
example : governing aliasInsecureTargetMX = .rrset .eeMatch ∧
    (run daneOnly (fun _ => ⟨false, .absent, aliasInsecureTargetMX, []⟩) [plainMsg] emptyPool).map
    (fun o => (o.rcpts.map (·.2), o.data.map (fun u => u.conn.tlsLevel))) = [([.ok], [2])] := by decide

/-- an impostor: unknown issuer, own key; the RRset pins the genuine MX's certificate, which the impostor sends
AFTER its own end-entity certificate (`eeOther`) -/
def impostorMX : MX := ⟨1, true, .offered, .untrusted, true, true, true, .eeOther, false, .none, .none, false, false⟩
/-- DANE-TA record for a CA certificate that is presented but did not issue the end-entity certificate -/
def offPathMX : MX := ⟨1, true, .offered, .valid, true, true, true, .taOther, false, .none, .none, false, false⟩

/-- the hypotheses of `C05_content_only_to_leaf_pinned_mx` are met and the model refuses both (550, nothing sent),
although the second server's chain is PKIX-valid -/
example : governing impostorMX = .rrset .eeOther ∧ governing offPathMX = .rrset .taOther ∧
    Policy.dane ∈ inForce daneOnly plainMsg := by decide
example : (run daneOnly (fun _ => ⟨false, .absent, impostorMX, []⟩) [plainMsg] emptyPool).map
    (fun o => (o.rcpts.map (·.2), o.data.length)) = [([.err .perm], 0)] := by decide
example : (run daneOnly (fun _ => ⟨false, .absent, offPathMX, []⟩) [plainMsg] emptyPool).map
    (fun o => (o.rcpts.map (·.2), o.data.length)) = [([.err .perm], 0)] := by decide

/-- two overlapping deliveries to a domain with an enforce-mode policy, the first one cancelled during the fetch:
the cancelled one acts on "no policy" (its own lookup failed), the other one on the published policy — the
hypothesis `cancel i ∉ steps` of `C05_concurrent_policy_in_force` is needed, and holds for the second delivery -/
example : lkSeen STS.absent STS.enforce (lkSchedule STS.enforce 2 0) 0 = .absent ∧
    lkSeen STS.absent STS.enforce (lkSchedule STS.enforce 2 0) 1 = .enforce := by decide

/-- an interleaving in which the victim is cancelled between the two Prepare calls and its lookup returns last -/
example : (lkExec STS.absent [.prepare 0 STS.enforce, .cancel 0, .prepare 1 STS.enforce, .check 0, .check 1,
      .returns 1 1, .check 1, .returns 0 1, .check 0] lkInit).1 =
    [(0, .saw .absent), (1, .blocked), (1, .saw .enforce), (0, .saw .absent)] := by decide

/-- the batch on a world where the only MX is not listed in the enforced policy: the healthy delivery is refused
(550), the cancelled one has no outcome of its own, nothing is pooled; without the victim both are refused -/
example : ((runConc strict (fun _ => dWeak) 2 0 [plainMsg, plainMsg] 0 emptyPool).1.map
    (fun o => o.map (fun o => (o.rcpts.map (·.2), o.data.length)))) = [none, some ([.err .perm], 0)] := by decide

/-- three overlapping deliveries to a good MX, the middle one cancelled: two new connections, both pooled; the next
message reuses the first -/
example : ((runConc strict (fun _ => dGood) 3 1 [plainMsg, plainMsg, rtMsg] 0 emptyPool).1.map
    (fun o => o.map (fun o => o.data.map (fun u => (u.mailRT, u.conn.transactions))))) =
      [some [(false, 0)], none, some [(true, 0)]] ∧
    (run strict (fun _ => dGood) [plainMsg]
      (runConc strict (fun _ => dGood) 3 1 [plainMsg, plainMsg, rtMsg] 0 emptyPool).2).map
      (fun o => o.data.map (fun u => u.conn.transactions)) = [[1]] := by decide

end Demo

/-- The pool hypothesis of the main theorem is necessary, and it is exactly what the first `fix:`
commit establishes: if a connection opened under an override (here: plaintext to an MX that the
enforce-mode MTA-STS policy does not list) sat in the pool, the next ordinary message would be
written to it although it does not satisfy the policies in force for that message. -/
theorem C05_pooled_override_conn_counterexample :
    ∃ (cfg : Cfg) (doms : Nat → Domain) (pool : Pool) (m : Msg) (u : Used),
      u ∈ (deliverMsg cfg doms m pool).1.data ∧ ¬ Satisfies cfg m (doms u.dom) u := by
  refine ⟨Demo.strict, fun _ => Demo.dWeak, fun _ => [⟨Demo.weakMX, plain, 0, 0, 1, true⟩], Demo.plainMsg,
    ⟨0, ⟨Demo.weakMX, plain, 0, 0, 1, true⟩, false⟩, by decide, ?_⟩
  intro h
  have := (h.policies.mtasts (by decide) (by decide)).1
  simp [Demo.weakMX] at this


end MaddyVerif.C05
