import MaddyVerif.Lemmas.LimitsSeq
/-!
C11 — rate/concurrency limits are enforced and every permit is returned.

Model: `Model/Limits.lean` (limiters, bucket sets with reaping and `MaxBuckets`, `Group` wiring, the Group
calls compiled to limiter operations with their roll-backs, goroutines interleaved at limiter-operation
granularity, the permit lifecycles of an SMTP session and of a remote delivery).

All theorems quantify over every configuration `c` (any directives in the four scopes, any `MaxBuckets`,
any reap interval) and every schedule `evs : List Ev` — any number of goroutines (`spawn`), any interleaving
of their limiter operations, time-outs at any pending acquisition, any passage of time and refill ticks, any
keys.  Hypotheses: (1) `misuse = false`: no goroutine started a `ReleaseMsg/ReleaseDest` for something
it had not taken; `C11_session_disciplined` and `C11_remote_disciplined` show that the two users of the limits
(the SMTP session and the remote delivery) satisfy it on every path.  (2) `c.keys.Lawful`: whatever function
of the source address the code uses as the key of the per-IP bucket set (the full address, the /64 of an IPv6
address, …), `TakeMsg`, the roll-back inside `TakeMsg` and `ReleaseMsg` use the same one.  The harness reads
the three key functions off the bucket table of the real `limits.Group` for every address it generates and
reports `C11/key-law` when they differ; `C11_key_law_needed` shows the hypothesis cannot be dropped.
(3) lifecycle of the remote delivery: `RemKeys.Lawful` — the remote target derives the keys it hands to the limits
from the spelling of the recipient / sender domain separately at every place; the key of `ReleaseDest` (after a
failed MAIL and in `Close`) is that of `TakeDest`, the key of `ReleaseMsg` in `Close` that of `TakeMsg` in `Start`.
Observed on the real target for every generated spelling (U-label, A-label, other case, trailing dot, NFD);
`C11/key-law` when they differ; `C11_dest_key_law_needed` shows the hypothesis cannot be dropped.
-/
namespace MaddyVerif.Limits

/-! ## reachable states satisfy the invariant -/

theorem inv_init (c : Cfg) : Inv c (St.init c) := by
  refine ⟨GInv.init c, ?_, by simp [St.init]⟩
  intro tok hc
  simp only [St.init, total, List.map_nil, List.sum_nil]
  cases tok with
  | g i =>
    simp only [counted] at hc
    simp only [lenOf, Group.init, List.getElem?_map]
    cases hl : c.all[i]? with
    | none => rfl
    | some l =>
      simp [hl, realSem] at hc
      simp [limLen, Lim.new, hc.1]
  | b sc k i => cases sc <;> rfl
  | use sc k => cases sc <;> rfl

theorem misuse_step (c : Cfg) (s : St) (e : Ev) (h : (step c s e).misuse = false) : s.misuse = false := by
  cases e with
  | begin i call =>
    simp only [step] at h
    cases hi : s.tasks[i]? with
    | none => simpa [hi] using h
    | some t =>
      simp only [hi] at h
      cases hpc : t.pc <;> simp only [hpc] at h
      · cases hm : s.misuse with
        | false => rfl
        | true => simp [hm] at h
      all_goals exact h
  | go i =>
    simp only [step] at h
    cases hi : s.tasks[i]? <;> simpa [hi] using h
  | timeout i =>
    simp only [step] at h
    cases hi : s.tasks[i]? <;> simpa [hi] using h
  | refillG i =>
    simp only [step] at h
    cases hi : s.g.glob[i]? <;> simpa [hi] using h
  | spawn => exact h
  | adv n => exact h
  | refillB sc k i => exact h

theorem misuse_run (c : Cfg) (s : St) (evs : List Ev) (h : (run c s evs).misuse = false) : s.misuse = false := by
  induction evs generalizing s with
  | nil => exact h
  | cons e es ih => exact misuse_step c s e (ih (step c s e) h)

theorem run_inv (c : Cfg) (hk : c.keys.Lawful) (s : St) (evs : List Ev) (hi : Inv c s) (h : (run c s evs).misuse = false) :
    Inv c (run c s evs) := by
  induction evs generalizing s with
  | nil => exact hi
  | cons e es ih =>
    exact ih (step c s e) (step_inv c hk s e hi (misuse_run c _ es h)) h

/-- Every state reached by a schedule without client misuse satisfies the invariant. -/
theorem reach_inv (c : Cfg) (hk : c.keys.Lawful) (evs : List Ev) (h : (run c (St.init c) evs).misuse = false) :
    Inv c (run c (St.init c) evs) := run_inv c hk _ evs (inv_init c) h

/-! ## no panic -/

/-- No limit operation ever panics (no mismatched `Release`, no nil limiter, no nil bucket set), in any
interleaving, for any number of goroutines and keys and any `MaxBuckets`. -/
theorem C11_no_panic (c : Cfg) (hk : c.keys.Lawful) (evs : List Ev) (h : (run c (St.init c) evs).misuse = false) :
    ∀ t ∈ (run c (St.init c) evs).tasks, t.pc ≠ .panicked := by
  intro t ht hp
  have := (reach_inv c hk evs h).t t ht
  simp [TaskWF, hp] at this

/-! ## accounting: every permit in use is held by exactly one goroutine that will give it back -/

/-- Permits are neither lost nor duplicated on any path (success, time-out at any limiter, full bucket set,
roll-back): the occupancy of every `concurrency N` semaphore and the `users` count of every bucket equal the
number of tokens the goroutines hold according to their control state — outstanding successful takes plus
the acquisitions of calls in progress that their remaining roll-back / release operations give back. -/
theorem C11_balanced (c : Cfg) (hk : c.keys.Lawful) (evs : List Ev) (h : (run c (St.init c) evs).misuse = false) :
    ∀ tok, counted c tok = true →
      lenOf (run c (St.init c) evs).g tok = total c tok (run c (St.init c) evs).tasks :=
  (reach_inv c hk evs h).w

/-! ## bound -/

/-- Messages holding a permit in each scope: successful `TakeMsg` / `TakeDest` not yet followed by the
release call. -/
def St.holdersAll (s : St) : Nat := (s.tasks.map (fun t => t.outMsg.length)).sum
/-- Messages holding a permit of the per-IP bucket `k`: those whose source address the code maps to key `k`. -/
def St.holdersIp (c : Cfg) (s : St) (k : Nat) : Nat :=
  (s.tasks.map (fun t => (t.outMsg.filter (fun p => c.keys.take p.1 == k)).length)).sum
def St.holdersSrc (s : St) (k : Nat) : Nat := (s.tasks.map (fun t => (t.outMsg.filter (fun p => p.2 == k)).length)).sum
def St.holdersDst (s : St) (k : Nat) : Nat := (s.tasks.map (fun t => t.outDest.count k)).sum

theorem sum_le_sum {α : Type} (l : List α) (f g : α → Nat) (h : ∀ x ∈ l, f x ≤ g x) :
    (l.map f).sum ≤ (l.map g).sum := by
  induction l with
  | nil => simp
  | cons a l ih =>
    have := h a (by simp)
    have := ih (fun x hx => h x (by simp [hx]))
    simp; omega

theorem count_le_toks_msg (c : Cfg) (t : Task) (tok : Tok) : (msgToks c t.outMsg).count tok ≤ (t.toks c).count tok := by
  simp [Task.toks, List.count_append]

theorem count_le_toks_dest (c : Cfg) (t : Task) (tok : Tok) : (destToks c t.outDest).count tok ≤ (t.toks c).count tok := by
  simp [Task.toks, List.count_append]; omega

theorem on_of_lt (c : Cfg) (sc : Sc) (i : Nat) (hi : i < (c.ctors sc).length) : c.on sc = true := by
  have : c.ctors sc ≠ [] := fun h => by simp [h] at hi
  simp [Cfg.on, this]

theorem mem_set_toks (c : Cfg) (sc : Sc) (k i : Nat) (hi : i < (c.ctors sc).length) :
    Tok.b sc k i ∈ opsToks c (relSet c sc k) := by
  simp [relSet, on_of_lt c sc i hi, MOp.toks, hi]

theorem msg_all_count (c : Cfg) (out : List (Nat × Nat)) (i : Nat) (hi : i < c.all.length) :
    out.length ≤ (msgToks c out).count (.g i) := by
  induction out with
  | nil => simp
  | cons p out ih =>
    have : 0 < (opsToks c (releaseMsgProg c p.1 p.2)).count (.g i) := by
      apply count_pos_of_mem
      simp only [releaseMsgProg, opsToks_append, List.mem_append, globToks_eq]
      exact Or.inl (Or.inl (by simp [hi]))
    simp only [msgToks, List.flatMap_cons, List.count_append, List.length_cons] at ih ⊢
    omega

theorem msg_ip_count (c : Cfg) (hk : c.keys.Lawful) (out : List (Nat × Nat)) (k i : Nat) (hi : i < c.ip.length) :
    (out.filter (fun p => c.keys.take p.1 == k)).length ≤ (msgToks c out).count (.b .ip k i) := by
  induction out with
  | nil => simp
  | cons p out ih =>
    obtain ⟨a, b⟩ := p
    simp only [msgToks, List.flatMap_cons, List.count_append] at ih ⊢
    by_cases e : c.keys.take a = k
    · subst e
      have : 0 < (opsToks c (releaseMsgProg c a b)).count (.b .ip (c.keys.take a) i) := by
        apply count_pos_of_mem
        simp only [releaseMsgProg, opsToks_append, List.mem_append]
        rw [(hk a).2]
        exact Or.inl (Or.inr (mem_set_toks c .ip (c.keys.take a) i hi))
      simp; omega
    · simp [e]; omega

theorem msg_src_count (c : Cfg) (out : List (Nat × Nat)) (k i : Nat) (hi : i < c.src.length) :
    (out.filter (fun p => p.2 == k)).length ≤ (msgToks c out).count (.b .src k i) := by
  induction out with
  | nil => simp
  | cons p out ih =>
    obtain ⟨a, b⟩ := p
    simp only [msgToks, List.flatMap_cons, List.count_append] at ih ⊢
    by_cases e : b = k
    · subst e
      have : 0 < (opsToks c (releaseMsgProg c a b)).count (.b .src b i) := by
        apply count_pos_of_mem
        simp only [releaseMsgProg, opsToks_append, List.mem_append]
        exact Or.inr (mem_set_toks c .src b i hi)
      simp; omega
    · simp [e]; omega

theorem dest_count (c : Cfg) (out : List Nat) (k i : Nat) (hi : i < c.dst.length) :
    out.count k ≤ (destToks c out).count (.b .dst k i) := by
  induction out with
  | nil => simp
  | cons p out ih =>
    simp only [destToks, List.flatMap_cons, List.count_append, List.count_cons] at ih ⊢
    by_cases e : p = k
    · subst e
      have : 0 < (opsToks c (releaseDestProg c p)).count (.b .dst p i) := by
        apply count_pos_of_mem
        exact mem_set_toks c .dst p i hi
      simp; omega
    · simp [e]; omega

/-- The occupancy recorded for a limiter never exceeds its capacity. -/
theorem lenOf_le_cap (c : Cfg) (g : Group) (hg : GInv c g) (sc : Sc) (k i : Nat) (l : Lim)
    (hl : (c.ctors sc)[i]? = some l) : lenOf g (.b sc k i) ≤ l.n.toNat := by
  simp only [lenOf]
  cases hb : findB (g.bk sc) k with
  | none => simp [bLen]
  | some bk =>
    have hbs := hg.bk sc bk (findB_some _ _ _ hb).1
    simp only [bLen]
    cases hx : bk.lims[i]? with
    | none => simp [limLen]
    | some x =>
      obtain ⟨ct, c1, _, c3, c4⟩ := hbs.2 i x hx
      rw [hl] at c1; simp at c1; subst c1
      simp [limLen]; omega

theorem lenOf_g_le_cap (c : Cfg) (g : Group) (hg : GInv c g) (i : Nat) (l : Lim)
    (hl : c.all[i]? = some l) : lenOf g (.g i) ≤ l.n.toNat := by
  simp only [lenOf]
  cases hx : g.glob[i]? with
  | none => simp [limLen]
  | some x =>
    obtain ⟨ct, c1, _, c3, c4⟩ := hg.glob.2 i x hx
    rw [hl] at c1; simp at c1; subst c1
    simp [limLen]; omega

theorem lt_of_getElem? {α : Type} (l : List α) (i : Nat) (x : α) (h : l[i]? = some x) : i < l.length := by
  rcases Nat.lt_or_ge i l.length with h' | h'
  · exact h'
  · simp [List.getElem?_eq_none h'] at h

/-- **Bound.**  In every reachable state, for every directive `concurrency N` (N > 0) of a scope, at most N
messages hold a permit of that scope (per key for the keyed scopes) — N being the value configured for THAT
scope: `all` → `c.all`, per source IP → `c.ip`, per sender domain → `c.src`, per destination → `c.dst`.  For the
per-IP scope a message counts for the key the code derives from its source address (`c.keys.take`). -/
theorem C11_bound (c : Cfg) (hk : c.keys.Lawful) (evs : List Ev) (h : (run c (St.init c) evs).misuse = false) :
    let s := run c (St.init c) evs
    (∀ (i : Nat) (l : Lim), c.all[i]? = some l → l.kind = .sem → 0 < l.n → s.holdersAll ≤ l.n.toNat) ∧
    (∀ (k i : Nat) (l : Lim), c.ip[i]? = some l → l.kind = .sem → 0 < l.n → s.holdersIp c k ≤ l.n.toNat) ∧
    (∀ (k i : Nat) (l : Lim), c.src[i]? = some l → l.kind = .sem → 0 < l.n → s.holdersSrc k ≤ l.n.toNat) ∧
    (∀ (k i : Nat) (l : Lim), c.dst[i]? = some l → l.kind = .sem → 0 < l.n → s.holdersDst k ≤ l.n.toNat) := by
  intro s
  have hI := reach_inv c hk evs h
  refine ⟨?_, ?_, ?_, ?_⟩
  · intro i l hl hkd hn
    have hc : counted c (.g i) = true := by simp [counted, hl, realSem, hkd, hn]
    have h1 : s.holdersAll ≤ total c (.g i) s.tasks :=
      sum_le_sum _ _ _ (fun t _ => Nat.le_trans (msg_all_count c t.outMsg i (lt_of_getElem? _ _ _ hl))
        (count_le_toks_msg c t _))
    have h2 : lenOf s.g _ = total c _ s.tasks := hI.w _ hc
    have h3 := lenOf_g_le_cap c s.g hI.g i l hl
    omega
  · intro k i l hl hkd hn
    have hc : counted c (.b .ip k i) = true := by simp [counted, Cfg.ctors, hl, realSem, hkd, hn]
    have h1 : s.holdersIp c k ≤ total c (.b .ip k i) s.tasks :=
      sum_le_sum _ _ _ (fun t _ => Nat.le_trans (msg_ip_count c hk t.outMsg k i (lt_of_getElem? _ _ _ hl))
        (count_le_toks_msg c t _))
    have h2 : lenOf s.g _ = total c _ s.tasks := hI.w _ hc
    have h3 := lenOf_le_cap c s.g hI.g .ip k i l hl
    omega
  · intro k i l hl hkd hn
    have hc : counted c (.b .src k i) = true := by simp [counted, Cfg.ctors, hl, realSem, hkd, hn]
    have h1 : s.holdersSrc k ≤ total c (.b .src k i) s.tasks :=
      sum_le_sum _ _ _ (fun t _ => Nat.le_trans (msg_src_count c t.outMsg k i (lt_of_getElem? _ _ _ hl))
        (count_le_toks_msg c t _))
    have h2 : lenOf s.g _ = total c _ s.tasks := hI.w _ hc
    have h3 := lenOf_le_cap c s.g hI.g .src k i l hl
    omega
  · intro k i l hl hkd hn
    have hc : counted c (.b .dst k i) = true := by simp [counted, Cfg.ctors, hl, realSem, hkd, hn]
    have h1 : s.holdersDst k ≤ total c (.b .dst k i) s.tasks :=
      sum_le_sum _ _ _ (fun t _ => Nat.le_trans (dest_count c t.outDest k i (lt_of_getElem? _ _ _ hl))
        (count_le_toks_dest c t _))
    have h2 : lenOf s.g _ = total c _ s.tasks := hI.w _ hc
    have h3 := lenOf_le_cap c s.g hI.g .dst k i l hl
    omega

/-! ## quiescence -/

/-- Every delivery has ended: all goroutines idle, nothing outstanding. -/
def St.Quiescent (s : St) : Prop := ∀ t ∈ s.tasks, t.pc = .idle ∧ t.outMsg = [] ∧ t.outDest = []

theorem quiescent_total (c : Cfg) (s : St) (hq : s.Quiescent) (tok : Tok) : total c tok s.tasks = 0 := by
  apply total_eq_zero
  intro t ht
  obtain ⟨h1, h2, h3⟩ := hq t ht
  simp [Task.toks, h1, h2, h3, msgToks, destToks, curToks]

/-- **Quiescent full capacity.**  Once every delivery has ended — whatever mixture of successes, rejections,
aborts and time-outs the history contained — every `concurrency N` semaphore (the global ones and those of
every bucket of every scope) is empty again, and no bucket has users (so each can be reaped and none blocks
the bucket table). -/
theorem C11_quiescent_full_capacity (c : Cfg) (hk : c.keys.Lawful) (evs : List Ev) (h : (run c (St.init c) evs).misuse = false)
    (hq : (run c (St.init c) evs).Quiescent) :
    let s := run c (St.init c) evs
    (∀ (i : Nat) (l : LimSt), s.g.glob[i]? = some l → l.real → l.len = 0) ∧
    (∀ sc, ∀ b ∈ s.g.bk sc, b.users = 0 ∧ ∀ (i : Nat) (l : LimSt), b.lims[i]? = some l → l.real → l.len = 0) := by
  intro s
  have hI := reach_inv c hk evs h
  constructor
  · intro i l hl hr
    have hc : counted c (.g i) = true := by
      simpa [counted] using (realSem_iff c.all s.g.glob i l hI.g.glob hl).2 hr
    have h2 : lenOf s.g (.g i) = total c (.g i) s.tasks := hI.w _ hc
    rw [quiescent_total c s hq] at h2
    simpa [lenOf, hl, limLen] using h2
  · intro sc b hb
    have hf := findB_of_mem (s.g.bk sc) b (hI.g.nodup sc) hb
    constructor
    · have h2 : lenOf s.g (.use sc b.key) = total c (.use sc b.key) s.tasks := hI.w _ rfl
      rw [quiescent_total c s hq] at h2
      simpa [lenOf, hf, bUsers] using h2
    · intro i l hl hr
      have hc : counted c (.b sc b.key i) = true := by
        simpa [counted] using (realSem_iff _ b.lims i l (hI.g.bk sc b hb) hl).2 hr
      have h2 : lenOf s.g (.b sc b.key i) = total c (.b sc b.key i) s.tasks := hI.w _ hc
      rw [quiescent_total c s hq] at h2
      simpa [lenOf, hf, bLen, hl, limLen] using h2

def takeN : Nat → LimSt → Option LimSt
  | 0, l => some l
  | n + 1, l => (l.take).bind (takeN n)

/-- An empty `concurrency N` semaphore admits exactly N further acquisitions: the full N is available. -/
theorem C11_semaphore_full_capacity (l : LimSt) (hr : l.real) (h0 : l.len = 0) :
    (∀ n, n ≤ l.cap → takeN n l = some { l with len := n }) ∧
      (takeN l.cap l).bind LimSt.take = none := by
  have key : ∀ n (x : LimSt), x.real → x.len + n ≤ x.cap → takeN n x = some { x with len := x.len + n } := by
    intro n
    induction n with
    | zero => intro x _ _; simp [takeN]
    | succ n ih =>
      intro x hx hle
      have hc : x.cap ≠ 0 := by have := hx.2; omega
      have hlt : x.len < x.cap := by omega
      simp only [takeN, LimSt.take, hc, hx.1, hlt, if_true, if_false, Option.bind_some]
      have := ih { kind := .sem, cap := x.cap, len := x.len + 1 } ⟨rfl, hx.2⟩ (by simp; omega)
      rw [this]
      simp; omega
  constructor
  · intro n hn
    have := key n l hr (by omega)
    simpa [h0] using this
  · have := key l.cap l hr (by omega)
    rw [this]
    have hc : l.cap ≠ 0 := by have := hr.2; omega
    simp [LimSt.take, hc, hr.1, h0]

/-- In a quiescent state whose idle buckets are all older than the reap interval, the bucket table never
refuses a key, however many distinct keys have been seen before (and however small `MaxBuckets` is). -/
theorem C11_quiescent_bucket_available (c : Cfg) (hk : c.keys.Lawful) (evs : List Ev) (h : (run c (St.init c) evs).misuse = false)
    (hq : (run c (St.init c) evs).Quiescent) (sc : Sc) (k : Nat)
    (hold : ∀ b ∈ (run c (St.init c) evs).g.bk sc, c.reap < (b.age : Int)) :
    (bsTake c sc ((run c (St.init c) evs).g.bk sc) k).2 = true := by
  have hu := (C11_quiescent_full_capacity c hk evs h hq).2 sc
  rw [bsTake_eq]
  have hreap : (reap c ((run c (St.init c) evs).g.bk sc)).length ≤ c.maxB := by
    unfold reap
    split
    · have : List.filter (fun b => !Bucket.stale c.reap b) ((run c (St.init c) evs).g.bk sc) = [] := by
        rw [List.filter_eq_nil_iff]
        intro b hb
        simp [Bucket.stale, (hu b hb).1, hold b hb]
      rw [this]; simp
    · omega
  have : ¬ (reap c ((run c (St.init c) evs).g.bk sc)).length > c.maxB := by omega
  simp [this]

/-- `n` consecutive executions of a take call by goroutine `j`, each run to completion (a call that would
park times out instead). -/
def takeSeq (c : Cfg) (j : Nat) (cl : Call) : Nat → St → St
  | 0, s => s
  | n + 1, s => call c j (takeSeq c j cl n s) cl

theorem full_capacity_seq (c : Cfg) (hk : c.keys.Lawful) (evs : List Ev) (h : (run c (St.init c) evs).misuse = false)
    (hq : (run c (St.init c) evs).Quiescent) (cl : Call) (L : List Lim) (n : Nat) (hs : CallSpec c cl L)
    (hcap : ∀ l ∈ L, 0 < l.n → n ≤ l.n.toNat) (hmax : 1 ≤ c.maxB)
    (hold : ∀ sc, ∀ b ∈ (run c (St.init c) evs).g.bk sc, c.reap < (b.age : Int)) :
    let s := run c (St.init c) evs
    let j := s.tasks.length
    ∃ t, SoloCtx c (takeSeq c j cl n (step c s .spawn)) j cl n t ∧ t.pc = .idle ∧ (0 < n → t.res = .ok) ∧
      (takeSeq c j cl n (step c s .spawn)).misuse = false := by
  intro s j
  have hI := reach_inv c hk evs h
  have key : ∀ m, m ≤ n → ∃ t, SoloCtx c (takeSeq c j cl m (step c s .spawn)) j cl m t ∧
      (takeSeq c j cl m (step c s .spawn)).misuse = false ∧ t.pc = .idle ∧ (0 < m → t.res = .ok) := by
    intro m
    induction m with
    | zero =>
      intro _
      have hs0 : step c s .spawn = { s with tasks := s.tasks ++ [Task.new] } := rfl
      refine ⟨Task.new, ⟨step_inv c hk s .spawn hI h, ?_, ?_, ?_, ?_, hmax, hk⟩, h, rfl, by simp⟩
      · intro sc b hb _; exact hold sc b hb
      · intro i t hi ht
        simp only [takeSeq, hs0] at ht
        have hlt : i < s.tasks.length := by
          have := lt_of_getElem?' _ _ _ ht
          simp at this
          omega
        rw [List.getElem?_append_left hlt] at ht
        exact hq t (List.mem_of_getElem? ht)
      · simp [takeSeq, hs0, j]
      · intro tok; simp [Task.new, msgToks, destToks]
    | succ m ih =>
      intro hm
      obtain ⟨t, hx, hmis, hpc, _⟩ := ih (by omega)
      obtain ⟨t', hx', hmis', hpc', hres⟩ := solo_call c _ j cl L m t hs hx hmis hpc
        (fun l hl hp => by have := hcap l hl hp; omega)
      exact ⟨t', hx', hmis', hpc', fun _ => hres⟩
  obtain ⟨t, hx, hmis, hpc, hres⟩ := key n (Nat.le_refl n)
  exact ⟨t, hx, hpc, hres, hmis⟩

/-- **After quiescence the full N can be acquired again** (composed statement, message scopes).  From any
reachable quiescent state — after any history of successes, rejections, aborts and time-outs, with any number
of buckets left behind, also more than `MaxBuckets` — a new goroutine can call `TakeMsg` `n` times in a row
for ANY ip and sender domain (seen before or not) and every one of the `n` calls returns ok, as long as
`n ≤ N` for every `concurrency N` (N > 0) of the scopes all / ip / source.  Hypotheses: those scopes hold no
`rate` directive (a rate limit may legitimately refuse), the reap interval has passed for the buckets left
behind, and `MaxBuckets ≥ 1`.  Afterwards the goroutine's control state accounts for exactly `n` instances of
the call's permits.  (Every one of the calls returned ok: `takeSeq … m` is a prefix of `takeSeq … n` and the
theorem applies to every `m ≤ n`.) -/
theorem C11_full_capacity_sequential (c : Cfg) (hk : c.keys.Lawful) (evs : List Ev) (h : (run c (St.init c) evs).misuse = false)
    (hq : (run c (St.init c) evs).Quiescent) (ip dom n : Nat)
    (hsem : ∀ l ∈ msgLims c, l.kind = .sem)
    (hcap : ∀ l ∈ msgLims c, 0 < l.n → n ≤ l.n.toNat)
    (hmax : 1 ≤ c.maxB)
    (hold : ∀ sc, ∀ b ∈ (run c (St.init c) evs).g.bk sc, c.reap < (b.age : Int)) :
    let s := run c (St.init c) evs
    let j := s.tasks.length
    ∃ t, (takeSeq c j (.takeMsg ip dom) n (step c s .spawn)).tasks[j]? = some t ∧ t.pc = .idle ∧
      (0 < n → t.res = .ok) ∧
      (∀ tok, (msgToks c t.outMsg).count tok + (destToks c t.outDest).count tok
        = n * ((Call.takeMsg ip dom).toks c).count tok) ∧
      (takeSeq c j (.takeMsg ip dom) n (step c s .spawn)).misuse = false := by
  intro s j
  obtain ⟨t, hx, hpc, hres, hmis⟩ :=
    full_capacity_seq c hk evs h hq (.takeMsg ip dom) (msgLims c) n (CallSpec.takeMsg c ip dom hsem) hcap hmax hold
  exact ⟨t, hx.tj, hpc, hres, hx.outs, hmis⟩

/-- The same for the destination scope: `n ≤ N` consecutive `TakeDest(d)` calls all return ok. -/
theorem C11_full_capacity_sequential_dest (c : Cfg) (hk : c.keys.Lawful) (evs : List Ev) (h : (run c (St.init c) evs).misuse = false)
    (hq : (run c (St.init c) evs).Quiescent) (d n : Nat)
    (hsem : ∀ l ∈ c.dst, l.kind = .sem)
    (hcap : ∀ l ∈ c.dst, 0 < l.n → n ≤ l.n.toNat)
    (hmax : 1 ≤ c.maxB)
    (hold : ∀ sc, ∀ b ∈ (run c (St.init c) evs).g.bk sc, c.reap < (b.age : Int)) :
    let s := run c (St.init c) evs
    let j := s.tasks.length
    ∃ t, (takeSeq c j (.takeDest d) n (step c s .spawn)).tasks[j]? = some t ∧ t.pc = .idle ∧
      (0 < n → t.res = .ok) ∧
      (∀ tok, (msgToks c t.outMsg).count tok + (destToks c t.outDest).count tok
        = n * ((Call.takeDest d).toks c).count tok) ∧
      (takeSeq c j (.takeDest d) n (step c s .spawn)).misuse = false := by
  intro s j
  obtain ⟨t, hx, hpc, hres, hmis⟩ :=
    full_capacity_seq c hk evs h hq (.takeDest d) c.dst n (CallSpec.takeDest c d hsem) hcap hmax hold
  exact ⟨t, hx.tj, hpc, hres, hx.outs, hmis⟩

/-! ## lifecycles: both users of the limits release exactly what they took, on every path -/

def sessOut (s : Sess) : Out := { msg := if s.delivery then [(s.ip, s.mfKey)] else [], dest := [] }

theorem sess_op_track (s : Sess) (ok : Bool) (op : SessOp) :
    track ok (sessOut s) (s.op ok op).2 = some (sessOut (s.op ok op).1) ∧ (s.op ok op).1.ip = s.ip := by
  cases op with
  | mail raw clean so =>
    cases hd : s.delivery <;> cases hf : s.deferred <;> cases clean <;> cases ok <;> cases so <;>
      simp [Sess.op, Sess.startDelivery, sessOut, track, hd, hf]
  | rcpt so =>
    cases hd : s.delivery <;> cases hfr : s.fromRecv <;> cases he : s.dErr <;> cases hc : s.mfClean <;>
      cases ok <;> cases so <;>
      simp [Sess.op, Sess.startDelivery, sessOut, track, hd, hfr, he, hc]
  | data =>
    cases hd : s.delivery <;> cases hfr : s.fromRecv <;> cases hr : (s.rcpts == 0) <;>
      simp [Sess.op, Sess.reset, Sess.clean, sessOut, track, hd, hfr, hr]
  | rset =>
    cases hd : s.delivery <;> simp [Sess.op, Sess.reset, Sess.clean, sessOut, track, hd]
  | logout =>
    cases hd : s.delivery <;> simp [Sess.op, Sess.clean, sessOut, track, hd]

/-- **SMTP session.**  For every command script (MAIL with any raw/normalised spelling, accepted or
refused by the pipeline; RCPT; DATA; RSET; nested MAIL; …), in both `defer_sender_reject` modes and for
every outcome of `TakeMsg` (success, time-out, full), every `ReleaseMsg` of the session is for a `TakeMsg`
it made with the same ip and the same domain key and has not released yet, and what is outstanding is
exactly the limits of the open delivery. -/
theorem C11_session_disciplined (script : List (SessOp × Bool)) (s : Sess) :
    ∃ s', Sess.run s (sessOut s) script = some (s', sessOut s') ∧ s'.ip = s.ip := by
  induction script generalizing s with
  | nil => exact ⟨s, rfl, rfl⟩
  | cons e rest ih =>
    obtain ⟨op, ok⟩ := e
    obtain ⟨h1, h2⟩ := sess_op_track s ok op
    obtain ⟨s', h3, h4⟩ := ih (s.op ok op).1
    exact ⟨s', by simp [Sess.run, h1, h3], by rw [h4, h2]⟩

/-- When the connection ends (QUIT, drop, time-out: go-smtp calls `Logout`) nothing stays outstanding. -/
theorem C11_session_returns_all (script : List (SessOp × Bool)) (s : Sess) (ok : Bool) :
    ∃ s', Sess.run s (sessOut s) (script ++ [(SessOp.logout, ok)]) = some (s', {}) := by
  induction script generalizing s with
  | nil =>
    obtain ⟨h1, _⟩ := sess_op_track s ok .logout
    refine ⟨(s.op ok .logout).1, ?_⟩
    simp only [List.nil_append, Sess.run, h1]
    cases hd : s.delivery <;> simp [Sess.op, Sess.clean, sessOut, hd]
  | cons e rest ih =>
    obtain ⟨op, ok'⟩ := e
    obtain ⟨h1, _⟩ := sess_op_track s ok' op
    obtain ⟨s', h3⟩ := ih (s.op ok' op).1
    exact ⟨s', by simp [Sess.run, h1, h3]⟩

def remOut (k : RemKeys) (r : Rem) : Out :=
  { msg := if r.started then [(r.ip, k.src r.dom)] else [],
    dest := if r.started then r.conns.map (·.2) else [] }

theorem track_relDests (ok : Bool) (m : List (Nat × Nat)) (l : List (Nat × Nat)) (rest : List Call) :
    track ok { msg := m, dest := l.map (·.2) } (l.map (fun p => Call.relDest p.2) ++ rest)
      = track ok { msg := m, dest := [] } rest := by
  induction l with
  | nil => rfl
  | cons d l ih => simp [track, ih]

theorem rem_op_track (k : RemKeys) (hk : k.Lawful) (r : Rem) (ok : Bool) (op : RemOp) :
    track ok (remOut k r) (r.op k ok op).2 = some (remOut k (r.op k ok op).1) := by
  cases op with
  | start =>
    cases hs : r.started <;> cases ok <;> simp [Rem.op, remOut, track, hs]
  | addRcpt d co mo rc po ml =>
    obtain ⟨hu, hc', _⟩ := hk d
    cases hc : r.hasConn (k.conn d) <;> cases hs : r.started <;> cases co <;> cases ok <;> cases mo <;> cases rc <;>
      cases po <;> simp [Rem.op, Rem.connFor, Rem.rcpt, remOut, track, hs, hc, hu, hc']
  | body =>
    simp [Rem.op, track]
  | close =>
    cases hs : r.started
    · simp [Rem.op, remOut, track, hs]
    · simp only [Rem.op, hs, remOut, Bool.not_true, Bool.false_eq_true, if_false, if_true]
      rw [track_relDests]
      simp [track, (hk r.dom).2.2]

/-- **`connectionForDomain`, every way out with an error.**  Whatever the call meets — no connection in the
delivery, one handed out by the pool or a new one, the MX world at that moment up or down (`connOk`; also DOWN
while the pool still holds a connection that was opened when it was up), `TakeDest` granted or not, MAIL
accepted / refused / answered 421 or the session lost (`mailOk`, `mailLost`), on a new or on a pooled
connection — when the call returns an error, `rd.connections` is what it was and the Group calls the call made
leave the outstanding permits `o` of the delivery EXACTLY as they were: whatever was taken on the way has been
given back, under the key it was taken under (`RemKeys.Lawful`).  Holds for any outstanding set `o`, i.e. at any
point of any delivery. -/
theorem C11_connectionForDomain_error_releases (k : RemKeys) (hk : k.Lawful) (r : Rem) (takeOk : Bool) (d : Nat)
    (pooled connOk mailOk mailLost : Bool) (o : Out)
    (herr : (r.connFor k takeOk d pooled connOk mailOk mailLost).1 = .failed) :
    (r.connFor k takeOk d pooled connOk mailOk mailLost).2.1 = r ∧
    track takeOk o (r.connFor k takeOk d pooled connOk mailOk mailLost).2.2 = some o := by
  obtain ⟨hu, _, _⟩ := hk d
  revert herr
  cases hc : r.hasConn (k.conn d) <;> cases pooled <;> cases connOk <;> cases takeOk <;> cases mailOk <;>
    simp [Rem.connFor, track, hc, hu]

/-- The other ways out: the connection of the delivery is handed back without any Group call; a connection that
is opened (pooled or new) adds exactly one outstanding destination permit, the one `Close` will give back for
the new entry of `rd.connections`. -/
theorem C11_connectionForDomain_ok_holds_one (k : RemKeys) (r : Rem) (takeOk : Bool) (d : Nat)
    (pooled connOk mailOk mailLost : Bool) (o : Out) :
    ((r.connFor k takeOk d pooled connOk mailOk mailLost).1 = .cached →
      (r.connFor k takeOk d pooled connOk mailOk mailLost).2 = (r, [])) ∧
    ((r.connFor k takeOk d pooled connOk mailOk mailLost).1 = .opened →
      (r.connFor k takeOk d pooled connOk mailOk mailLost).2.1.conns = (k.conn d, k.close d) :: r.conns ∧
      track takeOk o (r.connFor k takeOk d pooled connOk mailOk mailLost).2.2
        = some { o with dest := k.take d :: o.dest }) := by
  cases hc : r.hasConn (k.conn d) <;> cases pooled <;> cases connOk <;> cases takeOk <;> cases mailOk <;>
    simp [Rem.connFor, track, hc]

/-- **Remote delivery.**  For every sequence of `Start` / `AddRcpt` (connection reused, connection failure,
`TakeDest` time-out, MAIL FROM refused by the next hop or the connection lost at MAIL, RCPT accepted / refused /
failed with the connection lost — 421, drop, time-out — on a fresh or a reused connection) / `Body` /
`Commit`/`Abort`, for every spelling of the sender and recipient domains and every key derivation `k` that
releases under the key it takes under (`RemKeys.Lawful`; any grouping of spellings into keys, any grouping of
spellings into `rd.connections` entries): every release is for a permit the delivery took under the same key
and still holds. -/
theorem C11_remote_disciplined (k : RemKeys) (hk : k.Lawful) (script : List (RemOp × Bool)) (r : Rem) :
    ∃ r', Rem.run k r (remOut k r) script = some (r', remOut k r') := by
  induction script generalizing r with
  | nil => exact ⟨r, rfl⟩
  | cons e rest ih =>
    obtain ⟨op, ok⟩ := e
    have h1 := rem_op_track k hk r ok op
    obtain ⟨r', h3⟩ := ih (r.op k ok op).1
    exact ⟨r', by simp [Rem.run, h1, h3]⟩

/-- After `Commit`/`Abort` (`Close`) the delivery holds nothing, whatever happened before — in particular
whatever the next hop did with any RCPT (first or later one of a connection) or with DATA, and however the
domains were spelled. -/
theorem C11_remote_returns_all (k : RemKeys) (hk : k.Lawful) (script : List (RemOp × Bool)) (r : Rem) (ok : Bool) :
    ∃ r', Rem.run k r (remOut k r) (script ++ [(RemOp.close, ok)]) = some (r', {}) := by
  induction script generalizing r with
  | nil =>
    have h1 := rem_op_track k hk r ok .close
    refine ⟨(r.op k ok .close).1, ?_⟩
    simp only [List.nil_append, Rem.run, h1]
    cases hs : r.started <;> simp [Rem.op, remOut, hs]
  | cons e rest ih =>
    obtain ⟨op, ok'⟩ := e
    have h1 := rem_op_track k hk r ok' op
    obtain ⟨r', h3⟩ := ih (r.op k ok' op).1
    exact ⟨r', by simp [Rem.run, h1, h3]⟩

/-- The discipline tracked by `track` is the one the interleaving model demands: a call accepted by `track`
does not raise the `misuse` flag when a goroutine whose outstanding lists are those of `o` enters it. -/
theorem C11_track_is_no_misuse (c : Cfg) (t : Task) (o o' : Out) (ok : Bool) (call : Call)
    (hm : t.outMsg = o.msg) (hd : t.outDest = o.dest) (h : track ok o [call] = some o') :
    (t.begin c call).2 = false := by
  cases call with
  | takeMsg a b => rfl
  | takeDest d => rfl
  | relMsg a b =>
    simp only [track] at h
    split at h
    · rename_i hc; simp [Task.begin, hm]; simpa using hc
    · simp at h
  | relDest d =>
    simp only [track] at h
    split at h
    · rename_i hc; simp [Task.begin, hd]; simpa using hc
    · simp at h

/-! ## non-vacuity -/

/-- `all concurrency 2`, `ip concurrency 1`, `source concurrency 1` + `source rate 5`, `destination
concurrency 1`, every idle bucket stale, `MaxBuckets = 1`. -/
def exCfg : Cfg :=
  { all := [⟨.sem, 2⟩], ip := [⟨.sem, 1⟩], src := [⟨.sem, 1⟩, ⟨.rate, 5⟩], dst := [⟨.sem, 1⟩], reap := -1, maxB := 1 }

/-- Goroutine 0 takes (ip 1, domain 1) completely; goroutine 1 asks for (ip 2, domain 1): it gets the global
and the ip permit, parks on the source semaphore and its context expires. -/
def exSched : List Ev :=
  [.spawn, .spawn, .begin 0 (.takeMsg 1 1)] ++ List.replicate 8 (.go 0) ++
  [.begin 1 (.takeMsg 2 1)] ++ List.replicate 5 (.go 1) ++ [.go 1, .timeout 1]

/-- … it rolls back, and goroutine 0 releases. -/
def exSched2 : List Ev :=
  exSched ++ List.replicate 6 (.go 1) ++ [.begin 0 (.relMsg 1 1)] ++ List.replicate 5 (.go 0)

/-- The hypothesis of the theorems is satisfiable by a schedule that reaches a limit (the source scope
holds N = 1 message), parks a second goroutine on it with two permits already taken (global occupancy 2) … -/
example : (run exCfg (St.init exCfg) exSched).misuse = false ∧
    (run exCfg (St.init exCfg) exSched).holdersSrc 1 = 1 ∧
    lenOf (run exCfg (St.init exCfg) exSched).g (.g 0) = 2 ∧
    ((run exCfg (St.init exCfg) exSched).tasks.map (·.pc) =
      [.idle, .undo .timeout [.untake .src 1, .relG 0, .bsRel .ip 2]]) := by decide

/-- … and that then reaches quiescence after a time-out roll-back and a release, with more buckets
(2) than `MaxBuckets` (1). -/
example : (run exCfg (St.init exCfg) exSched2).misuse = false ∧
    (run exCfg (St.init exCfg) exSched2).tasks.map (·.res) = [.ok, .timeout] ∧
    (run exCfg (St.init exCfg) exSched2).tasks.all (fun t => t.pc == .idle && t.outMsg.isEmpty && t.outDest.isEmpty) = true ∧
    (run exCfg (St.init exCfg) exSched2).g.ip.length = 2 := by decide

/-- Hypotheses of `C11_full_capacity_sequential` on a concrete history: semaphores only, every bucket left
behind stale, `MaxBuckets = 1` with two buckets in the ip table; the full N = 2 is taken again for a fresh key. -/
def exCfg2 : Cfg :=
  { all := [⟨.sem, 2⟩], ip := [⟨.sem, 2⟩], src := [⟨.sem, 3⟩], dst := [⟨.sem, 1⟩], reap := -1, maxB := 1 }

def exSched3 : List Ev :=
  [.spawn, .spawn, .begin 0 (.takeMsg 1 1)] ++ List.replicate 8 (.go 0) ++
  [.begin 1 (.takeMsg 2 1)] ++ List.replicate 8 (.go 1) ++
  [.begin 0 (.relMsg 1 1), .begin 1 (.relMsg 2 1)] ++ List.replicate 5 (.go 0) ++ List.replicate 5 (.go 1) ++ [.adv 1]

example : (run exCfg2 (St.init exCfg2) exSched3).misuse = false ∧
    (run exCfg2 (St.init exCfg2) exSched3).tasks.all (fun t => t.pc == .idle && t.outMsg.isEmpty && t.outDest.isEmpty) = true ∧
    (run exCfg2 (St.init exCfg2) exSched3).g.ip.length = 2 ∧
    (run exCfg2 (St.init exCfg2) exSched3).g.ip.all (fun b => decide (exCfg2.reap < (b.age : Int))) = true ∧
    (msgLims exCfg2).all (fun l => l.kind == .sem && decide (2 ≤ l.n.toNat)) = true ∧
    ((takeSeq exCfg2 2 (.takeMsg 9 9) 2 (step exCfg2 (run exCfg2 (St.init exCfg2) exSched3) .spawn)).tasks[2]?.map
      (fun t => (t.outMsg, t.res))) = some ([(9, 9), (9, 9)], .ok) := by decide

/-! ### key derivation of the per-IP scope -/

theorem IpKeys.same_lawful : IpKeys.same.Lawful := fun _ => ⟨rfl, rfl⟩

/-- The key derivation of the pinned tree restricted to the address ids the harness uses: `addr.String()` —
an IPv4 address (id `a < 150`) and its IPv4-mapped IPv6 form (id `150 + a`) print alike and share a bucket;
every other address is its own key. -/
def exKeys : IpKeys :=
  { take := fun a => if 150 < a ∧ a < 200 then a - 150 else a,
    undo := fun a => if 150 < a ∧ a < 200 then a - 150 else a,
    rel := fun a => if 150 < a ∧ a < 200 then a - 150 else a }

theorem exKeys_lawful : exKeys.Lawful := fun _ => ⟨rfl, rfl⟩

/-- `ip concurrency 1` + `source concurrency 1` under `exKeys`. -/
def exCfg3 : Cfg :=
  { all := [], ip := [⟨.sem, 1⟩], src := [⟨.sem, 1⟩], dst := [], reap := -1, maxB := 5, keys := exKeys }

/-- The hypotheses with a key function that is not injective: 10.0.0.1 (id 1) holds the permit of its
bucket; the same host connecting as ::ffff:10.0.0.1 (id 151) parks on that very bucket (key 1, two users),
an IPv6 client (id 111) is admitted beside them. -/
example : exCfg3.keys.Lawful ∧
    let s := run exCfg3 (St.init exCfg3)
      ([.spawn, .spawn, .spawn, .begin 0 (.takeMsg 1 1)] ++ List.replicate 5 (.go 0) ++
       [.begin 1 (.takeMsg 151 2)] ++ List.replicate 3 (.go 1) ++
       [.begin 2 (.takeMsg 111 3)] ++ List.replicate 5 (.go 2))
    s.misuse = false ∧ s.holdersIp exCfg3 1 = 1 ∧ s.holdersIp exCfg3 111 = 1 ∧
      lenOf s.g (.use .ip 1) = 2 ∧ lenOf s.g (.b .ip 1 0) = 1 ∧
      s.tasks.map (·.outMsg) = [[(1, 1)], [], [(111, 3)]] :=
  ⟨exKeys_lawful, by decide⟩

/-- A group whose roll-back releases the per-IP bucket under another key than the acquisition used (what
`g.ip.Release(addr.String())` does after `g.ip.TakeContext(ctx, ipKey(addr))`). -/
def exCfgBadKeys : Cfg :=
  { all := [], ip := [⟨.sem, 1⟩], src := [⟨.sem, 1⟩], dst := [], reap := -1, maxB := 5,
    keys := { take := fun a => a, undo := fun a => a + 5000, rel := fun a => a } }

/-- **The key law cannot be dropped.**  With a roll-back key that differs from the acquisition key, a history
without any client misuse — a message from address 2 gets its per-IP permit, times out on the sender-domain
limit held by a message from address 1, is rolled back; the other message is released — ends with every
goroutine idle and nothing outstanding, yet the per-IP semaphore of key 2 is still occupied and its bucket
still has a user: the permit is lost for good (`C11_quiescent_full_capacity` fails). -/
theorem C11_key_law_needed :
    ¬ exCfgBadKeys.keys.Lawful ∧
    (let s := run exCfgBadKeys (St.init exCfgBadKeys)
      ([.spawn, .spawn, .begin 0 (.takeMsg 1 1)] ++ List.replicate 5 (.go 0) ++
       [.begin 1 (.takeMsg 2 1)] ++ List.replicate 4 (.go 1) ++ [.timeout 1] ++ List.replicate 4 (.go 1) ++
       [.begin 0 (.relMsg 1 1)] ++ List.replicate 3 (.go 0))
     s.misuse = false ∧
      s.tasks.all (fun t => t.pc == .idle && t.outMsg.isEmpty && t.outDest.isEmpty) = true ∧
      s.tasks.map (·.res) = [.ok, .timeout] ∧
      lenOf s.g (.b .ip 2 0) = 1 ∧ lenOf s.g (.use .ip 2) = 1 ∧ lenOf s.g (.b .ip 1 0) = 0) := by
  refine ⟨fun h => absurd (h 0).1 (by decide), by decide⟩


/-- A session (immediate-reject mode) that is refused by the pipeline after taking its limits, then sends a
MAIL with an upper-case domain (raw key 1001, normalised 1) that is accepted, then is dropped. -/
example : Sess.run { ip := 3, deferred := false } {} [(.mail 1 (some 1) false, true), (.mail 1001 (some 1) true, true)]
      = some ({ ip := 3, deferred := false, fromRecv := true, mfKey := 1, mfClean := some 1, delivery := true },
          { msg := [(3, 1)], dest := [] }) ∧
    (Sess.run { ip := 3, deferred := false } {}
      [(.mail 1 (some 1) false, true), (.mail 1001 (some 1) true, true), (.logout, true)]).map (·.2) = some {} := by
  decide

/-- A remote delivery: one recipient domain accepted, one whose MAIL FROM is refused by the next hop (its
destination permit is returned at once), one whose destination limit timed out; then Close. -/
example : (Rem.run RemKeys.same { ip := 1, dom := 7 } {}
      [(.start, true), (.addRcpt 2 true true, true), (.addRcpt 3 true false, true), (.addRcpt 4 true true, false)]).map (·.2)
      = some { msg := [(1, 7)], dest := [2] } ∧
    (Rem.run RemKeys.same { ip := 1, dom := 7 } {}
      [(.start, true), (.addRcpt 2 true true, true), (.addRcpt 3 true false, true), (.addRcpt 4 true true, false),
       (.close, true)]).map (·.2) = some {} := by
  decide

/-- The MX world changes between deliveries: the first delivery opens a connection to domain 2 (world up) and
ends, the connection goes to the pool; the world goes down; the second delivery gets the pooled connection
(`pooled`, no new connection possible), the server answers MAIL with 421 (`mailLost`): `connectionForDomain`
fails, the destination permit it took is back at once — and a recipient of a domain without a pooled connection
fails without any Group call. -/
example : (Rem.connFor RemKeys.same { ip := 1, dom := 7, started := true } true 2 true false false true).1 = .failed ∧
    (Rem.run RemKeys.same { ip := 1, dom := 7 } {}
      [(.start, true), (.addRcpt 2 false false .accepted true true, true),
       (.addRcpt 3 false true, true)]).map (·.2) = some { msg := [(1, 7)], dest := [] } ∧
    (Rem.run RemKeys.same { ip := 1, dom := 7 } {}
      [(.start, true), (.addRcpt 2 false true .accepted true, true)]).map (·.2)
      = some { msg := [(1, 7)], dest := [2] } := by
  decide

/-- A remote delivery whose next hop answers the FIRST RCPT of a fresh connection with 421 / drops it: the
delivery keeps holding the destination permit (the entry stays in `rd.connections`); a further recipient of
the domain reuses the dead connection (lost again, no second permit), another domain is accepted, its second
RCPT is lost; `Body`; `Close` returns everything. -/
example : (Rem.run RemKeys.same { ip := 1, dom := 7 } {}
      [(.start, true), (.addRcpt 2 true true .lost, true), (.addRcpt 2 true true .lost, true),
       (.addRcpt 3 true true, true), (.addRcpt 3 true true .lost, true), (.addRcpt 2 true true .refused, true),
       (.body, true)]).map (·.2)
      = some { msg := [(1, 7)], dest := [3, 2] } ∧
    (Rem.run RemKeys.same { ip := 1, dom := 7 } {}
      [(.start, true), (.addRcpt 2 true true .lost, true), (.addRcpt 2 true true .lost, true),
       (.addRcpt 3 true true, true), (.addRcpt 3 true true .lost, true), (.addRcpt 2 true true .refused, true),
       (.body, true), (.close, true)]).map (·.2) = some {} := by
  decide

/-! ### key derivation of the remote target (domain spellings) -/

theorem RemKeys.same_lawful : RemKeys.same.Lawful := fun _ => ⟨rfl, rfl, rfl⟩

/-- A lawful derivation that is not the identity: spelling ids `100·b + v` (variant `v` of base domain `b`:
U-label, A-label, other case, trailing dot …) all normalised to the first spelling of the base at every place
that touches the limits, while `rd.connections` stays keyed by the spelling. -/
def exRemKeys : RemKeys :=
  { conn := fun d => d, take := fun d => d / 100 * 100, undo := fun d => d / 100 * 100,
    close := fun d => d / 100 * 100, src := fun d => d / 100 * 100, srcRel := fun d => d / 100 * 100 }

theorem exRemKeys_lawful : exRemKeys.Lawful := fun _ => ⟨rfl, rfl, rfl⟩

/-- The hypotheses with such a derivation: sender `102`, recipients spelled `100` (U-label), `101` (A-label: a
second connection and a second permit of the SAME bucket `100`), `100` again (connection reused), `203` with MAIL
refused (permit returned at once); `Close` returns both permits of bucket `100`. -/
example : (Rem.run exRemKeys { ip := 1, dom := 102 } {}
      [(.start, true), (.addRcpt 100 true true, true), (.addRcpt 101 true true, true), (.addRcpt 100 true true, true),
       (.addRcpt 203 true false, true)]).map (·.2)
      = some { msg := [(1, 100)], dest := [100, 100] } ∧
    (Rem.run exRemKeys { ip := 1, dom := 102 } {}
      [(.start, true), (.addRcpt 100 true true, true), (.addRcpt 101 true true, true), (.addRcpt 100 true true, true),
       (.addRcpt 203 true false, true), (.close, true)]).map (·.2) = some {} := by
  decide

/-- A remote target that records another form of the recipient domain in the connection than the one it took
the destination limit under (`TakeDest(domain)` with the U-label, `ReleaseDest(conn.domain)` with the A-label:
spelling `d` ↦ key `d + 1000`). -/
def exBadRemKeys : RemKeys := { RemKeys.same with close := fun d => d + 1000 }

/-- `destination concurrency 1`. -/
def exCfgDst : Cfg := { all := [], ip := [], src := [], dst := [⟨.sem, 1⟩], reap := -1, maxB := 5 }

/-- The Group calls of a command script (every take succeeds), in order. -/
def Rem.calls (k : RemKeys) : Rem → List RemOp → List Call
  | _, [] => []
  | r, op :: rest => (r.op k true op).2 ++ Rem.calls k (r.op k true op).1 rest

/-- **The destination key law cannot be dropped.**  With a `Close` key that differs from the `TakeDest` key the
simplest delivery — Start, one recipient accepted, Commit — is not disciplined (`ReleaseDest` for something that
was never taken: `BucketSet.Release` ignores the unknown key), and its Group calls, executed on the limits model
by one goroutine, leave the destination semaphore of the domain occupied and its bucket in use after the
delivery ended: the next `TakeDest` for that domain times out, for ever. -/
theorem C11_dest_key_law_needed :
    ¬ exBadRemKeys.Lawful ∧
    Rem.run exBadRemKeys { ip := 1, dom := 7 } {} [(.start, true), (.addRcpt 2 true true, true), (.close, true)] = none ∧
    Rem.calls exBadRemKeys { ip := 1, dom := 7 } [.start, .addRcpt 2 true true, .close]
      = [.takeMsg 1 7, .takeDest 2, .relDest 1002, .relMsg 1 7] ∧
    (let s := (Rem.calls exBadRemKeys { ip := 1, dom := 7 } [.start, .addRcpt 2 true true, .close]).foldl
        (call exCfgDst 0) (step exCfgDst (St.init exCfgDst) .spawn)
     s.tasks.map (·.pc) = [.idle] ∧
      lenOf s.g (.b .dst 2 0) = 1 ∧ lenOf s.g (.use .dst 2) = 1 ∧
      ((call exCfgDst 0 s (.takeDest 2)).tasks.map (·.res)) = [.timeout]) := by
  refine ⟨fun h => absurd (h 0).2.1 (by decide), by decide, by decide, by decide⟩

end MaddyVerif.Limits
