import MaddyVerif.Model.SpoolFS
import MaddyVerif.Generated.SpoolSkel
import MaddyVerif.Expect.SpoolSkel
/-!
# C02 — the queue spool survives a crash at any instant without losing accepted mail

Everything is stated over `Reach P`, the states of one message id reachable from the fresh id by
ANY sequence of choices of `step?` (Model/SpoolFS.lean): every file-system operation is one step;
a crash (`Choice.crash keep`, `Choice.tornCrash n keep`) may be chosen in every state — before any
operation, in the middle of any write, losing any part of the un-synced data of every file — and
`Choice.restart` runs recovery, which is again made of ordinary steps.  So the theorems hold for
all crash points of all runs, for all three crash modes, and for crashes inside recovery runs to
any depth (the property's "depth 2" is an instance).  Parameters: `maxTries`, the metadata codec
(only its round-trip law is used), the header parser, the per-attempt errors (`Choice.outcome e`).
-/
namespace MaddyVerif.C02
open MaddyVerif.SpoolFS MaddyVerif.Queue

/-! ## the classification loop only ever shrinks the recipient list, and loses nobody -/

theorem classify_newR_mono (mt : Nat) (e : Errs) (l : List Addr) (a : Acc) (r : Addr) :
    r ∈ a.newR → r ∈ (Queue.classify mt e l a).newR := by
  induction l generalizing a with
  | nil => intro h; simpa [Queue.classify] using h
  | cons x t ih =>
    intro h
    unfold Queue.classify
    split
    · exact ih a h
    · split
      · exact ih _ h
      · exact ih _ (by simp [h])

theorem classify_failedR_mono (mt : Nat) (e : Errs) (l : List Addr) (a : Acc) (r : Addr) :
    r ∈ a.failedR → r ∈ (Queue.classify mt e l a).failedR := by
  induction l generalizing a with
  | nil => intro h; simpa [Queue.classify] using h
  | cons x t ih =>
    intro h
    unfold Queue.classify
    split
    · exact ih a h
    · split
      · exact ih _ (by simp [h])
      · exact ih _ h

theorem classify_newR_sub (mt : Nat) (e : Errs) (l : List Addr) (a : Acc) (r : Addr) :
    r ∈ (Queue.classify mt e l a).newR → r ∈ a.newR ∨ r ∈ l := by
  induction l generalizing a with
  | nil => intro h; left; simpa [Queue.classify] using h
  | cons x t ih =>
    unfold Queue.classify
    split
    · intro h; rcases ih a h with h | h
      · exact .inl h
      · exact .inr (by simp [h])
    · split
      · intro h; rcases ih _ h with h | h
        · exact .inl h
        · exact .inr (by simp [h])
      · intro h; rcases ih _ h with h | h
        · simp at h; rcases h with h | h
          · exact .inl h
          · exact .inr (by simp [h])
        · exact .inr (by simp [h])

theorem classify_cover (mt : Nat) (e : Errs) (l : List Addr) (a : Acc) (r : Addr) :
    r ∈ l → e r = none ∨ r ∈ (Queue.classify mt e l a).failedR ∨ r ∈ (Queue.classify mt e l a).newR := by
  induction l generalizing a with
  | nil => intro h; simp at h
  | cons x t ih =>
    intro h
    by_cases hx : r = x
    · subst hx
      unfold Queue.classify
      split
      · rename_i he; exact .inl he
      · split
        · exact .inr (.inl (classify_failedR_mono _ _ _ _ _ (by simp)))
        · exact .inr (.inr (classify_newR_mono _ _ _ _ _ (by simp)))
    · have ht : r ∈ t := by simpa [hx] using h
      unfold Queue.classify
      split
      · exact ih a ht
      · split
        · exact ih _ ht
        · exact ih _ ht

theorem attempt_newR_sub (P : Params) (m : SMeta) (e : Errs) :
    (attemptResult P m e).newR ⊆ m.to := by
  intro r h
  rcases classify_newR_sub _ _ _ _ _ h with h | h
  · simp at h
  · exact h

theorem attempt_cover (P : Params) (m : SMeta) (e : Errs) (r : Addr) (h : r ∈ m.to) :
    r ∈ delivered m e ∨ r ∈ (attemptResult P m e).failedR ∨ r ∈ (attemptResult P m e).newR := by
  rcases classify_cover P.maxTries e m.to ⟨m.triesFn, [], []⟩ r h with h1 | h1 | h1
  · left; simp [delivered, h, h1]
  · exact .inr (.inl h1)
  · exact .inr (.inr h1)

/-! ## the invariant -/

/-- What holds of the files and the history of one id at EVERY instant (so also after a crash). -/
structure DiskInv (P : Params) (d : Disk) (g : Ghost) : Prop where
  /-- `.meta` only ever holds a completely written, fsynced serialisation of the newest committed snapshot -/
  metaOk : ∀ f, d.metaF = some f → ∃ m, g.commits.head? = some m ∧ f = ⟨P.codec.ser m, []⟩
  /-- while `.meta` exists, a header/body file that exists is the accepted content, durable -/
  contentH : d.metaF.isSome = true → ∀ f, d.header = some f → f = ⟨g.hdr, []⟩
  contentB : d.metaF.isSome = true → ∀ f, d.body = some f → f = ⟨g.body, []⟩
  hdrOk : d.metaF.isSome = true → P.hdrOk g.hdr = true
  /-- `.meta` without header or body only once a removal was begun -/
  present : d.metaF.isSome = true → g.removing = false → d.header.isSome = true ∧ d.body.isSome = true
  accMeta : g.accepted = true → g.removing = false → g.quarantined = false → d.metaF.isSome = true
  surv : g.accepted = true → ∀ r, r ∈ g.orig →
    r ∈ g.term ∨ (g.removing = false ∧ ∃ m, g.commits.head? = some m ∧ r ∈ m.to)
  abortedClean : g.aborted = true → d.metaF = none ∧ g.attempts = [] ∧ g.accepted = false
  chainC : g.commits.Pairwise (fun newer older => newer.to ⊆ older.to)
  commitsOrig : ∀ m, m ∈ g.commits → m.to ⊆ g.orig
  attFrom : ∀ T, T ∈ g.attempts → ∃ m, m ∈ g.commits ∧ T = m.to
  chainA : g.attempts.Pairwise (fun newer older => newer ⊆ older)
  headSub : ∀ T, T ∈ g.attempts → ∀ m, g.commits.head? = some m → m.to ⊆ T

def metaNewShape (P : Params) (m : SMeta) (d : Disk) : Nat → Prop
  | 0 => True
  | 1 => d.metaNew = some ⟨[], []⟩
  | 2 => d.metaNew = some ⟨[], P.codec.ser m⟩
  | _ => d.metaNew = some ⟨P.codec.ser m, []⟩

/-- What holds in addition at the various points of the queue's procedures. -/
def PcInv (P : Params) (s : St) : Prop :=
  match s.pc with
  | .fresh => s.disk = {} ∧ s.g = {}
  | .store m h b i =>
    i < 10 ∧ s.disk = execOps {} ((storeOps P.codec m h b).take i) ∧
    s.g = { orig := m.to, hdr := h, body := b, nullFrom := m.nullFrom } ∧ P.hdrOk h = true
  | .stored m =>
    s.disk = { header := some ⟨s.g.hdr, []⟩, body := some ⟨s.g.body, []⟩, metaF := some ⟨P.codec.ser m, []⟩ } ∧
    s.g = { orig := m.to, hdr := s.g.hdr, body := s.g.body, commits := [m], nullFrom := m.nullFrom } ∧ P.hdrOk s.g.hdr = true
  | .abortRm i =>
    i < 3 ∧ s.g.removing = true ∧ s.g.accepted = false ∧ s.g.aborted = false ∧ s.g.attempts = []
  | .sched (some m) =>
    s.g.commits.head? = some m ∧ s.g.accepted = true ∧ s.g.removing = false ∧ s.g.quarantined = false ∧
    s.g.aborted = false
  | .sched none => s.g.aborted = false ∧ s.disk.metaF.isSome = true
  | .attempting m =>
    s.g.commits.head? = some m ∧ s.disk.metaF = some ⟨P.codec.ser m, []⟩ ∧
    s.disk.header = some ⟨s.g.hdr, []⟩ ∧ s.disk.body = some ⟨s.g.body, []⟩ ∧ s.g.aborted = false
  | .update m i =>
    i < 4 ∧ metaNewShape P m s.disk i ∧ (∃ m0, s.g.commits.head? = some m0 ∧ m.to ⊆ m0.to) ∧
    (s.g.accepted = true → ∀ r, r ∈ s.g.orig → r ∈ s.g.term ∨ r ∈ m.to) ∧
    s.disk.metaF.isSome = true ∧ s.g.aborted = false
  | .remove i => i < 3 ∧ s.g.removing = true ∧ s.g.aborted = false
  | .clean ops => s.g.removing = true ∧ (∀ o, o ∈ ops → isRemove o = true) ∧ s.g.aborted = false
  | .quarantine => s.g.quarantined = true ∧ s.g.aborted = false
  | .fin => True
  | .down => True

structure Inv (P : Params) (s : St) : Prop where
  disk : DiskInv P s.disk s.g
  pc : PcInv P s

/-! ## preservation lemmas for `DiskInv` -/

theorem diskInv_congr {P : Params} {d d' : Disk} {g : Ghost}
    (hh : d'.header = d.header) (hb : d'.body = d.body) (hm : d'.metaF = d.metaF)
    (h : DiskInv P d g) : DiskInv P d' g := by
  constructor
  · rw [hm]; exact h.metaOk
  · rw [hm, hh]; exact h.contentH
  · rw [hm, hb]; exact h.contentB
  · rw [hm]; exact h.hdrOk
  · rw [hm, hh, hb]; exact h.present
  · rw [hm]; exact h.accMeta
  · exact h.surv
  · rw [hm]; exact h.abortedClean
  · exact h.chainC
  · exact h.commitsOrig
  · exact h.attFrom
  · exact h.chainA
  · exact h.headSub

/-- A crash (any loss of un-synced data) preserves the invariant. -/
theorem diskInv_lose {P : Params} {d : Disk} {g : Ghost} (keep : FKind → Nat)
    (h : DiskInv P d g) : DiskInv P (d.lose keep) g := by
  have hm : ∀ f, d.metaF = some f → (d.lose keep).metaF = some f := by
    intro f hf
    obtain ⟨m, _, rfl⟩ := h.metaOk f hf
    simp [Disk.lose, hf, File.lose]
  have hmS : (d.lose keep).metaF.isSome = d.metaF.isSome := by simp [Disk.lose]
  constructor
  · intro f hf
    cases hd : d.metaF with
    | none => simp [Disk.lose, hd] at hf
    | some f0 =>
      rw [hm f0 hd] at hf
      have : f0 = f := by simpa using hf
      subst this; exact h.metaOk _ hd
  · rw [hmS]; intro hs f hf
    cases hd : d.header with
    | none => simp [Disk.lose, hd] at hf
    | some f0 =>
      have := h.contentH hs f0 hd; subst this
      simp [Disk.lose, hd, File.lose] at hf; exact hf.symm
  · rw [hmS]; intro hs f hf
    cases hd : d.body with
    | none => simp [Disk.lose, hd] at hf
    | some f0 =>
      have := h.contentB hs f0 hd; subst this
      simp [Disk.lose, hd, File.lose] at hf; exact hf.symm
  · rw [hmS]; exact h.hdrOk
  · rw [hmS]; intro hs hr
    have := h.present hs hr
    simpa [Disk.lose] using this
  · rw [hmS]; exact h.accMeta
  · exact h.surv
  · intro ha
    have := h.abortedClean ha
    refine ⟨?_, this.2⟩
    simp [Disk.lose, this.1]
  · exact h.chainC
  · exact h.commitsOrig
  · exact h.attFrom
  · exact h.chainA
  · exact h.headSub

/-- Removing files of an id whose removal has begun preserves the invariant. -/
theorem diskInv_remove {P : Params} {d : Disk} {g : Ghost} (k : FKind)
    (hr : g.removing = true) (h : DiskInv P d g) : DiskInv P (applyOp d (.remove k)) g := by
  have hm : ∀ f, (applyOp d (.remove k)).metaF = some f → d.metaF = some f := by
    intro f; cases k <;> simp [applyOp, Disk.set]
  have hmS : (applyOp d (.remove k)).metaF.isSome = true → d.metaF.isSome = true := by
    cases k <;> simp [applyOp, Disk.set]
  constructor
  · intro f hf; exact h.metaOk f (hm f hf)
  · intro hs f hf
    have hs' := hmS hs
    cases k <;> simp [applyOp, Disk.set] at hf <;> exact h.contentH hs' f hf
  · intro hs f hf
    have hs' := hmS hs
    cases k <;> simp [applyOp, Disk.set] at hf <;> exact h.contentB hs' f hf
  · intro hs; exact h.hdrOk (hmS hs)
  · intro _ hr'; rw [hr] at hr'; cases hr'
  · intro _ hr'; rw [hr] at hr'; cases hr'
  · exact h.surv
  · intro ha
    have := h.abortedClean ha
    refine ⟨?_, this.2⟩
    cases k <;> simp [applyOp, Disk.set, this.1]
  · exact h.chainC
  · exact h.commitsOrig
  · exact h.attFrom
  · exact h.chainA
  · exact h.headSub

/-- Before anything was committed for the id, any directory state without `.meta` is fine. -/
theorem diskInv_noMeta {P : Params} {d : Disk} {g : Ghost} (hm : d.metaF = none)
    (hacc : g.accepted = false) (hc : g.commits = []) (ha : g.attempts = []) : DiskInv P d g := by
  constructor <;> simp_all

/-- The rename of a completely written, fsynced `.meta.new` over `.meta` commits a new snapshot. -/
theorem diskInv_commit {P : Params} {d d' : Disk} {g : Ghost} {m : SMeta}
    (h : DiskInv P d g)
    (hh : d'.header = d.header) (hb : d'.body = d.body) (hm : d'.metaF = some ⟨P.codec.ser m, []⟩)
    (hsub : ∃ m0, g.commits.head? = some m0 ∧ m.to ⊆ m0.to)
    (hsurv : g.accepted = true → ∀ r, r ∈ g.orig → r ∈ g.term ∨ r ∈ m.to)
    (hmeta : d.metaF.isSome = true) (hab : g.aborted = false) :
    DiskInv P d' { g with commits := m :: g.commits } := by
  obtain ⟨m0, hm0, hsub⟩ := hsub
  obtain ⟨rest, hrest⟩ : ∃ rest, g.commits = m0 :: rest := by
    cases hc : g.commits with
    | nil => simp [hc] at hm0
    | cons a t => simp [hc] at hm0; exact ⟨t, by rw [hm0]⟩
  constructor
  · intro f hf; rw [hm] at hf; cases hf; exact ⟨m, rfl, rfl⟩
  · intro _ f hf; rw [hh] at hf; exact h.contentH hmeta f hf
  · intro _ f hf; rw [hb] at hf; exact h.contentB hmeta f hf
  · intro _; exact h.hdrOk hmeta
  · intro _ hr; rw [hh, hb]; exact h.present hmeta hr
  · intro _ _ _; simp [hm]
  · intro ha r hr
    cases hrm : g.removing with
    | true =>
      rcases h.surv ha r hr with h1 | ⟨h1, _⟩
      · exact .inl h1
      · rw [hrm] at h1; cases h1
    | false =>
      rcases hsurv ha r hr with h1 | h1
      · exact .inl h1
      · exact .inr ⟨rfl, m, rfl, h1⟩
  · intro ha; rw [hab] at ha; cases ha
  · show (m :: g.commits).Pairwise _
    rw [List.pairwise_cons]
    refine ⟨?_, h.chainC⟩
    intro older hold
    rw [hrest] at hold
    have hc := h.chainC
    rw [hrest, List.pairwise_cons] at hc
    rcases List.mem_cons.mp hold with rfl | hin
    · exact hsub
    · exact fun r hr => hc.1 older hin (hsub hr)
  · intro m' hm'
    rcases List.mem_cons.mp hm' with rfl | hin
    · exact fun r hr => h.commitsOrig m0 (by simp [hrest]) (hsub hr)
    · exact h.commitsOrig m' hin
  · intro T hT
    obtain ⟨m', hm', rfl⟩ := h.attFrom T hT
    exact ⟨m', List.mem_cons_of_mem _ hm', rfl⟩
  · exact h.chainA
  · intro T hT m' hm'
    simp at hm'; subst hm'
    exact fun r hr => h.headSub T hT m0 hm0 (hsub hr)

/-- `discardBroken`: `.meta` is renamed away. -/
theorem diskInv_quarantine {P : Params} {d : Disk} {g : Ghost}
    (hq : g.quarantined = true) (h : DiskInv P d g) :
    DiskInv P (applyOp d (.rename .metaF .broken)) g := by
  cases hd : d.metaF with
  | none =>
    have : applyOp d (.rename .metaF .broken) = d := by simp [applyOp, Disk.get, hd]
    rw [this]; exact h
  | some f =>
    have hm : (applyOp d (.rename .metaF .broken)).metaF = none := by
      simp [applyOp, Disk.get, Disk.set, hd]
    constructor
    · intro f hf; rw [hm] at hf; cases hf
    · intro hs; rw [hm] at hs; cases hs
    · intro hs; rw [hm] at hs; cases hs
    · intro hs; rw [hm] at hs; cases hs
    · intro hs; rw [hm] at hs; cases hs
    · intro _ _ hq'; rw [hq] at hq'; cases hq'
    · exact h.surv
    · intro ha; exact ⟨hm, (h.abortedClean ha).2⟩
    · exact h.chainC
    · exact h.commitsOrig
    · exact h.attFrom
    · exact h.chainA
    · exact h.headSub

/-- More recipients with a terminal outcome. -/
theorem diskInv_term {P : Params} {d : Disk} {g : Ghost} (extra : List Addr) (h : DiskInv P d g) :
    DiskInv P d { g with term := g.term ++ extra } := by
  constructor
  · exact h.metaOk
  · exact h.contentH
  · exact h.contentB
  · exact h.hdrOk
  · exact h.present
  · exact h.accMeta
  · intro ha r hr
    rcases h.surv ha r hr with h1 | h1
    · exact .inl (List.mem_append_left _ h1)
    · exact .inr h1
  · exact h.abortedClean
  · exact h.chainC
  · exact h.commitsOrig
  · exact h.attFrom
  · exact h.chainA
  · exact h.headSub

theorem diskInv_termSup {P : Params} {d : Disk} {g : Ghost} (t' : List Addr) (h : DiskInv P d g)
    (hsup : ∀ r, r ∈ g.term → r ∈ t') : DiskInv P d { g with term := t' } := by
  constructor
  · exact h.metaOk
  · exact h.contentH
  · exact h.contentB
  · exact h.hdrOk
  · exact h.present
  · exact h.accMeta
  · intro ha r hr
    rcases h.surv ha r hr with h1 | h1
    · exact .inl (hsup r h1)
    · exact .inr h1
  · exact h.abortedClean
  · exact h.chainC
  · exact h.commitsOrig
  · exact h.attFrom
  · exact h.chainA
  · exact h.headSub

theorem diskInv_term_removing {P : Params} {d : Disk} {g : Ghost} (t' : List Addr) (h : DiskInv P d g)
    (hall : g.accepted = true → ∀ r, r ∈ g.orig → r ∈ t') :
    DiskInv P d { g with term := t', removing := true } := by
  constructor
  · exact h.metaOk
  · exact h.contentH
  · exact h.contentB
  · exact h.hdrOk
  · intro _ hr; cases hr
  · intro _ hr; cases hr
  · intro ha r hr; exact .inl (hall ha r hr)
  · exact h.abortedClean
  · exact h.chainC
  · exact h.commitsOrig
  · exact h.attFrom
  · exact h.chainA
  · exact h.headSub

/-- The bookkeeping of WHICH terminal outcome a recipient got (delivered / reported / given up for the
null reverse-path) is not read by the invariant. -/
theorem diskInv_account {P : Params} {d : Disk} {g : Ghost} (a b c : List Addr) (h : DiskInv P d g) :
    DiskInv P d { g with dlv := a, reported := b, gaveUp := c } := by
  constructor
  · exact h.metaOk
  · exact h.contentH
  · exact h.contentB
  · exact h.hdrOk
  · exact h.present
  · exact h.accMeta
  · exact h.surv
  · exact h.abortedClean
  · exact h.chainC
  · exact h.commitsOrig
  · exact h.attFrom
  · exact h.chainA
  · exact h.headSub

/-- A removal begins: allowed once every recipient of an accepted message has its outcome. -/
theorem diskInv_setRemoving {P : Params} {d : Disk} {g : Ghost} (h : DiskInv P d g)
    (hall : g.accepted = true → ∀ r, r ∈ g.orig → r ∈ g.term) :
    DiskInv P d { g with removing := true } := by
  constructor
  · exact h.metaOk
  · exact h.contentH
  · exact h.contentB
  · exact h.hdrOk
  · intro _ hr; cases hr
  · intro _ hr; cases hr
  · intro ha r hr; exact .inl (hall ha r hr)
  · exact h.abortedClean
  · exact h.chainC
  · exact h.commitsOrig
  · exact h.attFrom
  · exact h.chainA
  · exact h.headSub

/-- `.meta` next to a missing header or body: a removal had begun. -/
theorem removing_of_missing {P : Params} {d : Disk} {g : Ghost} (h : DiskInv P d g)
    (hm : d.metaF.isSome = true) (hmiss : d.header.isNone = true ∨ d.body.isNone = true) :
    g.removing = true := by
  cases hr : g.removing with
  | true => rfl
  | false =>
    have := h.present hm hr
    rcases hmiss with h1 | h1
    · cases hh : d.header <;> simp [hh] at h1 this
    · cases hh : d.body <;> simp [hh] at h1 this

theorem diskInv_setRemoving_of_eq {P : Params} {d : Disk} {g : Ghost} (h : DiskInv P d g)
    (hr : g.removing = true) : DiskInv P d { g with removing := true } := by
  have : { g with removing := true } = g := by cases g; simp_all
  rw [this]; exact h

/-- A delivery attempt begins with the newest committed snapshot. -/
theorem diskInv_attempt {P : Params} {d : Disk} {g : Ghost} {m : SMeta} (h : DiskInv P d g)
    (hm : g.commits.head? = some m) (hab : g.aborted = false) :
    DiskInv P d { g with attempts := m.to :: g.attempts } := by
  have hmem : m ∈ g.commits := by
    cases hc : g.commits with
    | nil => simp [hc] at hm
    | cons a t => simp [hc] at hm; simp [hm]
  constructor
  · exact h.metaOk
  · exact h.contentH
  · exact h.contentB
  · exact h.hdrOk
  · exact h.present
  · exact h.accMeta
  · exact h.surv
  · intro ha; rw [hab] at ha; cases ha
  · exact h.chainC
  · exact h.commitsOrig
  · intro T hT
    rcases List.mem_cons.mp hT with rfl | hin
    · exact ⟨m, hmem, rfl⟩
    · exact h.attFrom T hin
  · show (m.to :: g.attempts).Pairwise _
    rw [List.pairwise_cons]
    exact ⟨fun T hT => h.headSub T hT m hm, h.chainA⟩
  · intro T hT m' hm'
    have : m' = m := by
      have h2 : g.commits.head? = some m' := hm'
      rw [hm] at h2; cases h2; rfl
    subst this
    rcases List.mem_cons.mp hT with rfl | hin
    · exact fun r hr => hr
    · exact h.headSub T hin m' hm

theorem diskInv_setQuarantined {P : Params} {d : Disk} {g : Ghost} (h : DiskInv P d g) :
    DiskInv P d { g with quarantined := true } := by
  constructor
  · exact h.metaOk
  · exact h.contentH
  · exact h.contentB
  · exact h.hdrOk
  · exact h.present
  · intro _ _ hq; cases hq
  · exact h.surv
  · exact h.abortedClean
  · exact h.chainC
  · exact h.commitsOrig
  · exact h.attFrom
  · exact h.chainA
  · exact h.headSub

theorem diskInv_setAborted {P : Params} {d : Disk} {g : Ghost} (h : DiskInv P d g)
    (hm : d.metaF = none) (ha : g.attempts = []) (hacc : g.accepted = false) :
    DiskInv P d { g with aborted := true } := by
  constructor
  · exact h.metaOk
  · exact h.contentH
  · exact h.contentB
  · exact h.hdrOk
  · exact h.present
  · exact h.accMeta
  · exact h.surv
  · intro _; exact ⟨hm, ha, hacc⟩
  · exact h.chainC
  · exact h.commitsOrig
  · exact h.attFrom
  · exact h.chainA
  · exact h.headSub

/-! ## every step preserves the invariant -/

theorem storeOps_length (c : Codec) (m : SMeta) (h b : Bytes) : (storeOps c m h b).length = 10 := by
  simp [storeOps, updateOps]

theorem inv_init (P : Params) : Inv P {} := by
  constructor
  · constructor <;> simp
  · simp [PcInv]

theorem inv_accept {P : Params} {s s' : St} {rcpts : List Addr} {h b : Bytes} {nf : Bool}
    (hi : Inv P s) (hs : step? P s (.accept rcpts h b nf) = some s') : Inv P s' := by
  cases hpc : s.pc <;> simp [step?, hpc] at hs
  obtain ⟨hok, rfl⟩ := hs
  have hp := hi.pc
  simp [PcInv, hpc] at hp
  obtain ⟨hd, hg⟩ := hp
  constructor
  · exact diskInv_noMeta (by simp [hd]) (by simp [hg]) (by simp [hg]) (by simp [hg])
  · simp [PcInv, hd, hg, execOps, hok]

theorem inv_store_op {P : Params} {s s' : St} {m : SMeta} {h b : Bytes} {i : Nat}
    (hi : Inv P s) (hpc : s.pc = .store m h b i) (hs : step? P s .op = some s') : Inv P s' := by
  have hp := hi.pc
  simp only [PcInv, hpc] at hp
  obtain ⟨hlt, hd, hg, hok⟩ := hp
  have hcases : i = 0 ∨ i = 1 ∨ i = 2 ∨ i = 3 ∨ i = 4 ∨ i = 5 ∨ i = 6 ∨ i = 7 ∨ i = 8 ∨ i = 9 := by omega
  rcases hcases with rfl | rfl | rfl | rfl | rfl | rfl | rfl | rfl | rfl | rfl <;>
    simp [step?, hpc, storeOps, updateOps] at hs <;> subst hs
  all_goals first
    | (constructor
       · exact diskInv_noMeta (by simp [hd, storeOps, updateOps, execOps, applyOp, Disk.set, Disk.get])
           (by simp [hg]) (by simp [hg]) (by simp [hg])
       · simp [PcInv, hd, hg, hok, storeOps, updateOps, execOps])
    | skip
  -- i = 9: the rename; the message is now stored
  constructor
  · simp only [hd, hg]
    constructor <;> simp_all [storeOps, updateOps, execOps, applyOp, Disk.set, Disk.get]
  · simp [PcInv, hd, hg, hok, storeOps, updateOps, execOps, applyOp, Disk.set, Disk.get]

theorem inv_abortRm_op {P : Params} {s s' : St} {i : Nat}
    (hi : Inv P s) (hpc : s.pc = .abortRm i) (hs : step? P s .op = some s') : Inv P s' := by
  have hp := hi.pc
  simp only [PcInv, hpc] at hp
  obtain ⟨hlt, hrm, hacc, hab, hatt⟩ := hp
  have hcases : i = 0 ∨ i = 1 ∨ i = 2 := by omega
  rcases hcases with rfl | rfl | rfl <;> simp [step?, hpc, removeOps] at hs <;> subst hs
  · exact ⟨diskInv_remove .header hrm hi.disk, by simp [PcInv, hrm, hacc, hab, hatt]⟩
  · exact ⟨diskInv_remove .body hrm hi.disk, by simp [PcInv, hrm, hacc, hab, hatt]⟩
  · refine ⟨diskInv_setAborted (diskInv_remove .metaF hrm hi.disk) ?_ hatt hacc, by simp [PcInv]⟩
    simp [applyOp, Disk.set]

theorem inv_remove_op {P : Params} {s s' : St} {i : Nat}
    (hi : Inv P s) (hpc : s.pc = .remove i) (hs : step? P s .op = some s') : Inv P s' := by
  have hp := hi.pc
  simp only [PcInv, hpc] at hp
  obtain ⟨hlt, hrm, hab⟩ := hp
  have hcases : i = 0 ∨ i = 1 ∨ i = 2 := by omega
  rcases hcases with rfl | rfl | rfl <;> simp [step?, hpc, removeOps] at hs <;> subst hs
  · exact ⟨diskInv_remove .header hrm hi.disk, by simp [PcInv, hrm, hab]⟩
  · exact ⟨diskInv_remove .body hrm hi.disk, by simp [PcInv, hrm, hab]⟩
  · exact ⟨diskInv_remove .metaF hrm hi.disk, by simp [PcInv]⟩

theorem inv_clean_op {P : Params} {s s' : St} {ops : List Op}
    (hi : Inv P s) (hpc : s.pc = .clean ops) (hs : step? P s .op = some s') : Inv P s' := by
  have hp := hi.pc
  simp only [PcInv, hpc] at hp
  obtain ⟨hrm, hall, hab⟩ := hp
  cases ops with
  | nil => simp [step?, hpc] at hs
  | cons o rest =>
    simp [step?, hpc] at hs; subst hs
    have ho := hall o (by simp)
    cases o <;> simp [isRemove] at ho
    rename_i k
    refine ⟨diskInv_remove k hrm hi.disk, ?_⟩
    cases rest with
    | nil => simp [PcInv]
    | cons o2 r2 =>
      simp only [PcInv]
      exact ⟨hrm, fun o' ho' => hall o' (List.mem_cons_of_mem _ ho'), hab⟩

theorem inv_quarantine_op {P : Params} {s s' : St}
    (hi : Inv P s) (hpc : s.pc = .quarantine) (hs : step? P s .op = some s') : Inv P s' := by
  have hp := hi.pc
  simp only [PcInv, hpc] at hp
  simp [step?, hpc] at hs; subst hs
  exact ⟨diskInv_quarantine hp.1 hi.disk, by simp [PcInv]⟩

theorem inv_update_op {P : Params} {s s' : St} {m : SMeta} {i : Nat}
    (hi : Inv P s) (hpc : s.pc = .update m i) (hs : step? P s .op = some s') : Inv P s' := by
  have hp := hi.pc
  simp only [PcInv, hpc] at hp
  obtain ⟨hlt, hshape, hsub, hsurv, hmeta, hab⟩ := hp
  have hcases : i = 0 ∨ i = 1 ∨ i = 2 ∨ i = 3 := by omega
  rcases hcases with rfl | rfl | rfl | rfl <;> simp [step?, hpc, updateOps] at hs <;> subst hs
  · refine ⟨diskInv_congr (by simp [applyOp, Disk.set]) (by simp [applyOp, Disk.set]) (by simp [applyOp, Disk.set]) hi.disk, ?_⟩
    simp only [PcInv]
    exact ⟨by omega, by simp [metaNewShape, applyOp, Disk.set], hsub, hsurv, by simpa [applyOp, Disk.set] using hmeta, hab⟩
  · simp only [metaNewShape] at hshape
    refine ⟨diskInv_congr (by simp [applyOp, Disk.get, Disk.set, hshape]) (by simp [applyOp, Disk.get, Disk.set, hshape])
      (by simp [applyOp, Disk.get, Disk.set, hshape]) hi.disk, ?_⟩
    simp only [PcInv]
    exact ⟨by omega, by simp [metaNewShape, applyOp, Disk.get, Disk.set, hshape], hsub, hsurv,
      by simpa [applyOp, Disk.get, Disk.set, hshape] using hmeta, hab⟩
  · simp only [metaNewShape] at hshape
    refine ⟨diskInv_congr (by simp [applyOp, Disk.get, Disk.set, hshape]) (by simp [applyOp, Disk.get, Disk.set, hshape])
      (by simp [applyOp, Disk.get, Disk.set, hshape]) hi.disk, ?_⟩
    simp only [PcInv]
    exact ⟨by omega, by simp [metaNewShape, applyOp, Disk.get, Disk.set, hshape], hsub, hsurv,
      by simpa [applyOp, Disk.get, Disk.set, hshape] using hmeta, hab⟩
  · simp only [metaNewShape] at hshape
    refine ⟨diskInv_commit hi.disk (by simp [applyOp, Disk.get, Disk.set, hshape]) (by simp [applyOp, Disk.get, Disk.set, hshape])
      (by simp [applyOp, Disk.get, Disk.set, hshape]) hsub hsurv hmeta hab, ?_⟩
    simp [PcInv, hab, applyOp, Disk.get, Disk.set, hshape]

theorem inv_op {P : Params} {s s' : St} (hi : Inv P s) (hs : step? P s .op = some s') : Inv P s' := by
  cases hpc : s.pc with
  | store m h b i => exact inv_store_op hi hpc hs
  | abortRm i => exact inv_abortRm_op hi hpc hs
  | update m i => exact inv_update_op hi hpc hs
  | remove i => exact inv_remove_op hi hpc hs
  | clean ops => exact inv_clean_op hi hpc hs
  | quarantine => exact inv_quarantine_op hi hpc hs
  | fresh => simp [step?, hpc] at hs
  | stored m => simp [step?, hpc] at hs
  | sched mem => simp [step?, hpc] at hs
  | attempting m => simp [step?, hpc] at hs
  | fin => simp [step?, hpc] at hs
  | down => simp [step?, hpc] at hs

/-- The state right after `storeNewMessage`: all three files complete and durable. -/
theorem diskInv_stored {P : Params} (m : SMeta) (h b : Bytes) (acc : Bool) (hok : P.hdrOk h = true) :
    DiskInv P { header := some ⟨h, []⟩, body := some ⟨b, []⟩, metaF := some ⟨P.codec.ser m, []⟩ }
      { orig := m.to, hdr := h, body := b, commits := [m], accepted := acc, nullFrom := m.nullFrom } := by
  constructor
  · intro f hf; simp at hf; subst hf; exact ⟨m, rfl, rfl⟩
  · intro _ f hf; simp at hf; exact hf.symm
  · intro _ f hf; simp at hf; exact hf.symm
  · intro _; exact hok
  · intro _ _; simp
  · intro _ _ _; simp
  · intro _ r hr; exact .inr ⟨rfl, m, rfl, hr⟩
  · intro ha; cases ha
  · simp
  · intro m' hm'; simp at hm'; subst hm'; exact fun r hr => hr
  · intro T hT; cases hT
  · simp
  · intro T hT; cases hT

theorem inv_commit {P : Params} {s s' : St} (hi : Inv P s) (hs : step? P s .commit = some s') : Inv P s' := by
  cases hpc : s.pc <;> simp [step?, hpc] at hs
  rename_i m
  subst hs
  have hp := hi.pc
  simp only [PcInv, hpc] at hp
  obtain ⟨hd, hg, hok⟩ := hp
  constructor
  · show DiskInv P s.disk { s.g with accepted := true }
    rw [hd, hg]
    exact diskInv_stored m s.g.hdr s.g.body true hok
  · simp only [PcInv]
    rw [hg]; simp

/-- `Commit` on a stopped queue: acknowledged, nothing in memory, the spool untouched. -/
theorem inv_commitStopped {P : Params} {s s' : St} (hi : Inv P s) (hs : step? P s .commitStopped = some s') :
    Inv P s' := by
  cases hpc : s.pc <;> simp [step?, hpc] at hs
  rename_i m
  subst hs
  have hp := hi.pc
  simp only [PcInv, hpc] at hp
  obtain ⟨hd, hg, hok⟩ := hp
  constructor
  · show DiskInv P s.disk { s.g with accepted := true }
    rw [hd, hg]
    exact diskInv_stored m s.g.hdr s.g.body true hok
  · simp [PcInv]

theorem inv_abort {P : Params} {s s' : St} (hi : Inv P s) (hs : step? P s .abort = some s') : Inv P s' := by
  cases hpc : s.pc <;> simp [step?, hpc] at hs
  rename_i m
  subst hs
  have hp := hi.pc
  simp only [PcInv, hpc] at hp
  obtain ⟨hd, hg, hok⟩ := hp
  have hacc : s.g.accepted = false := by rw [hg]
  constructor
  · exact diskInv_setRemoving hi.disk (by intro ha; rw [hacc] at ha; cases ha)
  · simp only [PcInv]
    rw [hg]; simp

/-- `openMessage` succeeds only with the newest committed snapshot and the accepted content. -/
theorem openMsg_ok {P : Params} {d : Disk} {g : Ghost} {m : SMeta} (h : DiskInv P d g)
    (ho : openMsg P d = .ok m) :
    g.commits.head? = some m ∧ d.metaF = some ⟨P.codec.ser m, []⟩ ∧
    d.header = some ⟨g.hdr, []⟩ ∧ d.body = some ⟨g.body, []⟩ := by
  unfold openMsg at ho
  cases hm : d.metaF with
  | none => simp [hm] at ho
  | some f =>
    obtain ⟨m0, hm0, rfl⟩ := h.metaOk f hm
    simp only [hm, File.content, List.append_nil, P.codec.rt] at ho
    have hs : d.metaF.isSome = true := by simp [hm]
    cases hb : d.body with
    | none => simp [hb] at ho
    | some fb =>
      cases hh : d.header with
      | none => simp [hb, hh] at ho
      | some fh =>
        simp only [hb, hh, Option.isNone_some, Bool.false_eq_true, ↓reduceIte] at ho
        by_cases hk : P.hdrOk (fh.durable ++ fh.pending) = true
        · simp only [hk, ↓reduceIte] at ho
          cases ho
          exact ⟨hm0, rfl, by rw [h.contentH hs fh hh], by rw [h.contentB hs fb hb]⟩
        · simp [hk] at ho

theorem openMsg_clean {P : Params} {d : Disk} {g : Ghost} {ops : List Op} (h : DiskInv P d g)
    (ho : openMsg P d = .clean ops) :
    g.removing = true ∧ ∀ o, o ∈ ops → isRemove o = true := by
  unfold openMsg at ho
  cases hm : d.metaF with
  | none => simp [hm] at ho
  | some f =>
    have hs : d.metaF.isSome = true := by simp [hm]
    simp only [hm] at ho
    split at ho
    · cases ho
    · split at ho
      · rename_i hb
        cases ho
        exact ⟨removing_of_missing h hs (.inr hb), by simp [isRemove]⟩
      · split at ho
        · rename_i hh
          cases ho
          exact ⟨removing_of_missing h hs (.inl (by simp [hh])), by simp [isRemove]⟩
        · split at ho <;> cases ho

theorem inv_dispatch {P : Params} {s s' : St} (hi : Inv P s) (hs : step? P s .dispatch = some s') : Inv P s' := by
  cases hpc : s.pc <;> simp [step?, hpc] at hs
  rename_i mem
  have hp := hi.pc
  cases mem with
  | some m =>
    simp at hs; subst hs
    simp only [PcInv, hpc] at hp
    obtain ⟨hhead, hacc, hrm, hq, hab⟩ := hp
    have hms := hi.disk.accMeta hacc hrm hq
    have hpres := hi.disk.present hms hrm
    refine ⟨diskInv_attempt hi.disk hhead hab, ?_⟩
    simp only [PcInv]
    cases hmf : s.disk.metaF with
    | none => simp [hmf] at hms
    | some f =>
      obtain ⟨m0, hm0, rfl⟩ := hi.disk.metaOk f hmf
      rw [hhead] at hm0; cases hm0
      refine ⟨hhead, rfl, ?_, ?_, hab⟩
      · cases hh : s.disk.header with
        | none => simp [hh] at hpres
        | some fh => rw [hi.disk.contentH hms fh hh]
      · cases hb : s.disk.body with
        | none => simp [hb] at hpres
        | some fb => rw [hi.disk.contentB hms fb hb]
  | none =>
    simp only [PcInv, hpc] at hp
    simp only at hs
    cases ho : openMsg P s.disk with
    | ok m =>
      simp [ho] at hs; subst hs
      obtain ⟨h1, h2, h3, h4⟩ := openMsg_ok hi.disk ho
      exact ⟨diskInv_attempt hi.disk h1 hp.1, by simp only [PcInv]; exact ⟨h1, h2, h3, h4, hp.1⟩⟩
    | clean ops =>
      simp [ho] at hs; subst hs
      obtain ⟨h1, h2⟩ := openMsg_clean hi.disk ho
      exact ⟨diskInv_setRemoving_of_eq hi.disk h1, by unfold PcInv; exact ⟨rfl, h2, hp.1⟩⟩
    | fail =>
      simp [ho] at hs; subst hs
      exact ⟨hi.disk, by simp [PcInv]⟩

theorem inv_outcome {P : Params} {s s' : St} {e : Errs} (hi : Inv P s)
    (hs : step? P s (.outcome e) = some s') : Inv P s' := by
  cases hpc : s.pc <;> simp [step?, hpc] at hs
  rename_i m
  have hp := hi.pc
  simp only [PcInv, hpc] at hp
  obtain ⟨hhead, hmf, hh, hb, hab⟩ := hp
  -- every original recipient has an outcome or is in this attempt's retry list
  have hcov : s.g.accepted = true → ∀ r, r ∈ s.g.orig →
      r ∈ s.g.term ++ delivered m e ++ (attemptResult P m e).failedR ∨ r ∈ (attemptResult P m e).newR := by
    intro ha r hr
    rcases hi.disk.surv ha r hr with h1 | ⟨_, m0, hm0, h1⟩
    · left; simp [h1]
    · rw [hhead] at hm0; cases hm0
      rcases attempt_cover P m e r h1 with h2 | h2 | h2
      · left; simp [h2]
      · left; simp [h2]
      · exact .inr h2
  split at hs
  · rename_i hnil
    cases hs
    have hnil' : (attemptResult P m e).newR = [] := by simpa using hnil
    constructor
    · refine diskInv_account (g := { s.g with term := _, removing := true }) _ _ _
        (diskInv_term_removing (g := s.g) _ hi.disk ?_)
      intro ha r hr
      rcases hcov ha r hr with h1 | h1
      · simpa [List.append_assoc] using h1
      · rw [hnil'] at h1; cases h1
    · simp [PcInv, hab]
  · cases hs
    constructor
    · have h1 := diskInv_termSup (g := s.g) (s.g.term ++ (delivered m e ++ (attemptResult P m e).failedR)) hi.disk
        (by intro r hr; simp [hr])
      exact diskInv_account (s.g.dlv ++ delivered m e) (s.g.reported ++ reportedNow m (attemptResult P m e))
        (s.g.gaveUp ++ gaveUpNow m (attemptResult P m e)) h1
    · simp only [PcInv]
      refine ⟨by omega, by simp [metaNewShape], ⟨m, hhead, ?_⟩, ?_, by simp [hmf], hab⟩
      · exact attempt_newR_sub P m e
      · intro ha r hr
        simpa [nextMeta, List.append_assoc] using hcov ha r hr

theorem inv_panic {P : Params} {s s' : St} (hi : Inv P s) (hs : step? P s .panic = some s') : Inv P s' := by
  cases hpc : s.pc <;> simp [step?, hpc] at hs
  subst hs
  have hp := hi.pc
  simp only [PcInv, hpc] at hp
  exact ⟨diskInv_setQuarantined hi.disk, by simp [PcInv, hp.2.2.2.2]⟩

theorem inv_crash {P : Params} {s s' : St} {keep : FKind → Nat} (hi : Inv P s)
    (hs : step? P s (.crash keep) = some s') : Inv P s' := by
  simp [step?] at hs; subst hs
  exact ⟨diskInv_lose keep hi.disk, by simp [PcInv]⟩

theorem inv_tornCrash {P : Params} {s s' : St} {n : Nat} {keep : FKind → Nat} (hi : Inv P s)
    (hs : step? P s (.tornCrash n keep) = some s') : Inv P s' := by
  have hp := hi.pc
  cases hpc : s.pc with
  | store m h b i =>
    simp only [PcInv, hpc] at hp
    obtain ⟨hlt, hd, hg, hok⟩ := hp
    have hcases : i = 0 ∨ i = 1 ∨ i = 2 ∨ i = 3 ∨ i = 4 ∨ i = 5 ∨ i = 6 ∨ i = 7 ∨ i = 8 ∨ i = 9 := by omega
    rcases hcases with rfl | rfl | rfl | rfl | rfl | rfl | rfl | rfl | rfl | rfl <;>
      simp [step?, hpc, storeOps, updateOps] at hs <;> subst hs
    all_goals
      refine ⟨diskInv_lose keep (diskInv_noMeta ?_ (by simp [hg]) (by simp [hg]) (by simp [hg])), by simp [PcInv]⟩
      simp [hd, storeOps, updateOps, execOps, applyOp, Disk.set, Disk.get]
  | update m i =>
    simp only [PcInv, hpc] at hp
    obtain ⟨hlt, hshape, hsub, hsurv, hmeta, hab⟩ := hp
    have hcases : i = 0 ∨ i = 1 ∨ i = 2 ∨ i = 3 := by omega
    rcases hcases with rfl | rfl | rfl | rfl <;> simp [step?, hpc, updateOps] at hs <;> subst hs
    simp only [metaNewShape] at hshape
    refine ⟨diskInv_lose keep (diskInv_congr ?_ ?_ ?_ hi.disk), by simp [PcInv]⟩ <;>
      simp [applyOp, Disk.get, Disk.set, hshape]
  | fresh => simp [step?, hpc] at hs
  | stored m => simp [step?, hpc] at hs
  | abortRm i => simp [step?, hpc] at hs
  | sched mem => simp [step?, hpc] at hs
  | attempting m => simp [step?, hpc] at hs
  | remove i => simp [step?, hpc] at hs
  | clean ops => simp [step?, hpc] at hs
  | quarantine => simp [step?, hpc] at hs
  | fin => simp [step?, hpc] at hs
  | down => simp [step?, hpc] at hs

theorem scanMsg_clean {P : Params} {d : Disk} {g : Ghost} {ops : List Op} (h : DiskInv P d g)
    (ho : scanMsg P.codec d = .clean ops) :
    g.removing = true ∧ g.aborted = false ∧ ∀ o, o ∈ ops → isRemove o = true := by
  unfold scanMsg at ho
  cases hm : d.metaF with
  | none => simp [hm] at ho
  | some f =>
    have hs : d.metaF.isSome = true := by simp [hm]
    have hab : g.aborted = false := by
      cases ha : g.aborted with
      | false => rfl
      | true => have := (h.abortedClean ha).1; rw [hm] at this; cases this
    simp only [hm] at ho
    split at ho
    · cases ho
    · split at ho
      · rename_i hh
        cases ho
        exact ⟨removing_of_missing h hs (.inl hh), hab, by simp [isRemove]⟩
      · split at ho
        · rename_i hb
          cases ho
          exact ⟨removing_of_missing h hs (.inr hb), hab, by simp [isRemove]⟩
        · cases ho

theorem scanMsg_sched {P : Params} {d : Disk} {g : Ghost} (h : DiskInv P d g)
    (ho : scanMsg P.codec d = .sched) : g.aborted = false ∧ d.metaF.isSome = true := by
  constructor
  · cases ha : g.aborted with
    | false => rfl
    | true =>
      have := (h.abortedClean ha).1
      simp [scanMsg, this] at ho
  · cases hm : d.metaF with
    | none => simp [scanMsg, hm] at ho
    | some f => rfl

/-- A step that only forgets the in-memory slot of the id (`pc := .fin`, nothing else changes): the start-up scan or
`openMessage` met a transient fault. -/
theorem inv_forget {P : Params} {s s' : St} (hi : Inv P s) (hs : s' = { s with pc := .fin }) : Inv P s' := by
  subst hs; exact ⟨hi.disk, by simp [PcInv]⟩

theorem step_scanFault {P : Params} {s s' : St} {w : FaultAt} (hs : step? P s (.scanFault w) = some s') :
    s.pc = .down ∧ scanReaches P.codec s.disk w = true ∧ s' = { s with pc := .fin } := by
  cases hpc : s.pc <;> simp [step?, hpc] at hs
  exact ⟨rfl, hs.1, hs.2.symm⟩

theorem step_openFault {P : Params} {s s' : St} {w : FaultAt} (hs : step? P s (.openFault w) = some s') :
    s.pc = .sched none ∧ openReaches P.codec s.disk w = true ∧ s' = { s with pc := .fin } := by
  cases hpc : s.pc with
  | sched mem =>
    cases mem with
    | none => simp [step?, hpc] at hs; exact ⟨rfl, hs.1, hs.2.symm⟩
    | some m => simp [step?, hpc] at hs
  | _ => simp [step?, hpc] at hs

theorem inv_restart {P : Params} {s s' : St} (hi : Inv P s) (hs : step? P s .restart = some s') : Inv P s' := by
  cases hpc : s.pc <;> simp [step?, hpc] at hs
  cases ho : scanMsg P.codec s.disk with
  | skip => simp [ho] at hs; subst hs; exact ⟨hi.disk, by simp [PcInv]⟩
  | clean ops =>
    simp [ho] at hs; subst hs
    obtain ⟨h1, h2, h3⟩ := scanMsg_clean hi.disk ho
    exact ⟨diskInv_setRemoving_of_eq hi.disk h1, by unfold PcInv; exact ⟨rfl, h3, h2⟩⟩
  | sched =>
    simp [ho] at hs; subst hs
    exact ⟨hi.disk, by simp only [PcInv]; exact scanMsg_sched hi.disk ho⟩

/-- **Every step — file operation, delivery event, crash of any kind, restart — preserves the invariant.** -/
theorem inv_step {P : Params} {s s' : St} (c : Choice) (hi : Inv P s) (hs : step? P s c = some s') :
    Inv P s' := by
  cases c with
  | accept r h b nf => exact inv_accept hi hs
  | op => exact inv_op hi hs
  | commit => exact inv_commit hi hs
  | abort => exact inv_abort hi hs
  | dispatch => exact inv_dispatch hi hs
  | outcome e => exact inv_outcome hi hs
  | panic => exact inv_panic hi hs
  | crash keep => exact inv_crash hi hs
  | tornCrash n keep => exact inv_tornCrash hi hs
  | restart => exact inv_restart hi hs
  | scanFault w => exact inv_forget hi (step_scanFault hs).2.2
  | openFault w => exact inv_forget hi (step_openFault hs).2.2
  | commitStopped => exact inv_commitStopped hi hs

theorem inv_reach {P : Params} {s : St} (h : Reach P s) : Inv P s := by
  induction h with
  | init => exact inv_init P
  | step c _ hs ih => exact inv_step c ih hs

/-! ## the property theorems -/

/-- `s'` is reachable from `s` by any further choices (operations, deliveries, crashes, restarts). -/
inductive ReachFrom (P : Params) : St → St → Prop
  | refl (s : St) : ReachFrom P s s
  | step {s s' s'' : St} (c : Choice) : ReachFrom P s s' → step? P s' c = some s'' → ReachFrom P s s''

theorem reach_trans {P : Params} {s s' : St} (h : Reach P s) (hf : ReachFrom P s s') : Reach P s' := by
  induction hf with
  | refl => exact h
  | step c _ hs ih => exact Reach.step c ih hs

def _root_.MaddyVerif.SpoolFS.Choice.isCrash : Choice → Bool
  | .crash _ => true
  | .tornCrash _ _ => true
  | _ => false

/-- The inductive invariant, for all reachable states (recovery steps and crashes inside recovery included). -/
theorem C02_inv_reachable (P : Params) (s : St) (h : Reach P s) : Inv P s := inv_reach h

/-- Recovery (like every other step) preserves the invariant. -/
theorem C02_recovery_preserves_inv (P : Params) (s s' : St) (c : Choice) (hi : Inv P s)
    (hs : step? P s c = some s') : Inv P s' := inv_step c hi hs

/-- What recovery computes from a directory state that satisfies the invariant and still holds the
commit record of a message whose removal has not begun. -/
theorem recoverMeta_of_inv {P : Params} {d : Disk} {g : Ghost} (h : DiskInv P d g)
    (hm : d.metaF.isSome = true) (hr : g.removing = false) :
    ∃ m, g.commits.head? = some m ∧ recoverMeta P d = some m := by
  cases hmf : d.metaF with
  | none => simp [hmf] at hm
  | some f =>
    obtain ⟨m, hhead, rfl⟩ := h.metaOk f hmf
    obtain ⟨hh, hb⟩ := h.present hm hr
    have hok := h.hdrOk hm
    cases hhd : d.header with
    | none => simp [hhd] at hh
    | some fh =>
      cases hbd : d.body with
      | none => simp [hbd] at hb
      | some fb =>
        have e1 := h.contentH hm fh hhd
        subst e1
        refine ⟨m, hhead, ?_⟩
        simp [recoverMeta, scanMsg, openMsg, hmf, hhd, hbd, File.content, P.codec.rt, hok]

/-- **Accepted mail survives.**  In every reachable state in which `Commit` has returned for the
message (so in particular after a crash at any later instant, of any kind, at any recovery depth):
every recipient of the accepted transaction either already got its terminal outcome (delivered, or
reported as failed) or is a recipient of the metadata with which recovery makes its next attempt. -/
theorem C02_accepted_survives (P : Params) (s : St) (h : Reach P s)
    (hacc : s.g.accepted = true) (hq : s.g.quarantined = false) (r : Addr) (hr : r ∈ s.g.orig) :
    r ∈ s.g.term ∨ ∃ m, recoverMeta P s.disk = some m ∧ r ∈ m.to := by
  have hi := (inv_reach h).disk
  rcases hi.surv hacc r hr with h1 | ⟨hrm, m, hm, hrm2⟩
  · exact .inl h1
  · right
    obtain ⟨m', hm', hrec⟩ := recoverMeta_of_inv hi (hi.accMeta hacc hrm hq) hrm
    rw [hm] at hm'; cases hm'
    exact ⟨m, hrec, hrm2⟩

/-- The same, spelled out for the crash step itself: whatever the crash choice (between two
operations, in the middle of a write, with any loss of un-synced data) in whatever state. -/
theorem C02_accepted_survives_crash (P : Params) (s s' : St) (c : Choice) (h : Reach P s)
    (hc : c.isCrash = true) (hs : step? P s c = some s')
    (hacc : s.g.accepted = true) (hq : s.g.quarantined = false) (r : Addr) (hr : r ∈ s.g.orig) :
    s'.pc = .down ∧ (r ∈ s.g.term ∨ ∃ m, recoverMeta P s'.disk = some m ∧ r ∈ m.to) := by
  have hg : s'.g = s.g ∧ s'.pc = .down := by
    cases c <;> simp [Choice.isCrash] at hc
    · simp [step?] at hs; subst hs; exact ⟨rfl, rfl⟩
    · simp only [step?] at hs
      split at hs
      · cases hs; exact ⟨rfl, rfl⟩
      · cases hs
  have := C02_accepted_survives P s' (Reach.step c h hs) (by rw [hg.1]; exact hacc) (by rw [hg.1]; exact hq) r
    (by rw [hg.1]; exact hr)
  rw [hg.1] at this
  exact ⟨hg.2, this⟩

/-- "… or is attempted again": from a stopped process whose directory recovers to `m`, the restart
and the firing of the time wheel lead to a delivery attempt with exactly `m`. -/
theorem C02_recovery_attempts (P : Params) (s : St) (m : SMeta) (hpc : s.pc = .down)
    (hrec : recoverMeta P s.disk = some m) :
    ∃ s1 s2, step? P s .restart = some s1 ∧ step? P s1 .dispatch = some s2 ∧
      s2.pc = .attempting m ∧ s2.g.attempts = m.to :: s.g.attempts := by
  unfold recoverMeta at hrec
  cases hsc : scanMsg P.codec s.disk with
  | skip => simp [hsc] at hrec
  | clean ops => simp [hsc] at hrec
  | sched =>
    simp only [hsc] at hrec
    cases hop : openMsg P s.disk with
    | fail => simp [hop] at hrec
    | clean ops => simp [hop] at hrec
    | ok m' =>
      simp [hop] at hrec; subst hrec
      refine ⟨{ s with pc := .sched none }, { s with pc := .attempting m', g := { s.g with attempts := m'.to :: s.g.attempts } }, ?_, ?_, rfl, rfl⟩
      · simp [step?, hpc, hsc]
      · simp [step?, hop]

theorem aborted_pc {P : Params} {s : St} (hi : Inv P s) (hab : s.g.aborted = true) :
    s.pc = .fin ∨ s.pc = .down := by
  have hp := hi.pc
  have contra : ∀ {Q : Prop}, s.g.aborted = false → Q := by
    intro Q h; rw [hab] at h; cases h
  cases hpc : s.pc with
  | fin => exact .inl rfl
  | down => exact .inr rfl
  | sched mem =>
    cases mem with
    | none => simp only [PcInv, hpc] at hp; exact contra hp.1
    | some m => simp only [PcInv, hpc] at hp; exact contra hp.2.2.2.2
  | fresh => simp only [PcInv, hpc] at hp; exact contra (by rw [hp.2])
  | store m h b i => simp only [PcInv, hpc] at hp; exact contra (by rw [hp.2.2.1])
  | stored m => simp only [PcInv, hpc] at hp; exact contra (by rw [hp.2.1])
  | abortRm i => simp only [PcInv, hpc] at hp; exact contra hp.2.2.2.1
  | attempting m => simp only [PcInv, hpc] at hp; exact contra hp.2.2.2.2
  | update m i => simp only [PcInv, hpc] at hp; exact contra hp.2.2.2.2.2
  | remove i => simp only [PcInv, hpc] at hp; exact contra hp.2.2
  | clean ops => simp only [PcInv, hpc] at hp; exact contra hp.2.2
  | quarantine => simp only [PcInv, hpc] at hp; exact contra hp.2

theorem aborted_sticky {P : Params} {s s' : St} (c : Choice) (hi : Inv P s) (hab : s.g.aborted = true)
    (hs : step? P s c = some s') : s'.g.aborted = true ∧ s'.g.attempts = s.g.attempts := by
  have hm : s.disk.metaF = none := (hi.disk.abortedClean hab).1
  rcases aborted_pc hi hab with hpc | hpc
  · cases c <;> simp [step?, hpc] at hs
    subst hs; exact ⟨hab, rfl⟩
  · cases c <;> simp [step?, hpc] at hs
    · subst hs; exact ⟨hab, rfl⟩
    · simp [scanMsg, hm] at hs; subst hs; exact ⟨hab, rfl⟩
    · obtain ⟨_, hs⟩ := hs; subst hs; exact ⟨hab, rfl⟩

/-- **An aborted transaction is never delivered.**  Once `Abort` has returned, no delivery attempt
for the message was ever begun, recovery finds nothing to schedule, … -/
theorem C02_aborted_never_delivered (P : Params) (s : St) (h : Reach P s) (hab : s.g.aborted = true) :
    s.g.attempts = [] ∧ s.g.accepted = false ∧ recoverMeta P s.disk = none := by
  have hi := (inv_reach h).disk
  obtain ⟨h1, h2, h3⟩ := hi.abortedClean hab
  exact ⟨h2, h3, by simp [recoverMeta, scanMsg, h1]⟩

/-- … and that stays so whatever happens later (any further crashes and restarts). -/
theorem C02_aborted_never_delivered_later (P : Params) (s s' : St) (h : Reach P s)
    (hab : s.g.aborted = true) (hf : ReachFrom P s s') : s'.g.aborted = true ∧ s'.g.attempts = [] := by
  induction hf with
  | refl => exact ⟨hab, (C02_aborted_never_delivered P s h hab).1⟩
  | step c hf' hs ih =>
    have hr' := reach_trans h hf'
    obtain ⟨h1, h2⟩ := aborted_sticky c (inv_reach hr') ih.1 hs
    exact ⟨h1, by rw [h2]; exact ih.2⟩

/-- **Recovery only delivers to pending recipients of stored metadata**: the recipient list of every
attempt ever begun is the `To` of a snapshot that a completed rename had committed, and those
lists never leave the original recipients. -/
theorem C02_recover_only_pending (P : Params) (s : St) (h : Reach P s) (T : List Addr)
    (hT : T ∈ s.g.attempts) : ∃ m, m ∈ s.g.commits ∧ T = m.to ∧ m.to ⊆ s.g.orig := by
  have hi := (inv_reach h).disk
  obtain ⟨m, hm, rfl⟩ := hi.attFrom T hT
  exact ⟨m, hm, rfl, hi.commitsOrig m hm⟩

/-- While an attempt is in progress, `.meta` holds — completely written and durable — exactly the
metadata the attempt is made with, and header and body are the accepted content, durable. -/
theorem C02_attempt_uses_stored_message (P : Params) (s : St) (h : Reach P s) (m : SMeta)
    (hpc : s.pc = .attempting m) :
    s.disk.metaF = some ⟨P.codec.ser m, []⟩ ∧ s.g.commits.head? = some m ∧
    s.disk.header = some ⟨s.g.hdr, []⟩ ∧ s.disk.body = some ⟨s.g.body, []⟩ := by
  have hp := (inv_reach h).pc
  simp only [PcInv, hpc] at hp
  exact ⟨hp.2.1, hp.1, hp.2.2.1, hp.2.2.2.1⟩

/-- **No re-send after a later attempt.**  The recipient lists of the attempts begun for a message,
over its whole history across any number of crashes, only ever shrink: a recipient that is not in
some attempt is in no later one. -/
theorem C02_no_resend_after_later_attempt (P : Params) (s : St) (h : Reach P s) :
    s.g.attempts.Pairwise (fun newer older => newer ⊆ older) := (inv_reach h).disk.chainA

/-- The mechanism behind it: whenever a (re)try is scheduled, the metadata it will be made with is
already in `.meta`, completely written and durable. -/
theorem C02_metadata_durable_before_next_attempt (P : Params) (s : St) (h : Reach P s)
    (mem : Option SMeta) (hpc : s.pc = .sched mem) (hq : s.g.quarantined = false) :
    ∃ m, s.disk.metaF = some ⟨P.codec.ser m, []⟩ ∧ s.g.commits.head? = some m ∧
      (∀ m', mem = some m' → m' = m) := by
  have hi := inv_reach h
  have hp := hi.pc
  cases mem with
  | none =>
    simp only [PcInv, hpc] at hp
    cases hmf : s.disk.metaF with
    | none => simp [hmf] at hp
    | some f =>
      obtain ⟨m, hm, rfl⟩ := hi.disk.metaOk f hmf
      exact ⟨m, rfl, hm, by intro m' h'; cases h'⟩
  | some m0 =>
    simp only [PcInv, hpc] at hp
    obtain ⟨hhead, hacc, hrm, _, _⟩ := hp
    have hms := hi.disk.accMeta hacc hrm hq
    cases hmf : s.disk.metaF with
    | none => simp [hmf] at hms
    | some f =>
      obtain ⟨m, hm, rfl⟩ := hi.disk.metaOk f hmf
      rw [hhead] at hm; cases hm
      exact ⟨m0, rfl, hhead, by intro m' h'; cases h'; rfl⟩

/-- Torn-write safety of the metadata: `.meta` never holds anything but a complete, fsynced
serialisation of a committed snapshot — in every reachable state, so after every crash. -/
theorem C02_meta_never_torn (P : Params) (s : St) (h : Reach P s) (f : File)
    (hf : s.disk.metaF = some f) : f.pending = [] ∧ ∃ m, m ∈ s.g.commits ∧ f.durable = P.codec.ser m := by
  obtain ⟨m, hm, rfl⟩ := (inv_reach h).disk.metaOk f hf
  refine ⟨rfl, m, ?_, rfl⟩
  cases hc : s.g.commits with
  | nil => simp [hc] at hm
  | cons a t => simp [hc] at hm; simp [hm]

/-! ## which terminal outcome: delivered, reported, or (null reverse-path only) given up without a report -/

/-- The metadata a program point carries in memory. -/
def pcMeta : Pc → Option SMeta
  | .store m _ _ _ => some m
  | .stored m => some m
  | .sched (some m) => some m
  | .attempting m => some m
  | .update m _ => some m
  | _ => none

structure AcctInv (s : St) : Prop where
  commitsFrom : ∀ m, m ∈ s.g.commits → m.nullFrom = s.g.nullFrom
  pcFrom : ∀ m, pcMeta s.pc = some m → m.nullFrom = s.g.nullFrom
  split : ∀ r, r ∈ s.g.term → r ∈ s.g.dlv ∨ r ∈ s.g.reported ∨ r ∈ s.g.gaveUp
  noSilent : s.g.nullFrom = false → s.g.gaveUp = []
  noReport : s.g.nullFrom = true → s.g.reported = []

theorem acct_same {s s' : St} (ha : AcctInv s)
    (hc : ∀ m, m ∈ s'.g.commits → m ∈ s.g.commits ∨ pcMeta s.pc = some m)
    (hp : ∀ m, pcMeta s'.pc = some m → pcMeta s.pc = some m ∨ m ∈ s.g.commits)
    (hn : s'.g.nullFrom = s.g.nullFrom) (ht : s'.g.term = s.g.term) (hd : s'.g.dlv = s.g.dlv)
    (hr : s'.g.reported = s.g.reported) (hg : s'.g.gaveUp = s.g.gaveUp) : AcctInv s' := by
  constructor
  · intro m hm; rw [hn]
    rcases hc m hm with h | h
    · exact ha.commitsFrom m h
    · exact ha.pcFrom m h
  · intro m hm; rw [hn]
    rcases hp m hm with h | h
    · exact ha.pcFrom m h
    · exact ha.commitsFrom m h
  · rw [ht, hd, hr, hg]; exact ha.split
  · rw [hn, hg]; exact ha.noSilent
  · rw [hn, hr]; exact ha.noReport

theorem acct_keep {s s' : St} (ha : AcctInv s) (hc : s'.g.commits = s.g.commits)
    (hp : pcMeta s'.pc = none ∨ pcMeta s'.pc = pcMeta s.pc)
    (hn : s'.g.nullFrom = s.g.nullFrom) (ht : s'.g.term = s.g.term) (hd : s'.g.dlv = s.g.dlv)
    (hr : s'.g.reported = s.g.reported) (hg : s'.g.gaveUp = s.g.gaveUp) : AcctInv s' := by
  apply acct_same ha _ _ hn ht hd hr hg
  · intro m hm; rw [hc] at hm; exact .inl hm
  · intro m hm
    rcases hp with h | h
    · rw [h] at hm; cases hm
    · rw [h] at hm; exact .inl hm

theorem acct_op {P : Params} {s s' : St} (ha : AcctInv s) (hs : step? P s .op = some s') : AcctInv s' := by
  cases hpc : s.pc with
  | store m h b i =>
    simp only [step?, hpc] at hs
    split at hs
    · cases hs
      apply acct_same ha
      · intro m' hm'
        dsimp only at hm'
        split at hm'
        · simp at hm'
          rcases hm' with rfl | h
          · exact .inr (by simp [pcMeta, hpc])
          · exact .inl h
        · exact .inl hm'
      · intro m' hm'
        dsimp only at hm'
        left
        split at hm' <;> simp [pcMeta] at hm' <;> simp [pcMeta, hpc, hm']
      all_goals (dsimp only; split <;> rfl)
    · cases hs
  | abortRm i =>
    simp only [step?, hpc] at hs
    split at hs
    · split at hs <;> cases hs <;> apply acct_keep ha <;> simp [pcMeta]
    · cases hs
  | update m i =>
    simp only [step?, hpc] at hs
    split at hs
    · cases hs
      apply acct_same ha
      · intro m' hm'
        dsimp only at hm'
        split at hm'
        · simp at hm'
          rcases hm' with rfl | h
          · exact .inr (by simp [pcMeta, hpc])
          · exact .inl h
        · exact .inl hm'
      · intro m' hm'
        dsimp only at hm'
        left
        split at hm' <;> simp [pcMeta] at hm' <;> simp [pcMeta, hpc, hm']
      all_goals (dsimp only; split <;> rfl)
    · cases hs
  | remove i =>
    simp only [step?, hpc] at hs
    split at hs
    · cases hs
      apply acct_keep ha <;> try rfl
      left; dsimp only; split <;> rfl
    · cases hs
  | clean ops =>
    cases ops with
    | nil => simp [step?, hpc] at hs
    | cons o rest =>
      simp only [step?, hpc] at hs
      cases hs
      apply acct_keep ha <;> try rfl
      left; dsimp only; split <;> rfl
  | quarantine =>
    simp only [step?, hpc] at hs
    cases hs
    apply acct_keep ha <;> try rfl
    left; rfl
  | fresh => simp [step?, hpc] at hs
  | stored m => simp [step?, hpc] at hs
  | sched mem => simp [step?, hpc] at hs
  | attempting m => simp [step?, hpc] at hs
  | fin => simp [step?, hpc] at hs
  | down => simp [step?, hpc] at hs

theorem acct_accept {P : Params} {s s' : St} {rcpts : List Addr} {h b : Bytes} {nf : Bool}
    (hi : Inv P s) (hs : step? P s (.accept rcpts h b nf) = some s') : AcctInv s' := by
  cases hpc : s.pc <;> simp [step?, hpc] at hs
  obtain ⟨_, rfl⟩ := hs
  have hp := hi.pc
  simp [PcInv, hpc] at hp
  obtain ⟨_, hg⟩ := hp
  constructor <;> simp [hg, pcMeta]

theorem acct_dispatch {P : Params} {s s' : St} (hi : Inv P s) (ha : AcctInv s)
    (hs : step? P s .dispatch = some s') : AcctInv s' := by
  cases hpc : s.pc <;> simp [step?, hpc] at hs
  rename_i mem
  cases mem with
  | some m =>
    simp at hs; subst hs
    apply acct_keep ha <;> try rfl
    right; simp [pcMeta, hpc]
  | none =>
    simp only at hs
    cases ho : openMsg P s.disk with
    | ok m =>
      simp [ho] at hs; subst hs
      have h1 := (openMsg_ok hi.disk ho).1
      have hmem : m ∈ s.g.commits := by
        cases hc : s.g.commits with
        | nil => simp [hc] at h1
        | cons a t => simp [hc] at h1; simp [h1]
      apply acct_same ha <;> try rfl
      · intro m' hm'; exact .inl hm'
      · intro m' hm'; simp [pcMeta] at hm'; subst hm'; exact .inr hmem
    | clean ops =>
      simp [ho] at hs; subst hs
      apply acct_keep ha <;> try rfl
      left; rfl
    | fail =>
      simp [ho] at hs; subst hs
      apply acct_keep ha <;> try rfl
      left; rfl

theorem acct_outcome {P : Params} {s s' : St} {e : Errs} (ha : AcctInv s)
    (hs : step? P s (.outcome e) = some s') : AcctInv s' := by
  cases hpc : s.pc <;> simp only [step?, hpc] at hs <;> try cases hs
  rename_i m
  have hm : m.nullFrom = s.g.nullFrom := ha.pcFrom m (by simp [pcMeta, hpc])
  have key : AcctInv { s with pc := .fin, g := { s.g with
      term := s.g.term ++ delivered m e ++ (attemptResult P m e).failedR
      dlv := s.g.dlv ++ delivered m e
      reported := s.g.reported ++ reportedNow m (attemptResult P m e)
      gaveUp := s.g.gaveUp ++ gaveUpNow m (attemptResult P m e) } } := by
    constructor
    · exact ha.commitsFrom
    · intro m' hm'; simp [pcMeta] at hm'
    · intro r hr
      simp only [List.mem_append] at hr ⊢
      rcases hr with (hr | hr) | hr
      · rcases ha.split r hr with h | h | h
        · exact .inl (.inl h)
        · exact .inr (.inl (.inl h))
        · exact .inr (.inr (.inl h))
      · exact .inl (.inr hr)
      · cases hnf : m.nullFrom with
        | true => exact .inr (.inr (.inr (by simp [gaveUpNow, hnf, hr])))
        | false => exact .inr (.inl (.inr (by simp [reportedNow, hnf, hr])))
    · intro hn
      have : m.nullFrom = false := by rw [hm]; exact hn
      simp [gaveUpNow, this, ha.noSilent hn]
    · intro hn
      have : m.nullFrom = true := by rw [hm]; exact hn
      simp [reportedNow, this, ha.noReport hn]
  split at hs <;> cases hs
  · exact ⟨key.commitsFrom, by intro m' hm'; simp [pcMeta] at hm', key.split, key.noSilent, key.noReport⟩
  · refine ⟨key.commitsFrom, ?_, key.split, key.noSilent, key.noReport⟩
    intro m' hm'
    simp [pcMeta] at hm'; subst hm'
    simpa [nextMeta] using hm

theorem acct_restart {P : Params} {s s' : St} (ha : AcctInv s) (hs : step? P s .restart = some s') : AcctInv s' := by
  cases hpc : s.pc <;> simp [step?, hpc] at hs
  cases ho : scanMsg P.codec s.disk <;> simp [ho] at hs <;> subst hs <;> apply acct_keep ha <;> (try rfl) <;> (left; rfl)

theorem acct_tornCrash {P : Params} {s s' : St} {n : Nat} {keep : FKind → Nat} (ha : AcctInv s)
    (hs : step? P s (.tornCrash n keep) = some s') : AcctInv s' := by
  simp only [step?] at hs
  split at hs
  · cases hs; apply acct_keep ha <;> (try rfl); left; rfl
  · cases hs

/-- Every step preserves the accounting invariant. -/
theorem acct_step {P : Params} {s s' : St} (c : Choice) (hi : Inv P s) (ha : AcctInv s)
    (hs : step? P s c = some s') : AcctInv s' := by
  cases c with
  | accept r h b nf => exact acct_accept hi hs
  | op => exact acct_op ha hs
  | commit =>
    cases hpc : s.pc <;> simp [step?, hpc] at hs
    subst hs; apply acct_keep ha <;> (try rfl); right; simp [pcMeta, hpc]
  | abort =>
    cases hpc : s.pc <;> simp [step?, hpc] at hs
    subst hs; apply acct_keep ha <;> (try rfl); left; rfl
  | dispatch => exact acct_dispatch hi ha hs
  | outcome e => exact acct_outcome ha hs
  | panic =>
    cases hpc : s.pc <;> simp [step?, hpc] at hs
    subst hs; apply acct_keep ha <;> (try rfl); left; rfl
  | crash keep =>
    simp [step?] at hs; subst hs; apply acct_keep ha <;> (try rfl); left; rfl
  | tornCrash n keep => exact acct_tornCrash ha hs
  | restart => exact acct_restart ha hs
  | scanFault w =>
    have h := (step_scanFault hs).2.2; subst h; apply acct_keep ha <;> (try rfl); left; rfl
  | openFault w =>
    have h := (step_openFault hs).2.2; subst h; apply acct_keep ha <;> (try rfl); left; rfl
  | commitStopped =>
    cases hpc : s.pc <;> simp [step?, hpc] at hs
    subst hs; apply acct_keep ha <;> (try rfl); left; rfl

theorem acct_reach {P : Params} {s : St} (h : Reach P s) : AcctInv s := by
  induction h with
  | init => constructor <;> simp [pcMeta]
  | step c hr hs ih => exact acct_step c (inv_reach hr) ih hs

/-- **Which outcome.**  A recipient counted as having its terminal outcome was delivered by the target,
or was named in a failure report handed to the bounce pipeline, or — only when the accepted
transaction had the null reverse-path, for which `emitDSN` produces nothing — was given up on after a
permanent failure / the last allowed attempt. -/
theorem C02_terminal_outcome (P : Params) (s : St) (h : Reach P s) (r : Addr) (hr : r ∈ s.g.term) :
    r ∈ s.g.dlv ∨ r ∈ s.g.reported ∨ (s.g.nullFrom = true ∧ r ∈ s.g.gaveUp) := by
  have ha := acct_reach h
  rcases ha.split r hr with h1 | h1 | h1
  · exact .inl h1
  · exact .inr (.inl h1)
  · refine .inr (.inr ⟨?_, h1⟩)
    cases hn : s.g.nullFrom with
    | true => rfl
    | false => rw [ha.noSilent hn] at h1; cases h1

/-- The property as stated, sender included: accepted, not quarantined ⇒ every original recipient was
delivered, or reported as failed, or is a recipient of the metadata recovery makes its next attempt
with, or (null reverse-path only: there is nobody to report to) was given up on. -/
theorem C02_accepted_survives_outcomes (P : Params) (s : St) (h : Reach P s)
    (hacc : s.g.accepted = true) (hq : s.g.quarantined = false) (r : Addr) (hr : r ∈ s.g.orig) :
    r ∈ s.g.dlv ∨ r ∈ s.g.reported ∨ (∃ m, recoverMeta P s.disk = some m ∧ r ∈ m.to) ∨
      (s.g.nullFrom = true ∧ r ∈ s.g.gaveUp) := by
  rcases C02_accepted_survives P s h hacc hq r hr with h1 | h1
  · rcases C02_terminal_outcome P s h r h1 with h2 | h2 | h2
    · exact .inl h2
    · exact .inr (.inl h2)
    · exact .inr (.inr (.inr h2))
  · exact .inr (.inr (.inl h1))

/-- With an ordinary reverse-path nobody is ever given up on silently; with the null one no report is made. -/
theorem C02_report_iff_sender (P : Params) (s : St) (h : Reach P s) :
    (s.g.nullFrom = false → s.g.gaveUp = []) ∧ (s.g.nullFrom = true → s.g.reported = []) :=
  ⟨(acct_reach h).noSilent, (acct_reach h).noReport⟩

/-- The stored reverse-path survives every rewrite of the metadata and every recovery: each committed
snapshot, and the metadata every attempt is made with, carry the sender kind of the accepted transaction
(so recovery schedules a null-sender message exactly like any other: `recoverMeta` does not look at it). -/
theorem C02_sender_preserved (P : Params) (s : St) (h : Reach P s) :
    (∀ m, m ∈ s.g.commits → m.nullFrom = s.g.nullFrom) ∧
    (∀ m, s.pc = .attempting m → m.nullFrom = s.g.nullFrom) := by
  have ha := acct_reach h
  exact ⟨ha.commitsFrom, fun m hm => ha.pcFrom m (by simp [pcMeta, hm])⟩

/-! ## the five on-disk situations and what recovery does with each -/

/-- Recovery makes a delivery attempt only from a `complete` directory state; `absent`,
`staged-no-meta` and `quarantined` states are not even looked at (the scan is keyed on `.meta`),
and from a `removing` state the leftovers are deleted or ignored, never delivered. -/
theorem C02_class_recovery (P : Params) (d : Disk) :
    (∀ m, recoverMeta P d = some m → classOf d = .complete) ∧
    (classOf d = .absent ∨ classOf d = .stagedNoMeta ∨ classOf d = .quarantined →
      scanMsg P.codec d = .skip) ∧
    (classOf d = .removing → scanMsg P.codec d ≠ .sched) := by
  refine ⟨?_, ?_, ?_⟩
  · intro m h
    unfold recoverMeta at h
    have hs : scanMsg P.codec d = .sched := by
      cases hsc : scanMsg P.codec d <;> simp [hsc] at h ⊢
    unfold scanMsg at hs
    cases hm : d.metaF with
    | none => simp [hm] at hs
    | some f =>
      simp only [hm] at hs
      cases hp : P.codec.parse f.content with
      | none => simp [hp] at hs
      | some m0 =>
        simp only [hp] at hs
        cases hh : d.header <;> cases hb : d.body <;> simp [hh, hb] at hs
        simp [classOf, hm, hh, hb]
  · intro h
    unfold classOf at h
    cases hm : d.metaF with
    | none => simp [scanMsg, hm]
    | some f =>
      simp [hm] at h
      split at h <;> simp at h
  · intro h
    unfold classOf at h
    cases hm : d.metaF with
    | none => simp [scanMsg, hm]
    | some f =>
      cases hh : d.header <;> cases hb : d.body <;> simp [hm, hh, hb] at h <;>
        (simp only [scanMsg, hm, hh, hb]; split <;> simp)

/-! ## the three crash modes are instances of `Disk.lose` -/

theorem C02_crash_drop_unsynced (d : Disk) (k : FKind) :
    ((d.lose (fun _ => 0)).get k) = (d.get k).map (fun f => ⟨f.durable, []⟩) := by
  have hf : File.lose 0 = fun f => (⟨f.durable, []⟩ : File) := by funext f; simp [File.lose]
  cases k <;> simp [Disk.lose, Disk.get, hf]

theorem lose_file_full (n : Nat) (f : File) (h : f.pending.length ≤ n) :
    File.lose n f = ⟨f.content, []⟩ := by
  simp [File.lose, File.content, List.take_of_length_le h]

theorem optmap_lose (n : Nat) (o : Option File) (h : ∀ f, o = some f → f.pending.length ≤ n) :
    o.map (File.lose n) = o.map (fun f => ⟨f.content, []⟩) := by
  cases o with
  | none => rfl
  | some f => simp [lose_file_full n f (h f rfl)]

theorem C02_crash_between_ops (d : Disk) (keep : FKind → Nat) (k : FKind)
    (hk : ∀ f, d.get k = some f → f.pending.length ≤ keep k) :
    ((d.lose keep).get k) = (d.get k).map (fun f => ⟨f.content, []⟩) := by
  cases k <;> exact optmap_lose _ _ hk

/-! ## ids are independent -/

/-- Frame lemma: an operation on the files of one id leaves the files of every other id alone. -/
theorem C02_frame (dir : Dir) (id j : Nat) (o : Op) (hne : j ≠ id) : (dir.apply id o) j = dir j := by
  simp [Dir.apply, hne]

/-- The whole queue: one transition system per message id; a crash stops all of them at once
(each with its own loss of un-synced data, at most — but not necessarily only — one torn write). -/
inductive SysReach (P : Params) : (Nat → St) → Prop
  | init : SysReach P (fun _ => {})
  | step {σ : Nat → St} (id : Nat) (c : Choice) (t : St) :
      SysReach P σ → c.isCrash = false → step? P (σ id) c = some t →
      SysReach P (fun j => if j = id then t else σ j)
  | crash {σ σ' : Nat → St} (cs : Nat → Choice) :
      SysReach P σ → (∀ id, (cs id).isCrash = true) → (∀ id, step? P (σ id) (cs id) = some (σ' id)) →
      SysReach P σ'

theorem C02_system (P : Params) (σ : Nat → St) (h : SysReach P σ) (id : Nat) : Reach P (σ id) := by
  induction h generalizing id with
  | init => exact Reach.init
  | step i c t _ _ hs ih =>
    by_cases hj : id = i
    · subst hj; simp; exact Reach.step c (ih id) hs
    · simp [hj]; exact ih id
  | crash cs _ _ hs ih => exact Reach.step (cs id) (ih id) (hs id)

/-- The property for the whole queue (any number of messages, all stopped by the same crashes):
every accepted, not quarantined message of the spool survives. -/
theorem C02_system_accepted_survives (P : Params) (σ : Nat → St) (h : SysReach P σ) (id : Nat)
    (hacc : (σ id).g.accepted = true) (hq : (σ id).g.quarantined = false) (r : Addr)
    (hr : r ∈ (σ id).g.orig) :
    r ∈ (σ id).g.term ∨ ∃ m, recoverMeta P (σ id).disk = some m ∧ r ∈ m.to :=
  C02_accepted_survives P (σ id) (C02_system P σ h id) hacc hq r hr

/-! ## header-only messages: the zero-length body -/

/-- A zero-length write changes nothing.  `io.Copy` makes no `Write` call at all for an empty body; the
model keeps `write .body []` in `storeOps`, which by this lemma is a stutter step (the driver takes it
silently, op lines count real calls).  `Choice.accept` puts no condition on the body, so every theorem
of this file holds for header-only messages as it stands. -/
theorem applyOp_write_nil (d : Disk) (k : FKind) : applyOp d (.write k []) = d := by
  cases d; cases k <;> simp [applyOp, Disk.get, Disk.set] <;> split <;> simp_all

theorem C02_empty_write_stutter (P : Params) (s s' : St) (m : SMeta) (h : Bytes)
    (hpc : s.pc = .store m h [] 3) (hs : step? P s .op = some s') :
    s'.disk = s.disk ∧ s'.g = s.g ∧ s'.pc = .store m h [] 4 := by
  simp [step?, hpc, storeOps, updateOps] at hs
  subst hs
  simp [applyOp_write_nil]

/-- **An empty body file is not a missing one.**  While an accepted header-only message is neither
finished nor quarantined, its body file exists (empty, durable) and recovery — `readDiskQueue`, then
`openMessage` — yields the newest committed metadata: the message is attempted, not cleaned up. -/
theorem C02_empty_body_recovered (P : Params) (s : St) (h : Reach P s) (hacc : s.g.accepted = true)
    (hq : s.g.quarantined = false) (hrem : s.g.removing = false) (hb : s.g.body = []) :
    s.disk.body = some ⟨[], []⟩ ∧ ∃ m, s.g.commits.head? = some m ∧ recoverMeta P s.disk = some m := by
  have hi := (inv_reach h).disk
  have hm := hi.accMeta hacc hrem hq
  refine ⟨?_, recoverMeta_of_inv hi hm hrem⟩
  obtain ⟨_, hbody⟩ := hi.present hm hrem
  cases hbd : s.disk.body with
  | none => simp [hbd] at hbody
  | some fb => rw [hi.contentB hm fb hbd, hb]

/-! ## a backlog larger than `max_parallelism`

`dispatch` starts one goroutine per due slot; the goroutine takes one of `max_parallelism` delivery
slots (`deliverySemaphore`) before it opens the message, and gives it back when the attempt is over
(after `removeFromDisk`, or after `updateMetadataOnDisk` and the `wheel.Add` of the retry).  The
system below is `SysReach` with that bound: a `dispatch` step needs a free slot.  Nothing else couples
the ids, so (1) the bounded system is a sub-system of the free one and every theorem carries over,
(2) whoever holds a slot can always go on by its own steps and gives the slot back after at most five
of them, whatever the other ids do — a waiting slot is never starved by a holder that waits for it. -/

/-- The program points at which the delivery goroutine of the id holds a delivery slot. -/
def _root_.MaddyVerif.SpoolFS.Pc.holdsSlot : Pc → Bool
  | .attempting _ => true
  | .update _ _ => true
  | .remove _ => true
  | _ => false

/-- Number of ids of `ids` that hold a delivery slot. -/
def busy (σ : Nat → St) (ids : List Nat) : Nat := ids.countP (fun i => (σ i).pc.holdsSlot)

def _root_.MaddyVerif.SpoolFS.Choice.isDispatch : Choice → Bool
  | .dispatch => true
  | _ => false

/-- The queue with `max_parallelism = par` over the message ids `ids`. -/
inductive SysReachPar (P : Params) (par : Nat) (ids : List Nat) : (Nat → St) → Prop
  | init : SysReachPar P par ids (fun _ => {})
  | step {σ : Nat → St} (id : Nat) (c : Choice) (t : St) :
      SysReachPar P par ids σ → id ∈ ids → c.isCrash = false → step? P (σ id) c = some t →
      (c.isDispatch = true → busy σ ids < par) →
      SysReachPar P par ids (fun j => if j = id then t else σ j)
  | crash {σ σ' : Nat → St} (cs : Nat → Choice) :
      SysReachPar P par ids σ → (∀ id, (cs id).isCrash = true) → (∀ id, step? P (σ id) (cs id) = some (σ' id)) →
      SysReachPar P par ids σ'

theorem sysPar_sub {P : Params} {par : Nat} {ids : List Nat} {σ : Nat → St}
    (h : SysReachPar P par ids σ) : SysReach P σ := by
  induction h with
  | init => exact SysReach.init
  | step id c t _ _ hc hs _ ih => exact SysReach.step id c t ih hc hs
  | crash cs _ hc hs ih => exact SysReach.crash cs ih hc hs

/-- The property for a spool of any size under any `max_parallelism`: accepted, not quarantined mail
survives every crash (all the per-id theorems apply through `C02_system`). -/
theorem C02_backlog_accepted_survives (P : Params) (par : Nat) (ids : List Nat) (σ : Nat → St)
    (h : SysReachPar P par ids σ) (id : Nat)
    (hacc : (σ id).g.accepted = true) (hq : (σ id).g.quarantined = false) (r : Addr)
    (hr : r ∈ (σ id).g.orig) :
    r ∈ (σ id).g.term ∨ ∃ m, recoverMeta P (σ id).disk = some m ∧ r ∈ m.to :=
  C02_system_accepted_survives P σ (sysPar_sub h) id hacc hq r hr

/-- After a restart every complete stored message of the backlog waits for a slot with the metadata
recovery computed, however many there are. -/
theorem C02_backlog_all_scheduled (P : Params) (s : St) (m : SMeta) (hpc : s.pc = .down)
    (hrec : recoverMeta P s.disk = some m) :
    ∃ s1, step? P s .restart = some s1 ∧ s1.pc = .sched none ∧ s1.disk = s.disk := by
  unfold recoverMeta at hrec
  cases hsc : scanMsg P.codec s.disk with
  | skip => simp [hsc] at hrec
  | clean ops => simp [hsc] at hrec
  | sched => exact ⟨{ s with pc := .sched none }, by simp [step?, hpc, hsc], rfl, rfl⟩

/-- Own steps a slot holder still has to make before the slot is free again (at most). -/
def slotFuel : Pc → Nat
  | .attempting _ => 5
  | .update _ i => 4 - i
  | .remove i => 3 - i
  | _ => 0

/-- **A slot holder never waits for anybody.**  In every reachable state in which the id holds a
delivery slot it has a step of its own that is enabled — no crash, no dispatch, nothing that another
id or the time wheel has to do first … -/
theorem C02_slot_holder_can_step (P : Params) (s : St) (h : Reach P s) (hh : s.pc.holdsSlot = true) :
    ∃ c t, c.isCrash = false ∧ c.isDispatch = false ∧ step? P s c = some t := by
  have hp := (inv_reach h).pc
  cases hpc : s.pc with
  | attempting m =>
    refine ⟨.outcome (fun _ => none), ?_⟩
    simp only [step?, hpc]
    split <;> exact ⟨_, rfl, rfl, rfl⟩
  | update m i =>
    simp only [PcInv, hpc] at hp
    have hi : i < (updateOps P.codec m).length := by simp [updateOps]; exact hp.1
    refine ⟨.op, ?_⟩
    simp only [step?, hpc, List.getElem?_eq_getElem hi]
    exact ⟨_, rfl, rfl, rfl⟩
  | remove i =>
    simp only [PcInv, hpc] at hp
    have hi : i < removeOps.length := by simp [removeOps]; exact hp.1
    refine ⟨.op, ?_⟩
    simp only [step?, hpc, List.getElem?_eq_getElem hi]
    exact ⟨_, rfl, rfl, rfl⟩
  | _ => simp [hpc, Pc.holdsSlot] at hh

/-- … and every such step either gives the slot back or brings that nearer: after at most five own
steps (the outcome of the attempt, then the three removals or the four calls of the metadata update,
whose last one also puts the retry into the time wheel) the slot is free for the next message. -/
theorem C02_slot_released (P : Params) (s t : St) (c : Choice) (hh : s.pc.holdsSlot = true)
    (hc : c.isCrash = false) (hs : step? P s c = some t) :
    t.pc.holdsSlot = false ∨ slotFuel t.pc < slotFuel s.pc := by
  cases hpc : s.pc with
  | attempting m =>
    cases c <;> simp [step?, hpc, Choice.isCrash] at hs hc
    · rename_i e
      split at hs <;> (cases hs; simp [slotFuel])
    · cases hs; simp [Pc.holdsSlot]
  | update m i =>
    cases c <;> simp [step?, hpc, Choice.isCrash] at hs hc
    split at hs
    · rename_i o ho
      cases hs
      have hi : i < 4 := by
        have := (List.getElem?_eq_some_iff.mp ho).1
        simpa [updateOps] using this
      simp only []
      split
      · simp [Pc.holdsSlot]
      · right; simp [slotFuel]; omega
    · cases hs
  | remove i =>
    cases c <;> simp [step?, hpc, Choice.isCrash] at hs hc
    split at hs
    · rename_i o ho
      cases hs
      have hi : i < 3 := by
        have := (List.getElem?_eq_some_iff.mp ho).1
        simpa [removeOps] using this
      simp only []
      split
      · simp [Pc.holdsSlot]
      · right; simp [slotFuel]; omega
    · cases hs
  | _ => simp [hpc, Pc.holdsSlot] at hh

/-- Only `dispatch` makes a slot holder: no other step of an id takes a delivery slot. -/
theorem C02_only_dispatch_takes_slot (P : Params) (s t : St) (c : Choice) (hs : step? P s c = some t)
    (hd : c.isDispatch = false) (ht : t.pc.holdsSlot = true) : s.pc.holdsSlot = true := by
  cases c with
  | dispatch => simp [Choice.isDispatch] at hd
  | accept r h b nf =>
    simp only [step?] at hs
    split at hs
    · split at hs <;> (cases hs; try simp [Pc.holdsSlot] at ht)
    · cases hs
  | op =>
    cases hpc : s.pc with
    | store m h b i =>
      simp only [step?, hpc] at hs
      split at hs
      · cases hs; dsimp only at ht; split at ht <;> simp [Pc.holdsSlot] at ht
      · cases hs
    | abortRm i =>
      simp only [step?, hpc] at hs
      split at hs
      · split at hs <;> (cases hs; simp [Pc.holdsSlot] at ht)
      · cases hs
    | update m i => simp [Pc.holdsSlot]
    | remove i => simp [Pc.holdsSlot]
    | clean ops =>
      cases ops with
      | nil => simp [step?, hpc] at hs
      | cons o rest =>
        simp only [step?, hpc] at hs
        cases hs; dsimp only at ht; split at ht <;> simp [Pc.holdsSlot] at ht
    | quarantine => simp only [step?, hpc] at hs; cases hs; simp [Pc.holdsSlot] at ht
    | fresh => simp [step?, hpc] at hs
    | stored m => simp [step?, hpc] at hs
    | sched mem => simp [step?, hpc] at hs
    | attempting m => simp [Pc.holdsSlot]
    | fin => simp [step?, hpc] at hs
    | down => simp [step?, hpc] at hs
  | commit => cases hpc : s.pc <;> simp [step?, hpc] at hs; cases hs; simp [Pc.holdsSlot] at ht
  | abort => cases hpc : s.pc <;> simp [step?, hpc] at hs; cases hs; simp [Pc.holdsSlot] at ht
  | outcome e => cases hpc : s.pc <;> simp [step?, hpc] at hs; simp [Pc.holdsSlot]
  | panic => cases hpc : s.pc <;> simp [step?, hpc] at hs; simp [Pc.holdsSlot]
  | crash keep => simp [step?] at hs; cases hs; simp [Pc.holdsSlot] at ht
  | tornCrash n keep =>
    simp only [step?] at hs
    split at hs
    · cases hs; simp [Pc.holdsSlot] at ht
    · cases hs
  | restart =>
    cases hpc : s.pc <;> simp [step?, hpc] at hs
    split at hs <;> (cases hs; simp [Pc.holdsSlot] at ht)
  | scanFault w => have h := (step_scanFault hs).2.2; subst h; simp [Pc.holdsSlot] at ht
  | openFault w => have h := (step_openFault hs).2.2; subst h; simp [Pc.holdsSlot] at ht
  | commitStopped => cases hpc : s.pc <;> simp [step?, hpc] at hs; cases hs; simp [Pc.holdsSlot] at ht

theorem busy_cons (σ : Nat → St) (a : Nat) (l : List Nat) :
    busy σ (a :: l) = busy σ l + (if (σ a).pc.holdsSlot = true then 1 else 0) := by
  simp [busy, List.countP_cons]

theorem busy_congr (σ τ : Nat → St) (ids : List Nat) (h : ∀ i, i ∈ ids → (τ i).pc.holdsSlot = (σ i).pc.holdsSlot) :
    busy τ ids = busy σ ids := by
  induction ids with
  | nil => rfl
  | cons a l ih =>
    rw [busy_cons, busy_cons, ih (fun i hi => h i (List.mem_cons_of_mem a hi)), h a (List.mem_cons_self ..)]

theorem busy_update_le_succ (σ : Nat → St) (ids : List Nat) (id : Nat) (t : St) (hn : ids.Nodup) :
    busy (fun j => if j = id then t else σ j) ids ≤ busy σ ids + 1 := by
  induction ids with
  | nil => simp [busy]
  | cons a l ih =>
    have hn' := List.nodup_cons.mp hn
    rw [busy_cons, busy_cons]
    by_cases ha : a = id
    · subst ha
      have hl : busy (fun j => if j = a then t else σ j) l = busy σ l :=
        busy_congr σ _ l (fun i hi => by
          have : i ≠ a := fun e => hn'.1 (e ▸ hi)
          simp [this])
      rw [hl]
      split <;> split <;> omega
    · have := ih hn'.2
      simp only [ha, if_false]
      omega

theorem busy_update_le (σ : Nat → St) (ids : List Nat) (id : Nat) (t : St)
    (h : t.pc.holdsSlot = true → (σ id).pc.holdsSlot = true) :
    busy (fun j => if j = id then t else σ j) ids ≤ busy σ ids := by
  induction ids with
  | nil => simp [busy]
  | cons a l ih =>
    rw [busy_cons, busy_cons]
    by_cases ha : a = id
    · subst ha
      simp only [if_true]
      cases ht : t.pc.holdsSlot
      · simp; omega
      · simp [h ht]; exact ih
    · simp only [ha, if_false]
      omega

theorem crash_pc_down {P : Params} {s t : St} {c : Choice} (hc : c.isCrash = true)
    (hs : step? P s c = some t) : t.pc = .down := by
  cases c <;> simp [Choice.isCrash] at hc
  · simp [step?] at hs; subst hs; rfl
  · simp only [step?] at hs
    split at hs
    · cases hs; rfl
    · cases hs

/-- The bounded system respects the bound: never more than `max_parallelism` ids hold a delivery slot. -/
theorem C02_backlog_bound (P : Params) (par : Nat) (ids : List Nat) (σ : Nat → St)
    (h : SysReachPar P par ids σ) (hn : ids.Nodup) : busy σ ids ≤ par := by
  induction h with
  | init => simp [busy, Pc.holdsSlot, List.countP_eq_zero.mpr]
  | @step σ0 id c t _ _ _ hs hd ih =>
    cases hdc : c.isDispatch with
    | true =>
      have := busy_update_le_succ σ0 ids id t hn
      have := hd hdc
      omega
    | false =>
      have := busy_update_le σ0 ids id t (fun ht => C02_only_dispatch_takes_slot P _ t c hs hdc ht)
      omega
  | @crash σ0 σ1 cs _ hc hs _ =>
    have : busy σ1 ids = 0 := by
      unfold busy
      rw [List.countP_eq_zero]
      intro i _
      simp [crash_pc_down (hc i) (hs i), Pc.holdsSlot]
    omega

/-! ## T1: the model's operation lists are the call skeleton of the current source -/

section T1
open MaddyVerif.Generated.SpoolSkel (Call)

/-- The regenerated skeleton of every spool procedure is the one the model was written from. -/
theorem C02_T1_skeleton_unchanged :
    Generated.SpoolSkel.storeNewMessage = Expect.SpoolSkel.storeNewMessage ∧
    Generated.SpoolSkel.updateMetadataOnDisk = Expect.SpoolSkel.updateMetadataOnDisk ∧
    Generated.SpoolSkel.removeFromDisk = Expect.SpoolSkel.removeFromDisk ∧
    Generated.SpoolSkel.readDiskQueue = Expect.SpoolSkel.readDiskQueue ∧
    Generated.SpoolSkel.openMessage = Expect.SpoolSkel.openMessage ∧
    Generated.SpoolSkel.readMessageMeta = Expect.SpoolSkel.readMessageMeta ∧
    Generated.SpoolSkel.tryRemoveDanglingFile = Expect.SpoolSkel.tryRemoveDanglingFile ∧
    Generated.SpoolSkel.discardBroken = Expect.SpoolSkel.discardBroken ∧
    Generated.SpoolSkel.Queue_tryDelivery = Expect.SpoolSkel.Queue_tryDelivery ∧
    Generated.SpoolSkel.queueDelivery_Body = Expect.SpoolSkel.queueDelivery_Body ∧
    Generated.SpoolSkel.queueDelivery_Abort = Expect.SpoolSkel.queueDelivery_Abort ∧
    Generated.SpoolSkel.queueDelivery_Commit = Expect.SpoolSkel.queueDelivery_Commit := by decide

/-- The control flow the transition system is built on: `Body` = `storeNewMessage`; `Commit` only
hands the slot to the time wheel; `Abort` = `removeFromDisk`; `tryDelivery` = deliver, report,
then EITHER `removeFromDisk` OR `updateMetadataOnDisk` FOLLOWED BY the time-wheel insertion
(metadata of attempt k is on disk before attempt k+1 is scheduled). -/
theorem C02_T1_control_flow :
    Generated.SpoolSkel.queueDelivery_Body.map (·.kind) = ["Call:storeNewMessage"] ∧
    Generated.SpoolSkel.queueDelivery_Commit.map (·.kind) = ["WheelAdd"] ∧
    Generated.SpoolSkel.queueDelivery_Abort.map (·.kind) = ["Call:removeFromDisk"] ∧
    Generated.SpoolSkel.Queue_tryDelivery.map (·.kind) =
      ["Call:deliver", "Call:emitDSN", "Call:removeFromDisk", "Call:updateMetadataOnDisk", "WheelAdd"] := by
  decide

/-- An operation with its bytes erased. -/
inductive Shape
  | create (k : FKind) | write (k : FKind) | fsync (k : FKind) | rename (a b : FKind) | remove (k : FKind)
deriving DecidableEq, Repr

def shape : Op → Shape
  | .create k => .create k
  | .write k _ => .write k
  | .fsync k => .fsync k
  | .rename a b => .rename a b
  | .remove k => .remove k

def kindOfSuffix (s : String) : Option FKind :=
  if s = ".header" then some .header
  else if s = ".body" then some .body
  else if s = ".meta" then some .metaF
  else if s = ".meta.new" then some .metaNew
  else if s = ".meta_broken" then some .broken
  else none

/-- The mutating calls of a skeleton entry (reads and procedure calls give nothing). -/
def callShape (c : Call) : Option Shape :=
  if c.kind = "Create" then (kindOfSuffix c.arg).map .create
  else if c.kind = "Write" then (kindOfSuffix c.arg).map .write
  else if c.kind = "Sync" then (kindOfSuffix c.arg).map .fsync
  else if c.kind = "Remove" then (kindOfSuffix c.arg).map .remove
  else if c.kind = "Call:tryRemoveDanglingFile" then (kindOfSuffix c.arg).map .remove
  else if c.kind = "Rename" then
    if c.arg = ".meta.new>.meta" then some (.rename .metaNew .metaF)
    else if c.arg = ".meta>.meta_broken" then some (.rename .metaF .broken)
    else none
  else none

/-- Main path (neither an error branch nor the Windows branch) with `updateMetadataOnDisk` inlined. -/
def mainPath (l : List Call) : List Shape :=
  (l.filter (fun c => !c.err && !c.win)).flatMap (fun c =>
    if c.kind = "Call:updateMetadataOnDisk" then
      (Generated.SpoolSkel.updateMetadataOnDisk.filter (fun c => !c.err && !c.win)).filterMap callShape
    else (callShape c).toList)

theorem C02_T1_storeOps (c : Codec) (m : SMeta) (h b : Bytes) :
    (storeOps c m h b).map shape = mainPath Generated.SpoolSkel.storeNewMessage := by
  simp only [storeOps, updateOps, List.map, List.cons_append, List.nil_append, shape]
  decide

theorem C02_T1_updateOps (c : Codec) (m : SMeta) :
    (updateOps c m).map shape = mainPath Generated.SpoolSkel.updateMetadataOnDisk := by
  simp only [updateOps, List.map, shape]
  decide

theorem C02_T1_removeOps : removeOps.map shape = mainPath Generated.SpoolSkel.removeFromDisk := by decide

theorem C02_T1_quarantine :
    [shape (.rename .metaF .broken)] = mainPath Generated.SpoolSkel.discardBroken := by decide

/-- The dangling-file removals that follow the first entry `(kind, arg)` in its clean-up branch. -/
def cleanupAfter (kind arg : String) : List Call → List Shape
  | [] => []
  | c :: rest =>
    if c.kind = kind ∧ c.arg = arg then
      (rest.takeWhile (fun c => c.err)).filterMap callShape
    else cleanupAfter kind arg rest

/-- `readDiskQueue`: `.meta` is read, then the header is stat'ed, then the body, then the slot is
scheduled; the clean-up lists of the model are the ones of the source. -/
theorem C02_T1_scan (c : Codec) (d : Disk) (ops : List Op) (h : scanMsg c d = .clean ops) :
    (Generated.SpoolSkel.readDiskQueue.filter (fun c => !c.err)).map (fun c => (c.kind, c.arg)) =
      [("ReadDir", ""), ("Call:readMessageMeta", ""), ("Stat", ".header"), ("Stat", ".body"), ("WheelAdd", "")] ∧
    (ops.map shape = cleanupAfter "Stat" ".header" Generated.SpoolSkel.readDiskQueue ∨
     ops.map shape = cleanupAfter "Stat" ".body" Generated.SpoolSkel.readDiskQueue) := by
  refine ⟨by decide, ?_⟩
  unfold scanMsg at h
  split at h
  · cases h
  · split at h
    · cases h
    · split at h
      · cases h; left; decide
      · split at h
        · cases h; right; decide
        · cases h

/-- `openMessage`: `.meta`, then the body is stat'ed, then the header opened and parsed. -/
theorem C02_T1_open (P : Params) (d : Disk) (ops : List Op) (h : openMsg P d = .clean ops) :
    (Generated.SpoolSkel.openMessage.filter (fun c => !c.err)).map (fun c => (c.kind, c.arg)) =
      [("Call:readMessageMeta", ""), ("Stat", ".body"), ("Open", ".header"), ("Read", ".header")] ∧
    (ops.map shape = cleanupAfter "Stat" ".body" Generated.SpoolSkel.openMessage ∨
     ops.map shape = cleanupAfter "Open" ".header" Generated.SpoolSkel.openMessage) := by
  refine ⟨by decide, ?_⟩
  unfold openMsg at h
  split at h
  · cases h
  · split at h
    · cases h
    · split at h
      · cases h; left; decide
      · split at h
        · cases h; right; decide
        · split at h <;> cases h

end T1

/-! ## the defect that was repaired (kept as a proved counterexample of the old operation order) -/

/-- `storeNewMessage` before the fix: the metadata was committed BEFORE header and body were fsynced. -/
def storeOpsUnfixed (c : Codec) (m : SMeta) (h b : Bytes) : List Op :=
  [.create .header, .write .header h, .create .body, .write .body b]
  ++ updateOps c m ++ [.fsync .header, .fsync .body]

/-- With the old order, a crash right after the rename that drops the un-synced data leaves a
directory from which recovery makes a delivery attempt to recipient 1 — with an empty header and
an empty body.  (Replayed on the real code: `C02 run 1 1 A1,16,7 +8 Xd R D Oo +3` on the tree
without the fix.) -/
theorem C02_unfixed_order_counterexample :
    let P : Params := ⟨1, listCodec, fun _ => true⟩
    let d := (execOps {} ((storeOpsUnfixed listCodec ⟨[1], [], false⟩ [83, 58, 120, 13, 10] [104, 105]).take 8)).lose (fun _ => 0)
    recoverMeta P d = some ⟨[1], [], false⟩ ∧ d.header = some ⟨[], []⟩ ∧ d.body = some ⟨[], []⟩ := by
  decide

/-! ## non-vacuity: concrete runs that satisfy the hypotheses of the theorems above -/

def runChoices (P : Params) : St → List Choice → Option St
  | s, [] => some s
  | s, c :: cs =>
    match step? P s c with
    | some s' => runChoices P s' cs
    | none => none

theorem reach_run {P : Params} {s s' : St} (cs : List Choice) (h : Reach P s)
    (hr : runChoices P s cs = some s') : Reach P s' := by
  induction cs generalizing s with
  | nil => simp [runChoices] at hr; subst hr; exact h
  | cons c t ih =>
    simp only [runChoices] at hr
    split at hr
    · rename_i s1 hs1; exact ih (Reach.step c h hs1) hr
    · cases hr

def P0 : Params := ⟨2, listCodec, fun _ => true⟩

/-- recipient 2 fails temporarily, recipient 1 is delivered -/
def errs2 : Errs := fun r => if r = 2 then some .temp else none

/-- accept for recipients 1, 2; commit; first attempt (1 delivered, 2 to be retried); the process
stops in the middle of writing `.meta.new` and all un-synced data is lost. -/
def demoTorn : List Choice :=
  [.accept [1, 2] [83, 58, 120, 13, 10] [104, 105] false] ++ List.replicate 10 .op ++
  [.commit, .dispatch, .outcome errs2, .op, .tornCrash 2 (fun _ => 0)]

/-- … the metadata update completes, the retry is scheduled, the process stops; restart; the
retry begins; the process stops again inside the recovery run; restart; retry. -/
def demoDeep : List Choice :=
  [.accept [1, 2] [83, 58, 120, 13, 10] [104, 105] false] ++ List.replicate 10 .op ++
  [.commit, .dispatch, .outcome errs2, .op, .op, .op, .op, .crash (fun _ => 0), .restart, .dispatch,
   .outcome errs2, .op, .op, .crash (fun _ => 0), .restart, .dispatch]

/-- accept, then abort; crash; restart -/
def demoAbort : List Choice :=
  [.accept [1] [83, 58, 120, 13, 10] [104, 105] false] ++ List.replicate 10 .op ++
  [.abort, .op, .op, .op, .crash (fun _ => 0), .restart]

def Pc.isDown : Pc → Bool
  | .down => true
  | _ => false

/-- Hypotheses of `C02_accepted_survives` hold in a non-trivial reachable state, and the conclusion
is the interesting disjunct: recipient 1 has its outcome, recipient 2 is recovered from the OLD
metadata (the torn `.meta.new` is ignored). -/
example : (runChoices P0 {} demoTorn).map (fun s =>
    (Pc.isDown s.pc, s.g.accepted, s.g.quarantined, s.g.orig, s.g.term, recoverMeta P0 s.disk, s.disk.metaNew)) =
    some (true, true, false, [1, 2], [1], some ⟨[1, 2], [], false⟩, some ⟨[], []⟩) := by rfl

/-- Depth 2: two crashes, the second inside the recovery run; the attempts only shrink
(`C02_no_resend_after_later_attempt`), the retry counter of the last COMMITTED snapshot survived. -/
example : (runChoices { P0 with maxTries := 3 } {} demoDeep).map (fun s =>
    (s.g.accepted, s.g.term, s.g.attempts, s.g.commits.map (·.to), recoverMeta P0 s.disk)) =
    some (true, [1], [[2], [2], [1, 2]], [[2], [1, 2]], some ⟨[2], [(2, 1)], false⟩) := by rfl

/-- Hypotheses of `C02_aborted_never_delivered`. -/
example : (runChoices P0 {} demoAbort).map (fun s =>
    (s.g.aborted, s.g.accepted, s.g.attempts, recoverMeta P0 s.disk, classOf s.disk)) =
    some (true, false, [], none, Class.absent) := by rfl

/-- Null reverse-path (a bounce relayed through the queue), recipients 1, 2: recipient 2 fails
permanently in the first attempt (no report: `emitDSN` returns for the null sender), recipient 1
temporarily; the process stops after the metadata update; restart. -/
def errsNull : Errs := fun r => if r = 2 then some .perm else some .temp

def demoNull : List Choice :=
  [.accept [1, 2] [83, 58, 120, 13, 10] [104, 105] true] ++ List.replicate 10 .op ++
  [.commit, .dispatch, .outcome errsNull, .op, .op, .op, .op, .crash (fun _ => 0), .restart]

/-- Hypotheses of `C02_accepted_survives_outcomes` / `C02_terminal_outcome` with the null sender: recipient 2
was given up on (nothing reported), recipient 1 is recovered — the message is scheduled like any other. -/
example : (runChoices { P0 with maxTries := 3 } {} demoNull).map (fun s =>
    (s.g.accepted, s.g.nullFrom, s.g.term, s.g.dlv, s.g.reported, s.g.gaveUp, recoverMeta P0 s.disk)) =
    some (true, true, [2], [], [], [2], some ⟨[1], [(1, 1)], true⟩) := by rfl

/-- The same run with an ordinary sender: recipient 2 is reported. -/
example : (runChoices { P0 with maxTries := 3 } {}
      ([.accept [1, 2] [83, 58, 120, 13, 10] [104, 105] false] ++ demoNull.drop 1)).map (fun s =>
    (s.g.term, s.g.dlv, s.g.reported, s.g.gaveUp, recoverMeta P0 s.disk)) =
    some ([2], [], [2], [], some ⟨[1], [(1, 1)], false⟩) := by rfl

/-- A header-only message (zero-length body): accepted, the process stops, restart, the time wheel
fires.  Hypotheses of `C02_empty_body_recovered` hold; the body file exists and is empty; the attempt
is made for both recipients and the id holds a delivery slot (`C02_slot_holder_can_step`). -/
def demoEmpty : List Choice :=
  [.accept [1, 2] [83, 58, 120, 13, 10] [] false] ++ List.replicate 10 .op ++
  [.commit, .crash (fun _ => 0), .restart, .dispatch]

example : (runChoices P0 {} demoEmpty).map (fun s =>
    (s.g.accepted, s.g.quarantined, s.g.removing, s.g.body, s.disk.body, s.pc.holdsSlot, s.g.attempts)) =
    some (true, false, false, [], some ⟨[], []⟩, true, [[1, 2]]) := by rfl

/-- The guard of `SysReachPar` is not vacuous: with that id in its attempt one of the ids 0, 1 holds a
slot, so under `max_parallelism = 1` the other one cannot be dispatched before the slot is given back. -/
example : (runChoices P0 {} demoEmpty).map (fun s => busy (fun j => if j = 0 then s else {}) [0, 1]) = some 1 := by rfl

theorem demoTorn_runs : (runChoices P0 {} demoTorn).isSome = true := by decide

/-- The runs above are `Reach`able states, so the theorems apply to them. -/
example : Reach P0 ((runChoices P0 {} demoTorn).get demoTorn_runs) :=
  reach_run demoTorn Reach.init (Option.some_get _).symm

/-- The codec law is satisfiable. -/
theorem C02_codec_nonvacuous (m : SMeta) : listCodec.parse (listCodec.ser m) = some m := listCodec.rt m


/-! ## round 8: the stages of a delivery attempt (`deliverErrs` = `Queue.deliver`), transient faults of the read-only calls -/

/-- A recipient counts as delivered only if the target's `Commit` succeeded (and `AddRcpt` and the body stage
succeeded for it): the message is effective at the target only then — for a plain target and for one that
implements `PartialDelivery` alike. -/
theorem C02_delivered_only_if_committed (m : SMeta) (sc : Staged) (r : Addr)
    (h : r ∈ delivered m (deliverErrs m.to sc)) :
    sc.commit = none ∧ sc.add r = none ∧ sc.afterBody r = none := by
  simp only [delivered, List.mem_filter, Option.isNone_iff_eq_none] at h
  obtain ⟨hr, he⟩ := h
  have hadd : ∀ (x : Option Cls), x.isSome = false → x = none := by intro x; cases x <;> simp
  unfold deliverErrs at he
  split at he
  · rename_i hemp
    have hm : r ∈ m.to.filter (fun r => (sc.add r).isNone) := by simp [List.mem_filter, hr, he]
    rw [List.isEmpty_iff] at hemp
    rw [hemp] at hm; cases hm
  · split at he
    · rename_i hemp hall
      have hm : r ∈ m.to.filter (fun r => (sc.add r).isNone) := by
        have : sc.add r = none := by
          cases h1 : sc.add r with
          | none => rfl
          | some c => simp [Staged.afterBody, h1] at he
        simp [List.mem_filter, hr, this]
      have := List.all_eq_true.mp hall r hm
      rw [he] at this; cases this
    · cases hc : sc.commit with
      | none =>
        simp only [hc] at he
        refine ⟨rfl, ?_, he⟩
        cases h1 : sc.add r with
        | none => rfl
        | some c => simp [Staged.afterBody, h1] at he
      | some c =>
        simp only [hc] at he
        split at he
        · rename_i h1; cases h2 : sc.add r <;> simp [h2] at h1 he
        · cases he

/-- **A failing `Commit` delivers to nobody**: whatever the earlier stages reported (also the per-recipient
successes of `BodyNonAtomic`), the attempt has no delivered recipient … -/
theorem C02_commit_failure_delivers_nobody (m : SMeta) (sc : Staged) (c : Cls) (hc : sc.commit = some c) :
    delivered m (deliverErrs m.to sc) = [] := by
  apply List.eq_nil_iff_forall_not_mem.mpr
  intro r hr
  have := (C02_delivered_only_if_committed m sc r hr).1
  rw [hc] at this; cases this

/-- … so the attempt step adds nothing to the delivered set, and every recipient of the attempt is reported /
given up on by the classification loop or stays pending in the metadata written next (what the seeded change
C02-12 breaks: the recipients were dropped from the spool without any of the three). -/
theorem C02_commit_failure_keeps_recipients (P : Params) (s s' : St) (m : SMeta) (sc : Staged) (c : Cls)
    (hpc : s.pc = .attempting m) (hc : sc.commit = some c)
    (hs : step? P s (.outcome (deliverErrs m.to sc)) = some s') :
    s'.g.dlv = s.g.dlv ∧
    ∀ r, r ∈ m.to → r ∈ (attemptResult P m (deliverErrs m.to sc)).failedR ∨
                    r ∈ (attemptResult P m (deliverErrs m.to sc)).newR := by
  have hd := C02_commit_failure_delivers_nobody m sc c hc
  constructor
  · simp only [step?, hpc] at hs
    split at hs <;> (cases hs; simp [hd])
  · intro r hr
    rcases attempt_cover P m (deliverErrs m.to sc) r hr with h | h | h
    · rw [hd] at h; cases h
    · exact .inl h
    · exact .inr h

example : delivered ⟨[1, 2], [], false⟩ (deliverErrs [1, 2] ⟨fun _ => none, true, none, fun _ => none, some .temp⟩) = [] := by
  decide
example : delivered ⟨[1, 2], [], false⟩ (deliverErrs [1, 2] ⟨fun _ => none, true, none, fun r => if r = 2 then some .perm else none, none⟩) = [1] := by
  decide

/-- **A transient fault in the start-up scan skips the entry and KEEPS it**: files and history are untouched,
nothing is scheduled in this run of the process. -/
theorem C02_scan_fault_entry_kept (P : Params) (s s1 : St) (w : FaultAt)
    (hs : step? P s (.scanFault w) = some s1) : s1.disk = s.disk ∧ s1.g = s.g ∧ s1.pc = .fin := by
  have h := (step_scanFault hs).2.2; subst h; exact ⟨rfl, rfl, rfl⟩

/-- The same for a transient fault inside `openMessage`. -/
theorem C02_open_fault_entry_kept (P : Params) (s s1 : St) (w : FaultAt)
    (hs : step? P s (.openFault w) = some s1) : s1.disk = s.disk ∧ s1.g = s.g ∧ s1.pc = .fin := by
  have h := (step_openFault hs).2.2; subst h; exact ⟨rfl, rfl, rfl⟩

/-- The faulty start-up is invisible to the next one: stopping the process after it leaves exactly the state
that stopping it before would have left. -/
theorem C02_scan_fault_invisible (P : Params) (s s1 s2 : St) (w : FaultAt) (keep : FKind → Nat)
    (h1 : step? P s (.scanFault w) = some s1) (h2 : step? P s1 (.crash keep) = some s2) :
    step? P s (.crash keep) = some s2 := by
  have h := (step_scanFault h1).2.2; subst h
  simpa [step?] using h2

/-- **A skipped entry is still pending after the next fault-free restart**: an accepted message (not quarantined)
whose start-up scan met a transient fault — the process is stopped later, in any way — has every original
recipient terminal or pending in the metadata that the next, fault-free, restart recovers, and that restart
followed by the dispatch of the slot begins an attempt with exactly that metadata (what C02-11 breaks: the
entry was renamed to `.meta_broken`). -/
theorem C02_skipped_entry_still_pending (P : Params) (s s1 s2 : St) (w : FaultAt) (keep : FKind → Nat)
    (h : Reach P s) (h1 : step? P s (.scanFault w) = some s1) (h2 : step? P s1 (.crash keep) = some s2)
    (hacc : s.g.accepted = true) (hq : s.g.quarantined = false) (r : Addr) (hr : r ∈ s.g.orig) :
    r ∈ s.g.term ∨ ∃ m, recoverMeta P s2.disk = some m ∧ r ∈ m.to ∧
      ∃ t1 t2, step? P s2 .restart = some t1 ∧ step? P t1 .dispatch = some t2 ∧ t2.pc = .attempting m := by
  have hr1 : Reach P s1 := .step _ h h1
  have hr2 : Reach P s2 := .step _ hr1 h2
  obtain ⟨hd, hg, _⟩ := C02_scan_fault_entry_kept P s s1 w h1
  have hg2 : s2.g = s.g ∧ s2.pc = .down := by
    simp [step?] at h2; subst h2; exact ⟨hg, rfl⟩
  rcases C02_accepted_survives P s2 hr2 (by rw [hg2.1]; exact hacc) (by rw [hg2.1]; exact hq) r (by rw [hg2.1]; exact hr) with ht | ⟨m, hm, hrm⟩
  · left; rw [hg2.1] at ht; exact ht
  · right
    obtain ⟨t1, t2, ha, hb, hc, _⟩ := C02_recovery_attempts P s2 m hg2.2 hm
    exact ⟨m, hm, hrm, t1, t2, ha, hb, hc⟩

/-! ## Round 9: meta-data records of any size; transactions that end on a stopped queue -/

/-- **load ∘ store = id for every meta-data record, irrespective of its size**: the spool model has no bound on the
number of recipients, the length of an address or of a stored error text (`SMeta` is arbitrary; the codec is only
used through its round-trip law).  Whatever record `storeNewMessage` (first conjunct) or a later
`updateMetadataOnDisk` (second conjunct: on any directory that holds the header and the body) has written is
exactly what the start-up scan followed by `openMessage` loads.  (What C02-15 breaks: a reader that is bounded while
the writer is not.)  The tie to the code is T2: hand-made directories and real runs whose meta-data file has
100 KiB … several MiB (thousands of recipients, long addresses, long stored error texts). -/
theorem C02_meta_roundtrip_any_size (P : Params) (m : SMeta) :
    (∀ h b : Bytes, P.hdrOk h = true → recoverMeta P (execOps {} (storeOps P.codec m h b)) = some m) ∧
    (∀ (d : Disk) (hf bf : File), d.header = some hf → d.body = some bf → P.hdrOk hf.content = true →
      recoverMeta P (execOps d (updateOps P.codec m)) = some m) := by
  constructor
  · intro h b hok
    simp [execOps, storeOps, updateOps, applyOp, Disk.set, Disk.get, recoverMeta, scanMsg, openMsg, File.content,
      P.codec.rt, hok]
  · intro d hf bf hh hb hok
    have hok' : P.hdrOk (hf.durable ++ hf.pending) = true := hok
    simp [execOps, updateOps, applyOp, Disk.set, Disk.get, recoverMeta, scanMsg, openMsg, File.content,
      P.codec.rt, hok', hh, hb]

/-- The same for the concrete codec of the driver and a record with twenty thousand recipients (maddy accepts that
many per message), each with a stored retry counter: no evaluation is needed, the law is size-agnostic. -/
example : listCodec.parse (listCodec.ser ⟨List.range 20000, (List.range 20000).map (fun r => (r, 1)), false⟩) =
    some ⟨List.range 20000, (List.range 20000).map (fun r => (r, 1)), false⟩ := listCodec.rt _

/-- The driver decides the branch of `Queue.deliver` once per attempt (`deliverCase`): the same function. -/
theorem C02_deliverErrs_eq_case (to : List Addr) (sc : Staged) :
    deliverErrs to sc = errsOfCase sc (deliverCase to sc) := by
  unfold deliverErrs deliverCase
  simp only []
  split
  · rfl
  · split
    · rfl
    · cases sc.commit <;> rfl

/-- **Acceptance = `Commit` returned nil, and `Commit` always does**: both on a running queue (`commit`) and on a
queue whose time wheel was already stopped (`commitStopped`: Close raced with the open transaction) the step
acknowledges the transaction and touches nothing in the spool; there is NO step in which `Commit` refuses the
transaction and leaves the entry written by `Body` behind (what C02-14 introduces). -/
theorem C02_commit_acknowledges (P : Params) (s s' : St) (c : Choice) (hc : c = .commit ∨ c = .commitStopped)
    (hs : step? P s c = some s') :
    s'.g.accepted = true ∧ s'.disk = s.disk ∧ s'.g.aborted = s.g.aborted ∧ s'.g.orig = s.g.orig := by
  rcases hc with hc | hc <;> subst hc <;> (cases hpc : s.pc <;> simp [step?, hpc] at hs) <;> (subst hs; simp)

/-- **The spool holds a loadable entry only for acknowledged transactions or for ones whose outcome the sender never
saw.**  In every reachable state (so after any stop or crash, before the restart): when recovery would load meta-data
for the id, the transaction was not aborted — either `Commit` returned nil (`accepted`), or neither `Commit` nor
`Abort` has returned yet (the process stopped before the reply: the sender saw no outcome and will try again). -/
theorem C02_loadable_only_if_acknowledged_or_unanswered (P : Params) (s : St) (h : Reach P s) (m : SMeta)
    (hm : recoverMeta P s.disk = some m) :
    s.g.accepted = true ∨ (s.g.accepted = false ∧ s.g.aborted = false) := by
  cases hab : s.g.aborted with
  | true =>
    have := (C02_aborted_never_delivered P s h hab).2.2
    rw [this] at hm; cases hm
  | false =>
    cases hacc : s.g.accepted with
    | true => exact .inl rfl
    | false => exact .inr ⟨rfl, rfl⟩

/-- **A transaction acknowledged by a stopped queue survives**: Start, AddRcpt, Body, Close, Commit (nil), process
exit with any loss of un-synced data — every recipient is pending in the meta-data the next start loads, and that
start followed by the dispatch of the slot begins an attempt with exactly that meta-data. -/
theorem C02_commit_on_stopped_queue_survives (P : Params) (s s1 s2 : St) (keep : FKind → Nat) (h : Reach P s)
    (h1 : step? P s .commitStopped = some s1) (h2 : step? P s1 (.crash keep) = some s2) (r : Addr)
    (hr : r ∈ s2.g.orig) :
    s2.g.accepted = true ∧ ∃ m, recoverMeta P s2.disk = some m ∧ r ∈ m.to ∧
      ∃ t1 t2, step? P s2 .restart = some t1 ∧ step? P t1 .dispatch = some t2 ∧ t2.pc = .attempting m := by
  have hr1 : Reach P s1 := .step _ h h1
  have hr2 : Reach P s2 := .step _ hr1 h2
  have hp := (inv_reach h).pc
  cases hpc : s.pc <;> simp [step?, hpc] at h1
  rename_i m0
  simp only [PcInv, hpc] at hp
  obtain ⟨_, hg, _⟩ := hp
  subst h1
  simp [step?] at h2
  subst h2
  have hq : s.g.quarantined = false := by rw [hg]
  have ht : s.g.term = [] := by rw [hg]
  refine ⟨rfl, ?_⟩
  rcases C02_accepted_survives P _ hr2 rfl hq r hr with ht' | ⟨m, hm, hrm⟩
  · simp [ht] at ht'
  · obtain ⟨t1, t2, ha, hb, hc, _⟩ := C02_recovery_attempts P _ m rfl hm
    exact ⟨m, hm, hrm, t1, t2, ha, hb, hc⟩

/-- Start, AddRcpt ×2, Body, Close, Commit, process exit (all un-synced data lost), restart, dispatch. -/
def demoStopped : List Choice :=
  [.accept [1, 2] [83, 58, 120, 13, 10] [104, 105] false] ++ List.replicate 10 .op ++
  [.commitStopped, .crash (fun _ => 0), .restart, .dispatch]

/-- Hypotheses of `C02_commit_on_stopped_queue_survives` hold in a non-trivial run; the same transaction ended by
`Abort` on the stopped queue leaves nothing (`demoAbort`). -/
example : (runChoices P0 {} demoStopped).map (fun s => (s.g.accepted, s.g.aborted, s.g.attempts, s.g.orig)) =
    some (true, false, [[1, 2]], [1, 2]) := by rfl

/-! ## the retry schedule: a stored message is due within the configured schedule (round 10)

`retryDelay` / `retryDue` / `restartDue` (Model/SpoolFS.lean) mirror the arithmetic of `tryDelivery` and `readDiskQueue`.
The monitor's rule (`C02/retry-never-due`: no slot of the real time wheel is due beyond the horizon of the configured
schedule) is the conclusion of `C02_restart_due_within_horizon` / `C02_retry_due_within_horizon`. -/

/-- A value that fits into 64 bits is its own wrap-around (no overflow: the product is the exact one). -/
theorem C02_wrap64_id (x : Int) (h1 : -two63 ≤ x) (h2 : x < two63) : wrap64 x = x := by
  unfold wrap64 two63 two64 at *
  omega

/-- The wrapped value always fits into 64 bits. -/
theorem C02_wrap64_range (x : Int) : -two63 ≤ wrap64 x ∧ wrap64 x < two63 := by
  unfold wrap64 two63 two64
  omega

/-- Scale 1 (the configuration of the repo's tests; also every `tries` with `⌊scale^(tries-1)⌋ = 1`, e.g. 1.25 up to the
fourth attempt): the delay is `initial_retry_time`. -/
theorem C02_retry_delay_scale_one (init : Int) (h0 : 0 ≤ init) (h1 : init < two63) : retryDelay init 1 = init := by
  unfold retryDelay
  rw [Int.mul_one]
  exact C02_wrap64_id init (by unfold two63 at *; omega) h1

/-- `readDiskQueue` never schedules a stored message before `now + postInitDelay` … -/
theorem C02_restart_due_not_before_post (now last delay post : Int) :
    now + post ≤ restartDue now last delay post := by
  unfold restartDue
  split <;> omega

/-- … and, whatever the delay formula produced (`delay` is ANY integer not larger than the longest delay `D` of the
configured schedule — wrapped, negative, zero), a message whose last attempt is not in the future is due within
`max post D` of the restart: it IS attempted again. -/
theorem C02_restart_due_within_horizon (now last delay post D H : Int)
    (hl : last ≤ now) (hd : delay ≤ D) (hp : post ≤ H) (hD : D ≤ H) :
    restartDue now last delay post ≤ now + H := by
  unfold restartDue
  split <;> omega

/-- `tryDelivery`: the next attempt is due within the longest delay of the schedule. -/
theorem C02_retry_due_within_horizon (now delay D : Int) (hd : delay ≤ D) : retryDue now delay ≤ now + D := by
  unfold retryDue
  omega

/-- A delay that is not positive (what the wrapped product is for the sentinel, see below) means: due right after the
post-init delay. -/
theorem C02_restart_due_nonpositive_delay (now last delay post : Int)
    (hl : last ≤ now) (hd : delay ≤ 0) (hp : 0 ≤ post) :
    restartDue now last delay post = now + post := by
  unfold restartDue
  split
  · rfl
  · omega

/-- The message that had no recorded attempt when the process stopped (empty `TriesCount`: `readDiskQueue` feeds the
sentinel 999999 into the formula; with a scale > 1 the power is +Inf).  On amd64 the conversion of +Inf is `-2^63`:
for EVERY `initial_retry_time` the wrapped product is `0` or `-2^63`, never positive. -/
theorem C02_no_attempt_yet_delay_amd64 (init : Int) : retryDelay init (-two63) ≤ 0 := by
  unfold retryDelay wrap64 two63 two64
  omega

/-- Where the conversion saturates (`2^63-1`) the same holds for every EVEN `initial_retry_time` (any whole number of
microseconds, so everything a configuration file can say in `ms`/`s`/`m`/`h`). -/
theorem C02_no_attempt_yet_delay_saturating_even (k : Int) (h0 : 0 ≤ k) (h1 : 2 * k < two63) :
    retryDelay (2 * k) (two63 - 1) ≤ 0 := by
  unfold retryDelay wrap64
  have e : 2 * k * (two63 - 1) + two63 = (two63 - 2 * k) + k * two64 := by
    unfold two63 two64
    omega
  rw [e, Int.add_mul_emod_self_right]
  unfold two63 two64 at *
  omega

/-- Hence: a complete stored message without any recorded attempt is due right after the post-init delay of the
restart, under EVERY retry schedule (on the platform of the check: any `init`; the scale only enters through `conv`). -/
theorem C02_no_attempt_yet_due_at_once (now last init post : Int) (hl : last ≤ now) (hp : 0 ≤ post) :
    restartDue now last (retryDelay init (-two63)) post = now + post :=
  C02_restart_due_nonpositive_delay now last _ post hl (C02_no_attempt_yet_delay_amd64 init) hp

/-- The arithmetic the code relies on is implementation-defined: with a saturating conversion and an ODD number of
nanoseconds as `initial_retry_time` the wrapped product is a positive 292 years — the message would never be due.
(Not reachable on the platform of the check; recorded because a "harmless" rewrite of the formula lands here.) -/
theorem C02_no_attempt_yet_saturating_odd_never_due :
    restartDue 0 0 (retryDelay 1 (two63 - 1)) 0 = two63 - 1 := by decide

/-- A delay clamped to the largest duration (instead of wrapped) is NOT covered by `C02_restart_due_within_horizon`:
the hypothesis `delay ≤ D` is what a schedule has to guarantee. -/
example : restartDue 1700000000000000000 1700000000000000000 (two63 - 1) 0 = 1700000000000000000 + (two63 - 1) := by decide

/-- Non-vacuity: 15 minutes, scale 1.25, third attempt (`⌊1.25^2⌋ = 1`), restart 10 s after the attempt with a post-init
delay of 10 s: due 15 minutes after the attempt, inside the horizon. -/
example : restartDue 10000000000 0 (retryDelay 900000000000 1) 10000000000 = 900000000000 ∧
    restartDue 10000000000 0 (retryDelay 900000000000 1) 10000000000 ≤ 10000000000 + 900000000000 := by decide

end MaddyVerif.C02
