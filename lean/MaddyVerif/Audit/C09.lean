import MaddyVerif.Props.C09
#print axioms MaddyVerif.C09.keys_cons
#print axioms MaddyVerif.C09.addTo_keys
#print axioms MaddyVerif.C09.addAll_keys
#print axioms MaddyVerif.C09.addAll_recips
#print axioms MaddyVerif.C09.bodyStatuses_keys
#print axioms MaddyVerif.C09.C09_status_keys_eq_accepted
#print axioms MaddyVerif.C09.C09_history
#print axioms MaddyVerif.C09.C09_lmtp_one_status_each
#print axioms MaddyVerif.C09.C09_lmtp_status_value
#print axioms MaddyVerif.C09.C09_pipeline_keys_are_client_addresses
#print axioms MaddyVerif.C09.C09_pipeline_unrewritten_unchanged
#print axioms MaddyVerif.C09.C09_alias_collision_counterexample
