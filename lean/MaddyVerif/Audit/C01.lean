import MaddyVerif.Props.C01
#print axioms MaddyVerif.C01.commitCount_append
#print axioms MaddyVerif.C01.reportCount_append
#print axioms MaddyVerif.C01.commitCount_rcpts
#print axioms MaddyVerif.C01.reportCount_rcpts
#print axioms MaddyVerif.C01.count_filter_nodup
#print axioms MaddyVerif.C01.deliver_spec
#print axioms MaddyVerif.C01.deliver_spec_report
#print axioms MaddyVerif.C01.classify_spec
#print axioms MaddyVerif.C01.tri
#print axioms MaddyVerif.C01.step_spec
#print axioms MaddyVerif.C01.step_meta
#print axioms MaddyVerif.C01.run_spec
#print axioms MaddyVerif.C01.C01_exactly_one_outcome
#print axioms MaddyVerif.C01.C01_retry_only_after_temp
#print axioms MaddyVerif.C01.C01_no_report_when_suppressed
