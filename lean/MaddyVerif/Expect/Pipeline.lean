/-! Hand-written expectations the regenerated facts of `internal/msgpipeline` are compared with:
what `MaddyVerif/Model/Routing.lean` was written from. -/
namespace MaddyVerif.Expect.Pipeline

/-- `parseMsgPipelineRootCfg`: `check`, `modify` (global), the three source-level block kinds,
`dmarc` (not a routing directive; left out of the model's grammar), the handling directives that
are collected as the implied default source block, anything else is refused.
Model: `LNode.kind (LNode.kind Item.kind)` on `RootN`. -/
def rootCases : List (List String) := [
  ["check"],
  ["modify"],
  ["source_in"],
  ["source"],
  ["default_source"],
  ["dmarc"],
  ["deliver_to", "reroute", "destination_in", "destination", "default_destination", "reject"],
  ["<default>"]
]

/-- `parseMsgPipelineSrcCfg`.  Model: `LNode.kind Item.kind` on `SrcN`. -/
def srcCases : List (List String) := [
  ["check"],
  ["modify"],
  ["destination_in"],
  ["destination"],
  ["default_destination"],
  ["deliver_to", "reroute", "reject"],
  ["<default>"]
]

/-- `parseMsgPipelineRcptCfg`.  Model: the constructors of `Item`. -/
def rcptCases : List (List String) := [
  ["check"],
  ["modify"],
  ["deliver_to"],
  ["reroute"],
  ["reject"],
  ["<default>"]
]

/-- the refusal of blocks without a decision (`loadRcpt`: `.noDecision`) -/
def rcptTrailingRefusals : List String := ["len(rcpt.targets) == 0 && rcpt.rejectErr == nil"]

/-- `selectBlock`: tables, whole key, domain, default -/
def sourceLookupOrder : List String := ["tables", "rules[cleanFrom]", "rules[domain]", "default"]
def destinationLookupOrder : List String := ["tables", "rules[cleanRcpt]", "rules[domain]", "default"]

end MaddyVerif.Expect.Pipeline
