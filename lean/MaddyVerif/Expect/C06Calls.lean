/-! Hand-written expectations the regenerated C06 call facts (`Generated/C06Calls.lean`, extracted
from `msgpipeline.go` and `check_runner.go` of the current tree) are compared with: this is what
`Model/CheckRunner.lean` was written from. -/
namespace MaddyVerif.Expect.C06Calls

/-- Check phase of both body paths: body checks of the global block, of the source block, of every
destination block in `rcptModifiersState`, then `applyResults` (step codes of tools/extract/c06calls.go). -/
def checkPhase : List Nat := [1, 2, 3, 4]

/-- Classification of one finished goroutine in `runAndMergeResults` (`Res.eff`). -/
def mergeChain : List String := ["subCheckRes.Quarantine", "subCheckRes.Reject", "subCheckRes.Reason != nil"]

/-- What the two `sync.Once` store (`onceStep`): the result's reason. -/
def mergeOnce : List String := ["data.quarantineErr = subCheckRes.Reason", "data.rejectErr = subCheckRes.Reason"]

/-- After the wait: a reject returns before the quarantine is recorded (`runAndMerge`). -/
def mergeAfterWait : List String :=
  ["data.rejectErr != nil => return data.rejectErr", "data.quarantineErr != nil => cr.mergedRes.Quarantine = true"]

/-- Replay in `checkStates`: connection and sender to the new states, recipients to all states of
the group through the remembering `checkRcptOnce`. -/
def replayGroups : List String := ["newStates: CheckConnection", "newStates: CheckSender", "states: checkRcptOnce"]

/-- The only writes to `MsgMetadata.Quarantine` in the pipeline package: the two `= true` of
`applyResults` (`Model.applyResults`: `flag' = flag || …`; nothing else touches the flag, which
is why "flagged by the outer pipeline before this pipeline's `applyResults` runs" is `Cfg.q0`). -/
def flagWriteSites : List String := ["applyResults: cr.msgMeta.Quarantine", "applyResults: cr.msgMeta.Quarantine"]

/-- The only update of the key set of `rcptModifiersState` (the record of which destination blocks
take part in the body stage: `Body` / `BodyNonAtomic` range over it) in the pipeline package: the
insertion in `getRcptModifiers` (`Model.useBlock`).  No `delete`, no `clear`, no re-assignment: a
block that got in stays in, which is why `Dlv.used` only grows. -/
def blockMapUpdates : List String := ["getRcptModifiers: set dd.rcptModifiersState[rcptBlock]"]

end MaddyVerif.Expect.C06Calls
