/-! What `Model/DkimWire.lean` (`fieldsToSign`, `fieldCount`) was written from: the shape of
`(*Modifier).fieldsToSign` and `fieldCount` in internal/modify/dkim/dkim.go.  Compared with the
facts regenerated from the current tree (`Generated/DkimLists.lean`) by `decide` in Props/C08. -/
namespace MaddyVerif.Expect.DkimLists

/-- (list ranged over, key of `seen`, what the slot loop counts, extra appends after it):
over-signed names get one slot per field plus one, signed names one slot per field; both loops
share `seen`, keyed by the lower-cased name. -/
def loops : List (String × String × String × Nat) := [
  ("m.oversignHeader", "strings.ToLower(key)", "fieldCount(h, key) ; i > 0", 1),
  ("m.signHeader", "strings.ToLower(key)", "fieldCount(h, key) ; i > 0", 0)
]

/-- field names are compared ignoring case -/
def fieldCountCmp : String := "strings.EqualFold(field.Key(), key)"

end MaddyVerif.Expect.DkimLists
