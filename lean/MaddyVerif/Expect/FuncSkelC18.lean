-- BLESSED copy (bin/bless C18) of Generated/FuncSkelC18.lean: the tree the C18 model was written from and validated against.
namespace MaddyVerif.Expect.FuncSkelC18

/-- (declaration, fingerprint of its normalised text): comments, layout, local names and log/trace statements do not count -/
def funcs : List (String × String) := [
  ("internal/dsn/dsn.go:GenerateDSN", "cafaf64ea3d645c5"),
  ("internal/dsn/dsn.go:RecipientInfo.WriteTo", "d9fd7d637aa8aaeb"),
  ("internal/dsn/dsn.go:ReportingMTAInfo.WriteTo", "77fbdf28a15ed64c"),
  ("internal/target/queue/queue.go:Queue.emitDSN", "1e8fbe65a4db35c1"),
  ("internal/target/queue/queue.go:toSMTPErr", "22651b4e75b94c9a")
]

end MaddyVerif.Expect.FuncSkelC18
