-- BLESSED copy (bin/bless C18) of Generated/FuncSkelC18.lean: the tree the C18 model was written from and validated against.
namespace MaddyVerif.Expect.FuncSkelC18

/-- (declaration, fingerprint of its normalised text): comments, layout, local names and log/trace statements do not count -/
def funcs : List (String × String) := [
  ("framework/address/rfc6531.go:SelectIDNA", "e0700e941932dff7"),
  ("framework/address/rfc6531.go:ToASCII", "8bd2a2da575de4f6"),
  ("framework/address/rfc6531.go:ToUnicode", "13347bc8d63ff816"),
  ("framework/address/split.go:Split", "2149bd8e40fd6735"),
  ("framework/module/msgmetadata.go:MsgMetadata.DeepCopy", "c0d2cd14145168fe"),
  ("framework/module/msgmetadata.go:type MsgMetadata", "35edae60b069bca5"),
  ("internal/dsn/dsn.go:GenerateDSN", "cafaf64ea3d645c5"),
  ("internal/dsn/dsn.go:RecipientInfo.WriteTo", "b72ba0c09759afa4"),
  ("internal/dsn/dsn.go:ReportingMTAInfo.WriteTo", "d90ce91c764fedd2"),
  ("internal/dsn/dsn.go:fieldText", "beeceb906ec22a29"),
  ("internal/dsn/dsn.go:type Action", "15ada61402c8abb1"),
  ("internal/dsn/dsn.go:type Envelope", "f0614c26e1fe659a"),
  ("internal/dsn/dsn.go:type RecipientInfo", "0e279e2fb0ba3aba"),
  ("internal/dsn/dsn.go:type ReportingMTAInfo", "653f952fbb19e250"),
  ("internal/dsn/dsn.go:writeHeader", "f4d399f446a887e0"),
  ("internal/dsn/dsn.go:writeHumanReadablePart", "17b9a08d4f6d92e6"),
  ("internal/dsn/dsn.go:writeMachineReadablePart", "17ff9620a7504ce3"),
  ("internal/msgpipeline/msgpipeline.go:MsgPipeline.Start", "9b9e3864f9de0ef6"),
  ("internal/msgpipeline/msgpipeline.go:msgpipelineDelivery.AddRcpt", "483b2d7e72200db8"),
  ("internal/msgpipeline/msgpipeline.go:msgpipelineDelivery.getDelivery", "dc504feb895154cd"),
  ("internal/target/queue/queue.go:Queue.Start", "a3de4613def4b988"),
  ("internal/target/queue/queue.go:Queue.deliver", "f9c76cc6fc51885f"),
  ("internal/target/queue/queue.go:Queue.emitDSN", "1e8fbe65a4db35c1"),
  ("internal/target/queue/queue.go:Queue.tryDelivery", "6590e3a3ec4082a2"),
  ("internal/target/queue/queue.go:toSMTPErr", "554ef79be59f95a6")
]

end MaddyVerif.Expect.FuncSkelC18
