-- BLESSED copy (bin/bless C09) of Generated/FuncSkelC09.lean: the tree the C09 model was written from and validated against.
namespace MaddyVerif.Expect.FuncSkelC09

/-- (declaration, fingerprint of its normalised text): comments, layout, local names and log/trace statements do not count -/
def funcs : List (String × String) := [
  ("internal/msgpipeline/msgpipeline.go:msgpipelineDelivery.BodyNonAtomic", "9ef190be8c536e0f"),
  ("internal/msgpipeline/msgpipeline.go:statusCollector.SetStatus", "ce68335872bcfb76"),
  ("internal/smtpconn/smtpconn.go:C.Rcpt", "243e20ba4f421fdc"),
  ("internal/smtpconn/smtpconn.go:C.Rcpts", "180e824f795f01ee"),
  ("internal/target/remote/remote.go:remoteDelivery.BodyNonAtomic", "74a666db1a05c9ea"),
  ("internal/target/smtp/smtp_downstream.go:delivery.AddRcpt", "70ae4e5f5dbd39ac"),
  ("internal/target/smtp/smtp_downstream.go:delivery.Body", "3014f2e7bf3c5aab"),
  ("internal/target/smtp/smtp_downstream.go:lmtpDelivery.BodyNonAtomic", "7c317da1d0ed03bd")
]

end MaddyVerif.Expect.FuncSkelC09
