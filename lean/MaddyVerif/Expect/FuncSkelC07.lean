-- BLESSED copy (bin/bless C07) of Generated/FuncSkelC07.lean: the tree the C07 model was written from and validated against.
namespace MaddyVerif.Expect.FuncSkelC07

/-- (declaration, fingerprint of its normalised text): comments, layout, local names and log/trace statements do not count -/
def funcs : List (String × String) := [
  ("internal/dmarc/evaluate.go:EvaluateAlignment", "7b76e2cbf2c6036b"),
  ("internal/dmarc/evaluate.go:ExtractFromDomain", "aaca32e2b5ef4a2b"),
  ("internal/dmarc/evaluate.go:FetchRecord", "cdf2401f3de42cee"),
  ("internal/dmarc/evaluate.go:dmarcRecords", "039bf520a4fea9b2"),
  ("internal/dmarc/evaluate.go:isAligned", "0cc541d666ae38d5"),
  ("internal/dmarc/evaluate.go:type EvalResult", "7c64186882f2118a"),
  ("internal/dmarc/verifier.go:NewVerifier", "158507ab948b50c7"),
  ("internal/dmarc/verifier.go:Verifier.Apply", "034ca55acbd8d3cc"),
  ("internal/dmarc/verifier.go:Verifier.Close", "770f981eb44f7f3f"),
  ("internal/dmarc/verifier.go:Verifier.FetchRecord", "8582566bac17c1b7"),
  ("internal/dmarc/verifier.go:errPanic.Error", "6b9a18845798e846"),
  ("internal/dmarc/verifier.go:type Verifier", "8086bd9a2487a52c"),
  ("internal/dmarc/verifier.go:type errPanic", "d2d64e3e18742109"),
  ("internal/dmarc/verifier.go:type verifyData", "af02233da37756e2"),
  ("internal/msgpipeline/check_runner.go:checkRunner.applyResults", "7aa5b1a3a230ef0d"),
  ("internal/msgpipeline/check_runner.go:checkRunner.checkBody", "772d1186a2a91890"),
  ("internal/msgpipeline/check_runner.go:checkRunner.checkRcpt", "1b3553cdc4125320"),
  ("internal/msgpipeline/check_runner.go:checkRunner.checkRcptOnce", "c87723fd85520250"),
  ("internal/msgpipeline/check_runner.go:checkRunner.checkStates", "89a836a19d422e06"),
  ("internal/msgpipeline/check_runner.go:checkRunner.runAndMergeResults", "3f1b9e96eeb78dc5"),
  ("internal/msgpipeline/msgpipeline.go:msgpipelineDelivery.Body", "7dc627c0fe03620b"),
  ("internal/msgpipeline/msgpipeline.go:msgpipelineDelivery.BodyNonAtomic", "7b9e7db40807d5d7")
]

end MaddyVerif.Expect.FuncSkelC07
