-- BLESSED copy (bin/bless C01) of Generated/FuncSkelC01.lean: the tree the C01 model was written from and validated against.
namespace MaddyVerif.Expect.FuncSkelC01

/-- (declaration, fingerprint of its normalised text): comments, layout, local names and log/trace statements do not count -/
def funcs : List (String × String) := [
  ("framework/exterrors/temporary.go:IsTemporaryOrUnspec", "08ff47f63bc5e9bd"),
  ("internal/target/queue/queue.go:Queue.deliver", "f9c76cc6fc51885f"),
  ("internal/target/queue/queue.go:Queue.emitDSN", "1e8fbe65a4db35c1"),
  ("internal/target/queue/queue.go:Queue.tryDelivery", "91d36a51cc7d0be5"),
  ("internal/target/queue/queue.go:toSMTPErr", "22651b4e75b94c9a"),
  ("internal/target/queue/queue.go:type QueueMetadata", "a01e328f233b5521"),
  ("internal/target/remote/remote.go:remoteDelivery.BodyNonAtomic", "74a666db1a05c9ea"),
  ("internal/target/smtp/smtp_downstream.go:lmtpDelivery.BodyNonAtomic", "7c317da1d0ed03bd")
]

end MaddyVerif.Expect.FuncSkelC01
