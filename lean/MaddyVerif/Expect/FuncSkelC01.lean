-- BLESSED copy (bin/bless C01) of Generated/FuncSkelC01.lean: the tree the C01 model was written from and validated against.
namespace MaddyVerif.Expect.FuncSkelC01

/-- (declaration, fingerprint of its normalised text): comments, layout, local names and log/trace statements do not count -/
def funcs : List (String × String) := [
  ("framework/exterrors/temporary.go:IsTemporaryOrUnspec", "08ff47f63bc5e9bd"),
  ("internal/smtpconn/smtpconn.go:C.Close", "4f893ccbc167de7b"),
  ("internal/smtpconn/smtpconn.go:C.Data", "e530fddde562e053"),
  ("internal/smtpconn/smtpconn.go:C.LMTPData", "e179f60ed562690a"),
  ("internal/smtpconn/smtpconn.go:C.Rcpt", "243e20ba4f421fdc"),
  ("internal/smtpconn/smtpconn.go:C.Rcpts", "180e824f795f01ee"),
  ("internal/smtpconn/smtpconn.go:dataWriter.Close", "6d375401e5e39722"),
  ("internal/target/queue/queue.go:Queue.deliver", "f9c76cc6fc51885f"),
  ("internal/target/queue/queue.go:Queue.dispatch", "b74f41bd2cc3ee79"),
  ("internal/target/queue/queue.go:Queue.emitDSN", "1e8fbe65a4db35c1"),
  ("internal/target/queue/queue.go:Queue.tryDelivery", "91d36a51cc7d0be5"),
  ("internal/target/queue/queue.go:toSMTPErr", "22651b4e75b94c9a"),
  ("internal/target/queue/queue.go:type QueueMetadata", "a01e328f233b5521"),
  ("internal/target/remote/remote.go:remoteDelivery.Abort", "001ea450df388c8a"),
  ("internal/target/remote/remote.go:remoteDelivery.AddRcpt", "22f624f979db1f13"),
  ("internal/target/remote/remote.go:remoteDelivery.Body", "a554d8cda54e01ca"),
  ("internal/target/remote/remote.go:remoteDelivery.BodyNonAtomic", "74a666db1a05c9ea"),
  ("internal/target/remote/remote.go:remoteDelivery.Commit", "e3c71d719df70692"),
  ("internal/target/smtp/smtp_downstream.go:Downstream.Init", "aba1b36f32ce13ef"),
  ("internal/target/smtp/smtp_downstream.go:Downstream.InstanceName", "6e7760df5bb2be86"),
  ("internal/target/smtp/smtp_downstream.go:Downstream.Name", "e7dac2487599bc9c"),
  ("internal/target/smtp/smtp_downstream.go:Downstream.Start", "38aaa4b6e2493d7e"),
  ("internal/target/smtp/smtp_downstream.go:Downstream.moduleError", "23436769285843f0"),
  ("internal/target/smtp/smtp_downstream.go:NewDownstream", "de85576e77a38686"),
  ("internal/target/smtp/smtp_downstream.go:delivery.Abort", "1165e84a5fbc4594"),
  ("internal/target/smtp/smtp_downstream.go:delivery.AddRcpt", "70ae4e5f5dbd39ac"),
  ("internal/target/smtp/smtp_downstream.go:delivery.Body", "3014f2e7bf3c5aab"),
  ("internal/target/smtp/smtp_downstream.go:delivery.Commit", "ed078a6d3c27840f"),
  ("internal/target/smtp/smtp_downstream.go:delivery.connect", "6a0603d98b83eee2"),
  ("internal/target/smtp/smtp_downstream.go:init", "3b4c44f06284398a"),
  ("internal/target/smtp/smtp_downstream.go:lmtpDelivery.BodyNonAtomic", "7c317da1d0ed03bd"),
  ("internal/target/smtp/smtp_downstream.go:type Downstream", "48282401dea8067b"),
  ("internal/target/smtp/smtp_downstream.go:type delivery", "5b8d6be69d39c03b"),
  ("internal/target/smtp/smtp_downstream.go:type lmtpDelivery", "95062c840117a5fb")
]

end MaddyVerif.Expect.FuncSkelC01
