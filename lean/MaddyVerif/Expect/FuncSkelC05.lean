-- BLESSED copy (bin/bless C05) of Generated/FuncSkelC05.lean: the tree the C05 model was written from and validated against.
namespace MaddyVerif.Expect.FuncSkelC05

/-- (declaration, fingerprint of its normalised text): comments, layout, local names and log/trace statements do not count -/
def funcs : List (String × String) := [
  ("internal/smtpconn/pool/pool.go:P.Get", "a874f6e08189d7f8"),
  ("internal/smtpconn/pool/pool.go:P.Return", "f7126ee7263bb843"),
  ("internal/target/remote/connect.go:remoteDelivery.attemptMX", "4e4fc74a865825d1"),
  ("internal/target/remote/connect.go:remoteDelivery.connect", "e1c5b1ac86a44ff2"),
  ("internal/target/remote/connect.go:remoteDelivery.connectionForDomain", "c9c06a28375d94f9"),
  ("internal/target/remote/connect.go:remoteDelivery.newConn", "76385034d8cea661"),
  ("internal/target/remote/remote.go:Target.Close", "a42a23b96da6b8ed"),
  ("internal/target/remote/remote.go:remoteDelivery.Close", "bf9edcac4df593d2"),
  ("internal/target/remote/security.go:daneDelivery.CheckConn", "3650a0df52e21147"),
  ("internal/target/remote/security.go:daneDelivery.CheckMX", "9e668a7d7751404e"),
  ("internal/target/remote/security.go:dnssecPolicy.CheckConn", "fca16e997daefa5d"),
  ("internal/target/remote/security.go:dnssecPolicy.CheckMX", "6a2bfc733e6af293"),
  ("internal/target/remote/security.go:localPolicy.CheckConn", "6e1c81a5c59d97bd"),
  ("internal/target/remote/security.go:localPolicy.CheckMX", "ab6fde02ad5e8fe3"),
  ("internal/target/remote/security.go:mtastsDelivery.CheckConn", "cfeebfd11395529a"),
  ("internal/target/remote/security.go:mtastsDelivery.CheckMX", "9a3af4671e042923"),
  ("internal/target/remote/security.go:preloadDelivery.CheckConn", "993796acb6f87082"),
  ("internal/target/remote/security.go:preloadDelivery.CheckMX", "366fd85893baa4ec")
]

end MaddyVerif.Expect.FuncSkelC05
