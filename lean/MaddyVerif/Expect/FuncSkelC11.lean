-- BLESSED copy (bin/bless C11) of Generated/FuncSkelC11.lean: the tree the C11 model was written from and validated against.
namespace MaddyVerif.Expect.FuncSkelC11

/-- (declaration, fingerprint of its normalised text): comments, layout, local names and log/trace statements do not count -/
def funcs : List (String × String) := [
  ("internal/endpoint/smtp/session.go:Session.releaseLimits", "a3cce0cdc2b1745a"),
  ("internal/endpoint/smtp/session.go:Session.startDelivery", "f3750d70475d3e64"),
  ("internal/limits/limiters/bucket.go:BucketSet.take", "a7bd8eec6c8c7e6a"),
  ("internal/limits/limiters/multilimit.go:MultiLimit.Close", "88502b001fb6fa08"),
  ("internal/limits/limiters/multilimit.go:MultiLimit.Release", "74b4687e158fb951"),
  ("internal/limits/limiters/multilimit.go:MultiLimit.Take", "9d8ba0f8a8a2c618"),
  ("internal/limits/limiters/multilimit.go:MultiLimit.TakeContext", "3d542d97dfb92587"),
  ("internal/limits/limiters/multilimit.go:type MultiLimit", "6b619410c4cc4faf"),
  ("internal/limits/limits.go:Group.Init", "54d784f5c74d47ba"),
  ("internal/limits/limits.go:Group.ReleaseDest", "2535bf11aca1d3de"),
  ("internal/limits/limits.go:Group.ReleaseMsg", "917f84662b15c969"),
  ("internal/limits/limits.go:Group.TakeDest", "b16f59a29b9186f5"),
  ("internal/limits/limits.go:Group.TakeMsg", "1df3e5938c941f39"),
  ("internal/target/remote/connect.go:remoteDelivery.connectionForDomain", "c9c06a28375d94f9"),
  ("internal/target/remote/remote.go:Target.Close", "a42a23b96da6b8ed"),
  ("internal/target/remote/remote.go:Target.Start", "2d14a5510b0e30d0"),
  ("internal/target/remote/remote.go:remoteDelivery.Close", "bf9edcac4df593d2")
]

end MaddyVerif.Expect.FuncSkelC11
