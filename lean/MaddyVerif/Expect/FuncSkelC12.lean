-- BLESSED copy (bin/bless C12) of Generated/FuncSkelC12.lean: the tree the C12 model was written from and validated against.
namespace MaddyVerif.Expect.FuncSkelC12

/-- (declaration, fingerprint of its normalised text): comments, layout, local names and log/trace statements do not count -/
def funcs : List (String × String) := [
  ("internal/target/queue/queue.go:Queue.Close", "4d96f1202e524102"),
  ("internal/target/queue/queue.go:Queue.discardBroken", "3ac6ddf738a3bb6f"),
  ("internal/target/queue/queue.go:Queue.dispatch", "b74f41bd2cc3ee79"),
  ("internal/target/queue/queue.go:queueDelivery.Commit", "b547da9a6ba96ed8"),
  ("internal/target/queue/timewheel.go:NewTimeWheel", "8dd63ea82b2a7d2f"),
  ("internal/target/queue/timewheel.go:TimeWheel.Add", "5ef7003f9d35d94b"),
  ("internal/target/queue/timewheel.go:TimeWheel.Close", "59194037da60a83e"),
  ("internal/target/queue/timewheel.go:TimeWheel.tick", "600c3021df07515d"),
  ("internal/target/queue/timewheel.go:type TimeSlot", "1547ea0d6605086b"),
  ("internal/target/queue/timewheel.go:type TimeWheel", "ac67b6ff94775190")
]

end MaddyVerif.Expect.FuncSkelC12
