/-! Hand-written expectations the regenerated SMTP literal facts are compared with. -/
namespace MaddyVerif.Expect.SmtpLits

/-- Every place under the tree that builds an `exterrors.SMTPError` whose Code / EnhancedCode are not
compile-time constants — (file, function, Code expression, EnhancedCode expression, and for codes given by plain
identifiers every definition / assignment of them in that function, in source order) — each explained by a model
function and a theorem for all inputs of the computation:
* `check_action.go: Apply`: the override is copied field by field from the parsed directive
  (`Errors.applyOverride`, `parseAction`; `C16_fail_action_override_coherent`, `C16_fail_action_refusal_coherent`);
* `check_action.go: ParseRejectDirective`, `msgpipeline/config.go: parseRejectDirective`: `Errors.parseReject`
  (`derive` = true / false; `C16_reject_directive_coherent`, known finding `C16_pipeline_reject_4yz_counterexample`);
* `check_runner.go: applyResults`: the DMARC rejection, 550 / 5.7.1 turned into 450 / 4.7.1 TOGETHER for a
  temperror (`Errors.dmarcCode`, `dmarcEnch`; `C16_dmarc_rejection_coherent`);
* `milter.go: handleAction`: the milter's own reply code, class derived from it (`Errors.milterReply`,
  `C16_milter_reply_coherent`);
* `smtpconn.go: wrapClientErr`, `smtp_downstream.go: BodyNonAtomic`: the next hop's reply passed on
  (`Errors.wrapClientErr`, `lmtpStatus`; `C16_relayed_reply_coherent`, `C16_lmtp_status_coherent`). -/
def dynamicLits : List (String × String × String × String × String) := [
  ("framework/config/module/check_action.go", "Apply", "cfa.ReasonOverride.Code", "cfa.ReasonOverride.EnhancedCode", ""),
  ("framework/config/module/check_action.go", "ParseRejectDirective", "code", "enchCode", "code := 554; enchCode := exterrors.EnhancedCode{0, 7, 0}; enchCode, err = parseEnhancedCode(args[1]); code, err = strconv.Atoi(args[0]); enchCode[0] = code / 100; enchCode[0] = 5"),
  ("internal/check/milter/milter.go", "handleAction", "act.SMTPCode", "exterrors.EnhancedCode{act.SMTPCode / 100, 7, 1}", ""),
  ("internal/msgpipeline/check_runner.go", "applyResults", "code", "enchCode", "code := 550; enchCode := exterrors.EnhancedCode{5, 7, 1}; code = 450; enchCode[0] = 4"),
  ("internal/msgpipeline/config.go", "parseRejectDirective", "code", "enchCode", "code := 554; enchCode := exterrors.EnhancedCode{5, 7, 0}; enchCode, err = parseEnhancedCode(node.Args[1]); code, err = strconv.Atoi(node.Args[0])"),
  ("internal/smtpconn/smtpconn.go", "wrapClientErr", "err.Code", "exterrors.EnhancedCode(err.EnhancedCode)", ""),
  ("internal/target/smtp/smtp_downstream.go", "BodyNonAtomic", "err.Code", "exterrors.EnhancedCode(err.EnhancedCode)", "")
]

/-- Assignments to the Code / EnhancedCode field of an error value after it was built:
* `session.go: wrapErr` = `Errors.wrapErr`, `queue.go: toSMTPErr` = `Errors.toSMTPErr` (the two conversions,
  defaults overridden by the annotation fields);
* `smtpconn.go: wrapClientErr`: 552 rewritten to 452 with the class of the enhanced code
  (`Errors.rewrite552`, `C16_rewrite_552_is_452`). -/
def fieldWrites : List (String × String × String) := [
  ("internal/endpoint/smtp/session.go", "wrapErr", "res.Code = 451"),
  ("internal/endpoint/smtp/session.go", "wrapErr", "res.Code = ctxCode"),
  ("internal/endpoint/smtp/session.go", "wrapErr", "res.EnhancedCode = smtp.EnhancedCode(ctxEnchCode)"),
  ("internal/endpoint/smtp/session.go", "wrapErr", "res.Code = smtpErr.Code"),
  ("internal/endpoint/smtp/session.go", "wrapErr", "res.EnhancedCode = smtpErr.EnhancedCode"),
  ("internal/smtpconn/smtpconn.go", "wrapClientErr", "err.Code = 452"),
  ("internal/smtpconn/smtpconn.go", "wrapClientErr", "err.EnhancedCode[0] = 4"),
  ("internal/target/queue/queue.go", "toSMTPErr", "res.Code = 451"),
  ("internal/target/queue/queue.go", "toSMTPErr", "res.EnhancedCode = smtp.EnhancedCode{4, 0, 0}"),
  ("internal/target/queue/queue.go", "toSMTPErr", "res.Code = ctxCode"),
  ("internal/target/queue/queue.go", "toSMTPErr", "res.EnhancedCode = smtp.EnhancedCode(ctxEnchCode)"),
  ("internal/target/queue/queue.go", "toSMTPErr", "res.Code = smtpErr.Code"),
  ("internal/target/queue/queue.go", "toSMTPErr", "res.EnhancedCode = smtpErr.EnhancedCode")
]

end MaddyVerif.Expect.SmtpLits
