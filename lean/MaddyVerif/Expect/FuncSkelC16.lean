-- BLESSED copy (bin/bless C16) of Generated/FuncSkelC16.lean: the tree the C16 model was written from and validated against.
namespace MaddyVerif.Expect.FuncSkelC16

/-- (declaration, fingerprint of its normalised text): comments, layout, local names and log/trace statements do not count -/
def funcs : List (String × String) := [
  ("framework/exterrors/fields.go:Fields", "ed10ad47d4219ce7"),
  ("framework/exterrors/fields.go:WithFields", "ad2c01392092d466"),
  ("framework/exterrors/fields.go:fieldsWrap.Error", "9036cc11a5ff8b4b"),
  ("framework/exterrors/fields.go:fieldsWrap.Fields", "c22c8db083581f30"),
  ("framework/exterrors/fields.go:fieldsWrap.Unwrap", "3083d33208f41a04"),
  ("framework/exterrors/fields.go:type fieldsErr", "f9cc6b0a2dd9add8"),
  ("framework/exterrors/fields.go:type fieldsWrap", "c425ba7968fc85c5"),
  ("framework/exterrors/fields.go:type unwrapper", "3cd69e101141c2f6"),
  ("framework/exterrors/smtp.go:EnhancedCode.FormatLog", "f5a682a6cbd7d546"),
  ("framework/exterrors/smtp.go:SMTPCode", "8e8283c6d3e0324b"),
  ("framework/exterrors/smtp.go:SMTPEnchCode", "5d062981f9b13927"),
  ("framework/exterrors/smtp.go:SMTPError.Error", "8b2c23b6cab9a837"),
  ("framework/exterrors/smtp.go:SMTPError.Fields", "4b894b03da189435"),
  ("framework/exterrors/smtp.go:SMTPError.Temporary", "64271985bc83dc32"),
  ("framework/exterrors/smtp.go:SMTPError.Unwrap", "567a7de837dddd39"),
  ("framework/exterrors/smtp.go:type EnhancedCode", "92533b0ac48a9395"),
  ("framework/exterrors/smtp.go:type SMTPError", "3c01c0fe08789e21"),
  ("framework/exterrors/temporary.go:IsTemporary", "1f48c38249861078"),
  ("framework/exterrors/temporary.go:IsTemporaryOrUnspec", "08ff47f63bc5e9bd"),
  ("framework/exterrors/temporary.go:WithTemporary", "9a90c4dab7f210a4"),
  ("framework/exterrors/temporary.go:temporaryErr.Error", "c42b85b7a27de591"),
  ("framework/exterrors/temporary.go:temporaryErr.Temporary", "b2955f950480eeb9"),
  ("framework/exterrors/temporary.go:temporaryErr.Unwrap", "11a18a45d66bab1c"),
  ("framework/exterrors/temporary.go:type TemporaryErr", "67a9fed30cd12401"),
  ("framework/exterrors/temporary.go:type temporaryErr", "31c98beda7d1d80a"),
  ("internal/endpoint/smtp/session.go:Endpoint.wrapErr", "aca3119c6bbb506c"),
  ("internal/msgpipeline/config.go:parseRejectDirective", "8088995939f9593b"),
  ("internal/smtpconn/smtpconn.go:C.wrapClientErr", "061f2b3d64b9f03c"),
  ("internal/target/queue/queue.go:toSMTPErr", "22651b4e75b94c9a"),
  ("internal/target/remote/connect.go:remoteDelivery.attemptMX", "4e4fc74a865825d1"),
  ("internal/target/remote/connect.go:remoteDelivery.connectionForDomain", "c9c06a28375d94f9"),
  ("internal/target/remote/connect.go:remoteDelivery.lookupMX", "85d78448934faafd"),
  ("internal/target/remote/connect.go:remoteDelivery.newConn", "76385034d8cea661"),
  ("internal/target/remote/remote.go:moduleError", "c754ebc8262b8245"),
  ("internal/target/remote/remote.go:multipleErrs.Fields", "cb0cc16e652a8177"),
  ("internal/target/remote/remote.go:remoteDelivery.AddRcpt", "22f624f979db1f13"),
  ("internal/target/smtp/smtp_downstream.go:delivery.connect", "6a0603d98b83eee2"),
  ("internal/target/smtp/smtp_downstream.go:lmtpDelivery.BodyNonAtomic", "7c317da1d0ed03bd")
]

end MaddyVerif.Expect.FuncSkelC16
