-- BLESSED copy (bin/bless C16) of Generated/FuncSkelC16.lean: the tree the C16 model was written from and validated against.
namespace MaddyVerif.Expect.FuncSkelC16

/-- (declaration, fingerprint of its normalised text): comments, layout, local names and log/trace statements do not count -/
def funcs : List (String × String) := [
  ("framework/exterrors/smtp.go:SMTPCode", "8e8283c6d3e0324b"),
  ("framework/exterrors/smtp.go:SMTPEnchCode", "5d062981f9b13927"),
  ("framework/exterrors/smtp.go:SMTPError.Temporary", "64271985bc83dc32"),
  ("framework/exterrors/temporary.go:IsTemporaryOrUnspec", "08ff47f63bc5e9bd"),
  ("internal/endpoint/smtp/session.go:Endpoint.wrapErr", "aca3119c6bbb506c"),
  ("internal/msgpipeline/config.go:parseRejectDirective", "8088995939f9593b"),
  ("internal/target/queue/queue.go:toSMTPErr", "22651b4e75b94c9a")
]

end MaddyVerif.Expect.FuncSkelC16
