-- BLESSED copy (bin/bless C03) of Generated/FuncSkelC03.lean: the tree the C03 model was written from and validated against.
namespace MaddyVerif.Expect.FuncSkelC03

/-- (declaration, fingerprint of its normalised text): comments, layout, local names and log/trace statements do not count -/
def funcs : List (String × String) := [
  ("internal/endpoint/smtp/session.go:Endpoint.wrapErr", "aca3119c6bbb506c"),
  ("internal/endpoint/smtp/session.go:Session.Auth", "824172581d721d4f"),
  ("internal/endpoint/smtp/session.go:Session.AuthMechanisms", "3b187f575c363366"),
  ("internal/endpoint/smtp/session.go:Session.AuthPlain", "ee043220ec359376"),
  ("internal/endpoint/smtp/session.go:Session.Data", "bf48937093fb6d0f"),
  ("internal/endpoint/smtp/session.go:Session.LMTPData", "e6d831ed5c258d8a"),
  ("internal/endpoint/smtp/session.go:Session.Logout", "16adcf601f73c946"),
  ("internal/endpoint/smtp/session.go:Session.Mail", "23b0bf968b797f19"),
  ("internal/endpoint/smtp/session.go:Session.Rcpt", "6bbd14756d478af5"),
  ("internal/endpoint/smtp/session.go:Session.Reset", "e8f9caa027c71d80"),
  ("internal/endpoint/smtp/session.go:Session.abort", "cc260d16299e7714"),
  ("internal/endpoint/smtp/session.go:Session.checkRoutingLoops", "98d6045aee136354"),
  ("internal/endpoint/smtp/session.go:Session.cleanSession", "8ef35cdf32e124da"),
  ("internal/endpoint/smtp/session.go:Session.fetchRDNSName", "8411d4349e2123dc"),
  ("internal/endpoint/smtp/session.go:Session.prepareBody", "3697841cd32df567"),
  ("internal/endpoint/smtp/session.go:Session.rcpt", "3c31c357526cef02"),
  ("internal/endpoint/smtp/session.go:Session.releaseLimits", "a3cce0cdc2b1745a"),
  ("internal/endpoint/smtp/session.go:Session.startDelivery", "f3750d70475d3e64"),
  ("internal/endpoint/smtp/session.go:limitReader", "9b1bffa15365ec5c"),
  ("internal/endpoint/smtp/session.go:limitedReader.Read", "7ace14266e6bc4d1"),
  ("internal/endpoint/smtp/session.go:statusWrapper.SetStatus", "8287477589940632"),
  ("internal/endpoint/smtp/session.go:type Session", "e93ccca8d4bf063f"),
  ("internal/endpoint/smtp/session.go:type limitedReader", "df2cdbda3935a056"),
  ("internal/endpoint/smtp/session.go:type statusWrapper", "6040ee8ad2dd602d"),
  ("internal/endpoint/smtp/smtp.go:Endpoint.NewSession", "1b9d54da04f9a04e"),
  ("internal/msgpipeline/msgpipeline.go:MsgPipeline.Start", "9b9e3864f9de0ef6"),
  ("internal/msgpipeline/msgpipeline.go:msgpipelineDelivery.Abort", "8d63ae83681b7520"),
  ("internal/msgpipeline/msgpipeline.go:msgpipelineDelivery.AddRcpt", "483b2d7e72200db8"),
  ("internal/msgpipeline/msgpipeline.go:msgpipelineDelivery.Body", "7dc627c0fe03620b"),
  ("internal/msgpipeline/msgpipeline.go:msgpipelineDelivery.BodyNonAtomic", "7b9e7db40807d5d7"),
  ("internal/msgpipeline/msgpipeline.go:msgpipelineDelivery.Commit", "c3bd950ad436c4d4"),
  ("internal/msgpipeline/msgpipeline.go:msgpipelineDelivery.close", "11e4dc975ce697c4"),
  ("internal/msgpipeline/msgpipeline.go:msgpipelineDelivery.getDelivery", "dc504feb895154cd"),
  ("internal/msgpipeline/msgpipeline.go:statusCollector.SetStatus", "ce68335872bcfb76")
]

end MaddyVerif.Expect.FuncSkelC03
