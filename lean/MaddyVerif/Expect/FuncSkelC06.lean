-- BLESSED copy (bin/bless C06) of Generated/FuncSkelC06.lean: the tree the C06 model was written from and validated against.
namespace MaddyVerif.Expect.FuncSkelC06

/-- (declaration, fingerprint of its normalised text): comments, layout, local names and log/trace statements do not count -/
def funcs : List (String × String) := [
  ("framework/config/module/check_action.go:FailAction.Apply", "00e744fd3ad38739"),
  ("framework/config/module/check_action.go:FailActionDirective", "95519f5afb7f4b3d"),
  ("framework/config/module/check_action.go:ParseActionDirective", "b95b081e8517768a"),
  ("framework/config/module/check_action.go:ParseRejectDirective", "dae4612b5f13be22"),
  ("framework/config/module/check_action.go:parseEnhancedCode", "09fb8bd2bca44007"),
  ("framework/config/module/check_action.go:type FailAction", "188a62456c6af3a2"),
  ("internal/msgpipeline/check_runner.go:checkRunner.applyResults", "7aa5b1a3a230ef0d"),
  ("internal/msgpipeline/check_runner.go:checkRunner.checkBody", "772d1186a2a91890"),
  ("internal/msgpipeline/check_runner.go:checkRunner.checkConnSender", "6a04d568e3e6a795"),
  ("internal/msgpipeline/check_runner.go:checkRunner.checkRcpt", "1b3553cdc4125320"),
  ("internal/msgpipeline/check_runner.go:checkRunner.checkRcptOnce", "c87723fd85520250"),
  ("internal/msgpipeline/check_runner.go:checkRunner.checkStates", "89a836a19d422e06"),
  ("internal/msgpipeline/check_runner.go:checkRunner.close", "e834eae43bae2264"),
  ("internal/msgpipeline/check_runner.go:checkRunner.runAndMergeResults", "3f1b9e96eeb78dc5"),
  ("internal/msgpipeline/check_runner.go:newCheckRunner", "ed0bad378403fdeb"),
  ("internal/msgpipeline/check_runner.go:type checkRunner", "565087d00ce2a137"),
  ("internal/msgpipeline/config.go:parseChecksGroup", "cd432d0de3bc4e1b"),
  ("internal/msgpipeline/config.go:parseEnhancedCode", "09fb8bd2bca44007"),
  ("internal/msgpipeline/config.go:parseModifiersGroup", "9a44ebf0f487f1ca"),
  ("internal/msgpipeline/config.go:parseMsgPipelineRcptCfg", "f75173010a223cbb"),
  ("internal/msgpipeline/config.go:parseMsgPipelineRootCfg", "f29b27a87cfeec9a"),
  ("internal/msgpipeline/config.go:parseMsgPipelineSrcCfg", "0e17158f5a09d249"),
  ("internal/msgpipeline/config.go:parseRejectDirective", "8088995939f9593b"),
  ("internal/msgpipeline/config.go:type msgpipelineCfg", "66b7381cae9aebcf"),
  ("internal/msgpipeline/config.go:type sourceIn", "db52ad3cfe4ec85e"),
  ("internal/msgpipeline/config.go:validMatchRule", "691ad6f172509cc5"),
  ("internal/msgpipeline/msgpipeline.go:MsgPipeline.Start", "9b9e3864f9de0ef6"),
  ("internal/msgpipeline/msgpipeline.go:msgpipelineDelivery.AddRcpt", "483b2d7e72200db8"),
  ("internal/msgpipeline/msgpipeline.go:msgpipelineDelivery.Body", "7dc627c0fe03620b"),
  ("internal/msgpipeline/msgpipeline.go:msgpipelineDelivery.BodyNonAtomic", "7b9e7db40807d5d7"),
  ("internal/msgpipeline/msgpipeline.go:msgpipelineDelivery.close", "11e4dc975ce697c4"),
  ("internal/msgpipeline/msgpipeline.go:msgpipelineDelivery.getRcptModifiers", "7e7c4123fc7b79b5"),
  ("internal/msgpipeline/msgpipeline.go:msgpipelineDelivery.initRunGlobalModifiers", "d90ac0fbbfed6854"),
  ("internal/msgpipeline/msgpipeline.go:msgpipelineDelivery.srcBlockForAddr", "ac85a9939a6cdf22"),
  ("internal/target/remote/remote.go:remoteDelivery.AddRcpt", "22f624f979db1f13"),
  ("internal/target/remote/remote.go:remoteDelivery.Body", "a554d8cda54e01ca"),
  ("internal/target/remote/remote.go:remoteDelivery.BodyNonAtomic", "74a666db1a05c9ea")
]

end MaddyVerif.Expect.FuncSkelC06
