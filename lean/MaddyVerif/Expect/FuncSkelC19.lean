-- BLESSED copy (bin/bless C19) of Generated/FuncSkelC19.lean: the tree the C19 model was written from and validated against.
namespace MaddyVerif.Expect.FuncSkelC19

/-- (declaration, fingerprint of its normalised text): comments, layout, local names and log/trace statements do not count -/
def funcs : List (String × String) := [
  ("internal/smtpconn/pool/pool.go:New", "c3b7ae85252fe9b6"),
  ("internal/smtpconn/pool/pool.go:P.CleanUp", "c27f70145cbfae20"),
  ("internal/smtpconn/pool/pool.go:P.Close", "a9395882b2af5e77"),
  ("internal/smtpconn/pool/pool.go:P.Get", "a874f6e08189d7f8"),
  ("internal/smtpconn/pool/pool.go:P.Return", "f7126ee7263bb843"),
  ("internal/smtpconn/pool/pool.go:P.cleanUpTick", "8a5ccd189d4e7d8a"),
  ("internal/smtpconn/pool/pool.go:type Config", "f8c866989314a2fb"),
  ("internal/smtpconn/pool/pool.go:type Conn", "c18ce1995d22cd78"),
  ("internal/smtpconn/pool/pool.go:type P", "cdfc8bb966adb55c"),
  ("internal/smtpconn/pool/pool.go:type slot", "f5771951da2f38b9"),
  ("internal/target/remote/connect.go:mxConn.Close", "a87c899a8b6f3ffb"),
  ("internal/target/remote/connect.go:mxConn.LastUseAt", "57d90aab20b0f7bb"),
  ("internal/target/remote/connect.go:mxConn.Usable", "ec8b3ccfb58bf1fd"),
  ("internal/target/remote/connect.go:remoteDelivery.connectionForDomain", "c9c06a28375d94f9"),
  ("internal/target/remote/connect.go:type mxConn", "0938ffdedf648f9d"),
  ("internal/target/remote/remote.go:Target.Close", "a42a23b96da6b8ed"),
  ("internal/target/remote/remote.go:Target.Start", "2d14a5510b0e30d0"),
  ("internal/target/remote/remote.go:remoteDelivery.Abort", "001ea450df388c8a"),
  ("internal/target/remote/remote.go:remoteDelivery.Close", "bf9edcac4df593d2"),
  ("internal/target/remote/remote.go:remoteDelivery.Commit", "e3c71d719df70692")
]

end MaddyVerif.Expect.FuncSkelC19
