-- BLESSED copy (bin/bless C13) of Generated/FuncSkelC13.lean: the tree the C13 model was written from and validated against.
namespace MaddyVerif.Expect.FuncSkelC13

/-- (declaration, fingerprint of its normalised text): comments, layout, local names and log/trace statements do not count -/
def funcs : List (String × String) := [
  ("framework/dns/dnssec.go:ExtResolver.AuthLookupAddr", "65d92385ad51a194"),
  ("framework/dns/dnssec.go:ExtResolver.AuthLookupCNAME", "ab87bf8ba1a24f38"),
  ("framework/dns/dnssec.go:ExtResolver.AuthLookupHost", "c78d1d557cd4b9dc"),
  ("framework/dns/dnssec.go:ExtResolver.AuthLookupIPAddr", "4fafea4f1f027143"),
  ("framework/dns/dnssec.go:ExtResolver.AuthLookupMX", "d8a1a05ffc6fc365"),
  ("framework/dns/dnssec.go:ExtResolver.AuthLookupTLSA", "c3c0c8796446cf7c"),
  ("framework/dns/dnssec.go:ExtResolver.AuthLookupTXT", "dbe8f9fff8f50fc7"),
  ("framework/dns/dnssec.go:ExtResolver.CheckCNAMEAD", "deba0b979715d91c"),
  ("framework/dns/dnssec.go:ExtResolver.exchange", "c790fd90c1f78540"),
  ("framework/dns/dnssec.go:IsNotFound", "6f6aaed7b444a590"),
  ("framework/dns/dnssec.go:NewExtResolver", "0b6b4ed8109a5956"),
  ("framework/dns/dnssec.go:RCodeError.Error", "0973f9a3506941c4"),
  ("framework/dns/dnssec.go:RCodeError.Temporary", "d1967107e8112a9e"),
  ("framework/dns/dnssec.go:isLoopback", "e857106f209db453"),
  ("framework/dns/dnssec.go:type ExtResolver", "7c35b0509d5a21eb"),
  ("framework/dns/dnssec.go:type RCodeError", "c9c367555fd263a9"),
  ("framework/dns/dnssec.go:type TLSA", "6a7f7e8889467d67"),
  ("internal/target/remote/connect.go:remoteDelivery.attemptMX", "4e4fc74a865825d1"),
  ("internal/target/remote/connect.go:remoteDelivery.connect", "e1c5b1ac86a44ff2"),
  ("internal/target/remote/dane.go:verifyDANE", "70fad5dc5bc554fe"),
  ("internal/target/remote/security.go:daneDelivery.CheckConn", "3650a0df52e21147"),
  ("internal/target/remote/security.go:daneDelivery.CheckMX", "9e668a7d7751404e"),
  ("internal/target/remote/security.go:daneDelivery.PrepareConn", "0d1d2dbfa1241290"),
  ("internal/target/remote/security.go:daneDelivery.PrepareDomain", "16a40e93345d653c"),
  ("internal/target/remote/security.go:daneDelivery.Reset", "6372c02bbb7b40a0"),
  ("internal/target/remote/security.go:daneDelivery.discoverTLSA", "89debd4a80e2e2e9")
]

end MaddyVerif.Expect.FuncSkelC13
