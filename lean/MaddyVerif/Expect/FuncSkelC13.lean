-- BLESSED copy (bin/bless C13) of Generated/FuncSkelC13.lean: the tree the C13 model was written from and validated against.
namespace MaddyVerif.Expect.FuncSkelC13

/-- (declaration, fingerprint of its normalised text): comments, layout, local names and log/trace statements do not count -/
def funcs : List (String × String) := [
  ("internal/target/remote/dane.go:verifyDANE", "70fad5dc5bc554fe"),
  ("internal/target/remote/security.go:daneDelivery.CheckConn", "3650a0df52e21147"),
  ("internal/target/remote/security.go:daneDelivery.PrepareConn", "0d1d2dbfa1241290"),
  ("internal/target/remote/security.go:daneDelivery.PrepareDomain", "16a40e93345d653c"),
  ("internal/target/remote/security.go:daneDelivery.Reset", "6372c02bbb7b40a0"),
  ("internal/target/remote/security.go:daneDelivery.discoverTLSA", "89debd4a80e2e2e9")
]

end MaddyVerif.Expect.FuncSkelC13
