-- BLESSED copy (bin/bless C10) of Generated/FuncSkelC10.lean: the tree the C10 model was written from and validated against.
namespace MaddyVerif.Expect.FuncSkelC10

/-- (declaration, fingerprint of its normalised text): comments, layout, local names and log/trace statements do not count -/
def funcs : List (String × String) := [
  ("framework/module/msgmetadata.go:MsgMetadata.DeepCopy", "c0d2cd14145168fe"),
  ("framework/module/msgmetadata.go:type ConnState", "07a13d2975e5d41f"),
  ("framework/module/msgmetadata.go:type MsgMetadata", "35edae60b069bca5"),
  ("internal/dsn/dsn.go:GenerateDSN", "cafaf64ea3d645c5"),
  ("internal/dsn/dsn.go:RecipientInfo.WriteTo", "b72ba0c09759afa4"),
  ("internal/dsn/dsn.go:ReportingMTAInfo.WriteTo", "d90ce91c764fedd2"),
  ("internal/dsn/dsn.go:fieldText", "beeceb906ec22a29"),
  ("internal/dsn/dsn.go:type Action", "15ada61402c8abb1"),
  ("internal/dsn/dsn.go:type Envelope", "f0614c26e1fe659a"),
  ("internal/dsn/dsn.go:type RecipientInfo", "0e279e2fb0ba3aba"),
  ("internal/dsn/dsn.go:type ReportingMTAInfo", "653f952fbb19e250"),
  ("internal/dsn/dsn.go:writeHeader", "f4d399f446a887e0"),
  ("internal/dsn/dsn.go:writeHumanReadablePart", "17b9a08d4f6d92e6"),
  ("internal/dsn/dsn.go:writeMachineReadablePart", "17ff9620a7504ce3"),
  ("internal/target/queue/queue.go:NewQueue", "9b38ba9eb41e6c6a"),
  ("internal/target/queue/queue.go:Queue.Init", "d2084dcbd9e45597"),
  ("internal/target/queue/queue.go:Queue.Start", "a3de4613def4b988"),
  ("internal/target/queue/queue.go:Queue.deliver", "f9c76cc6fc51885f"),
  ("internal/target/queue/queue.go:Queue.dispatch", "b74f41bd2cc3ee79"),
  ("internal/target/queue/queue.go:Queue.emitDSN", "1e8fbe65a4db35c1"),
  ("internal/target/queue/queue.go:Queue.openMessage", "e860a325c84bd4f8"),
  ("internal/target/queue/queue.go:Queue.readDiskQueue", "d542914f9b1ab176"),
  ("internal/target/queue/queue.go:Queue.readMessageMeta", "02d7c83723fce1d9"),
  ("internal/target/queue/queue.go:Queue.start", "a4e479478358da31"),
  ("internal/target/queue/queue.go:Queue.storeNewMessage", "b3c9b8f26b968111"),
  ("internal/target/queue/queue.go:Queue.tryDelivery", "6590e3a3ec4082a2"),
  ("internal/target/queue/queue.go:Queue.updateMetadataOnDisk", "53af3a3781a30de7"),
  ("internal/target/queue/queue.go:queueDelivery.AddRcpt", "1c2d0bd0d73f0bb3"),
  ("internal/target/queue/queue.go:queueDelivery.Body", "606384d3a1d9a91b"),
  ("internal/target/queue/queue.go:queueDelivery.Commit", "b547da9a6ba96ed8"),
  ("internal/target/queue/queue.go:type QueueMetadata", "a01e328f233b5521")
]

end MaddyVerif.Expect.FuncSkelC10
