-- BLESSED copy (bin/bless C10) of Generated/FuncSkelC10.lean: the tree the C10 model was written from and validated against.
namespace MaddyVerif.Expect.FuncSkelC10

/-- (declaration, fingerprint of its normalised text): comments, layout, local names and log/trace statements do not count -/
def funcs : List (String × String) := [
  ("framework/module/msgmetadata.go:MsgMetadata.DeepCopy", "c0d2cd14145168fe"),
  ("framework/module/msgmetadata.go:type ConnState", "07a13d2975e5d41f"),
  ("framework/module/msgmetadata.go:type MsgMetadata", "35edae60b069bca5"),
  ("internal/target/queue/queue.go:Queue.Start", "a3de4613def4b988"),
  ("internal/target/queue/queue.go:Queue.deliver", "f9c76cc6fc51885f"),
  ("internal/target/queue/queue.go:Queue.openMessage", "e860a325c84bd4f8"),
  ("internal/target/queue/queue.go:Queue.readDiskQueue", "d542914f9b1ab176"),
  ("internal/target/queue/queue.go:Queue.readMessageMeta", "02d7c83723fce1d9"),
  ("internal/target/queue/queue.go:Queue.storeNewMessage", "b3c9b8f26b968111"),
  ("internal/target/queue/queue.go:Queue.updateMetadataOnDisk", "53af3a3781a30de7"),
  ("internal/target/queue/queue.go:queueDelivery.AddRcpt", "1c2d0bd0d73f0bb3"),
  ("internal/target/queue/queue.go:queueDelivery.Body", "606384d3a1d9a91b"),
  ("internal/target/queue/queue.go:queueDelivery.Commit", "b547da9a6ba96ed8"),
  ("internal/target/queue/queue.go:type QueueMetadata", "a01e328f233b5521")
]

end MaddyVerif.Expect.FuncSkelC10
