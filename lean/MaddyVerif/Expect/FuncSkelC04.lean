-- BLESSED copy (bin/bless C04) of Generated/FuncSkelC04.lean: the tree the C04 model was written from and validated against.
namespace MaddyVerif.Expect.FuncSkelC04

/-- (declaration, fingerprint of its normalised text): comments, layout, local names and log/trace statements do not count -/
def funcs : List (String × String) := [
  ("framework/address/norm.go:ForLookup", "b44bc88d5db8964d"),
  ("framework/dns/idna.go:SelectIDNA", "0e2c178b1a0de365"),
  ("framework/dns/idna.go:ToUnicode", "7a4171a12e750641"),
  ("framework/dns/norm.go:ForLookup", "db7766b1858341fc"),
  ("internal/modify/group.go:Group.Init", "8a7190be7d77877e"),
  ("internal/modify/group.go:Group.InstanceName", "710ae792e8e9ac1d"),
  ("internal/modify/group.go:Group.ModStateForMsg", "8969d9aadbc7c26c"),
  ("internal/modify/group.go:Group.Name", "446ecdc662d5bee0"),
  ("internal/modify/group.go:groupState.Close", "541e326fe1621ae5"),
  ("internal/modify/group.go:groupState.RewriteBody", "b86b0c03febb3e0c"),
  ("internal/modify/group.go:groupState.RewriteRcpt", "ca562cc899e7c16c"),
  ("internal/modify/group.go:groupState.RewriteSender", "dd6edf4b615e7521"),
  ("internal/modify/group.go:init", "603c8b1b14993320"),
  ("internal/modify/group.go:type Group", "7dc0a93cdb0196ca"),
  ("internal/modify/group.go:type groupState", "171b162ec41164a4"),
  ("internal/msgpipeline/config.go:parseChecksGroup", "cd432d0de3bc4e1b"),
  ("internal/msgpipeline/config.go:parseEnhancedCode", "09fb8bd2bca44007"),
  ("internal/msgpipeline/config.go:parseModifiersGroup", "9a44ebf0f487f1ca"),
  ("internal/msgpipeline/config.go:parseMsgPipelineRcptCfg", "f75173010a223cbb"),
  ("internal/msgpipeline/config.go:parseMsgPipelineRootCfg", "f29b27a87cfeec9a"),
  ("internal/msgpipeline/config.go:parseMsgPipelineSrcCfg", "0e17158f5a09d249"),
  ("internal/msgpipeline/config.go:parseRejectDirective", "8088995939f9593b"),
  ("internal/msgpipeline/config.go:type msgpipelineCfg", "66b7381cae9aebcf"),
  ("internal/msgpipeline/config.go:type sourceIn", "db52ad3cfe4ec85e"),
  ("internal/msgpipeline/config.go:validMatchRule", "691ad6f172509cc5"),
  ("internal/msgpipeline/msgpipeline.go:MsgPipeline.Start", "9b9e3864f9de0ef6"),
  ("internal/msgpipeline/msgpipeline.go:msgpipelineDelivery.AddRcpt", "483b2d7e72200db8"),
  ("internal/msgpipeline/msgpipeline.go:msgpipelineDelivery.getDelivery", "dc504feb895154cd"),
  ("internal/msgpipeline/msgpipeline.go:msgpipelineDelivery.rcptBlockForAddr", "85340c694dae1c5e"),
  ("internal/msgpipeline/msgpipeline.go:msgpipelineDelivery.srcBlockForAddr", "ac85a9939a6cdf22")
]

end MaddyVerif.Expect.FuncSkelC04
