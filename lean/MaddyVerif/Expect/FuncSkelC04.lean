-- BLESSED copy (bin/bless C04) of Generated/FuncSkelC04.lean: the tree the C04 model was written from and validated against.
namespace MaddyVerif.Expect.FuncSkelC04

/-- (declaration, fingerprint of its normalised text): comments, layout, local names and log/trace statements do not count -/
def funcs : List (String × String) := [
  ("framework/address/norm.go:ForLookup", "b44bc88d5db8964d"),
  ("framework/dns/norm.go:ForLookup", "db7766b1858341fc"),
  ("internal/msgpipeline/config.go:parseMsgPipelineRcptCfg", "f75173010a223cbb"),
  ("internal/msgpipeline/config.go:parseMsgPipelineRootCfg", "f29b27a87cfeec9a"),
  ("internal/msgpipeline/config.go:parseMsgPipelineSrcCfg", "0e17158f5a09d249"),
  ("internal/msgpipeline/msgpipeline.go:msgpipelineDelivery.AddRcpt", "4a921086f6367c2d"),
  ("internal/msgpipeline/msgpipeline.go:msgpipelineDelivery.rcptBlockForAddr", "85340c694dae1c5e"),
  ("internal/msgpipeline/msgpipeline.go:msgpipelineDelivery.srcBlockForAddr", "ac85a9939a6cdf22")
]

end MaddyVerif.Expect.FuncSkelC04
