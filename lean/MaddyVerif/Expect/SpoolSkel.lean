import MaddyVerif.Generated.SpoolSkel
/-!
Hand-written expectation: the file-system call skeleton of the spool procedures of
`internal/target/queue/queue.go` that `Model/SpoolFS.lean` was written from (after the fix that
syncs header and body before the metadata is committed).  `Props/C02.lean` proves by `decide` that
the skeleton regenerated from the current tree equals this one, and that the model's operation
lists are its main (non-error, non-Windows) path.
-/
namespace MaddyVerif.Expect.SpoolSkel
open MaddyVerif.Generated.SpoolSkel (Call)

def storeNewMessage : List Call := [
  ⟨"Create", ".header", false, false⟩,
  ⟨"Write", ".header", false, false⟩,
  ⟨"Call:tryRemoveDanglingFile", ".header", true, false⟩,
  ⟨"Call:tryRemoveDanglingFile", ".header", true, false⟩,
  ⟨"Create", ".body", false, false⟩,
  ⟨"Write", ".body", false, false⟩,
  ⟨"Call:tryRemoveDanglingFile", ".body", true, false⟩,
  ⟨"Call:tryRemoveDanglingFile", ".header", true, false⟩,
  ⟨"Sync", ".header", false, false⟩,
  ⟨"Call:tryRemoveDanglingFile", ".body", true, false⟩,
  ⟨"Call:tryRemoveDanglingFile", ".header", true, false⟩,
  ⟨"Sync", ".body", false, false⟩,
  ⟨"Call:tryRemoveDanglingFile", ".body", true, false⟩,
  ⟨"Call:tryRemoveDanglingFile", ".header", true, false⟩,
  ⟨"Call:updateMetadataOnDisk", "", false, false⟩,
  ⟨"Call:tryRemoveDanglingFile", ".body", true, false⟩,
  ⟨"Call:tryRemoveDanglingFile", ".header", true, false⟩]

def updateMetadataOnDisk : List Call := [
  ⟨"Create", ".meta", false, true⟩,
  ⟨"Create", ".meta.new", false, false⟩,
  ⟨"Write", ".meta.new", false, false⟩,
  ⟨"Sync", ".meta.new", false, false⟩,
  ⟨"Rename", ".meta.new>.meta", false, false⟩]

def removeFromDisk : List Call := [
  ⟨"Remove", ".header", false, false⟩,
  ⟨"Remove", ".body", false, false⟩,
  ⟨"Remove", ".meta", false, false⟩]

def readDiskQueue : List Call := [
  ⟨"ReadDir", "", false, false⟩,
  ⟨"Call:readMessageMeta", "", false, false⟩,
  ⟨"Stat", ".header", false, false⟩,
  ⟨"Call:tryRemoveDanglingFile", ".meta", true, false⟩,
  ⟨"Call:tryRemoveDanglingFile", ".body", true, false⟩,
  ⟨"Stat", ".body", false, false⟩,
  ⟨"Call:tryRemoveDanglingFile", ".meta", true, false⟩,
  ⟨"Call:tryRemoveDanglingFile", ".header", true, false⟩,
  ⟨"WheelAdd", "", false, false⟩]

def openMessage : List Call := [
  ⟨"Call:readMessageMeta", "", false, false⟩,
  ⟨"Stat", ".body", false, false⟩,
  ⟨"Call:tryRemoveDanglingFile", ".meta", true, false⟩,
  ⟨"Open", ".header", false, false⟩,
  ⟨"Call:tryRemoveDanglingFile", ".meta", true, false⟩,
  ⟨"Call:tryRemoveDanglingFile", ".body", true, false⟩,
  ⟨"Read", ".header", false, false⟩]

def readMessageMeta : List Call := [
  ⟨"Open", ".meta", false, false⟩,
  ⟨"Read", ".meta", false, false⟩]

def tryRemoveDanglingFile : List Call := [
  ⟨"Remove", "", false, false⟩]

def discardBroken : List Call := [
  ⟨"Rename", ".meta>.meta_broken", false, false⟩]

def Queue_tryDelivery : List Call := [
  ⟨"Call:deliver", "", false, false⟩,
  ⟨"Call:emitDSN", "", false, false⟩,
  ⟨"Call:removeFromDisk", "", false, false⟩,
  ⟨"Call:updateMetadataOnDisk", "", false, false⟩,
  ⟨"WheelAdd", "", false, false⟩]

def queueDelivery_Body : List Call := [
  ⟨"Call:storeNewMessage", "", false, false⟩]

def queueDelivery_Abort : List Call := [
  ⟨"Call:removeFromDisk", "", false, false⟩]

def queueDelivery_Commit : List Call := [
  ⟨"WheelAdd", "", false, false⟩]

end MaddyVerif.Expect.SpoolSkel
