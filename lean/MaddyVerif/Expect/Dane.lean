/-! Hand-written expectations the regenerated facts of `verifyDANE` / `CheckConn` (Generated/DaneFacts.lean)
are compared with: the control skeleton the model `Model/Dane.lean` was written from. -/
namespace MaddyVerif.Expect.Dane

/-- `if` conditions of `verifyDANE`, in source order -/
def conds : List String := [
  "len(recs) == 0",
  "!connState.HandshakeComplete",
  "len(eeRecs) == 0 && len(taRecs) == 0",
  "rec.Verify(connState.PeerCertificates[0]) == nil",
  "len(taRecs) == 0",
  "cert.IsCA && rec.Verify(cert) == nil",
  "!root",
  "err == nil"
]

/-- return statements of `daneDelivery.CheckConn`, in source order -/
def checkConnReturns : List (String × String) := [
  ("module.TLSNone", "nil"),
  ("module.TLSNone", "nil"),
  ("module.TLSNone", "exterrors.WithTemporary(err, true)"),
  ("module.TLSNone", "err"),
  ("module.TLSAuthenticated", "nil"),
  ("module.TLSNone", "nil")
]

/-- `if` conditions of `daneDelivery.CheckConn`, in source order -/
def checkConnConds : List String := [
  "c.c.extResolver == nil",
  "err != nil",
  "dns.IsNotFound(err)",
  "err != nil",
  "overridePKIX"
]

/-- `if` conditions of `daneDelivery.discoverTLSA`, in source order -/
def discoverConds : List String := [
  "err != nil",
  "rname == \"\"",
  "!adA",
  "rname == mx",
  "err != nil",
  "!cnameAD",
  "rname != mx",
  "err != nil && !dns.IsNotFound(err)",
  "ad && len(recs) != 0",
  "err != nil && !dns.IsNotFound(err)",
  "!ad"
]

/-- return statements of `daneDelivery.discoverTLSA`, in source order -/
def discoverReturns : List String := [
  "nil, err",
  "nil, errors.New(\"no address associated with the host\")",
  "nil, nil",
  "nil, err",
  "nil, nil",
  "nil, err",
  "recs, nil",
  "nil, err",
  "nil, nil",
  "recs, nil"
]

end MaddyVerif.Expect.Dane
