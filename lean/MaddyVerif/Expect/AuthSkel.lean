/-!
Hand-written expectations about the shape of the anchored Go functions that `Model/Auth.lean` was written
from.  The C14 harness re-derives each fact from the CURRENT source files (go/ast, inside the injected test)
on every run; the driver answers with the expectation; a difference is a correspondence divergence.

Each fact is the ordered list of the relevant calls (printed by go/printer, blanks removed) in the body of
the named function or closure, or the text of a condition.
-/
namespace MaddyVerif.Expect.AuthSkel

def facts : List (String × String) := [
  -- internal/auth/sasl.go, CreateSASL, closure handed to sasl.NewPlainServer:
  -- the user name is mapped once (inside AuthPlain); the identity reported is the supplied one
  ("plain-closure", "s.AuthPlain(username,password) successCb(identity)"),
  -- closure handed to sasllogin.NewLoginServer: same shape (after the fix: no usernameForAuth call of its own)
  ("login-closure", "s.AuthPlain(username,password) successCb(username)"),
  -- SASLAuth.AuthPlain: map once per provider, authenticate the mapped name
  ("sasl-authplain", "s.usernameForAuth(context.TODO(),username) p.AuthPlain(mappedUsername,password)"),
  -- SASLAuth.usernameForAuth: normalise, then look up
  ("username-for-auth", "s.AuthNormalize(saslUsername) s.AuthMap.Lookup(ctx,saslUsername)"),
  -- pass_table: every entry point derives the key with the same PRECIS profile
  ("table-keys", "AuthPlain:precis.UsernameCaseMapped.CompareKey(username) CreateUserHash:precis.UsernameCaseMapped.CompareKey(username) SetUserPassword:precis.UsernameCaseMapped.CompareKey(username) DeleteUser:precis.UsernameCaseMapped.CompareKey(username)"),
  -- internal/endpoint/smtp/session.go, Session.Mail: the first statement is the gate
  ("mail-gate", "if s.endp.authAlwaysRequired&&s.connState.AuthUser==\"\" return smtp.ErrAuthRequired"),
  -- Session.Auth: the success callback stores the identity that the gate tests
  ("session-auth", "s.connState.AuthUser=identity")
]

def lookup (name : String) : Option String :=
  (facts.find? (fun p => p.1 == name)).map (·.2)

end MaddyVerif.Expect.AuthSkel
