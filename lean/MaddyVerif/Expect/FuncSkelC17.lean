-- BLESSED copy (bin/bless C17) of Generated/FuncSkelC17.lean: the tree the C17 model was written from and validated against.
namespace MaddyVerif.Expect.FuncSkelC17

/-- (declaration, fingerprint of its normalised text): comments, layout, local names and log/trace statements do not count -/
def funcs : List (String × String) := [
  ("framework/address/norm.go:CleanDomain", "e67eccbc0b729fe1"),
  ("framework/address/norm.go:Equal", "5d58a4209ba685f3"),
  ("framework/address/norm.go:FQDNDomain", "af0670beac44cc39"),
  ("framework/address/norm.go:ForLookup", "b44bc88d5db8964d"),
  ("framework/address/norm.go:IsASCII", "5e5f3987262bbd2d"),
  ("framework/address/norm.go:PRECIS", "50e63379022eeee7"),
  ("framework/address/norm.go:PRECISFold", "c166d7b28d01cd69"),
  ("framework/address/norm.go:precisEmail", "fc42a32e3f237561"),
  ("framework/address/rfc6531.go:SelectIDNA", "e0700e941932dff7"),
  ("framework/address/rfc6531.go:ToASCII", "8bd2a2da575de4f6"),
  ("framework/address/rfc6531.go:ToUnicode", "13347bc8d63ff816"),
  ("framework/address/split.go:QuoteMbox", "9f5d50d7d567e820"),
  ("framework/address/split.go:Split", "2149bd8e40fd6735"),
  ("framework/address/split.go:UnquoteMbox", "1af0b63a82816d66"),
  ("framework/address/validation.go:Valid", "178bb36a9de42c64"),
  ("framework/address/validation.go:ValidDomain", "ea1468015123840b"),
  ("framework/address/validation.go:ValidMailboxName", "98e86c66ed0a4ead"),
  ("framework/dns/idna.go:SelectIDNA", "0e2c178b1a0de365"),
  ("framework/dns/idna.go:ToUnicode", "7a4171a12e750641"),
  ("framework/dns/norm.go:Equal", "5d58a4209ba685f3"),
  ("framework/dns/norm.go:FQDN", "9c7753f434886638"),
  ("framework/dns/norm.go:ForLookup", "db7766b1858341fc")
]

end MaddyVerif.Expect.FuncSkelC17
