-- BLESSED copy (bin/bless C17) of Generated/FuncSkelC17.lean: the tree the C17 model was written from and validated against.
namespace MaddyVerif.Expect.FuncSkelC17

/-- (declaration, fingerprint of its normalised text): comments, layout, local names and log/trace statements do not count -/
def funcs : List (String × String) := [
  ("framework/address/norm.go:CleanDomain", "e67eccbc0b729fe1"),
  ("framework/address/norm.go:Equal", "5d58a4209ba685f3"),
  ("framework/address/norm.go:ForLookup", "b44bc88d5db8964d"),
  ("framework/address/norm.go:IsASCII", "5e5f3987262bbd2d"),
  ("framework/address/rfc6531.go:ToASCII", "8bd2a2da575de4f6"),
  ("framework/address/rfc6531.go:ToUnicode", "13347bc8d63ff816"),
  ("framework/address/split.go:QuoteMbox", "9f5d50d7d567e820"),
  ("framework/address/split.go:Split", "2149bd8e40fd6735"),
  ("framework/address/split.go:UnquoteMbox", "1af0b63a82816d66"),
  ("framework/dns/norm.go:Equal", "5d58a4209ba685f3"),
  ("framework/dns/norm.go:ForLookup", "db7766b1858341fc")
]

end MaddyVerif.Expect.FuncSkelC17
