/-! Hand-written expectations the regenerated facts of C10 are compared with
(`Generated/MetaFields.lean`: reflection over `queue.QueueMetadata`;
`Generated/MetaEnc.lean`: go/ast skeleton of the (de)serialisation code). -/
namespace MaddyVerif.Expect.MetaFields

/-- The fields the property says must survive the spool: (path, kind, element kinds).
`MsgMeta` and `SMTPOpts` are the structs on the way; `ID` names the spool files. -/
def mustPreserve : List (List String × String × String) := [
  (["From"], "string", ""),
  (["To"], "slice", "string"),
  (["MsgMeta"], "struct", ""),
  (["MsgMeta", "ID"], "string", ""),
  (["MsgMeta", "OriginalFrom"], "string", ""),
  (["MsgMeta", "OriginalRcpts"], "map", "string->string"),
  (["MsgMeta", "SMTPOpts"], "struct", ""),
  (["MsgMeta", "SMTPOpts", "UTF8"], "bool", ""),
  (["MsgMeta", "SMTPOpts", "RequireTLS"], "bool", ""),
  (["MsgMeta", "TLSRequireOverride"], "bool", "")
]

/-- the struct that holds the connection state (and with it everything a client authenticated
with); `updateMetadataOnDisk` sets this field to nil before encoding -/
def connPath : List String := ["MsgMeta", "Conn"]

/-- Fields outside `Conn` whose NAME matches the credential markers, each reviewed:
* `SMTPOpts.Auth`: the RFC 4954 `AUTH=<mailbox>` parameter of MAIL FROM - envelope data supplied
  in the clear by the client like the sender address itself, not what it authenticated with
  (that is `ConnState.AuthUser` / `AuthPassword`, filled by the SASL exchange). -/
def reviewedNotCredential : List (List String) := [["MsgMeta", "SMTPOpts", "Auth"]]

/-- `updateMetadataOnDisk`: copy the struct, copy the message metadata, drop the connection state
of the COPY, encode the copy. -/
def updateSkeleton : List String := [
  "metaCopy := *meta",
  "metaCopy.MsgMeta = meta.MsgMeta.DeepCopy()",
  "metaCopy.MsgMeta.Conn = nil",
  "err := json.NewEncoder(file).Encode(metaCopy)"
]

def readSkeleton : List String := [
  "meta := &QueueMetadata{}",
  "meta.MsgMeta = &module.MsgMetadata{}",
  "err := json.NewDecoder(file).Decode(meta)",
  "return meta, nil"
]

def deepCopyBody : List String := ["cpy := *msgMeta", "return &cpy"]

/-- the only places the queue package creates, renames or writes files: header and body of a new
message, the metadata document (temporary name, then rename), and the `.meta_broken` rename -/
def writers : List String := [
  "discardBroken: os.Rename(filepath.Join(q.location, id+\".meta\"), filepath.Join(q.location, id+\".meta_broken\"))",
  "storeNewMessage: os.Create(headerPath)",
  "storeNewMessage: textproto.WriteHeader(headerFile, header)",
  "storeNewMessage: os.Create(bodyPath)",
  "storeNewMessage: io.Copy(bodyFile, bodyReader)",
  "updateMetadataOnDisk: os.Create(metaPath)",
  "updateMetadataOnDisk: os.Create(metaPath + \".new\")",
  "updateMetadataOnDisk: json.NewEncoder(file).Encode(metaCopy)",
  "updateMetadataOnDisk: json.NewEncoder(file)",
  "updateMetadataOnDisk: os.Rename(metaPath+\".new\", metaPath)"
]

end MaddyVerif.Expect.MetaFields
