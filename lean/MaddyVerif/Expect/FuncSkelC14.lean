-- BLESSED copy (bin/bless C14) of Generated/FuncSkelC14.lean: the tree the C14 model was written from and validated against.
namespace MaddyVerif.Expect.FuncSkelC14

/-- (declaration, fingerprint of its normalised text): comments, layout, local names and log/trace statements do not count -/
def funcs : List (String × String) := [
  ("internal/auth/pass_table/hash.go:addSHA256", "33f838f12d916875"),
  ("internal/auth/pass_table/hash.go:computeArgon2", "cc9b449879cb1da6"),
  ("internal/auth/pass_table/hash.go:computeBcrypt", "1174365933f4f3ae"),
  ("internal/auth/pass_table/hash.go:computeSHA256", "6e262101d20066d4"),
  ("internal/auth/pass_table/hash.go:type FuncHashCompute", "3c8c46ddbc27232a"),
  ("internal/auth/pass_table/hash.go:type FuncHashVerify", "7edbbe9b7c2a5718"),
  ("internal/auth/pass_table/hash.go:type HashOpts", "bd9b8aaeb562818d"),
  ("internal/auth/pass_table/hash.go:verifyArgon2", "7140d4cb07941e37"),
  ("internal/auth/pass_table/hash.go:verifyBcrypt", "9f8691fab49265a8"),
  ("internal/auth/pass_table/hash.go:verifySHA256", "3891d0d9cfbcfe30"),
  ("internal/auth/pass_table/table.go:Auth.AuthPlain", "8fbe2115c41f6f60"),
  ("internal/auth/pass_table/table.go:Auth.CreateUser", "14fb36ebde42b542"),
  ("internal/auth/pass_table/table.go:Auth.CreateUserHash", "bab1165f36564db1"),
  ("internal/auth/pass_table/table.go:Auth.DeleteUser", "07d434bdccc5657b"),
  ("internal/auth/pass_table/table.go:Auth.Init", "bcdba0ee9f1d8cbf"),
  ("internal/auth/pass_table/table.go:Auth.InstanceName", "371f57b19113e3b1"),
  ("internal/auth/pass_table/table.go:Auth.ListUsers", "ac3a4eab7f306ef8"),
  ("internal/auth/pass_table/table.go:Auth.Lookup", "89f8e29f2818a1f0"),
  ("internal/auth/pass_table/table.go:Auth.Name", "3dd65e269e4052e9"),
  ("internal/auth/pass_table/table.go:Auth.SetUserPassword", "5d466c6dec80fcac"),
  ("internal/auth/pass_table/table.go:New", "d5b677a9a7a0e7cb"),
  ("internal/auth/pass_table/table.go:init", "df6f3b164fc646a6"),
  ("internal/auth/pass_table/table.go:type Auth", "915f51b29ac25be7"),
  ("internal/auth/sasl.go:FailingSASLServ.Next", "4b3808d36b47ca21"),
  ("internal/auth/sasl.go:SASLAuth.AddProvider", "48a30020af532331"),
  ("internal/auth/sasl.go:SASLAuth.AuthPlain", "a357cae13a5495fc"),
  ("internal/auth/sasl.go:SASLAuth.CreateSASL", "f2cba99bbf118ea3"),
  ("internal/auth/sasl.go:SASLAuth.SASLMechanisms", "b0cb730e7491c0ea"),
  ("internal/auth/sasl.go:SASLAuth.usernameForAuth", "845d8894d1389ba6"),
  ("internal/auth/sasl.go:type ContextData", "a22731aafc810e64"),
  ("internal/auth/sasl.go:type FailingSASLServ", "8c954f3764e69b1c"),
  ("internal/auth/sasl.go:type SASLAuth", "edf129f67ae0716b"),
  ("internal/authz/normalization.go:NormalizeAuto", "469169839aed8fca"),
  ("internal/authz/normalization.go:NormalizeNoop", "578c5e58653bd003"),
  ("internal/authz/normalization.go:type NormalizeFunc", "4472b469f6958871"),
  ("internal/endpoint/smtp/session.go:Session.Auth", "824172581d721d4f"),
  ("internal/endpoint/smtp/session.go:Session.AuthPlain", "ee043220ec359376"),
  ("internal/endpoint/smtp/session.go:Session.Mail", "23b0bf968b797f19")
]

end MaddyVerif.Expect.FuncSkelC14
