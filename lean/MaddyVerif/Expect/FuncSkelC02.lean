-- BLESSED copy (bin/bless C02) of Generated/FuncSkelC02.lean: the tree the C02 model was written from and validated against.
namespace MaddyVerif.Expect.FuncSkelC02

/-- (declaration, fingerprint of its normalised text): comments, layout, local names and log/trace statements do not count -/
def funcs : List (String × String) := [
  ("internal/target/queue/queue.go:Queue.Start", "a3de4613def4b988"),
  ("internal/target/queue/queue.go:Queue.deliver", "f9c76cc6fc51885f"),
  ("internal/target/queue/queue.go:Queue.discardBroken", "3ac6ddf738a3bb6f"),
  ("internal/target/queue/queue.go:Queue.dispatch", "b74f41bd2cc3ee79"),
  ("internal/target/queue/queue.go:Queue.emitDSN", "1e8fbe65a4db35c1"),
  ("internal/target/queue/queue.go:Queue.openMessage", "e860a325c84bd4f8"),
  ("internal/target/queue/queue.go:Queue.readDiskQueue", "d542914f9b1ab176"),
  ("internal/target/queue/queue.go:Queue.readMessageMeta", "02d7c83723fce1d9"),
  ("internal/target/queue/queue.go:Queue.removeFromDisk", "1d3b0d430214cab6"),
  ("internal/target/queue/queue.go:Queue.storeNewMessage", "b3c9b8f26b968111"),
  ("internal/target/queue/queue.go:Queue.tryDelivery", "6590e3a3ec4082a2"),
  ("internal/target/queue/queue.go:Queue.tryRemoveDanglingFile", "065fbf2203f8153f"),
  ("internal/target/queue/queue.go:Queue.updateMetadataOnDisk", "53af3a3781a30de7"),
  ("internal/target/queue/queue.go:queueDelivery.Abort", "6ee9c17673a86668"),
  ("internal/target/queue/queue.go:queueDelivery.AddRcpt", "1c2d0bd0d73f0bb3"),
  ("internal/target/queue/queue.go:queueDelivery.Body", "606384d3a1d9a91b"),
  ("internal/target/queue/queue.go:queueDelivery.Commit", "b547da9a6ba96ed8"),
  ("internal/target/queue/queue.go:type QueueMetadata", "a01e328f233b5521"),
  ("internal/target/queue/timewheel.go:TimeWheel.Add", "5ef7003f9d35d94b"),
  ("internal/target/queue/timewheel.go:TimeWheel.Close", "59194037da60a83e")
]

end MaddyVerif.Expect.FuncSkelC02
