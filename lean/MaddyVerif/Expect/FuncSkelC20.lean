-- BLESSED copy (bin/bless C20) of Generated/FuncSkelC20.lean: the tree the C20 model was written from and validated against.
namespace MaddyVerif.Expect.FuncSkelC20

/-- (declaration, fingerprint of its normalised text): comments, layout, local names and log/trace statements do not count -/
def funcs : List (String × String) := [
  ("framework/cfgparser/env.go:buildEnvReplacer", "3a0cadaaef2c07ff"),
  ("framework/cfgparser/env.go:expandEnvironment", "7e962e2fb6563bd6"),
  ("framework/cfgparser/env.go:removeUnexpandedEnvvars", "152539abfb53acae"),
  ("framework/cfgparser/imports.go:parseContext.expandImports", "af14345d2f6649e5"),
  ("framework/cfgparser/imports.go:parseContext.expandMacros", "6d0b27a397b195d8"),
  ("framework/cfgparser/parse.go:Read", "bf2517d27fd17ff8"),
  ("framework/cfgparser/parse.go:parseContext.readNode", "7a7997b238dfa04b"),
  ("framework/cfgparser/parse.go:parseContext.readNodes", "9275820e0e172cca"),
  ("framework/cfgparser/parse.go:readTree", "56ff0616d5baa4d1"),
  ("framework/cfgparser/parse.go:validateNodeName", "801fa3b4b01ad852"),
  ("framework/config/lexer/lexer.go:lexer.next", "3e50ceaf9c0302a0")
]

end MaddyVerif.Expect.FuncSkelC20
