-- BLESSED copy (bin/bless C15) of Generated/FuncSkelC15.lean: the tree the C15 model was written from and validated against.
namespace MaddyVerif.Expect.FuncSkelC15

/-- (declaration, fingerprint of its normalised text): comments, layout, local names and log/trace statements do not count -/
def funcs : List (String × String) := [
  ("internal/authz/lookup.go:AuthorizeEmailUse", "dd81c30de13bb7c2"),
  ("internal/check/authorize_sender/authorize_sender.go:state.CheckBody", "bad3d6ab27502134"),
  ("internal/check/authorize_sender/authorize_sender.go:state.CheckSender", "b6797fdec0d3ccac"),
  ("internal/check/authorize_sender/authorize_sender.go:state.authzSender", "4d292032593f159c"),
  ("internal/endpoint/smtp/submission.go:Session.submissionPrepare", "b32560a1fe86f8f8")
]

end MaddyVerif.Expect.FuncSkelC15
