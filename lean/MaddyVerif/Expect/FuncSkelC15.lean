-- BLESSED copy (bin/bless C15) of Generated/FuncSkelC15.lean: the tree the C15 model was written from and validated against.
namespace MaddyVerif.Expect.FuncSkelC15

/-- (declaration, fingerprint of its normalised text): comments, layout, local names and log/trace statements do not count -/
def funcs : List (String × String) := [
  ("framework/config/module/check_action.go:FailAction.Apply", "00e744fd3ad38739"),
  ("framework/config/module/check_action.go:FailActionDirective", "95519f5afb7f4b3d"),
  ("framework/config/module/check_action.go:ParseActionDirective", "b95b081e8517768a"),
  ("framework/config/module/check_action.go:ParseRejectDirective", "dae4612b5f13be22"),
  ("framework/config/module/check_action.go:parseEnhancedCode", "09fb8bd2bca44007"),
  ("framework/config/module/check_action.go:type FailAction", "188a62456c6af3a2"),
  ("internal/authz/lookup.go:AuthorizeEmailUse", "94f1de250ae92d0e"),
  ("internal/authz/normalization.go:NormalizeAuto", "469169839aed8fca"),
  ("internal/authz/normalization.go:NormalizeNoop", "578c5e58653bd003"),
  ("internal/authz/normalization.go:type NormalizeFunc", "4472b469f6958871"),
  ("internal/check/authorize_sender/authorize_sender.go:Check.CheckStateForMsg", "7031880a6870106b"),
  ("internal/check/authorize_sender/authorize_sender.go:Check.Init", "ea5f4371aefb363d"),
  ("internal/check/authorize_sender/authorize_sender.go:Check.InstanceName", "13d0cff2584d7cf7"),
  ("internal/check/authorize_sender/authorize_sender.go:Check.Name", "a6f42d1ad17b8732"),
  ("internal/check/authorize_sender/authorize_sender.go:New", "ae718177ea9e7968"),
  ("internal/check/authorize_sender/authorize_sender.go:init", "fdf99b2f8548cfab"),
  ("internal/check/authorize_sender/authorize_sender.go:state.CheckBody", "bad3d6ab27502134"),
  ("internal/check/authorize_sender/authorize_sender.go:state.CheckConnection", "85286509ed709d0e"),
  ("internal/check/authorize_sender/authorize_sender.go:state.CheckRcpt", "29aa4aa3d146c987"),
  ("internal/check/authorize_sender/authorize_sender.go:state.CheckSender", "b6797fdec0d3ccac"),
  ("internal/check/authorize_sender/authorize_sender.go:state.Close", "328b2ac1f062eca2"),
  ("internal/check/authorize_sender/authorize_sender.go:state.authzSender", "4d292032593f159c"),
  ("internal/check/authorize_sender/authorize_sender.go:type Check", "048a0a501c20b47c"),
  ("internal/check/authorize_sender/authorize_sender.go:type state", "e7fa255474690df7"),
  ("internal/endpoint/smtp/submission.go:Session.submissionPrepare", "b32560a1fe86f8f8"),
  ("internal/table/file.go:File.Close", "8d7e74fbbc429d93"),
  ("internal/table/file.go:File.Init", "b8f24a4ea69a876e"),
  ("internal/table/file.go:File.InstanceName", "4f927b505f1a81e2"),
  ("internal/table/file.go:File.Lookup", "fab00b28589dc6c3"),
  ("internal/table/file.go:File.LookupMulti", "a2ae1d54593bee96"),
  ("internal/table/file.go:File.Name", "232e0da49c76c919"),
  ("internal/table/file.go:File.reload", "25e2ea568d0fcf5c"),
  ("internal/table/file.go:File.reloader", "6d6c78011f03b930"),
  ("internal/table/file.go:NewFile", "75299d49a285ff4a"),
  ("internal/table/file.go:init", "b24701aa4bc44721"),
  ("internal/table/file.go:readFile", "861ec2acade1c63b"),
  ("internal/table/file.go:type File", "e56871942700c5a3")
]

end MaddyVerif.Expect.FuncSkelC15
