/-! Hand-written expectation: the synchronisation skeleton `Model/TimeWheel.lean` was built from.
Each entry is one step (or part of one step) of the model; see the `Pc`/`TickPc`/`ClosePc`
constructors for the correspondence.  Compared by `decide` with what `tools/extract c12sync`
regenerates from the current working tree (`Generated/TimeWheelSync.lean`). -/
namespace MaddyVerif.Expect.TimeWheelSync

def modelled : List (String × List String) := [
  -- Pc.check, Pc.lock, Pc.push, Pc.send (repaired form: select on the send and on `done`)
  ("TimeWheel.Add", ["atomic#1:LoadUint32(&tw.stopped)", "lock#1:tw.slotsLock", "unlock#1:tw.slotsLock",
                     "select#1:send:tw.updateNotify|recv:tw.done"]),
  -- ClosePc.setStopped, sendStop, recvAck, closeChan (closes `done`, never `updateNotify`)
  ("TimeWheel.Close", ["atomic#1:StoreUint32(&tw.stopped)", "send#1:tw.stopNotify", "recv#1:tw.stopNotify", "close#1:tw.done"]),
  -- TickPc.top, scanLock, scan, waitEmpty, ack, mkTimer, waitTimer, rmLock, rm, ack
  ("TimeWheel.tick", ["now#1", "lock#1:tw.slotsLock", "unlock#1:tw.slotsLock",
                      "select#1:recv:tw.updateNotify|recv:tw.stopNotify", "send#1:tw.stopNotify", "newtimer#1",
                      "select#2:recv:timer.C|recv:tw.updateNotify|recv:tw.stopNotify",
                      "lock#2:tw.slotsLock", "unlock#2:tw.slotsLock", "send#2:tw.stopNotify"]),
  -- ClosePc.wgWait (after wheel.Close)
  ("Queue.Close", ["wgwait#1:q.deliveryWg"]),
  -- Pc.discard
  ("Queue.discardBroken", ["entry#1"]),
  -- TickPc.dispatch (deliveryWg.Add and the go statement are one step)
  ("Queue.dispatch", ["wgadd#1:q.deliveryWg", "go#1"]),
  -- Pc.acquire
  ("Queue.dispatch.func1", ["send#1:q.deliverySemaphore"]),
  -- Pc.release / Pc.panicRelease (semaphore receive and deliveryWg.Done are one step)
  ("Queue.dispatch.func1.func1", ["recv#1:q.deliverySemaphore", "wgdone#1:q.deliveryWg"]),
  -- callers of Add: no synchronisation of their own (clock reads only)
  ("queueDelivery.Commit", []),
  ("Queue.tryDelivery", ["now#1", "now#2"]),
  ("Queue.readDiskQueue", ["now#1"]),
  ("Queue.start", []),
  ("NewTimeWheel", ["go#1"])
]

/-- Synchronisation elsewhere in the two files: the per-delivery status mutex of `partialError`
(not shared between goroutines of the scheduler). -/
def others : List (String × List String) := [
  ("partialError.SetStatus", ["lock#1:pe.statusLock"])
]

end MaddyVerif.Expect.TimeWheelSync
