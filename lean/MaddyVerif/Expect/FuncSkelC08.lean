-- BLESSED copy (bin/bless C08) of Generated/FuncSkelC08.lean: the tree the C08 model was written from and validated against.
namespace MaddyVerif.Expect.FuncSkelC08

/-- (declaration, fingerprint of its normalised text): comments, layout, local names and log/trace statements do not count -/
def funcs : List (String × String) := [
  ("internal/check/dkim/dkim.go:dkimCheckState.CheckBody", "551e2cec0688c9ba"),
  ("internal/modify/dkim/dkim.go:Modifier.fieldsToSign", "4ea1b4c0ead95c26"),
  ("internal/modify/dkim/dkim.go:state.RewriteBody", "094d6ee3015addd8"),
  ("internal/smtpconn/smtpconn.go:C.Data", "e530fddde562e053"),
  ("internal/target/queue/queue.go:Queue.openMessage", "e860a325c84bd4f8"),
  ("internal/target/queue/queue.go:Queue.storeNewMessage", "b3c9b8f26b968111")
]

end MaddyVerif.Expect.FuncSkelC08
