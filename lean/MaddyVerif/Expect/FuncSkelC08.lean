-- BLESSED copy (bin/bless C08) of Generated/FuncSkelC08.lean: the tree the C08 model was written from and validated against.
namespace MaddyVerif.Expect.FuncSkelC08

/-- (declaration, fingerprint of its normalised text): comments, layout, local names and log/trace statements do not count -/
def funcs : List (String × String) := [
  ("internal/check/dkim/dkim.go:Check.CheckStateForMsg", "174dcd6e3f004dd8"),
  ("internal/check/dkim/dkim.go:Check.Init", "61819c91e761ebe7"),
  ("internal/check/dkim/dkim.go:Check.InstanceName", "13d0cff2584d7cf7"),
  ("internal/check/dkim/dkim.go:Check.Name", "f4b5cbd10bc445c2"),
  ("internal/check/dkim/dkim.go:New", "de335e80cafe25ba"),
  ("internal/check/dkim/dkim.go:dkimCheckState.CheckBody", "551e2cec0688c9ba"),
  ("internal/check/dkim/dkim.go:dkimCheckState.CheckConnection", "603381170359d112"),
  ("internal/check/dkim/dkim.go:dkimCheckState.CheckRcpt", "6bcd5f295efcc1b1"),
  ("internal/check/dkim/dkim.go:dkimCheckState.CheckSender", "babaa66d6ac8ce35"),
  ("internal/check/dkim/dkim.go:dkimCheckState.Close", "ef340145ebab483e"),
  ("internal/check/dkim/dkim.go:dkimCheckState.Name", "9e2f94f096f084a2"),
  ("internal/check/dkim/dkim.go:init", "4be97c7185681f15"),
  ("internal/check/dkim/dkim.go:type Check", "1d8103469dd07626"),
  ("internal/check/dkim/dkim.go:type dkimCheckState", "d075a36e4b3636c6"),
  ("internal/modify/dkim/dkim.go:Modifier.Init", "824a91f5b63f1c28"),
  ("internal/modify/dkim/dkim.go:Modifier.InstanceName", "4bda0c257cdb20c3"),
  ("internal/modify/dkim/dkim.go:Modifier.ModStateForMsg", "449b2597dc18f8d1"),
  ("internal/modify/dkim/dkim.go:Modifier.Name", "0b16ee10519143a3"),
  ("internal/modify/dkim/dkim.go:Modifier.fieldsToSign", "4ea1b4c0ead95c26"),
  ("internal/modify/dkim/dkim.go:New", "9f93ac56933121a1"),
  ("internal/modify/dkim/dkim.go:fieldCount", "46458b59915ede64"),
  ("internal/modify/dkim/dkim.go:init", "aad1a70d86b41b75"),
  ("internal/modify/dkim/dkim.go:state.Close", "bac5772d989647b3"),
  ("internal/modify/dkim/dkim.go:state.RewriteBody", "094d6ee3015addd8"),
  ("internal/modify/dkim/dkim.go:state.RewriteRcpt", "cbdc265e4df1834b"),
  ("internal/modify/dkim/dkim.go:state.RewriteSender", "d6824a9018ee0cc5"),
  ("internal/modify/dkim/dkim.go:type Modifier", "04de41e83d1b8da0"),
  ("internal/modify/dkim/dkim.go:type state", "3d2bb0e949fe8ad4"),
  ("internal/modify/dkim/keys.go:Modifier.generateAndWrite", "3d2c304cf528f0f6"),
  ("internal/modify/dkim/keys.go:Modifier.loadOrGenerateKey", "12ca03277ca8bcee"),
  ("internal/modify/dkim/keys.go:writeDNSRecord", "23009cb2bd1a56f6"),
  ("internal/smtpconn/smtpconn.go:C.Close", "4f893ccbc167de7b"),
  ("internal/smtpconn/smtpconn.go:C.Data", "e530fddde562e053"),
  ("internal/smtpconn/smtpconn.go:C.DirectClose", "f652edadea641d3f"),
  ("internal/smtpconn/smtpconn.go:C.LMTPData", "e179f60ed562690a"),
  ("internal/smtpconn/smtpconn.go:C.smtpToLMTPData", "d776cd69ea79c3d5"),
  ("internal/smtpconn/smtpconn.go:C.trackData", "b9490563e28a5c19"),
  ("internal/smtpconn/smtpconn.go:dataWriter.Close", "6d375401e5e39722"),
  ("internal/target/queue/queue.go:Queue.openMessage", "e860a325c84bd4f8"),
  ("internal/target/queue/queue.go:Queue.storeNewMessage", "b3c9b8f26b968111")
]

end MaddyVerif.Expect.FuncSkelC08
