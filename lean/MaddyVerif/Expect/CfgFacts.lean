/-!
What the hand-written model `MaddyVerif.Model.Cfg` assumes about the constants of the
configuration reader; compared by `decide` with `MaddyVerif.Generated.CfgFacts`, which
`tools/extract cfgfacts` regenerates from the current tree on every run.
-/
namespace MaddyVerif.Expect.CfgFacts

/-- comparisons with an integer literal in cfgparser and where the model mirrors each:
* `len(node.Args) < 2`             → `parseAsMacro` (`args.length < 2`)
* `ctx.nesting > 255`              → `readNodes`
* `ctx.nesting < 0` (twice)        → `nodesLoop` (closing brace) and `closeEdge`
* `ctx.nesting > 0`                → `readTreeWith` (unexpected EOF)
* `nesting > 255`                  → `checkNestingNode`
* `expansionDepth > 255`           → `impList` (import limit); `importGas = 257` is derived from it
* `len(ctx.macros[macroName]) > 1` → `expandSingleLoop` -/
def comparisons : List (String × String × String × String × Nat) := [
  ("parse.go", "parseAsMacro", "len(node.Args)", "<", 2),
  ("parse.go", "readNodes", "ctx.nesting", ">", 255),
  ("parse.go", "readNodes", "ctx.nesting", "<", 0),
  ("parse.go", "readNodes", "ctx.nesting", "<", 0),
  ("parse.go", "readTree", "ctx.nesting", ">", 0),
  ("parse.go", "checkNesting", "nesting", ">", 255),
  ("imports.go", "expandImports", "expansionDepth", ">", 255),
  ("imports.go", "expandSingleValueMacro", "len(ctx.macros[macroName])", ">", 1)
]

/-- `macroRe = \$\(([^\$]+)\)` and `unixEnvvarRe = {env:([^\$]+)}`: both have the shape
`prefix [^$]+ close`, which is what `reMatch prefix close` implements -/
def regexps : List String := ["\\$\\(([^\\$]+)\\)", "{env:([^\\$]+)}"]

/-- `readTree` starts with `nesting: -1` (model: default of `Ctx.nesting`) -/
def startNesting : String := "-1"

/-- the lexer compares the current rune with: LF, CR, `"`, `#`, `\`, U+FEFF (model: `lexGo`, `stripBOM`) -/
def lexerRunes : List Nat := [10, 13, 34, 35, 92, 0xFEFF]

end MaddyVerif.Expect.CfgFacts
