import MaddyVerif.Model.Queue
import MaddyVerif.Model.Errors
import MaddyVerif.Model.Dsn
/-!
Model of the failure-report side of `internal/target/queue/queue.go`:

* `emitDSN` — suppression (no bounce pipeline, null sender), report envelope, recipient
  translation through `MsgMeta.OriginalRcpts` (ONE level, as the code does), status and diagnostic
  from `QueueMetadata.RcptErrs`, `dsn.GenerateDSN`, hand-over to the bounce pipeline
  (Start / AddRcpt / Body / Commit, Abort after a failure);
* the part of `tryDelivery` around it: storing `toSMTPErr(err)` per recipient, the split into
  retried and failed recipients (the loop is `Queue.classify`, shared with C01), the call of
  `emitDSN` for a non-empty failed set, removal or requeue.

Addresses are `Nat`s standing for the strings of the Go code through an injective naming
`Cfg.name`; `0` stands for the empty string (null sender / missing map entry).
Not modelled: the failure of `module.GenerateMsgID` (crypto/rand), the random message id, dates,
logging.  `attempt` takes the per-recipient errors of the attempt as an arbitrary function `now`;
`deliverErrs` is the value-level mirror of `Queue.deliver` (which error VALUE each recipient ends
up with: Start / RCPT / DATA or per-recipient LMTP status / Commit), its classes are those of
C01's `Queue.deliver` (`Props/C18.lean: deliverErrs_cls`).
`Rules`, `frontSteps`, `frontRcpts`, `viaFront`: `msgpipeline.AddRcpt` (three modifier stages,
1-to-N rewriting, `OriginalRcpts[to] = originalTo`) of one pipeline or of two nested ones in front
of the queue, and the fact that `Queue.Start` keeps the caller's `*MsgMetadata`.
Core Lean only.
-/
namespace MaddyVerif.QueueDsn
open MaddyVerif.Queue MaddyVerif.Errors MaddyVerif.Dsn

/-- Text of a stored error message. -/
def msgText : Msg → Str
  | .generic => lit "Internal server error"
  | .highLoad => lit "High load, try again later"
  | .text m => m

/-- The `EnhancedCode` array of a stored `smtp.SMTPError` (`{0,0,0}` = not set). -/
def storedEnch (r : Reply) : Ench := r.ench.getD ⟨0, 0, 0⟩

/-- Queue configuration and the naming of addresses. -/
structure Cfg where
  pipeline : Bool            -- q.dsnPipeline != nil
  hostname : Str             -- q.hostname
  autogenDomain : Str        -- q.autogenMsgDomain
  idna : Idna
  name : Addr → Str          -- the string an address stands for

/-- The fields of `QueueMetadata` / `module.MsgMetadata` that `emitDSN` reads. -/
structure MsgMeta where
  id           : Str                      -- MsgMeta.ID
  from_        : Addr                     -- QueueMetadata.From (effective sender)
  originalFrom : Addr                     -- MsgMeta.OriginalFrom
  origRcpts    : Addr → Addr              -- MsgMeta.OriginalRcpts (0 = no entry / empty)
  utf8         : Bool                     -- MsgMeta.SMTPOpts.UTF8
  requireTLS   : Bool                     -- MsgMeta.SMTPOpts.RequireTLS
  rcvdFrom     : Str                      -- Conn.Hostname unless DontTraceSender or Conn == nil
  rcptErrs     : Addr → Option Reply      -- QueueMetadata.RcptErrs
  hdr          : Hdr                      -- the header handed to tryDelivery

/-- Which call of the bounce pipeline fails (`none` = all succeed). -/
inductive Stage | start | rcpt | body | commit
deriving DecidableEq, Repr

/-- What the bounce pipeline sees. -/
inductive BEv
  | start (mailFrom : Addr) (originalFrom : Addr) (utf8 requireTLS : Bool) (ok : Bool)
  | rcpt (to : Addr) (ok : Bool)
  | body (r : Report) (ok : Bool)
  | commit (ok : Bool)
  | abort
  | genError (e : GenErr)          -- "failed to generate fail DSN": logged, nothing handed over
  | panic                          -- nil *smtp.SMTPError dereferenced
deriving Repr, DecidableEq

/-- `meta.MsgMeta.OriginalRcpts[rcpt]`, one level. -/
def translate (m : MsgMeta) (r : Addr) : Addr :=
  if m.origRcpts r ≠ 0 then m.origRcpts r else r

/-- The `rcptInfo` loop; `none` = a failed recipient has no stored error (nil dereference). -/
def rcptInfos (cfg : Cfg) (m : MsgMeta) : List Addr → Option (List RcptInfo)
  | [] => some []
  | r :: rest =>
    match m.rcptErrs r with
    | none => none
    | some se =>
      match rcptInfos cfg m rest with
      | none => none
      | some t =>
        some ({ finalRcpt := cfg.name (translate m r), remoteMTA := [], action := actionFailed,
                status := storedEnch se,
                diag := .smtp se.code (storedEnch se) (msgText se.msg) } :: t)

def envelope (cfg : Cfg) (m : MsgMeta) : Envelope :=
  { msgId := cfg.autogenDomain,          -- "<" random "@" domain ">": only the domain is modelled
    from_ := lit "MAILER-DAEMON@" ++ cfg.autogenDomain,
    to := cfg.name m.originalFrom }

def mtaInfo (cfg : Cfg) (m : MsgMeta) : MtaInfo :=
  { reportingMTA := cfg.hostname, receivedFromMTA := m.rcvdFrom, xSender := cfg.name m.from_,
    xMsgId := m.id, hasArrival := true }

/-- The hand-over to the bounce pipeline: Start, AddRcpt, Body, Commit; a failure after a
successful Start is followed by Abort and nothing else. -/
def handOver (m : MsgMeta) (rep : Report) (failAt : Option Stage) : List BEv :=
  if failAt = some .start then [.start 0 0 m.utf8 m.requireTLS false] else
  if failAt = some .rcpt then [.start 0 0 m.utf8 m.requireTLS true, .rcpt m.from_ false, .abort] else
  if failAt = some .body then
    [.start 0 0 m.utf8 m.requireTLS true, .rcpt m.from_ true, .body rep false, .abort] else
  if failAt = some .commit then
    [.start 0 0 m.utf8 m.requireTLS true, .rcpt m.from_ true, .body rep true, .commit false, .abort]
  else
    [.start 0 0 m.utf8 m.requireTLS true, .rcpt m.from_ true, .body rep true, .commit true]

/-- `Queue.emitDSN`. -/
def emitDSN (cfg : Cfg) (m : MsgMeta) (failed : List Addr) (failAt : Option Stage) : List BEv :=
  if !cfg.pipeline then [] else
  if m.originalFrom = 0 then [] else
  match rcptInfos cfg m failed with
  | none => [.panic]
  | some infos =>
    match generate cfg.idna m.utf8 (envelope cfg m) (mtaInfo cfg m) infos m.hdr with
    | .error e => [.genError e]
    | .ok rep => handOver m rep failAt

/-! ### the attempt around it -/

/-- What the retry decision sees of an error (`exterrors.IsTemporaryOrUnspec`). -/
def clsOfErr (e : Err) : Cls :=
  match tempOf e with
  | none => .unspec
  | some true => .temp
  | some false => .perm

/-- `meta.RcptErrs[rcpt] = toSMTPErr(rcptErr)` for every recipient of the attempt with an error. -/
def storeErrs (now : Addr → Option Err) (to : List Addr) (old : Addr → Option Reply) :
    Addr → Option Reply :=
  fun r => if r ∈ to then
      match now r with
      | some e => some (toSMTPErr e)
      | none => old r
    else old r

structure QMeta where
  to    : List Addr
  tries : Addr → Nat
  msg   : MsgMeta

inductive QEv
  | bounce (e : BEv)
  | removed
  | requeue (rs : List Addr)
deriving Repr, DecidableEq

/-- The split of `meta.To` computed by `tryDelivery`. -/
def split (maxTries : Nat) (now : Addr → Option Err) (q : QMeta) : Acc :=
  classify maxTries (fun r => (now r).map clsOfErr) q.to ⟨q.tries, [], []⟩

/-- `tryDelivery` after `deliver` returned the per-recipient errors `now`. -/
def attempt (cfg : Cfg) (maxTries : Nat) (now : Addr → Option Err) (failAt : Option Stage)
    (q : QMeta) : Option QMeta × List QEv :=
  let a := split maxTries now q
  let m1 : MsgMeta := { q.msg with rcptErrs := storeErrs now q.to q.msg.rcptErrs }
  let evR := if a.failedR.isEmpty then [] else (emitDSN cfg m1 a.failedR failAt).map QEv.bounce
  if a.newR.isEmpty then (none, evR ++ [.removed])
  else
    -- the spool keeps the metadata without `Conn` (updateMetadataOnDisk), the next attempt reads it back
    (some { to := a.newR, tries := a.tries, msg := { m1 with rcvdFrom := [] } }, evR ++ [.requeue a.newR])

/-- The reports handed to the bounce pipeline (with the result of `Body`). -/
def reportsOf : List BEv → List Report
  | [] => []
  | .body r _ :: t => r :: reportsOf t
  | _ :: t => reportsOf t

/-! ### how `OriginalRcpts` comes about (`msgpipeline.AddRcpt`) — used to state what
"the address the sender originally used" is -/

/-- One pipeline level: it was given `input`, rewrote it to `output` and records
`OriginalRcpts[output] = input` when they differ. -/
def recordLevel (m : Addr → Addr) (input output : Addr) : Addr → Addr :=
  if input ≠ output then fun x => if x = output then input else m x else m

/-- A recipient passing through nested pipelines: `chain = [a₀, a₁, …, aₖ]`, `a₀` what the sender
used, `aₖ` the effective address; every level records its own step. -/
def recordChain (m : Addr → Addr) : List Addr → (Addr → Addr)
  | [] => m
  | [_] => m
  | a :: b :: rest => recordChain (recordLevel m a b) (b :: rest)

/-- One pipeline level handling several recipients: `(given, rewritten)` pairs, in order
(`msgpipeline.AddRcpt`: `OriginalRcpts[rewritten] = given` when they differ). -/
def recordAll (m : Addr → Addr) : List (Addr × Addr) → (Addr → Addr)
  | [] => m
  | p :: t => recordAll (recordLevel m p.1 p.2) t

/-- The recipient rewriting of one pipeline: its global, per-source and per-recipient-block
modifiers (`ModifierState.RewriteRcpt` returns a LIST: aliases expand 1-to-N); `none` = the
modifier leaves the address alone. -/
structure Rules where
  g : Addr → Option (List Addr)
  s : Addr → Option (List Addr)
  r : Addr → Option (List Addr)

def expand (f : Addr → Option (List Addr)) (a : Addr) : List Addr := (f a).getD [a]

/-- The addresses `msgpipelineDelivery.AddRcpt(a)` hands to its target, in order: the three loops
of the Go code. -/
def Rules.outputs (ru : Rules) (a : Addr) : List Addr :=
  ((expand ru.g a).flatMap (expand ru.s)).flatMap (expand ru.r)

/-- …and what it records: `OriginalRcpts[to] = originalTo` for every output (when different). -/
def Rules.pairs (ru : Rules) (a : Addr) : List (Addr × Addr) :=
  (ru.outputs a).map (fun o => (a, o))

/-- The recording steps, in the order the code performs them, when the sender's recipients
`given` pass through `outer` and — with `reroute` — through a nested pipeline `inner` before they
reach the queue: the outer level records its step, then calls the nested `AddRcpt`, which records
its own steps. -/
def frontSteps (outer : Rules) (inner : Option Rules) (given : List Addr) : List (Addr × Addr) :=
  match inner with
  | none => given.flatMap outer.pairs
  | some inn => given.flatMap (fun a => (outer.outputs a).flatMap (fun b => (a, b) :: inn.pairs b))

/-- The recipients the queue is given (`queueDelivery.AddRcpt`), in order. -/
def frontRcpts (outer : Rules) (inner : Option Rules) (given : List Addr) : List Addr :=
  match inner with
  | none => given.flatMap outer.outputs
  | some inn => given.flatMap (fun a => (outer.outputs a).flatMap inn.outputs)

/-- The message as the queue holds it when the pipeline has committed.  `Queue.Start` stores the
caller's `*module.MsgMetadata` (the pointer, `MsgMeta: msgMeta`) and the pipeline starts the queue
delivery while it handles the FIRST recipient routed to it: the map `emitDSN` reads at attempt
time is the map after ALL recipients were handled, not the map at `Start`. -/
def viaFront (outer : Rules) (inner : Option Rules) (given : List Addr) (m : MsgMeta) : QMeta :=
  ⟨frontRcpts outer inner given, fun _ => 0,
   { m with origRcpts := recordAll (fun _ => 0) (frontSteps outer inner given) }⟩

/-! ### which error value a recipient ends an attempt with (`Queue.deliver`) -/

/-- What the downstream target answers in one attempt (`none` = success). -/
structure APlan where
  start  : Option Err            -- Target.Start
  rcpt   : Addr → Option Err     -- Delivery.AddRcpt
  body   : Option Err            -- Delivery.Body (atomic targets)
  bodyRc : Addr → Option Err     -- StatusCollector.SetStatus (PartialDelivery.BodyNonAtomic)
  commit : Option Err            -- Delivery.Commit

/-- `perr.Errs` at the end of `Queue.deliver`: a `Start` error goes to everybody; a recipient
refused at `AddRcpt` keeps ITS error; a `Body` / `Commit` error is spread over the ACCEPTED
recipients only (`expandToPartialErr`), `Commit` is attempted only when some accepted recipient
has no error after the body stage. -/
def deliverErrs (k : Kind) (p : APlan) (to : List Addr) : Addr → Option Err :=
  match p.start with
  | some e => fun r => if r ∈ to then some e else none
  | none =>
    let accepted := to.filter (fun r => (p.rcpt r).isNone)
    let e1 : Addr → Option Err := fun r => if r ∈ to then p.rcpt r else none
    if accepted.isEmpty then e1 else
    let e2 : Addr → Option Err := match k with
      | .atomic =>
        match p.body with
        | some e => fun r => if r ∈ accepted then some e else e1 r
        | none => e1
      | .partialD => fun r => if r ∈ accepted ∧ (p.bodyRc r).isSome then p.bodyRc r else e1 r
    if accepted.all (fun r => (e2 r).isSome) then e2 else
    match p.commit with
    | some e => fun r => if r ∈ accepted then some e else e2 r
    | none => e2

end MaddyVerif.QueueDsn
