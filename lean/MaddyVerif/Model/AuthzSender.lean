import MaddyVerif.Model.Address
/-
Model of sender authorisation:

* `internal/authz/lookup.go`            `AuthorizeEmailUse`            → `tableEntries`, `validEmails`, `authorizeLoop`, `authorizeEmailUse`
* `internal/check/authorize_sender/authorize_sender.go`
      `(*state).authzSender`                                           → `prepared`, `authzSender`
      `(*state).CheckSender`                                           → `checkSender`
      `(*state).CheckBody`                                             → `checkBody`
* `framework/config/module/check_action.go`  `FailAction.Apply`        → `FailAction.apply` (flags and the `ReasonOverride` wrap)
      `ParseActionDirective`, `ParseRejectDirective`, `parseEnhancedCode` → `parseActionDirective`, `parseRejectDirective`,
      `parseEnhancedCode` (the argument lists of `unauth_action` / `no_match_action` / `err_action`; `strconv.Atoi` is
      modelled on unsigned decimal tokens, anything else is a configuration error)
* `internal/check/authorize_sender/authorize_sender.go`  `(*Check).Init` → `Directives`, `Directives.cfg` (the defaults of
  the directives that are not written: check_header yes, tables identity, actions reject)
* `internal/table/file.go`  `readFile` (well-formed files), `Lookup`/`LookupMulti`, `Init`, `reload` → `fileLookup`, `fileTable`,
  `FileState.init`, `FileState.step` (the time-stamp guards of `reload` are environment: the harness gives every
  edit a newer, old-enough stamp)
* `internal/table/chain.go`  `(*Chain).LookupMulti` → `stepKeys` (the inner loop over the current keys), `chainLookup`
  (the `STEP:` loop), `chainTable`; `(*Chain).Init` only collects the `step` / `optional_step` tables in order
* `internal/table/email_with_domain.go`  `(*EmailWithDomain).LookupMulti` → `emailWithDomain`, `emailWithDomainTable`
  (`address.QuoteMbox` is `MaddyVerif.Address.quoteMbox`, the model C17 ties to the code)
* `internal/msgpipeline/check_runner.go`  `(*checkRunner).runAndMergeResults`, as far as the decision is concerned →
  `Verdict`, `Merge.step`, `mergeResults` (the check runs in a check group next to other checks; the full runner is C06's)
* `internal/auth/sasl.go`  `(*SASLAuth).CreateSASL` (PLAIN), `AuthPlain`, `usernameForAuth` (without `auth_map`) → `saslPlain`
* `internal/endpoint/smtp/submission.go`  `submissionPrepare`          → `submissionWrites` (frame: which fields it writes)

Strings are code-point lists (`MaddyVerif.Address.Str`); `address.Split` is the model already
tied to the code by C17.  Parameters (library behaviour, not modelled):

* the configured normalisation functions (`authz.NormalizeFuncs[...]`) are `fromNorm`, `authNorm :
  Str → Option Str` (`none` = the function returned an error);
* a table module is a function from key to result; `single` mirrors `module.Table.Lookup`
  (`(val, ok, err)`), `multi` mirrors `module.MultiTable.LookupMulti` (`([]string, err)`);
* the header is what `textproto.Header` + `net/mail` hand to the check: for every `From`
  field (in message order) whether its value is empty and the result of
  `mail.ParseAddressList`; for every `Sender` field the same with `mail.ParseAddress`.
Core Lean only.
-/
namespace MaddyVerif.AuthzSender
open MaddyVerif.Address

def STAR : Str := [42]   -- "*"

/-- A table module.  `Except Unit` : lookup error. -/
inductive Table where
  | single (f : Str → Except Unit (Option Str))   -- Lookup: `none` = `ok == false`
  | multi  (f : Str → Except Unit (List Str))     -- LookupMulti

/-- The reply an action directive puts in place of the check's own (`FailAction.ReasonOverride`, an
`*exterrors.SMTPError`): SMTP code, enhanced code, text. -/
structure Reply where
  code : Nat
  enh : Nat × Nat × Nat
  msg : Str
deriving DecidableEq, Repr

/-- `modconfig.FailAction`. -/
structure FailAction where
  reject : Bool
  quarantine : Bool
  override : Option Reply := none      -- `ReasonOverride` (nil = the check's own reply is used)
deriving DecidableEq, Repr

/-- Which `exterrors.SMTPError` literal of authorize_sender.go a result carries. -/
inductive Reason where
  | authRequired        -- 530 5.7.0 Authentication required
  | normFrom            -- 553 5.1.7 Unable to normalize sender address
  | normAuth            -- 535 5.7.8 Unable to normalize authorization username
  | internal            -- 454 4.7.0 Internal error during policy check
  | noMatch             -- 553 5.7.0 Unauthorized use of sender address
  | missingFrom         -- 550 5.7.0 Missing From header
  | malformedFrom       -- 550 5.7.0 Malformed From header
  | multipleFromAddrs   -- 550 5.7.0 Multiple From addresses are not allowed
  | repeatedFrom        -- 550 5.7.0 Multiple From header fields are not allowed
  | malformedSender     -- 550 5.7.0 Malformed Sender header
  | repeatedSender      -- 550 5.7.0 Multiple Sender header fields are not allowed
deriving DecidableEq, Repr

/-- `module.CheckResult` (Reason / Reject / Quarantine). -/
structure Result where
  reason : Option Reason := none
  reject : Bool := false
  quarantine : Bool := false
  reply : Option Reply := none         -- the outermost `ReasonOverride` wrapped around the reason, if any
deriving DecidableEq, Repr

/-- `FailAction.Apply`: nothing without a reason; otherwise the configured reply (if any) is wrapped
around the reason — code and text of the answer change, the reason stays inside — and the flags of
the action are or-ed in.  The wrap does not touch the flags. -/
def FailAction.apply (a : FailAction) (r : Result) : Result :=
  match r.reason with
  | none => r
  | some _ =>
    { r with reply := (match a.override with | some o => some o | none => r.reply),
             quarantine := a.quarantine || r.quarantine, reject := a.reject || r.reject }

/-- `action.Apply(module.CheckResult{Reason: …})` -/
def fail (a : FailAction) (why : Reason) : Result := a.apply { reason := some why }

/-- The clean result `module.CheckResult{}`. -/
def pass : Result := {}

structure Cfg where
  checkHeader : Bool
  emailPrepare : Table
  userToEmail : Table
  unauthAction : FailAction
  noMatchAction : FailAction
  errAction : FailAction
  fromNorm : Str → Option Str
  authNorm : Str → Option Str

/-- Which configured action each refusal site of authorize_sender.go applies
(`s.c.unauthAction.Apply(…)`, `s.c.noMatchAction.Apply(…)`, `s.c.errAction.Apply(…)`). -/
def actionFor (c : Cfg) : Reason → FailAction
  | .authRequired => c.unauthAction
  | .noMatch => c.noMatchAction
  | _ => c.errAction

/-- `s.c.<action>.Apply(module.CheckResult{Reason: &exterrors.SMTPError{…}})` -/
def refuse (c : Cfg) (why : Reason) : Result := fail (actionFor c why) why

/-- SMTP code and enhanced code of each literal. -/
def Reason.smtp : Reason → Nat × Nat × Nat × Nat
  | .authRequired => (530, 5, 7, 0)
  | .normFrom => (553, 5, 1, 7)
  | .normAuth => (535, 5, 7, 8)
  | .internal => (454, 4, 7, 0)
  | .noMatch => (553, 5, 7, 0)
  | .missingFrom => (550, 5, 7, 0)
  | .malformedFrom => (550, 5, 7, 0)
  | .multipleFromAddrs => (550, 5, 7, 0)
  | .repeatedFrom => (550, 5, 7, 0)
  | .malformedSender => (550, 5, 7, 0)
  | .repeatedSender => (550, 5, 7, 0)

/-- Message text of each literal (identifies the refusal site in the source). -/
def Reason.message : Reason → String
  | .authRequired => "Authentication required"
  | .normFrom => "Unable to normalize sender address"
  | .normAuth => "Unable to normalize authorization username"
  | .internal => "Internal error during policy check"
  | .noMatch => "Unauthorized use of sender address"
  | .missingFrom => "Missing From header"
  | .malformedFrom => "Malformed From header"
  | .multipleFromAddrs => "Multiple From addresses are not allowed"
  | .repeatedFrom => "Multiple From header fields are not allowed"
  | .malformedSender => "Malformed Sender header"
  | .repeatedSender => "Multiple Sender header fields are not allowed"

/-- All reasons, in the order their literals first appear in authorize_sender.go. -/
def Reason.all : List Reason :=
  [.authRequired, .normFrom, .normAuth, .internal, .noMatch, .missingFrom, .repeatedFrom,
   .malformedFrom, .multipleFromAddrs, .repeatedSender, .malformedSender]

/-! ### the action directives (`modconfig.FailActionDirective` → `ParseActionDirective`)

`unauth_action` / `no_match_action` / `err_action` take `ignore`, `reject`, `quarantine`, or
`reject|quarantine <code> [<enhanced code> [<text>]]`.  The word alone decides the flags; the further
arguments only build the reply (`ParseRejectDirective`). -/

def str (x : String) : Str := x.toList.map Char.toNat

def REJECT : Str := str "reject"
def QUARANTINE : Str := str "quarantine"
def IGNORE : Str := str "ignore"

/-- `msg := "Message rejected due to a local policy"` -/
def defaultReplyMsg : Str := str "Message rejected due to a local policy"

/-- `strconv.Atoi` on an unsigned decimal token (what configurations are written with); every other
token counts as "not a number". -/
def atoi? (s : Str) : Option Nat :=
  if s.isEmpty || !s.all (fun ch => 48 ≤ ch && ch ≤ 57) then none
  else some (s.foldl (fun n ch => n * 10 + (ch - 48)) 0)

/-- `parseEnhancedCode`: exactly three numbers separated by dots (`splitDots` = `strings.Split(s, ".")`, Model/Address). -/
def parseEnhancedCode (s : Str) : Option (Nat × Nat × Nat) :=
  match splitDots s with
  | [a, b, c] =>
    match atoi? a, atoi? b, atoi? c with
    | some a, some b, some c => some (a, b, c)
    | _, _, _ => none
  | _ => none

/-- the `case 1:` part of `ParseRejectDirective` (reached by fallthrough from 3 and 2 arguments):
the basic code must be 4xx or 5xx; an enhanced code whose class is still 0 gets the class of the
basic code. -/
def replyWithCode (codeTok : Str) (enh : Nat × Nat × Nat) (msg : Str) : Option Reply :=
  match atoi? codeTok with
  | none => none
  | some code =>
    if code / 100 != 4 && code / 100 != 5 then none
    else some { code := code, enh := (if enh.1 == 0 then (code / 100, enh.2) else enh), msg := msg }

/-- the enhanced-code argument: three numbers, class 4 or 5 -/
def enhArg (tok : Str) : Option (Nat × Nat × Nat) :=
  match parseEnhancedCode tok with
  | none => none
  | some e => if e.1 != 4 && e.1 != 5 then none else some e

/-- `ParseRejectDirective` (`none` = error): 0–3 arguments. -/
def parseRejectDirective (args : List Str) : Option Reply :=
  match args with
  | [] => some { code := 554, enh := (5, 7, 0), msg := defaultReplyMsg }
  | [c] => replyWithCode c (0, 7, 0) defaultReplyMsg
  | [c, e] =>
    match enhArg e with
    | none => none
    | some e => replyWithCode c e defaultReplyMsg
  | [c, e, m] =>
    if m.isEmpty then none else
    match enhArg e with
    | none => none
    | some e => replyWithCode c e m
  | _ => none

/-- The flags an action word stands for (`res.Reject = args[0] == "reject"`,
`res.Quarantine = args[0] == "quarantine"`). -/
def wordFlags (w : Str) : FailAction := { reject := w == REJECT, quarantine := w == QUARANTINE }

/-- `ParseActionDirective` (`none` = configuration error: `Init` fails).  `ignore` takes no notice of
further arguments. -/
def parseActionDirective (args : List Str) : Option FailAction :=
  match args with
  | [] => none
  | w :: rest =>
    if w == REJECT || w == QUARANTINE then
      if rest.isEmpty then some (wordFlags w) else
      match parseRejectDirective rest with
      | none => none
      | some o => some { wordFlags w with override := some o }
    else if w == IGNORE then some (wordFlags w)
    else none

/-! ### `authz.AuthorizeEmailUse` -/

/-- What the mapping table answers for the user, as a list (`LookupMulti`, or the one value of
`Lookup`): the configured entries, before `AuthorizeEmailUse` looks at them. -/
def tableEntries (mapping : Table) (username : Str) : Except Unit (List Str) :=
  match mapping with
  | .multi f => f username
  | .single f =>
    match f username with
    | .error e => .error e
    | .ok (some v) => .ok [v]
    | .ok none => .ok []

/-- first part of `AuthorizeEmailUse`: the `validEmails` slice — the table's entries without the
empty strings (`if ent != "" { validEmails = append(validEmails, ent) }` for a MultiTable,
`if ok && validEmail != ""` for a plain Table). -/
def validEmails (mapping : Table) (username : Str) : Except Unit (List Str) :=
  match mapping with
  | .multi f =>
    match f username with
    | .error e => .error e
    | .ok entries => .ok (entries.filter (fun ent => !ent.isEmpty))
  | .single f =>
    match f username with
    | .error e => .error e
    | .ok (some v) => if !v.isEmpty then .ok [v] else .ok []
    | .ok none => .ok []

/-- `ent == domain || ent == "*" || ent == addr` -/
def entMatches (ent domain addr : Str) : Bool := ent == domain || ent == STAR || ent == addr

/-- the `for _, addr := range addrs` loop: `Split` failure is an error, first match returns true.
`split` answers `(addr, "")` for the domain-less `postmaster`, so `domain` can be empty. -/
def authorizeLoop (valid : List Str) : List Str → Except Unit Bool
  | [] => .ok false
  | addr :: rest =>
    match split addr with
    | .error _ => .error ()
    | .ok (_, domain) =>
      if valid.any (fun ent => entMatches ent domain addr) then .ok true
      else authorizeLoop valid rest

def authorizeEmailUse (username : Str) (addrs : List Str) (mapping : Table) : Except Unit Bool :=
  match validEmails mapping username with
  | .error _ => .error ()
  | .ok valid => authorizeLoop valid addrs

/-! ### `authzSender` -/

/-- the `preparedEmail` slice: table result, or the normalised address itself when the table has
nothing (`!ok`). -/
def prepared (t : Table) (fromNorm : Str) : Except Unit (List Str) :=
  match t with
  | .multi f =>
    match f fromNorm with
    | .error _ => .error ()
    | .ok l => if l.length > 0 then .ok l else .ok [fromNorm]
  | .single f =>
    match f fromNorm with
    | .error _ => .error ()
    | .ok (some v) => .ok [v]
    | .ok none => .ok [fromNorm]

def authzSender (c : Cfg) (authName email : Str) : Result :=
  if authName.isEmpty then refuse c .authRequired else
  match c.fromNorm email with
  | none => refuse c .normFrom
  | some fromN =>
    match c.authNorm authName with
    | none => refuse c .normAuth
    | some authN =>
      match prepared c.emailPrepare fromN with
      | .error _ => refuse c .internal
      | .ok prep =>
        match authorizeEmailUse authN prep c.userToEmail with
        | .error _ => refuse c .internal
        | .ok false => refuse c .noMatch
        | .ok true => pass

/-! ### the check's stages.  `conn = none` : `msgMeta.Conn == nil` (locally generated message);
`conn = some u` : a client connection whose `AuthUser` is `u` (`[]` = not authenticated). -/

def checkSender (c : Cfg) (conn : Option Str) (fromEmail : Str) : Result :=
  match conn with
  | none => pass
  | some authName => authzSender c authName fromEmail

/-- One `From` field as seen by the check. -/
structure FromField where
  empty : Bool                    -- the (trimmed) field value is ""
  parse : Option (List Str)       -- mail.ParseAddressList(value): none = error, else the addresses
deriving Repr

/-- One `Sender` field as seen by the check. -/
structure SenderField where
  empty : Bool
  parse : Option Str              -- mail.ParseAddress(value)
deriving Repr

structure Header where
  fromFields : List FromField     -- message order; `hdr.Get("From")` is the first
  senderFields : List SenderField
deriving Repr

/-- the `Sender` part of `CheckBody`: `""` when there is no (non-empty first) Sender field. -/
def senderAddr (h : Header) : Except Unit Str :=
  match h.senderFields with
  | [] => .ok []
  | sf :: _ =>
    if sf.empty then .ok [] else
    match sf.parse with
    | none => .error ()
    | some a => .ok a

def checkBody (c : Cfg) (conn : Option Str) (h : Header) : Result :=
  if !c.checkHeader then pass else
  match conn with
  | none => pass
  | some authName =>
    match h.fromFields with
    | [] => refuse c .missingFrom
    | f :: moreFields =>
      if f.empty then refuse c .missingFrom else
      if !moreFields.isEmpty then refuse c .repeatedFrom else
      match f.parse with
      | none => refuse c .malformedFrom
      | some [] => refuse c .malformedFrom
      | some (fromEmail :: moreAddrs) =>
        if !moreAddrs.isEmpty then refuse c .multipleFromAddrs else
        if h.senderFields.length > 1 then refuse c .repeatedSender else
        match senderAddr h with
        | .error _ => refuse c .malformedSender
        | .ok sender =>
          let res := authzSender c authName fromEmail
          if res.reason.isNone then res else
          if !sender.isEmpty && sender != fromEmail then
            let res2 := authzSender c authName sender
            if res2.reason.isNone then res2 else refuse c .noMatch
          else refuse c .noMatch

/-! ### `(*Check).Init`: the configuration block

Every directive may be left out; `Init` registers a default for each (`cfg.Bool("check_header", false, true, …)`,
`cfg.Custom(…, func() { return &table.Identity{} }, …)`, `func() { return modconfig.FailAction{Reject: true} }`).
The default of one directive does not look at any other directive.  (The normalisers default to
`auto`; which function a name stands for is a parameter anyway.) -/

structure Directives where
  checkHeader : Option Bool := none
  emailPrepare : Option Table := none
  userToEmail : Option Table := none
  unauthAction : Option FailAction := none
  noMatchAction : Option FailAction := none
  errAction : Option FailAction := none
  fromNorm : Str → Option Str
  authNorm : Str → Option Str

/-- `table.Identity`: every key maps to itself. -/
def identityTable : Table := .single fun k => .ok (some k)

/-- `modconfig.FailAction{Reject: true}` -/
def rejectAction : FailAction := { reject := true, quarantine := false }

/-- What `Init` leaves in the `Check` for a configuration block. -/
def Directives.cfg (d : Directives) : Cfg where
  checkHeader := d.checkHeader.getD true
  emailPrepare := d.emailPrepare.getD identityTable
  userToEmail := d.userToEmail.getD identityTable
  unauthAction := d.unauthAction.getD rejectAction
  noMatchAction := d.noMatchAction.getD rejectAction
  errAction := d.errAction.getD rejectAction
  fromNorm := d.fromNorm
  authNorm := d.authNorm

/-! ### `table.file` (internal/table/file.go)

The entry lines of a well-formed file, in file order: `key: v1, v2` is `(key, [v1, v2])`, a key
alone on its line is `(key, [""])`; comment and blank lines are no entries.  `readFile` appends
the values of every line to the list of its key, so a key that stands on several lines has all
their values.  `LookupMulti` answers with that list. -/

abbrev Lines := List (Str × List Str)

def fileLookup (ls : Lines) (k : Str) : List Str :=
  (ls.filter (fun l => l.1 == k)).flatMap (·.2)

/-- the table module over loaded entry lines (`File` implements `MultiTable`) -/
def fileTable (ls : Lines) : Table := .multi fun k => .ok (fileLookup ls k)

/-- What is at the path of the table. -/
inductive FileContent where
  | absent                    -- no such file
  | unparsable                -- `readFile` fails (a line with nothing before the colon)
  | entries (ls : Lines)      -- a well-formed file with these entry lines (none: empty / comments only)

/-- What happens to the file, and the reload request (timer tick, reload hook). -/
inductive FileOp where
  | write (ls : Lines)
  | damage
  | delete
  | reload

/-- The table module: the file and the entries it has loaded (`f.m`). -/
structure FileState where
  file : FileContent
  loaded : Lines

/-- `Init`: `readFile`; a file that does not exist is ignored (no entries).  (`Init` fails on an
unparsable file: not a state of a running check.) -/
def FileState.init (ls : Option Lines) : FileState :=
  match ls with
  | some ls => ⟨.entries ls, ls⟩
  | none => ⟨.absent, []⟩

/-- Edits change the file only; `reload` replaces the loaded entries by what the file holds now:
nothing when the file is gone (`f.m = map[string][]string{}`), the parsed entries of a
well-formed file — also when there are none —, and keeps them when the file cannot be parsed. -/
def FileState.step (s : FileState) : FileOp → FileState
  | .write ls => { s with file := .entries ls }
  | .damage => { s with file := .unparsable }
  | .delete => { s with file := .absent }
  | .reload =>
    match s.file with
    | .absent => { s with loaded := [] }
    | .unparsable => s
    | .entries ls => { s with loaded := ls }

def FileState.run (s : FileState) (ops : List FileOp) : FileState := ops.foldl FileState.step s

/-- the table the check consults -/
def FileState.table (s : FileState) : Table := fileTable s.loaded

/-! ### `table.chain` (internal/table/chain.go)

`LookupMulti` starts with `result = [key]`; every step looks up every current value (`LookupMulti`
of a MultiTable step, else `Lookup`: exactly `tableEntries`) and appends what it gets to a FRESH
slice, which becomes `result`.  A value without a mapping (`len(val) == 0` / `!ok`) ends the step
at once: an `optional_step` is left out (`continue STEP`: `result` stays what it was), a `step` makes the
whole lookup answer nothing.  A failing lookup fails the whole lookup.  `Chain` implements
`MultiTable`, so the check and `AuthorizeEmailUse` use `LookupMulti`. -/

/-- the loop over the current keys of one step: `none` = a key without a mapping was met (before
any failing lookup); `some r` = the concatenation of the answers, in order. -/
def stepKeys (t : Table) : List Str → Except Unit (Option (List Str))
  | [] => .ok (some [])
  | k :: ks =>
    match tableEntries t k with
    | .error e => .error e
    | .ok [] => .ok none
    | .ok (v :: vs) =>
      match stepKeys t ks with
      | .error e => .error e
      | .ok none => .ok none
      | .ok (some r) => .ok (some ((v :: vs) ++ r))

/-- the `STEP:` loop; a step is (optional?, table) -/
def chainLookup : List (Bool × Table) → List Str → Except Unit (List Str)
  | [], keys => .ok keys
  | (opt, t) :: rest, keys =>
    match stepKeys t keys with
    | .error e => .error e
    | .ok none => if opt then chainLookup rest keys else .ok []
    | .ok (some r) => chainLookup rest r

def chainTable (steps : List (Bool × Table)) : Table := .multi fun k => chainLookup steps [k]

/-! ### `table.email_with_domain` (internal/table/email_with_domain.go)

`LookupMulti` answers, for ANY key, one value per configured domain: `QuoteMbox(key) + "@" + domain` — the WHOLE
key becomes the local part (quoted when it holds specials, an at-sign included).  `Init` refuses an empty
domain list.  The module implements `MultiTable`, so the check and `table.chain` use `LookupMulti`. -/
def emailWithDomain (domains : List Str) (key : Str) : List Str :=
  domains.map fun d => quoteMbox key ++ AT :: d

def emailWithDomainTable (domains : List Str) : Table := .multi fun k => .ok (emailWithDomain domains k)

/-! ### next to other checks: `runAndMergeResults` (internal/msgpipeline/check_runner.go)

authorize_sender is one check of a check group; the pipeline runs the checks of the group at every stage in
goroutines of their own and merges what they return.  As far as the decision goes: every result is looked at
when its goroutine finishes (`if Quarantine … else if Reject …`), a quarantine verdict and a reject verdict are
remembered SEPARATELY (`setQuarantineErr` / `setRejectErr`, each a `sync.Once`); after all goroutines finished
(`wg.Wait`) a remembered rejection fails the command, otherwise a remembered quarantine flags the message.
The completion order of the goroutines is the list order of `mergeResults`' argument. -/
inductive Verdict | none | quarantine | reject
deriving DecidableEq, Repr

/-- what the runner's `if subCheckRes.Quarantine … else if subCheckRes.Reject …` sees of a result -/
def Result.verdict (r : Result) : Verdict :=
  if r.quarantine then .quarantine else if r.reject then .reject else .none

structure Merge where
  qErr : Bool := false
  rErr : Bool := false
deriving DecidableEq, Repr

def Merge.step (m : Merge) : Verdict → Merge
  | .quarantine => { m with qErr := true }
  | .reject => { m with rErr := true }
  | .none => m

/-- completion order of the group's verdicts ↦ (the command fails, the message is flagged) -/
def mergeResults (completion : List Verdict) : Bool × Bool :=
  let m := completion.foldl Merge.step {}
  if m.rErr then (true, false) else (false, m.qErr)

/-! ### where the check group is declared (internal/msgpipeline: `Start`, `AddRcpt`, `(*checkRunner).checkStates`)

A check group is declared globally, in a source block, or in a destination block.  The states of the checks of a
destination block are created when a recipient of that block is named; `checkStates` then REPLAYS the connection and
sender stages on the new states, and a rejection of the replayed sender fails the RCPT TO being processed (the states
are closed again, so the next recipient of the block gets the same replay).  Checks declared globally / in the source
block decide at MAIL FROM; the endpoint reports their rejection at every RCPT TO (`defer_sender_reject`, the default).
`inBlock` = the recipient routes into the block that declares the group. -/
inductive Place | global | source | dest
deriving DecidableEq, Repr

/-- is a recipient's delivery behind the check group? -/
def Place.behind : Place → Bool → Bool
  | .dest, inBlock => inBlock
  | _, _ => true

/-- one RCPT TO: accepted? (`senderRejects`: the group's merged verdict on the envelope sender fails a command) -/
def rcptAccepted (p : Place) (senderRejects inBlock : Bool) : Bool :=
  !(p.behind inBlock && senderRejects)

/-- the recipients of one message in the order they are named ↦ which are accepted -/
def placedRcpts (p : Place) (senderRejects : Bool) (order : List Bool) : List Bool :=
  order.map (rcptAccepted p senderRejects)

/-! ### SASL PLAIN on the endpoint (internal/auth/sasl.go), as far as the identity is concerned

The client sends an authorization identity (may be empty), a login name and a password.  The
identity defaults to the login name and must then be byte-wise EQUAL to it; the password is verified
for the normalised login name (`auth_map_normalize`; `none` = the normaliser refuses it); on success
the session's `AuthUser` is the identity.  `verify name password` is the credential store. -/
def saslPlain (norm : Str → Option Str) (verify : Str → Str → Bool) (authzid authcid password : Str) : Option Str :=
  let identity := if authzid.isEmpty then authcid else authzid
  if identity != authcid then none else
  match norm authcid with
  | none => none
  | some name => if verify name password then some identity else none

/-! ### `submissionPrepare` (internal/endpoint/smtp/submission.go), as far as the author is concerned

On a submission endpoint `submissionPrepare` runs on the parsed header before the checks see it.
It refuses some messages and otherwise only *writes* the fields below (`header.Set`); everything
it does with `From` / `Sender` is reading (`header.Get`).  The list is compared on every run with
the `header.Set/Add/Del/AddRaw` calls found in the source (harness fact `submission-writes`), and
the SMTP-session harness checks on real sessions that the author fields reach the target unchanged. -/
def submissionWrites : List String := ["Message-ID", "Date"]

end MaddyVerif.AuthzSender
