/-
Model of maddy's error values and of the two conversions that turn them into
SMTP replies:

* `framework/exterrors` (SMTPError, WithTemporary, WithFields, IsTemporary,
  IsTemporaryOrUnspec, Fields, SMTPCode, SMTPEnchCode),
* `internal/endpoint/smtp/session.go: (*Endpoint).wrapErr`   (reply to a client),
* `internal/target/queue/queue.go: toSMTPErr`                  (stored per-recipient error / DSN),
* go-smtp `writeResponse` filling in X.0.0 for `EnhancedCodeNotSet`.

Core Lean only (this file is linked into the driver executable).
-/
namespace MaddyVerif.Errors

structure Ench where
  cls  : Nat
  subj : Nat
  det  : Nat
deriving DecidableEq, Repr, Inhabited

/-- Message text of a reply.  `generic` is the constant "Internal server error",
`highLoad` the constant of the deadline branch, `text cps` an annotated message
(`smtp_msg` field) given as Unicode code points. -/
inductive Msg
  | generic
  | highLoad
  | text (cps : List Nat)
deriving DecidableEq, Repr, Inhabited

/-- An error value as the Unwrap chain sees it. -/
inductive Err
  | plain                                            -- errors.New / fmt.Errorf without %w
  | deadline                                         -- context.DeadlineExceeded
  | net (temp : Bool)                                -- *net.OpError / *net.DNSError (has Temporary())
  | smtp (code : Nat) (ench : Ench) (msg : List Nat)                 -- *exterrors.SMTPError{Err: nil}
  | smtpWrap (code : Nat) (ench : Ench) (msg : List Nat) (inner : Err)   -- *exterrors.SMTPError{Err: inner}
  | withTemp (t : Bool) (inner : Err)                -- exterrors.WithTemporary
  | withFields (code : Option Nat) (ench : Option Ench) (msg : Option (List Nat)) (inner : Err)
                                                      -- exterrors.WithFields carrying smtp_* keys
  | rawSmtp (code : Nat) (ench : Ench) (msg : List Nat)   -- deprecated plain *smtp.SMTPError
deriving Repr, Inhabited

/-- `errors.As(err, &TemporaryErr)`: first node of the Unwrap chain that has `Temporary()`. -/
def tempOf : Err → Option Bool
  | .plain => none
  | .deadline => some true
  | .net t => some t
  | .smtp code _ _ => some (code / 100 == 4)
  | .smtpWrap code _ _ _ => some (code / 100 == 4)
  | .withTemp t _ => some t
  | .withFields _ _ _ inner => tempOf inner
  | .rawSmtp code _ _ => some (code / 100 == 4)

/-- `exterrors.IsTemporary`: permanent by default. -/
def isTemporary (e : Err) : Bool := (tempOf e).getD false
/-- `exterrors.IsTemporaryOrUnspec`: temporary by default (what the queue's retry decision uses). -/
def isTemporaryOrUnspec (e : Err) : Bool := (tempOf e).getD true

/-- `errors.Is(err, context.DeadlineExceeded)`. -/
def hasDeadline : Err → Bool
  | .deadline => true
  | .smtpWrap _ _ _ i => hasDeadline i
  | .withTemp _ i => hasDeadline i
  | .withFields _ _ _ i => hasDeadline i
  | _ => false

/-- `exterrors.Fields(err)["smtp_code"].(int)`: outer wins. -/
def codeField : Err → Option Nat
  | .smtp code _ _ => some code
  | .smtpWrap code _ _ _ => some code
  | .withFields (some c) _ _ _ => some c
  | .withFields none _ _ i => codeField i
  | .withTemp _ i => codeField i
  | _ => none

def enchField : Err → Option Ench
  | .smtp _ e _ => some e
  | .smtpWrap _ e _ _ => some e
  | .withFields _ (some e) _ _ => some e
  | .withFields _ none _ i => enchField i
  | .withTemp _ i => enchField i
  | _ => none

def msgField : Err → Option (List Nat)
  | .smtp _ _ m => some m
  | .smtpWrap _ _ m _ => some m
  | .withFields _ _ (some m) _ => some m
  | .withFields _ _ none i => msgField i
  | .withTemp _ i => msgField i
  | _ => none

/-- `exterrors.SMTPCode(err, t, p)`. -/
def smtpCode (e : Err) (t p : Nat) : Nat := if isTemporary e then t else p

/-- `exterrors.SMTPEnchCode(err, code)`: class 4 for temporary errors, 5 otherwise. -/
def smtpEnchCode (e : Err) (c : Ench) : Ench :=
  if isTemporary e then { c with cls := 4 } else { c with cls := 5 }

structure Reply where
  code : Nat
  ench : Option Ench      -- none = EnhancedCodeNotSet
  msg  : Msg
deriving DecidableEq, Repr, Inhabited

/-- go-smtp `writeResponse`: missing enhanced code becomes `class.0.0` for classes 2,4,5. -/
def notSet (e : Ench) : Bool := e.cls == 0 && e.subj == 0 && e.det == 0

def wireEnch (r : Reply) : Option Ench :=
  let derived : Option Ench :=
    let cat := r.code / 100
    if cat == 2 || cat == 4 || cat == 5 then some ⟨cat, 0, 0⟩ else none
  match r.ench with
  | some e => if notSet e then derived else some e     -- EnhancedCode{0,0,0} == EnhancedCodeNotSet
  | none => derived

/-- The ASCII filter of `wrapErr`: every code point that is not ASCII (≥ U+0080) becomes `?`. -/
def mangle (cps : List Nat) : List Nat :=
  cps.map (fun ch => if ch ≥ 128 then 63 else ch)

def mangleMsg : Msg → Msg
  | .text cps => .text (mangle cps)
  | m => m

def msgOf : Option (List Nat) → Msg
  | some m => .text m
  | none => .generic

/-- an annotation without an enhanced code ({0,0,0}, e.g. a relayed reply of a server that sends
none) does not override the class-derived default; neither does one without a class (0.x.y: it could
not be the `Status` of a failure report — fix 9efcd5b) -/
def pickEnch (f : Option Ench) (dflt : Ench) : Ench :=
  match f with
  | some en => if en.cls == 0 then dflt else en
  | none => dflt

/-- `(*Endpoint).wrapErr` (nil error excluded; message-id suffix and metrics omitted —
the suffix is ASCII). -/
def wrapErr (mangleUTF8 : Bool) (e : Err) : Reply :=
  if hasDeadline e then ⟨451, some ⟨4, 4, 5⟩, .highLoad⟩ else
  let code0 := if isTemporary e then 451 else 554
  let code1 := (codeField e).getD code0
  let ench1 := enchField e
  let msg1  := msgOf (msgField e)
  let r : Reply := match e with
    | .rawSmtp c en m => ⟨c, some en, .text m⟩
    | _ => ⟨code1, ench1, msg1⟩
  if mangleUTF8 then { r with msg := mangleMsg r.msg } else r

/-- `toSMTPErr` of the queue (nil error excluded). -/
def toSMTPErr (e : Err) : Reply :=
  let t := isTemporaryOrUnspec e
  let code0 := if t then 451 else 554
  let ench0 : Ench := if t then ⟨4, 0, 0⟩ else ⟨5, 0, 0⟩
  let code1 := (codeField e).getD code0
  let ench1 := pickEnch (enchField e) ench0
  let msg1  := msgOf (msgField e)
  match e with
  | .rawSmtp c en m => ⟨c, some (pickEnch (some en) ench0), .text m⟩   -- deprecated plain go-smtp error
  | _ => ⟨code1, some ench1, msg1⟩

/-- The queue's retry decision for an error (before the attempt bound). -/
def queueRetries (e : Err) : Bool := isTemporaryOrUnspec e

/-- A reply is coherent when basic and enhanced code are of the same class, 4 or 5. -/
def Coherent (r : Reply) : Prop :=
  ∃ en, wireEnch r = some en ∧ en.cls = r.code / 100 ∧ (en.cls = 4 ∨ en.cls = 5)

instance (r : Reply) : Decidable (Coherent r) := by
  unfold Coherent
  cases h : wireEnch r with
  | none => exact isFalse (by intro ⟨en, h1, _⟩; simp at h1)
  | some en =>
    if h2 : en.cls = r.code / 100 ∧ (en.cls = 4 ∨ en.cls = 5) then
      exact isTrue ⟨en, rfl, h2⟩
    else
      exact isFalse (by intro ⟨en', h1, h3⟩; simp at h1; subst h1; exact h2 h3)

/-- A stored error (queue metadata, failure report `Status:` field) is coherent when its enhanced
code is present and of the class of the basic code — nothing fills in a missing one there. -/
def StoredCoherent (r : Reply) : Prop :=
  ∃ en, r.ench = some en ∧ en.cls = r.code / 100 ∧ (en.cls = 4 ∨ en.cls = 5)

/-- A (code, enhanced code) annotation is class-coherent. -/
def pairOk (code : Nat) (en : Ench) : Bool :=
  en.cls == code / 100 && (en.cls == 4 || en.cls == 5)

/-- An annotation as maddy builds or relays them: class-coherent, or a 4yz/5yz basic code with
the enhanced code left unset. -/
def annOk (code : Nat) (en : Ench) : Bool :=
  pairOk code en || (notSet en && (code / 100 == 4 || code / 100 == 5))

/-- Every annotation carried by the value is itself class-coherent, and annotations that
override only one of the two codes do not occur (maddy's own field wrappers never carry
`smtp_code`/`smtp_enchcode`; T1 checks that on the source tree). -/
def LeavesCoherent : Err → Prop
  | .plain => True
  | .deadline => True
  | .net _ => True
  | .smtp code en _ => annOk code en = true
  | .smtpWrap code en _ i => annOk code en = true ∧ LeavesCoherent i
  | .withTemp _ i => LeavesCoherent i
  | .withFields none none _ i => LeavesCoherent i
  | .withFields (some c) (some en) _ i => annOk c en = true ∧ LeavesCoherent i
  | .withFields _ _ _ _ => False
  | .rawSmtp code en _ => annOk code en = true

/-- The temporariness the retry logic sees agrees with the class of the SMTP annotation
that the reply conversion sees (when there is one).  maddy never wraps an annotated
error into a contradicting `WithTemporary` marker; values violating this are outside
"failures maddy itself generates". -/
def MarkersAgree (e : Err) : Prop :=
  ∀ c, codeField e = some c → tempOf e = some (c / 100 == 4)


/-! ### `reject` directive parsers (`msgpipeline/config.go: parseRejectDirective`,
`framework/config/module/check_action.go: ParseRejectDirective`) and the milter reply code.

Arguments are modelled after lexical analysis: a basic code that `strconv.Atoi` accepted
(`some n`, non-negative) or not (`none`); an enhanced code whose three parts parsed or not;
a message that is empty or not. -/

structure RejectArgs where
  nargs   : Nat
  code    : Option Nat          -- args[0]
  ench    : Option Ench         -- args[1]
  msgEmpty : Bool               -- args[2] == ""
deriving Repr

/-- Result: `none` = configuration error. Defaults 554 / 5.7.0. `derive` distinguishes the two
parsers: `check_action.go` (`derive = true`) takes the class of a missing enhanced code from the
basic code; `msgpipeline/config.go` (`derive = false`) keeps 5.7.0 (pinned by the repository's
own TestMsgPipelineCfg, see known_findings.json). -/
def parseReject (derive : Bool) (a : RejectArgs) : Option (Nat × Ench) :=
  if a.nargs > 3 then none else
  if a.nargs == 3 && a.msgEmpty then none else
  if a.nargs == 0 then some (554, ⟨5, 7, 0⟩) else
  -- enhanced code (args[1]) is validated first
  let enchR : Option (Option Ench) :=
    if a.nargs ≥ 2 then
      match a.ench with
      | none => none
      | some e => if e.cls == 4 || e.cls == 5 then some (some e) else none
    else some none
  match enchR with
  | none => none
  | some en =>
    match a.code with
    | none => none
    | some c =>
      if c / 100 == 4 || c / 100 == 5 then
        match en with
        | some e => some (c, e)
        | none => some (c, ⟨if derive then c / 100 else 5, 7, 0⟩)
      else none

/-- `milter.go: handleAction(ActReplyCode)`: the milter's code with x.7.1 of the same class. -/
def milterReply (code : Nat) : Nat × Ench := (code, ⟨code / 100, 7, 1⟩)

end MaddyVerif.Errors
