/-
Model of the queue's delivery attempt loop (`internal/target/queue/queue.go`:
`deliver`, `tryDelivery`, DSN emission decision, removal).  Core Lean only.

Recipients are `Nat`s.  The downstream target is scripted by a `Plan` per attempt: the plan is
the downstream's *own* ground truth (what it answers at each stage and hence what it commits).
-/
namespace MaddyVerif.Queue

abbrev Addr := Nat

/-- Classification of a stage result: success, or an error that is temporary, permanent or
carries no classification (`exterrors.IsTemporaryOrUnspec` treats the last as temporary). -/
inductive Cls | ok | temp | perm | unspec
deriving DecidableEq, Repr, Inhabited

def Cls.retryable : Cls → Bool
  | .temp => true
  | .unspec => true
  | _ => false

def Cls.isOk : Cls → Bool
  | .ok => true
  | _ => false

/-- Fault plan of one delivery attempt. -/
structure Plan where
  start  : Cls            -- Target.Start
  rcpt   : Addr → Cls     -- Delivery.AddRcpt
  body   : Cls            -- Delivery.Body (atomic targets)
  bodyRc : Addr → Cls     -- per-recipient status set through StatusCollector (PartialDelivery)
  commit : Cls            -- Delivery.Commit

inductive Kind | atomic | partialD
deriving DecidableEq, Repr

/-- Observable events: target calls (for correspondence), the downstream's ground truth
(`committed`), failure reports handed to the bounce pipeline, and spool removal. -/
inductive Ev
  | start (c : Cls)
  | rcpt (r : Addr) (c : Cls)
  | body (c : Cls)
  | bodyNA (st : List (Addr × Cls))
  | abort
  | commit (c : Cls)
  | committed (rs : List Addr)      -- downstream committed the message for exactly these recipients
  | report (rs : List Addr)         -- one failure report naming these recipients
  | requeue (rs : List Addr)
  | removed
deriving Repr

abbrev Errs := Addr → Option Cls

/-- `Queue.deliver`: stage-by-stage attribution of errors to recipients. -/
def deliver (k : Kind) (p : Plan) (to : List Addr) : Errs × List Ev :=
  if !p.start.isOk then
    (fun r => if r ∈ to then some p.start else none, [.start p.start])
  else
    let accepted := to.filter (fun r => (p.rcpt r).isOk)
    let e1 : Errs := fun r => if r ∈ to ∧ !(p.rcpt r).isOk then some (p.rcpt r) else none
    let evR := to.map (fun r => Ev.rcpt r (p.rcpt r))
    if accepted.isEmpty then
      (e1, [.start .ok] ++ evR ++ [.abort])
    else
      let (e2, evB) : Errs × List Ev := match k with
        | .atomic =>
          if !p.body.isOk then
            (fun r => if r ∈ accepted then some p.body else e1 r, [.body p.body])
          else (e1, [.body .ok])
        | .partialD =>
          (fun r => if r ∈ accepted ∧ !(p.bodyRc r).isOk then some (p.bodyRc r) else e1 r,
           [.bodyNA (accepted.map (fun r => (r, p.bodyRc r)))])
      let allFailed := accepted.all (fun r => (e2 r).isSome)
      if allFailed then
        (e2, [.start .ok] ++ evR ++ evB ++ [.abort])
      else if !p.commit.isOk then
        (fun r => if r ∈ accepted then some p.commit else e2 r,
         [.start .ok] ++ evR ++ evB ++ [.commit p.commit])
      else
        (e2, [.start .ok] ++ evR ++ evB ++
          [.commit .ok, .committed (accepted.filter (fun r => (e2 r).isNone))])

structure Meta where
  to    : List Addr
  tries : Addr → Nat

structure Acc where
  tries   : Addr → Nat
  newR    : List Addr
  failedR : List Addr

def updTries (f : Addr → Nat) (r : Addr) (v : Nat) : Addr → Nat :=
  fun x => if x = r then v else f x

/-- The classification loop of `tryDelivery` over `meta.To`, in order. -/
def classify (maxTries : Nat) (e : Errs) : List Addr → Acc → Acc
  | [], a => a
  | r :: rest, a =>
    match e r with
    | none => classify maxTries e rest a                         -- delivered
    | some c =>
      if !c.retryable || a.tries r + 1 ≥ maxTries then
        classify maxTries e rest { a with tries := updTries a.tries r 0, failedR := a.failedR ++ [r] }
      else
        classify maxTries e rest
          { a with tries := updTries a.tries r (a.tries r + 1), newR := a.newR ++ [r] }

/-- `Queue.tryDelivery`: one attempt. `dsn` = a bounce pipeline is configured and the sender is
not the null address.  Returns the metadata to retry with (`none` = removed from the spool). -/
def tryDelivery (maxTries : Nat) (k : Kind) (dsn : Bool) (p : Plan) (m : Meta) :
    Option Meta × List Ev :=
  let (e, evs) := deliver k p m.to
  let a := classify maxTries e m.to ⟨m.tries, [], []⟩
  let evR := if a.failedR.isEmpty || !dsn then [] else [Ev.report a.failedR]
  if a.newR.isEmpty then (none, evs ++ evR ++ [.removed])
  else (some ⟨a.newR, a.tries⟩, evs ++ evR ++ [.requeue a.newR])

/-- The queue's life of one message: attempts `i, i+1, …` with plans `plans i`. -/
def run (maxTries : Nat) (k : Kind) (dsn : Bool) (plans : Nat → Plan) : Nat → Nat → Meta → List Ev
  | 0, _, _ => []
  | fuel + 1, i, m =>
    match tryDelivery maxTries k dsn (plans i) m with
    | (none, evs) => evs
    | (some m', evs) => evs ++ run maxTries k dsn plans fuel (i + 1) m'

def commitCount (r : Addr) : List Ev → Nat
  | [] => 0
  | .committed rs :: t => rs.count r + commitCount r t
  | _ :: t => commitCount r t

def reportCount (r : Addr) : List Ev → Nat
  | [] => 0
  | .report rs :: t => rs.count r + reportCount r t
  | _ :: t => reportCount r t

def attempts : List Ev → Nat
  | [] => 0
  | .start _ :: t => 1 + attempts t
  | _ :: t => attempts t

end MaddyVerif.Queue
