/-
Model of per-recipient status reporting by the outbound targets
(`internal/smtpconn/smtpconn.go`: C.Mail, C.Rcpt, C.Rcpts;
 `internal/target/remote/remote.go`: AddRcpt, BodyNonAtomic, Close with connection pooling;
 `internal/target/smtp/smtp_downstream.go`: lmtpDelivery.AddRcpt / BodyNonAtomic;
 `internal/msgpipeline/msgpipeline.go`: statusCollector reverse translation; msgpipelineDelivery.AddRcpt
 bookkeeping (`delivery.recipients`, `originalRcpts`) and the statuses `BodyNonAtomic` generates itself:
 `setStatusAll`, Body error of a target without per-recipient results).
Core Lean only.
-/
namespace MaddyVerif.StatusKeys

/-- A recipient as the harness describes it: `id` identifies the address *as given* to the
target; `nonAscii` = `!address.IsASCII(to)`; `convertible` = `address.ToASCII(to)` succeeds;
`accept` = the next hop answers 2xx to RCPT for it (in whatever spelling it is sent). -/
structure Rcpt where
  id : Nat
  /-- the key of `remoteDelivery.connections`: the recipient domain *as spelled* (two spellings
  of one domain — letter case, A-label/U-label — are two keys, hence two connections). -/
  dom : Nat
  nonAscii : Bool
  convertible : Bool
  accept : Bool
  /-- the connection breaks while this RCPT is in flight (421 + close, close, reset, time-out):
  `C.Rcpt` returns an error and nothing more can be done on that connection. -/
  fault : Bool := false
deriving Repr, DecidableEq

/-- `smtpconn.C`: the per-connection list of accepted recipients used as status keys (`rcpts`),
next to what the server at the other end holds for the current transaction (`wire`: the RCPT
commands it answered 250) and whether the connection is still alive. -/
structure Conn where
  rcpts : List Nat := []
  wire : List Nat := []
  dead : Bool := false
  errored : Bool := false
deriving Repr

/-- `C.Mail`: a new transaction starts with no accepted recipients. (Only connections that
answered RSET — `mxConn.Usable` — are ever taken from the pool, so the connection is alive.) -/
def Conn.mail (_c : Conn) : Conn := { rcpts := [], wire := [], dead := false, errored := false }

/-- Can the address be put on the wire (`C.Rcpt`: conversion when the server lacks SMTPUTF8)? -/
def sendable (utf8 : Bool) (r : Rcpt) : Bool := !r.nonAscii || utf8 || r.convertible

/-- `C.Rcpt`: on acceptance the address *as given* is recorded. Returns (conn, accepted?). -/
def Conn.rcpt (c : Conn) (utf8 : Bool) (r : Rcpt) : Conn × Bool :=
  if c.dead || !sendable utf8 r then (c, false)                 -- I/O error / refused locally: nothing reaches the server
  else if r.fault then ({ c with dead := true }, false)          -- the connection dies under this RCPT
  else if r.accept then ({ c with rcpts := c.rcpts ++ [r.id], wire := c.wire ++ [r.id] }, true)
  else (c, false)

abbrev Pool := List (Nat × Conn)      -- idle connections by recipient domain

def poolTake (p : Pool) (d : Nat) : Option Conn × Pool :=
  match p.find? (fun e => e.1 == d) with
  | some e => (some e.2, p.filter (fun e => e.1 != d))
  | none => (none, p)

/-- The connections of one `remoteDelivery`, by recipient domain, in creation order. -/
abbrev Conns := List (Nat × Conn)

/-- `remoteDelivery.AddRcpt`: find (or open: pool look-up, then MAIL) the connection for the
recipient's domain and issue RCPT on it. Returns the connections, the pool and success. -/
def addTo (utf8 : Bool) (r : Rcpt) : Conns → Pool → Conns × Pool × Bool
  | [], pool =>
    let (c?, pool') := poolTake pool r.dom
    let c := (c?.getD {}).mail            -- connectionForDomain: (re)used connection, then MAIL
    let (c', ok) := c.rcpt utf8 r
    ([(r.dom, c')], pool', ok)
  | (d, c) :: rest, pool =>
    if d == r.dom then
      let (c', ok) := c.rcpt utf8 r
      ((d, c') :: rest, pool, ok)
    else
      let (rest', pool', ok) := addTo utf8 r rest pool
      ((d, c) :: rest', pool', ok)

/-- All AddRcpt calls of a transaction; `recipients` collects the accepted addresses as given. -/
def addAll (utf8 : Bool) : Conns × Pool × List Nat → List Rcpt → (Conns × Pool × List Nat) × List (Nat × Bool)
  | st, [] => (st, [])
  | (conns, pool, recips), r :: rest =>
    let (conns', pool', ok) := addTo utf8 r conns pool
    let (st'', oks) := addAll utf8 (conns', pool', if ok then recips ++ [r.id] else recips) rest
    (st'', (r.id, ok) :: oks)

/-- The status keys of a delivery: every connection's `Rcpts()`. -/
def keys (conns : Conns) : List Nat := conns.flatMap (fun e => e.2.rcpts)

/-- `remoteDelivery.BodyNonAtomic`: one status per entry of every connection's `Rcpts()`. -/
def bodyStatuses (conns : Conns) (dataFail : Nat → Bool) : List (Nat × Bool) :=
  conns.flatMap (fun e => e.2.rcpts.map (fun id => (id, !e.2.dead && !dataFail e.1)))

/-- What the next hop holds afterwards: the recipients of every transaction whose end-of-data it
answered 250 (DATA on a dead connection never gets there). -/
def delivered (conns : Conns) (dataFail : Nat → Bool) : List Nat :=
  conns.flatMap (fun e => if !e.2.dead && !dataFail e.1 then e.2.wire else [])

/-- `remoteDelivery.Close`: usable connections go back to the pool. -/
def closeDelivery (conns : Conns) (dataFail : Nat → Bool) (pool : Pool) : Pool :=
  pool ++ (conns.filter (fun e => !e.2.dead && !dataFail e.1))

structure Tx where
  rcpts : List Rcpt
  dataFail : Nat → Bool
  /-- connections (by key) whose goroutine could not open the message buffer (`b.Open()` failed:
  spool file gone, EMFILE, …). Which of the connections that is depends on the scheduler — an oracle;
  the connection reports the error for ITS `Rcpts()` and never sends DATA. -/
  openFail : Nat → Bool := fun _ => false
  /-- connections whose body reader failed mid-way: `C.Data` gives up inside the message data, the
  connection is dropped without the end-of-data marker (the server discards the partial message). -/
  readFail : Nat → Bool := fun _ => false
  /-- `msgMeta.Quarantine` was set after the recipients had been added: `BodyNonAtomic` refuses the
  message for every entry of `rd.recipients` and sends nothing. -/
  quarantine : Bool := false

/-- the connections whose recipients did not get the message: end-of-data refused, or the body never
(completely) reached the connection -/
def Tx.fails (tx : Tx) (d : Nat) : Bool := tx.dataFail d || tx.openFail d || tx.readFail d

/-- connections that cannot be reused afterwards (`mxConn.errored`): `C.Data` returned an error. A
connection whose goroutine could not open the buffer sent nothing and stays usable (RSET). -/
def Tx.breaks (tx : Tx) (d : Nat) : Bool := (tx.dataFail d || tx.readFail d) && !tx.openFail d

structure TxObs where
  adds : List (Nat × Bool)
  statuses : List (Nat × Bool)
  /-- ground truth at the next hop: recipients of the transactions it completed with 250 -/
  delivered : List Nat := []

/-- One transaction against the pool. (With no accepted recipient the delivery is aborted and
no status is reported.) -/
def runTx (utf8 : Bool) (pool : Pool) (tx : Tx) : Pool × TxObs :=
  let ((conns, pool', recips), adds) := addAll utf8 ([], pool, []) tx.rcpts
  let sts := if recips.isEmpty then [] else
    if tx.quarantine then recips.map (fun id => (id, false)) else bodyStatuses conns tx.fails
  let dl := if recips.isEmpty || tx.quarantine then [] else delivered conns tx.fails
  (closeDelivery conns (if tx.quarantine then fun _ => false else tx.breaks) pool', ⟨adds, sts, dl⟩)

def runHistory (utf8 : Bool) : Pool → List Tx → List TxObs
  | _, [] => []
  | pool, tx :: rest =>
    let (pool', o) := runTx utf8 pool tx
    o :: runHistory utf8 pool' rest

/-! ### the SMTPUTF8 negotiation of a transaction (`C.Mail` / `C.Rcpt`) -/

/-- What decides how internationalised addresses travel: does the next hop offer SMTPUTF8
(`c.cl.Extension("SMTPUTF8")`), does it ENFORCE RFC 6531 §3.4 (a non-ASCII address in RCPT TO is refused
unless the MAIL FROM of the transaction carried the SMTPUTF8 parameter), and does the MESSAGE carry the
flag (`MsgMetadata.SMTPOpts.UTF8`; false for a message received without the extension whose non-ASCII
recipients come from alias rewriting). -/
structure Caps where
  srvUtf8 : Bool
  strict : Bool := false
  msgUtf8 : Bool := true
deriving Repr, DecidableEq

/-- `C.Mail`: the parameter is sent iff the message asks for it and the server offers it
(`outOpts.UTF8`). It is decided ONCE, before any recipient is seen, and never revised. -/
def Caps.mailUtf8 (k : Caps) : Bool := k.msgUtf8 && k.srvUtf8

/-- `C.Rcpt` looks at the server's capability ONLY — not at what `C.Mail` sent: with SMTPUTF8 on offer a
non-ASCII address goes on the wire as given (without it: converted, or refused locally — `sendable`).
So in a transaction opened without the parameter a next hop that enforces §3.4 refuses every
non-ASCII recipient (553), a lax one answers as it pleases. The refusal is an ordinary refused RCPT:
nothing is restarted, the connection and its earlier recipients stay as they are. -/
def Caps.refuses (k : Caps) (r : Rcpt) : Bool := k.srvUtf8 && k.strict && !k.mailUtf8 && r.nonAscii

/-- the next hop's answer to the RCPT command as `C.Rcpt` sends it -/
def Caps.answer (k : Caps) (r : Rcpt) : Rcpt := { r with accept := r.accept && !k.refuses r }

def Tx.answer (k : Caps) (tx : Tx) : Tx := { tx with rcpts := tx.rcpts.map k.answer }

/-- A history under a capability set / message flag. -/
def runHistoryCaps (k : Caps) (pool : Pool) (txs : List Tx) : List TxObs :=
  runHistory k.srvUtf8 pool (txs.map (Tx.answer k))

/-! ### RFC 1870 SIZE announcements -/

/-- The next hop may announce a SIZE limit in its EHLO reply, per connection (so: per recipient domain as
spelled). `remoteDelivery.BodyNonAtomic` / `C.Data` do not look at it: the message is sent on every
connection, and a next hop whose limit is smaller than the message refuses it after the data (552) — an
ordinary DATA failure of THAT connection, reported for ITS `Rcpts()` and for nobody else. `tooSmall` says
for which connection keys the announced limit is below the message size. -/
def Tx.withSize (tooSmall : Nat → Bool) (tx : Tx) : Tx :=
  { tx with dataFail := fun d => tx.dataFail d || tooSmall d }

/-- A history against next hops that announce (and enforce) SIZE limits. -/
def runHistorySize (k : Caps) (tooSmall : Nat → Bool) (pool : Pool) (txs : List Tx) : List TxObs :=
  runHistoryCaps k pool (txs.map (Tx.withSize tooSmall))

/-! ### LMTP next hop (`lmtpDelivery`) -/

/-- `lmtpDelivery.BodyNonAtomic`: the i-th status the server sends belongs to the i-th accepted
recipient; if the exchange breaks after `k` statuses the rest get the transport error. -/
def lmtpStatuses (accepted : List Nat) (serverSt : List Bool) : List (Nat × Bool) :=
  let k := min serverSt.length accepted.length
  (accepted.take k).zip (serverSt.take k) ++ (accepted.drop k).map (fun id => (id, false))

/-! ### pipeline reverse translation -/

/-- `statusCollector.SetStatus`: effective recipient -> client-supplied one. -/
def translate (orig : List (Nat × Nat)) (eff : Nat) : Nat :=
  match orig.find? (fun e => e.1 == eff) with
  | some e => e.2
  | none => eff

/-- A nested pipeline (`reroute { … }`, a pipeline used as a target) sits between the target and
the outer pipeline and gets the very same `*MsgMetadata`. Every `msgpipelineDelivery` translates
through the table of the rewrites IT made (`msgpipelineDelivery.originalRcpts`): the result for a
final address goes through the inner delivery's table first, then through the outer one's — ONE
look-up each. `MsgMetadata.OriginalRcpts` (shared by all of them, possibly pre-filled by a pipeline
the message passed before a queue) takes no part in the translation. -/
def translateNested (outer inner : List (Nat × Nat)) (fin : Nat) : Nat :=
  translate outer (translate inner fin)

/-! ### statuses the pipeline generates itself -/

/-- One `msgpipelineDelivery.AddRcpt` call: the address the client supplied and the effective
addresses the modifiers turned it into (`[client]` itself when nothing rewrote it). Nothing is assumed
about the rewriting: two calls may produce the same effective address (two aliases of one mailbox), an
effective address may be another call's client address (alias and the mailbox it stands for), the same
client address may come twice. -/
abbrev PipeRcpt := Nat × List Nat

/-- `delivery.recipients`, in `AddRcpt` order: `originalTo` — the address AS SUPPLIED — once per
effective recipient handed to the target. -/
def pipeRecipients (rs : List PipeRcpt) : List Nat := rs.flatMap (fun r => r.2.map (fun _ => r.1))

/-- `msgpipelineDelivery.originalRcpts` as `AddRcpt` fills it (`if originalTo != to`): a map, so a later
call overwrites the entry of an earlier one (found first here). Neither injective nor total. -/
def pipeTable (rs : List PipeRcpt) : List (Nat × Nat) :=
  (rs.flatMap (fun r => (r.2.filter (fun x => x != r.1)).map (fun x => (x, r.1)))).reverse

/-- What `BodyNonAtomic` reports when the delivery fails as a whole — `setStatusAll` after a body
check / `applyResults` / `RewriteBody` failure, or the `Body` error of a target that has no
per-recipient results: the error for every entry of `delivery.recipients`, handed to the caller's
collector DIRECTLY (not through the translating `statusCollector`: these are client addresses already). -/
def pipeGenerated (rs : List PipeRcpt) : List (Nat × Bool) := (pipeRecipients rs).map (fun c => (c, false))

/-- The other path: a per-recipient target reports `res x` for every effective recipient `x`, the
`statusCollector` translates the key through the table (ONE look-up). -/
def pipeTranslated (rs : List PipeRcpt) (res : Nat → Bool) : List (Nat × Bool) :=
  rs.flatMap (fun r => r.2.map (fun x => (translate (pipeTable rs) x, res x)))

/-! ### recipients refused at `AddRcpt` time -/

/-- The state `msgpipelineDelivery.AddRcpt` works on when targets may REFUSE an address: the delivery's own
`originalRcpts` (newest entry first: a map, the later writer wins), what the per-recipient target holds (in
the order it took it), and every address the targets' `AddRcpt` were called with so far (refused calls too;
`asked2`: a second target of the destination block). Nothing in `AddRcpt` ever REMOVES anything from any of
them: `module.Delivery` has no way to take an address back from a target, and an entry of the table may be
what an earlier, accepted RCPT TO relies on. -/
structure RefSt where
  table : List (Nat × Nat) := []
  held : List Nat := []
  /-- `delivery.recipients` of the per-recipient target's delivery: the client-supplied address, appended once per
  effective address the target took (what `setStatusAll` reports for when the body stage fails) -/
  recips : List Nat := []
  asked1 : List Nat := []
  asked2 : List Nat := []

/-- a refusal script: `(address, k)` = the k-th call (1-based) for the address is refused, `k = 0`: every call -/
def refusesAt (script : List (Nat × Nat)) (e nth : Nat) : Bool :=
  script.any (fun p => p.1 == e && (p.2 == 0 || p.2 == nth))

/-- One `AddRcpt` call for the client-supplied address `c` whose effective addresses are `es`: for each, in
order, the table entry is written (`if originalTo != to`), then the targets of the block are asked; the first
refusal ends the call with an error — whatever was recorded and handed over before STAYS. `second`: the
destination block has a second target (without per-recipient results); `rej`: effective addresses for which the
configuration has a rejecting destination block. -/
def pipeAddEffs (second : Bool) (x y : List (Nat × Nat)) (rej : Nat → Bool) (c : Nat) : RefSt → List Nat → RefSt × Bool
  | st, [] => (st, true)
  | st, e :: es =>
    -- `rcptBlock.rejectErr`: a per-address destination block that rejects, chosen before anything is recorded
    if rej e then (st, false) else
    let st1 : RefSt := { st with table := if e != c then (e, c) :: st.table else st.table, asked1 := e :: st.asked1 }
    if refusesAt x e (st1.asked1.count e) then (st1, false) else
    let st2 : RefSt := { st1 with held := st1.held ++ [e], recips := st1.recips ++ [c] }
    if second then
      let st3 : RefSt := { st2 with asked2 := e :: st2.asked2 }
      if refusesAt y e (st3.asked2.count e) then (st3, false) else pipeAddEffs second x y rej c st3 es
    else pipeAddEffs second x y rej c st2 es

/-- the client's RCPT TO sequence: the session goes on after a refused recipient -/
def pipeAddCalls (second : Bool) (x y : List (Nat × Nat)) (rejC rej : Nat → Bool) : RefSt → List PipeRcpt → RefSt × List Bool
  | st, [] => (st, [])
  | st, r :: rs =>
    -- `rejC`: the call is refused before anything happens (the rejecting block is chosen by the client-supplied
    -- address when the rewriting modifier sits in the destination block)
    let (st1, ok) := if rejC r.1 then (st, false) else pipeAddEffs second x y rej r.1 st r.2
    let (st2, oks) := pipeAddCalls second x y rejC rej st1 rs
    (st2, ok :: oks)

/-- what the per-recipient target reports (`res`), through the translating `statusCollector` -/
def RefSt.statuses (st : RefSt) (res : Nat → Bool) : List (Nat × Bool) :=
  st.held.map (fun e => (translate st.table e, res e))

/-- the body stage failed for the whole delivery: `setStatusAll`, a failure per entry of `recipients`, untranslated -/
def RefSt.generated (st : RefSt) : List (Nat × Bool) := st.recips.map (fun c => (c, false))

end MaddyVerif.StatusKeys
