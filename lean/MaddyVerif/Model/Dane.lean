/-!
# Model of maddy's DANE verification (C13)

Mirrors, as they are in the tree (after the `fix:` commit recorded in notes/C13.md):

* `internal/target/remote/dane.go`      : `verifyDANE`
* `internal/target/remote/security.go`  : `daneDelivery.discoverTLSA`, `daneDelivery.CheckConn`,
  `daneDelivery.PrepareConn` (the lookup goroutine: a recovered panic leaves the future empty)
* `framework/dns/dnssec.go`             : `ExtResolver.exchange` (server loop, AD sanitising),
  `CheckCNAMEAD` (`checkCNAMEAD` over two exchanges; `checkAddr` over the A and the AAAA answer, one AD
  bit each), `AuthLookupCNAME`, `AuthLookupTLSA`, `isLoopback` (as the flag `Srv.loopback`)
* `internal/target/remote/connect.go`   : `remoteDelivery.connect` (the STARTTLS / retry ladder that
  produces the `tls.ConnectionState` handed to `CheckConn`), the DANE part of `attemptMX`

External behaviour is a parameter:

* `Env.recMatches r c`  — `(r dns.TLSA).Verify(c) == nil` (miekg/dns: hex of the selected part of the
  certificate under the record's matching type equals the record's association data);
* `Env.isCA c`          — `c.IsCA` (crypto/x509 parsing);
* `Env.chainVerify roots inters leaf` — `leaf.Verify(x509.VerifyOptions{DNSName: connState.ServerName,
  Roots: pool(roots), Intermediates: pool(inters), CurrentTime: verifyDANETime}) == nil`
  (the server name and the verification time are fixed per connection, so they are folded into the
  parameter);
* `Dns` — the results of the four `ExtResolver` calls `discoverTLSA` can make;
* `Transport` — which message `dns.Client.ExchangeContext` hands back for one configured server
  (the tree: plain UDP, a truncated answer is returned as it is; `udpOnly`). The resolver theorems
  hold for EVERY transport.
* `EnvN` — the same primitives with the reference identifier of the X.509 query explicit
  (`chainVerifyAt name …`, `none` = an empty `DNSName`: crypto/x509 skips the name check);
* `Attempt` — what the peer does on one connection attempt of `connect` (any function of the TLS
  configuration the client uses). The connect theorems hold for EVERY sequence of attempts.

Certificates are opaque identities (`Nat`), TLSA association data is an opaque `tag`.
Go panics (`connState.PeerCertificates[0]` on an empty slice) are the explicit outcome `Res.panic`.
Core Lean only.
-/
namespace MaddyVerif.Dane

/-- `dns.TLSA` as far as `verifyDANE` looks at it. The three numeric fields are `uint8` in Go; the
model allows any `Nat`. `tag` stands for the association data (`Certificate` hex string), `owner`
for the owner name of the RR (`Hdr.Name`: `_25._tcp.<mx>`, or whatever name a CNAME'd TLSA RRset
lives under) as an opaque identity, `dlen` for the length in bytes of the association data (32 for a
SHA-256 digest, 64 for SHA-512, anything for a record edited by hand). No function below reads
`owner` or `dlen`: which records are usable is decided by usage / selector / matching type alone, and
no lookup function drops a record because of its data. -/
structure Rec where
  usage : Nat
  selector : Nat
  mtype : Nat
  tag : Nat
  owner : Nat
  dlen : Nat
deriving DecidableEq, Repr

abbrev Cert := Nat

structure Env where
  recMatches : Rec → Cert → Bool
  isCA : Cert → Bool
  chainVerify : List Cert → List Cert → Cert → Bool

/-- the two `*exterrors.SMTPError` values `verifyDANE` can return -/
inductive DErr where
  /-- 550 5.7.1 "TLS is required but unsupported or failed (enforced by DANE)" -/
  | tlsRequired
  /-- 550 5.7.0 "No matching TLSA records" -/
  | noMatch
deriving DecidableEq, Repr

/-- result of `verifyDANE`: `(overridePKIX, err)` or a run-time panic -/
inductive Res where
  | ret (overridePKIX : Bool) (err : Option DErr)
  | panic
deriving DecidableEq, Repr

/-- `switch rec.MatchingType { case 0, 1, 2: default: continue }` -/
def mtypeOk (r : Rec) : Bool := r.mtype == 0 || r.mtype == 1 || r.mtype == 2

/-- `switch rec.Selector { case 0, 1: default: continue }` -/
def selectorOk (r : Rec) : Bool := r.selector == 0 || r.selector == 1

/-- records appended to `taRecs` (`case 2`) -/
def isTA (r : Rec) : Bool := mtypeOk r && selectorOk r && r.usage == 2

/-- records appended to `eeRecs` (`case 3`) -/
def isEE (r : Rec) : Bool := mtypeOk r && selectorOk r && r.usage == 3

def eeRecs (recs : List Rec) : List Rec := recs.filter isEE
def taRecs (recs : List Rec) : List Rec := recs.filter isTA

/-- the inner loop over `taRecs` for one certificate: one `opts.Roots.AddCert(cert)` per record with
`cert.IsCA && rec.Verify(cert) == nil` -/
def rootAddsOf (E : Env) (ta : List Rec) (c : Cert) : List Cert :=
  (ta.filter (fun r => E.isCA c && E.recMatches r c)).map (fun _ => c)

/-- `root` flag after the inner loop -/
def isRoot (E : Env) (ta : List Rec) (c : Cert) : Bool :=
  ta.any (fun r => E.isCA c && E.recMatches r c)

/-- every `opts.Roots.AddCert` call of the outer loop, in order (a certificate matched by several
records is added several times; `x509.CertPool` is a set) -/
def rootAdds (E : Env) (ta : List Rec) (chain : List Cert) : List Cert :=
  chain.flatMap (rootAddsOf E ta)

/-- every `opts.Intermediates.AddCert` call, in order -/
def interAdds (E : Env) (ta : List Rec) (chain : List Cert) : List Cert :=
  chain.filter (fun c => !isRoot E ta c)

/-- `verifyDANE(recs, connState)`; `hs = connState.HandshakeComplete`,
`chain = connState.PeerCertificates`. -/
def verifyDANE (E : Env) (recs : List Rec) (hs : Bool) (chain : List Cert) : Res :=
  if recs.isEmpty then .ret false none
  else if !hs then .ret false (some .tlsRequired)
  else
    let ee := eeRecs recs
    let ta := taRecs recs
    if ee.isEmpty && ta.isEmpty then .ret false none
    else
      match chain with
      | [] => .panic            -- PeerCertificates[0]: index out of range
      | leaf :: _ =>
        if ee.any (fun r => E.recMatches r leaf) then .ret true none
        else if ta.isEmpty then .ret false (some .noMatch)
        else if E.chainVerify (rootAdds E ta chain) (interAdds E ta chain) leaf then .ret true none
        else .ret false (some .noMatch)

/-! ## TLSA discovery and the connection decision -/

/-- classification of a lookup error by `dns.IsNotFound` -/
inductive LErr where
  | notFound
  | other
deriving DecidableEq, Repr

/-- `rname` returned by `ExtResolver.CheckCNAMEAD(ctx, mx)` compared with `mx` -/
inductive RName where
  /-- `rname == ""`: no A/AAAA record -/
  | empty
  /-- `rname == mx` -/
  | same
  /-- a different (canonical) name -/
  | other
deriving DecidableEq, Repr

/-- `(ad, recs, err)` of `ExtResolver.AuthLookupTLSA` -/
structure TLSAAns where
  err : Option LErr
  ad : Bool
  recs : List Rec
deriving Repr

/-- results of the resolver calls `discoverTLSA` may make (each is consulted at most once) -/
structure Dns where
  /-- `CheckCNAMEAD(ctx, mx)` : error or `(adA, rname)` -/
  checkCNAMEAD : Except LErr (Bool × RName)
  /-- `AuthLookupCNAME(ctx, mx)` : error or `cnameAD` -/
  lookupCNAME : Except LErr Bool
  /-- `AuthLookupTLSA(ctx, "25", "tcp", rname)` -/
  tlsaRname : TLSAAns
  /-- `AuthLookupTLSA(ctx, "25", "tcp", mx)` -/
  tlsaMX : TLSAAns

/-- errors `discoverTLSA` can return -/
inductive DiscErr where
  | lookup (e : LErr)
  /-- `errors.New("no address associated with the host")` -/
  | noAddress
  /-- not an error of `discoverTLSA`: the future was never completed (the lookup goroutine crashed)
  and `c.tlsaFut.GetContext(ctx)` returned `ctx.Err()` when the delivery's context ended -/
  | incomplete
deriving DecidableEq, Repr

def DiscErr.isNotFound : DiscErr → Bool
  | .lookup .notFound => true
  | _ => false

/-- the tail of `discoverTLSA`: TLSA under the initial name -/
def discoverAtMX (D : Dns) : Except DiscErr (List Rec) :=
  match D.tlsaMX.err with
  | some .other => .error (.lookup .other)
  | _ =>
    if !D.tlsaMX.ad then .ok []
    else .ok D.tlsaMX.recs

/-- the part of `discoverTLSA` after the host was found to be secure -/
def discoverSecure (D : Dns) (rn : RName) : Except DiscErr (List Rec) :=
  if rn != .same then
    match D.tlsaRname.err with
    | some .other => .error (.lookup .other)
    | _ =>
      if D.tlsaRname.ad && !D.tlsaRname.recs.isEmpty then .ok D.tlsaRname.recs
      else discoverAtMX D
  else discoverAtMX D

/-- `daneDelivery.discoverTLSA(ctx, mx)` -/
def discoverTLSA (D : Dns) : Except DiscErr (List Rec) :=
  match D.checkCNAMEAD with
  | .error e => .error (.lookup e)
  | .ok (adA, rn) =>
    if rn == .empty then .error .noAddress
    else if !adA then
      if rn == .same then .ok []
      else
        match D.lookupCNAME with
        | .error e => .error (.lookup e)
        | .ok cnameAD =>
          if !cnameAD then .ok []
          else discoverSecure D rn
    else discoverSecure D rn

/-- `module.TLSLevel` values `CheckConn` returns -/
inductive Level where
  | none
  | authenticated
deriving DecidableEq, Repr

/-- errors `CheckConn` returns -/
inductive CErr where
  /-- `exterrors.WithTemporary(err, true)` of a discovery error -/
  | tempLookup
  | dane (e : DErr)
deriving DecidableEq, Repr

inductive CRes where
  | ret (level : Level) (err : Option CErr)
  | panic
deriving DecidableEq, Repr

/-- `daneDelivery.CheckConn`; `haveResolver = (c.c.extResolver != nil)`, `fut` = what
`c.tlsaFut.GetContext` yields (the result of `discoverTLSA`). -/
def checkConn (E : Env) (haveResolver : Bool) (fut : Except DiscErr (List Rec)) (hs : Bool)
    (chain : List Cert) : CRes :=
  if !haveResolver then .ret .none none
  else
    match fut with
    | .error e => if e.isNotFound then .ret .none none else .ret .none (some .tempLookup)
    | .ok recs =>
      match verifyDANE E recs hs chain with
      | .panic => .panic
      | .ret _ (some e) => .ret .none (some (.dane e))
      | .ret true none => .ret .authenticated none
      | .ret false none => .ret .none none

/-- `PrepareConn` + `CheckConn` on one connection -/
def connDecision (E : Env) (haveResolver : Bool) (D : Dns) (hs : Bool) (chain : List Cert) : CRes :=
  checkConn E haveResolver (discoverTLSA D) hs chain

/-- `PrepareConn` and the wait in `CheckConn`. `disc` = how the lookup goroutine ended: `some r` —
`discoverTLSA` returned `r` and `fut.Set(r)` ran; `none` — it panicked (in the resolver library, on a
missing response, anywhere): the deferred handler recovers and logs, and does NOT complete the
future, so `GetContext` returns only when the context ends, with its error. A crashed discovery is a
failed discovery; it never turns into "no records". -/
def prepareConn (disc : Option (Except DiscErr (List Rec))) : Except DiscErr (List Rec) :=
  match disc with
  | some r => r
  | none => .error .incomplete

/-- `PrepareConn` + `CheckConn` on one connection when the discovery may crash (`crashed`: a panic was
raised inside the lookup goroutine) -/
def connDecisionC (E : Env) (haveResolver : Bool) (crashed : Bool) (D : Dns) (hs : Bool)
    (chain : List Cert) : CRes :=
  checkConn E haveResolver (prepareConn (if crashed then none else some (discoverTLSA D))) hs chain

/-! ## `framework/dns/dnssec.go`: the resolver the four lookups go through -/

/-- one DNS response as the resolver functions look at it. `rname`: for an A / AAAA question the
owner name of the last address record of the answer section, compared with the question name
(`.empty`: no such record); `recs`: the TLSA records of the answer section, in order. -/
structure Msg where
  rcode : Nat
  ad : Bool
  tc : Bool
  rname : RName
  recs : List Rec
deriving Repr

/-- what one configured server does with one question, per transport; `none` = no usable answer
(network error, packet that does not parse) -/
structure SrvAns where
  udp : Option Msg
  tcp : Option Msg
deriving Repr

/-- what `e.cl.ExchangeContext(ctx, msg, addr)` hands back for one server -/
abbrev Transport := SrvAns → Option Msg

/-- the transport of the tree: `dns.Client{Net: ""}` — UDP, one attempt, no fall-back to TCP when the
answer is truncated (the truncated message is returned as it is) -/
def udpOnly : Transport := fun a => a.udp

/-- `RCodeError{…, rcode}` under `dns.IsNotFound` -/
def rcodeErr (rcode : Nat) : LErr := if rcode == 3 then .notFound else .other

/-- `(resp, lastErr)` of `ExtResolver.exchange` -/
inductive XRes where
  /-- `resp == nil ∧ lastErr == nil`: `Cfg.Servers` is empty; every caller dereferences `resp` -/
  | nilResp
  | err (e : LErr)
  | ok (m : Msg)
deriving Repr

/-- the `for _, srv := range e.Cfg.Servers` loop; a server is `(isLoopback(srv), its answer)`;
`acc` = `(resp, lastErr)` so far -/
def exchangeLoop (T : Transport) : List (Bool × SrvAns) → XRes → XRes
  | [], acc => acc
  | (loopback, a) :: rest, _ =>
    match T a with
    | none => exchangeLoop T rest (.err .other)                 -- lastErr != nil: continue
    | some m =>
      if m.rcode != 0 then exchangeLoop T rest (.err (rcodeErr m.rcode))
      else .ok { m with ad := m.ad && loopback }                -- AD disregarded unless loopback; break

def exchange (T : Transport) (servers : List (Bool × SrvAns)) : XRes :=
  exchangeLoop T servers .nilResp

/-- `ExtResolver.AuthLookupTLSA`; `none` = nil dereference -/
def authLookupTLSA : XRes → Option TLSAAns
  | .nilResp => none
  | .err e => some ⟨some e, false, []⟩
  | .ok m => some ⟨none, m.ad, m.recs⟩

/-- `ExtResolver.AuthLookupCNAME` (the target is not used by `discoverTLSA`) -/
def authLookupCNAME : XRes → Option (Except LErr Bool)
  | .nilResp => none
  | .err e => some (.error e)
  | .ok m => some (.ok m.ad)

/-- `ExtResolver.CheckCNAMEAD`: `xa` / `xaaaa` = the exchanges for the A and the AAAA question (the
second one is made only when the first answer has no A record; its error is dropped) -/
def checkCNAMEAD (xa xaaaa : XRes) : Option (Except LErr (Bool × RName)) :=
  match xa with
  | .nilResp => none
  | .err e => some (.error e)
  | .ok m =>
    if m.rname != .empty then some (.ok (m.ad, m.rname))
    else
      match xaaaa with
      | .nilResp => none
      | .err _ => some (.ok (false, .empty))
      | .ok m6 =>
        if m6.rname != .empty then some (.ok (m6.ad, m6.rname)) else some (.ok (false, .empty))

/-- one configured server: `isLoopback(srv)` and its answers to the five questions `discoverTLSA`
can ask (A and AAAA for the MX name, CNAME for the MX name, TLSA under the canonical and under the
MX name) -/
structure Srv where
  loopback : Bool
  a : SrvAns
  aaaa : SrvAns
  cname : SrvAns
  tlsaR : SrvAns
  tlsaM : SrvAns
deriving Repr

def ask (T : Transport) (W : List Srv) (q : Srv → SrvAns) : XRes :=
  exchange T (W.map (fun s => (s.loopback, q s)))

/-- the four lookups through the resolver configured with servers `W`; `none` = nil dereference
(`W = []`, which `NewExtResolver` never leaves) -/
def resolverDns (T : Transport) (W : List Srv) : Option Dns :=
  match checkCNAMEAD (ask T W (·.a)) (ask T W (·.aaaa)), authLookupCNAME (ask T W (·.cname)),
      authLookupTLSA (ask T W (·.tlsaR)), authLookupTLSA (ask T W (·.tlsaM)) with
  | some ck, some cn, some tr, some tm => some ⟨ck, cn, tr, tm⟩
  | _, _, _, _ => none

/-- `PrepareConn` + `CheckConn` with the lookups made through the resolver. A nil dereference
(`resolverDns … = none`) happens inside the lookup goroutine, which recovers: `prepareConn none`. -/
def resolverConn (E : Env) (T : Transport) (W : List Srv) (hs : Bool) (chain : List Cert) : CRes :=
  checkConn E true (prepareConn ((resolverDns T W).map discoverTLSA)) hs chain

/-! ## The AD bit of each RRset on its own

A validating resolver reports AD per ANSWER: the A answer, the AAAA answer, the CNAME answer and the
two TLSA answers of one host each carry their own bit, and they do differ (a DNS64 resolver
synthesises AAAA records and cannot set AD on them; `AuthLookupIPAddr` documents inconsistent AD
between the address families). `CheckCNAMEAD` consults ONE address RRset: the A RRset when the host
has A records, the AAAA RRset only when it has none. -/

/-- what one address-type lookup (`exchange` for the A or for the AAAA question) yields as far as
`CheckCNAMEAD` reads it: the error, or the AD bit OF THAT ANSWER and the owner name of its last address
record compared with the question name (`.empty`: no record of the asked type) -/
abbrev AddrAns := Except LErr (Bool × RName)

/-- the same as a result of `exchange` (RCODE 0, not truncated) -/
def AddrAns.toX : AddrAns → XRes
  | .error e => .err e
  | .ok (ad, rn) => .ok ⟨0, ad, false, rn, []⟩

/-- `ExtResolver.CheckCNAMEAD` over the two address answers: the A answer decides when it holds an A
record; else the AAAA answer (its error is dropped: "no address") -/
def checkAddr (a aaaa : AddrAns) : Except LErr (Bool × RName) :=
  match a with
  | .error e => .error e
  | .ok (adA, rnA) =>
    if rnA != .empty then .ok (adA, rnA)
    else
      match aaaa with
      | .error _ => .ok (false, .empty)
      | .ok (ad6, rn6) => if rn6 != .empty then .ok (ad6, rn6) else .ok (false, .empty)

/-- the answers discovery works with, one AD bit per RRset: A, AAAA, CNAME, TLSA under the canonical
name, TLSA under the MX name -/
structure DnsRR where
  a : AddrAns
  aaaa : AddrAns
  lookupCNAME : Except LErr Bool
  tlsaRname : TLSAAns
  tlsaMX : TLSAAns

def DnsRR.toDns (D : DnsRR) : Dns := ⟨checkAddr D.a D.aaaa, D.lookupCNAME, D.tlsaRname, D.tlsaMX⟩

/-- `discoverTLSA` with `CheckCNAMEAD` unfolded into its two exchanges -/
def discoverRR (D : DnsRR) : Except DiscErr (List Rec) := discoverTLSA D.toDns

/-- `PrepareConn` + `CheckConn` over per-RRset answers -/
def connDecisionRR (E : Env) (haveResolver : Bool) (D : DnsRR) (hs : Bool) (chain : List Cert) : CRes :=
  checkConn E haveResolver (discoverRR D) hs chain

/-! ## `connect.go`: the connection state `CheckConn` is handed

`remoteDelivery.connect` tries STARTTLS with X.509 verification, on a verification error once more
with `InsecureSkipVerify` (DANE may still authenticate the peer), on any other TLS error in
plaintext. `attemptMX` hands the `tls.ConnectionState` of the connection that is left to every
policy's `CheckConn`; `verifyDANE` takes the reference identifier of its DANE-TA path validation from
that state (`DNSName: connState.ServerName`). -/

/-- host names, as opaque identities -/
abbrev Name := Nat

/-- the primitives with the reference identifier of the X.509 query explicit:
`chainVerifyAt name roots inters leaf` = `leaf.Verify(VerifyOptions{DNSName: name, Roots, Intermediates,
CurrentTime}) == nil`; `none` is the empty string, for which crypto/x509 skips host-name verification -/
structure EnvN where
  recMatches : Rec → Cert → Bool
  isCA : Cert → Bool
  chainVerifyAt : Option Name → List Cert → List Cert → Cert → Bool

/-- the primitives `verifyDANE` works with on a connection whose state reports server name `name` -/
def EnvN.forName (EN : EnvN) (name : Option Name) : Env :=
  ⟨EN.recMatches, EN.isCA, EN.chainVerifyAt name⟩

/-- the two fields of `tls.Config` that `connect` writes -/
structure TlsCfg where
  /-- `ServerName`; `none` = "" -/
  serverName : Option Name
  /-- `InsecureSkipVerify` -/
  insecure : Bool
deriving DecidableEq, Repr

/-- outcome of `conn.Client().Hello(...)` after `StartTLS` (the deferred TLS handshake + EHLO) -/
inductive Hello where
  | ok
  /-- `isVerifyError(err)`: a `*tls.CertificateVerificationError` -/
  | verifyErr
  | otherErr
deriving DecidableEq, Repr

/-- what the peer (and the network) does on one connection attempt -/
structure Attempt where
  /-- `conn.Connect(...)` succeeds (dial, greeting, EHLO) -/
  connectOk : Bool
  /-- the EHLO reply lists STARTTLS -/
  starttls : Bool
  /-- the STARTTLS command is accepted -/
  starttlsCmdOk : Bool
  /-- the handshake under the configuration the client uses: ANY function of it -/
  hello : TlsCfg → Hello
  /-- the certificates presented in a completed handshake -/
  chain : List Cert

/-- `module.TLSLevel` -/
inductive TLSLevel where
  | none
  | encrypted
  | authenticated
deriving DecidableEq, Repr

/-- `tls.ConnectionState` of the connection `connect` leaves, as far as `verifyDANE` reads it — and
one field it does NOT read -/
structure ConnState where
  hs : Bool
  /-- `ServerName`: the name the CLIENT configured for the handshake (`none` = "") -/
  serverName : Option Name
  chain : List Cert
  /-- `len(VerifiedChains) != 0`: crypto/tls verified the presented chain itself (a handshake made
  without `InsecureSkipVerify` that completed). No function of the DANE decision reads it: a chain
  that passes ordinary verification is not thereby anchored at the certificate a DANE-TA record
  asserts. -/
  verified : Bool
deriving DecidableEq, Repr

/-- the zero `tls.ConnectionState` of a plaintext connection -/
def ConnState.plain : ConnState := ⟨false, none, [], false⟩

inductive ConnectRes where
  /-- `err != nil`: this MX is given up -/
  | fail
  | ok (level : TLSLevel) (st : ConnState)
deriving DecidableEq, Repr

/-- the `retry:` loop of `connect`. `srv i` = the i-th connection attempt; `cfg` = `tlsCfg`
(`none` = nil), `level` = `tlsLevel`. `fuel` bounds the recursion; three rounds are all the loop can
make (`connectLoop_fuel`). -/
def connectLoop (srv : Nat → Attempt) : Nat → Nat → Option TlsCfg → TLSLevel → ConnectRes
  | 0, _, _, _ => .fail
  | fuel + 1, i, cfg, level =>
    let a := srv i
    if !a.connectOk then .fail
    else
      match cfg with
      | none => .ok .none .plain                                  -- `tlsLevel = module.TLSNone`
      | some c =>
        if !a.starttls then .ok .none .plain
        else if !a.starttlsCmdOk then .fail                       -- no fall-back
        else
          match a.hello c with
          | .ok => .ok level ⟨true, c.serverName, a.chain, !c.insecure⟩
          | .verifyErr =>
            if level == .authenticated then
              -- `tlsCfg.InsecureSkipVerify = true` on the SAME configuration: ServerName stays
              connectLoop srv fuel (i + 1) (some { c with insecure := true }) .encrypted
            else connectLoop srv fuel (i + 1) none .none
          | .otherErr => connectLoop srv fuel (i + 1) none .none

/-- `rd.connect(ctx, conn, host, rd.rt.tlsConfig)`; `base` = `rd.rt.tlsConfig` (`none` = nil):
`tlsCfg = rd.rt.tlsConfig.Clone(); tlsCfg.ServerName = host` -/
def connect (host : Name) (base : Option TlsCfg) (srv : Nat → Attempt) : ConnectRes :=
  connectLoop srv 3 0 (base.map (fun c => { c with serverName := some host })) .authenticated

/-- what `attemptMX` ends in, with DANE as the only policy -/
inductive MXRes where
  /-- `connect` failed -/
  | connErr
  /-- `CheckConn` returned an error: the connection is closed, the MX not used -/
  | refused (e : CErr)
  /-- the connection is kept, with this `tlsLevel` -/
  | ok (level : TLSLevel)
  | panic
deriving DecidableEq, Repr

/-- the part of `attemptMX` after `connect`: `CheckConn` on `conn.Client().TLSConnectionState()` (its
primitives `E` are those for the server name the state reports), then
`if policyLevel > tlsLevel { tlsLevel = policyLevel }` -/
def policyStep (E : Env) (haveResolver : Bool) (fut : Except DiscErr (List Rec)) (level : TLSLevel)
    (st : ConnState) : MXRes :=
  match checkConn E haveResolver fut st.hs st.chain with
  | .panic => .panic
  | .ret _ (some e) => .refused e
  | .ret .authenticated none => .ok .authenticated
  | .ret .none none => .ok level

/-- the DANE part of `attemptMX(ctx, conn, record)` for `record.Host = host`: `PrepareConn` (its result
is `fut`), `connect`, `CheckConn`, level update. `verifyDANE` reads the reference identifier of its
X.509 query from the connection state. -/
def attemptMX (EN : EnvN) (host : Name) (base : Option TlsCfg) (srv : Nat → Attempt)
    (haveResolver : Bool) (fut : Except DiscErr (List Rec)) : MXRes :=
  match connect host base srv with
  | .fail => .connErr
  | .ok level st => policyStep (EN.forName st.serverName) haveResolver fut level st

end MaddyVerif.Dane
