import MaddyVerif.Model.Wire
/-
Model of what the queue keeps in its spool for one message and what it hands to the downstream
target on every delivery attempt.  Core Lean only.

Mirrored Go code (`internal/target/queue/queue.go`, `framework/module/msgmetadata.go`,
`framework/buffer/{file,memory}.go`):
* `queueDelivery.Body` -> `storeNewMessage`: `<id>.header` := `textproto.WriteHeader(header)`,
  `<id>.body` := `io.Copy` of `body.Open()` (whatever the buffer kind), `<id>.meta` written by
  `updateMetadataOnDisk`; the returned body buffer is a `FileBuffer` over `<id>.body`;
* `updateMetadataOnDisk`: `metaCopy := *meta; metaCopy.MsgMeta = meta.MsgMeta.DeepCopy();
  metaCopy.MsgMeta.Conn = nil; json.Encode(metaCopy)` - `encodeMeta`; which fields `encoding/json`
  keeps is the parameter `vis` (instantiated with the field table regenerated from the code);
  all three files are created with `os.Create` (O_TRUNC): what a file of the same name held before
  is gone (`createFile`, `acceptOver`);
* `queueDelivery.Commit`: the first attempt is scheduled with the IN-MEMORY metadata and header
  (`queueSlot{Meta, Hdr, Body}`), every later one with `queueSlot{ID}` only;
* `dispatch`/`openMessage`/`readMessageMeta`: `slot.Meta == nil` => metadata decoded from
  `<id>.meta`, header parsed from `<id>.header` with `textproto.ReadHeader`, body = `FileBuffer`;
  a read/parse error ends the attempt before the target is called and nothing re-schedules it;
* `deliver`: `Target.Start(meta.MsgMeta.DeepCopy(), meta.From)`, `AddRcpt` for each of `meta.To`,
  `Body`/`BodyNonAtomic(header, body)` iff a recipient was accepted;
* `tryDelivery`: walks `meta.To` and classifies every ADDRESS once per attempt (`seenRcpts`: a
  later entry naming an address already classified is skipped - fix 6b03754), so `newRcpts` and
  `failedRcpts` name each address once, in the order of first occurrence (`dedup`, `pending`,
  `givenUp`); `meta.To = newRcpts; updateMetadataOnDisk(meta)` or `removeFromDisk`; before
  either, `emitDSN(meta, header, failedRcpts)` when it gave somebody up in this attempt.  The
  list the target is HANDED in an attempt is `meta.To` as it stands (`deliver` does not collapse
  anything): the accepted list, duplicates included, until the first attempt has rewritten it;
* `emitDSN`: nothing without a bounce pipeline or for a null `OriginalFrom`; otherwise
  `dsn.GenerateDSN(meta.MsgMeta.SMTPOpts.UTF8, ..., header, ...)` - it fails when `meta.From` or a
  reported recipient (`OriginalRcpts[rcpt]` if there is one) has no representation in the chosen
  format (`address.SelectIDNA`, an oracle here) - and the report goes to `meta.From` through the
  bounce pipeline with the original message's SMTPUTF8 flag.  It READS metadata and header: neither
  the metadata object, nor the header value (whose field slice is shared with every other holder
  of the value), nor the spool is written;
* `dispatch`'s deferred handler (`dontRecover = false`, the production setting): a panic anywhere
  below it (here: in the downstream target) -> `discardBroken(slot.ID)`: `os.Rename(<id>.meta,
  <id>.meta_broken)` - `Step.panicked`; a leftover `<id>.meta.new` of an interrupted
  `updateMetadataOnDisk` (any content) is not looked at by `readDiskQueue` (suffix `.meta` only)
  and is overwritten by the next rewrite: a restart with such a leftover is `Step.restart`;
* restart: `Close` + `readDiskQueue` of a new queue: every `<id>.meta` (whose `<id>.header` and
  `<id>.body` exist - of ANY length, an empty body file is a message with an empty body) is
  scheduled as `queueSlot{ID}`; also when `Commit` was answered by a queue whose time wheel was
  already stopped (`TimeWheel.Add` ignores the entry: the message is in the spool only).

The metadata object is shared with the caller (`Queue.Start` keeps the pointer it is given): what
is stored, and what the first attempt hands over, is its value when `Body` is called (the SMTP
endpoint sets `TLSRequireOverride` between `Start` and `Body` and does not touch it afterwards).
`DeepCopy` copies the struct only; maps stay shared with a target that would write to them.

Not modelled here (C01's model does): how an entry is classified (error classification, try
counts) - an attempt carries the two functions `acc`/`next` standing for the target's answers
and that classification (`next to` = the entries of `to` classified "retry"); theorems quantify
over all of them.  What IS modelled here is that the walk collapses duplicates: what stays
pending is `pending next to = dedup (next to)`.  Strings are opaque (`Nat`
identities, `0` = the empty string).  `encoding/json` replaces every byte sequence that is not
valid UTF-8 by U+FFFD when it writes a string: that is the parameter `co : Str → Str`
("what comes back after encode + decode"), the identity exactly on valid UTF-8.
-/
namespace MaddyVerif.WireSpool
open MaddyVerif.Wire

abbrev Str := Nat

/-- `module.ConnState`, the part C10 talks about. -/
structure Conn where
  authUser : Str
  authPassword : Str
deriving DecidableEq, Repr

/-- `module.MsgMetadata`. -/
structure MsgMeta where
  id : Str
  originalFrom : Str
  dontTraceSender : Bool
  quarantine : Bool
  originalRcpts : List (Str × Str)
  utf8 : Bool
  requireTLS : Bool
  conn : Option Conn
  tlsRequireOverride : Bool
deriving DecidableEq, Repr

/-- `queue.QueueMetadata` (the bookkeeping of failures and try counts belongs to C01/C18). -/
structure QMeta where
  msgMeta : MsgMeta
  sender : Str
  to : List Str
deriving DecidableEq, Repr

/-- which dotted field paths below `QueueMetadata` survive `encoding/json` -/
abbrev Vis := List String → Bool

def keepS (v : Bool) (x : Str) : Str := if v then x else 0
def keepB (v : Bool) (x : Bool) : Bool := v && x
def keepL {α} (v : Bool) (x : List α) : List α := if v then x else []

/-- The JSON document `updateMetadataOnDisk` writes, as the record `readMessageMeta` decodes from
it: `Conn` is set to nil before encoding; a field that `encoding/json` does not see comes back as
its zero value; every string goes through `co`. -/
def encodeMeta (vis : Vis) (co : Str → Str) (m : QMeta) : QMeta :=
  let mm := m.msgMeta
  let p (f : String) : Bool := vis ["MsgMeta"] && vis ["MsgMeta", f]
  { sender := keepS (vis ["From"]) (co m.sender)
    to := keepL (vis ["To"]) (m.to.map co)
    msgMeta :=
      { id := keepS (p "ID") (co mm.id)
        originalFrom := keepS (p "OriginalFrom") (co mm.originalFrom)
        dontTraceSender := keepB (p "DontTraceSender") mm.dontTraceSender
        quarantine := keepB (p "Quarantine") mm.quarantine
        originalRcpts := keepL (p "OriginalRcpts") (mm.originalRcpts.map fun q => (co q.1, co q.2))
        utf8 := keepB (p "SMTPOpts" && vis ["MsgMeta", "SMTPOpts", "UTF8"]) mm.utf8
        requireTLS := keepB (p "SMTPOpts" && vis ["MsgMeta", "SMTPOpts", "RequireTLS"]) mm.requireTLS
        conn := none
        tlsRequireOverride := keepB (p "TLSRequireOverride") mm.tlsRequireOverride } }

/-- What the queue accepted: header and body handed to `Body`, metadata as of that call. -/
structure Accepted where
  hdr : Header
  body : Bytes
  qmeta : QMeta

structure Disk where
  hdrFile : Bytes
  bodyFile : Bytes
  metaFile : QMeta

/-- What the downstream target is handed in one attempt.  `content` = header and body passed to
`Body`/`BodyNonAtomic`, absent when no recipient was accepted. -/
structure Seen where
  sender : Str
  to : List Str
  utf8 : Bool
  requireTLS : Bool
  tlsRequireOverride : Bool
  originalRcpts : List (Str × Str)
  content : Option (Header × Bytes)
deriving DecidableEq, Repr

/-- A failure report handed to the bounce pipeline: who it is sent to (`meta.From`), the SMTPUTF8
flag it is generated and sent with, the header of the failed message it quotes. -/
structure Report where
  to : Str
  utf8 : Bool
  hdr : Header
deriving DecidableEq, Repr

inductive Ev
  | seen (s : Seen) (connPresent : Bool)
  | readError
  | wrote (doc : QMeta)
  | removed
  | report (r : Report)
  | reportFailed
  /-- what the target had been handed when it panicked inside the attempt -/
  | seenPanicked (s : Seen) (connPresent : Bool)
  /-- `discardBroken`: `<id>.meta` renamed to `<id>.meta_broken`; `doc` = the record that file holds -/
  | broke (doc : QMeta)
deriving Repr

/-- the call of the downstream target that panics: `Start`, the first `AddRcpt`, `Body` /
`BodyNonAtomic` (the final `Abort` when nobody was accepted), the final `Commit` / `Abort` -/
inductive Stage
  | start | rcpt | body | fin
deriving DecidableEq, Repr

/-- `tryDelivery`'s walk over `meta.To` with the `seenRcpts` set: every address once, in the order
of first occurrence. -/
def dedup : List Str → List Str
  | [] => []
  | x :: r => x :: (dedup r).filter (· != x)

/-- The recipients `tryDelivery` keeps for the next attempt (`newRcpts`): the entries classified
"retry" (`next to`), each address once, in the order of first occurrence. -/
def pending (next : List Str → List Str) (to : List Str) : List Str := dedup (next to)

/-- The bounce side of one attempt (a bounce pipeline is configured):
`failed to` = the entries of `to` that `tryDelivery` classifies "given up" in this attempt (what is
reported is `givenUp`: each address once - `failedRcpts`);
`reportable utf8 s` = `address.SelectIDNA utf8 s` succeeds (library oracle). -/
structure Dsn where
  failed : List Str → List Str
  reportable : Bool → Str → Bool

/-- `failedRcpts`: the addresses given up in this attempt, each once, in order of first occurrence -/
def givenUp (dsn : Dsn) (to : List Str) : List Str := dedup (dsn.failed to)

/-- `acc to` = some recipient of `to` was accepted (so the body was handed over);
`next to` = the entries of `to` classified "retry" (what is kept for the next attempt is
`pending next to`: each address once);
`dsn` = none: no bounce pipeline configured (`q.dsnPipeline == nil`). -/
inductive Step
  | attempt (acc : List Str → Bool) (next : List Str → List Str) (dsn : Option Dsn)
  | restart
  /-- an attempt in which the downstream target PANICS at `stage` (panic recovery active,
  `dontRecover = false`): the deferred handler of `dispatch` calls `discardBroken` -/
  | panicked (stage : Stage) (acc : List Str → Bool)

structure St where
  /-- in-memory slot of the scheduled delivery (`queueSlot.Meta/Hdr`); none = read the spool -/
  slot : Option (QMeta × Header)
  disk : Option Disk
  scheduled : Bool

def accept (vis : Vis) (co : Str → Str) (a : Accepted) : St × List Ev :=
  let doc := encodeMeta vis co a.qmeta
  (⟨some (a.qmeta, a.hdr), some ⟨writeHeader a.hdr, a.body, doc⟩, true⟩, [.wrote doc])

/-! ### storing over leftovers

`storeNewMessage` creates `<id>.header` and `<id>.body`, `updateMetadataOnDisk` creates
`<id>.meta.new`, all three with `os.Create(name)` = `OpenFile(name, O_RDWR|O_CREATE|O_TRUNC, 0666)`
(the calls are pinned by the regenerated `Generated.MetaEnc.writers`): a file of that name that is
in the spool directory already - dangling `<id>.header` / `<id>.body` of a server killed between
the header/body writes and the rename of `<id>.meta` (`readDiskQueue` leaves files without
`<id>.meta` alone), a leftover `<id>.meta.new`, a message id used a second time - is truncated
before anything is written. -/

/-- A file after "open + write `new` + close" when a file `old` of that name may exist already.
`trunc = true` is `os.Create` (what the code does): the file holds exactly what was written.
`trunc = false` is `OpenFile(O_WRONLY|O_CREATE)` without `O_TRUNC` (what the code does NOT do):
the tail of a longer old file survives. -/
def writeOver (trunc : Bool) (old : Option Bytes) (new : Bytes) : Bytes :=
  if trunc then new else new ++ (old.getD []).drop new.length

/-- `os.Create(name)`, write, close -/
def createFile (old : Option Bytes) (new : Bytes) : Bytes := writeOver true old new

/-- Files of the new message's own names lying in the spool directory when it is stored
(`none` = no such file). -/
structure Leftovers where
  hdr : Option Bytes
  body : Option Bytes
  metaNew : Option Bytes

def noLeftovers : Leftovers := ⟨none, none, none⟩

/-- `updateMetadataOnDisk` over a leftover `<id>.meta.new`: `os.Create` truncates it, the document is
encoded into it, it is renamed over `<id>.meta` - `<id>.meta` decodes to the document written. -/
def storeMeta (_leftoverNew : Option Bytes) (doc : QMeta) : QMeta := doc

/-- `queueDelivery.Body` -> `storeNewMessage` into a spool directory that holds `pre`. -/
def acceptOver (vis : Vis) (co : Str → Str) (pre : Leftovers) (a : Accepted) : St × List Ev :=
  let doc := encodeMeta vis co a.qmeta
  (⟨some (a.qmeta, a.hdr),
    some ⟨createFile pre.hdr (writeHeader a.hdr), createFile pre.body a.body, storeMeta pre.metaNew doc⟩, true⟩,
   [.wrote doc])

def seenOf (m : QMeta) (h : Header) (body : Bytes) (accepted : Bool) : Seen :=
  { sender := m.sender, to := m.to, utf8 := m.msgMeta.utf8, requireTLS := m.msgMeta.requireTLS,
    tlsRequireOverride := m.msgMeta.tlsRequireOverride, originalRcpts := m.msgMeta.originalRcpts,
    content := if accepted then some (h, body) else none }

/-- the address a failed recipient is reported under: `OriginalRcpts[rcpt]` unless absent/empty -/
def reportedAs (orc : List (Str × Str)) (r : Str) : Str :=
  match orc.lookup r with
  | some o => if o = 0 then r else o
  | none => r

/-- `if len(failedRcpts) != 0 { q.emitDSN(meta, header, failedRcpts) }`: an event, no state. -/
def emitDSN (m : QMeta) (h : Header) : Option Dsn → List Ev
  | none => []
  | some dsn =>
    let failed := givenUp dsn m.to
    if failed = [] then [] else
    if m.msgMeta.originalFrom = 0 then [] else
    -- `X-Maddy-Sender` is left out for a null sender; an empty `Final-Recipient` is an error
    let okS : Bool := m.sender = 0 || dsn.reportable m.msgMeta.utf8 m.sender
    let okR (s : Str) : Bool := s != 0 && dsn.reportable m.msgMeta.utf8 s
    if okS && (failed.map (reportedAs m.msgMeta.originalRcpts)).all okR then
      [.report ⟨m.sender, m.msgMeta.utf8, h⟩]
    else [.reportFailed]

/-- one attempt with metadata `m` and header `h` (from memory or from the spool) -/
def attempt (vis : Vis) (co : Str → Str) (d : Disk) (m : QMeta) (h : Header)
    (acc : List Str → Bool) (next : List Str → List Str) (dsn : Option Dsn) : St × List Ev :=
  let ev := Ev.seen (seenOf m h d.bodyFile (acc m.to)) m.msgMeta.conn.isSome
  if pending next m.to = [] then (⟨none, none, false⟩, ev :: emitDSN m h dsn ++ [.removed])
  else
    let doc := encodeMeta vis co { m with to := pending next m.to }
    (⟨none, some { d with metaFile := doc }, true⟩, ev :: emitDSN m h dsn ++ [.wrote doc])

/-- what the target was handed up to and including the call that panics -/
def seenUpTo (m : QMeta) (h : Header) (body : Bytes) (stage : Stage) (accepted : Bool) : Seen :=
  let s := seenOf m h body accepted
  match stage with
  | .start => { s with to := [], content := none }
  | .rcpt => { s with to := m.to.take 1, content := none }
  | .body => s
  | .fin => s

/-- an attempt that ends in a panic of the target: `tryDelivery` does not return, nothing is
re-scheduled, no metadata is written; `discardBroken(id)` RENAMES `<id>.meta` (the record the last
`updateMetadataOnDisk` wrote - never the in-memory metadata of the interrupted attempt) to
`<id>.meta_broken`.  Header and body files stay, but without `<id>.meta` no queue instance ever
looks at them again: the live spool entry is gone. -/
def panicAttempt (d : Disk) (m : QMeta) (h : Header) (stage : Stage) (acc : List Str → Bool) : St × List Ev :=
  (⟨none, none, false⟩,
    [.seenPanicked (seenUpTo m h d.bodyFile stage (acc m.to)) m.msgMeta.conn.isSome, .broke d.metaFile])

def step (vis : Vis) (co : Str → Str) (s : St) : Step → St × List Ev
  | .restart =>
    match s.disk with
    | none => (s, [])
    | some _ => ({ s with slot := none, scheduled := true }, [])
  | .attempt acc next dsn =>
    match s.disk with
    | none => (s, [])
    | some d =>
      if !s.scheduled then (s, []) else
      match s.slot with
      | some (m, h) => attempt vis co d m h acc next dsn
      | none =>
        match readHeader d.hdrFile with
        | .error _ => ({ s with scheduled := false }, [.readError])
        | .ok h => attempt vis co d d.metaFile h acc next dsn
  | .panicked stage acc =>
    match s.disk with
    | none => (s, [])
    | some d =>
      if !s.scheduled then (s, []) else
      match s.slot with
      | some (m, h) => panicAttempt d m h stage acc
      | none =>
        match readHeader d.hdrFile with
        | .error _ => ({ s with scheduled := false }, [.readError])
        | .ok h => panicAttempt d d.metaFile h stage acc

def runFrom (vis : Vis) (co : Str → Str) : St → List Step → St × List Ev
  | s, [] => (s, [])
  | s, st :: rest =>
    let (s1, e1) := step vis co s st
    let (s2, e2) := runFrom vis co s1 rest
    (s2, e1 ++ e2)

/-- life of one accepted message under a history of attempts and restarts -/
def run (vis : Vis) (co : Str → Str) (a : Accepted) (steps : List Step) : St × List Ev :=
  let (s0, e0) := accept vis co a
  let (s, e) := runFrom vis co s0 steps
  (s, e0 ++ e)

/-- the same in a spool directory that held `pre` when the message was stored -/
def runOver (vis : Vis) (co : Str → Str) (pre : Leftovers) (a : Accepted) (steps : List Step) : St × List Ev :=
  let (s0, e0) := acceptOver vis co pre a
  let (s, e) := runFrom vis co s0 steps
  (s, e0 ++ e)

def seens : List Ev → List Seen
  | [] => []
  | .seen s _ :: r => s :: seens r
  | _ :: r => seens r

def docs : List Ev → List QMeta
  | [] => []
  | .wrote d :: r => d :: docs r
  | .broke d :: r => d :: docs r
  | _ :: r => docs r

/-- what the target had been handed in the attempts it panicked in -/
def panSeens : List Ev → List Seen
  | [] => []
  | .seenPanicked s _ :: r => s :: panSeens r
  | _ :: r => panSeens r

def reports : List Ev → List Report
  | [] => []
  | .report r :: rest => r :: reports rest
  | _ :: rest => reports rest

def attemptsOf : List Step → List ((List Str → Bool) × (List Str → List Str))
  | [] => []
  | .attempt a n _ :: r => (a, n) :: attemptsOf r
  | .restart :: r => attemptsOf r
  | .panicked _ _ :: _ => []

/-- The property's right-hand side, with no spool in it: every attempt is handed the accepted
header, body, sender and options, and the recipients the previous attempt left pending (the
first attempt: the accepted list as it is; every later one: the addresses the previous attempt
classified "retry", each once, in order of first occurrence). -/
def spec (a : Accepted) : List Str → List ((List Str → Bool) × (List Str → List Str)) → List Seen
  | _, [] => []
  | to, (acc, next) :: rest =>
    { sender := a.qmeta.sender, to := to, utf8 := a.qmeta.msgMeta.utf8,
      requireTLS := a.qmeta.msgMeta.requireTLS,
      tlsRequireOverride := a.qmeta.msgMeta.tlsRequireOverride,
      originalRcpts := a.qmeta.msgMeta.originalRcpts,
      content := if acc to then some (a.hdr, a.body) else none } ::
    (if pending next to = [] then [] else spec a (pending next to) rest)

/-- The recipients still pending after a history: what the last attempt that took place left
(the attempts after the one that left nobody pending do not take place). -/
def pendingAfter : List Str → List ((List Str → Bool) × (List Str → List Str)) → List Str
  | to, [] => to
  | to, (_, next) :: rest => if pending next to = [] then [] else pendingAfter (pending next to) rest

/-- credential values a metadata document carries -/
def secretsOf (doc : QMeta) : List Str :=
  match doc.msgMeta.conn with
  | some c => [c.authUser, c.authPassword]
  | none => []

end MaddyVerif.WireSpool

/-!
## Several queue blocks, several messages (`C10 fleet`)

Mirrored Go code (`internal/target/queue/queue.go`):
* `NewQueue` / `Queue.Init`: the spool directory of a block is the `location` directive resp. the inline
  argument when there is one, `filepath.Join(config.StateDirectory, <instance name>)` otherwise (`dirOf`);
* `queueDelivery.Body` -> `storeNewMessage`: the files `<id>.header`, `<id>.body`, `<id>.meta` of the block's
  directory are written IN THAT ORDER, `<id>.meta` last and only when header and body are complete: a
  process that dies while the body is copied leaves no `<id>.meta` of that message (`Phase1.leftBehind` -
  the entries of the directory WITHOUT the one being stored);
* `queueDelivery.Commit` / `dispatch`: the first attempt is made from memory with the delivery's own
  header (`queueSlot.Hdr` points into an object nobody else touches), by the block that accepted the
  message, as soon as one of its `max_parallelism` slots is free (`blocked`); a next hop that takes the
  message makes `tryDelivery` remove the entry, a temporary failure keeps it;
* `readDiskQueue` (restart): every `<id>.meta` of the block's OWN directory with header and body present is
  scheduled and handed to the block's own target (`handedAfterRestart`).
Two blocks that end up with the same directory share the files; the model then hands every entry of the
directory to each of them (the real interleaving is not modelled - `C10_fleet_dirs_distinct` says when it
cannot happen, and that hypothesis is what the configuration loader guarantees: instance names are unique).
-/
namespace MaddyVerif.SpoolFleet

inductive Loc | dflt | directive | inline
  deriving DecidableEq, Repr

structure Block where
  name : List Nat
  loc : Loc
  par : Nat
  deriving Repr

inductive Dir
  | state (name : List Nat)
  | own (k : Nat)
  deriving DecidableEq, Repr

/-- `Queue.Init`: where block `k` keeps its files. -/
def dirOf (bs : List Block) (k : Nat) : Dir :=
  match bs[k]? with
  | some b => if b.loc = Loc.dflt then Dir.state b.name else Dir.own k
  | none => Dir.own k

inductive Fate | taken | deferred | hangs
  deriving DecidableEq, Repr

structure Msg where
  q : Nat
  tag : Nat
  fate : Fate
  crash : Bool
  deriving Repr

/-- a complete spool entry (`<id>.meta` + header + body): the block that stored it, the ID, the message -/
structure Entry where
  q : Nat
  tag : Nat
  idx : Nat
  fate : Fate
  deriving Repr, DecidableEq

structure Phase1 where
  spool : List Entry := []
  held : List (Nat × Nat) := []          -- block, number of deliveries hanging in the next hop's Start
  leftBehind : List (Nat × List Entry) := []   -- message being stored when the process died, what a restart finds
  deriving Repr

def heldOf (h : List (Nat × Nat)) (k : Nat) : Nat :=
  match h.find? (fun p => p.1 == k) with
  | some p => p.2
  | none => 0

def parOf (bs : List Block) (k : Nat) : Nat :=
  match bs[k]? with
  | some b => b.par
  | none => 1

/-- same file names in the same directory -/
def sameFiles (bs : List Block) (m : Msg) (e : Entry) : Bool :=
  decide (dirOf bs e.q = dirOf bs m.q) && e.tag == m.tag

/-- what a process that dies while message `m` is being stored leaves for the next start to load -/
def leftBy (bs : List Block) (spool : List Entry) (m : Msg) : List Entry :=
  spool.filter fun e => decide (dirOf bs e.q = dirOf bs m.q) && !(e.tag == m.tag)

def submit (bs : List Block) (st : Phase1) (im : Nat × Msg) : Phase1 :=
  let (i, m) := im
  let blocked := decide (parOf bs m.q ≤ heldOf st.held m.q)
  let left := if m.crash then st.leftBehind ++ [(i, leftBy bs st.spool m)] else st.leftBehind
  let others := st.spool.filter fun e => !(sameFiles bs m e)
  let spool := if m.fate = Fate.taken ∧ blocked = false then others
               else others ++ [{ q := m.q, tag := m.tag, idx := i, fate := m.fate }]
  let held := if m.fate = Fate.hangs ∧ blocked = false
              then (m.q, heldOf st.held m.q + 1) :: st.held.filter (fun p => !(p.1 == m.q)) else st.held
  { spool := spool, held := held, leftBehind := left }

def phase1 (bs : List Block) (ms : List Msg) : Phase1 :=
  ((List.range ms.length).zip ms).foldl (submit bs) {}

/-- at rest after the gates were opened: what the next hop deferred -/
def atRest (st : Phase1) : List Entry := st.spool.filter fun e => e.fate = Fate.deferred

/-- `readDiskQueue` of block `k`: the entries of ITS directory -/
def handedAfterRestart (bs : List Block) (spool : List Entry) (k : Nat) : List Entry :=
  spool.filter fun e => decide (dirOf bs e.q = dirOf bs k)

end MaddyVerif.SpoolFleet
