import MaddyVerif.Model.Queue
import MaddyVerif.Model.QueueHop
import MaddyVerif.Model.QueueRestart
/-!
Envelopes that list an address more than once, status maps with keys outside the envelope, and the
header of the queued message (`internal/target/queue/queue.go`: the `seenRcpts` guard of
`tryDelivery`, the abort-or-commit loop of `deliver` over `acceptedRcpts`, the head of `emitDSN`).
Core Lean only; C01 only.

* `queueDelivery.AddRcpt` appends whatever it is given: `meta.To` may list an address twice (a client
  repeating `RCPT TO`, two aliases with one expansion).  `deliver` walks the list as it is (the next
  hop hears the address once per entry, `acceptedRcpts` has one entry per successful `AddRcpt`,
  `partialError.Errs` is keyed by address).  `tryDelivery` classifies every ADDRESS once per attempt
  (`seenRcpts`, fix-2): `classify` over `dedup meta.To`; the pending list of every later attempt is
  therefore duplicate-free.
* `commitDecision` is the loop `allFailed := true; for rcpt in acceptedRcpts { if Errs[rcpt] == nil
  { allFailed = false } }`: a function of the accepted LIST and of the map restricted to it.
* `reportDecision` is the head of `emitDSN` + the call site: the header of the failed message is an
  argument and is not looked at.
-/
namespace MaddyVerif.Queue

/-- First occurrences, in order (`seenRcpts`). -/
def dedup : List Addr → List Addr
  | [] => []
  | r :: t => r :: (dedup t).filter (fun x => x != r)

/-- `Queue.tryDelivery` on an envelope that may list an address twice. -/
def tryDeliveryD (maxTries : Nat) (k : Kind) (dsn : Bool) (p : Plan) (m : Meta) :
    Option Meta × List Ev :=
  let (e, evs) := deliver k p m.to
  let a := classify maxTries e (dedup m.to) ⟨m.tries, [], []⟩
  let evR := if a.failedR.isEmpty || !dsn then [] else [Ev.report a.failedR]
  if a.newR.isEmpty then (none, evs ++ evR ++ [.removed])
  else (some ⟨a.newR, a.tries⟩, evs ++ evR ++ [.requeue a.newR])

/-- The abort-or-commit decision of `deliver`: `true` = `delivery.Commit` is called. -/
def commitDecision (accepted : List Addr) (errs : Errs) : Bool :=
  !accepted.all (fun r => (errs r).isSome)

/-- A header field of the queued message. -/
abbrev Header := List (String × String)

end MaddyVerif.Queue

namespace MaddyVerif.QueueRestart
open MaddyVerif.Queue

/-- `len(failedRcpts) != 0` at the call site, then the head of `emitDSN(meta, header, failedRcpts)`:
null return path / no bounce pipeline (`dsn`), and whether the report can be generated.  The header
is handed over (it is quoted in the report) and plays no part in the decision. -/
def reportDecision (_hdr : Header) (dsn : Bool) (env : Env) (failed : List Addr) : Bool :=
  !failed.isEmpty && dsn && genOk env failed

/-- One attempt on an envelope that may list an address twice, for a message with header `hdr`. -/
def tryDeliveryND (maxTries : Nat) (k : Kind) (dsn : Bool) (env : Env) (hdr : Header) (p : Plan)
    (m : MetaN) : Option MetaN × List Ev × Bool :=
  let (e, evs) := deliver k p m.to
  if m.errsNil && m.to.any (fun r => (e r).isSome) then (none, evs, true)
  else
    let a := classify maxTries e (dedup m.to) ⟨m.tries, [], []⟩
    let evR := if reportDecision hdr dsn env a.failedR then [Ev.report a.failedR] else []
    if a.newR.isEmpty then (none, evs ++ evR ++ [.removed], false)
    else (some ⟨a.newR, a.tries, false, m.errsNil⟩, evs ++ evR ++ [.requeue a.newR], false)

/-- `runR` for such envelopes and headers. -/
def runRD (maxTries : Nat) (k : Kind) (dsn : Bool) (env : Env) (hdr : Header) (plans : Nat → Plan)
    (restarts : Nat → Nat) : Nat → Nat → MetaN → List Ev × Bool
  | 0, _, _ => ([], false)
  | fuel + 1, i, m =>
    match tryDeliveryND maxTries k dsn env hdr (plans i) (metaFor restarts i m) with
    | (_, evs, true) => (evs, true)
    | (none, evs, false) => (evs, false)
    | (some m', evs, false) =>
      let rest := runRD maxTries k dsn env hdr plans restarts fuel (i + 1) m'
      (evs ++ rest.1, rest.2)

end MaddyVerif.QueueRestart

namespace MaddyVerif.QueueHop
open MaddyVerif.Queue

/-- `runHop` for envelopes that may list an address twice: the next hop hears the address once per
entry, the queue classifies it once. -/
def runHopD (maxTries : Nat) (tk : TKind) (dsn : Bool) (scripts : Nat → Script) (lr : Addr → Bool)
    (dom : Addr → Nat) (nd : Nat) : Nat → Nat → Meta → List Ev × List Addr
  | 0, _, _ => ([], [])
  | fuel + 1, i, m =>
    let ak := attemptAcked tk (scripts i) lr dom nd m.to
    match tryDeliveryD maxTries tk.kind dsn (hopPlan tk (scripts i) lr dom m.to) m with
    | (none, evs) => (evs, ak)
    | (some m', evs) =>
      let rest := runHopD maxTries tk dsn scripts lr dom nd fuel (i + 1) m'
      (evs ++ rest.1, ak ++ rest.2)

end MaddyVerif.QueueHop
