import MaddyVerif.Model.Errors
import MaddyVerif.Model.ErrorsNextHop
/-
Model of two kinds of failures maddy produces entirely by itself (strengthening round 7):

* `internal/limits/limits.go: (*Group).TakeMsg / TakeDest` (the error of the limiter is returned as it
  is, whatever the scope), `internal/limits/limiters`: what a wait for a slot ends with
  (`ctx.Err()`, `ErrBucketSetFull` — marked temporary), `internal/target/remote/remote.go:
  (*Target).Start` (annotates any error of `TakeMsg` as 451 4.4.5), `connect.go:
  connectionForDomain` / `remote.go: AddRcpt` (the error of `TakeDest` is passed on as it is),
  `internal/endpoint/smtp/session.go: Session.Mail / Rcpt` (the error of `TakeMsg` goes to `wrapErr`
  as it is);
* `internal/auth/sasl.go: (*SASLAuth).AuthPlain, CreateSASL` (PLAIN and LOGIN) and the reply go-smtp's
  `handleAuth` writes for what the SASL server ends with.

Core Lean only (linked into the driver).
-/
namespace MaddyVerif.Errors

/-! ### limits -/

/-- How the wait for a slot of a limit ended without the slot. -/
inductive LimEnd
  | timeout      -- the deadline passed (the module's own 5 s, or an earlier one of the caller)
  | cancelled    -- the caller's context was cancelled
  | tableFull    -- keyed scope: the key has no bucket, the table is full and nothing can be reaped
deriving DecidableEq, Repr, Inhabited

/-- What the limiter returns, and `TakeMsg` / `TakeDest` pass on unchanged for every scope:
`context.DeadlineExceeded`, `context.Canceled` (no `Temporary()`), `ErrBucketSetFull`
(= `exterrors.WithTemporary(errors.New(…), true)`). -/
def limErr : LimEnd → Err
  | .timeout => .deadline
  | .cancelled => .plain
  | .tableFull => .withTemp true .plain

/-- `"High load, try again later"` -/
def highLoadMsg : List Nat :=
  [72, 105, 103, 104, 32, 108, 111, 97, 100, 44, 32, 116, 114, 121, 32, 97, 103, 97, 105, 110, 32, 108, 97, 116, 101, 114]

/-- The way the failure reaches a reply conversion. -/
inductive LimVia
  | raw      -- `Session.Mail` / `Rcpt` of the endpoint (TakeMsg), `AddRcpt` of remote (TakeDest)
  | start    -- `remote.Target.Start`: any error of TakeMsg becomes 451 4.4.5 around it
deriving DecidableEq, Repr, Inhabited

def limFailure : LimVia → LimEnd → Err
  | .raw, e => limErr e
  | .start, e => .smtpWrap 451 ⟨4, 4, 5⟩ highLoadMsg (limErr e)

/-- The situations a sender is to retry later in (as opposed to a call given up by its caller). -/
def LimEnd.retryLater : LimEnd → Bool
  | .cancelled => false
  | _ => true

/-! ### SASL authentication on the SMTP endpoint -/

/-- What happens to the user name before a provider is asked (`usernameForAuth`). -/
inductive AuthPre
  | none                -- no auth_map; normalisation succeeds
  | mapHit
  | mapMiss             -- ErrInvalidAuthCred
  | mapErr (e : Err)    -- the table lookup fails with e
  | normErr (e : Err)   -- the normalisation function fails with e
deriving Repr, Inhabited

/-- The loop over the providers (`none` = the provider accepts, `some e` = it fails with `e`);
result `none` = authenticated.  The failure is `fmt.Errorf("… %w", lastErr)`. -/
def provLoop : Option Err → List (Option Err) → Option Err
  | last, [] => some (transparent (last.getD .plain))
  | _, none :: _ => none
  | _, some e :: rest => provLoop (some e) rest

/-- `(*SASLAuth).AuthPlain`. -/
def saslAuthPlain (pre : AuthPre) (provs : List (Option Err)) : Option Err :=
  match provs with
  | [] => some .plain                                  -- ErrUnsupportedMech
  | _ =>
    match pre with
    | .mapErr e => some e
    | .normErr e => some e
    | .mapMiss => some .plain                          -- ErrInvalidAuthCred
    | _ => provLoop none provs

inductive Mech
  | plain (idMismatch : Bool)    -- an authorization identity different from the user name
  | login
  | loginDisabled                -- LOGIN while sasl_login is off
  | other                        -- any mechanism CreateSASL does not know
deriving DecidableEq, Repr, Inhabited

/-- What the `sasl.Server` built by `CreateSASL` ends the exchange with: every failure of
`AuthPlain` is replaced by the sentinel `ErrInvalidAuthCred`. -/
inductive SaslEnd
  | ok
  | invalidCred
  | unsupportedMech
deriving DecidableEq, Repr, Inhabited

def createSASL (m : Mech) (pre : AuthPre) (provs : List (Option Err)) : SaslEnd :=
  match m with
  | .loginDisabled => .unsupportedMech
  | .other => .unsupportedMech
  | .plain true => .invalidCred
  | _ =>
    match saslAuthPlain pre provs with
    | none => .ok
    | some _ => .invalidCred

/-- The constant texts a reply to AUTH can carry. -/
inductive AuthText
  | succeeded
  | invalidCred        -- ErrInvalidAuthCred.Error()
  | unsupportedMech    -- ErrUnsupportedMech.Error()
deriving DecidableEq, Repr, Inhabited

structure AuthReply where
  code : Nat
  ench : Ench
  text : AuthText
deriving DecidableEq, Repr, Inhabited

/-- go-smtp `handleAuth`: 235 2.0.0, or `writeError(454, 4.7.0, err)` — the sentinels are not
`*smtp.SMTPError`, so their `Error()` text follows 454 4.7.0. -/
def authReply : SaslEnd → AuthReply
  | .ok => ⟨235, ⟨2, 0, 0⟩, .succeeded⟩
  | .invalidCred => ⟨454, ⟨4, 7, 0⟩, .invalidCred⟩
  | .unsupportedMech => ⟨454, ⟨4, 7, 0⟩, .unsupportedMech⟩

/-- What of a script can be seen WITHOUT looking at any error value. -/
def AuthPre.tag : AuthPre → Nat
  | .none => 0
  | .mapHit => 1
  | .mapMiss => 2
  | .mapErr _ => 3
  | .normErr _ => 4

/-! ### sessions of several transactions (round 10)

`Session.Mail` / `Session.Rcpt` / `Session.Reset` behind go-smtp (`Conn.fromReceived`: RCPT without an
accepted MAIL is answered 502 by go-smtp itself; MAIL is NOT refused inside a transaction by go-smtp,
`Session.Mail` answers 503 when a delivery is open).  With `defer_sender_reject` the delivery is
started by the first RCPT; its failure is kept in `Session.deliveryErr` — already converted for the
SMTPUTF8 flag of the MAIL it belongs to — and repeated for further RCPTs.  Mirrors the code after
`fix: failure of a deferred MAIL was answered to RCPT of later transactions of the session`: the kept
failure is dropped by RSET and by the next MAIL. -/

inductive SessCmd
  | mail (utf8 : Bool) (out : Option Err)   -- `out`: what `startDelivery` for this sender ends with
  | rcpt
  | rset
deriving Repr, Inhabited

structure Sess where
  fromReceived : Bool          -- go-smtp `Conn.fromReceived`
  utf8 : Bool                  -- `s.opts.UTF8`
  plan : Option Err            -- the outcome `startDelivery(s.mailFrom)` will have
  isOpen : Bool                -- `s.delivery != nil`
  deliveryErr : Option Reply   -- `s.deliveryErr`
deriving Repr, Inhabited

def Sess.init : Sess := ⟨false, false, none, false, none⟩

inductive SessReply
  | ok
  | noMail            -- go-smtp: 502 5.5.1 Missing MAIL FROM command.
  | nested            -- Session.Mail: 503 5.5.1 Nested MAIL command
  | err (r : Reply)
deriving Repr, Inhabited

def sessStep (deferred : Bool) (s : Sess) : SessCmd → Sess × SessReply
  | .mail u o =>
    if s.isOpen then (s, .nested)
    else if deferred then
      ({ s with fromReceived := true, utf8 := u, plan := o, deliveryErr := none }, .ok)
    else match o with
      | some e => (s, .err (wrapErr (!u) e))
      | none => ({ s with fromReceived := true, utf8 := u, plan := none, isOpen := true }, .ok)
  | .rcpt =>
    if !s.fromReceived then (s, .noMail)
    else if s.isOpen then (s, .ok)
    else match s.deliveryErr with
      | some r => (s, .err r)
      | none =>
        match s.plan with
        | some e => ({ s with deliveryErr := some (wrapErr (!s.utf8) e) }, .err (wrapErr (!s.utf8) e))
        | none => ({ s with isOpen := true }, .ok)
  | .rset => (⟨false, false, none, false, none⟩, .ok)

def sessRun (deferred : Bool) : Sess → List SessCmd → List SessReply
  | _, [] => []
  | s, c :: r => (sessStep deferred s c).2 :: sessRun deferred (sessStep deferred s c).1 r

/-- the state after a list of commands -/
def sessAfter (deferred : Bool) : Sess → List SessCmd → Sess
  | s, [] => s
  | s, c :: r => sessAfter deferred (sessStep deferred s c).1 r

end MaddyVerif.Errors
