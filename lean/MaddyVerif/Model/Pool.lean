/-!
# Model of `internal/smtpconn/pool/pool.go` (C19)

Small-step interleaving model of the connection pool: the functions `Get`, `Return`, `CleanUp`,
`Close` of `pool.P`, run by any number of worker goroutines, plus the goroutines the pool spawns
itself (`go conn.Close()`), the clock and the environment (a server dropping an idle connection).

Granularity: one step = the code between two *synchronisation points* of one goroutine.  The points are
(and the check's rewriter inserts a scheduler yield at exactly these places of the real `pool.go`):

* every acquisition of `keysLock` (a failed acquisition is a blocked step, the state does not change);
* every channel operation: `close(ch)`, each receive of a `for conn := range ch` loop, each `select`
  (non-blocking receive in `Get`, non-blocking send in `Return`), the send on `cleanupStop`;
* the top of every `for k, v := range p.keys` iteration (so that the order in which Go visits the map,
  which is random, is an explicit choice `pick` of the schedule);
* the callbacks of a connection: `Usable()` and `Close()` (they are network round trips in maddy).

Releases of the lock and accesses to the map carry no point of their own: the map is only ever read or
written by the lock holder, so these statements commute with every step of every other goroutine and are
merged into the preceding step.  For the same reason the `delete(p.keys, k)` of `CleanUp` and `Close`
(which the Go code performs after the drain loop) is performed by the model together with `close(v.c)`;
the difference cannot be observed by anyone (the lock is held throughout).

Connections are tokens (`Nat`).  Where a connection *is* (idle in a bucket, carried by a goroutine, held
by a worker, closed, dropped) is not stored: it is derived from the channel buffers, the program counters,
the workers' holdings and the `closed` / `leaked` lists, so that "exactly one place" is a theorem.

Go panics are explicit: `close` of a closed channel, send on a closed channel, use of a channel that does
not exist move the goroutine to `Pc.panicked`.

The tree that is mirrored includes the repair "fix: pool.Get emptied an expired bucket after releasing the lock":
`Get` drains an expired bucket before it unlocks and closes the connections with `go conn.Close()`, exactly as
`CleanUp` does.  (Before the repair the drain ran after the unlock, and a second `Get` holding the same bucket
could receive a connection from it after `pool.Close()` had returned — replayed on the real code by the check.)

What is mirrored as it is in the code:
* `slot.lastUse` is written when the bucket is created and never again (`bucket.lastUse = …` in `Return`
  assigns to a copy of the map value), so it is the field `born` of the channel;
* `Return` on a pool that was shut down (`p.keys == nil`) drops the connection without closing it
  (`leaked`);
* `Return` creates a bucket even when the map already holds `MaxKeys` buckets and none is stale;
* `Close` blocks on `cleanupStop` when the ticker goroutine has already gone (second shutdown).
-/
namespace MaddyVerif.Pool

/-- identifiers are plain numbers (notations, so that arithmetic tactics see `Nat`) -/
notation "ConnId" => Nat
notation "Key" => Nat
notation "ChanId" => Nat

structure Cfg where
  maxKeys : Nat
  maxConns : Nat
  maxLife : Nat
  staleLife : Nat
  deriving Repr, DecidableEq

/-- `slot`: the buffered channel of one key plus its creation stamp. -/
structure Chan where
  key : Key
  cap : Nat
  born : Nat
  buf : List ConnId
  closed : Bool
  deriving Repr, DecidableEq

/-- What a worker (a delivery) does with the pool, one after the other. -/
inductive Op
  | get (k : Key)   -- pool.Get(key); keeps the result
  | ret             -- pool.Return(key, c) for the oldest connection it holds
  | use             -- uses the oldest connection it holds (stamps lastUseAt)
  | drop            -- closes the oldest connection it holds itself (remote.go does so when !Usable())
  | cleanup         -- pool.CleanUp called directly
  | shutdown        -- pool.Close
  | sweep           -- the pool's ticker goroutine (`cleanUpTick`): its ticker fires and it calls `CleanUp`
  deriving Repr, DecidableEq

inductive Pc
  | idle | done
  | panicked (cs : List ConnId)   -- the goroutine died in a Go panic; `cs`: connections it carried
  | wClose (c : ConnId)
  -- Get
  | gLock (k : Key)
  | gDropClose (k : Key) (h : ChanId)
  | gDrain (k : Key) (h : ChanId)
  | gSel (k : Key) (h : ChanId)
  | gUsable (k : Key) (h : ChanId) (c : ConnId)
  -- Return
  | rLock (k : Key) (c : ConnId)
  | rIter (k : Key) (c : ConnId) (h : ChanId) (td : List ChanId)
  | rClose (k : Key) (c : ConnId) (h : ChanId) (td : List ChanId)
  | rDrain (k : Key) (c : ConnId) (h : ChanId) (td : List ChanId)
  | rDrainClose (k : Key) (c : ConnId) (h : ChanId) (td : List ChanId) (c' : ConnId)
  | rSel (k : Key) (c : ConnId) (h : ChanId)
  -- CleanUp
  | cLock
  | cIter (h : ChanId) (td : List ChanId)
  | cClose (h : ChanId) (td : List ChanId)
  | cDrain (h : ChanId) (td : List ChanId)
  -- Close
  | sStop | sLock
  | sIter (h : ChanId) (td : List ChanId)
  | sClose (h : ChanId) (td : List ChanId)
  | sDrain (h : ChanId) (td : List ChanId)
  | sDrainClose (h : ChanId) (td : List ChanId) (c : ConnId)
  -- `go conn.Close()`
  | kClose (c : ConnId)
  deriving Repr, DecidableEq

/-- Program counters inside a critical section of `keysLock`. -/
def Pc.locked : Pc → Bool
  | .gDropClose .. | .gDrain .. => true
  | .rIter .. | .rClose .. | .rDrain .. | .rDrainClose .. | .rSel .. => true
  | .cIter .. | .cClose .. | .cDrain .. => true
  | .sIter .. | .sClose .. | .sDrain .. | .sDrainClose .. => true
  | _ => false

/-- Connections a goroutine carries in local variables at this point. -/
def Pc.conns : Pc → List ConnId
  | .panicked cs => cs
  | .wClose c => [c]
  | .gUsable _ _ c => [c]
  | .rLock _ c | .rIter _ c _ _ | .rClose _ c _ _ | .rDrain _ c _ _ | .rSel _ c _ => [c]
  | .rDrainClose _ c _ _ c' => [c, c']
  | .sDrainClose _ _ c => [c]
  | .kClose c => [c]
  | _ => []

structure Task where
  pc : Pc
  prog : List Op
  held : List (ConnId × Key)
  deriving Repr, DecidableEq

/-- One pooled hand-out: the connection, its `LastUseAt`, the time of the check, and whether it was broken. -/
structure Hand where
  conn : ConnId
  lastUse : Nat
  now : Nat
  broken : Bool
  /-- the key `Get` was called with -/
  key : Key
  /-- the key of the last `Return` of this connection (`none`: never returned) and the time of that call -/
  retKey : Option Key
  retAt : Nat
  deriving Repr, DecidableEq

structure St where
  cfg : Cfg
  now : Nat
  fresh : Nat
  lastUse : ConnId → Nat
  broken : ConnId → Bool
  /-- history variables, written by nobody but the `ret` op (the call of `Return`): the key and the time of the
  last `Return(key, c)` of every connection.  No transition of the pool reads them. -/
  retKey : ConnId → Option Key
  retAt : ConnId → Nat
  chans : List Chan
  keys : List ChanId
  keysNil : Bool
  lock : Option Nat
  ticker : Bool
  tasks : List Task
  closed : List ConnId
  leaked : List ConnId
  /-- every receive of `Get`'s select that produced a connection: the connection and whether the pool
  had already been shut down (`p.keys == nil`) at that moment (most recent first) -/
  recvLog : List (ConnId × Bool)
  /-- every pooled connection `Get` returned (most recent first) -/
  handLog : List Hand
  /-- `cancelled i`: the `context.Context` goroutine `i` passes to `Get` is done (cancelled, or its deadline has
  passed).  One context per worker — a delivery has one for its whole life — and it never becomes live again.
  Written by nobody but the scheduler's `cancel` decision; `pool.go` itself never looks at the context, it only
  passes it on to `cfg.New`. -/
  cancelled : Nat → Bool
  /-- the pool's own ticker goroutine (`cleanUpTick`): `some i` = its ticker has fired and it is inside `CleanUp`
  (goroutine `i` of the model runs that call) or on its way back to the `select`; `none` = it is parked in its
  `select`, the only place where it can take the stop signal `Close` sends on the unbuffered `cleanupStop`. -/
  tkTask : Option Nat := none

inductive Who
  | task (i : Nat) (pick : Nat)
  | tick (d : Nat)
  | brk (c : ConnId)
  | cancel (i : Nat)   -- the context of goroutine `i` is cancelled / times out, at whatever point `i` is parked
  deriving Repr, DecidableEq

def init (cfg : Cfg) (progs : List (List Op)) : St :=
  { cfg := cfg, now := 0, fresh := 0, lastUse := fun _ => 0, broken := fun _ => false,
    retKey := fun _ => none, retAt := fun _ => 0,
    chans := [], keys := [], keysNil := false, lock := none, ticker := true,
    tasks := progs.map (fun p => { pc := .idle, prog := p, held := [] }),
    closed := [], leaked := [], recvLog := [], handLog := [], cancelled := fun _ => false }

/-- `p.keys[key]` -/
def lookup (s : St) (k : Key) : Option ChanId :=
  s.keys.find? (fun h => match s.chans[h]? with
    | some ch => ch.key == k
    | none => false)

def setTask (s : St) (i : Nat) (t : Task) : St := { s with tasks := s.tasks.set i t }

def spawnCloser (s : St) (c : ConnId) : St :=
  { s with tasks := s.tasks ++ [{ pc := .kClose c, prog := [], held := [] }] }

/-- next element of a `range p.keys` loop: any of the remaining ones -/
def pickOf (td : List ChanId) (p : Nat) : Option (ChanId × List ChanId) :=
  match td with
  | [] => none
  | h0 :: _ =>
    let h := if p ∈ td then p else h0
    some (h, td.erase h)

/-- `p.cfg.New` with a live context: the caller gets a connection nobody has seen yet. -/
def miss (s : St) (i : Nat) (t : Task) (k : Key) : St :=
  let c := s.fresh
  { setTask s i { t with pc := .idle, held := t.held ++ [(c, k)] } with
    fresh := s.fresh + 1,
    lastUse := fun x => if x = c then s.now else s.lastUse x }

/-- `make(chan Conn, MaxConnsPerKey)`, `p.keys[key] = bucket` and on to the select. -/
def mkBucket (s : St) (i : Nat) (t : Task) (k : Key) (c : ConnId) : St :=
  let h := s.chans.length
  { setTask s i { t with pc := .rSel k c h } with
    chans := s.chans ++ [{ key := k, cap := s.cfg.maxConns, born := s.now, buf := [], closed := false }],
    keys := s.keys ++ [h],
    lock := some i }

def stale (s : St) (ch : Chan) : Bool := ch.born + s.cfg.staleLife ≤ s.now

/-- `close(ch)`: `none` = panic (closed already, or no such channel). -/
def closeChan (s : St) (h : ChanId) : Option St :=
  match s.chans[h]? with
  | some ch => if ch.closed then none else some { s with chans := s.chans.set h { ch with closed := true } }
  | none => none

inductive Recv
  | conn (c : ConnId) (s : St)   -- got a connection
  | closedEmpty                  -- `ok == false`
  | wouldBlock                   -- open and empty
  | noChan

def recv (s : St) (h : ChanId) : Recv :=
  match s.chans[h]? with
  | none => .noChan
  | some ch =>
    match ch.buf with
    | c :: rest => .conn c { s with chans := s.chans.set h { ch with buf := rest } }
    | [] => if ch.closed then .closedEmpty else .wouldBlock

def panic (s : St) (i : Nat) (t : Task) : St := setTask s i { t with pc := .panicked t.pc.conns }

/-- One step of goroutine `i` (`none`: no such goroutine, finished, panicked, or blocked). -/
def stepTask (s : St) (i : Nat) (t : Task) (p : Nat) : Option St :=
  match t.pc with
  | .done => none
  | .panicked _ => none
  | .idle =>
    -- the ticker goroutine is back from `CleanUp`: it returns to the `select` of `cleanUpTick`
    if s.tkTask = some i then some { setTask s i t with tkTask := none } else
    match t.prog with
    | [] => some (setTask s i { t with pc := .done })
    | op :: rest =>
      let t := { t with prog := rest }
      match op with
      | .get k => some (setTask s i { t with pc := .gLock k })
      | .ret =>
        match t.held with
        | [] => some (setTask s i t)
        | (c, k) :: hs =>
          some { setTask s i { t with pc := .rLock k c, held := hs } with
                 retKey := fun x => if x = c then some k else s.retKey x,
                 retAt := fun x => if x = c then s.now else s.retAt x }
      | .use =>
        match t.held with
        | [] => some (setTask s i t)
        | (c, _) :: _ => some { setTask s i t with lastUse := fun x => if x = c then s.now else s.lastUse x }
      | .drop =>
        match t.held with
        | [] => some (setTask s i t)
        | (c, _) :: hs => some (setTask s i { t with pc := .wClose c, held := hs })
      | .cleanup => some (setTask s i { t with pc := .cLock })
      | .shutdown => some (setTask s i { t with pc := .sStop })
      /- the ticker of `cleanUpTick` fires: the ticker goroutine leaves its `select` and calls `CleanUp`.  A tick is
      lost when the goroutine is not in the `select` (still busy with the previous sweep) or has been stopped. -/
      | .sweep =>
        if s.ticker && s.tkTask.isNone then some { setTask s i { t with pc := .cLock } with tkTask := some i }
        else some (setTask s i t)
  | .wClose c => some { setTask s i { t with pc := .idle } with closed := c :: s.closed }
  | .kClose c => some { setTask s i { t with pc := .done } with closed := c :: s.closed }
  /- ---------------- Get ----------------
  `p.cfg.New(ctx, key)` with a live context is `miss`: the caller gets a connection nobody has seen yet.  With a
  context that is done (`s.cancelled i`) the dial fails and `Get` returns `(nil, ctx.Err())` — the cancellation
  outcome of `Get`: no connection is created, the caller gets nothing (`setTask s i { t with pc := .idle }`).
  Nothing else in `Get` looks at the context: a connection taken out of a bucket is handed out or closed. -/
  | .gLock k =>
    if s.lock.isSome then none else
    match lookup s k with
    | none => if s.cancelled i then some (setTask s i { t with pc := .idle }) else some (miss s i t k)
    | some h =>
      match s.chans[h]? with
      | none => some (panic s i t)
      | some ch =>
        if s.now - ch.born > s.cfg.maxLife then
          some { setTask s i { t with pc := .gDropClose k h } with keys := s.keys.erase h, lock := some i }
        else
          some (setTask s i { t with pc := .gSel k h })
  | .gDropClose k h =>
    match closeChan s h with
    | none => some (panic s i t)
    | some s1 => some (setTask s1 i { t with pc := .gDrain k h })
  | .gDrain k h =>
    match recv s h with
    | .conn c s1 => some (spawnCloser s1 c)
    | .closedEmpty =>
      if s.cancelled i then some { setTask s i { t with pc := .idle } with lock := none } else some { miss s i t k with lock := none }
    | .wouldBlock => none
    | .noChan => some (panic s i t)
  | .gSel k h =>
    match recv s h with
    | .conn c s1 => some { setTask s1 i { t with pc := .gUsable k h c } with recvLog := (c, s.keysNil) :: s.recvLog }
    | .closedEmpty => if s.cancelled i then some (setTask s i { t with pc := .idle }) else some (miss s i t k)
    | .wouldBlock => if s.cancelled i then some (setTask s i { t with pc := .idle }) else some (miss s i t k)
    | .noChan => some (panic s i t)
  | .gUsable k h c =>
    if s.broken c then some (spawnCloser (setTask s i { t with pc := .gSel k h }) c)
    else if s.lastUse c + s.cfg.maxLife < s.now then some (spawnCloser (setTask s i { t with pc := .gSel k h }) c)
    else some { setTask s i { t with pc := .idle, held := t.held ++ [(c, k)] } with
                handLog := { conn := c, lastUse := s.lastUse c, now := s.now, broken := s.broken c,
                             key := k, retKey := s.retKey c, retAt := s.retAt c } :: s.handLog }
  /- ---------------- Return ---------------- -/
  | .rLock k c =>
    if s.lock.isSome then none else
    if s.keysNil then some { setTask s i { t with pc := .idle } with leaked := c :: s.leaked } else
    match lookup s k with
    | some h => some { setTask s i { t with pc := .rSel k c h } with lock := some i }
    | none =>
      if s.keys.length = s.cfg.maxKeys then
        match pickOf s.keys p with
        | some (h, td) => some { setTask s i { t with pc := .rIter k c h td } with lock := some i }
        | none => some (mkBucket s i t k c)
      else some (mkBucket s i t k c)
  | .rIter k c h td =>
    match s.chans[h]? with
    | none => some (panic s i t)
    | some ch =>
      if stale s ch then
        some { setTask s i { t with pc := .rClose k c h td } with keys := s.keys.erase h }
      else
        match pickOf td p with
        | some (h', td') => some (setTask s i { t with pc := .rIter k c h' td' })
        | none => some (mkBucket s i t k c)
  | .rClose k c h td =>
    match closeChan s h with
    | none => some (panic s i t)
    | some s1 => some (setTask s1 i { t with pc := .rDrain k c h td })
  | .rDrain k c h td =>
    match recv s h with
    | .conn c' s1 => some (setTask s1 i { t with pc := .rDrainClose k c h td c' })
    | .closedEmpty =>
      match pickOf td p with
      | some (h', td') => some (setTask s i { t with pc := .rIter k c h' td' })
      | none => some (mkBucket s i t k c)
    | .wouldBlock => none
    | .noChan => some (panic s i t)
  | .rDrainClose k c h td c' =>
    some { setTask s i { t with pc := .rDrain k c h td } with closed := c' :: s.closed }
  | .rSel _ c h =>
    match s.chans[h]? with
    | none => some (panic s i t)
    | some ch =>
      if ch.closed then some (panic s i t)
      else if ch.buf.length < ch.cap then
        some { setTask s i { t with pc := .idle } with
               chans := s.chans.set h { ch with buf := ch.buf ++ [c] }, lock := none }
      else
        some { spawnCloser (setTask s i { t with pc := .idle }) c with lock := none }
  /- ---------------- CleanUp ---------------- -/
  | .cLock =>
    if s.lock.isSome then none else
    match pickOf s.keys p with
    | some (h, td) => some { setTask s i { t with pc := .cIter h td } with lock := some i }
    | none => some (setTask s i { t with pc := .idle })
  | .cIter h td =>
    match s.chans[h]? with
    | none => some (panic s i t)
    | some ch =>
      if stale s ch then some (setTask s i { t with pc := .cClose h td })
      else
        match pickOf td p with
        | some (h', td') => some (setTask s i { t with pc := .cIter h' td' })
        | none => some { setTask s i { t with pc := .idle } with lock := none }
  | .cClose h td =>
    match closeChan s h with
    | none => some (panic s i t)
    | some s1 => some { setTask s1 i { t with pc := .cDrain h td } with keys := s.keys.erase h }
  | .cDrain h td =>
    match recv s h with
    | .conn c s1 => some (spawnCloser s1 c)
    | .closedEmpty =>
      match pickOf td p with
      | some (h', td') => some (setTask s i { t with pc := .cIter h' td' })
      | none => some { setTask s i { t with pc := .idle } with lock := none }
    | .wouldBlock => none
    | .noChan => some (panic s i t)
  /- ---------------- Close ---------------- -/
  /- `p.cleanupStop <- struct{}{}`: the channel is unbuffered, the send completes only when the ticker goroutine is
  parked in the `select` of `cleanUpTick` (alive, and not inside `CleanUp`).  It is the FIRST thing `Close` does —
  before it takes `keysLock` (`sLock`): a ticker goroutine that waits for the lock inside `CleanUp` is never waited
  for by somebody who holds that lock (`C19_no_deadlock_single_shutdown`, `C19_stop_under_lock_blocks`). -/
  | .sStop =>
    if s.ticker && s.tkTask.isNone then some { setTask s i { t with pc := .sLock } with ticker := false } else none
  | .sLock =>
    if s.lock.isSome then none else
    match pickOf s.keys p with
    | some (h, td) => some { setTask s i { t with pc := .sIter h td } with lock := some i }
    | none => some { setTask s i { t with pc := .idle } with keys := [], keysNil := true }
  | .sIter h td => some (setTask s i { t with pc := .sClose h td })
  | .sClose h td =>
    match closeChan s h with
    | none => some (panic s i t)
    | some s1 => some { setTask s1 i { t with pc := .sDrain h td } with keys := s.keys.erase h }
  | .sDrain h td =>
    match recv s h with
    | .conn c s1 => some (setTask s1 i { t with pc := .sDrainClose h td c })
    | .closedEmpty =>
      match pickOf td p with
      | some (h', td') => some (setTask s i { t with pc := .sIter h' td' })
      | none => some { setTask s i { t with pc := .idle } with keys := [], keysNil := true, lock := none }
    | .wouldBlock => none
    | .noChan => some (panic s i t)
  | .sDrainClose h td c =>
    some { setTask s i { t with pc := .sDrain h td } with closed := c :: s.closed }

def step (s : St) : Who → Option St
  | .task i p =>
    match s.tasks[i]? with
    | none => none
    | some t => stepTask s i t p
  | .tick d => some { s with now := s.now + d }
  | .brk c => if c < s.fresh then some { s with broken := fun x => if x = c then true else s.broken x } else none
  | .cancel i => some { s with cancelled := fun x => if x = i then true else s.cancelled x }

/-- A blocked or impossible step leaves the state as it is (the goroutine stays parked). -/
def next (s : St) (w : Who) : St := (step s w).getD s

def run (s : St) : List Who → St
  | [] => s
  | w :: ws => run (next s w) ws

end MaddyVerif.Pool
