/-
Model of `internal/dmarc` (evaluate.go: ExtractFromDomain, FetchRecord, dmarcRecords,
EvaluateAlignment, isAligned; verifier.go: Verifier.FetchRecord + Verifier.Apply) and of the DMARC
part of `internal/msgpipeline/check_runner.go: applyResults`, as they are after the C07 `fix:`
commits (case-insensitive organizational domain; DMARC-record filtering before the organizational
domain fallback; SPF temperror only for an aligned identity; counting of From fields).

What is a parameter (library code, not maddy's):
* `Prims`: strings.EqualFold, strings.ToLower, publicsuffix.PublicSuffix, publicsuffix.EffectiveTLDPlusOne;
* the header parsers net/mail.ParseAddressList + address.Split: a From field arrives as `FieldParse`;
* the TXT classification `strings.HasPrefix(txt, "v=DMARC1")` + go-msgauth `dmarc.Parse`: a TXT string
  arrives as `Txt` (junk / DMARC record with its parse result);
* the resolver: `Str → Lookup` (answer classes: TXT list, not found, temporary DNS error, any other error);
* `math/rand.Int31n(100)`: the oracle argument `rnd`.
Not modelled: the trace field `EvalResult.DKIMResult`/`SPFResult` (only used for logging), the
hand-off through `fetchCh` (a function composition here), a panicking resolver, resolvers that
return both TXT strings and an error.
Strings are lists of code points.  Core Lean only.
-/
namespace MaddyVerif.Dmarc

abbrev Str := List Nat

/-- Library primitives consulted by the code. -/
structure Prims where
  eqFold : Str → Str → Bool         -- strings.EqualFold
  lower : Str → Str                 -- strings.ToLower
  publicSuffix : Str → Str          -- publicsuffix.PublicSuffix (first result)
  etld1 : Str → Option Str          -- publicsuffix.EffectiveTLDPlusOne; `none` = error

inductive Mode | relaxed | strict
deriving DecidableEq, Repr

inductive Policy | none | quarantine | reject
deriving DecidableEq, Repr

/-- go-msgauth `dmarc.Record`, the fields the code reads.  `sp = none` is `SubdomainPolicy == ""`,
`pct = none` is `Percent == nil`. -/
structure Record where
  adkim : Mode
  aspf : Mode
  p : Policy
  sp : Option Policy
  pct : Option Nat
deriving DecidableEq, Repr

/-- `authres.ResultValue` (a Go string); `empty` is `""`. -/
inductive Val | none | pass | fail | softfail | neutral | temperror | permerror | policy | empty
deriving DecidableEq, Repr

/-- One element of the `[]authres.Result` slice handed to `Apply`. -/
inductive AuthRes
  | dkim (v : Val) (d : Str)                -- *authres.DKIMResult{Value, Domain}
  | spf (v : Val) (mailFrom helo : Str)     -- *authres.SPFResult{Value, From, Helo}
  | other                                   -- any other result type
deriving DecidableEq, Repr

/-! ### isAligned -/

/-- `isAligned(fromDomain, authDomain, mode)`. -/
def isAligned (P : Prims) (fromD authD : Str) (mode : Mode) : Bool :=
  match mode with
  | .strict => P.eqFold fromD authD
  | .relaxed =>
    let f := P.lower fromD
    let a := P.lower authD
    let tld := P.publicSuffix f
    if P.eqFold f tld then P.eqFold f a
    else match P.etld1 f with
      | none => false
      | some orgF => match P.etld1 a with
        | none => false
        | some orgA => P.eqFold orgF orgA

/-! ### ExtractFromDomain -/

/-- One `From` header field as seen through `mail.ParseAddressList` and `address.Split`:
`malformed` = ParseAddressList failed; `addrs l` = the parsed addresses, each with the domain
`address.Split` returned (`none` = Split failed). -/
inductive FieldParse
  | malformed
  | addrs (l : List (Option Str))
deriving DecidableEq, Repr

inductive ExtractErr | missingField | multipleFields | malformed | multipleAddrs | missingAddr | malformedAddr
deriving DecidableEq, Repr

/-- `ExtractFromDomain` over the list of `From` fields of the header (in header order). -/
def extractFromDomain : List FieldParse → Except ExtractErr Str
  | [] => .error .missingField
  | _ :: _ :: _ => .error .multipleFields
  | [.malformed] => .error .malformed
  | [.addrs l] =>
    if l.length > 1 then .error .multipleAddrs
    else match l with
      | [] => .error .missingAddr
      | a :: _ => match a with
        | none => .error .malformedAddr
        | some d => .ok d

/-! ### FetchRecord -/

/-- One TXT string: `junk` has no `v=DMARC1` prefix; `dmarc r` has it and `dmarc.Parse` gave `r`. -/
inductive Txt
  | junk
  | dmarc (parsed : Option Record)
deriving DecidableEq, Repr

/-- Answer classes of `Resolver.LookupTXT`: strings with nil error; `*net.DNSError` with
`IsNotFound`; `*net.DNSError` (not IsNotFound) with `Temporary()`; any other error. -/
inductive Lookup
  | ok (txts : List Txt)
  | notFound
  | temp
  | other
deriving DecidableEq, Repr

inductive FetchErr | dnsTemp | dnsOther | noOrgDomain | parse
deriving DecidableEq, Repr

/-- `dmarcRecords`: the TXT strings that are DMARC policies (here: their parse results). -/
def dmarcRecords : List Txt → List (Option Record)
  | [] => []
  | .junk :: r => dmarcRecords r
  | .dmarc p :: r => p :: dmarcRecords r

/-- The `LookupTXT` call plus the `err != nil` test after it. -/
def lookupTxts : Lookup → Except FetchErr (List Txt)
  | .ok t => .ok t
  | .notFound => .ok []
  | .temp => .error .dnsTemp
  | .other => .error .dnsOther

/-- The tail of FetchRecord: exactly one DMARC record, parsed. -/
def pickRecord (dom : Str) : List (Option Record) → Except FetchErr (Option (Str × Record))
  | [some r] => .ok (some (dom, r))
  | [none] => .error .parse
  | _ => .ok none

/-- The `if len(records) == 0 { … }` block of FetchRecord: the organizational domain is asked. -/
def fetchAtOrg (P : Prims) (dns : Str → Lookup) (fromD : Str) : Except FetchErr (Option (Str × Record)) :=
  match P.etld1 (P.lower fromD) with
  | none => .error .noOrgDomain
  | some org =>
    match lookupTxts (dns org) with
    | .error e => .error e
    | .ok txts2 => pickRecord org (dmarcRecords txts2)

/-- `FetchRecord(ctx, r, fromDomain)`: `.ok none` = no record, `.ok (some (policyDomain, record))`. -/
def fetchRecord (P : Prims) (dns : Str → Lookup) (fromD : Str) : Except FetchErr (Option (Str × Record)) :=
  match lookupTxts (dns fromD) with
  | .error e => .error e
  | .ok txts =>
    let recs := dmarcRecords txts
    if recs.isEmpty then fetchAtOrg P dns fromD
    else pickRecord fromD recs

/-! ### EvaluateAlignment -/

/-- The local variables of the loop in EvaluateAlignment. -/
structure Acc where
  spfAligned : Bool := false
  spfVal : Val := .empty            -- spfResult.Value
  spfTemp : Bool := false
  dkimAligned : Bool := false
  dkimPresent : Bool := false
  dkimTemp : Bool := false
deriving DecidableEq, Repr

/-- The SPF identity that is compared: MAIL FROM domain, HELO when MAIL FROM is empty. -/
def spfIdentity (fromI helo : Str) : Str := if fromI.isEmpty then helo else fromI

def step (P : Prims) (fromD : Str) (rec : Record) (a : Acc) : AuthRes → Acc
  | .dkim v d =>
    let al := isAligned P fromD d rec.adkim
    { a with dkimPresent := true,
             dkimAligned := a.dkimAligned || (al && v == .pass),
             dkimTemp := a.dkimTemp || (al && v == .temperror) }
  | .spf v f h =>
    let al := isAligned P fromD (spfIdentity f h) rec.aspf
    { a with spfVal := v,
             spfAligned := a.spfAligned || (al && v == .pass),
             spfTemp := a.spfTemp || (al && v == .temperror) }
  | .other => a

inductive Reason | lookupFailed | notEnough | dkimTemp | spfTemp | noAligned | blank
deriving DecidableEq, Repr

structure Eval where
  val : Val
  reason : Reason
  spfAligned : Bool
  dkimAligned : Bool
deriving DecidableEq, Repr

/-- `EvaluateAlignment(fromDomain, record, results)`. -/
def evaluateAlignment (P : Prims) (fromD : Str) (rec : Record) (results : List AuthRes) : Eval :=
  let a := results.foldl (step P fromD rec) {}
  let mk (v : Val) (r : Reason) : Eval := ⟨v, r, a.spfAligned, a.dkimAligned⟩
  if !a.dkimPresent || a.spfVal == .empty then mk .none .notEnough
  else if a.dkimTemp && !a.dkimAligned && !a.spfAligned then mk .temperror .dkimTemp
  else if a.spfTemp && !a.dkimAligned && !a.spfAligned then mk .temperror .spfTemp
  else if a.dkimAligned || a.spfAligned then mk .pass .blank
  else mk .fail .noAligned

/-! ### Verifier.FetchRecord + Verifier.Apply -/

/-- What `Verifier.FetchRecord` sends through `fetchCh`. -/
inductive VerifyData
  | extractErr (e : ExtractErr)                 -- recordErr from ExtractFromDomain, fromDomain ""
  | fetchErr (fromD : Str) (e : FetchErr)       -- recordErr from FetchRecord
  | noRecord (fromD : Str)
  | record (fromD policyD : Str) (r : Record)
deriving DecidableEq, Repr

def verifierFetch (P : Prims) (dns : Str → Lookup) (hdr : List FieldParse) : VerifyData :=
  match extractFromDomain hdr with
  | .error e => .extractErr e
  | .ok fromD =>
    match fetchRecord P dns fromD with
    | .error e => .fetchErr fromD e
    | .ok none => .noRecord fromD
    | .ok (some (pd, r)) => .record fromD pd r

/-- `Verifier.Apply`: the evaluation and the policy to apply.  `rnd` is `rand.Int31n(100)`. -/
def apply (P : Prims) (data : VerifyData) (results : List AuthRes) (rnd : Nat) : Eval × Policy :=
  match data with
  | .extractErr _ => (⟨.permerror, .lookupFailed, false, false⟩, .none)
  | .fetchErr _ e =>
    -- `dnsErr, ok := recordErr.(*net.DNSError); ok && dnsErr.Temporary()`
    if e = .dnsTemp then (⟨.temperror, .lookupFailed, false, false⟩, .reject)
    else (⟨.permerror, .lookupFailed, false, false⟩, .none)
  | .noRecord _ => (⟨.none, .blank, false, false⟩, .none)
  | .record fromD policyD r =>
    let res := evaluateAlignment P fromD r results
    if res.val = .pass ∨ res.val = .none then (res, .none)
    else if (match r.pct with | some pct => decide (rnd > pct) | none => false) then (res, .none)
    else
      let policy := match r.sp with
        | some sp => if !P.eqFold policyD fromD then sp else r.p
        | none => r.p
      (res, policy)

/-- The whole verifier: header + resolver + authentication results → evaluation and policy. -/
def verify (P : Prims) (dns : Str → Lookup) (hdr : List FieldParse) (results : List AuthRes) (rnd : Nat) :
    Eval × Policy :=
  apply P (verifierFetch P dns hdr) results rnd

/-! ### checkRunner.applyResults (DMARC part) -/

/-- What the pipeline does with the message: refuse with an SMTP reply (basic code, enhanced
class.subject.detail) or go on with the quarantine flag of the message metadata. -/
inductive Reply
  | refuse (code : Nat) (ec0 ec1 ec2 : Nat)
  | accept (quarantine : Bool)
deriving DecidableEq, Repr

/-- `applyResults` with `doDMARC`: `priorQ` is `mergedRes.Quarantine` (set by earlier checks). -/
def applyResults (priorQ : Bool) (res : Eval × Policy) : Reply :=
  match res.2 with
  | .reject =>
    if res.1.val = .temperror then .refuse 450 4 7 1 else .refuse 550 5 7 1
  | .quarantine => .accept true
  | .none => .accept priorQ

end MaddyVerif.Dmarc
